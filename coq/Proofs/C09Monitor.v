(* C09: the monitor of Run/C09.v accepts every run of the model, and the model's diff with
   itself is empty. *)
From SC Require Import Lib.Prelude Lib.Int Lib.Host Model.Timelock Model.TimelockGhost Model.TimelockController
  Proofs.TimelockGhost Proofs.Timelock Proofs.C08Final Proofs.Controller Proofs.C09Final Run.C09.

(* ---------------- reflexivity of the boolean equalities ---------------- *)
Lemma oz_eqb_refl a : oz_eqb a a = true.
Proof. destruct a; cbn; auto using Z.eqb_refl. Qed.
Lemma on_eqb_refl a : on_eqb a a = true.
Proof. destruct a; cbn; auto using N.eqb_refl. Qed.
Lemma outcome_eqb_refl a : outcome_eqb a a = true.
Proof. destruct a; cbn; auto using on_eqb_refl. Qed.
Lemma bool_eqb_refl b : Bool.eqb b b = true.
Proof. destruct b; reflexivity. Qed.
Lemma opview_eqb_refl v : opview_eqb v v = true.
Proof. unfold opview_eqb. rewrite Z.eqb_refl, opstate_eqb_refl, !bool_eqb_refl. reflexivity. Qed.
Lemma list_eqb_refl {A} (f : A -> A -> bool) l : (forall x, f x x = true) -> list_eqb f l l = true.
Proof. intros H. induction l; cbn; auto. rewrite H, IHl. reflexivity. Qed.
Lemma obs_eqb_refl o : obs_eqb o o = true.
Proof.
  unfold obs_eqb. rewrite Z.eqb_refl, oz_eqb_refl, on_eqb_refl. cbn [andb].
  rewrite !list_eqb_refl; auto.
  - intros x. rewrite N.eqb_refl, Z.eqb_refl. reflexivity.
  - apply N.eqb_refl.
  - intros x. rewrite N.eqb_refl, on_eqb_refl. reflexivity.
  - intros x. rewrite N.eqb_refl. apply list_eqb_refl, N.eqb_refl.
  - intros x. rewrite N.eqb_refl, Z.eqb_refl. reflexivity.
  - intros x. rewrite !N.eqb_refl, oz_eqb_refl. reflexivity.
  - intros x. rewrite N.eqb_refl, opview_eqb_refl. reflexivity.
Qed.

(* ---------------- lists built by [observe] ---------------- *)
Lemma alist_get_map {V} (f : N -> V) l i :
  alist_get i (map (fun j => (j, f j)) l) = if existsb (N.eqb i) l then Some (f i) else None.
Proof.
  induction l as [|j l IH]; cbn [map alist_get existsb]; [reflexivity|].
  destruct (N.eqb i j) eqn:E; cbn [orb]; [|exact IH].
  apply N.eqb_eq in E. subst j. reflexivity.
Qed.
Lemma forallb_map {A B} (g : A -> B) (P : B -> bool) l : forallb P (map g l) = forallb (fun x => P (g x)) l.
Proof. induction l; cbn; auto. rewrite IHl. reflexivity. Qed.
Lemma existsb_in l i : In i l -> existsb (N.eqb i) l = true.
Proof. intros H. apply existsb_exists. exists i. split; [exact H|apply N.eqb_refl]. Qed.
Lemma existsb_in_iff l i : existsb (N.eqb i) l = true <-> In i l.
Proof.
  split; [|apply existsb_in]. intros H. apply existsb_exists in H. destruct H as (x & Hx & E).
  apply N.eqb_eq in E. subst. exact Hx.
Qed.
Lemma list_eqb_map2 {A B} (P : B -> B -> bool) (f g : A -> B) l :
  (forall x, In x l -> P (f x) (g x) = true) -> list_eqb P (map f l) (map g l) = true.
Proof.
  induction l as [|a l IH]; intros H; cbn [map list_eqb]; [reflexivity|].
  rewrite H by (left; reflexivity). cbn [andb]. apply IH. intros x Hx. apply H. right. exact Hx.
Qed.
Lemma list_eqb_app {A} (P : A -> A -> bool) a a' b b' :
  list_eqb P a a' = true -> list_eqb P b b' = true -> list_eqb P (a ++ b) (a' ++ b') = true.
Proof.
  revert a'. induction a as [|x a IH]; intros [|y a'] Ha Hb; cbn [app list_eqb] in *; try discriminate; auto.
  apply andb_true_iff in Ha. destruct Ha as [-> Ha]. cbn [andb]. apply IH; assumption.
Qed.
Lemma list_eqb_flat_map {A B} (P : B -> B -> bool) (F G : A -> list B) l :
  (forall x, In x l -> list_eqb P (F x) (G x) = true) -> list_eqb P (flat_map F l) (flat_map G l) = true.
Proof.
  induction l as [|a l IH]; intros H; cbn [flat_map]; [reflexivity|].
  apply list_eqb_app; [apply H; left; reflexivity|]. apply IH. intros x Hx. apply H. right. exact Hx.
Qed.

Lemma in_nseq k : forall from x, In x (nseq k from) <-> (from <= x < from + N.of_nat k)%N.
Proof.
  induction k as [|k IH]; intros from x; cbn [nseq In].
  - split; [tauto|lia].
  - rewrite IH. split; [intros [<-|H]|intros H]; lia.
Qed.
Lemma in_upto n x : In x (upto n) <-> (1 <= x <= n)%N.
Proof. unfold upto. rewrite in_nseq. lia. Qed.

Lemma has_get_row (f : addr -> role -> option Z) accounts r0 a r rest :
  has_get (map (fun a0 => (a0, r0, f a0 r0)) accounts ++ rest) a r
  = if existsb (N.eqb a) accounts && N.eqb r r0 then Some (f a r) else has_get rest a r.
Proof.
  induction accounts as [|a0 accounts IHa]; cbn [map app has_get existsb fst snd]; [reflexivity|].
  rewrite IHa. destruct (N.eqb a a0) eqn:Ea; destruct (N.eqb r r0) eqn:Er; cbn [orb andb]; try reflexivity.
  all: try (apply N.eqb_eq in Ea; apply N.eqb_eq in Er; subst; reflexivity).
  all: try (rewrite ?andb_false_r; reflexivity).
Qed.

Lemma has_get_model (f : addr -> role -> option Z) accounts roles a r :
  has_get (flat_map (fun r => map (fun a => (a, r, f a r)) accounts) roles) a r
  = if existsb (N.eqb a) accounts && existsb (N.eqb r) roles then Some (f a r) else None.
Proof.
  induction roles as [|r0 roles IH]; cbn [flat_map existsb].
  - rewrite andb_false_r. reflexivity.
  - rewrite has_get_row, IH. destruct (existsb (N.eqb a) accounts); cbn [andb]; [|reflexivity].
    destruct (N.eqb r r0); reflexivity.
Qed.

Section WithHeader.
  Variable h : header.
  Let hash := hash_of (h_tbl h).
  Let aid := aid_of (h_avs h).
  Let cf := h_cfg h.
  Notation step := (step hash aid cf).
  Notation step_ok := (step_ok hash aid cf).
  Notation observe := (observe h).
  Hypothesis Hroles : (3 <=? h_nroles h)%N = true.

  Lemma executor_in_roles : In EXECUTOR (upto (h_nroles h)).
  Proof. apply in_upto. apply N.leb_le in Hroles. unfold EXECUTOR. lia. Qed.

  Lemma ob_count_executor s : ob_count (observe s) EXECUTOR = role_count (acs s) EXECUTOR.
  Proof.
    unfold ob_count, Run.C09.observe, observe_u; cbn [o_cnt].
    rewrite alist_get_map, (existsb_in _ _ executor_in_roles). reflexivity.
  Qed.

  Lemma ob_has_holds s a r : holds (acs s) a r = true -> ob_has (observe s) a r = true.
  Proof.
    unfold ob_has, ob_has_or, Run.C09.observe, observe_u; cbn [o_has]. rewrite has_get_model.
    destruct (existsb (N.eqb a) (upto (h_naddr h)) && existsb (N.eqb r) (upto (h_nroles h))); [|reflexivity].
    unfold holds. destruct (has_role (acs s) a r); [reflexivity|discriminate].
  Qed.

  Lemma ops_get_model s i : In i (h_ids h) -> alist_get i (o_ops (observe s)) = Some (view (ctl s) i).
  Proof.
    intros Hi. unfold Run.C09.observe, observe_u; cbn [o_ops]. rewrite alist_get_map, (existsb_in _ _ Hi). reflexivity.
  Qed.

  (* ---------------- coherence ---------------- *)
  Lemma ginv_mark_range t g i : ginv t g -> 0 <= mark t i <= MAXU32.
  Proof.
    intros [Hn Hg]. specialize (Hg i). destruct (alist_get i g) as [[a d m|]|]; cbn [entry_ok] in Hg.
    - destruct Hg as (-> & Ha & _ & Hd). pose proof (sat_add_u32_range a d). lia.
    - rewrite Hg, MAXU32_val. lia.
    - rewrite Hg, MAXU32_val. lia.
  Qed.

  Lemma view_coherent_model t i : 0 <= mark t i <= MAXU32 -> view_coherent (now t) (view t i) = true.
  Proof.
    intros H. unfold view_coherent, view; cbn [v_ledger v_state v_exists v_pending v_ready v_done].
    replace (in_u32 (mark t i)) with true by (symmetry; apply in_u32_iff; exact H).
    unfold operation_exists, is_operation_pending, is_operation_ready, is_operation_done.
    rewrite !bool_eqb_refl. cbn [andb]. rewrite !andb_true_r.
    unfold state_of, state_of_mark, UNSET_LEDGER, DONE_LEDGER. apply opstate_eqb_refl.
  Qed.

  Lemma obs_coherent_model s g : ginv (ctl s) g -> obs_coherent (observe s) = true.
  Proof.
    intros Hg. unfold obs_coherent, Run.C09.observe, observe_u; cbn [o_now o_ops].
    pose proof Hg as [Hn _].
    replace (2 <=? now (ctl s)) with true by (symmetry; apply Z.leb_le; lia).
    replace (in_u32 (now (ctl s))) with true by (symmetry; apply in_u32_iff; lia). cbn [andb].
    rewrite forallb_map. apply forallb_forall. intros i _. cbn [snd].
    apply view_coherent_model. apply (ginv_mark_range _ g). exact Hg.
  Qed.

  (* ---------------- what a successful call does to the stored ledgers ---------------- *)
  Definition executed_ids (c : call) (pairs : list (ctx * meta)) : list id :=
    map hash (ops_of cf pairs) ++ match c with ExecuteOp o _ _ _ => [hash o] | _ => [] end.

  Lemma consumed_marks direct s xa pairs s1 :
    consumed hash cf direct s xa pairs s1 ->
    now (ctl s1) = now (ctl s) /\ min_delay (ctl s1) = min_delay (ctl s) /\
    (forall i, In i (map hash (ops_of cf pairs)) -> state_of (ctl s) i = Ready /\ mark (ctl s1) i = 1) /\
    (forall i, ~ In i (map hash (ops_of cf pairs)) -> mark (ctl s1) i = mark (ctl s) i).
  Proof.
    intros (_ & _ & _ & He). destruct (exec_all_spec hash _ _ _ He) as (Hn & Hm & Hall & Hout & _).
    split; [exact Hn|]. split; [exact Hm|]. split; [|exact Hout].
    intros i Hi. apply in_map_iff in Hi. destruct Hi as (o & <- & Ho). destruct (Hall o Ho) as (Hr & Hd & _). auto.
  Qed.

  Lemma state_same_mark t t' i : mark t' i = mark t i -> now t' = now t -> state_of t' i = state_of t i.
  Proof. intros Hm Hn. unfold state_of. rewrite Hm, Hn. reflexivity. Qed.

  (* the per-id facts the monitor checks *)
  Lemma ledger_transition s c s' r pairs s1 g i :
    ginv (ctl s) g ->
    consumed hash cf (is_direct c) s (a_exec (authz_of c)) pairs s1 -> own_effect hash cf c s s1 s' r ->
    let ex := executed_ids c pairs in
    (In i ex -> state_of (ctl s) i = Ready /\ state_of (ctl s') i = Done) /\
    (~ In i ex ->
       match c with
       | ScheduleOp o d _ _ =>
           if N.eqb i (hash o)
           then state_of (ctl s) i = Unset /\ mark (ctl s') i = sat_add_u32 (now (ctl s)) d
           else mark (ctl s') i = mark (ctl s) i
       | CancelOp j _ _ =>
           if N.eqb i j
           then is_operation_pending (ctl s) i = true /\ state_of (ctl s') i = Unset
           else mark (ctl s') i = mark (ctl s) i
       | _ => mark (ctl s') i = mark (ctl s) i
       end) /\
    (match c with
     | Advance n => 0 <= n /\ now (ctl s') = now (ctl s) + n
     | _ => now (ctl s') = now (ctl s)
     end).
  Proof.
    intros Hg Hc Ho ex. subst ex. unfold executed_ids.
    destruct (consumed_marks _ _ _ _ _ Hc) as (Hn1 & Hm1 & Hin1 & Hout1).
    destruct c as [o d p au|o x tgt au|j k au|d au|a ro k au|a ro k au|ro k au|ro ar au|new lu au|au|au|metas ctxs xa|n];
      cbn [own_effect] in Ho; rewrite ?app_nil_r.
    - (* schedule *)
      destruct Ho as (_ & t & Hs & -> & _). apply schedule_ok in Hs. destruct Hs as (_ & Hm0 & m & _ & _ & -> & _).
      cbn [with_ctl ctl]. split; [|split; [|cbn; exact Hn1]].
      + intros Hi. destruct (Hin1 i Hi) as [Hr Hd]. split; [exact Hr|].
        assert (i <> hash o) by (intros ->; lia).
        apply state_done_iff. rewrite mark_set_neq by assumption. exact Hd.
      + intros Hi. destruct (N.eqb i (hash o)) eqn:E.
        * apply N.eqb_eq in E. subst i. rewrite mark_set_eq, Hn1. split; [|reflexivity].
          apply state_unset_iff. rewrite <- (Hout1 _ Hi). exact Hm0.
        * apply N.eqb_neq in E. rewrite mark_set_neq by exact E. apply Hout1. exact Hi.
    - (* execute *)
      destruct Ho as (_ & t & Hs & _ & _ & -> & _). apply set_execute_ok in Hs. destruct Hs as (Hr & _ & ->).
      cbn [ctl]. split; [|split; [|cbn; exact Hn1]].
      + intros Hi. apply in_app_or in Hi. destruct Hi as [Hi|[<-|[]]].
        * destruct (Hin1 i Hi) as [Hr1 Hd]. split; [exact Hr1|].
          assert (i <> hash o).
          { intros ->. apply state_ready_iff in Hr. lia. }
          apply state_done_iff. rewrite mark_set_neq by assumption. exact Hd.
        * split; [|apply state_done_iff; apply mark_set_eq].
          destruct (in_dec N.eq_dec (hash o) (map hash (ops_of cf pairs))) as [Hi|Hni].
          -- destruct (Hin1 _ Hi) as [_ Hd]. apply state_ready_iff in Hr. lia.
          -- rewrite <- (state_same_mark (ctl s) (ctl s1)); [exact Hr|apply Hout1; exact Hni|exact Hn1].
      + intros Hi. assert (Hne : i <> hash o) by (intros ->; apply Hi; apply in_or_app; right; left; reflexivity).
        rewrite mark_set_neq by exact Hne. apply Hout1. intros Hx. apply Hi. apply in_or_app. left. exact Hx.
    - (* cancel *)
      destruct Ho as (_ & t & Hs & -> & _). apply cancel_ok in Hs. destruct Hs as (Hp & ->).
      cbn [with_ctl ctl]. split; [|split; [|cbn; exact Hn1]].
      + intros Hi. destruct (Hin1 i Hi) as [Hr Hd]. split; [exact Hr|].
        assert (i <> j).
        { intros ->. destruct Hp as [Hp|Hp]; [apply state_waiting_iff in Hp|apply state_ready_iff in Hp]; lia. }
        apply state_done_iff. rewrite mark_del_neq by assumption. exact Hd.
      + intros Hi. destruct (N.eqb i j) eqn:E.
        * apply N.eqb_eq in E. subst i. split; [|apply state_unset_iff; apply mark_del_eq].
          unfold is_operation_pending.
          rewrite <- (state_same_mark (ctl s) (ctl s1)); [|apply Hout1; exact Hi|exact Hn1].
          destruct Hp as [-> | ->]; reflexivity.
        * apply N.eqb_neq in E. rewrite mark_del_neq by exact E. apply Hout1. exact Hi.
    - destruct Ho as (_ & -> & _). cbn [with_ctl ctl]. split; [|split; [|cbn; exact Hn1]].
      + intros Hi. destruct (Hin1 i Hi) as [Hr Hd]. split; [exact Hr|]. apply state_done_iff. exact Hd.
      + intros Hi. apply Hout1. exact Hi.
    - destruct Ho as (_ & a' & _ & -> & _). cbn [with_acs ctl]. split; [|split; [|exact Hn1]].
      + intros Hi. destruct (Hin1 i Hi) as [Hr Hd]. split; [exact Hr|]. apply state_done_iff. exact Hd.
      + intros Hi. apply Hout1. exact Hi.
    - destruct Ho as (_ & a' & _ & -> & _). cbn [with_acs ctl]. split; [|split; [|exact Hn1]].
      + intros Hi. destruct (Hin1 i Hi) as [Hr Hd]. split; [exact Hr|]. apply state_done_iff. exact Hd.
      + intros Hi. apply Hout1. exact Hi.
    - destruct Ho as (a' & _ & -> & _). cbn [with_acs ctl]. split; [|split; [|exact Hn1]].
      + intros Hi. destruct (Hin1 i Hi) as [Hr Hd]. split; [exact Hr|]. apply state_done_iff. exact Hd.
      + intros Hi. apply Hout1. exact Hi.
    - destruct Ho as (-> & _). cbn [with_acs ctl]. split; [|split; [|exact Hn1]].
      + intros Hi. destruct (Hin1 i Hi) as [Hr Hd]. split; [exact Hr|]. apply state_done_iff. exact Hd.
      + intros Hi. apply Hout1. exact Hi.
    - destruct Ho as (p & _ & -> & _). cbn [with_acs ctl]. split; [|split; [|exact Hn1]].
      + intros Hi. destruct (Hin1 i Hi) as [Hr Hd]. split; [exact Hr|]. apply state_done_iff. exact Hd.
      + intros Hi. apply Hout1. exact Hi.
    - destruct Ho as (pa & _ & -> & _). cbn [with_acs ctl]. split; [|split; [|exact Hn1]].
      + intros Hi. destruct (Hin1 i Hi) as [Hr Hd]. split; [exact Hr|]. apply state_done_iff. exact Hd.
      + intros Hi. apply Hout1. exact Hi.
    - destruct Ho as (_ & -> & _). cbn [with_acs ctl]. split; [|split; [|exact Hn1]].
      + intros Hi. destruct (Hin1 i Hi) as [Hr Hd]. split; [exact Hr|]. apply state_done_iff. exact Hd.
      + intros Hi. apply Hout1. exact Hi.
    - destruct Ho as (-> & _). split; [|split; [|exact Hn1]].
      + intros Hi. destruct (Hin1 i Hi) as [Hr Hd]. split; [exact Hr|]. apply state_done_iff. exact Hd.
      + intros Hi. apply Hout1. exact Hi.
    - destruct Ho as (Hn0 & _ & -> & _). cbn [with_ctl ctl]. split; [|split; [|split; [exact Hn0|cbn; lia]]].
      + intros Hi. destruct (Hin1 i Hi) as [Hr Hd]. split; [exact Hr|]. apply state_done_iff. exact Hd.
      + intros Hi. apply Hout1. exact Hi.
  Qed.

  (* ---------------- the checks of [obs_step_ok], one by one ---------------- *)
  Lemma pair_ok_model direct s xa pairs :
    Forall (pair_good cf direct xa (acs s)) pairs -> forallb (pair_ok cf direct xa (observe s)) pairs = true.
  Proof.
    intros Hf. apply forallb_forall. intros p Hp. rewrite Forall_forall in Hf.
    destruct (Hf p Hp) as (o & Ho & Hx). unfold pair_ok. rewrite Ho, ob_count_executor.
    destruct (role_count (acs s) EXECUTOR =? 0) eqn:E0; [reflexivity|]. apply Z.eqb_neq in E0.
    destruct Hx as [Hx|(x & -> & Hh & Hs)]; [contradiction|].
    rewrite (ob_has_holds _ _ _ Hh). cbn [andb].
    destruct Hs as [[-> ->]|[Hne Hxa]].
    - rewrite N.eqb_refl. reflexivity.
    - replace (N.eqb x (self cf)) with false by (symmetry; apply N.eqb_neq; exact Hne). exact Hxa.
  Qed.

  Lemma radmin_get_model s r :
    alist_get r (o_radmin (observe s)) = if existsb (N.eqb r) (upto (h_nroles h)) then Some (role_admin (acs s) r) else None.
  Proof. unfold Run.C09.observe, observe_u; cbn [o_radmin]. apply alist_get_map. Qed.

  Lemma role_ok_model s c s1 s' r : own_effect hash cf c s s1 s' r -> role_ok c (observe s) = true.
  Proof.
    intros Ho. destruct c as [o d p au|o x tgt au|j k au|d au|a ro k au|a ro k au|ro k au|ro ar au|new lu au|au|au|metas ctxs xa|n];
      cbn [own_effect] in Ho; cbn [role_ok]; try reflexivity.
    - apply ob_has_holds. apply Ho.
    - rewrite ob_count_executor. destruct (role_count (acs s) EXECUTOR =? 0) eqn:E0; [reflexivity|]. apply Z.eqb_neq in E0.
      destruct Ho as ([H0|(e & -> & Hh)] & _); [contradiction|]. apply ob_has_holds. exact Hh.
    - apply ob_has_holds. apply Ho.
    - destruct Ho as (Hi & _). unfold is_admin_or_admin_role in Hi. apply orb_true_iff in Hi. apply orb_true_iff.
      destruct Hi as [Hi|Hi].
      + left. unfold Run.C09.observe, observe_u; cbn [o_admin]. destruct (admin (acs s)) as [ad|]; [|discriminate].
        cbn [on_eqb]. rewrite N.eqb_sym. exact Hi.
      + right. rewrite radmin_get_model. destruct (existsb (N.eqb ro) (upto (h_nroles h))); [|reflexivity].
        destruct (role_admin (acs s) ro) as [ar|]; [|discriminate]. apply ob_has_holds. exact Hi.
    - destruct Ho as (Hi & _). unfold is_admin_or_admin_role in Hi. apply orb_true_iff in Hi. apply orb_true_iff.
      destruct Hi as [Hi|Hi].
      + left. unfold Run.C09.observe, observe_u; cbn [o_admin]. destruct (admin (acs s)) as [ad|]; [|discriminate].
        cbn [on_eqb]. rewrite N.eqb_sym. exact Hi.
      + right. rewrite radmin_get_model. destruct (existsb (N.eqb ro) (upto (h_nroles h))); [|reflexivity].
        destruct (role_admin (acs s) ro) as [ar|]; [|discriminate]. apply ob_has_holds. exact Hi.
  Qed.

  Lemma trans_ok_refl c i ex a : trans_ok hash c i ex a a = true.
  Proof. destruct a; reflexivity. Qed.

  Lemma trans_ok_advance n i ex nw nw' r :
    nw <= nw' -> trans_ok hash (Advance n) i ex (state_of_mark nw r) (state_of_mark nw' r) = true.
  Proof.
    intros Hle.
    destruct (state_of_mark_cases nw r) as [[? ->]|[[? ->]|[(?&?&?&->)|(?&?&?&->)]]];
    destruct (state_of_mark_cases nw' r) as [[? ->]|[[? ->]|[(?&?&?&->)|(?&?&?&->)]]];
    try reflexivity; try lia.
  Qed.

  Lemma op_step_ok_model s c s' r pairs s1 g i :
    ginv (ctl s) g ->
    consumed hash cf (is_direct c) s (a_exec (authz_of c)) pairs s1 -> own_effect hash cf c s s1 s' r ->
    In i (h_ids h) ->
    op_step_ok hash c (executed_ids c pairs) (observe s) (i, view (ctl s') i) = true.
  Proof.
    intros Hg Hc Ho Hi. unfold op_step_ok. rewrite (ops_get_model s i Hi).
    cbn [view v_state v_ledger v_pending].
    destruct (ledger_transition s c s' r pairs s1 g i Hg Hc Ho) as (Hin & Hout & Hnow).
    destruct (existsb (N.eqb i) (executed_ids c pairs)) eqn:Eex.
    - apply existsb_in_iff in Eex. destruct (Hin Eex) as [-> ->]. cbn [trans_ok]. rewrite (existsb_in _ _ Eex). reflexivity.
    - assert (Hni : ~ In i (executed_ids c pairs)) by (rewrite <- existsb_in_iff, Eex; discriminate).
      specialize (Hout Hni). pose proof Hg as [Hn2 _].
      destruct c as [o d p au|o x tgt au|j k au|d au|a ro k au|a ro k au|ro k au|ro ar au|new lu au|au|au|metas ctxs xa|n];
        try (rewrite (state_same_mark (ctl s) (ctl s') i Hout Hnow), trans_ok_refl, Hout, Z.eqb_refl; reflexivity).
      + (* schedule *)
        destruct (N.eqb i (hash o)) eqn:E.
        * destruct Hout as [Hu Hm]. rewrite Hu, Hm. unfold Run.C09.observe, observe_u; cbn [o_now]. rewrite Z.eqb_refl.
          cbn [own_effect] in Ho. destruct Ho as (_ & t & Hs & _). apply schedule_ok in Hs. destruct Hs as (Hd & _).
          assert (Hr : 2 <= mark (ctl s') i <= MAXU32).
          { rewrite Hm. destruct (consumed_marks _ _ _ _ _ Hc) as (Hn1 & _).
            pose proof (sat_add_u32_range (now (ctl s)) d). lia. }
          cbn [andb opstate_eqb]. rewrite andb_true_r.
          destruct (state_of (ctl s') i) eqn:Es; cbn [trans_ok]; try exact E; try reflexivity.
          apply state_done_iff in Es. lia.
        * rewrite (state_same_mark (ctl s) (ctl s') i Hout Hnow), trans_ok_refl, Hout, Z.eqb_refl. reflexivity.
      + (* cancel *)
        destruct (N.eqb i j) eqn:E.
        * destruct Hout as [Hp Hu]. rewrite Hu, Hp. cbn [andb opstate_eqb]. rewrite andb_true_r.
          unfold is_operation_pending in Hp. destruct (state_of (ctl s) i); cbn in Hp; try discriminate; cbn [trans_ok]; exact E.
        * rewrite (state_same_mark (ctl s) (ctl s') i Hout Hnow), trans_ok_refl, Hout, Z.eqb_refl. reflexivity.
      + (* advance *)
        destruct Hnow as [Hn0 Hnow]. unfold state_of. rewrite Hout, Z.eqb_refl, andb_true_r.
        apply trans_ok_advance. lia.
  Qed.

  (* role lists *)
  Lemma has_role_ext a a' x r : mem_list a' r = mem_list a r -> has_role a' x r = has_role a x r.
  Proof. intros H. unfold has_role. rewrite H. reflexivity. Qed.
  Lemma role_count_ext a a' r : mem_list a' r = mem_list a r -> role_count a' r = role_count a r.
  Proof. intros H. unfold role_count. rewrite H. reflexivity. Qed.

  Lemma has_eqb_refl x : has_eqb x x = true.
  Proof. unfold has_eqb. rewrite !N.eqb_refl, oz_eqb_refl. reflexivity. Qed.

  Lemma roles_same_model s s' :
    (forall r, mem_list (acs s') r = mem_list (acs s) r) -> existing (acs s') = existing (acs s) ->
    roles_same (observe s) (observe s') = true.
  Proof.
    intros Hm He. unfold roles_same, Run.C09.observe, observe_u; cbn [o_has o_cnt o_mem o_existing].
    rewrite He, (list_eqb_refl N.eqb) by apply N.eqb_refl. rewrite andb_true_r.
    repeat (apply andb_true_iff; split).
    - apply list_eqb_flat_map. intros r _. apply list_eqb_map2. intros a _.
      rewrite (has_role_ext _ _ a r (Hm r)). apply has_eqb_refl.
    - apply list_eqb_map2. intros r _. cbn [fst snd]. rewrite (role_count_ext _ _ r (Hm r)), N.eqb_refl, Z.eqb_refl. reflexivity.
    - apply list_eqb_map2. intros r _. cbn [fst snd]. rewrite (Hm r), N.eqb_refl. apply list_eqb_refl, N.eqb_refl.
  Qed.

  Lemma roles_same_except_model ro s s' :
    (forall r, r <> ro -> mem_list (acs s') r = mem_list (acs s) r) ->
    roles_same_except ro (observe s) (observe s') = true.
  Proof.
    intros Hm. unfold roles_same_except, Run.C09.observe, observe_u; cbn [o_has o_cnt o_mem].
    repeat (apply andb_true_iff; split).
    - apply list_eqb_flat_map. intros r _. apply list_eqb_map2. intros a _. cbn [fst snd].
      destruct (N.eq_dec r ro) as [->|Hr].
      + rewrite !N.eqb_refl. apply orb_true_r.
      + rewrite (has_role_ext _ _ a r (Hm r Hr)), has_eqb_refl. reflexivity.
    - apply list_eqb_map2. intros r _. cbn [fst snd]. rewrite N.eqb_refl. cbn [andb].
      destruct (N.eq_dec r ro) as [->|Hr]; [rewrite N.eqb_refl; apply orb_true_r|].
      rewrite (role_count_ext _ _ r (Hm r Hr)), Z.eqb_refl. reflexivity.
    - apply list_eqb_map2. intros r _. cbn [fst snd]. rewrite N.eqb_refl. cbn [andb].
      destruct (N.eq_dec r ro) as [->|Hr]; [rewrite N.eqb_refl; apply orb_true_r|].
      rewrite (Hm r Hr), (list_eqb_refl N.eqb) by apply N.eqb_refl. reflexivity.
  Qed.

  Lemma radmin_same_model s s' : radmin (acs s') = radmin (acs s) -> radmin_same (observe s) (observe s') = true.
  Proof.
    intros H. unfold radmin_same, Run.C09.observe, observe_u; cbn [o_radmin].
    apply list_eqb_map2. intros r _. cbn [fst snd]. unfold role_admin. rewrite H, N.eqb_refl, on_eqb_refl. reflexivity.
  Qed.

  Lemma runs_model s s' (delta : N -> Z) :
    (forall a, crun_count s' a = crun_count s a + delta a) ->
    list_eqb (fun x y : N * Z => N.eqb (fst x) (fst y) && (snd y =? snd x + delta (fst x)))
             (o_runs (observe s)) (o_runs (observe s')) = true.
  Proof.
    intros H. unfold Run.C09.observe, observe_u; cbn [o_runs]. apply list_eqb_map2. intros a _. cbn [fst snd].
    rewrite N.eqb_refl, H, Z.eqb_refl. reflexivity.
  Qed.

  Lemma crun_count_ext s s' : cruns s' = cruns s -> forall a, crun_count s' a = crun_count s a + 0.
  Proof. intros H a. unfold crun_count. rewrite H. lia. Qed.

  Lemma roles_same_acs s s' : acs s' = acs s -> roles_same (observe s) (observe s') = true.
  Proof. intros H. apply roles_same_model; [intros r0|]; rewrite H; reflexivity. Qed.
  Lemma radmin_same_acs s s' : acs s' = acs s -> radmin_same (observe s) (observe s') = true.
  Proof. intros H. apply radmin_same_model. rewrite H. reflexivity. Qed.

  Lemma effects_ok_model s c s' r pairs s1 g :
    ginv (ctl s) g ->
    consumed hash cf (is_direct c) s (a_exec (authz_of c)) pairs s1 -> own_effect hash cf c s s1 s' r ->
    effects_ok c (observe s) (observe s') = true.
  Proof.
    intros Hg Hc Ho.
    destruct (ledger_transition s c s' r pairs s1 g 0%N Hg Hc Ho) as (_ & _ & Hnow).
    pose proof Hc as (Hacs1 & Hcr1 & _ & _). destruct (consumed_marks _ _ _ _ _ Hc) as (_ & Hmin1 & _ & _).
    unfold effects_ok.
    assert (ON : o_now (observe s') = now (ctl s') /\ o_now (observe s) = now (ctl s)) by (split; reflexivity).
    assert (OM : o_min (observe s') = min_delay (ctl s') /\ o_min (observe s) = min_delay (ctl s)) by (split; reflexivity).
    assert (OA : o_admin (observe s') = admin (acs s') /\ o_admin (observe s) = admin (acs s)) by (split; reflexivity).
    destruct ON as [-> ->]. destruct OM as [-> ->]. destruct OA as [-> ->].
    destruct c as [o d p au|o x tgt au|j k au|d au|a ro k au|a ro k au|ro k au|ro ar au|new lu au|au|au|metas ctxs xa|n];
      cbn [own_effect] in Ho.
    - (* schedule *)
      destruct Ho as (_ & t & Hs & -> & _). apply schedule_ok in Hs. destruct Hs as (_ & _ & m & _ & _ & -> & _).
      cbn [with_ctl ctl acs] in *. rewrite Hnow, Z.eqb_refl. cbn [set_mark min_delay]. rewrite Hmin1, oz_eqb_refl, Hacs1, on_eqb_refl. cbn [andb].
      apply andb_true_iff; split; [apply andb_true_iff; split|].
      + apply roles_same_acs. cbn. first [exact Hacs1|reflexivity].
      + apply radmin_same_acs. cbn. first [exact Hacs1|reflexivity].
      + apply (runs_model _ _ (fun _ => 0)). apply crun_count_ext. exact Hcr1.
    - (* execute *)
      destruct Ho as (_ & t & Hs & _ & -> & -> & _). apply set_execute_ok in Hs. destruct Hs as (_ & _ & ->).
      cbn [ctl acs] in *. rewrite Hnow, Z.eqb_refl. cbn [set_mark min_delay]. rewrite Hmin1, oz_eqb_refl, Hacs1, on_eqb_refl. cbn [andb].
      apply andb_true_iff; split; [apply andb_true_iff; split|].
      + apply roles_same_acs. cbn. first [exact Hacs1|reflexivity].
      + apply radmin_same_acs. cbn. first [exact Hacs1|reflexivity].
      + apply (runs_model _ _ (fun a => if N.eqb a (args o) then 1 else 0)). intros a.
        unfold crun_count at 1. cbn [cruns].
        destruct (N.eqb a (args o)) eqn:E.
        * apply N.eqb_eq in E. subst a. rewrite alist_get_set_eq. unfold crun_count. rewrite Hcr1. reflexivity.
        * apply N.eqb_neq in E. rewrite alist_get_set_neq by exact E. unfold crun_count. rewrite Hcr1. lia.
    - (* cancel *)
      destruct Ho as (_ & t & Hs & -> & _). apply cancel_ok in Hs. destruct Hs as (_ & ->).
      cbn [with_ctl ctl acs] in *. rewrite Hnow, Z.eqb_refl. cbn [del_mark min_delay]. rewrite Hmin1, oz_eqb_refl, Hacs1, on_eqb_refl. cbn [andb].
      apply andb_true_iff; split; [apply andb_true_iff; split|].
      + apply roles_same_acs. cbn. first [exact Hacs1|reflexivity].
      + apply radmin_same_acs. cbn. first [exact Hacs1|reflexivity].
      + apply (runs_model _ _ (fun _ => 0)). apply crun_count_ext. exact Hcr1.
    - (* update_delay *)
      destruct Ho as (_ & -> & _). cbn [with_ctl ctl acs] in *. rewrite Hnow, Z.eqb_refl. cbn [min_delay oz_eqb]. rewrite Z.eqb_refl, Hacs1, on_eqb_refl. cbn [andb].
      apply andb_true_iff; split; [apply andb_true_iff; split|].
      + apply roles_same_acs. cbn. first [exact Hacs1|reflexivity].
      + apply radmin_same_acs. cbn. first [exact Hacs1|reflexivity].
      + apply (runs_model _ _ (fun _ => 0)). apply crun_count_ext. exact Hcr1.
    - (* grant *)
      destruct Ho as (_ & a' & Hgr & -> & _). apply grant_no_auth_frame in Hgr. destruct Hgr as (G1 & G2 & G3 & G4 & G5).
      cbn [with_acs ctl acs] in *. rewrite Hnow, Z.eqb_refl, Hmin1, oz_eqb_refl, G1, on_eqb_refl. cbn [andb].
      apply andb_true_iff; split; [apply andb_true_iff; split; [apply andb_true_iff; split|]|].
      + apply roles_same_except_model. intros r0 Hr0. cbn [acs]. apply G4. exact Hr0.
      + apply (ob_has_holds (with_acs s1 a')). exact G5.
      + apply radmin_same_model. cbn [acs]. exact G3.
      + apply (runs_model _ _ (fun _ => 0)). apply crun_count_ext. exact Hcr1.
    - (* revoke *)
      destruct Ho as (_ & a' & Hgr & -> & _). apply revoke_no_auth_frame in Hgr. destruct Hgr as (G1 & G2 & G3 & G4 & G5).
      cbn [with_acs ctl acs] in *. rewrite Hnow, Z.eqb_refl, Hmin1, oz_eqb_refl, G1, on_eqb_refl. cbn [andb].
      apply andb_true_iff; split; [apply andb_true_iff; split; [apply andb_true_iff; split|]|].
      + apply roles_same_except_model. intros r0 Hr0. cbn [acs]. apply G4. exact Hr0.
      + apply ob_has_holds. exact G5.
      + apply radmin_same_model. cbn [acs]. exact G3.
      + apply (runs_model _ _ (fun _ => 0)). apply crun_count_ext. exact Hcr1.
    - (* renounce role *)
      destruct Ho as (a' & Hgr & -> & _). apply revoke_no_auth_frame in Hgr. destruct Hgr as (G1 & G2 & G3 & G4 & G5).
      cbn [with_acs ctl acs] in *. rewrite Hnow, Z.eqb_refl, Hmin1, oz_eqb_refl, G1, on_eqb_refl. cbn [andb].
      apply andb_true_iff; split; [apply andb_true_iff; split; [apply andb_true_iff; split|]|].
      + apply roles_same_except_model. intros r0 Hr0. cbn [acs]. apply G4. exact Hr0.
      + apply ob_has_holds. exact G5.
      + apply radmin_same_model. cbn [acs]. exact G3.
      + apply (runs_model _ _ (fun _ => 0)). apply crun_count_ext. exact Hcr1.
    - (* set_role_admin *)
      destruct Ho as (-> & _). cbn [with_acs ctl acs admin] in *. rewrite Hnow, Z.eqb_refl, Hmin1, oz_eqb_refl, on_eqb_refl. cbn [andb].
      apply andb_true_iff; split; [apply andb_true_iff; split|].
      + apply roles_same_model; [intros r0; reflexivity|reflexivity].
      + unfold Run.C09.observe, observe_u; cbn [o_radmin]. apply list_eqb_map2. intros r0 _. cbn [fst snd acs].
        rewrite N.eqb_refl. cbn [andb]. unfold role_admin; cbn [with_acs acs radmin].
        destruct (N.eqb r0 ro) eqn:E.
        * apply N.eqb_eq in E. subst r0. rewrite alist_get_set_eq. apply on_eqb_refl.
        * apply N.eqb_neq in E. rewrite alist_get_set_neq by exact E. apply on_eqb_refl.
      + apply (runs_model _ _ (fun _ => 0)). apply crun_count_ext. exact Hcr1.
    - (* transfer admin *)
      destruct Ho as (p & _ & -> & _). cbn [with_acs ctl acs admin] in *. rewrite Hnow, Z.eqb_refl, Hmin1, oz_eqb_refl, on_eqb_refl. cbn [andb].
      apply andb_true_iff; split; [apply andb_true_iff; split|].
      + apply roles_same_model; [intros r0; reflexivity|reflexivity].
      + apply radmin_same_model. reflexivity.
      + apply (runs_model _ _ (fun _ => 0)). apply crun_count_ext. exact Hcr1.
    - (* accept *)
      destruct Ho as (pa & _ & -> & _). cbn [with_acs ctl acs admin] in *. rewrite Hnow, Z.eqb_refl, Hmin1, oz_eqb_refl. cbn [andb].
      apply andb_true_iff; split; [apply andb_true_iff; split|].
      + apply roles_same_model; [intros r0; reflexivity|reflexivity].
      + apply radmin_same_model. reflexivity.
      + apply (runs_model _ _ (fun _ => 0)). apply crun_count_ext. exact Hcr1.
    - (* renounce admin *)
      destruct Ho as (_ & -> & _). cbn [with_acs ctl acs admin] in *. rewrite Hnow, Z.eqb_refl, Hmin1, oz_eqb_refl. cbn [andb on_eqb].
      apply andb_true_iff; split; [apply andb_true_iff; split|].
      + apply roles_same_model; [intros r0; reflexivity|reflexivity].
      + apply radmin_same_model. reflexivity.
      + apply (runs_model _ _ (fun _ => 0)). apply crun_count_ext. exact Hcr1.
    - (* check_auth *)
      destruct Ho as (-> & _). rewrite Hnow, Z.eqb_refl, Hmin1, oz_eqb_refl, Hacs1, on_eqb_refl. cbn [andb].
      apply andb_true_iff; split; [apply andb_true_iff; split|].
      + apply roles_same_acs. cbn. first [exact Hacs1|reflexivity].
      + apply radmin_same_acs. cbn. first [exact Hacs1|reflexivity].
      + apply (runs_model _ _ (fun _ => 0)). apply crun_count_ext. exact Hcr1.
    - (* advance *)
      destruct Ho as (Hn0 & _ & -> & _). cbn [with_ctl ctl acs] in *. destruct Hnow as [_ Hnow]. rewrite Hnow, Z.eqb_refl.
      replace (0 <=? n) with true by (symmetry; apply Z.leb_le; exact Hn0).
      cbn [min_delay]. rewrite Hmin1, oz_eqb_refl, Hacs1, on_eqb_refl. cbn [andb].
      apply andb_true_iff; split; [apply andb_true_iff; split|].
      + apply roles_same_acs. cbn. first [exact Hacs1|reflexivity].
      + apply radmin_same_acs. cbn. first [exact Hacs1|reflexivity].
      + apply (runs_model _ _ (fun _ => 0)). apply crun_count_ext. exact Hcr1.
  Qed.

  Lemma same_keys_map {A B} (f : N -> A) (g : N -> B) l :
    same_keys (map (fun i => (i, f i)) l) (map (fun i => (i, g i)) l) = true.
  Proof. unfold same_keys. rewrite !map_map. cbn [fst]. apply list_eqb_refl. apply N.eqb_refl. Qed.

  Lemma obs_step_ok_fail s c g :
    ginv (ctl s) g -> obs_step_ok hash aid cf (observe s) (c, (Fail : outcome), observe s) = Some [].
  Proof.
    intros Hg. unfold obs_step_ok. rewrite (obs_coherent_model s g Hg). cbn [negb]. rewrite obs_eqb_refl. reflexivity.
  Qed.

  Lemma obs_step_ok_ok s c s' r g :
    ginv (ctl s) g -> step_ok s c = Ok (s', r) ->
    exists pairs g',
      obs_step_ok hash aid cf (observe s) (c, (Ok r : outcome), observe s') = Some (tl_calls cf c pairs) /\
      gfeed hash g (now (ctl s)) (min_delay (ctl s)) (tl_calls cf c pairs) = Some g' /\ ginv (ctl s') g'.
  Proof.
    intros Hg H.
    destruct (step_spec hash aid cf _ _ _ _ H) as (pairs & s1 & Hp & Hc & Ho).
    destruct (cstep_ghost hash aid cf _ _ _ _ _ Hg H) as (pairs' & g' & Hp' & Hf & Hg').
    rewrite Hp in Hp'. injection Hp' as <-.
    exists pairs, g'. split; [|split; assumption].
    unfold obs_step_ok. rewrite (obs_coherent_model s' g' Hg'). cbn [negb].
    change (o_admin (observe s)) with (admin (acs s)). change (o_admin (observe s')) with (admin (acs s')).
    rewrite ob_count_executor, Hp.
    pose proof Hc as (_ & _ & Hgood & _).
    rewrite (pair_ok_model _ s _ _ Hgood), (role_ok_model s c s1 s' r Ho). cbn [andb].
    replace (same_keys (o_ops (observe s)) (o_ops (observe s'))) with true
      by (symmetry; unfold Run.C09.observe, observe_u; cbn [o_ops]; apply same_keys_map).
    cbn [andb].
    replace (forallb _ (o_ops (observe s'))) with true.
    2:{ symmetry. unfold Run.C09.observe at 2, observe_u; cbn [o_ops]. rewrite forallb_map. apply forallb_forall.
        intros i Hi. apply (op_step_ok_model s c s' r pairs s1 g i Hg Hc Ho Hi). }
    rewrite (effects_ok_model s c s' r pairs s1 g Hg Hc Ho). cbn [andb].
    replace (match c with
             | ScheduleOp o d _ _ => on_eqb r (Some (hash o)) && match o_min (observe s) with Some m => m <=? d | None => false end
             | _ => on_eqb r None
             end) with true; [reflexivity|].
    symmetry.
    destruct c as [o d p au|o x tgt au|j k au|d au|a ro k au|a ro k au|ro k au|ro ar au|new lu au|au|au|metas ctxs xa|n];
      cbn [own_effect] in Ho.
    - destruct Ho as (_ & t & Hs & _ & ->). rewrite on_eqb_refl. cbn [andb].
      apply schedule_ok in Hs. destruct Hs as (_ & _ & m & Hmin & Hle & _).
      destruct (consumed_marks _ _ _ _ _ Hc) as (_ & Hm1 & _). rewrite Hm1 in Hmin.
      change (o_min (observe s)) with (min_delay (ctl s)). rewrite Hmin. apply Z.leb_le. exact Hle.
    - destruct Ho as (_ & t & _ & _ & _ & _ & ->). reflexivity.
    - destruct Ho as (_ & t & _ & _ & ->). reflexivity.
    - destruct Ho as (_ & _ & ->). reflexivity.
    - destruct Ho as (_ & a' & _ & _ & ->). reflexivity.
    - destruct Ho as (_ & a' & _ & _ & ->). reflexivity.
    - destruct Ho as (a' & _ & _ & ->). reflexivity.
    - destruct Ho as (_ & ->). reflexivity.
    - destruct Ho as (p & _ & _ & ->). reflexivity.
    - destruct Ho as (pa & _ & _ & ->). reflexivity.
    - destruct Ho as (_ & _ & ->). reflexivity.
    - destruct Ho as (_ & ->). reflexivity.
    - destruct Ho as (_ & _ & _ & ->). reflexivity.
  Qed.

  Lemma step_unfold s c : step s c = match step_ok s c with Ok (s', r) => (s', Ok r) | Fail => (s, Fail) end.
  Proof. reflexivity. Qed.

  Lemma mon_from_model cs : forall s g k,
    ginv (ctl s) g ->
    mon_from hash aid cf (MS (observe s) g) (model_events h s cs) k = 0%N.
  Proof.
    induction cs as [|c cs IH]; intros s g k Hg; cbn [model_events mon_from]; [reflexivity|].
    fold hash aid cf. rewrite step_unfold.
    destruct (step_ok s c) as [[s' r]|] eqn:E; cbn [mon_from]; unfold mon_step; cbn [m_prev m_ghost snd].
    - destruct (obs_step_ok_ok s c s' r g Hg E) as (pairs & g' & Hobs & Hf & Hg').
      rewrite Hobs. change (o_now (observe s)) with (now (ctl s)). change (o_min (observe s)) with (min_delay (ctl s)).
      rewrite Hf. apply IH. exact Hg'.
    - rewrite (obs_step_ok_fail s c g Hg). cbn [gfeed]. apply IH. exact Hg.
  Qed.

  Lemma diff_from_model cs : forall s k, diff_from h s (model_events h s cs) k = 0%N.
  Proof.
    induction cs as [|c cs IH]; intros s k; cbn [model_events diff_from]; [reflexivity|].
    fold hash aid cf. destruct (step s c) as [s' out] eqn:Es. cbn [diff_from]. fold hash aid cf. rewrite Es.
    rewrite outcome_eqb_refl, obs_eqb_refl. cbn [andb]. apply IH.
  Qed.
End WithHeader.

Theorem check_accepts_model : forall cf n0 md props execs adm ids naddr nroles tags tbl avs s0 cs,
  2 <= n0 <= MAXU32 -> tbl_ok tbl = true -> avs_ok avs = true -> (3 <=? nroles)%N = true ->
  construct cf n0 md props execs adm = Ok s0 ->
  check (model_trace cf n0 md props execs adm ids naddr nroles tags tbl avs s0 cs) = (0%N, 0%N, 0%N).
Proof.
  intros cf n0 md props execs adm ids naddr nroles tags tbl avs s0 cs Hn Htbl Havs Hroles Hc.
  unfold check, model_trace.
  set (h := model_header cf n0 md props execs adm ids naddr nroles tags tbl avs s0).
  assert (Hg0 : ginv (ctl s0) []) by (apply (construct_ginv cf n0 md props execs adm); assumption).
  assert (Hobs0 : h_obs0 h = observe h s0) by reflexivity.
  assert (D : diff (h, model_events h s0 cs) = 0%N).
  { unfold diff, diff_events, init_state. cbn [fst snd]. subst h. cbn [model_header h_cfg h_now h_min h_props h_execs h_admin h_unset h_done h_obs0].
    rewrite Hc, !Z.eqb_refl. cbn [andb].
    change (observe_u ids naddr nroles tags s0) with (observe (model_header cf n0 md props execs adm ids naddr nroles tags tbl avs s0) s0).
    rewrite obs_eqb_refl. apply diff_from_model. }
  assert (M : monitor (h, model_events h s0 cs) = 0%N).
  { unfold monitor. subst h. cbn [model_header h_tbl h_avs h_nroles]. rewrite Htbl, Havs, Hroles.
    assert (O : obs0_ok (model_header cf n0 md props execs adm ids naddr nroles tags tbl avs s0) = true).
    { unfold obs0_ok. cbn [model_header h_obs0 h_now].
      change (observe_u ids naddr nroles tags s0) with (observe (model_header cf n0 md props execs adm ids naddr nroles tags tbl avs s0) s0).
      rewrite (obs_coherent_model _ s0 [] Hg0).
      unfold observe, observe_u; cbn [o_now o_ops o_runs model_header h_ids h_tags].
      unfold construct in Hc.
      destruct (grant_all cf _ props _) as [a1|]; cbn [bind] in Hc; [|discriminate].
      destruct (grant_all cf a1 execs _) as [a2|]; cbn [bind] in Hc; [|discriminate].
      unfold set_min_delay in Hc. destruct (in_u32 md); cbn [guard bind] in Hc; [|discriminate].
      inversion Hc; subst s0. cbn [ctl now cruns init_tl]. rewrite Z.eqb_refl. cbn [andb].
      rewrite !forallb_map. apply andb_true_iff. split; apply forallb_forall; intros x _; reflexivity. }
    rewrite O. cbn [andb model_header h_cfg h_obs0].
    change (observe_u ids naddr nroles tags s0) with (observe (model_header cf n0 md props execs adm ids naddr nroles tags tbl avs s0) s0).
    apply (mon_from_model (model_header cf n0 md props execs adm ids naddr nroles tags tbl avs s0) Hroles cs s0 [] 0%N Hg0). }
  rewrite D, M. reflexivity.
Qed.
