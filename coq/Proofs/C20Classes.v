(* C20 / class hardening: facts about the situations of classes K4 (collaborators), K5 (aliasing)
   and K6 (positions after a removal) that the directed class histories of the harness exercise.
   (K1 - special addresses - and K2 - unusual values - need no new fact: every theorem of
   Properties/C20.v is quantified over ALL addresses, topics, ids, keys : N, so the contract's own
   address, 0 and 2^32 - 1 are instances.) *)
From SC Require Import Lib.Prelude Lib.Int Model.SwapPop Model.RegCommon Model.RegBinder Model.RegDocs
  Model.RegCTI Model.RegKeys Model.RegIRS Model.RegSmall Model.RegSA Run.C20
  Proofs.C20Common Proofs.C20Binder Proofs.C20Props.
From Coq Require Import Permutation PeanoNat.
Local Open Scope nat_scope.
Set Implicit Arguments.

(* ========================================================================= *)
(* K4: an external collaborator that does not answer "yes" - it says no, traps,  *)
(* does not exist, answers a value of another type (all of these reach the      *)
(* model as [Fail] / [false]) - never leads to a registration, in ANY state.     *)
(* ========================================================================= *)
Lemma keys_registry_must_approve (c : ck_cfg) (s : ck_state) (pk : N) (reg : addr) (sch t : N) (has : res bool) :
  has <> Ok true -> ck_step c s (CkAllow pk reg sch t has) = Fail.
Proof.
  intros H. cbn [ck_step]. unfold ck_allow. destruct (pk =? 0)%N; [reflexivity|].
  destruct has as [[|]|]; try reflexivity. congruence.
Qed.

Lemma claims_issuer_must_approve (s : ic_state) (cl : claim) : ic_step s (IcAdd cl false) = Fail.
Proof. reflexivity. Qed.

Lemma sa_policy_must_install (c : sa_cfg) (s : sa_state) (id : N) (p : addr) :
  sa_step c s (SaAddPolicy id p false) = Fail.
Proof.
  cbn [sa_step]. unfold sa_add_policy. destruct (sa_get_rule s id) as [r|]; cbn [bind]; [|reflexivity].
  destruct (memb N.eqb p (r_policies r)); reflexivity.
Qed.

Lemma sa_rule_policies_must_install (c : sa_cfg) (s : sa_state) (cx : ctxt) (name : N) (until : option N)
      (sg : list signer) (po : list (addr * bool)) :
  forallb snd po = false -> sa_step c s (SaAddRule cx name until sg po) = Fail.
Proof.
  intros H. cbn [sa_step]. unfold sa_add_rule.
  destruct (sa_max_rules c <=? sa_count0 s); [reflexivity|].
  destruct (negb (nodupb signer_eqb sg)); [reflexivity|].
  destruct (negb (until_ok c until)); [reflexivity|].
  destruct (negb (sa_validate c sg (map fst po))); [reflexivity|].
  destruct (sa_set_fp (sa_fps s) cx sg (map fst po)); cbn [bind]; [|reflexivity].
  rewrite H. reflexivity.
Qed.

Theorem collaborator_must_approve :
  (forall (c : ck_cfg) (s : ck_state) (pk : N) (reg : addr) (sch t : N) (has : res bool),
      has <> Ok true -> ck_step c s (CkAllow pk reg sch t has) = Fail)
  /\ (forall (s : ic_state) (cl : claim), ic_step s (IcAdd cl false) = Fail)
  /\ (forall (c : sa_cfg) (s : sa_state) (id : N) (p : addr), sa_step c s (SaAddPolicy id p false) = Fail)
  /\ (forall (c : sa_cfg) (s : sa_state) (cx : ctxt) (name : N) (until : option N) (sg : list signer)
             (po : list (addr * bool)),
         forallb snd po = false -> sa_step c s (SaAddRule cx name until sg po) = Fail).
Proof.
  split; [exact keys_registry_must_approve|]. split; [exact claims_issuer_must_approve|].
  split; [exact sa_policy_must_install|exact sa_rule_policies_must_install].
Qed.

(* ========================================================================= *)
(* K6: positions after an unbind.  In every reachable state, a successful        *)
(* unbind of the token at index i puts the LAST token at index i, leaves every   *)
(* other token at its index, and shortens the enumeration by one: index-valued   *)
(* getters after the removal are determined numerically, whichever element       *)
(* (first, middle, second-to-last, last) is removed.                            *)
(* ========================================================================= *)
Section Binder.
  Variable c : tb_cfg.
  Hypothesis bs_pos : 0 < tb_bs c.

  Theorem binder_unbind_positions (cs : list tb_call) (t : N) (s' : tb_state) :
    let s := run (tb_step c) tb_init cs in
    let l := tb_linked c s in
    tb_step c s (TbUnbind t) = Ok (s', tt) ->
    exists i z,
      tb_index_of c s t = Ok i /\ nth_error l i = Some t /\ nth_error l (length l - 1) = Some z
      /\ tb_linked c s' = swap_pop i l
      /\ (forall j, tb_by_index c s' (N.of_nat j) =
                    if j <? length l - 1 then (if j =? i then Ok z else of_option (nth_error l j)) else Fail)
      /\ (forall u, u <> t -> tb_index_of c s' u = if N.eqb u z then Ok i else tb_index_of c s u)
      /\ tb_index_of c s' t = Fail.
  Proof.
    cbn zeta. destruct (@tb_reach c bs_pos cs) as [l [Hi Hp]]. rewrite (tb_linked_inv bs_pos Hi).
    intros Hstep. cbn [tb_step] in Hstep.
    pose proof (tb_unbind_inv bs_pos t Hi) as H.
    destruct (tb_unbind c (run (tb_step c) tb_init cs) t) as [s1|] eqn:Eu; cbn [bind] in Hstep; [|discriminate].
    inversion Hstep; subst s1. destruct H as [i [Ei Hi']].
    destruct (index_of_Some N.eqb N.eqb_eq _ _ Ei) as [Hnth Hlt].
    pose proof Hi as (_ & Hn & _).
    destruct (nth_error l (length l - 1)) as [z|] eqn:Ez; [|apply nth_error_None in Ez; lia].
    exists i, z. rewrite (tb_index_of_inv bs_pos t Hi), Ei. cbn [of_option].
    split; [reflexivity|]. split; [exact Hnth|]. split; [reflexivity|].
    split; [apply (tb_linked_inv bs_pos Hi')|]. split; [|split].
    - intros j. rewrite (tb_by_index_inv bs_pos (N.of_nat j) Hi'), Nat2N.id, (nth_swap_pop l j Ez Hlt).
      destruct (j <? length l - 1); [|reflexivity]. destruct (j =? i); reflexivity.
    - intros u Hu. rewrite (tb_index_of_inv bs_pos u Hi'), (tb_index_of_inv bs_pos u Hi).
      rewrite (index_of_swap_pop N.eqb N.eqb_eq i u Hn Hnth Ez).
      replace (N.eqb u t) with false by (symmetry; apply N.eqb_neq; exact Hu).
      destruct (N.eqb u z); reflexivity.
    - rewrite (tb_index_of_inv bs_pos t Hi'), (index_of_swap_pop N.eqb N.eqb_eq i t Hn Hnth Ez), N.eqb_refl.
      reflexivity.
  Qed.
End Binder.

(* ========================================================================= *)
(* K5: aliasing in the identity registry - recovering an account into itself is  *)
(* refused in every reachable state, and whether add_identity is accepted never  *)
(* depends on the identity argument (so account = identity is not special).      *)
(* ========================================================================= *)
Lemma irs_spec_recover_self (c : irs_cfg) (a : irs_ref) (x : addr) : irs_spec c a (IrRecover x x) = Fail.
Proof.
  cbn [irs_spec]. destruct (aget N.eqb x (rM a)) as [v|] eqn:E; [|reflexivity].
  replace (ahas N.eqb x (rM a)) with true; [rewrite orb_true_r; reflexivity|].
  unfold ahas. rewrite E. reflexivity.
Qed.
Lemma irs_spec_add_ignores_identity (c : irs_cfg) (a : irs_ref) (acct i1 i2 : addr) (ty : N) (cds : list cdata) :
  is_ok (irs_spec c a (IrAdd acct i1 ty cds)) = is_ok (irs_spec c a (IrAdd acct i2 ty cds)).
Proof. cbn [irs_spec]. destruct (_ || _); reflexivity. Qed.

Theorem irs_aliasing (c : irs_cfg) (cs : list irs_call) :
  let s := run (irs_step c) irs_init cs in
  (forall x : addr, irs_step c s (IrRecover x x) = Fail)
  /\ (forall (acct i1 i2 : addr) (ty : N) (cds : list cdata),
        is_ok (irs_step c s (IrAdd acct i1 ty cds)) = is_ok (irs_step c s (IrAdd acct i2 ty cds))).
Proof.
  cbn zeta. destruct (irs_refines c cs) as (_ & _ & _ & Hk). split.
  - intros x. pose proof (Hk (IrRecover x x)) as H. rewrite irs_spec_recover_self in H.
    destruct (irs_step c _ (IrRecover x x)); [discriminate|reflexivity].
  - intros acct i1 i2 ty cds. rewrite !Hk. apply irs_spec_add_ignores_identity.
Qed.
