(* C18 - decision logic of the verifiers (oracles as parameters). *)
From SC Require Import Lib.Prelude Lib.Int Model.Base64 Model.Verifiers Proofs.Base64.

(* ---------- byte-string equality ---------- *)
Lemma eqb_bytes_eq : forall a b, eqb_bytes a b = true <-> a = b.
Proof.
  induction a as [|x a IH]; destruct b as [|y b]; cbn [eqb_bytes]; split; intro H; try reflexivity; try discriminate.
  - destruct (Z.eqb_spec x y) as [E|E]; [|discriminate]. apply IH in H. subst. reflexivity.
  - injection H as -> ->. rewrite Z.eqb_refl. apply IH. reflexivity.
Qed.
Lemma eqb_bytes_refl : forall a, eqb_bytes a a = true.
Proof. intro a. apply eqb_bytes_eq. reflexivity. Qed.

Lemma len_nonneg : forall l, 0 <= len l.
Proof. intro l. unfold len. lia. Qed.

(* ---------- extract_from_bytes ---------- *)
(* the ordinary range s..e *)
Lemma extract_range : forall n data s e, 0 <= s -> s <= e -> e <= MAXU32 ->
  extract_from_bytes n data (Included s) (Excluded e) =
  Ok (if (e <=? len data) && (e - s =? n)
      then Some (firstn (Z.to_nat n) (skipn (Z.to_nat s) data)) else None).
Proof.
  intros n data s e Hs Hse He. unfold extract_from_bytes. cbn [bind].
  destruct (Z.ltb_spec (len data) e) as [L|L].
  - replace (e <=? len data) with false by (symmetry; apply Z.leb_gt; lia). reflexivity.
  - replace (e <=? len data) with true by (symmetry; apply Z.leb_le; lia).
    assert (R : in_u32 (e - s) = true).
    { unfold in_u32. apply andb_true_iff. split; apply Z.leb_le; lia. }
    rewrite R. cbn [bind andb].
    destruct (Z.eqb_spec (e - s) n) as [E|E]; cbn [negb].
    + unfold slice. rewrite E. reflexivity.
    + reflexivity.
Qed.

Lemma extract_prefix_spec : forall n data, 0 <= n <= MAXU32 ->
  extract_prefix n data = Ok (if n <=? len data then Some (firstn (Z.to_nat n) data) else None).
Proof.
  intros n data Hn. unfold extract_prefix. rewrite extract_range by (try lia; destruct Hn; assumption).
  rewrite Z.sub_0_r, Z.eqb_refl, andb_true_r. reflexivity.
Qed.

(* a result, when there is one, is exactly n bytes of the data *)
Definition bound_nonneg (b : bound) : Prop :=
  match b with Unbounded => True | Included k | Excluded k => 0 <= k end.

Lemma extract_some_length : forall n data sb eb x, bound_nonneg sb ->
  extract_from_bytes n data sb eb = Ok (Some x) -> len x = n.
Proof.
  intros n data sb eb x Hsb. unfold extract_from_bytes.
  set (start := match sb with Unbounded => 0 | Included k | Excluded k => k end).
  destruct (match eb with Unbounded => Ok (len data) | Included k => of_option (checked_add_u32 k 1) | Excluded k => Ok k end) as [e|] eqn:Ee;
    cbn [bind]; [|discriminate].
  destruct (Z.ltb_spec (len data) e) as [L|L]; [discriminate|].
  destruct (in_u32 (e - start)) eqn:R; cbn [bind]; [|discriminate].
  destruct (Z.eqb_spec (e - start) n) as [E|E]; cbn [negb]; [|discriminate].
  assert (0 <= e - start) by (unfold in_u32 in R; apply andb_true_iff in R; destruct R as [R _]; apply Z.leb_le in R; exact R).
  destruct sb; try discriminate; intro H'; injection H' as <-; unfold slice, len in *;
    rewrite firstn_length, skipn_length; subst start; cbn [bound_nonneg] in Hsb; lia.
Qed.

(* ---------- flag tests: masks are bit tests ---------- *)
Lemma land_pow2_eqb0 : forall f k, 0 <= k -> (Z.land f (2 ^ k) =? 0) = negb (Z.testbit f k).
Proof.
  intros f k Hk. destruct (Z.testbit f k) eqn:T; cbn [negb].
  - apply Z.eqb_neq. intro E.
    assert (X : Z.testbit (Z.land f (2 ^ k)) k = true).
    { rewrite Z.land_spec, T, Z.pow2_bits_true by lia. reflexivity. }
    rewrite E, Z.bits_0 in X. discriminate.
  - apply Z.eqb_eq. apply Z.bits_inj'. intros n Hn. rewrite Z.land_spec, Z.bits_0.
    destruct (Z.eq_dec n k) as [->|N].
    + rewrite T. reflexivity.
    + rewrite Z.pow2_bits_false by lia. apply andb_false_r.
Qed.

Definition flags_ok (f : Z) : bool :=
  Z.testbit f 0 && Z.testbit f 2 && negb (negb (Z.testbit f 3) && Z.testbit f 4).

Lemma flag_validators : forall f,
  (do _ <- validate_user_present_bit_set f;
   do _ <- validate_user_verified_bit_set f;
   validate_backup_eligibility_and_state f) = guard (flags_ok f).
Proof.
  intro f. unfold validate_user_present_bit_set, validate_user_verified_bit_set,
    validate_backup_eligibility_and_state.
  change FLAGS_UP with (2 ^ 0). change FLAGS_UV with (2 ^ 2). change FLAGS_BE with (2 ^ 3).
  change FLAGS_BS with (2 ^ 4).
  rewrite !land_pow2_eqb0 by lia. unfold flags_ok.
  destruct (Z.testbit f 0), (Z.testbit f 2), (Z.testbit f 3), (Z.testbit f 4); reflexivity.
Qed.

(* ---------- validate_challenge ---------- *)
Definition challenge_ok (ch payload : list Z) : bool :=
  (32 <=? len payload) && eqb_bytes ch (rfc4648_url_nopad (firstn 32 payload)).

Lemma bytes_ok_firstn : forall n l, bytes_ok l = true -> bytes_ok (firstn n l) = true.
Proof.
  induction n as [|n IH]; intros [|x l] H; try reflexivity.
  apply bytes_ok_cons in H. destruct H as [Hx H]. cbn [firstn]. apply bytes_ok_cons. split; [exact Hx | apply IH; exact H].
Qed.

Lemma validate_challenge_spec : forall ch payload, bytes_ok payload = true ->
  validate_challenge ch payload = guard (challenge_ok ch payload).
Proof.
  intros ch payload Hb. unfold validate_challenge, challenge_ok.
  rewrite extract_prefix_spec by (assert (MAXU32 = 4294967295) by reflexivity; lia). cbn [bind].
  destruct (Z.leb_spec 32 (len payload)) as [L|L]; cbn [of_option bind andb]; [|reflexivity].
  set (p32 := firstn (Z.to_nat 32) payload).
  assert (Hl : length p32 = 32%nat).
  { unfold p32. rewrite firstn_length. unfold len in L. lia. }
  rewrite base64_url_encode_is_encode_into, encode_into_spec.
  assert (He : length (encode p32) = 43%nat).
  { rewrite encode_length_nat, Hl. reflexivity. }
  rewrite He. cbn [repeat length Nat.leb skipn bind]. rewrite app_nil_r.
  rewrite encode_is_rfc4648 by (apply bytes_ok_firstn; exact Hb).
  reflexivity.
Qed.

Lemma validate_type_spec : forall ty, validate_expected_type ty = guard (eqb_bytes ty WEBAUTHN_GET).
Proof. reflexivity. Qed.

(* ---------- webauthn::verify ---------- *)
Definition wa_accept (c : cfg) (payload ad cd : list Z) (parsed : option (list Z * list Z)) (sig_ok : bool) : bool :=
  (len cd <=? max_cd c)
  && match parsed with
     | Some (ty, ch) => eqb_bytes ty WEBAUTHN_GET && challenge_ok ch payload
     | None => false
     end
  && (min_ad c <=? len ad)
  && match nth_error ad 32 with Some f => flags_ok f | None => false end
  && sig_ok.

Lemma wa_decide_spec : forall c payload ad cd parsed sig_ok, bytes_ok payload = true ->
  wa_decide c payload ad cd parsed sig_ok
  = if wa_accept c payload ad cd parsed sig_ok then Ok true else Fail.
Proof.
  intros c payload ad cd parsed sig_ok Hb. unfold wa_decide, wa_accept.
  rewrite <- Z.leb_antisym.
  destruct (len cd <=? max_cd c); cbn [guard bind andb]; [|reflexivity].
  destruct parsed as [[ty ch]|]; cbn [of_option bind andb]; [|reflexivity].
  rewrite validate_type_spec. destruct (eqb_bytes ty WEBAUTHN_GET); cbn [guard bind andb]; [|reflexivity].
  rewrite validate_challenge_spec by exact Hb.
  destruct (challenge_ok ch payload); cbn [guard bind andb]; [|reflexivity].
  rewrite <- Z.leb_antisym.
  destruct (min_ad c <=? len ad); cbn [guard bind andb]; [|reflexivity].
  destruct (nth_error ad 32) as [f|]; cbn [of_option bind andb]; [|reflexivity].
  unfold validate_user_present_bit_set, validate_user_verified_bit_set,
    validate_backup_eligibility_and_state.
  change FLAGS_UP with (2 ^ 0). change FLAGS_UV with (2 ^ 2). change FLAGS_BE with (2 ^ 3).
  change FLAGS_BS with (2 ^ 4).
  rewrite !land_pow2_eqb0 by lia. unfold flags_ok.
  destruct (Z.testbit f 0), (Z.testbit f 2), (Z.testbit f 3), (Z.testbit f 4), sig_ok; reflexivity.
Qed.

(* the Prop-level reading of the acceptance condition *)
Lemma wa_accept_iff : forall c payload ad cd parsed sig_ok,
  wa_accept c payload ad cd parsed sig_ok = true <->
  len cd <= max_cd c /\
  (exists ty ch, parsed = Some (ty, ch) /\ ty = WEBAUTHN_GET /\
                 32 <= len payload /\ ch = rfc4648_url_nopad (firstn 32 payload)) /\
  min_ad c <= len ad /\
  (exists f, nth_error ad 32 = Some f /\ Z.testbit f 0 = true /\ Z.testbit f 2 = true /\
             ~ (Z.testbit f 3 = false /\ Z.testbit f 4 = true)) /\
  sig_ok = true.
Proof.
  intros. unfold wa_accept, challenge_ok, flags_ok. rewrite !andb_true_iff, !Z.leb_le. split.
  - intros ((((H1 & H2) & H3) & H4) & H5). split; [exact H1|]. split.
    + destruct parsed as [[ty ch]|]; [|discriminate]. apply andb_true_iff in H2. destruct H2 as [T C].
      apply andb_true_iff in C. destruct C as [C1 C2]. apply eqb_bytes_eq in T. apply eqb_bytes_eq in C2.
      apply Z.leb_le in C1. exists ty, ch. auto.
    + split; [exact H3|]. split; [|exact H5].
      destruct (nth_error ad 32) as [f|]; [|discriminate]. exists f. split; [reflexivity|].
      apply andb_true_iff in H4. destruct H4 as [H4 B]. apply andb_true_iff in H4. destruct H4 as [U V].
      split; [exact U|]. split; [exact V|]. intros [X Y]. rewrite X, Y in B. discriminate.
  - intros (H1 & (ty & ch & -> & -> & P & ->) & H3 & (f & -> & U & V & B) & H5).
    repeat split; try assumption.
    + rewrite !eqb_bytes_refl. cbn [andb]. rewrite andb_true_r. apply Z.leb_le. exact P.
    + rewrite U, V. cbn [andb]. destruct (Z.testbit f 3), (Z.testbit f 4); try reflexivity. exfalso. apply B. auto.
Qed.

Theorem wa_verify_iff : forall c parse sha256 p256_verify payload key sig ad cd,
  bytes_ok payload = true ->
  (wa_verify c parse sha256 p256_verify payload key sig ad cd = Ok true <->
   len cd <= max_cd c /\
   (exists ty ch, parse cd = Some (ty, ch) /\ ty = WEBAUTHN_GET /\
                  32 <= len payload /\ ch = rfc4648_url_nopad (firstn 32 payload)) /\
   min_ad c <= len ad /\
   (exists f, nth_error ad 32 = Some f /\ Z.testbit f 0 = true /\ Z.testbit f 2 = true /\
              ~ (Z.testbit f 3 = false /\ Z.testbit f 4 = true)) /\
   p256_verify key (sha256 (ad ++ sha256 cd)) sig = true)
  /\ wa_verify c parse sha256 p256_verify payload key sig ad cd <> Ok false.
Proof.
  intros c parse sha256 pv payload key sig ad cd Hb. unfold wa_verify.
  rewrite wa_decide_spec by exact Hb. rewrite <- wa_accept_iff.
  destruct (wa_accept c payload ad cd (parse cd) (pv key (sha256 (ad ++ sha256 cd)) sig)); split; try split; congruence.
Qed.

(* the example contract adds the XDR decoding and the 65-byte key prefix *)
Lemma wa_contract_unfold : forall c from_xdr parse sha256 pv payload key_data sig_data,
  wa_contract c from_xdr parse sha256 pv payload key_data sig_data =
  match from_xdr sig_data with
  | None => Fail
  | Some (sig, ad, cd) =>
      if 65 <=? len key_data
      then wa_verify c parse sha256 pv payload (firstn 65 key_data) sig ad cd
      else Fail
  end.
Proof.
  intros. unfold wa_contract. destruct (from_xdr sig_data) as [[[sig ad] cd]|]; cbn [of_option bind]; [|reflexivity].
  rewrite extract_prefix_spec by (assert (MAXU32 = 4294967295) by reflexivity; lia). cbn [bind].
  destruct (65 <=? len key_data); reflexivity.
Qed.

Lemma wa_contract_decide_unfold : forall c payload key_data decoded parsed sig_ok,
  wa_contract_decide c payload key_data decoded parsed sig_ok =
  match decoded with
  | None => Fail
  | Some (sig, ad, cd) =>
      if 65 <=? len key_data then wa_decide c payload ad cd parsed sig_ok else Fail
  end.
Proof.
  intros. unfold wa_contract_decide. destruct decoded as [[[sig ad] cd]|]; cbn [of_option bind]; [|reflexivity].
  rewrite extract_prefix_spec by (assert (MAXU32 = 4294967295) by reflexivity; lia). cbn [bind].
  destruct (65 <=? len key_data); reflexivity.
Qed.

Theorem wa_contract_iff : forall c from_xdr parse sha256 p256_verify payload key_data sig_data,
  bytes_ok payload = true ->
  (wa_contract c from_xdr parse sha256 p256_verify payload key_data sig_data = Ok true <->
   exists sig ad cd, from_xdr sig_data = Some (sig, ad, cd) /\ 65 <= len key_data /\
     wa_verify c parse sha256 p256_verify payload (firstn 65 key_data) sig ad cd = Ok true)
  /\ wa_contract c from_xdr parse sha256 p256_verify payload key_data sig_data <> Ok false.
Proof.
  intros c fx parse sha pv payload kd sd Hb. rewrite wa_contract_unfold.
  destruct (fx sd) as [[[sig ad] cd]|].
  - destruct (Z.leb_spec 65 (len kd)) as [L|L].
    + split.
      * split.
        -- intro H. exists sig, ad, cd. auto.
        -- intros (s & a & d & E & _ & H). injection E as <- <- <-. exact H.
      * apply (wa_verify_iff c parse sha pv payload (firstn 65 kd) sig ad cd Hb).
    + split; [|discriminate]. split; [discriminate|]. intros (s & a & d & _ & L' & _). lia.
  - split; [|discriminate]. split; [discriminate|]. intros (s & a & d & E & _). discriminate.
Qed.

(* the signed payload is bound: two 32-byte payloads accepted with the same client data are equal *)
Theorem wa_binds_payload : forall c parse sha256 pv p1 p2 key1 key2 sig1 sig2 ad1 ad2 cd,
  bytes_ok p1 = true -> bytes_ok p2 = true ->
  wa_verify c parse sha256 pv p1 key1 sig1 ad1 cd = Ok true ->
  wa_verify c parse sha256 pv p2 key2 sig2 ad2 cd = Ok true ->
  firstn 32 p1 = firstn 32 p2.
Proof.
  intros c parse sha pv p1 p2 k1 k2 s1 s2 a1 a2 cd B1 B2 H1 H2.
  apply (wa_verify_iff c parse sha pv p1 k1 s1 a1 cd B1) in H1.
  apply (wa_verify_iff c parse sha pv p2 k2 s2 a2 cd B2) in H2.
  destruct H1 as (_ & (ty1 & ch1 & E1 & _ & _ & C1) & _).
  destruct H2 as (_ & (ty2 & ch2 & E2 & _ & _ & C2) & _).
  rewrite E1 in E2. injection E2 as _ <-.
  apply encode_injective; try (apply bytes_ok_firstn; assumption).
  rewrite !encode_is_rfc4648 by (apply bytes_ok_firstn; assumption). congruence.
Qed.

(* ---------- ed25519 ---------- *)
Lemma ed_verify_iff : forall (ed25519_verify : list Z -> list Z -> list Z -> bool) payload key sig,
  (ed_verify ed25519_verify payload key sig = Ok true <-> ed25519_verify key payload sig = true)
  /\ ed_verify ed25519_verify payload key sig <> Ok false.
Proof.
  intros f p k s. unfold ed_verify, ed_decide. destruct (f k p s); simpl; split; try split; congruence.
Qed.

(* ---------- change of key or signature ---------- *)
(* once an assertion is accepted, replacing key and/or signature keeps it accepted exactly when
   the signature oracle accepts the new pair on the SAME digest: nothing but the oracle stands
   between a changed key / signature and rejection, and nothing else is re-examined *)
Theorem wa_key_sig_change : forall c parse sha256 pv payload key sig ad cd,
  bytes_ok payload = true ->
  wa_verify c parse sha256 pv payload key sig ad cd = Ok true ->
  forall key' sig',
    (wa_verify c parse sha256 pv payload key' sig' ad cd = Ok true <->
     pv key' (sha256 (ad ++ sha256 cd)) sig' = true)
    /\ (pv key' (sha256 (ad ++ sha256 cd)) sig' = false ->
        wa_verify c parse sha256 pv payload key' sig' ad cd = Fail).
Proof.
  intros c parse sha pv payload key sig ad cd Hb H key' sig'.
  unfold wa_verify in *. rewrite wa_decide_spec in * by exact Hb.
  unfold wa_accept in *.
  destruct (len cd <=? max_cd c); cbn [andb] in *; [|discriminate].
  destruct (match parse cd with Some (ty, ch) => eqb_bytes ty WEBAUTHN_GET && challenge_ok ch payload | None => false end);
    cbn [andb] in *; [|discriminate].
  destruct (min_ad c <=? len ad); cbn [andb] in *; [|discriminate].
  destruct (match nth_error ad 32 with Some f => flags_ok f | None => false end); cbn [andb] in *; [|discriminate].
  destruct (pv key' (sha (ad ++ sha cd)) sig'); split; try split; congruence.
Qed.

(* ---------- payloads longer than 32 bytes: the verdict depends on the first 32 bytes only ---------- *)
Theorem wa_long_payload_prefix : forall c parse sha256 pv payload key sig ad cd,
  bytes_ok payload = true -> 32 <= len payload ->
  wa_verify c parse sha256 pv payload key sig ad cd
  = wa_verify c parse sha256 pv (firstn 32 payload) key sig ad cd.
Proof.
  intros c parse sha pv payload key sig ad cd Hb Hl. unfold wa_verify.
  rewrite !wa_decide_spec by (try apply bytes_ok_firstn; exact Hb).
  assert (E : forall ch, challenge_ok ch (firstn 32 payload) = challenge_ok ch payload).
  { intro ch. unfold challenge_ok. rewrite firstn_firstn. change (Nat.min 32 32) with 32%nat.
    assert (len (firstn 32 payload) = 32) by (unfold len in *; rewrite firstn_length; lia).
    rewrite H. replace (32 <=? len payload) with true by (symmetry; apply Z.leb_le; exact Hl). reflexivity. }
  unfold wa_accept. destruct (parse cd) as [[ty ch]|]; [rewrite E|]; reflexivity.
Qed.
