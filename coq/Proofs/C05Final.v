(* C05 statements in the self-contained form pinned in Properties/C05.v *)
From SC Require Import Lib.Prelude Lib.Int Lib.Host Model.Math Proofs.Math Model.Vault
  Proofs.VaultSpec Proofs.VaultToken Proofs.VaultOps Proofs.VaultRate Proofs.VaultTrips Proofs.VaultLive.
From Coq Require Import ZifyBool.

(* ---------- formula ---------- *)
Lemma spec_conv_unfold P x num den rd :
  spec_conv P x num den rd =
    if x <? 0 then Fail
    else if x =? 0 then Ok 0
    else if in_i128 P && in_i128 num && in_i128 den && negb (den =? 0)
         then (if in_i128 (exact rd (x * num) den) then Ok (exact rd (x * num) den) else Fail)
         else Fail.
Proof. reflexivity. Qed.

Lemma formula_final c s x : v_asset s = Some ASSET_ADDR -> v_off s = Some (c_off c) -> MIN128 <= x <= MAX128 ->
  let A := total_assets s in let S := total_supply s in let P := 10 ^ c_off c in
  convert_to_shares c s x = spec_conv P x (S + P) (A + 1) Floor /\
  preview_deposit c s x = spec_conv P x (S + P) (A + 1) Floor /\
  preview_withdraw c s x = spec_conv P x (S + P) (A + 1) Ceil /\
  convert_to_assets c s x = spec_conv P x (A + 1) (S + P) Floor /\
  preview_redeem c s x = spec_conv P x (A + 1) (S + P) Floor /\
  preview_mint c s x = spec_conv P x (A + 1) (S + P) Ceil.
Proof.
  intros Hva Hvo Hx A S P. assert (Hst : Stored c s) by (split; assumption).
  unfold convert_to_shares, preview_deposit, preview_withdraw, convert_to_assets, preview_redeem, preview_mint.
  repeat split; first [apply to_shares_spec; assumption | apply to_assets_spec; assumption].
Qed.

Lemma exact_pos_final n d : 0 < d ->
  (exact Floor n d * d <= n < (exact Floor n d + 1) * d) /\
  ((exact Ceil n d - 1) * d < n <= exact Ceil n d * d).
Proof. intros Hd. split; [apply floor_pos|apply ceil_pos]; exact Hd. Qed.

(* ---------- reachable states ---------- *)
Lemma reach c n0 cs : 0 <= c_off c -> forallb wf_call cs = true -> Inv c (run c (init c n0) cs).
Proof. intros. apply reachable_inv; auto. Qed.

Lemma max_formula_final c n0 cs o : 0 <= c_off c -> forallb wf_call cs = true ->
  let s := run c (init c n0) cs in
  let A := total_assets s in let S := total_supply s in let P := 10 ^ c_off c in
  max_withdraw c s o = spec_conv P (bal (share s) o) (A + 1) (S + P) Floor /\
  max_redeem s o = bal (share s) o /\ max_deposit o = MAX128 /\ max_mint o = MAX128.
Proof.
  intros Hc Hw s A S P. pose proof (reach c n0 cs Hc Hw) as Hi. fold s in Hi.
  split; [|repeat split]. unfold max_withdraw. apply to_assets_spec; [apply (Inv_stored c s Hi)|]. apply tok_inv_bal_range. apply Hi.
Qed.

Lemma rounding_direction_final c n0 cs x : 0 <= c_off c -> forallb wf_call cs = true -> MIN128 <= x <= MAX128 ->
  let s := run c (init c n0) cs in
  let A := total_assets s in let S := total_supply s in let P := 10 ^ c_off c in
  0 < A + 1 /\ 0 < S + P /\
  (forall q, preview_deposit c s x = Ok q -> q * (A + 1) <= x * (S + P) < (q + 1) * (A + 1)) /\
  (forall q, preview_redeem c s x = Ok q -> q * (S + P) <= x * (A + 1) < (q + 1) * (S + P)) /\
  (forall q, preview_mint c s x = Ok q -> x * (A + 1) <= q * (S + P) /\ (0 < x -> (q - 1) * (S + P) < x * (A + 1))) /\
  (forall q, preview_withdraw c s x = Ok q -> x * (S + P) <= q * (A + 1) /\ (0 < x -> (q - 1) * (A + 1) < x * (S + P))).
Proof.
  intros Hc Hw Hx s A S P. pose proof (reach c n0 cs Hc Hw) as Hi. fold s in Hi.
  destruct (den_pos c s Hc Hi) as (H1 & H2 & _).
  split; [exact H1|]. split; [exact H2|]. split; [|split; [|split]]; intros q Hq.
  - destruct (to_shares_floor c s Hc Hi x q Hx Hq) as (_ & _ & H). exact H.
  - destruct (to_assets_floor c s Hc Hi x q Hx Hq) as (_ & _ & H). exact H.
  - destruct (to_assets_ceil c s Hc Hi x q Hx Hq) as (_ & _ & H). exact H.
  - destruct (to_shares_ceil c s Hc Hi x q Hx Hq) as (_ & _ & H). exact H.
Qed.

(* ---------- rate ---------- *)
Lemma rate_step_final c n0 cs cl : 0 <= c_off c -> forallb wf_call cs = true -> wf_call cl = true ->
  let s := run c (init c n0) cs in let s' := fst (step c s cl) in let P := 10 ^ c_off c in
  (total_assets s + 1) * (total_supply s' + P) <= (total_assets s' + 1) * (total_supply s + P).
Proof.
  intros Hc Hw Hcl s s' P. pose proof (reach c n0 cs Hc Hw) as Hi.
  destruct (step_inv_rate c s cl Hc Hi Hcl) as (_ & H). exact H.
Qed.

Lemma rate_history_final c n0 cs1 cs2 : 0 <= c_off c -> forallb wf_call cs1 = true -> forallb wf_call cs2 = true ->
  let s := run c (init c n0) cs1 in let s' := run c (init c n0) (cs1 ++ cs2) in let P := 10 ^ c_off c in
  (total_assets s + 1) * (total_supply s' + P) <= (total_assets s' + 1) * (total_supply s + P).
Proof. intros Hc H1 H2 s s' P. apply (rate_monotone c n0 cs1 cs2); auto. Qed.

(* ---------- round trips ---------- *)
Lemma round_trips_final c n0 cs : 0 <= c_off c -> forallb wf_call cs = true ->
  let s := run c (init c n0) cs in
  (forall a r f o au s1 sh e1 x r' ow o' au' s2 a' e2,
     wf_call (Deposit a r f o au) = true -> wf_call (Redeem x r' ow o' au') = true ->
     step c s (Deposit a r f o au) = (s1, Ok (sh, e1)) -> x <= sh ->
     step c s1 (Redeem x r' ow o' au') = (s2, Ok (a', e2)) -> a' <= a) /\
  (forall x r f o au s1 a e1 y r' ow o' au' s2 a' e2,
     wf_call (MintS x r f o au) = true -> wf_call (Redeem y r' ow o' au') = true ->
     step c s (MintS x r f o au) = (s1, Ok (a, e1)) -> y <= x ->
     step c s1 (Redeem y r' ow o' au') = (s2, Ok (a', e2)) -> a' <= a) /\
  (forall a r f o au s1 sh e1 y r' ow o' au' s2 sh' e2,
     wf_call (Deposit a r f o au) = true -> wf_call (Withdraw y r' ow o' au') = true ->
     step c s (Deposit a r f o au) = (s1, Ok (sh, e1)) -> a <= y ->
     step c s1 (Withdraw y r' ow o' au') = (s2, Ok (sh', e2)) -> sh <= sh') /\
  (forall x r f o au s1 a e1 y r' ow o' au' s2 sh' e2,
     wf_call (MintS x r f o au) = true -> wf_call (Withdraw y r' ow o' au') = true ->
     step c s (MintS x r f o au) = (s1, Ok (a, e1)) -> a <= y ->
     step c s1 (Withdraw y r' ow o' au') = (s2, Ok (sh', e2)) -> x <= sh').
Proof.
  intros Hc Hw s. pose proof (reach c n0 cs Hc Hw) as Hi. fold s in Hi.
  split; [|split; [|split]].
  - intros a r f o au s1 sh e1 x r' ow o' au' s2 a' e2 W1 W2 H1 Hx H2.
    exact (trip_deposit_redeem c Hc s a r f o au s1 sh e1 x r' ow o' au' s2 a' e2 Hi W1 W2 H1 Hx H2).
  - intros x r f o au s1 a e1 y r' ow o' au' s2 a' e2 W1 W2 H1 Hx H2.
    exact (trip_mint_redeem c Hc s x r f o au s1 a e1 y r' ow o' au' s2 a' e2 Hi W1 W2 H1 Hx H2).
  - intros a r f o au s1 sh e1 y r' ow o' au' s2 sh' e2 W1 W2 H1 Hx H2.
    exact (trip_deposit_withdraw c Hc s a r f o au s1 sh e1 y r' ow o' au' s2 sh' e2 Hi W1 W2 H1 Hx H2).
  - intros x r f o au s1 a e1 y r' ow o' au' s2 sh' e2 W1 W2 H1 Hx H2.
    exact (trip_mint_withdraw c Hc s x r f o au s1 a e1 y r' ow o' au' s2 sh' e2 Hi W1 W2 H1 Hx H2).
Qed.

Lemma profit_bounded_final c n0 cs0 a r f o au s1 sh e1 cs x r' ow o' au' s3 a' e2 :
  0 <= c_off c -> forallb wf_call cs0 = true ->
  let s := run c (init c n0) cs0 in let P := 10 ^ c_off c in
  wf_call (Deposit a r f o au) = true -> forallb wf_call cs = true -> wf_call (Redeem x r' ow o' au') = true ->
  step c s (Deposit a r f o au) = (s1, Ok (sh, e1)) -> x <= sh ->
  step c (run c s1 cs) (Redeem x r' ow o' au') = (s3, Ok (a', e2)) ->
  a' * (total_supply (run c s1 cs) + P) * (total_assets s + 1)
    <= a * (total_assets (run c s1 cs) + 1) * (total_supply s + P).
Proof.
  intros Hc Hw s P W1 Wcs W2 H1 Hx H2. pose proof (reach c n0 cs0 Hc Hw) as Hi. fold s in Hi.
  exact (deposit_history_redeem c Hc s a r f o au s1 sh e1 cs x r' ow o' au' s3 a' e2 Hi W1 Wcs W2 H1 Hx H2).
Qed.

(* ---------- preview = operation ---------- *)
Lemma preview_exact_final c s cl s' v evs : step c s cl = (s', Ok (v, evs)) ->
  match cl with
  | Deposit a _ _ _ _ => preview_deposit c s a = Ok v
  | MintS x _ _ _ _ => preview_mint c s x = Ok v
  | Withdraw a _ _ _ _ => preview_withdraw c s a = Ok v
  | Redeem x _ _ _ _ => preview_redeem c s x = Ok v
  | _ => True
  end.
Proof.
  intros H. apply step_ok_inv in H. destruct cl; cbn [step_res] in H; auto.
  - unfold deposit in H. bsplit H u E0. bsplit H u1 E1. bsplit H sh E2. bsplit H s0 E3. inversion H; subst. exact E2.
  - unfold mint in H. bsplit H u E0. bsplit H u1 E1. bsplit H sh E2. bsplit H s0 E3. inversion H; subst. exact E2.
  - unfold withdraw in H. bsplit H u E0. bsplit H m E1. bsplit H u1 E2. bsplit H sh E3. bsplit H s0 E4.
    inversion H; subst. exact E3.
  - unfold redeem in H. bsplit H u E0. bsplit H u1 E2. bsplit H sh E3. bsplit H s0 E4. inversion H; subst. exact E3.
Qed.

(* ---------- exact movement ---------- *)
Definition dep_moves (s s' : state) (au : auths) (evs : list event) (assets shares : Z) (r f o : addr) : Prop :=
  now s' = now s /\
  bal (asset s') = move (bal (asset s)) f V assets /\ supply (asset s') = supply (asset s) /\
  bal (share s') = upd (bal (share s)) r (bal (share s) r + shares) /\
  supply (share s') = supply (share s) + shares /\
  allow (share s') = allow (share s) /\
  (forall o' sp, allowance (now s) (asset s') o' sp =
     if negb (N.eqb o f) && (N.eqb o' f && N.eqb sp o)
     then allowance (now s) (asset s) o' sp - assets else allowance (now s) (asset s) o' sp) /\
  evs = [(0%N, o, f, r, assets, shares)] /\ auth_root au o = true /\ auth_full au o = true /\
  0 <= assets <= bal (asset s) f /\ 0 <= shares /\ v_asset s' = v_asset s /\ v_off s' = v_off s.

Definition wd_moves (s s' : state) (au : auths) (evs : list event) (assets shares : Z) (r ow o : addr) : Prop :=
  now s' = now s /\
  bal (asset s') = move (bal (asset s)) V r assets /\ supply (asset s') = supply (asset s) /\
  allow (asset s') = allow (asset s) /\
  bal (share s') = upd (bal (share s)) ow (bal (share s) ow - shares) /\
  supply (share s') = supply (share s) - shares /\
  (forall o' sp, allowance (now s) (share s') o' sp =
     if negb (N.eqb o ow) && (N.eqb o' ow && N.eqb sp o)
     then allowance (now s) (share s) o' sp - shares else allowance (now s) (share s) o' sp) /\
  evs = [(1%N, o, r, ow, assets, shares)] /\ auth_root au o = true /\
  0 <= shares <= bal (share s) ow /\ 0 <= assets <= bal (asset s) V /\ v_asset s' = v_asset s /\ v_off s' = v_off s.

Lemma dep_moves_of s s' au evs a sh r f o :
  deposit_effect s s' a sh r f o -> evs = [(0%N, o, f, r, a, sh)] -> auth_root au o = true -> auth_full au o = true ->
  0 <= a <= bal (asset s) f -> 0 <= sh -> v_asset s' = v_asset s -> v_off s' = v_off s -> dep_moves s s' au evs a sh r f o.
Proof.
  intros He Hev Hr Hf Ha Hsh Hva Hvo. destruct He. unfold dep_moves. repeat split; auto; lia.
Qed.
Lemma wd_moves_of s s' au evs a sh r ow o :
  withdraw_effect s s' a sh r ow o -> evs = [(1%N, o, r, ow, a, sh)] -> auth_root au o = true ->
  0 <= sh <= bal (share s) ow -> 0 <= a <= total_assets s -> v_asset s' = v_asset s -> v_off s' = v_off s ->
  wd_moves s s' au evs a sh r ow o.
Proof.
  intros He Hev Hr Hsh Ha Hva Hvo. destruct He. unfold wd_moves, total_assets in *. repeat split; auto; lia.
Qed.

Lemma deposit_internal_cfg c s au r a sh f o s' : deposit_internal c s au r a sh f o = Ok s' ->
  v_asset s' = v_asset s /\ v_off s' = v_off s.
Proof.
  unfold deposit_internal. intros H. bsplit H uc Ec. bsplit H a1 E1. bsplit H s1 E2. inversion H; subst. split; reflexivity.
Qed.
Lemma withdraw_internal_cfg c s r ow a sh o s' : withdraw_internal c s r ow a sh o = Ok s' ->
  v_asset s' = v_asset s /\ v_off s' = v_off s.
Proof.
  unfold withdraw_internal. intros H. bsplit H s0 E0. bsplit H s1 E1. bsplit H uc Ec. bsplit H a1 E2.
  inversion H; subst. split; reflexivity.
Qed.

Lemma moves_exactly_final c s cl s' v evs : step c s cl = (s', Ok (v, evs)) ->
  match cl with
  | Deposit a r f o au => dep_moves s s' au evs a v r f o
  | MintS x r f o au => dep_moves s s' au evs v x r f o
  | Withdraw a r ow o au => wd_moves s s' au evs a v r ow o
  | Redeem x r ow o au => wd_moves s s' au evs v x r ow o
  | _ => True
  end.
Proof.
  intros H. apply step_ok_inv in H. destruct cl; cbn [step_res] in H; auto.
  - unfold deposit in H. bsplit H u E0. apply guard_ok in E0. bsplit H u1 E1. bsplit H sh E2. bsplit H s0 E3.
    inversion H; subst. destruct (deposit_internal_effect _ _ _ _ _ _ _ _ _ E3) as (He & Hau & Ha & Hsh).
    destruct (deposit_internal_cfg _ _ _ _ _ _ _ _ _ E3). apply dep_moves_of; auto.
  - unfold mint in H. bsplit H u E0. apply guard_ok in E0. bsplit H u1 E1. bsplit H a0 E2. bsplit H s0 E3.
    inversion H; subst. destruct (deposit_internal_effect _ _ _ _ _ _ _ _ _ E3) as (He & Hau & Ha & Hsh).
    destruct (deposit_internal_cfg _ _ _ _ _ _ _ _ _ E3). apply dep_moves_of; auto.
  - unfold withdraw in H. bsplit H u E0. apply guard_ok in E0. bsplit H m E1. bsplit H u1 E2. bsplit H sh E3. bsplit H s0 E4.
    inversion H; subst. destruct (withdraw_internal_effect _ _ _ _ _ _ _ _ E4) as (He & Hsh & Ha).
    destruct (withdraw_internal_cfg _ _ _ _ _ _ _ _ E4). apply wd_moves_of; auto.
  - unfold redeem in H. bsplit H u E0. apply guard_ok in E0. bsplit H u1 E2. bsplit H a0 E3. bsplit H s0 E4.
    inversion H; subst. destruct (withdraw_internal_effect _ _ _ _ _ _ _ _ E4) as (He & Hsh & Ha).
    destruct (withdraw_internal_cfg _ _ _ _ _ _ _ _ E4). apply wd_moves_of; auto.
Qed.

Lemma move_spec_final (m : bmap) f t x :
  (forall a, a <> f -> a <> t -> move m f t x a = m a) /\
  (f <> t -> move m f t x f = m f - x /\ move m f t x t = m t + x) /\
  move m f f x f = m f.
Proof.
  split; [|split].
  - intros. apply move_other; auto.
  - intros. split; [apply move_from|apply move_to]; auto.
  - apply move_self.
Qed.

(* a failing call changes nothing; queries never change anything *)
Lemma no_effect_final c s cl : (snd (step c s cl) = Fail -> fst (step c s cl) = s) /\
  (forall q, cl = Query q -> fst (step c s cl) = s).
Proof.
  split.
  - unfold step. destruct (step_res c s cl) as [[s' o]|]; cbn; [discriminate|reflexivity].
  - intros q ->. unfold step. cbn [step_res]. destruct (run_query c s q); reflexivity.
Qed.

(* ---------- within means ---------- *)
Lemma within_means_final c n0 cs ow a m : 0 <= c_off c -> forallb wf_call cs = true ->
  let s := run c (init c n0) cs in
  max_withdraw c s ow = Ok m -> 0 <= a <= m ->
  exists sh, preview_withdraw c s a = Ok sh /\ 0 <= sh <= bal (share s) ow /\ a <= total_assets s.
Proof.
  intros Hc Hw s Hm Ha. pose proof (reach c n0 cs Hc Hw) as Hi. apply (withdraw_within_means c s ow a m); auto.
Qed.

(* ---------- accounting invariant on every reachable state ---------- *)
Lemma accounting_final c n0 cs : 0 <= c_off c -> forallb wf_call cs = true ->
  let s := run c (init c n0) cs in
  (forall a, 0 <= bal (share s) a <= total_supply s) /\ 0 <= total_supply s <= MAX128 /\
  (forall l, NoDup l -> sum_over (bal (share s)) l <= total_supply s) /\
  (forall a, 0 <= bal (asset s) a) /\ 0 <= total_assets s <= MAX128.
Proof.
  intros Hc Hw s. pose proof (reach c n0 cs Hc Hw) as Hi. fold s in Hi.
  pose proof (Inv_A_nonneg c s Hi). pose proof (Inv_S_nonneg c s Hi).
  destruct Hi as (Ha & Hs & _).
  split; [intros a; apply tok_inv_bal_le; exact Hs|]. split; [assumption|].
  split; [apply Hs|]. split; [apply Ha|assumption].
Qed.

(* ---------- liveness: within one's means the owner always gets out ---------- *)
Lemma step_of_res c s cl s' o : step_res c s cl = Ok (s', o) -> step c s cl = (s', Ok o).
Proof. intros H. unfold step. rewrite H. reflexivity. Qed.

Lemma within_means_succeeds_final c n0 cs : 0 <= c_off c -> forallb wf_call cs = true ->
  let s := run c (init c n0) cs in
  (forall au a r ow m, auth_root au ow = true -> max_withdraw c s ow = Ok m -> 0 <= a <= m ->
     exists s' sh evs, step c s (Withdraw a r ow ow au) = (s', Ok (sh, evs))) /\
  (forall au x r ow a, auth_root au ow = true -> 0 <= x <= max_redeem s ow -> preview_redeem c s x = Ok a ->
     exists s' evs, step c s (Redeem x r ow ow au) = (s', Ok (a, evs))).
Proof.
  intros Hc Hw s. pose proof (reach c n0 cs Hc Hw) as Hi. fold s in Hi. split.
  - intros au a r ow m Hau Hm Ha.
    destruct (withdraw_succeeds c s au a r ow m Hc Hi Hau Hm Ha) as (s' & sh & evs & H).
    exists s', sh, evs. apply step_of_res. exact H.
  - intros au x r ow a Hau Hx Hp. unfold max_redeem in Hx.
    destruct (redeem_succeeds c s au x r ow a Hc Hi Hau Hx Hp) as (s' & evs & H).
    exists s', evs. apply step_of_res. exact H.
Qed.

(* ---------- the constructor and the vault's configuration ---------- *)
Lemma constructor_final c n0 :
  construct c n0 = if c_max_off c <? c_off c then Fail
                   else if in_u32 (c_adec c + c_off c) then Ok (init c n0, c_adec c + c_off c) else Fail.
Proof.
  unfold construct, vault_set_asset, vault_set_decimals_offset, blank, vault_decimals, asset_client, query_asset,
    get_decimals_offset, checked_add_u32, init.
  cbn [v_asset v_off bind of_option now asset share].
  destruct (c_max_off c <? c_off c); cbn [negb guard bind v_asset v_off of_option now asset share]; [reflexivity|].
  change (N.eqb ASSET_ADDR ASSET_ADDR) with true. cbn [guard bind].
  destruct (in_u32 (c_adec c + c_off c)); reflexivity.
Qed.

(* the library setters, on any state: once only, and the offset bounded by MAX_DECIMALS_OFFSET *)
Lemma setters_final c s :
  (forall a, vault_set_asset s a = match v_asset s with
                                   | Some _ => Fail
                                   | None => Ok {| now := now s; asset := asset s; share := share s; v_asset := Some a; v_off := v_off s |}
                                   end) /\
  (forall off, vault_set_decimals_offset c s off =
               if c_max_off c <? off then Fail
               else match v_off s with
                    | Some _ => Fail
                    | None => Ok {| now := now s; asset := asset s; share := share s; v_asset := v_asset s; v_off := Some off |}
                    end).
Proof.
  split; [reflexivity|]. intros off. unfold vault_set_decimals_offset. destruct (c_max_off c <? off); reflexivity.
Qed.

(* on every reachable state the asset address and the decimals offset are the constructor's, every later
   set_asset / set_decimals_offset fails, and the getters that depend on them are constant *)
Lemma config_final c n0 cs : 0 <= c_off c -> forallb wf_call cs = true ->
  let s := run c (init c n0) cs in
  v_asset s = Some ASSET_ADDR /\ v_off s = Some (c_off c) /\
  query_asset s = Ok ASSET_ADDR /\ get_decimals_offset s = c_off c /\
  total_assets_r s = Ok (total_assets s) /\
  (forall a, snd (step c s (SetAsset a)) = Fail) /\ (forall off, snd (step c s (SetOffset off)) = Fail).
Proof.
  intros Hc Hw s. pose proof (reach c n0 cs Hc Hw) as Hi. fold s in Hi.
  pose proof (Inv_stored c s Hi) as Hst. destruct Hst as [Hva Hvo].
  split; [exact Hva|]. split; [exact Hvo|].
  split; [unfold query_asset; rewrite Hva; reflexivity|].
  split; [apply (stored_off c s); split; assumption|].
  split; [apply (stored_total_assets c s); split; assumption|].
  split.
  - intros a. unfold step. cbn [step_res]. unfold vault_set_asset. rewrite Hva. reflexivity.
  - intros off. unfold step. cbn [step_res]. unfold vault_set_decimals_offset. rewrite Hvo.
    destruct (guard (negb (c_max_off c <? off))); reflexivity.
Qed.

(* ---------- deposit and mint fail only when they must ---------- *)
Lemma step_ok_iff c s cl : (exists s' v evs, step c s cl = (s', Ok (v, evs))) <-> (exists s' v evs, step_res c s cl = Ok (s', (v, evs))).
Proof.
  split; intros (s' & v & evs & H); exists s', v, evs; [apply step_ok_inv; exact H|apply step_of_res; exact H].
Qed.

Lemma deposit_mint_iff_final c n0 cs : 0 <= c_off c -> forallb wf_call cs = true ->
  let s := run c (init c n0) cs in
  let pull (au : auths) (assets : Z) (f o : addr) :=
    auth_full au o = true /\ 0 <= assets <= bal (asset s) f /\
    (o <> f -> 0 <= assets <= allowance (now s) (asset s) f o /\
               (0 < assets -> snd (allow (asset s) f o) <= now s + c_max_ttl c - 1)) in
  (forall au a r f o,
     (exists s' sh evs, step c s (Deposit a r f o au) = (s', Ok (sh, evs))) <->
     (exists sh, preview_deposit c s a = Ok sh /\ total_supply s + sh <= MAX128 /\ pull au a f o)) /\
  (forall au x r f o, MIN128 <= x <= MAX128 ->
     ((exists s' a evs, step c s (MintS x r f o au) = (s', Ok (a, evs))) <->
      (exists a, preview_mint c s x = Ok a /\ total_supply s + x <= MAX128 /\ pull au a f o))).
Proof.
  intros Hc Hw s pull. pose proof (reach c n0 cs Hc Hw) as Hi. fold s in Hi. split.
  - intros au a r f o. rewrite step_ok_iff. apply (deposit_iff c s au a r f o Hi).
  - intros au x r f o Hx. rewrite step_ok_iff. apply (mint_iff c s au x r f o Hi Hx).
Qed.
