(* The C02 monitor accepts every run of the model. *)
From SC Require Import Lib.Prelude Lib.Int Lib.Host Model.Math Model.Fungible Model.FungibleObs
  Proofs.FungibleBasics Proofs.FungibleExec Proofs.FungibleAllow Proofs.FungibleInv Proofs.FungibleObsFacts
  Run.C02 Proofs.C02Model.

Lemma call_addrs2_incl cl a : In a (call_addrs2 cl) -> In a (call_addrs_all cl).
Proof. destruct cl; cbn; tauto. Qed.

Lemma forallb_ext_in {A} (f g : A -> bool) l : (forall x, In x l -> f x = g x) -> forallb f l = forallb g l.
Proof. induction l; cbn; intros H; auto. rewrite H, IHl; auto. Qed.

(* two views that agree on the universe *)
Definition vagree (univ : list addr) (w1 w2 : view) : Prop :=
  v_now w1 = v_now w2 /\ v_sup w1 = v_sup w2 /\
  (forall a, In a univ -> v_bal w1 a = v_bal w2 a) /\
  (forall p, In p (pairs univ) -> v_allow w1 p = v_allow w2 p).

Section Ext.
  Variable univ : list addr.
  Variables pv pv' cv cv' : view.
  Hypothesis AP : vagree univ pv pv'.
  Hypothesis AC : vagree univ cv cv'.

  Lemma amt_of_ext w w' p : vagree univ w w' -> In p (pairs univ) -> amt_of w p = amt_of w' p.
  Proof. intros (_ & _ & _ & A) H. unfold amt_of. rewrite A; auto. Qed.
  Lemma lu_of_ext w w' p : vagree univ w w' -> In p (pairs univ) -> lu_of w p = lu_of w' p.
  Proof. intros (_ & _ & _ & A) H. unfold lu_of. rewrite A; auto. Qed.
  Lemma ttl_of_ext w w' p : vagree univ w w' -> In p (pairs univ) -> ttl_of w p = ttl_of w' p.
  Proof. intros (_ & _ & _ & A) H. unfold ttl_of. rewrite A; auto. Qed.

  Lemma spent_ok_ext p amt : In p (pairs univ) -> spent_ok pv cv p amt = spent_ok pv' cv' p amt.
  Proof.
    intros H. unfold spent_ok.
    rewrite (amt_of_ext pv pv' p AP H), (amt_of_ext cv cv' p AC H), (lu_of_ext pv pv' p AP H), (lu_of_ext cv cv' p AC H).
    reflexivity.
  Qed.
  Lemma same_al_ext p : In p (pairs univ) -> same_al pv cv p = same_al pv' cv' p.
  Proof.
    intros H. unfold same_al.
    rewrite (amt_of_ext pv pv' p AP H), (amt_of_ext cv cv' p AC H), (lu_of_ext pv pv' p AP H), (lu_of_ext cv cv' p AC H).
    reflexivity.
  Qed.

  Lemma debit_le_ext a amt : In a univ -> debit_le pv cv a amt = debit_le pv' cv' a amt.
  Proof.
    intros H. unfold debit_le. destruct AP as (_ & _ & Bp & _). destruct AC as (_ & _ & Bc & _).
    rewrite (Bp a H), (Bc a H). reflexivity.
  Qed.

  Lemma debit_ok_ext rwa cl v a : In a univ -> (forall x, In x (call_addrs2 cl) -> In x univ) ->
    debit_ok rwa pv cv cl v a = debit_ok rwa pv' cv' cl v a.
  Proof.
    intros Ha Wf. destruct cl; cbn [debit_ok]; try reflexivity; rewrite ?(debit_le_ext a _ Ha); try reflexivity.
    - rewrite spent_ok_ext; auto. apply in_pairs; apply Wf; cbn; auto.
    - rewrite spent_ok_ext; auto. apply in_pairs; apply Wf; cbn; auto.
    - rewrite spent_ok_ext; auto. apply in_pairs; apply Wf; cbn; auto.
    - rewrite spent_ok_ext; auto. apply in_pairs; apply Wf; cbn; auto.
  Qed.

  Lemma debit_ok_ext_all rwa cl a : In a univ -> (forall x, In x (call_addrs2 cl) -> In x univ) ->
    forall out, match out with Ok v => debit_ok rwa pv cv cl v a | Fail => false end =
                match out with Ok v => debit_ok rwa pv' cv' cl v a | Fail => false end.
  Proof. intros H Wf [v|]; auto. apply debit_ok_ext; auto. Qed.

  Lemma allow_change_ok_ext cl v p : In p (pairs univ) ->
    allow_change_ok pv cv cl v p = allow_change_ok pv' cv' cl v p.
  Proof.
    intros H. destruct AC as (Nc & _). unfold allow_change_ok.
    rewrite (amt_of_ext pv pv' p AP H), (amt_of_ext cv cv' p AC H), (lu_of_ext pv pv' p AP H), (lu_of_ext cv cv' p AC H), Nc.
    destruct cl; try reflexivity; cbn [spend_of];
      try (destruct (N.eqb operator owner); [reflexivity|]); rewrite spent_ok_ext; auto.
  Qed.

  Lemma chk_debit_ext rwa cl out a : In a univ -> (forall x, In x (call_addrs2 cl) -> In x univ) ->
    chk_debit rwa pv cv cl out a = chk_debit rwa pv' cv' cl out a.
  Proof.
    intros H Wf. unfold chk_debit. rewrite (debit_ok_ext_all rwa cl a H Wf).
    destruct AP as (_ & _ & Bp & _). destruct AC as (_ & _ & Bc & _).
    rewrite (Bp a H), (Bc a H). reflexivity.
  Qed.
  Lemma chk_change_ext cl out p : In p (pairs univ) -> chk_change pv cv cl out p = chk_change pv' cv' cl out p.
  Proof.
    intros H. unfold chk_change. rewrite (same_al_ext p H). destruct out; auto.
    rewrite (allow_change_ok_ext cl a p H). reflexivity.
  Qed.
  Lemma chk_cap_ext g p : In p (pairs univ) -> chk_cap g cv p = chk_cap g cv' p.
  Proof.
    intros H. unfold chk_cap. destruct AC as (Nc & _). rewrite (amt_of_ext cv cv' p AC H), Nc. reflexivity.
  Qed.
  Lemma chk_live_ext p : In p (pairs univ) -> chk_live cv p = chk_live cv' p.
  Proof.
    intros H. unfold chk_live. destruct AC as (Nc & _).
    rewrite (amt_of_ext cv cv' p AC H), (lu_of_ext cv cv' p AC H), (ttl_of_ext cv cv' p AC H), Nc. reflexivity.
  Qed.
  Lemma same_bal_allow_ext : same_bal_allow univ pv cv = same_bal_allow univ pv' cv'.
  Proof.
    unfold same_bal_allow. destruct AP as (_ & Sp & Bp & _). destruct AC as (_ & Sc & Bc & _).
    rewrite Sp, Sc. f_equal; [f_equal|].
    - apply forallb_ext_in. intros a H. rewrite (Bp a H), (Bc a H). reflexivity.
    - apply forallb_ext_in. intros p H. apply same_al_ext. exact H.
  Qed.

  Lemma c02_checks_ext rwa g cl out : (forall x, In x (call_addrs2 cl) -> In x univ) ->
    c02_checks rwa univ g pv cv cl out = c02_checks rwa univ g pv' cv' cl out.
  Proof.
    intros Wf. unfold c02_checks. rewrite same_bal_allow_ext.
    rewrite (forallb_ext_in (chk_debit rwa pv cv cl out) (chk_debit rwa pv' cv' cl out)) by (intros; apply chk_debit_ext; auto).
    rewrite (forallb_ext_in (chk_change pv cv cl out) (chk_change pv' cv' cl out)) by (intros; apply chk_change_ext; auto).
    rewrite (forallb_ext_in (chk_cap g cv) (chk_cap g cv')) by (intros; apply chk_cap_ext; auto).
    rewrite (forallb_ext_in (chk_live cv) (chk_live cv')) by (intros; apply chk_live_ext; auto).
    reflexivity.
  Qed.
End Ext.

Lemma vagree_observe c univ s : vagree univ (obs_view (observe c univ s)) (state_view s).
Proof.
  repeat split.
  - intros a H. cbn. apply bal_of_observe. exact H.
  - intros p H. cbn. apply allow_of_observe. exact H.
Qed.

Section Run.
  Variable c : cfg.
  Variable univ : list addr.
  Hypothesis W : wf_host (c_host c).

  Record K (m : m02) (s : state) : Prop := {
    k_prev : n_prev m = observe c univ s;
    k_view : vagree univ (obs_view (n_prev m)) (state_view s);
    k_core : core_inv (tk s);
    k_ghost : G (n_ghost m) s
  }.

  Lemma K_init start : K (m02_init (observe c univ (init start))) (init start).
  Proof. constructor; cbn [n_prev n_ghost m02_init]; [reflexivity|apply vagree_observe|apply core_inv_tok0|apply G_init]. Qed.

  Lemma all_true {A} (f : A -> bool) l : (forall x, f x = true) -> forallb f l = true.
  Proof. intros H. apply forallb_forall. intros x _. apply H. Qed.

  Lemma c02_item_model m s cl :
    K m s -> forallb (fun a => mem a univ) (call_addrs_all cl) = true ->
    let '(s', out, evs) := step c s cl in
    exists m', c02_item (is_rwa c) univ m (cl, out, evs, observe c univ s') = (true, m') /\ K m' s'.
  Proof.
    intros [KP K1 K2 K3] Wc.
    assert (Wf : forall x, In x (call_addrs2 cl) -> In x univ).
    { intros a Ha. rewrite forallb_forall in Wc. apply mem_In. apply Wc. apply call_addrs2_incl. exact Ha. }
    pose proof (common_ok_model c univ s cl W K2 Wc) as CM. rewrite <- KP in CM.
    unfold step in *. destruct (exec c s cl) as [[[s1 v] evs]|] eqn:E.
    - rewrite (observe_w_hist c univ s1) in *.
      destruct (model_step_ok c W (n_ghost m) s cl s1 v evs K2 E) as (D & Ch & G'' & Sg). pose proof (G'' K3) as G'.
      destruct (exec_balances _ _ _ _ _ _ W K2 E) as (_ & _ & C1).
      eexists. split.
      + unfold c02_item. f_equal. rewrite CM. cbn [andb].
        rewrite (c02_checks_ext univ _ _ _ _ K1 (vagree_observe c univ s1) _ _ _ _ Wf).
        unfold c02_checks.
        rewrite (all_true _ _ D), (all_true _ _ Ch).
        rewrite (all_true _ _ (fun p => chk_cap_of_G _ s1 p (ci_allow _ C1) G')).
        rewrite (all_true _ _ (fun p => chk_live_of_inv s1 p (ci_allow _ C1))).
        cbn [andb].
        destruct (needs_signer cl) eqn:Ns; auto. specialize (Sg eq_refl).
        destruct (call_auths cl); [congruence|reflexivity].
      + constructor; cbn [n_prev n_ghost tk w_hist]; auto. exact (vagree_observe c univ s1).
    - eexists. split.
      + unfold c02_item. f_equal. rewrite CM. cbn [andb].
        rewrite (c02_checks_ext univ _ _ _ _ K1 (vagree_observe c univ s) _ _ _ _ Wf).
        unfold c02_checks. cbn [ghost_step].
        rewrite (all_true (chk_debit (is_rwa c) (state_view s) (state_view s) cl Fail)).
        2:{ intros a. unfold chk_debit. rewrite Z.ltb_irrefl. reflexivity. }
        rewrite (all_true (chk_change (state_view s) (state_view s) cl Fail)).
        2:{ intros p. unfold chk_change. rewrite same_al_refl_view; auto. }
        rewrite (all_true _ _ (fun p => chk_cap_of_G _ s p (ci_allow _ K2) K3)).
        rewrite (all_true _ _ (fun p => chk_live_of_inv s p (ci_allow _ K2))).
        cbn [andb].
        destruct (needs_signer cl && is_nil_addr (call_auths cl)); auto.
        unfold same_bal_allow. rewrite Z.eqb_refl.
        rewrite (all_true (fun a => v_bal (state_view s) a =? v_bal (state_view s) a)) by (intros; apply Z.eqb_refl).
        rewrite (all_true (same_al (state_view s) (state_view s))) by (intros; apply same_al_refl_view; auto).
        reflexivity.
      + constructor; cbn [n_prev n_ghost ghost_step]; auto; try apply vagree_observe.
  Qed.

  Lemma c02_from_model cs : forall m s i,
    K m s -> forallb (fun cl => forallb (fun a => mem a univ) (call_addrs_all cl)) cs = true ->
    c02_from (is_rwa c) univ m (model_items c univ s cs) i = 0%N.
  Proof.
    induction cs as [|cl r IH]; intros m s i Km Wf; cbn [model_items c02_from]; auto.
    cbn [forallb] in Wf. apply andb_true_iff in Wf. destruct Wf as [W1 W2].
    pose proof (c02_item_model m s cl Km W1) as X.
    destruct (step c s cl) as [[s' out] evs]. destruct X as (m' & X1 & X2).
    cbn [c02_from]. rewrite X1. apply IH; auto.
  Qed.
End Run.

Definition wf_cfg (c : cfg) : bool := 1 <=? min_temp_ttl (c_host c).

Theorem check_accepts_model : forall c univ start cs,
  wf_cfg c = true -> wf_calls univ cs = true ->
  check (model_trace c univ start cs) = (0%N, 0%N, 0%N).
Proof.
  intros c univ start cs Wc Wf. unfold check. rewrite diff_model.
  unfold wf_calls, wf_calls_all in Wf. apply andb_true_iff in Wf. destruct Wf as [Wn Wa].
  unfold c02_monitor, model_trace. cbn [t_univ t_start t_items t_init t_cfg].
  rewrite (genesis_observe c univ start Wn).
  rewrite (c02_from_model c univ); auto.
  - unfold wf_host. apply Z.leb_le. exact Wc.
  - apply K_init.
Qed.
