(* C13: every step of the three contracts has one of three shapes; the invariant
   (sorted timelines, units = balance, votes = delegated units, supply = sum of units)
   holds in every reachable state. *)
From SC Require Import Lib.Prelude Lib.Int Lib.Host Model.Votes Proofs.VotesTimeline Proofs.VotesState.
Open Scope Z_scope.

(* ---------- inversion of monadic code ---------- *)
Lemma bind_ok {A B} (r : res A) (k : A -> res B) (b : B) :
  bind r k = Ok b -> exists a, r = Ok a /\ k a = Ok b.
Proof. destruct r as [a|]; cbn [bind]; [eauto|discriminate]. Qed.
Lemma guard_ok b : guard b = Ok tt -> b = true.
Proof. destruct b; cbn [guard]; [reflexivity|discriminate]. Qed.
Lemma guard_ok' b u : guard b = Ok u -> b = true.
Proof. destruct b; cbn [guard]; [reflexivity|discriminate]. Qed.
Lemma of_option_ok {A} (o : option A) a : of_option o = Ok a -> o = Some a.
Proof. destruct o; cbn [of_option]; [intros H; inversion H; reflexivity|discriminate]. Qed.

Ltac inv_bind H :=
  repeat match type of H with
  | bind _ _ = Ok _ =>
      let x := fresh "x" in let Hx := fresh "Hx" in
      apply bind_ok in H; destruct H as [x [Hx H]]
  end.
Ltac inv_guards :=
  repeat match goal with
  | H : guard _ = Ok _ |- _ => apply guard_ok' in H
  | H : of_option _ = Ok _ |- _ => apply of_option_ok in H
  | H : Ok _ = Ok _ |- _ => inversion H; clear H; subst
  end.

(* ---------- balances through the setters ---------- *)
Lemma balance_of_set_bal s a b x : balance_of (set_bal s a b) x = if N.eqb x a then b else balance_of s x.
Proof.
  unfold balance_of, set_bal, with_bal. cbn [s_bal]. destruct (N.eqb x a) eqn:E.
  - apply N.eqb_eq in E. subst. rewrite alist_get_set_eq. reflexivity.
  - apply N.eqb_neq in E. rewrite alist_get_set_neq by exact E. reflexivity.
Qed.

Lemma balance_of_with_owner s x a : balance_of (with_owner s x) a = balance_of s a. Proof. reflexivity. Qed.
Lemma balance_of_with_appr s x a : balance_of (with_appr s x) a = balance_of s a. Proof. reflexivity. Qed.
Lemma balance_of_with_supply s x a : balance_of (with_supply s x) a = balance_of s a. Proof. reflexivity. Qed.
Lemma balance_of_with_v s x a : balance_of (with_v s x) a = balance_of s a. Proof. reflexivity. Qed.
Lemma balance_of_with_next s x a : balance_of (with_next s x) a = balance_of s a. Proof. reflexivity. Qed.
Lemma balance_of_with_alw s x a : balance_of (with_alw s x) a = balance_of s a. Proof. reflexivity. Qed.
Ltac bal_simpl := rewrite ?balance_of_with_owner, ?balance_of_with_appr, ?balance_of_with_supply, ?balance_of_with_v,
                          ?balance_of_with_next, ?balance_of_with_alw.

(* "nothing the property talks about changed" *)
Definition same_core (s s' : state) : Prop :=
  s_now s' = s_now s /\ s_v s' = s_v s /\ (forall a, balance_of s' a = balance_of s a).
Lemma same_core_refl s : same_core s s.
Proof. repeat split. Qed.
Lemma same_core_trans s1 s2 s3 : same_core s1 s2 -> same_core s2 s3 -> same_core s1 s3.
Proof. intros [A [B C]] [A' [B' C']]. split; [congruence|split; [congruence|intros a; rewrite C', C; reflexivity]]. Qed.

(* a balance movement of [amt] from [from] to [to] that leaves the votes state alone *)
Definition moved (s s' : state) (from to : option addr) (amt : Z) : Prop :=
  s_now s' = s_now s /\ s_v s' = s_v s /\
  (forall a, balance_of s' a = balance_of s a - ind (oaddr_eqb from (Some a)) amt + ind (oaddr_eqb to (Some a)) amt).

Lemma set_allowance_same h s o sp amt live s' : set_allowance h s o sp amt live = Ok s' -> same_core s s'.
Proof. unfold set_allowance. intros H. inv_bind H. inv_guards. repeat split. Qed.

Lemma spend_allowance_same h s o sp amt s' : spend_allowance h s o sp amt = Ok s' -> same_core s s'.
Proof.
  unfold spend_allowance. intros H. inv_bind H. destruct (0 <? amt).
  - eapply set_allowance_same; eauto.
  - inv_guards. apply same_core_refl.
Qed.

Lemma f_update_moved s from to amt s' : f_update s from to amt = Ok s' -> 0 <= amt /\ moved s s' from to amt.
Proof.
  unfold f_update. intros H. inv_bind H. inv_guards. apply Z.leb_le in Hx. split; [exact Hx|].
  rename x0 into s1.
  assert (M1 : moved s s1 from None amt).
  { destruct from as [f|].
    - inv_bind Hx0. inv_guards. split; [reflexivity|split; [reflexivity|]].
      intros a. rewrite balance_of_set_bal. cbn [oaddr_eqb]. unfold ind.
      destruct (N.eqb a f) eqn:E; bool_hyps; subst; rewrite ?N.eqb_refl; [lia|].
      replace (N.eqb f a) with false by (symmetry; apply N.eqb_neq; congruence). lia.
    - inv_bind Hx0. inv_guards. split; [reflexivity|split; [reflexivity|]].
      intros a. cbn [oaddr_eqb ind]. unfold balance_of. cbn. lia. }
  destruct M1 as [N1 [V1 B1]].
  destruct to as [t|].
  - inv_bind H. inv_guards. split; [exact N1|split; [exact V1|]].
    unfold fit128 in Hx1. destruct (in_i128 (balance_of s1 t + amt)); [|discriminate]. inversion Hx1; subst; clear Hx1.
    intros a. rewrite balance_of_set_bal. rewrite !B1. cbn [oaddr_eqb]. unfold ind.
    destruct (N.eqb a t) eqn:E; bool_hyps; subst; rewrite ?N.eqb_refl; [lia|].
    replace (N.eqb t a) with false by (symmetry; apply N.eqb_neq; congruence). lia.
  - inv_bind H. inv_guards. split; [exact N1|split; [exact V1|]].
    intros a. bal_simpl. rewrite B1. cbn [oaddr_eqb ind]. lia.
Qed.

Lemma checked_sub_u32_inv a b v : checked_sub_u32 a b = Some v -> v = a - b.
Proof. unfold checked_sub_u32. destruct (in_u32 (a - b)); [|discriminate]. intros H; inversion H; reflexivity. Qed.
Lemma checked_add_u32_inv a b v : checked_add_u32 a b = Some v -> v = a + b.
Proof. unfold checked_add_u32. destruct (in_u32 (a + b)); [|discriminate]. intros H; inversion H; reflexivity. Qed.

Ltac inv_arith :=
  repeat match goal with
  | H : checked_sub_u32 _ _ = Some _ |- _ => apply checked_sub_u32_inv in H
  | H : checked_add_u32 _ _ = Some _ |- _ => apply checked_add_u32_inv in H
  end.

Lemma n_update_moved s from to id s' : n_update s from to id = Ok s' -> moved s s' from to 1.
Proof.
  unfold n_update. intros H. inv_bind H. rename x into s1.
  assert (M1 : moved s s1 from None 1).
  { destruct from as [f|].
    - inv_bind Hx. inv_guards. inv_arith. subst.
      split; [reflexivity|split; [reflexivity|]]. intros a.
      bal_simpl.
      rewrite balance_of_set_bal. cbn [oaddr_eqb]. unfold ind.
      destruct (N.eqb a f) eqn:E; bool_hyps; subst; rewrite ?N.eqb_refl; [lia|].
      replace (N.eqb f a) with false by (symmetry; apply N.eqb_neq; congruence). lia.
    - inv_guards. split; [reflexivity|split; [reflexivity|]]. intros a. cbn [oaddr_eqb ind]. lia. }
  destruct M1 as [N1 [V1 B1]].
  destruct to as [t|].
  - inv_bind H. inv_guards. inv_arith. subst.
    split; [exact N1|split; [exact V1|]]. intros a.
    bal_simpl.
    rewrite balance_of_set_bal. rewrite !B1. cbn [oaddr_eqb]. unfold ind.
    destruct (N.eqb a t) eqn:E; bool_hyps; subst; rewrite ?N.eqb_refl; [lia|].
    replace (N.eqb t a) with false by (symmetry; apply N.eqb_neq; congruence). lia.
  - inv_guards. split; [exact N1|split; [exact V1|]]. intros a.
    bal_simpl.
    rewrite B1. cbn [oaddr_eqb ind]. lia.
Qed.

Lemma n_approve_same h auths s a b id live s' : n_approve h auths s a b id live = Ok s' -> same_core s s'.
Proof.
  unfold n_approve. intros H. inv_bind H. destruct (live =? 0).
  - inv_guards. repeat split.
  - inv_bind H. inv_guards. repeat split.
Qed.

(* ---------- the three shapes of a step ---------- *)
Inductive shape (c : call) (s s' : state) : Prop :=
| sh_same :
    s_now s <= s_now s' -> s_v s' = s_v s -> (forall a, balance_of s' a = balance_of s a) ->
    (s_now s' = s_now s \/ exists n, c = Advance n) ->
    shape c s s'
| sh_move (from to : option addr) (amt : Z) :
    0 < amt -> s_now s' = s_now s ->
    transfer_voting_units (s_now s) (s_v s) from to amt = Ok (s_v s') ->
    (forall a, balance_of s' a = balance_of s a - ind (oaddr_eqb from (Some a)) amt + ind (oaddr_eqb to (Some a)) amt) ->
    (forall a, from = Some a \/ to = Some a -> In a (call_addrs c)) ->
    shape c s s'
| sh_delegate (auths : list addr) (acc d : addr) :
    s_now s' = s_now s ->
    delegate (s_now s) auths (s_v s) acc d = Ok (s_v s') ->
    (forall a, balance_of s' a = balance_of s a) ->
    c = Delegate acc d ->
    shape c s s'.

Lemma shape_of_same c s s' : same_core s s' -> shape c s s'.
Proof. intros [A [B C]]. apply sh_same; auto. lia. Qed.

(* a token movement followed by the votes hook *)
Lemma moved_then_tvu c s0 s s1 s2 from to amt :
  same_core s0 s ->
  moved s s1 from to amt -> 0 < amt ->
  tvu s1 from to amt = Ok s2 ->
  (forall a, from = Some a \/ to = Some a -> In a (call_addrs c)) ->
  shape c s0 s2.
Proof.
  intros [A0 [V0 B0]] [N1 [V1 B1]] Hamt H Hin. unfold tvu in H. inv_bind H. inv_guards.
  rewrite N1, V1, A0, V0 in Hx.
  refine (sh_move c s0 _ from to amt Hamt _ _ _ Hin); cbn [s_now s_v with_v].
  - congruence.
  - exact Hx.
  - intros a. bal_simpl. rewrite B1, B0. reflexivity.
Qed.

Lemma moved_zero_same s s1 from to : moved s s1 from to 0 -> same_core s s1.
Proof. intros [A [B C]]. split; [exact A|split; [exact B|]]. intros a. rewrite C. unfold ind. case_ifs; lia. Qed.

Lemma f_hook_shape c s0 s s1 s2 from to amt :
  same_core s0 s ->
  f_update s from to amt = Ok s1 ->
  f_votes_hook s1 from to amt = Ok s2 ->
  (forall a, from = Some a \/ to = Some a -> In a (call_addrs c)) ->
  shape c s0 s2.
Proof.
  intros H0 Hu Hh Hin. apply f_update_moved in Hu. destruct Hu as [Hamt M].
  unfold f_votes_hook in Hh. destruct (0 <? amt) eqn:E.
  - apply Z.ltb_lt in E. eapply moved_then_tvu; eauto.
  - apply Z.ltb_ge in E. assert (amt = 0) by lia. subst amt. inv_guards.
    apply shape_of_same. eapply same_core_trans; [exact H0|]. apply moved_zero_same with (from := from) (to := to). exact M.
Qed.

Lemma delegate_shape s auths acc d v :
  delegate (s_now s) auths (s_v s) acc d = Ok v -> shape (Delegate acc d) s (with_v s v).
Proof. intros H. apply (sh_delegate _ s _ auths acc d); auto. Qed.

Lemma advance_shape s n : (0 <=? n) && in_u32 (s_now s + n) = true -> shape (Advance n) s (with_now s (s_now s + n)).
Proof.
  intros H. apply andb_prop in H. destruct H as [H _]. apply Z.leb_le in H.
  apply sh_same; cbn [s_now s_v with_now]; auto; [lia|right; eexists; reflexivity].
Qed.

Lemma step_f_shape h s auths c s' r : step_f h s auths c = Ok (s', r) -> shape c s s'.
Proof.
  destruct c; cbn [step_f]; intros H.
  - inv_bind H. inv_guards. apply advance_shape. exact Hx.
  - inv_bind H. inv_guards. eapply f_hook_shape; eauto using same_core_refl.
    cbn [call_addrs]. intros a [Ha|Ha]; [discriminate|inversion Ha; left; reflexivity].
  - discriminate.
  - inv_bind H. inv_guards. eapply f_hook_shape; eauto using same_core_refl.
    cbn [call_addrs]. intros a [Ha|Ha]; [inversion Ha; left; reflexivity|discriminate].
  - inv_bind H. inv_guards. eapply f_hook_shape; [eapply spend_allowance_same; eauto| | |]; eauto.
    cbn [call_addrs]. intros a [Ha|Ha]; [inversion Ha; right; left; reflexivity|discriminate].
  - inv_bind H. inv_guards. eapply f_hook_shape; eauto using same_core_refl.
    cbn [call_addrs]. intros a [Ha|Ha]; inversion Ha; [left|right; left]; reflexivity.
  - inv_bind H. inv_guards. eapply f_hook_shape; [eapply spend_allowance_same; eauto| | |]; eauto.
    cbn [call_addrs]. intros a [Ha|Ha]; inversion Ha; [right; left|right; right; left]; reflexivity.
  - inv_bind H. inv_guards. apply shape_of_same. eapply set_allowance_same; eauto.
  - inv_bind H. inv_guards. eapply delegate_shape; exact Hx.
Qed.

Lemma n_hook_shape c s0 s s1 s2 from to id :
  same_core s0 s ->
  n_update s from to id = Ok s1 ->
  tvu s1 from to 1 = Ok s2 ->
  (forall a, from = Some a \/ to = Some a -> In a (call_addrs c)) ->
  shape c s0 s2.
Proof. intros H0 Hu Ht Hin. apply n_update_moved in Hu. eapply moved_then_tvu; eauto. lia. Qed.

Lemma step_n_shape h s auths c s' r : step_n h s auths c = Ok (s', r) -> shape c s s'.
Proof.
  unfold step_n. intros H. inv_bind H. clear Hx x.
  destruct c.
  - inv_bind H. inv_guards. apply advance_shape. exact Hx.
  - inv_bind H. inv_guards. eapply n_hook_shape; eauto using same_core_refl.
    cbn [call_addrs]. intros a [Ha|Ha]; [discriminate|inversion Ha; left; reflexivity].
  - inv_bind H. inv_guards. eapply n_hook_shape; [| eauto | eauto |].
    + repeat split.
    + cbn [call_addrs]. intros a [Ha|Ha]; [discriminate|inversion Ha; left; reflexivity].
  - inv_bind H. inv_guards. eapply n_hook_shape; eauto using same_core_refl.
    cbn [call_addrs]. intros a [Ha|Ha]; [inversion Ha; left; reflexivity|discriminate].
  - inv_bind H. inv_guards. eapply n_hook_shape; eauto using same_core_refl.
    cbn [call_addrs]. intros a [Ha|Ha]; [inversion Ha; right; left; reflexivity|discriminate].
  - inv_bind H. inv_guards. eapply n_hook_shape; eauto using same_core_refl.
    cbn [call_addrs]. intros a [Ha|Ha]; inversion Ha; [left|right; left]; reflexivity.
  - inv_bind H. inv_guards. eapply n_hook_shape; eauto using same_core_refl.
    cbn [call_addrs]. intros a [Ha|Ha]; inversion Ha; [right; left|right; right; left]; reflexivity.
  - inv_bind H. inv_guards. apply shape_of_same. eapply n_approve_same; eauto.
  - inv_bind H. inv_guards. eapply delegate_shape; exact Hx.
Qed.

Theorem step_shape h s auths c : shape c s (fst (step h s auths c)).
Proof.
  unfold step. destruct (is_fungible (h_kind h)).
  - destruct (step_f h s auths c) as [[s' r]|] eqn:E; cbn [fst].
    + eapply step_f_shape; eauto.
    + apply shape_of_same, same_core_refl.
  - destruct (step_n h s auths c) as [[s' r]|] eqn:E; cbn [fst].
    + eapply step_n_shape; eauto.
    + apply shape_of_same, same_core_refl.
Qed.

(* ---------- the invariant ---------- *)
Definition tl_wf (now : Z) (t : timeline) : Prop :=
  sorted t /\ head_ledger t <= now /\ tl_num t <= MAXU32.

Record inv (U : list addr) (s : state) : Prop := {
  inv_now : 0 <= s_now s;
  inv_tl : forall a, tl_wf (s_now s) (tl_of (s_v s) a);
  inv_ts : tl_wf (s_now s) (v_ts (s_v s));
  inv_units_bal : forall a, units_of (s_v s) a = balance_of s a;
  inv_units_nonneg : forall a, 0 <= units_of (s_v s) a;
  inv_outside : forall a, ~ In a U -> units_of (s_v s) a = 0;
  inv_votes : forall d, votes_of (s_v s) d =
      sumf (fun a => ind (oaddr_eqb (delegate_of (s_v s) a) (Some d)) (units_of (s_v s) a)) U;
  inv_supply : supply_of (s_v s) = sumf (units_of (s_v s)) U;
  inv_supply_range : 0 <= supply_of (s_v s) <= MAXU128
}.

Lemma tl_wf_mono now now' t : now <= now' -> tl_wf now t -> tl_wf now' t.
Proof. intros H [A [B C]]. repeat split; auto. lia. Qed.
Lemma tl_wf_ext now t t' : tl_ext now t t' -> tl_wf now t -> tl_wf now t'.
Proof. intros [W _] [A [B C]]. apply W; assumption. Qed.

Lemma sumf_all_zero f U : (forall a, f a = 0) -> sumf f U = 0.
Proof. intros H. induction U as [|x U IH]; [reflexivity|]. rewrite sumf_cons, H, IH. reflexivity. Qed.

Lemma inv_init h U : 0 <= h_start h -> inv U (init h).
Proof.
  intros H.
  assert (W : forall now, 0 <= now -> tl_wf now []).
  { intros now Hn. split; [exact I|split; [cbn [head_ledger]; lia|cbn; unfold MAXU32; lia]]. }
  constructor; cbn [init s_now s_v v_init].
  - exact H.
  - intros a. apply W. exact H.
  - apply W. exact H.
  - intros a. reflexivity.
  - intros a. cbn. lia.
  - intros a _. reflexivity.
  - intros d. rewrite sumf_all_zero; [reflexivity|]. intros; reflexivity.
  - rewrite sumf_all_zero; [reflexivity|]. intros; reflexivity.
  - unfold supply_of. cbn. unfold MAXU128. lia.
Qed.

Lemma ind_none_pick (o : option addr) amt :
  ind (is_none_addr o) amt = amt - match o with Some _ => amt | None => 0 end.
Proof. destruct o; cbn [is_none_addr ind]; lia. Qed.

Lemma inv_step U c s s' : NoDup U -> (forall a, In a (call_addrs c) -> In a U) ->
  inv U s -> shape c s s' -> inv U s'.
Proof.
  intros Hnd Hin I Sh. destruct I as [I1 I2 I3 I4 I5 I6 I7 I8 I9]. destruct Sh as [Hn Hv Hb|from to amt Hamt Hn Ht Hb Hft|auths acc d Hn Hd Hb Hacc].
  - (* same *)
    constructor; rewrite ?Hv.
    + lia.
    + intros a. eapply tl_wf_mono; eauto.
    + eapply tl_wf_mono; eauto.
    + intros a. rewrite Hb. apply I4.
    + exact I5.
    + exact I6.
    + exact I7.
    + exact I8.
    + exact I9.
  - (* a movement of units *)
    assert (Hne : amt <> 0) by lia.
    destruct (tvu_spec _ _ _ _ _ _ I1 Hne Ht) as [T1 [T2 [T3 [T4 [T5 [T6 [[T7a T7b] T8]]]]]]].
    assert (HfU : forall f, from = Some f -> In f U) by (intros f Hf; apply Hin, Hft; left; exact Hf).
    assert (HtU : forall t, to = Some t -> In t U) by (intros t Hf; apply Hin, Hft; right; exact Hf).
    constructor; rewrite ?Hn.
    + exact I1.
    + intros a. eapply tl_wf_ext; [apply T7a|apply I2].
    + eapply tl_wf_ext; [apply T7b|apply I3].
    + intros a. rewrite T2, Hb, I4. reflexivity.
    + intros a. rewrite T2. pose proof (I5 a). unfold ind.
      destruct (oaddr_eqb from (Some a)) eqn:E1.
      * apply oaddr_eqb_eq in E1. pose proof (T3 a E1). destruct (oaddr_eqb to (Some a)); lia.
      * destruct (oaddr_eqb to (Some a)); lia.
    + intros a Ha. rewrite T2, (I6 a Ha). unfold ind.
      destruct (oaddr_eqb from (Some a)) eqn:E1; [apply oaddr_eqb_eq in E1; apply HfU in E1; contradiction|].
      destruct (oaddr_eqb to (Some a)) eqn:E2; [apply oaddr_eqb_eq in E2; apply HtU in E2; contradiction|]. lia.
    + intros d. rewrite T6, I7.
      rewrite (sumf_ext (fun a => ind (oaddr_eqb (delegate_of (s_v s') a) (Some d)) (units_of (s_v s') a))
                        (fun a => (ind (oaddr_eqb (delegate_of (s_v s) a) (Some d)) (units_of (s_v s) a)
                                   - ind (oaddr_eqb from (Some a)) (ind (oaddr_eqb (delegate_of (s_v s) a) (Some d)) amt))
                                  + ind (oaddr_eqb to (Some a)) (ind (oaddr_eqb (delegate_of (s_v s) a) (Some d)) amt))).
      2:{ intros a _. rewrite T1, T2. unfold ind. case_ifs; lia. }
      rewrite sumf_add, sumf_sub. rewrite !sumf_pick by assumption.
      unfold odelegate.
      destruct (oaddr_eqb match from with Some a => delegate_of (s_v s) a | None => None end
                          match to with Some a => delegate_of (s_v s) a | None => None end) eqn:E.
      * apply oaddr_eqb_eq in E. destruct from as [f|], to as [t|].
        -- rewrite E. lia.
        -- rewrite E. cbn [oaddr_eqb ind]. lia.
        -- rewrite <- E. cbn [oaddr_eqb ind]. lia.
        -- lia.
      * destruct from as [f|], to as [t|]; cbn [ind oaddr_eqb]; lia.
    + rewrite T5, I8.
      rewrite (sumf_ext (units_of (s_v s'))
                        (fun a => (units_of (s_v s) a - ind (oaddr_eqb from (Some a)) amt) + ind (oaddr_eqb to (Some a)) amt)).
      2:{ intros a _. rewrite T2. reflexivity. }
      rewrite sumf_add, sumf_sub.
      rewrite (sumf_pick U from (fun _ => amt)) by assumption.
      rewrite (sumf_pick U to (fun _ => amt)) by assumption.
      rewrite !ind_none_pick. lia.
    + apply T8. exact I9.
  - (* delegate *)
    destruct (delegate_spec _ _ _ _ _ _ I1 Hd) as [_ [D2 [D3 [D4 [D5 [D6 [D7a D7b]]]]]]].
    assert (HaccU : In acc U) by (apply Hin; rewrite Hacc; left; reflexivity). clear Hacc. rename HaccU into Hacc.
    constructor; rewrite ?Hn.
    + exact I1.
    + intros a. eapply tl_wf_ext; [apply D7a|apply I2].
    + eapply tl_wf_ext; [apply D7b|apply I3].
    + intros a. rewrite D4, Hb. apply I4.
    + intros a. rewrite D4. apply I5.
    + intros a Ha. rewrite D4. apply I6. exact Ha.
    + intros x. rewrite D6, I7.
      rewrite (sumf_ext (fun a => ind (oaddr_eqb (delegate_of (s_v s') a) (Some x)) (units_of (s_v s') a))
                        (fun a => ind (oaddr_eqb (delegate_of (s_v s) a) (Some x)) (units_of (s_v s) a)
                                  + ind (oaddr_eqb (Some acc) (Some a))
                                        (ind (N.eqb d x) (units_of (s_v s) a) - ind (oaddr_eqb (delegate_of (s_v s) a) (Some x)) (units_of (s_v s) a)))).
      2:{ intros a _. rewrite D3, D4. cbn [oaddr_eqb]. unfold ind.
          destruct (N.eqb a acc) eqn:E1; bool_hyps; subst; rewrite ?N.eqb_refl.
          - cbn [oaddr_eqb]. rewrite (N.eqb_sym d x). case_ifs; lia.
          - replace (N.eqb acc a) with false by (symmetry; apply N.eqb_neq; congruence). lia. }
      rewrite sumf_add. rewrite (sumf_pick U (Some acc)) by (auto; intros f Hf; inversion Hf; subst; exact Hacc).
      rewrite (N.eqb_sym d x). unfold ind. case_ifs; lia.
    + unfold supply_of. rewrite D5. fold (supply_of (s_v s)). rewrite I8. apply sumf_ext. intros a _. rewrite D4. reflexivity.
    + unfold supply_of. rewrite D5. exact I9.
Qed.

Definition calls_in (U : list addr) (cs : list (list addr * call)) : Prop :=
  forall ac, In ac cs -> forall a, In a (call_addrs (snd ac)) -> In a U.

Theorem inv_run h U cs : NoDup U -> calls_in U cs -> forall s, inv U s -> inv U (run h s cs).
Proof.
  intros Hnd. induction cs as [|[au c] cs IH]; intros Hin s I; [exact I|].
  cbn [run fold_left fst snd]. apply IH.
  - intros ac Hac. apply Hin. right. exact Hac.
  - eapply inv_step; [exact Hnd| |exact I|apply step_shape].
    apply (Hin (au, c)). left. reflexivity.
Qed.

Theorem inv_reachable h U cs : 0 <= h_start h -> NoDup U -> calls_in U cs -> inv U (run h (init h) cs).
Proof. intros H0 Hnd Hin. apply inv_run; auto. apply inv_init. exact H0. Qed.
