(* C04: the monitor (Run/C04.v) accepts every run of the model, and the model's diff with
   itself is empty. *)
From SC Require Import Lib.Prelude Lib.Int Lib.Host Model.Rwa Run.C04 Proofs.Rwa.

(* ------------------------------------------------------------------ *)
(* reflexivity of the boolean equalities                                *)
Lemma eqb_list_refl {A} (eqb : A -> A -> bool) :
  (forall x, eqb x x = true) -> forall l, eqb_list eqb l l = true.
Proof. intros H l. induction l; cbn; auto. rewrite H, IHl. reflexivity. Qed.
Lemma eqb_acct_refl x : eqb_acct x x = true.
Proof. destruct x as [[b f] l]. cbn. rewrite !Z.eqb_refl, Bool.eqb_reflx. reflexivity. Qed.
Lemma eqb_iev_refl x : eqb_iev x x = true.
Proof. destruct x; cbn; apply N.eqb_refl. Qed.
Lemma eqb_cev_refl x : eqb_cev x x = true.
Proof. destruct x; cbn; rewrite ?N.eqb_refl, ?Z.eqb_refl; reflexivity. Qed.
Lemma eqb_out_refl x : eqb_out x x = true.
Proof. destruct x as [[b|]|]; cbn; auto. apply Bool.eqb_reflx. Qed.
Lemma perm_iev_refl l : perm_iev l l = true.
Proof. unfold perm_iev. apply forallb_forall. intros x _. apply Nat.eqb_refl. Qed.
Lemma eqb_oaddr_refl x : eqb_oaddr x x = true.
Proof. destruct x; cbn; auto. apply N.eqb_refl. Qed.
Lemma eqb_obs_refl x : eqb_obs x x = true.
Proof.
  unfold eqb_obs. rewrite Bool.eqb_reflx, Z.eqb_refl.
  rewrite (eqb_list_refl _ eqb_acct_refl), (eqb_list_refl _ Z.eqb_refl),
    perm_iev_refl, (eqb_list_refl _ eqb_cev_refl), !eqb_oaddr_refl. reflexivity.
Qed.

Lemma eqb_acct_true b1 f1 l1 b2 f2 l2 :
  b1 = b2 -> f1 = f2 -> l1 = l2 -> eqb_acct (b1, f1, l1) (b2, f2, l2) = true.
Proof. intros -> -> ->. apply eqb_acct_refl. Qed.

Lemma mem_iev_in x l : In x l -> mem_iev x l = true.
Proof. intros H. apply existsb_exists. exists x. split; auto. apply eqb_iev_refl. Qed.
Lemma mem_cev_in x l : In x l -> mem_cev x l = true.
Proof. intros H. apply existsb_exists. exists x. split; auto. apply eqb_cev_refl. Qed.

(* ------------------------------------------------------------------ *)
(* the model's diff with itself is empty                                *)
Lemma diff_model hc univ cs : forall s i, diff_from hc univ s (model_items hc univ s cs) i = 0%N.
Proof.
  induction cs as [|c cs IH]; intros s i; cbn [model_items diff_from]; auto.
  destruct (step hc s c) as [s' o] eqn:Hs. cbn [diff_from it_call it_out it_obs]. rewrite Hs.
  rewrite eqb_out_refl, eqb_obs_refl. cbn. apply IH.
Qed.

(* ------------------------------------------------------------------ *)
(* lookups in an observation of the model                               *)
Lemma look_sound (f : addr -> acct) a v : forall univ,
  look a (combine univ (map f univ)) = Some v -> v = f a.
Proof.
  unfold look. induction univ as [|k r IH]; cbn; [discriminate|].
  destruct (N.eqb a k) eqn:E.
  - apply N.eqb_eq in E. subst. congruence.
  - exact IH.
Qed.

Definition sound_lk (s : state) (lk : addr -> option acct) : Prop :=
  forall a v, lk a = Some v -> v = acct_of s a.

Lemma look2_sound (f : addr * addr -> Z) o sp v : forall l,
  look2 o sp (combine l (map f l)) = Some v -> v = f (o, sp).
Proof.
  induction l as [|[o' sp'] r IH]; cbn; [discriminate|].
  destruct (N.eqb o o' && N.eqb sp sp') eqn:E.
  - apply andb_prop in E. destruct E as [E1 E2]. apply N.eqb_eq in E1, E2. subst. congruence.
  - exact IH.
Qed.
Definition sound_la (s : state) (la : addr -> addr -> option Z) : Prop :=
  forall o sp v, la o sp = Some v -> v = allowance s o sp.

Ltac btrue :=
  repeat match goal with
  | |- (_ && _) = true => apply andb_true_intro; split
  | |- negb _ = true => apply negb_true_iff
  | |- (_ <=? _) = true => apply Z.leb_le
  | |- (_ =? _) = true => apply Z.eqb_eq
  | |- N.eqb _ _ = true => apply N.eqb_eq
  | |- Bool.eqb _ _ = true => apply Bool.eqb_true_iff
  end.

(* destruct the lookups of the monitor, using their soundness *)
Ltac look_cases HS :=
  repeat match goal with
  | |- context [match ?lk ?a with Some _ => _ | None => _ end] =>
      let L := fresh "L" in
      destruct (lk a) as [[[? ?] ?]|] eqn:L;
      [ apply HS in L; unfold acct_of in L; injection L as -> -> -> | ]
  end.

(* destruct the allowance lookups of the monitor, using their soundness *)
Ltac la_cases HA HA' :=
  repeat match goal with
  | |- context [match ?la ?a ?b with Some _ => _ | None => _ end] =>
      let L := fresh "L" in
      destruct (la a b) eqn:L; [ first [apply HA in L | apply HA' in L]; subst | ]
  end.

Ltac logmem :=
  match goal with
  | H : idv_log ?s = _ |- mem_iev _ (idv_log ?s) = true => apply mem_iev_in; rewrite H; cbn; auto 6
  | H : cmp_log ?s = _ |- mem_cev _ (cmp_log ?s) = true => apply mem_cev_in; rewrite H; cbn; auto 6
  end.
Ltac notif_fin :=
  match goal with
  | H : cmp_log ?s = _ |- context [filter is_notif (cmp_log ?s)] =>
      rewrite H; cbn; rewrite ?N.eqb_refl, ?Z.eqb_refl; reflexivity
  end.
Ltac acct_fin :=
  let a := fresh "a" in
  intros a; unfold acct_of; apply eqb_acct_true; rw_state; cbn [delta]; unfold unfrozen_by;
  eqbs; try reflexivity; try lia.

(* ------------------------------------------------------------------ *)
(* what the monitor checks holds of every successful call of the model  *)
Lemma exec_facts hc c s r s' lk la la' prev cur :
  Inv s -> sound_lk s lk -> sound_la s la -> sound_la s' la' -> idv_log s = [] -> cmp_log s = [] ->
  ob_paused prev = paused s -> ob_idv cur = idv_log s' -> ob_cmp cur = cmp_log s' ->
  ob_cmp_at prev = link_cmp s -> ob_idv_at prev = link_idv s ->
  exec_with transfer_from hc c s = Ok (r, s') ->
  gates_ok lk la la' prev cur c r = true /\
  (forall a, match expect_acct lk c r a (acct_of s a) with
             | Some e => eqb_acct e (acct_of s' a) = true
             | None => True
             end) /\
  paused s' = paused_after prev c /\
  match expected_notifs lk c r with
  | Some l => eqb_list eqb_cev (filter is_notif (cmp_log s')) l = true
  | None => True
  end.
Proof.
  intros HI HS HA HA' Li Lc Hp Hi Hc Hl1 Hl2 H.
  unfold exec_with, unit_ret in H. binds H.
  unfold gates_ok, expect_acct, paused_after, expected_notifs, gates_transfer, gates_mint, gates_recover, allowance_spent.
  replace (eff_obs prev c) with (eff_orc s c) by (unfold eff_obs, eff_orc; rewrite Hl1, Hl2; reflexivity).
  rewrite Hp, Hi, Hc.
  destruct (c_op c); binds H; subst.
  - (* transfer *)
    use transfer_spec. unfold gates, same_core in *. rewrite Li, Lc in *. cbn [app] in *. decomp.
    split; [|split; [|split]].
    + la_cases HA HA'; look_cases HS; btrue; auto; try lia; try logmem.
    + acct_fin.
    + congruence.
    + notif_fin.
  - (* transfer_from *)
    match goal with H : transfer_from _ _ _ _ _ _ _ _ = Ok _ |- _ => pose proof (transfer_from_allowance _ _ _ _ _ _ _ _ _ H) as AL end.
    use transfer_from_spec. unfold gates, same_core in *. rewrite Li, Lc in *. cbn [app] in *. decomp.
    split; [|split; [|split]].
    + la_cases HA HA'; look_cases HS; btrue; auto; try lia; try logmem.
    + acct_fin.
    + congruence.
    + notif_fin.
  - (* approve *)
    match goal with H : set_allowance _ _ _ _ _ _ = Ok _ |- _ => pose proof (set_allowance_spec _ _ _ _ _ _ _ H) as [AP1 AP2] end.
    use set_allowance_frame. unfold same_core in *. rewrite Li, Lc in *. decomp.
    split; [|split; [|split]].
    + destruct (la' owner spender) as [q|] eqn:LQ; [apply HA' in LQ|]; btrue; auto; lia.
    + acct_fin.
    + congruence.
    + notif_fin.
  - (* mint *)
    use mint_spec. unfold same_core in *. rewrite Li, Lc in *. cbn [app] in *. decomp.
    split; [|split; [|split]].
    + btrue; auto; try lia; try logmem.
    + acct_fin.
    + congruence.
    + notif_fin.
  - (* burn *)
    use burn_spec. unfold same_core in *. rewrite Li, Lc in *. cbn [app] in *. decomp.
    split; [|split; [|split]].
    + btrue; lia.
    + acct_fin.
    + congruence.
    + notif_fin.
  - (* forced_transfer *)
    use forced_transfer_spec. unfold same_core in *. rewrite Li, Lc in *. cbn [app] in *. decomp.
    split; [|split; [|split]].
    + btrue; lia.
    + acct_fin.
    + congruence.
    + notif_fin.
  - (* recover_balance *)
    destruct x1 as [b s2]. cbv beta iota in H. binds H. subst.
    apply (recover_spec _ _ _ s _ _ HI) in E1.
    rewrite Li, Lc in *. cbn [app] in *.
    destruct E1 as (R1 & R2 & R3 & R4 & R5 & R6 & R7 & R8 & R9 & R10 & R11 & RA & RB).
    split; [|split; [|split]].
    + rewrite R1, R2, N.eqb_refl. cbn [andb].
      look_cases HS; btrue; try logmem; try reflexivity; auto.
    + intros a. unfold acct_of at 1.
      destruct (bal s old =? 0) eqn:Z0; cbn [negb] in R4; subst b.
      * destruct (RA (or_introl eq_refl)) as (Q1 & Q2 & Q3).
        unfold acct_of. apply eqb_acct_true; auto.
      * destruct (N.eqb old new) eqn:Eon; b2z.
        { destruct (RA (or_intror Eon)) as (Q1 & Q2 & Q3). unfold acct_of. apply eqb_acct_true; auto. }
        destruct (RB eq_refl Eon) as (Q1 & Q2 & Q3).
        destruct (N.eqb a old) eqn:Eao; b2z.
        { subst a. unfold acct_of. apply eqb_acct_true; rewrite ?Q1, ?Q2, ?Q3, ?N.eqb_refl; auto.
          destruct (N.eqb old new) eqn:E2; b2z; [contradiction|reflexivity]. }
        destruct (N.eqb a new) eqn:Ean; b2z.
        { subst a. look_cases HS; auto. unfold acct_of. apply eqb_acct_true; rewrite ?Q1, ?Q2, ?Q3, ?N.eqb_refl; auto;
            destruct (N.eqb new old) eqn:E2; b2z; try (subst; contradiction); reflexivity. }
        unfold acct_of. apply eqb_acct_true; rewrite ?Q1, ?Q2, ?Q3; eqbs; try contradiction; reflexivity.
    + assumption.
    + destruct b.
      * look_cases HS; auto. rewrite R6. cbn. rewrite !N.eqb_refl, Z.eqb_refl. reflexivity.
      * rewrite R6. reflexivity.
  - (* set_address_frozen *)
    unfold set_address_frozen in E0. binds E0. cbn [cmp_log set_aflag paused]. rewrite Lc.
    split; [|split; [|split]]; try reflexivity.
    intros z. unfold acct_of. cbn. unfold upd. apply eqb_acct_true; reflexivity.
  - (* freeze *)
    use freeze_spec. unfold same_core in *. rewrite Li, Lc in *. decomp.
    split; [|split; [|split]].
    + btrue; lia.
    + acct_fin.
    + congruence.
    + notif_fin.
  - (* unfreeze *)
    use unfreeze_spec. unfold same_core in *. rewrite Li, Lc in *. decomp.
    split; [|split; [|split]].
    + btrue; lia.
    + acct_fin.
    + congruence.
    + notif_fin.
  - (* pause *)
    unfold pause in E0. binds E0. cbn [cmp_log set_paused paused]. rewrite Lc. b2z.
    split; [|split; [|split]]; try reflexivity.
    + cbn. btrue. assumption.
    + intros z. apply eqb_acct_refl.
  - (* unpause *)
    unfold unpause in E0. binds E0. cbn [cmp_log set_paused paused]. rewrite Lc.
    split; [|split; [|split]]; try reflexivity.
    + assumption.
    + intros z. apply eqb_acct_refl.
  - cbn [cmp_log set_cmp_at paused]. rewrite Lc. split; [|split; [|split]]; try reflexivity. intros z. apply eqb_acct_refl.
  - cbn [cmp_log set_idv_at paused]. rewrite Lc. split; [|split; [|split]]; try reflexivity. intros z. apply eqb_acct_refl.
  - cbn [cmp_log set_now paused]. rewrite Lc. split; [|split; [|split]]; try reflexivity. intros z. apply eqb_acct_refl.
Qed.

(* ------------------------------------------------------------------ *)
Lemma accts_ok_model lk c r s s' :
  (forall a, match expect_acct lk c r a (acct_of s a) with
             | Some e => eqb_acct e (acct_of s' a) = true
             | None => True
             end) ->
  forall l, accts_ok lk c r (combine l (map (acct_of s) l)) (combine l (map (acct_of s') l)) = true.
Proof.
  intros H l. induction l as [|a l IH]; cbn [map combine accts_ok]; auto.
  rewrite N.eqb_refl, IH. specialize (H a). destruct (expect_acct lk c r a (acct_of s a)); [rewrite H|]; reflexivity.
Qed.

Lemma inv_ok_model univ s : Inv s -> inv_ok (observe univ s) = true.
Proof.
  intros HI. unfold inv_ok, observe. cbn [ob_accts]. apply forallb_forall. intros x Hx.
  apply in_map_iff in Hx. destruct Hx as (a & <- & _). unfold acct_of. specialize (HI a).
  apply andb_true_intro. split; apply Z.leb_le; lia.
Qed.


Lemma links_ok_model hc univ prev s c s' o :
  ob_cmp_at prev = link_cmp s -> ob_idv_at prev = link_idv s ->
  step hc s c = (s', o) ->
  links_ok prev (observe univ s') c (is_ok o) = true.
Proof.
  intros H1 H2 Hs. unfold links_ok, links_after, observe. cbn [ob_cmp_at ob_idv_at]. rewrite H1, H2.
  destruct (links_step hc s c s' o Hs) as [A B]. rewrite A, B.
  destruct (c_op c); cbn [fst snd]; rewrite !eqb_oaddr_refl; reflexivity.
Qed.

(* whoever was asked is the collaborator registered before the call *)
Lemma asked_ok_model hc univ prev s c s' o :
  Inv s -> ob_cmp_at prev = link_cmp s -> ob_idv_at prev = link_idv s ->
  step hc s c = (s', o) ->
  asked_ok prev (observe univ s') = true.
Proof.
  intros HI H1 H2 Hs. unfold asked_ok, observe. cbn [ob_cmp ob_idv ob_cmp_from ob_idv_from]. rewrite H1, H2.
  destruct (links_step hc s c s' o Hs) as [A B].
  destruct (step_logs hc s c s' o HI Hs) as [LC LI].
  apply andb_true_intro. split.
  - destruct (cmp_log s') eqn:E; [reflexivity|]. rewrite A.
    destruct (c_op c) eqn:Hop; try apply eqb_oaddr_refl.
    exfalso. unfold expected_cmp_log in LC. rewrite Hop in LC. destruct o; discriminate.
  - destruct (idv_log s') eqn:E; [reflexivity|]. rewrite B.
    destruct (c_op c) eqn:Hop; try apply eqb_oaddr_refl.
    exfalso. unfold expected_idv_log in LI. rewrite Hop in LI. destruct o; discriminate.
Qed.

Definition allow_of (s : state) (p : addr * addr) : Z := allowance s (fst p) (snd p).

Lemma allow_ok_model c ok s s' :
  (forall pr, allow_after c ok pr (allow_of s pr) (allow_of s' pr) = true) ->
  forall prs, allow_ok c ok prs (map (allow_of s) prs) (map (allow_of s') prs) = true.
Proof.
  intros H prs. induction prs as [|pr r IH]; cbn [map allow_ok]; auto. rewrite H, IH. reflexivity.
Qed.

Lemma allow_after_model hc s c s' o pr :
  step hc s c = (s', o) -> allow_after c (is_ok o) pr (allow_of s pr) (allow_of s' pr) = true.
Proof.
  intros Hs. unfold allow_after, allow_of. destruct pr as [ow sp]. cbn [fst snd]. destruct o as [r|]; cbn [is_ok].
  - pose proof (allowance_frame hc s c s' r ow sp Hs) as F.
    destruct (c_op c); try (rewrite F; apply Z.eqb_refl).
    + change (Run.C04Token.pair_eqb (ow, sp) (from, spender)) with (Proofs.Rwa.pair_eqb (ow, sp) (from, spender)).
      rewrite F. destruct (Proofs.Rwa.pair_eqb (ow, sp) (from, spender)); apply Z.eqb_refl.
    + change (Run.C04Token.pair_eqb (ow, sp) (owner, spender)) with (Proofs.Rwa.pair_eqb (ow, sp) (owner, spender)).
      rewrite F. destruct (Proofs.Rwa.pair_eqb (ow, sp) (owner, spender)); apply Z.eqb_refl.
    + destruct F as [F|F]; rewrite F, Z.eqb_refl; [reflexivity|apply orb_true_r].
  - apply step_fail in Hs. subst s'. apply Z.eqb_refl.
Qed.

Lemma supply_model hc s c s' o prev :
  ob_supply prev = supply s -> step hc s c = (s', o) ->
  (supply s' =? supply_after prev c (is_ok o)) = true.
Proof.
  intros Hp Hs. unfold supply_after. rewrite Hp. apply Z.eqb_eq. destruct o as [r|]; cbn [is_ok].
  - rewrite (supply_frame hc s c s' r Hs). destruct (c_op c); lia.
  - apply step_fail in Hs. subst s'. reflexivity.
Qed.

Lemma mon_step_model hc univ prev s c s' o :
  Inv s -> ob_paused prev = paused s -> ob_accts prev = map (acct_of s) univ ->
  ob_allow prev = map (allow_of s) (pairs univ) ->
  ob_cmp_at prev = link_cmp s -> ob_idv_at prev = link_idv s -> ob_supply prev = supply s ->
  wf_call univ c = true ->
  step hc s c = (s', o) ->
  mon_step univ prev (I c o (observe univ s')) = true.
Proof.
  intros HI Hp Ha Hal Hl1 Hl2 Hsu Hwf Hs. unfold mon_step. cbn [it_obs it_out it_call].
  rewrite Hwf.
  rewrite (links_ok_model hc univ prev s c s' o Hl1 Hl2 Hs).
  rewrite (asked_ok_model hc univ prev s c s' o HI Hl1 Hl2 Hs).
  assert (HI' : Inv s').
  { pose proof (step_preserves_Inv hc s c HI) as P. rewrite Hs in P. exact P. }
  rewrite (inv_ok_model univ s' HI').
  replace (length (ob_accts (observe univ s')) =? length univ)%nat with true
    by (symmetry; unfold observe; cbn [ob_accts]; rewrite map_length; apply Nat.eqb_refl).
  cbn [andb]. rewrite Ha, Hal.
  replace (allow_ok c (is_ok o) (pairs univ) (map (allow_of s) (pairs univ)) (ob_allow (observe univ s'))) with true
    by (symmetry; unfold observe; cbn [ob_allow];
        apply (allow_ok_model c (is_ok o) s s'); intros pr; apply (allow_after_model hc s c s' o pr Hs)).
  replace (ob_supply (observe univ s') =? supply_after prev c (is_ok o)) with true
    by (symmetry; unfold observe; cbn [ob_supply]; apply (supply_model hc s c s' o prev Hsu Hs)).
  cbn [andb].
  destruct o as [r|].
  - apply step_ok in Hs.
    assert (HS : sound_lk (clear_logs s) (fun a => look a (combine univ (map (acct_of s) univ)))).
    { intros a v L. apply look_sound in L. exact L. }
    assert (HA : sound_la (clear_logs s) (fun o sp => look2 o sp (combine (pairs univ) (map (allow_of s) (pairs univ))))).
    { intros o sp v L. apply look2_sound in L. exact L. }
    assert (HA' : sound_la s' (fun o sp => look2 o sp (combine (pairs univ) (ob_allow (observe univ s'))))).
    { intros o sp v L. unfold observe in L. cbn [ob_allow] in L. apply (look2_sound (allow_of s')) in L. exact L. }
    destruct (exec_facts hc c (clear_logs s) r s' _ _ _ prev (observe univ s') HI HS HA HA' eq_refl eq_refl Hp eq_refl eq_refl Hl1 Hl2 Hs)
      as (G & A & P & N).
    rewrite G. cbn [andb].
    unfold observe at 1. cbn [ob_accts].
    rewrite (accts_ok_model _ c r s s' A univ). cbn [andb].
    unfold observe at 1. cbn [ob_paused]. rewrite P, Bool.eqb_reflx. cbn [andb].
    unfold observe. cbn [ob_cmp].
    destruct (expected_notifs _ c r); [exact N|reflexivity].
  - apply step_fail in Hs. subst s'. unfold observe. cbn.
    rewrite (eqb_list_refl _ eqb_acct_refl), Hp, Bool.eqb_reflx. reflexivity.
Qed.

Lemma mon_model hc univ cs : forall s prev i,
  Inv s -> ob_paused prev = paused s -> ob_accts prev = map (acct_of s) univ ->
  ob_allow prev = map (allow_of s) (pairs univ) ->
  ob_cmp_at prev = link_cmp s -> ob_idv_at prev = link_idv s -> ob_supply prev = supply s ->
  forallb (wf_call univ) cs = true ->
  mon_from univ prev (model_items hc univ s cs) i = 0%N.
Proof.
  induction cs as [|c cs IH]; intros s prev i HI Hp Ha Hal Hl1 Hl2 Hsu Hwf; cbn [model_items mon_from]; auto.
  cbn [forallb] in Hwf. apply andb_prop in Hwf. destruct Hwf as [Hw1 Hw2].
  destruct (step hc s c) as [s' o] eqn:Hs. cbn [mon_from].
  rewrite (mon_step_model hc univ prev s c s' o HI Hp Ha Hal Hl1 Hl2 Hsu Hw1 Hs). cbn [it_obs].
  apply IH; try reflexivity; auto.
  pose proof (step_preserves_Inv hc s c HI) as P. rewrite Hs in P. exact P.
Qed.

(* C04_monitor_accepts_model *)
Theorem check_accepts_model : forall (hc : hostcfg) (univ : list addr) (cs : list call),
  forallb (wf_call univ) cs = true ->
  check (observe_model hc univ cs) = (0%N, 0%N, 0%N).
Proof.
  intros hc univ cs Hwf. unfold check, observe_model, mkTrace, check_token. cbn [t_hc t_univ t_items].
  rewrite diff_model, mon_model; auto.
  exact Inv_init.
Qed.
