(* The flavour-independent part of the simulation between the model and the reference
   bookkeeping: clock and id counter, balances, approvals, operators. *)
From SC Require Import Lib.Prelude Lib.Int Lib.Host Model.Nft Run.NftCommon Proofs.NftMaps Proofs.NftFrame.
Local Open Scope N_scope.

Definition ClockInv (s : state) (g : ghost) : Prop := now s = g_now g /\ next_id s = g_next g.
Definition BalInv (s : state) (g : ghost) : Prop := forall a, balance s a = cnt (g_cnt g) a.
(* the stored entry carries exactly what the reference holds and the host keeps it alive
   at least as long as its own live_until says *)
Definition ApprInv (s : state) (g : ghost) : Prop :=
  forall id, match aget N.eqb id (appr s) with
             | Some en => aget N.eqb id (g_appr g) = Some (tval en) /\ (snd (tval en) <= tlive en)%Z
             | None => aget N.eqb id (g_appr g) = None
             end.
Definition OperInv (s : state) (g : ghost) : Prop :=
  forall k, match aget peqb k (oper s) with
            | Some en => aget peqb k (g_oper g) = Some (tval en) /\ (tval en <= tlive en)%Z
            | None => aget peqb k (g_oper g) = None
            end.
Definition CoreInv (s : state) (g : ghost) : Prop :=
  ClockInv s g /\ BalInv s g /\ ApprInv s g /\ OperInv s g.

Lemma core_init now0 : CoreInv (init now0) (ghost0 now0).
Proof. repeat split; intros; reflexivity. Qed.

(* the getters agree with the reference *)
Lemma get_approved_live s g : ClockInv s g -> ApprInv s g -> forall id, get_approved s id = live_appr g id.
Proof.
  intros [Hn _] Ha id. unfold get_approved, live_appr. specialize (Ha id).
  destruct (aget N.eqb id (appr s)) as [en|].
  - destruct Ha as [-> Hl]. unfold tget, tlive_at. rewrite <- Hn.
    destruct (tval en) as [x lu] eqn:Ev. cbn [snd] in Hl.
    destruct (tlive en <? now s)%Z eqn:E1.
    + apply Z.ltb_lt in E1. destruct (now s <=? lu)%Z eqn:E2; [apply Z.leb_le in E2; lia | reflexivity].
    + rewrite Ev. destruct (lu <? now s)%Z eqn:E2.
      * apply Z.ltb_lt in E2. destruct (now s <=? lu)%Z eqn:E3; [apply Z.leb_le in E3; lia | reflexivity].
      * apply Z.ltb_ge in E2. destruct (now s <=? lu)%Z eqn:E3; [reflexivity | apply Z.leb_gt in E3; lia].
  - rewrite Ha. reflexivity.
Qed.
Lemma is_approved_for_all_live s g : ClockInv s g -> OperInv s g ->
  forall o op, is_approved_for_all s o op = live_oper g o op.
Proof.
  intros [Hn _] Ha o op. unfold is_approved_for_all, live_oper. specialize (Ha (o, op)).
  destruct (aget peqb (o, op) (oper s)) as [en|].
  - destruct Ha as [-> Hl]. unfold tget, tlive_at. rewrite <- Hn.
    destruct (tlive en <? now s)%Z eqn:E1; [|reflexivity].
    apply Z.ltb_lt in E1. destruct (now s <=? tval en)%Z eqn:E2; [apply Z.leb_le in E2; lia | reflexivity].
  - rewrite Ha. reflexivity.
Qed.

Lemma appr_inv_rem s g id (A' : list (N * tentry (addr * Z))) G' :
  ApprInv s g -> A' = arem N.eqb id (appr s) -> G' = arem N.eqb id (g_appr g) ->
  forall i, match aget N.eqb i A' with
            | Some en => aget N.eqb i G' = Some (tval en) /\ (snd (tval en) <= tlive en)%Z
            | None => aget N.eqb i G' = None
            end.
Proof.
  intros Ha -> -> i. rewrite !(aget_arem N.eqb Neqb_spec). destruct (i =? id); [reflexivity | apply Ha].
Qed.

Lemma core_step fl c s g cl s' r :
  CoreInv s g -> exec_spec fl c s cl s' r -> CoreInv s' (ghost_step g cl (Ok r)).
Proof.
  intros (Hc&Hb&Ha&Ho) Hs. destruct Hc as [Hn Hx].
  destruct cl; cbn [exec_spec] in Hs; cbn [ghost_step]; unfold CoreInv, ClockInv, BalInv, ApprInv, OperInv.
  - (* Advance *) destruct Hs as [-> ->]. cbn [g_now g_next g_cnt g_appr g_oper now next_id set_now]; (split; [split|split;[|split]]); try assumption. rewrite Hn. reflexivity.
  - (* MintSeq *) destruct Hs as (_&->&_&(A&B&C&D&E)). cbn [g_now g_next g_cnt g_appr g_oper]; (split; [split|split;[|split]]).
    + congruence.
    + congruence.
    + intros a. rewrite E, cnt_add_get, Hb. cbn [oaddr_eqb b2n]. rewrite (N.eqb_sym to a).
      destruct (a =? to) eqn:Ea; cbn [b2n]; [apply N.eqb_eq in Ea; subst|]; lia.
    + rewrite D. exact Ha.
    + rewrite C. exact Ho.
  - (* MintId *) destruct Hs as (_&->&(A&B&C&D&E)). cbn [g_now g_next g_cnt g_appr g_oper]; (split; [split|split;[|split]]).
    + congruence.
    + congruence.
    + intros a. rewrite E, cnt_add_get, Hb. cbn [oaddr_eqb b2n]. rewrite (N.eqb_sym to a).
      destruct (a =? to) eqn:Ea; cbn [b2n]; [apply N.eqb_eq in Ea; subst|]; lia.
    + rewrite D. exact Ha.
    + rewrite C. exact Ho.
  - (* BatchMint *) destruct Hs as (_&Hz&_&_&->&A&B&C&D&E). cbn [g_now g_next g_cnt g_appr g_oper]; (split; [split|split;[|split]]).
    + congruence.
    + rewrite B. lia.
    + intros a. rewrite E, cnt_add_get, Hb. destruct (a =? to) eqn:Ea; [apply N.eqb_eq in Ea; subst|]; lia.
    + rewrite D. exact Ha.
    + rewrite C. exact Ho.
  - (* Transfer *) destruct Hs as (_&_&->&(A&B&C&D&E)). cbn [g_now g_next g_cnt g_appr g_oper]; (split; [split|split;[|split]]).
    + congruence.
    + congruence.
    + intros a. rewrite E, cnt_add_get, !cnt_sub_get, !Hb. rewrite !oaddr_eqb_some, (N.eqb_sym to a), (N.eqb_sym from a).
      repeat match goal with |- context [?x =? ?y] => destruct (N.eqb_spec x y); subst end; cbn [b2n]; try lia; try congruence.
    + eapply appr_inv_rem; [exact Ha | exact D | reflexivity].
    + rewrite C. exact Ho.
  - (* TransferFrom *) destruct Hs as (_&_&_&->&(A&B&C&D&E)). cbn [g_now g_next g_cnt g_appr g_oper]; (split; [split|split;[|split]]).
    + congruence.
    + congruence.
    + intros a. rewrite E, cnt_add_get, !cnt_sub_get, !Hb. rewrite !oaddr_eqb_some, (N.eqb_sym to a), (N.eqb_sym from a).
      repeat match goal with |- context [?x =? ?y] => destruct (N.eqb_spec x y); subst end; cbn [b2n]; try lia; try congruence.
    + eapply appr_inv_rem; [exact Ha | exact D | reflexivity].
    + rewrite C. exact Ho.
  - (* Burn *) destruct Hs as (_&_&->&(A&B&C&D&E)). cbn [g_now g_next g_cnt g_appr g_oper]; (split; [split|split;[|split]]).
    + congruence.
    + congruence.
    + intros a. rewrite E, cnt_sub_get, !Hb. rewrite !oaddr_eqb_some, (N.eqb_sym from a). cbn [oaddr_eqb b2n].
      destruct (a =? from) eqn:E1; [apply N.eqb_eq in E1; subst a|]; cbn [b2n]; lia.
    + eapply appr_inv_rem; [exact Ha | exact D | reflexivity].
    + rewrite C. exact Ho.
  - (* BurnFrom *) destruct Hs as (_&_&_&->&(A&B&C&D&E)). cbn [g_now g_next g_cnt g_appr g_oper]; (split; [split|split;[|split]]).
    + congruence.
    + congruence.
    + intros a. rewrite E, cnt_sub_get, !Hb. rewrite !oaddr_eqb_some, (N.eqb_sym from a). cbn [oaddr_eqb b2n].
      destruct (a =? from) eqn:E1; [apply N.eqb_eq in E1; subst a|]; cbn [b2n]; lia.
    + eapply appr_inv_rem; [exact Ha | exact D | reflexivity].
    + rewrite C. exact Ho.
  - (* Approve *)
    destruct Hs as (_&->&o&_&_&[[-> ->]|(Hl&_&en&Hv&Hlv&->)]).
    + cbn [g_now g_next g_cnt g_appr g_oper now next_id set_appr]; (split; [split|split;[|split]]); try assumption.
      rewrite Z.eqb_refl. eapply appr_inv_rem; [exact Ha | reflexivity | reflexivity].
    + cbn [g_now g_next g_cnt g_appr g_oper now next_id set_appr]; (split; [split|split;[|split]]); try assumption.
      apply Z.eqb_neq in Hl. rewrite Hl. intros i. cbn [appr set_appr].
      rewrite !(aget_aset N.eqb Neqb_spec). destruct (i =? id); [|apply Ha].
      rewrite Hv. cbn [snd]. split; [reflexivity | exact Hlv].
  - (* ApproveForAll *)
    destruct Hs as (_&->&[[-> ->]|(Hl&_&en&Hv&Hlv&->)]).
    + cbn [g_now g_next g_cnt g_appr g_oper now next_id set_oper]; (split; [split|split;[|split]]); try assumption.
      rewrite Z.eqb_refl. intros k. cbn [oper set_oper]. rewrite !(aget_arem peqb peqb_spec).
      destruct (peqb k (owner_, operator)); [reflexivity | apply Ho].
    + cbn [g_now g_next g_cnt g_appr g_oper now next_id set_oper]; (split; [split|split;[|split]]); try assumption.
      apply Z.eqb_neq in Hl. rewrite Hl. intros k. cbn [oper set_oper].
      rewrite !(aget_aset peqb peqb_spec). destruct (peqb k (owner_, operator)); [|apply Ho].
      rewrite Hv. split; [reflexivity | exact Hlv].
Qed.
