(* The bit-level run of the consecutive flavour (Model/NftBitsRun.v) refines the set-level run of
   Model/Nft.v, call by call and over whole call sequences. *)
From SC Require Import Lib.Prelude Lib.Int Lib.Host Model.Nft Model.NftBits Model.NftBitsRun Run.NftCommon
  Proofs.NftMaps Proofs.NftFrame Proofs.NftBits.
Local Open Scope N_scope.

Definition bcfg_ok (b : bcfg) (c : cfg) : Prop := 0 < W b /\ 0 < I b /\ ids_in_bucket c = I b * W b.
(* the stored buckets are well formed and their set bits are exactly the set-level marks *)
Definition Good (b : bcfg) (sb : bstate) : Prop := wfb b (snd sb) /\ Rep b (snd sb) (marks (fst sb)).

Lemma good_same b s s' bs : marks s' = marks s -> Good b (s, bs) -> Good b (s', bs).
Proof. unfold Good. cbn [fst snd]. intros ->. auto. Qed.

Lemma good_init b now0 : Good b (init_b now0).
Proof.
  split; cbn.
  - intros k bk H. discriminate.
  - intros m. unfold bit_at. cbn. split; [discriminate | intros []].
Qed.

Lemma owner_of_b_eq b c s bs id : bcfg_ok b c -> Good b (s, bs) ->
  cons_owner_of_b b (s, bs) id = cons_owner_of c s id.
Proof.
  intros (HW&HI&Hc) [Hwf Hrep]. cbn [fst snd] in *. unfold cons_owner_of_b, cons_owner_of.
  destruct (next_id s =? 0); [reflexivity|]. cbv zeta.
  destruct (memN id (burned s) || (next_id s - 1 <? id)); [reflexivity|].
  rewrite (scan_bits_refines b bs (marks s) id (next_id s - 1) HW HI Hwf Hrep).
  unfold scan, ids_per_bucket. rewrite Hc. reflexivity.
Qed.

(* a set-level result and the bit-level result that goes with it *)
Definition sim1 (b : bcfg) (r : res state) (rb : res bstate) : Prop :=
  match r with
  | Ok s' => exists bs', rb = Ok (s', bs') /\ Good b (s', bs')
  | Fail => rb = Fail
  end.

Lemma gmark_marks s id x : In x (marks (gmark s id)) <-> x = id \/ In x (marks s).
Proof.
  unfold gmark. destruct (memN id (marks s)) eqn:E.
  - apply memN_In in E. split; [intros H; right; exact H | intros [->|H]; assumption].
  - cbn [marks set_marks]. split; (intros [H|H]; [left; congruence | right; exact H]).
Qed.

Lemma set_ownership_sim b c s bs id : bcfg_ok b c -> Good b (s, bs) ->
  sim1 b (set_ownership_in_bucket s id) (set_ownership_in_bucket_b b (s, bs) id).
Proof.
  intros (HW&HI&_) [Hwf Hrep]. cbn [fst snd] in *.
  unfold set_ownership_in_bucket, set_ownership_in_bucket_b.
  destruct (id <? next_id s); cbn [guard bind]; [|reflexivity].
  destruct (set_bits_spec b bs id HW HI Hwf) as (bs'&E&Hwf'&Hb). rewrite E. cbn [bind].
  assert (Eg : (if memN id (marks s) then Ok s else Ok (set_marks s (id :: marks s))) = Ok (gmark s id))
    by (unfold gmark; destruct (memN id (marks s)); reflexivity).
  rewrite Eg. cbn [sim1]. exists bs'. split; [reflexivity|]. split; [exact Hwf'|].
  intros m. cbn [fst snd]. rewrite Hb, gmark_marks, orb_true_iff, N.eqb_eq, (Hrep m). reflexivity.
Qed.

Lemma prev_sim b c s bs f id : bcfg_ok b c -> Good b (s, bs) ->
  sim1 b (set_owner_for_previous_token s f id) (set_owner_for_previous_token_b b (s, bs) f id).
Proof.
  intros Hok Hg. unfold set_owner_for_previous_token, set_owner_for_previous_token_b.
  destruct ((id =? 0) || (next_id s <=? id)); [exists bs; auto|].
  cbv zeta. destruct (aget N.eqb (id - 1) (owner s)); [exists bs; auto|].
  destruct (memN (id - 1) (burned s)); [exists bs; auto|].
  apply (set_ownership_sim b c); [exact Hok|]. eapply good_same; [|exact Hg]. reflexivity.
Qed.

Lemma sim1_ok b r rb s' : sim1 b r rb -> r = Ok s' -> exists bs', rb = Ok (s', bs') /\ Good b (s', bs').
Proof. intros H ->. exact H. Qed.
Lemma sim1_fail b r rb : sim1 b r rb -> r = Fail -> rb = Fail.
Proof. intros H ->. exact H. Qed.

Definition to_half (s1 : state) (to : option addr) (id : N) : res state :=
  match to with
  | Some t => do s2 <- increase_balance s1 t 1; set_ownership_in_bucket (set_owner s2 (aset N.eqb id t (owner s2))) id
  | None => Ok (set_burned (set_owner s1 (arem N.eqb id (owner s1))) (id :: burned (set_owner s1 (arem N.eqb id (owner s1)))))
  end.
Definition to_half_b (b : bcfg) (sb1 : bstate) (to : option addr) (id : N) : res bstate :=
  let '(s1, bs1) := sb1 in
  match to with
  | Some t => do s2 <- increase_balance s1 t 1; set_ownership_in_bucket_b b (set_owner s2 (aset N.eqb id t (owner s2)), bs1) id
  | None => Ok (set_burned (set_owner s1 (arem N.eqb id (owner s1))) (id :: burned (set_owner s1 (arem N.eqb id (owner s1)))), bs1)
  end.
Lemma to_half_sim b c s1 bs1 to id : bcfg_ok b c -> Good b (s1, bs1) ->
  sim1 b (to_half s1 to id) (to_half_b b (s1, bs1) to id).
Proof.
  intros Hok Hg1. unfold to_half, to_half_b. destruct to as [t|].
  - destruct (increase_balance s1 t 1) as [s2|] eqn:Ei; cbn [bind]; [|reflexivity].
    apply (set_ownership_sim b c); [exact Hok|]. eapply good_same; [|exact Hg1].
    unfold increase_balance in Ei. destruct (balance s1 t + 1 <=? MAXU32N); cbn in Ei; inversion Ei; reflexivity.
  - exists bs1. split; [reflexivity|]. eapply good_same; [|exact Hg1]. reflexivity.
Qed.

Lemma update_unfold c s from to id :
  update FCons c s from to id =
  do s1 <- match from with
           | Some f => do o <- of_option (cons_owner_of c s id); do _ <- guard (o =? f); do s' <- decrease_balance s f 1;
                       set_owner_for_previous_token (set_appr s' (arem N.eqb id (appr s'))) f id
           | None => Ok s end;
  to_half s1 to id.
Proof. reflexivity. Qed.
Lemma update_b_unfold b s bs from to id :
  update_b b (s, bs) from to id =
  do sb1 <- match from with
            | Some f => do o <- of_option (cons_owner_of_b b (s, bs) id); do _ <- guard (o =? f); do s' <- decrease_balance s f 1;
                        set_owner_for_previous_token_b b (set_appr s' (arem N.eqb id (appr s')), bs) f id
            | None => Ok (s, bs) end;
  to_half_b b sb1 to id.
Proof. unfold update_b, to_half_b. cbn [fst snd]. destruct from; reflexivity. Qed.

Lemma update_sim b c s bs from to id : bcfg_ok b c -> Good b (s, bs) ->
  sim1 b (update FCons c s from to id) (update_b b (s, bs) from to id).
Proof.
  intros Hok Hg. rewrite update_unfold, update_b_unfold.
  destruct from as [f|].
  - rewrite (owner_of_b_eq b c s bs id Hok Hg).
    destruct (cons_owner_of c s id) as [o|]; cbn [of_option bind]; [|reflexivity].
    destruct (o =? f); cbn [guard bind]; [|reflexivity].
    destruct (decrease_balance s f 1) as [s'|] eqn:Ed; cbn [bind]; [|reflexivity].
    assert (Hg' : Good b (set_appr s' (arem N.eqb id (appr s')), bs)).
    { eapply good_same; [|exact Hg]. unfold decrease_balance in Ed. destruct (1 <=? balance s f); cbn in Ed; inversion Ed; reflexivity. }
    pose proof (prev_sim b c _ bs f id Hok Hg') as H.
    destruct (set_owner_for_previous_token (set_appr s' (arem N.eqb id (appr s'))) f id) as [s1|]; cbn [sim1] in H.
    + destruct H as (bs1&->&Hg1). cbn [bind]. apply (to_half_sim b c); assumption.
    + rewrite H. reflexivity.
  - cbn [bind]. apply (to_half_sim b c); assumption.
Qed.

(* one call *)
Definition sim_exec (b : bcfg) (r : res (state * option N)) (rb : res (bstate * option N)) : Prop :=
  match r with
  | Ok (s', x) => exists bs', rb = Ok ((s', bs'), x) /\ Good b (s', bs')
  | Fail => rb = Fail
  end.

Lemma exec_sim b c s bs cl : bcfg_ok b c -> Good b (s, bs) ->
  sim_exec b (exec FCons c s cl) (exec_b b c (s, bs) cl).
Proof.
  intros Hok Hg.
  assert (Hmove : forall from to id,
            sim_exec b (do s1 <- update FCons c s (Some from) to id; do s2 <- Ok s1; Ok (s2, @None N))
                       (do sb1 <- update_b b (s, bs) (Some from) to id; Ok (sb1, @None N))).
  { intros from to id. pose proof (update_sim b c s bs (Some from) to id Hok Hg) as H.
    destruct (update FCons c s (Some from) to id) as [s1|]; cbn [sim1] in H.
    - destruct H as (bs1&->&Hg1). cbn. exists bs1. auto.
    - rewrite H. reflexivity. }
  destruct cl; cbn [exec exec_b enum_after_transfer enum_after_burn].
  - exists bs. split; [reflexivity|]. eapply good_same; [|exact Hg]. reflexivity.
  - reflexivity.
  - reflexivity.
  - destruct (negb (amount =? 0) && (amount <=? max_batch c)); cbn [guard bind]; [|reflexivity].
    unfold increment_token_id. destruct (next_id s + amount <=? MAXU32N); cbn [guard bind]; [|reflexivity].
    destruct (increase_balance (set_next_id s (next_id s + amount)) to amount) as [s2|] eqn:Ei; cbn [bind]; [|reflexivity].
    assert (Hg2 : Good b (s2, bs)).
    { eapply good_same; [|exact Hg]. unfold increase_balance in Ei.
      destruct (_ <=? MAXU32N); cbn in Ei; inversion Ei; reflexivity. }
    pose proof (set_ownership_sim b c s2 bs (next_id s + amount - 1) Hok Hg2) as H.
    destruct (set_ownership_in_bucket s2 (next_id s + amount - 1)) as [s3|]; cbn [sim1] in H.
    + destruct H as (bs3&->&Hg3). cbn. exists bs3. split; [reflexivity|]. eapply good_same; [|exact Hg3]. reflexivity.
    + rewrite H. reflexivity.
  - destruct (has_auth auths from); cbn [guard bind]; [|reflexivity]. apply Hmove.
  - destruct (has_auth auths spender); cbn [guard bind]; [|reflexivity].
    destruct (check_spender_approval s spender from id); cbn [bind]; [|reflexivity]. apply Hmove.
  - destruct (has_auth auths from); cbn [guard bind]; [|reflexivity]. apply Hmove.
  - destruct (has_auth auths spender); cbn [guard bind]; [|reflexivity].
    destruct (check_spender_approval s spender from id); cbn [bind]; [|reflexivity]. apply Hmove.
  - destruct (has_auth auths approver); cbn [guard bind]; [|reflexivity].
    cbn [owner_of]. rewrite (owner_of_b_eq b c s bs id Hok Hg).
    destruct (cons_owner_of c s id) as [o|]; cbn [of_option bind]; [|reflexivity].
    destruct (approve_for_owner c s o approver approved id live_until) as [s1|] eqn:Ea; cbn [bind]; [|reflexivity].
    exists bs. split; [reflexivity|]. eapply good_same; [|exact Hg].
    apply approve_for_owner_ok in Ea. destruct Ea as [_ [[_ ->]|(_&_&en&_&_&->)]]; reflexivity.
  - destruct (approve_for_all c s auths owner_ operator live_until) as [s1|] eqn:Ea; cbn [bind]; [|reflexivity].
    exists bs. split; [reflexivity|]. eapply good_same; [|exact Hg].
    apply approve_for_all_ok in Ea. destruct Ea as [_ [[_ ->]|(_&_&en&_&_&->)]]; reflexivity.
Qed.

Lemma step_sim b c s bs cl : bcfg_ok b c -> Good b (s, bs) ->
  fst (fst (step_b b c (s, bs) cl)) = fst (step FCons c s cl) /\
  snd (step_b b c (s, bs) cl) = snd (step FCons c s cl) /\
  Good b (fst (step_b b c (s, bs) cl)).
Proof.
  intros Hok Hg. pose proof (exec_sim b c s bs cl Hok Hg) as H. unfold step, step_b.
  destruct (exec FCons c s cl) as [[s' x]|]; cbn [sim_exec] in H.
  - destruct H as (bs'&->&Hg'). cbn. auto.
  - rewrite H. cbn. auto.
Qed.

Lemma step_sim' b c s bs cl : bcfg_ok b c -> Good b (s, bs) ->
  exists bs', step_b b c (s, bs) cl = ((fst (step FCons c s cl), bs'), snd (step FCons c s cl)) /\
              Good b (fst (step FCons c s cl), bs').
Proof.
  intros Hok Hg. pose proof (exec_sim b c s bs cl Hok Hg) as H. unfold step, step_b.
  destruct (exec FCons c s cl) as [[s' x]|]; cbn [sim_exec] in H.
  - destruct H as (bs'&->&Hg'). exists bs'. cbn. auto.
  - rewrite H. exists bs. cbn. auto.
Qed.

(* whole call sequences: same states (set-level part), same outcomes, same owner_of answers *)
Theorem run_sim b c cs : bcfg_ok b c -> forall s bs, Good b (s, bs) ->
  fst (run_b b c (s, bs) cs) = run FCons c s cs /\ Good b (run_b b c (s, bs) cs).
Proof.
  intros Hok. induction cs as [|cl r IH]; intros s bs Hg; [split; [reflexivity | exact Hg]|].
  change (run_b b c (s, bs) (cl :: r)) with (run_b b c (fst (step_b b c (s, bs) cl)) r).
  change (run FCons c s (cl :: r)) with (run FCons c (fst (step FCons c s cl)) r).
  destruct (step_sim' b c s bs cl Hok Hg) as (bs'&E&Hg'). rewrite E. cbn [fst]. apply IH. exact Hg'.
Qed.

Fixpoint outcomes_b (b : bcfg) (c : cfg) (sb : bstate) (cs : list call) : list outcome :=
  match cs with
  | [] => []
  | cl :: r => snd (step_b b c sb cl) :: outcomes_b b c (fst (step_b b c sb cl)) r
  end.
Fixpoint outcomes_s (c : cfg) (s : state) (cs : list call) : list outcome :=
  match cs with
  | [] => []
  | cl :: r => snd (step FCons c s cl) :: outcomes_s c (fst (step FCons c s cl)) r
  end.

Lemma outcomes_sim b c cs : bcfg_ok b c -> forall (s : state) (bs : buckets), Good b (s, bs) ->
  outcomes_b b c (s, bs) cs = outcomes_s c s cs.
Proof.
  intros Hok. induction cs as [|cl r IH]; intros s bs Hg0; [reflexivity|]. cbn [outcomes_b outcomes_s].
  destruct (step_sim' b c s bs cl Hok Hg0) as (bs'&E&Hg'). rewrite E. cbn [fst snd]. f_equal. apply IH. exact Hg'.
Qed.

Theorem bits_run_refines_set_run b c now0 cs : bcfg_ok b c ->
  let sb := run_b b c (init_b now0) cs in
  let s := run FCons c (init now0) cs in
  fst sb = s /\
  outcomes_b b c (init_b now0) cs = outcomes_s c (init now0) cs /\
  (forall id, cons_owner_of_b b sb id = owner_of FCons c s id) /\
  (forall m, bit_at b (snd sb) m = true <-> In m (marks s)).
Proof.
  intros Hok. cbv zeta.
  destruct (run_sim b c cs Hok (init now0) [] (good_init b now0)) as [E Hg].
  split; [exact E|]. split; [apply (outcomes_sim b c cs Hok (init now0) [] (good_init b now0))|].
  split.
  - intros id. change (init now0, @nil (N * bucket)) with (init_b now0) in *.
    remember (run_b b c (init_b now0) cs) as sb eqn:Er. destruct sb as [s bs]. cbn [fst] in E. rewrite <- E.
    cbn [owner_of]. apply owner_of_b_eq; assumption.
  - intros m. change (init now0, @nil (N * bucket)) with (init_b now0) in *. rewrite <- E. apply Hg.
Qed.
