(* C13: the past.  A query for ledger q < now returns the value that held at the end of
   ledger q, and no later call changes that answer. *)
From SC Require Import Lib.Prelude Lib.Int Lib.Host Model.Votes
  Proofs.VotesTimeline Proofs.VotesState Proofs.VotesRun.
Open Scope Z_scope.

(* the state at the end of ledger q: the last state of the run whose ledger is still <= q *)
Fixpoint state_at_end_of (h : header) (q : Z) (s : state) (cs : list (list addr * call)) : state :=
  match cs with
  | [] => s
  | ac :: r =>
      let s' := fst (step h s (fst ac) (snd ac)) in
      if s_now s' <=? q then state_at_end_of h q s' r else s
  end.

(* the part of the invariant that needs no universe of accounts *)
Definition winv (s : state) : Prop :=
  0 <= s_now s /\ forall ct, tl_wf (s_now s) (get_tl (s_v s) ct).

Lemma vext_get_tl now s s' : vext now s s' -> forall ct, tl_ext now (get_tl s ct) (get_tl s' ct).
Proof. intros [A B] [|a]; cbn [get_tl]; auto. Qed.

Lemma shape_rel c s s' : 0 <= s_now s -> shape c s s' ->
  s_now s <= s_now s' /\ vext (s_now s) (s_v s) (s_v s') /\ (s_now s <> s_now s' -> s_v s' = s_v s).
Proof.
  intros H0 [Hn Hv Hb|from to amt Hamt Hn Ht Hb Hft|auths acc d Hn Hd Hb Hacc].
  - split; [exact Hn|]. split; [rewrite Hv; apply vext_refl|intros; exact Hv].
  - assert (Hne : amt <> 0) by lia.
    destruct (tvu_spec _ _ _ _ _ _ H0 Hne Ht) as [_ [_ [_ [_ [_ [_ [T7 _]]]]]]].
    split; [lia|]. split; [exact T7|intros; congruence].
  - destruct (delegate_spec _ _ _ _ _ _ H0 Hd) as [_ [_ [_ [_ [_ [_ D7]]]]]].
    split; [lia|]. split; [exact D7|intros; congruence].
Qed.

Lemma winv_init h : 0 <= h_start h -> winv (init h).
Proof.
  intros H. split; [exact H|]. intros ct.
  assert (E : get_tl (s_v (init h)) ct = []) by (destruct ct; reflexivity). rewrite E.
  split; [exact I|split; [cbn [head_ledger init s_now]; lia|cbn; unfold MAXU32; lia]].
Qed.

Lemma winv_step h s auths c : winv s -> winv (fst (step h s auths c)).
Proof.
  intros [H0 W]. destruct (shape_rel c s _ H0 (step_shape h s auths c)) as [Hn [Hx _]].
  split; [lia|]. intros ct. eapply tl_wf_mono; [exact Hn|].
  eapply tl_wf_ext; [apply vext_get_tl; exact Hx|apply W].
Qed.

Lemma winv_run h cs : forall s, winv s -> winv (run h s cs).
Proof. induction cs as [|ac cs IH]; intros s W; [exact W|]. cbn [run fold_left]. apply IH. apply winv_step. exact W. Qed.

(* later calls never change the answer for a ledger that is already past *)
Lemma run_past h cs : forall s, winv s ->
  s_now s <= s_now (run h s cs) /\
  forall q ct, q < s_now s ->
    lookup_spec q (get_tl (s_v (run h s cs)) ct) = lookup_spec q (get_tl (s_v s) ct).
Proof.
  induction cs as [|ac cs IH]; intros s W; [split; [cbn; lia|reflexivity]|].
  cbn [run fold_left]. set (s1 := fst (step h s (fst ac) (snd ac))).
  destruct W as [H0 W]. destruct (shape_rel (snd ac) s s1 H0 (step_shape h s (fst ac) (snd ac))) as [Hn [Hx _]].
  destruct (IH s1 (winv_step h s (fst ac) (snd ac) (conj H0 W))) as [Hn' Hp].
  fold (run h s1 cs). split; [lia|].
  intros q ct Hq. rewrite Hp by lia. apply (vext_get_tl _ _ _ Hx ct). exact Hq.
Qed.

(* the value looked up for q is the current value of the state at the end of ledger q *)
Theorem lookup_is_end_of_ledger h cs : forall s q ct, winv s -> s_now s <= q -> q < s_now (run h s cs) ->
  lookup_spec q (get_tl (s_v (run h s cs)) ct) = latest (get_tl (s_v (state_at_end_of h q s cs)) ct).
Proof.
  induction cs as [|ac cs IH]; intros s q ct W Hle Hlt; [cbn in Hlt; lia|].
  cbn [run fold_left state_at_end_of]. set (s1 := fst (step h s (fst ac) (snd ac))) in *.
  fold (run h s1 cs). assert (W1 : winv s1) by (apply winv_step; exact W).
  destruct (s_now s1 <=? q) eqn:E.
  - apply Z.leb_le in E. apply IH; auto.
  - apply Z.leb_gt in E. destruct (run_past h cs s1 W1) as [_ Hp]. rewrite Hp by exact E.
    destruct W as [H0 W]. destruct (shape_rel (snd ac) s s1 H0 (step_shape h s (fst ac) (snd ac))) as [_ [_ Hv]].
    rewrite Hv by lia. apply lookup_spec_head. destruct (W ct) as [_ [Hh _]]. lia.
Qed.

Lemma lookup_past_ok now t q : tl_wf now t -> q < now -> lookup_past now t q = Ok (lookup_spec q t).
Proof.
  intros [Hs [_ Hn]] Hq. unfold lookup_past. replace (now <=? q) with false by (symmetry; apply Z.leb_gt; lia).
  apply lookup_checkpoint_at_ok; [exact Hs|]. unfold MAXU32 in Hn. lia.
Qed.

Definition query_at (now : Z) (v : vstate) (ct : cptype) (q : Z) : res Z := lookup_past now (get_tl v ct) q.
Definition current_of (v : vstate) (ct : cptype) : res Z := tl_latest (get_tl v ct).

Theorem past_exact h cs q ct : 0 <= h_start h ->
  let s := run h (init h) cs in
  q < s_now s ->
  query_at (s_now s) (s_v s) ct q =
    if q <? h_start h then Ok 0 else current_of (s_v (state_at_end_of h q (init h) cs)) ct.
Proof.
  intros H0 s Hq. assert (W : winv s) by (apply winv_run, winv_init; exact H0).
  unfold query_at. rewrite lookup_past_ok by (try apply W; exact Hq). unfold current_of. rewrite tl_latest_ok.
  destruct (q <? h_start h) eqn:E; f_equal.
  - apply Z.ltb_lt in E. destruct (run_past h cs (init h) (winv_init h H0)) as [_ Hp].
    unfold s. rewrite Hp by exact E. destruct ct; reflexivity.
  - apply Z.ltb_ge in E. apply lookup_is_end_of_ledger; auto. apply winv_init; exact H0.
Qed.

Lemma run_app h s cs more : run h s (cs ++ more) = run h (run h s cs) more.
Proof. unfold run. apply fold_left_app. Qed.

Theorem past_immutable h cs more q ct : 0 <= h_start h ->
  let s1 := run h (init h) cs in
  let s2 := run h (init h) (cs ++ more) in
  q < s_now s1 ->
  query_at (s_now s2) (s_v s2) ct q = query_at (s_now s1) (s_v s1) ct q.
Proof.
  intros H0 s1 s2 Hq. assert (W1 : winv s1) by (apply winv_run, winv_init; exact H0).
  assert (E : s2 = run h s1 more) by (unfold s2, s1; apply run_app).
  assert (W2 : winv s2) by (rewrite E; apply winv_run; exact W1).
  destruct (run_past h more s1 W1) as [Hn Hp]. rewrite <- E in Hn, Hp.
  unfold query_at. rewrite !lookup_past_ok by (try apply W1; try apply W2; lia).
  f_equal. apply Hp. exact Hq.
Qed.
