(* C20 / document manager: the bucketed swap-and-pop model with its name -> position index
   refines a plain map name -> document. *)
From SC Require Import Lib.Prelude Model.SwapPop Model.RegCommon Model.RegDocs Run.C20 Proofs.C20Common.
From Coq Require Import Permutation PeanoNat ZifyNat.
Local Open Scope nat_scope.
Set Implicit Arguments.

Notation names := (map (@fst dname doc)).

(* ---- lookups in association lists under positional updates ---- *)
Lemma aget_upd_key (l : list dentry) : forall i nm d n,
  NoDup (names l) -> nth_error (names l) i = Some nm ->
  aget N.eqb n (upd i (nm, d) l) = if N.eqb n nm then Some d else aget N.eqb n l.
Proof.
  induction l as [|[k v] r IH]; intros i nm d n Hn Hi; [destruct i; discriminate|].
  cbn [map fst] in Hn. inversion Hn; subst. destruct i as [|i]; cbn [upd aget].
  - cbn in Hi. inversion Hi. subst. destruct (N.eqb n nm); reflexivity.
  - cbn in Hi. rewrite (IH i nm d n H2 Hi).
    assert (k <> nm) by (intros ->; apply H1; eapply nth_error_In; eauto).
    destruct (N.eqb n k) eqn:E1; auto. apply N.eqb_eq in E1. subst.
    replace (N.eqb k nm) with false; auto. symmetry. apply N.eqb_neq. auto.
Qed.
Lemma names_upd_same (l : list dentry) : forall i nm d,
  nth_error (names l) i = Some nm -> names (upd i (nm, d) l) = names l.
Proof.
  induction l as [|[k v] r IH]; intros [|i] nm d Hi; cbn in *; try discriminate; auto.
  - inversion Hi. reflexivity.
  - f_equal. apply IH. auto.
Qed.
Lemma aget_app_alist (l m : list dentry) n :
  aget N.eqb n (l ++ m) = match aget N.eqb n l with Some v => Some v | None => aget N.eqb n m end.
Proof. induction l as [|[k v] r IH]; cbn; auto. destruct (N.eqb n k); auto. Qed.

Lemma dentry_eqb_spec : forall a b, dentry_eqb a b = true <-> a = b.
Proof. apply pair_eqb_spec; [apply N.eqb_eq|apply doc_eqb_spec]. Qed.

Lemma aget_swap_pop (l : list dentry) i nm d0 n :
  NoDup (names l) -> nth_error l i = Some (nm, d0) ->
  aget N.eqb n (swap_pop i l) = if N.eqb n nm then None else aget N.eqb n l.
Proof.
  intros Hn Hi. pose proof (NoDup_map_inv _ _ Hn) as Hnl.
  assert (Hn' : NoDup (names (swap_pop i l))).
  { assert (Hi' : nth_error (names l) i = Some nm) by (rewrite nth_error_map, Hi; reflexivity).
    rewrite map_swap_pop. apply (swap_pop_NoDup N.eqb N.eqb_eq i Hn Hi'). }
  pose proof (swap_pop_Permutation dentry_eqb dentry_eqb_spec i Hnl Hi) as Hp.
  apply option_ext. intros v. rewrite (aget_In N.eqb N.eqb_eq n v _ Hn'). split.
  - intros Hin. apply (Permutation_in _ Hp) in Hin. apply (rem_In dentry_eqb dentry_eqb_spec) in Hin.
    destruct Hin as [Hin Hne]. destruct (N.eqb n nm) eqn:E.
    + apply N.eqb_eq in E. subst. exfalso. apply Hne.
      apply (aget_In N.eqb N.eqb_eq nm v _ Hn) in Hin.
      assert (H0 : aget N.eqb nm l = Some d0) by (apply (aget_In N.eqb N.eqb_eq); auto; eapply nth_error_In; eauto).
      congruence.
    + apply (aget_In N.eqb N.eqb_eq); auto.
  - destruct (N.eqb n nm) eqn:E; [discriminate|]. intros H. apply (aget_In N.eqb N.eqb_eq n v _ Hn) in H.
    apply (Permutation_in _ (Permutation_sym Hp)). apply (rem_In dentry_eqb dentry_eqb_spec). split; auto.
    intros E'. inversion E'. subst. rewrite N.eqb_refl in E. discriminate.
Qed.

Section Docs.
  Variable c : dm_cfg.
  Hypothesis bs_pos : 0 < dm_bs c.
  Local Notation bs := (dm_bs c).

  Definition dm_inv (s : dm_state) (l : list dentry) : Prop :=
    dm_count s = length l /\ NoDup (names l) /\ chunk_inv bs (dm_buckets s) l /\ length l <= dm_max c
    /\ (forall n, ix_get (dm_index s) n = index_of N.eqb n (names l)).

  Lemma dm_by_index_nat_inv s l i : dm_inv s l -> dm_by_index_nat c s i = of_option (nth_error l i).
  Proof.
    intros (Hc & Hn & Hk & Hm & Hx). unfold dm_by_index_nat. rewrite Hc.
    destruct (length l <=? i) eqn:E.
    - apply Nat.leb_le in E. rewrite (proj2 (nth_error_None l i)); auto.
    - apply Nat.leb_gt in E. rewrite (chunk_inv_get bs_pos (i / bs) Hk).
      + cbn [of_option bind]. rewrite chunk_nth_divmod; auto.
      + pose proof (Nat.div_mod i bs). pose proof (Nat.mod_upper_bound i bs). nia.
  Qed.
  Lemma dm_by_index_inv s l i : dm_inv s l -> dm_by_index c s i = of_option (nth_error l (N.to_nat i)).
  Proof.
    intros H. unfold dm_by_index. pose proof H as (Hc & _). rewrite Hc.
    destruct (N.of_nat (length l) <=? i)%N eqn:E.
    - apply N.leb_le in E. rewrite (proj2 (nth_error_None l (N.to_nat i))); auto. lia.
    - apply dm_by_index_nat_inv. auto.
  Qed.

  Lemma nth_names (l : list dentry) i nm : nth_error (names l) i = Some nm ->
    exists d, nth_error l i = Some (nm, d).
  Proof.
    rewrite nth_error_map. destruct (nth_error l i) as [[n d]|]; cbn; [|discriminate].
    intros H. inversion H. subst. eauto.
  Qed.

  Lemma dm_get_inv s l nm : dm_inv s l -> dm_get c s nm = of_option (aget N.eqb nm l).
  Proof.
    intros H. pose proof H as (Hc & Hn & Hk & Hm & Hx). unfold dm_get. rewrite Hx.
    destruct (index_of N.eqb nm (names l)) as [i|] eqn:E; cbn [of_option bind].
    - destruct (index_of_Some N.eqb N.eqb_eq _ _ E) as [Hi _]. destruct (nth_names _ _ Hi) as [d Hd].
      rewrite (dm_by_index_nat_inv i H), Hd. cbn [of_option bind snd].
      rewrite (proj2 (aget_In N.eqb N.eqb_eq nm d _ Hn)); auto. eapply nth_error_In; eauto.
    - apply (index_of_None N.eqb N.eqb_eq) in E. rewrite (proj2 (aget_None N.eqb N.eqb_eq nm l)); auto.
  Qed.

  Lemma dm_bucket_inv s l k : dm_inv s l -> dm_bucket s k = chunk bs (N.to_nat k) l.
  Proof. intros (_ & _ & Hk & _). unfold dm_bucket. apply chunk_inv_get0. auto. Qed.

  (* ================= the reference map ================= *)
  Definition dm_rel (s : dm_state) (a : list dentry) : Prop :=
    exists l, dm_inv s l /\ NoDup (names a) /\ (forall n, aget N.eqb n a = aget N.eqb n l).

  Lemma dm_rel_length s a l : dm_inv s l -> NoDup (names a) -> (forall n, aget N.eqb n a = aget N.eqb n l) ->
    length a = length l.
  Proof. intros (_ & Hn & _) Ha H. apply (same_lookup_length N.eqb N.eqb_eq); auto. Qed.

  Lemma ahas_index (l : list dentry) nm :
    ahas N.eqb nm l = match index_of N.eqb nm (names l) with Some _ => true | None => false end.
  Proof. rewrite (ahas_keys N.eqb N.eqb_eq). apply (index_of_memb N.eqb N.eqb_eq). Qed.
  Lemma ahas_ext (a l : list dentry) nm : (forall n, aget N.eqb n a = aget N.eqb n l) ->
    ahas N.eqb nm a = ahas N.eqb nm l.
  Proof. intros H. unfold ahas. rewrite H. reflexivity. Qed.

  Lemma dm_spec_sim s a k : dm_rel s a ->
    match dm_step c s k with
    | Ok (s', _) => exists a', dm_spec c a k = Ok a' /\ dm_rel s' a'
    | Fail => dm_spec c a k = Fail
    end.
  Proof.
    intros [l [Hi [Hna Hlk]]]. pose proof (@dm_rel_length s a l Hi Hna Hlk) as Hlen.
    pose proof Hi as (Hc & Hn & Hk & Hm & Hx).
    destruct k as [nm d|nm]; cbn [dm_step dm_spec].
    - (* set_document *)
      unfold dm_set. destruct (dm_max_uri c <? d_ulen d)%N; [reflexivity|].
      rewrite (@ahas_ext a l nm Hlk), ahas_index, Hx.
      destruct (index_of N.eqb nm (names l)) as [i|] eqn:E.
      + destruct (index_of_Some N.eqb N.eqb_eq _ _ E) as [Hnm Hlt]. rewrite map_length in Hlt.
        rewrite (chunk_inv_get bs_pos (i / bs) Hk)
          by (pose proof (Nat.div_mod i bs); pose proof (Nat.mod_upper_bound i bs); nia).
        cbn [of_option bind]. unfold vec_set. rewrite chunk_length.
        pose proof (Nat.div_mod i bs) as Hdm. pose proof (Nat.mod_upper_bound i bs) as Hmb.
        replace (i mod bs <? Nat.min bs (length l - i / bs * bs)) with true
          by (symmetry; apply Nat.ltb_lt; nia).
        cbn [bind]. eexists. split; [reflexivity|].
        exists (upd i (nm, d) l). split; [|split].
        * unfold dm_inv. cbn [dm_count dm_buckets dm_index]. rewrite upd_length, (@names_upd_same l i nm d Hnm).
          repeat split; auto.
          pose proof (@chunk_inv_upd _ _ bs_pos _ _ i (nm, d) Hk) as Hk1.
          rewrite (chunk_inv_get0 _ Hk) in Hk1. exact Hk1.
        * apply (NoDup_keys_aset N.eqb N.eqb_eq). auto.
        * intros n. rewrite (aget_aset N.eqb N.eqb_eq), (@aget_upd_key l i nm d n Hn Hnm), Hlk. reflexivity.
      + rewrite Hc, Hlen. destruct (dm_max c <=? length l) eqn:El; [reflexivity|].
        apply Nat.leb_gt in El. cbn [bind]. eexists. split; [reflexivity|].
        apply (index_of_None N.eqb N.eqb_eq) in E.
        exists (l ++ [(nm, d)]). split; [|split].
        * unfold dm_inv. cbn [dm_count dm_buckets dm_index]. rewrite app_length, map_app. cbn [length map fst].
          split; [lia|]. split; [apply NoDup_snoc; auto|]. split.
          { apply chunk_inv_app; auto. cbn [length].
            pose proof (Nat.div_mod (length l) bs). pose proof (Nat.mod_upper_bound (length l) bs). nia. }
          split; [lia|]. intros n. unfold ix_get, ix_set. rewrite (aget_aset N.eqb N.eqb_eq).
          rewrite (index_of_app N.eqb). fold (ix_get (dm_index s) n). rewrite Hx.
          destruct (N.eqb n nm) eqn:En.
          -- apply N.eqb_eq in En. subst n.
             rewrite (proj2 (index_of_None N.eqb N.eqb_eq nm (names l)) E). cbn. rewrite N.eqb_refl.
             cbn. rewrite map_length. f_equal. lia.
          -- destruct (index_of N.eqb n (names l)); auto. cbn. rewrite En. reflexivity.
        * apply (NoDup_keys_aset N.eqb N.eqb_eq). auto.
        * intros n. rewrite (aget_aset N.eqb N.eqb_eq), aget_app_alist, Hlk. cbn [aget].
          destruct (N.eqb n nm) eqn:En.
          -- apply N.eqb_eq in En. subst n. rewrite (proj2 (aget_None N.eqb N.eqb_eq nm l) E). reflexivity.
          -- destruct (aget N.eqb n l); reflexivity.
    - (* remove_document *)
      unfold dm_remove. rewrite (@ahas_ext a l nm Hlk), ahas_index, Hx.
      destruct (index_of N.eqb nm (names l)) as [di|] eqn:E; cbn [of_option bind]; [|reflexivity].
      destruct (index_of_Some N.eqb N.eqb_eq _ _ E) as [Hnm Hlt]. rewrite map_length in Hlt.
      destruct (nth_names _ _ Hnm) as [d0 Hd0].
      rewrite Hc. replace (length l =? 0) with false by (symmetry; apply Nat.eqb_neq; lia).
      assert (Hl : l <> []) by (intros ->; cbn in Hlt; lia).
      pose proof (NoDup_map_inv _ _ Hn) as Hnl.
      destruct (nth_error l (length l - 1)) as [[ln ld]|] eqn:Ez; [|apply nth_error_None in Ez; lia].
      assert (Hzn : nth_error (names l) (length (names l) - 1) = Some ln)
        by (rewrite map_length, nth_error_map, Ez; reflexivity).
      (* the resulting flat list and index, in both branches *)
      assert (Hgoal : forall bk1 ix1,
                 chunk_inv bs bk1 (if di =? length l - 1 then l else upd di (ln, ld) l) ->
                 (forall n, ix_get ix1 n = if di =? length l - 1 then index_of N.eqb n (names l)
                                           else if N.eqb n ln then Some di else index_of N.eqb n (names l)) ->
                 match (do s' <- (do lb <- of_option (bk_get bk1 ((length l - 1) / bs));
                                  Ok {| dm_count := length l - 1;
                                        dm_buckets := bk_set bk1 ((length l - 1) / bs) (removelast lb);
                                        dm_index := ix_del ix1 nm |}); Ok (s', tt)) with
                 | Ok (s', _) => exists a', Ok (adel N.eqb nm a) = Ok a' /\ dm_rel s' a'
                 | Fail => Ok (adel N.eqb nm a) = Fail
                 end).
      { intros bk1 ix1 Hk1 Hx1.
        set (l1 := if di =? length l - 1 then l else upd di (ln, ld) l) in *.
        assert (Hl1 : length l1 = length l) by (unfold l1; destruct (di =? length l - 1); auto using upd_length).
        assert (Hsw : removelast l1 = swap_pop di l).
        { unfold l1. destruct (di =? length l - 1) eqn:Ed.
          - apply Nat.eqb_eq in Ed. subst di. symmetry. apply swap_pop_last. auto.
          - unfold swap_pop. rewrite Ez. reflexivity. }
        rewrite (chunk_inv_get bs_pos ((length l - 1) / bs) Hk1)
          by (rewrite Hl1; pose proof (Nat.div_mod (length l - 1) bs); pose proof (Nat.mod_upper_bound (length l - 1) bs); nia).
        cbn [of_option bind]. eexists. split; [reflexivity|].
        exists (swap_pop di l). split; [|split].
        - unfold dm_inv. cbn [dm_count dm_buckets dm_index].
          rewrite swap_pop_length by auto. split; auto. rewrite map_swap_pop. split.
          + eapply (swap_pop_NoDup N.eqb N.eqb_eq); eauto.
          + split.
            * assert (Hne : l1 <> []) by (intros E1; rewrite E1 in Hl1; cbn in Hl1; lia).
              pose proof (chunk_inv_pop bs_pos Hk1 Hne) as Hk2. rewrite Hl1, (chunk_inv_get0 _ Hk1) in Hk2.
              rewrite Hsw in Hk2. exact Hk2.
            * split; [lia|]. intros n. unfold ix_get, ix_del. rewrite (aget_adel N.eqb N.eqb_eq).
              fold (ix_get ix1 n). rewrite Hx1.
              rewrite (@index_of_swap_pop _ N.eqb N.eqb_eq (names l) di nm ln n Hn Hnm Hzn).
              destruct (N.eqb n nm) eqn:En; auto.
              destruct (di =? length l - 1) eqn:Ed; auto.
              apply Nat.eqb_eq in Ed. subst di. rewrite Ez in Hd0. inversion Hd0. subst. rewrite En. reflexivity.
        - apply (NoDup_keys_adel N.eqb N.eqb_eq). auto.
        - intros n. rewrite (aget_adel N.eqb N.eqb_eq), (@aget_swap_pop l di nm d0 n Hn Hd0), Hlk. reflexivity. }
      destruct (di =? length l - 1) eqn:Ed.
      + cbn [bind]. apply (Hgoal (dm_buckets s) (dm_index s)); auto.
      + rewrite (chunk_inv_get bs_pos ((length l - 1) / bs) Hk)
          by (pose proof (Nat.div_mod (length l - 1) bs); pose proof (Nat.mod_upper_bound (length l - 1) bs); nia).
        cbn [of_option bind]. rewrite chunk_nth_divmod by auto. rewrite Ez. cbn [of_option bind fst].
        rewrite (chunk_inv_get bs_pos (di / bs) Hk)
          by (pose proof (Nat.div_mod di bs); pose proof (Nat.mod_upper_bound di bs); nia).
        cbn [of_option bind]. unfold vec_set. rewrite chunk_length.
        pose proof (Nat.div_mod di bs) as Hdm. pose proof (Nat.mod_upper_bound di bs) as Hmb.
        replace (di mod bs <? Nat.min bs (length l - di / bs * bs)) with true
          by (symmetry; apply Nat.ltb_lt; nia).
        cbn [bind]. apply Hgoal.
        * pose proof (@chunk_inv_upd _ _ bs_pos _ _ di (ln, ld) Hk) as Hk1.
          rewrite (chunk_inv_get0 _ Hk) in Hk1. exact Hk1.
        * intros n. unfold ix_get, ix_set. rewrite (aget_aset N.eqb N.eqb_eq). fold (ix_get (dm_index s) n).
          rewrite Hx. reflexivity.
  Qed.

  Lemma doc_eqb_refl d : doc_eqb d d = true.
  Proof. apply doc_eqb_spec. reflexivity. Qed.

  Lemma dm_holds_In a l e : NoDup (names l) -> (forall n, aget N.eqb n a = aget N.eqb n l) -> In e l ->
    dm_holds a e = true.
  Proof.
    intros Hn Hlk Hin. unfold dm_holds. rewrite Hlk. destruct e as [n d]. cbn [fst snd].
    rewrite (proj2 (aget_In N.eqb N.eqb_eq n d l Hn) Hin). cbn. apply doc_eqb_refl.
  Qed.

  Lemma dm_chk_ok s a q : dm_rel s a -> dm_chk a (q, dm_answer c s q) = true.
  Proof.
    intros [l [Hi [Hna Hlk]]]. pose proof (@dm_rel_length s a l Hi Hna Hlk) as Hlen.
    pose proof Hi as (Hc & Hn & Hk & Hm & Hx).
    destruct q as [|nm|i|k]; cbn [dm_answer dm_chk].
    - rewrite Hc, Hlen. apply N.eqb_refl.
    - rewrite (dm_get_inv nm Hi), Hlk. apply res_eqb_refl. apply doc_eqb_refl.
    - rewrite (dm_by_index_inv i Hi).
      destruct (nth_error l (N.to_nat i)) as [e|] eqn:En; cbn [of_option].
      + assert (Hlt : N.to_nat i < length l) by (apply nth_error_Some; congruence).
        rewrite (@dm_holds_In a l e Hn Hlk) by (eapply nth_error_In; eauto). cbn [andb].
        apply N.ltb_lt. lia.
      + apply nth_error_None in En. apply N.leb_le. lia.
    - rewrite (dm_bucket_inv k Hi). apply andb_true_intro. split.
      + apply forallb_forall. intros e He. apply (@dm_holds_In a l e Hn Hlk). eapply In_chunk; eauto.
      + apply (nodupb_NoDup N.eqb N.eqb_eq). unfold chunk. rewrite <- firstn_map, <- skipn_map.
        apply NoDup_firstn. apply NoDup_skipn. auto.
  Qed.

  Lemma dm_pairs_model s l qs : dm_inv s l ->
    Forall (fun p => nth_error (names l) (N.to_nat (fst p)) = Some (snd p))
           (dm_pairs (map (fun q => (q, dm_answer c s q)) qs)).
  Proof.
    intros Hi. unfold dm_pairs. induction qs as [|q qs IH]; cbn [map flat_map]; [constructor|].
    apply Forall_app. split; auto.
    destruct q as [|nm|i|k]; cbn [dm_answer]; try constructor.
    rewrite (dm_by_index_inv i Hi).
    destruct (nth_error l (N.to_nat i)) as [e|] eqn:En; cbn [of_option]; constructor; [|constructor].
    cbn [fst snd]. rewrite nth_error_map, En. reflexivity.
  Qed.

  Definition bucket_keys (qs : list dm_query) : list N :=
    flat_map (fun q => match q with DqBucket k => [k] | _ => [] end) qs.
  Lemma dm_bucket_answers_model s l qs : dm_inv s l ->
    dm_bucket_answers (map (fun q => (q, dm_answer c s q)) qs) =
    map (fun k => (k, chunk bs (N.to_nat k) l)) (bucket_keys qs).
  Proof.
    intros Hi. unfold dm_bucket_answers, bucket_keys.
    induction qs as [|q qs IH]; cbn [map flat_map]; auto.
    rewrite IH, map_app. f_equal.
    destruct q as [|nm|i|k]; cbn [dm_answer]; auto.
    rewrite (dm_bucket_inv k Hi). reflexivity.
  Qed.

  Lemma combine_seq_In {B} (f : nat -> N) (xs : list B) i x :
    In (i, x) (combine (map f (seq 0 (length xs))) xs) -> exists j, i = f j /\ nth_error xs j = Some x.
  Proof.
    assert (G : forall st, In (i, x) (combine (map f (seq st (length xs))) xs) ->
                           exists j, i = f (st + j) /\ nth_error xs j = Some x).
    { induction xs as [|y ys IH]; intros st H; cbn in H; [destruct H|].
      destruct H as [H|H].
      - inversion H. subst. exists 0. rewrite Nat.add_0_r. auto.
      - destruct (IH (S st) H) as [j [E1 E2]]. exists (S j). split; auto. rewrite E1. f_equal. lia. }
    intros H. destruct (G 0 H) as [j [E1 E2]]. exists j. auto.
  Qed.

  Lemma names_chunk k (l : list dentry) : names (chunk bs k l) = chunk bs k (names l).
  Proof. unfold chunk. rewrite <- firstn_map, <- skipn_map. reflexivity. Qed.

  Lemma dm_bucket_pairs_model l k :
    Forall (fun p => nth_error (names l) (N.to_nat (fst p)) = Some (snd p))
           (dm_bucket_pairs c (k, chunk bs (N.to_nat k) l)).
  Proof.
    apply Forall_forall. intros [i x] Hin. unfold dm_bucket_pairs in Hin. cbn [fst snd] in *.
    rewrite <- (map_length fst (chunk bs (N.to_nat k) l)) in Hin.
    apply combine_seq_In in Hin. destruct Hin as [j [-> Hj]]. rewrite Nat2N.id.
    rewrite names_chunk in Hj. rewrite nth_chunk in Hj. destruct (j <? bs); [exact Hj|discriminate].
  Qed.

  Lemma dm_cross_ok s a qs : dm_rel s a -> dm_cross c a (map (fun q => (q, dm_answer c s q)) qs) = true.
  Proof.
    intros [l [Hi [Hna Hlk]]]. pose proof (@dm_rel_length s a l Hi Hna Hlk) as Hlen.
    pose proof Hi as (Hc & Hn & Hk & Hm & Hx).
    unfold dm_cross. rewrite (dm_bucket_answers_model qs Hi). apply andb_true_intro. split.
    - apply (@injb_nth _ N.eqb N.eqb_eq (names l)); auto. apply Forall_app. split; [apply dm_pairs_model; auto|].
      apply Forall_forall. intros p Hp. apply in_flat_map in Hp. destruct Hp as [[k m] [Hk1 Hk2]].
      apply in_map_iff in Hk1. destruct Hk1 as [k' [E _]]. inversion E. subst k' m.
      pose proof (dm_bucket_pairs_model l k) as HF. rewrite Forall_forall in HF. apply HF. auto.
    - apply forallb_forall. intros [k m] Hin. apply in_map_iff in Hin. destruct Hin as [k' [E _]].
      inversion E. subst k' m. cbn [fst snd]. rewrite chunk_length, Hlen. apply Nat.eqb_refl.
  Qed.

  Lemma dm_mon_step s a cq : dm_rel s a ->
    exists a', mon_of (spec_unit (dm_spec c)) dm_chk (dm_cross c) a (model_ev (dm_step c) (dm_answer c) s cq) = Some a'
               /\ dm_rel (step_state (dm_step c) s (fst cq)) a'.
  Proof.
    apply (@unit_mon_step _ _ _ _ _ (dm_step c) (dm_answer c) (dm_spec c) dm_chk (dm_cross c) dm_rel).
    - intros. apply dm_spec_sim. auto.
    - intros. apply dm_chk_ok. auto.
    - intros. apply dm_cross_ok. auto.
  Qed.

  (* ---- the fixture initial state ---- *)
  Lemma index_from_get (l : list dentry) : forall i n,
    aget N.eqb n (index_from i l) = option_map (fun j => i + j) (index_of N.eqb n (names l)).
  Proof.
    induction l as [|[k v] r IH]; intros i n; cbn [index_from aget map fst index_of]; auto.
    destruct (N.eqb n k); cbn [option_map]; [f_equal; lia|].
    rewrite IH. destruct (index_of N.eqb n (names r)); cbn [option_map]; auto. f_equal. lia.
  Qed.
  Lemma dm_start_inv pre : dm_pre_ok c pre = true -> dm_inv (dm_start c pre) pre.
  Proof.
    unfold dm_pre_ok. rewrite !andb_true_iff. intros [[[H1 H2] _] _].
    apply Nat.leb_le in H2. unfold dm_inv, dm_start. cbn [dm_count dm_buckets dm_index].
    split; auto. split; [apply incrb_NoDup; auto|]. split; [apply start_chunk_inv; auto|].
    split; auto. intros n. unfold ix_get. rewrite index_from_get.
    destruct (index_of N.eqb n (names pre)); reflexivity.
  Qed.
  Lemma dm_rel_start pre : dm_pre_ok c pre = true -> dm_rel (dm_start c pre) pre.
  Proof.
    intros H. exists pre. split; [apply dm_start_inv; auto|]. split; auto.
    unfold dm_pre_ok in H. rewrite !andb_true_iff in H. apply incrb_NoDup. tauto.
  Qed.

  (* ---- index-based access is stable while nothing changes ---- *)
  Definition dm_flat (s : dm_state) : list dentry :=
    flat_map (fun k => bk_get0 (dm_buckets s) k) (seq 0 (S (dm_count s / bs))).
  Lemma dm_flat_inv s l : dm_inv s l -> dm_flat s = l.
  Proof.
    intros (Hc & _ & Hk & _). unfold dm_flat. apply (chunk_inv_concat bs_pos _ Hk). rewrite Hc.
    pose proof (Nat.div_mod (length l) bs). pose proof (Nat.mod_upper_bound (length l) bs). nia.
  Qed.
  Definition dm_Inv (s : dm_state) : Prop := exists a, dm_rel s a.
  Lemma dm_Inv_step s k : dm_Inv s -> dm_Inv (step_state (dm_step c) s k).
  Proof.
    intros [a HR]. pose proof (dm_spec_sim k HR) as H. unfold step_state.
    destruct (dm_step c s k) as [[s' []]|]; [destruct H as [a' [_ H]]; exists a'; auto|exists a; auto].
  Qed.
  Lemma dm_L_nodup s : dm_Inv s -> NoDup (names (dm_flat s)).
  Proof. intros [a [l [Hi _]]]. rewrite (dm_flat_inv Hi). destruct Hi as (_ & H & _). auto. Qed.
  Lemma dm_L_pairs s qs : dm_Inv s ->
    Forall (fun p => nth_error (names (dm_flat s)) (N.to_nat (fst p)) = Some (snd p))
           (dm_pairs (map (fun q => (q, dm_answer c s q)) qs)).
  Proof. intros [a [l [Hi _]]]. rewrite (dm_flat_inv Hi). apply dm_pairs_model. auto. Qed.
End Docs.
