(* C03 - the documented limits and the fingerprint discipline hold in every reachable state:
   at most max_rules rules, every rule has duplicate-free signers and policies within
   max_signers / max_policies and is never empty (so no rule is satisfied vacuously), the rule
   count equals the number of stored rules, and no two stored rules have the same
   (type, signer set, policy set). *)
From SC Require Import Lib.Prelude Lib.Int Lib.Host Model.SmartAccount Proofs.SmartAccount Proofs.SmartAccountInv.
From Coq Require Import Sorted.

(* ---------- list facts ---------- *)
Lemma nodup_s_NoDup l : nodup_s l = true <-> NoDup l.
Proof.
  induction l as [|x r IH]; cbn [nodup_s]; [split; [constructor|reflexivity]|].
  rewrite andb_true_iff, negb_true_iff, IH. split.
  - intros [H1 H2]. constructor; [|exact H2]. intros Hi. apply mem_s_In in Hi. congruence.
  - intros H. inversion H; subst. split; [|assumption].
    destruct (mem_s x r) eqn:E; [apply mem_s_In in E; contradiction|reflexivity].
Qed.
Lemma nodup_p_NoDup l : nodup_p l = true <-> NoDup l.
Proof.
  induction l as [|x r IH]; cbn [nodup_p]; [split; [constructor|reflexivity]|].
  rewrite andb_true_iff, negb_true_iff, IH. split.
  - intros [H1 H2]. constructor; [|exact H2]. intros Hi. apply mem_p_In in Hi. congruence.
  - intros H. inversion H; subst. split; [|assumption].
    destruct (mem_p x r) eqn:E; [apply mem_p_In in E; contradiction|reflexivity].
Qed.

Lemma NoDup_app_one {A} (l : list A) x : NoDup l -> ~ In x l -> NoDup (l ++ [x]).
Proof.
  intros Hd Hn. induction l as [|y l IH]; cbn [app]; [constructor; [intros []|constructor]|].
  inversion Hd; subst. constructor.
  - intros Hi. apply in_app_or in Hi. destruct Hi as [Hi|[<-|[]]]; [contradiction|apply Hn; left; reflexivity].
  - apply IH; [assumption|]. intros Hi. apply Hn. right. exact Hi.
Qed.

Lemma remove_first_split {A} (eqb : A -> A -> bool) x l l' :
  remove_first eqb x l = Some l' -> exists a y b, l = a ++ y :: b /\ l' = a ++ b.
Proof.
  revert l'. induction l as [|z r IH]; intros l' H; cbn [remove_first] in H; [discriminate|].
  destruct (eqb x z).
  - inversion H; subst. exists [], z, l'. split; reflexivity.
  - destruct (remove_first eqb x r) as [r'|]; [|discriminate]. inversion H; subst.
    destruct (IH r' eq_refl) as [a [y [b [-> ->]]]]. exists (z :: a), y, b. split; reflexivity.
Qed.
Lemma remove_last_split {A} (eqb : A -> A -> bool) x l l' :
  remove_last eqb x l = Some l' -> exists a y b, l = a ++ y :: b /\ l' = a ++ b.
Proof.
  unfold remove_last. destruct (remove_first eqb x (rev l)) as [l2|] eqn:E; [|discriminate].
  intros H. inversion H; subst. destruct (remove_first_split _ _ _ _ E) as [a [y [b [H1 ->]]]].
  exists (rev b), y, (rev a). split; [|apply rev_app_distr].
  rewrite <- (rev_involutive l), H1, rev_app_distr. cbn [rev]. rewrite <- app_assoc. reflexivity.
Qed.

Lemma zlen_app {A} (a b : list A) : zlen (a ++ b) = zlen a + zlen b.
Proof. unfold zlen. rewrite app_length. lia. Qed.
Lemma zlen_cons {A} (x : A) l : zlen (x :: l) = zlen l + 1.
Proof. unfold zlen. cbn [length]. lia. Qed.
Lemma zlen_nonneg {A} (l : list A) : 0 <= zlen l.
Proof. unfold zlen. lia. Qed.

(* ---------- fingerprints ---------- *)
Definition fp_of (r : rule) : fp := (r_type r, r_signers r, r_policies r).

Lemma subset_s_iff x y : subset_s x y = true <-> forall s, In s x -> In s y.
Proof.
  unfold subset_s. rewrite forallb_forall. split; intros H s Hs; [apply mem_s_In|apply mem_s_In]; auto.
Qed.
Lemma subset_p_iff x y : subset_p x y = true <-> forall s, In s x -> In s y.
Proof.
  unfold subset_p. rewrite forallb_forall. split; intros H s Hs; [apply mem_p_In|apply mem_p_In]; auto.
Qed.

Lemma fp_eqb_iff (f g : fp) :
  fp_eqb f g = true <->
  fst (fst f) = fst (fst g) /\ (forall s, In s (snd (fst f)) <-> In s (snd (fst g))) /\ (forall p, In p (snd f) <-> In p (snd g)).
Proof.
  destruct f as [[t s] p], g as [[t' s'] p']. cbn [fp_eqb fst snd].
  rewrite !andb_true_iff, ctype_eqb_eq, !subset_s_iff, !subset_p_iff. firstorder.
Qed.
Lemma fp_eqb_refl f : fp_eqb f f = true.
Proof. apply fp_eqb_iff. firstorder. Qed.
Lemma fp_eqb_sym f g : fp_eqb f g = true -> fp_eqb g f = true.
Proof. rewrite !fp_eqb_iff. intros [H1 [H2 H3]]. split; [auto|split; intros x; [rewrite H2|rewrite H3]; tauto]. Qed.
Lemma fp_eqb_trans f g h : fp_eqb f g = true -> fp_eqb g h = true -> fp_eqb f h = true.
Proof.
  rewrite !fp_eqb_iff. intros [H1 [H2 H3]] [G1 [G2 G3]].
  split; [congruence|split; intros x; [rewrite H2, G2|rewrite H3, G3]; tauto].
Qed.

Definition has_fp (fps : list fp) (f : fp) : bool := existsb (fp_eqb f) fps.

Lemma has_fp_compat fps f g : fp_eqb f g = true -> has_fp fps g = true -> has_fp fps f = true.
Proof.
  unfold has_fp. rewrite !existsb_exists. intros E [h [Hh Eh]]. exists h. split; [exact Hh|].
  eapply fp_eqb_trans; eauto.
Qed.

Lemma has_fp_filter fps f g :
  has_fp fps g = true -> fp_eqb f g = false -> has_fp (filter (fun h => negb (fp_eqb f h)) fps) g = true.
Proof.
  unfold has_fp. rewrite !existsb_exists. intros [h [Hh Eh]] Hn. exists h. split; [|exact Eh].
  apply filter_In. split; [exact Hh|]. apply negb_true_iff.
  destruct (fp_eqb f h) eqn:E; [|reflexivity].
  rewrite (fp_eqb_trans _ _ _ E (fp_eqb_sym _ _ Eh)) in Hn. discriminate.
Qed.

(* ---------- the invariant ---------- *)
Definition rule_ok (c : cfg) (r : rule) : Prop :=
  NoDup (r_signers r) /\ NoDup (r_policies r) /\
  zlen (r_signers r) <= max_signers c /\ zlen (r_policies r) <= max_policies c /\
  (r_signers r <> [] \/ r_policies r <> []).

Record wf2 (c : cfg) (a : acct) : Prop := mkWf2 {
  w2_rules : forall r, In r (a_rules a) -> rule_ok c r;
  w2_count : count_of a = zlen (a_rules a);
  w2_count_set : a_count a = None -> a_rules a = [];
  w2_max : count_of a <= Z.max 0 (max_rules c);
  w2_fps_in : forall r, In r (a_rules a) -> has_fp (a_fps a) (fp_of r) = true;
  w2_fps_inj : forall r1 r2, In r1 (a_rules a) -> In r2 (a_rules a) ->
                 fp_eqb (fp_of r1) (fp_of r2) = true -> r1 = r2;
  (* ... and nothing else: every stored fingerprint belongs to a stored rule *)
  w2_fps_from : forall f, In f (a_fps a) -> exists r, In r (a_rules a) /\ fp_eqb f (fp_of r) = true }.

Lemma wf2_acct0 c : wf2 c acct0.
Proof.
  constructor; cbn.
  - intros r [].
  - reflexivity.
  - reflexivity.
  - lia.
  - intros r [].
  - intros r1 r2 [].
  - intros f [].
Qed.

Lemma validate_ok c s p u :
  validate_signers_and_policies c s p = Ok u ->
  zlen s <= max_signers c /\ zlen p <= max_policies c /\ (s <> [] \/ p <> []).
Proof.
  unfold validate_signers_and_policies. intros H.
  destruct (zlen s <=? max_signers c) eqn:E1; [|discriminate]. cbn [guard bind] in H.
  destruct (zlen p <=? max_policies c) eqn:E2; [|discriminate]. cbn [guard bind] in H.
  destruct s, p; cbn in H; try discriminate; (split; [lia|split; [lia|]]); [right|left|left]; discriminate.
Qed.

Lemma compute_fingerprint_ok t s p f :
  compute_fingerprint t s p = Ok f -> f = (t, s, p) /\ NoDup s /\ NoDup p.
Proof.
  unfold compute_fingerprint. intros H.
  destruct (nodup_s s) eqn:E1; [|discriminate]. cbn [guard bind] in H.
  destruct (nodup_p p) eqn:E2; [|discriminate]. cbn [guard bind] in H. inversion H; subst.
  split; [reflexivity|]. split; [apply nodup_s_NoDup|apply nodup_p_NoDup]; assumption.
Qed.

Lemma validate_and_set_ok fps t s p fps' :
  validate_and_set_fingerprint fps t s p = Ok fps' ->
  fps' = (t, s, p) :: fps /\ has_fp fps (t, s, p) = false /\ NoDup s /\ NoDup p.
Proof.
  unfold validate_and_set_fingerprint. intros H.
  destruct (compute_fingerprint t s p) as [f|] eqn:E; [|discriminate]. cbn [bind] in H.
  destruct (compute_fingerprint_ok _ _ _ _ E) as [-> [H1 H2]].
  destruct (existsb (fp_eqb (t, s, p)) fps) eqn:E2; [discriminate|]. inversion H; subst. auto.
Qed.

Lemma remove_fingerprint_ok fps t s p fps' :
  remove_fingerprint fps t s p = Ok fps' -> fps' = filter (fun g => negb (fp_eqb (t, s, p) g)) fps.
Proof.
  unfold remove_fingerprint. intros H.
  destruct (compute_fingerprint t s p) as [f|] eqn:E; [|discriminate]. cbn [bind] in H.
  destruct (compute_fingerprint_ok _ _ _ _ E) as [-> _]. inversion H; reflexivity.
Qed.

(* replacing the signers / policies of one rule: the generic step behind the four operations *)
Lemma wf2_replace c a r r' :
  wf a -> wf2 c a -> get_rule a (r_id r') = Some r -> r_type r' = r_type r -> rule_ok c r' ->
  has_fp (a_fps a) (fp_of r') = false ->
  wf2 c (mkAcct (set_rule r' (a_rules a)) (a_ids a) (a_next a) (a_count a)
           (filter (fun g => negb (fp_eqb (fp_of r) g)) (fp_of r' :: a_fps a))).
Proof.
  intros W W2 G Ht Hok Hnew. destruct (get_rule_some _ _ _ G) as [Hr Hid].
  assert (Hold_new : fp_eqb (fp_of r) (fp_of r') = false).
  { destruct (fp_eqb (fp_of r) (fp_of r')) eqn:E; [|reflexivity].
    rewrite (has_fp_compat _ _ _ (fp_eqb_sym _ _ E) (w2_fps_in c a W2 r Hr)) in Hnew. discriminate. }
  assert (Hother : forall x, In x (a_rules a) -> r_id x <> r_id r' -> fp_eqb (fp_of r) (fp_of x) = false).
  { intros x Hx Hn. destruct (fp_eqb (fp_of r) (fp_of x)) eqn:E; [|reflexivity].
    exfalso. apply Hn. rewrite <- (w2_fps_inj c a W2 r x Hr Hx E). auto. }
  constructor; cbn [a_rules a_count a_fps].
  - intros x Hx. destruct (set_rule_In _ _ _ Hx) as [->|[Hx' _]]; [exact Hok|apply (w2_rules c a W2); exact Hx'].
  - unfold count_of. cbn [a_count]. unfold zlen, set_rule. rewrite map_length. apply (w2_count c a W2).
  - intros Hn. rewrite (w2_count_set c a W2 Hn). reflexivity.
  - apply (w2_max c a W2).
  - intros x Hx. destruct (set_rule_In _ _ _ Hx) as [->|[Hx' Hn]].
    + apply has_fp_filter; [|exact Hold_new]. unfold has_fp. cbn [existsb]. rewrite fp_eqb_refl. reflexivity.
    + apply has_fp_filter; [|apply Hother; assumption].
      unfold has_fp. cbn [existsb]. rewrite (w2_fps_in c a W2 x Hx' : existsb _ _ = true). apply orb_true_r.
  - intros x y Hx Hy E.
    destruct (set_rule_In _ _ _ Hx) as [->|[Hx' Hnx]]; destruct (set_rule_In _ _ _ Hy) as [->|[Hy' Hny]].
    + reflexivity.
    + exfalso. rewrite (has_fp_compat _ _ _ E (w2_fps_in c a W2 y Hy')) in Hnew. discriminate.
    + exfalso. rewrite (has_fp_compat _ _ _ (fp_eqb_sym _ _ E) (w2_fps_in c a W2 x Hx')) in Hnew. discriminate.
    + apply (w2_fps_inj c a W2 x y Hx' Hy' E).
  - intros g Hg. apply filter_In in Hg. destruct Hg as [Hg Hng]. apply negb_true_iff in Hng.
    destruct Hg as [<-|Hg].
    + exists r'. split; [apply (In_set_rule r r' _ Hr Hid)|apply fp_eqb_refl].
    + destruct (w2_fps_from c a W2 g Hg) as [x [Hx Ex]]. exists x. split; [|exact Ex].
      apply In_set_rule_other; [exact Hx|]. intros Hidx.
      assert (x = r) by (apply (wf_id_inj a x r W Hx Hr); congruence). subst x.
      rewrite (fp_eqb_sym _ _ Ex) in Hng. discriminate.
Qed.

Ltac inv_bind H :=
  repeat match type of H with
  | bind ?x _ = Ok _ => let E := fresh "E" in destruct x eqn:E; [cbn [bind] in H|discriminate H]
  | (let '(_, _) := ?p in _) = Ok _ => destruct p
  end.

Lemma wf2_add_signer c a id s a' l : wf a -> wf2 c a -> add_signer c a id s = Ok (a', l) -> wf2 c a'.
Proof.
  intros W W2 H. unfold add_signer in H.
  destruct (get_context_rule a id) as [r|] eqn:G; [|discriminate]. cbn [bind] in H.
  destruct (mem_s s (r_signers r)) eqn:Em; [discriminate|]. cbn [negb guard bind] in H.
  destruct (validate_signers_and_policies c (r_signers r ++ [s]) (r_policies r)) as [u|] eqn:Ev; [|discriminate]. cbn [bind] in H.
  destruct (validate_and_set_fingerprint (a_fps a) (r_type r) (r_signers r ++ [s]) (r_policies r)) as [fps1|] eqn:Ef; [|discriminate].
  cbn [bind] in H. destruct (remove_fingerprint fps1 (r_type r) (r_signers r) (r_policies r)) as [fps2|] eqn:Er; [|discriminate].
  cbn [bind] in H. inversion H; subst; clear H.
  apply get_context_rule_some in G. destruct (get_rule_some _ _ _ G) as [Hr Hid].
  destruct (validate_and_set_ok _ _ _ _ _ Ef) as [-> [Hnew [Hd1 Hd2]]].
  rewrite (remove_fingerprint_ok _ _ _ _ _ Er). unfold set_signers.
  destruct (validate_ok _ _ _ _ Ev) as [V1 [V2 V3]].
  apply (wf2_replace c a r (mkRule (r_id r) (r_type r) (r_name r) (r_valid r) (r_signers r ++ [s]) (r_policies r))); auto.
  - cbn [r_id]. rewrite Hid. exact G.
  - repeat split; cbn [r_signers r_policies]; auto.
Qed.

Lemma wf2_remove_signer c a id s a' l : wf a -> wf2 c a -> remove_signer c a id s = Ok (a', l) -> wf2 c a'.
Proof.
  intros W W2 H. unfold remove_signer in H.
  destruct (get_context_rule a id) as [r|] eqn:G; [|discriminate]. cbn [bind] in H.
  destruct (remove_last signer_eqb s (r_signers r)) as [ss|] eqn:Em; [|discriminate]. cbn [of_option bind] in H.
  destruct (validate_signers_and_policies c ss (r_policies r)) as [u|] eqn:Ev; [|discriminate]. cbn [bind] in H.
  destruct (validate_and_set_fingerprint (a_fps a) (r_type r) ss (r_policies r)) as [fps1|] eqn:Ef; [|discriminate].
  cbn [bind] in H. destruct (remove_fingerprint fps1 (r_type r) (r_signers r) (r_policies r)) as [fps2|] eqn:Er; [|discriminate].
  cbn [bind] in H. inversion H; subst; clear H.
  apply get_context_rule_some in G. destruct (get_rule_some _ _ _ G) as [Hr Hid].
  destruct (validate_and_set_ok _ _ _ _ _ Ef) as [-> [Hnew [Hd1 Hd2]]].
  rewrite (remove_fingerprint_ok _ _ _ _ _ Er). unfold set_signers.
  destruct (validate_ok _ _ _ _ Ev) as [V1 [V2 V3]].
  apply (wf2_replace c a r (mkRule (r_id r) (r_type r) (r_name r) (r_valid r) ss (r_policies r))); auto.
  - cbn [r_id]. rewrite Hid. exact G.
  - repeat split; cbn [r_signers r_policies]; auto.
Qed.

Lemma wf2_add_policy O c a id p n a' l : wf a -> wf2 c a -> add_policy O c a id p n = Ok (a', l) -> wf2 c a'.
Proof.
  intros W W2 H. unfold add_policy in H.
  destruct (get_context_rule a id) as [r|] eqn:G; [|discriminate]. cbn [bind] in H.
  destruct (mem_p p (r_policies r)) eqn:Em; [discriminate|]. cbn [negb guard bind] in H.
  destruct (o_install O p n r); [|discriminate]. cbn [guard bind] in H.
  destruct (validate_signers_and_policies c (r_signers r) (r_policies r ++ [p])) as [u|] eqn:Ev; [|discriminate]. cbn [bind] in H.
  destruct (validate_and_set_fingerprint (a_fps a) (r_type r) (r_signers r) (r_policies r ++ [p])) as [fps1|] eqn:Ef; [|discriminate].
  cbn [bind] in H. destruct (remove_fingerprint fps1 (r_type r) (r_signers r) (r_policies r)) as [fps2|] eqn:Er; [|discriminate].
  cbn [bind] in H. inversion H; subst; clear H.
  apply get_context_rule_some in G. destruct (get_rule_some _ _ _ G) as [Hr Hid].
  destruct (validate_and_set_ok _ _ _ _ _ Ef) as [-> [Hnew [Hd1 Hd2]]].
  rewrite (remove_fingerprint_ok _ _ _ _ _ Er). unfold set_policies.
  destruct (validate_ok _ _ _ _ Ev) as [V1 [V2 V3]].
  apply (wf2_replace c a r (mkRule (r_id r) (r_type r) (r_name r) (r_valid r) (r_signers r) (r_policies r ++ [p]))); auto.
  - cbn [r_id]. rewrite Hid. exact G.
  - repeat split; cbn [r_signers r_policies]; auto.
Qed.

Lemma wf2_remove_policy O c a id p a' l : wf a -> wf2 c a -> remove_policy O c a id p = Ok (a', l) -> wf2 c a'.
Proof.
  intros W W2 H. unfold remove_policy in H.
  destruct (get_context_rule a id) as [r|] eqn:G; [|discriminate]. cbn [bind] in H.
  destruct (remove_last N.eqb p (r_policies r)) as [ps|] eqn:Em; [|discriminate]. cbn [of_option bind] in H.
  destruct (validate_signers_and_policies c (r_signers r) ps) as [u|] eqn:Ev; [|discriminate]. cbn [bind] in H.
  destruct (validate_and_set_fingerprint (a_fps a) (r_type r) (r_signers r) ps) as [fps1|] eqn:Ef; [|discriminate].
  cbn [bind] in H. destruct (remove_fingerprint fps1 (r_type r) (r_signers r) (r_policies r)) as [fps2|] eqn:Er; [|discriminate].
  cbn [bind] in H. inversion H; subst; clear H.
  apply get_context_rule_some in G. destruct (get_rule_some _ _ _ G) as [Hr Hid].
  destruct (validate_and_set_ok _ _ _ _ _ Ef) as [-> [Hnew [Hd1 Hd2]]].
  rewrite (remove_fingerprint_ok _ _ _ _ _ Er). unfold set_policies.
  destruct (validate_ok _ _ _ _ Ev) as [V1 [V2 V3]].
  apply (wf2_replace c a r (mkRule (r_id r) (r_type r) (r_name r) (r_valid r) (r_signers r) ps)); auto.
  - cbn [r_id]. rewrite Hid. exact G.
  - repeat split; cbn [r_signers r_policies]; auto.
Qed.

(* renaming / re-dating a rule keeps its fingerprint *)
Lemma wf2_same_fp c a r r' :
  wf a -> wf2 c a -> get_rule a (r_id r') = Some r -> r_type r' = r_type r ->
  r_signers r' = r_signers r -> r_policies r' = r_policies r ->
  wf2 c (with_rules a (set_rule r' (a_rules a))).
Proof.
  intros W W2 G Ht Hs Hp. destruct (get_rule_some _ _ _ G) as [Hr Hid].
  assert (Hfp : fp_of r' = fp_of r) by (unfold fp_of; congruence).
  unfold with_rules. constructor; cbn [a_rules a_count a_fps].
  - intros x Hx. destruct (set_rule_In _ _ _ Hx) as [->|[Hx' _]]; [|apply (w2_rules c a W2); exact Hx'].
    unfold rule_ok. rewrite Hs, Hp. apply (w2_rules c a W2 r Hr).
  - unfold count_of. cbn [a_count]. unfold zlen, set_rule. rewrite map_length. apply (w2_count c a W2).
  - intros Hn. rewrite (w2_count_set c a W2 Hn). reflexivity.
  - apply (w2_max c a W2).
  - intros x Hx. destruct (set_rule_In _ _ _ Hx) as [->|[Hx' _]]; [rewrite Hfp|]; apply (w2_fps_in c a W2); assumption.
  - intros x y Hx Hy E.
    destruct (set_rule_In _ _ _ Hx) as [->|[Hx' Hnx]]; destruct (set_rule_In _ _ _ Hy) as [->|[Hy' Hny]].
    + reflexivity.
    + exfalso. rewrite Hfp in E. apply Hny. rewrite <- (w2_fps_inj c a W2 r y Hr Hy' E). auto.
    + exfalso. rewrite Hfp in E. apply Hnx. rewrite (w2_fps_inj c a W2 x r Hx' Hr E). auto.
    + apply (w2_fps_inj c a W2 x y Hx' Hy' E).
  - intros g Hg. destruct (w2_fps_from c a W2 g Hg) as [x [Hx Ex]].
    destruct (Z.eq_dec (r_id x) (r_id r')) as [Hidx|Hidx].
    + assert (x = r) by (apply (wf_id_inj a x r W Hx Hr); congruence). subst x.
      exists r'. split; [apply (In_set_rule r r' _ Hr Hid)|rewrite Hfp; exact Ex].
    + exists x. split; [apply In_set_rule_other; assumption|exact Ex].
Qed.

Lemma wf2_update_name c a id name a' r l :
  wf a -> wf2 c a -> update_context_rule_name a id name = Ok (a', r, l) -> wf2 c a'.
Proof.
  intros W W2 H. unfold update_context_rule_name, get_context_rule in H.
  destruct (get_rule a id) as [r0|] eqn:G; [|discriminate]. cbn in H. inversion H; subst; clear H.
  destruct (get_rule_some _ _ _ G) as [_ Hid].
  apply (wf2_same_fp c a r0); auto.
Qed.
Lemma wf2_update_valid c a now id valid a' r l :
  wf a -> wf2 c a -> update_context_rule_valid_until a now id valid = Ok (a', r, l) -> wf2 c a'.
Proof.
  intros W W2 H. unfold update_context_rule_valid_until, get_context_rule in H.
  destruct (get_rule a id) as [r0|] eqn:G; [|discriminate]. cbn [of_option bind] in H.
  destruct (guard (valid_until_ok now valid)); [|discriminate]. cbn in H. inversion H; subst; clear H.
  apply (wf2_same_fp c a r0); auto.
Qed.

Lemma wf2_add_context_rule O c a now t name valid signers policies a' r l :
  wf a -> wf2 c a -> add_context_rule O c a now t name valid signers policies = Ok (a', r, l) -> wf2 c a'.
Proof.
  intros W W2 H. unfold add_context_rule in H.
  destruct (count_of a <? max_rules c) eqn:Ec; [|discriminate]. cbn [guard bind] in H.
  destruct (nodup_s signers) eqn:En; [|discriminate]. cbn [guard bind] in H.
  destruct (valid_until_ok now valid); [|discriminate]. cbn [guard bind] in H.
  destruct (validate_signers_and_policies c signers (map fst policies)) as [u|] eqn:Ev; [|discriminate]. cbn [bind] in H.
  destruct (validate_and_set_fingerprint (a_fps a) t signers (map fst policies)) as [fps1|] eqn:Ef; [|discriminate]. cbn [bind] in H.
  destruct (install_all O policies _) as [li|]; [|discriminate]. cbn [bind] in H.
  destruct (in_u32 (a_next a + 1)); [|discriminate]. cbn [guard bind] in H.
  destruct (in_u32 (count_of a + 1)); [|discriminate]. cbn [guard bind] in H. inversion H; subst; clear H.
  destruct (validate_and_set_ok _ _ _ _ _ Ef) as [-> [Hnew [Hd1 Hd2]]].
  destruct (validate_ok _ _ _ _ Ev) as [V1 [V2 V3]].
  set (r := mkRule (a_next a) t name valid signers (map fst policies)).
  assert (Hfresh : forall x, In x (a_rules a) -> fp_eqb (fp_of r) (fp_of x) = false).
  { intros x Hx. destruct (fp_eqb (fp_of r) (fp_of x)) eqn:E; [|reflexivity].
    pose proof (has_fp_compat _ _ _ E (w2_fps_in c a W2 x Hx)) as X.
    change (fp_of r) with (t, signers, map fst policies) in X. congruence. }
  constructor; cbn [a_rules a_count a_fps].
  - intros x Hx. apply in_app_or in Hx. destruct Hx as [Hx|[<-|[]]]; [apply (w2_rules c a W2); exact Hx|].
    repeat split; cbn [r_signers r_policies]; auto.
  - unfold count_of at 1. cbn [a_count]. rewrite zlen_app, (w2_count c a W2). reflexivity.
  - discriminate.
  - unfold count_of at 1. cbn [a_count]. apply Z.ltb_lt in Ec. lia.
  - intros x Hx. unfold has_fp. cbn [existsb]. apply in_app_or in Hx. destruct Hx as [Hx|[<-|[]]].
    + rewrite (w2_fps_in c a W2 x Hx : existsb _ _ = true). apply orb_true_r.
    + change (t, signers, map fst policies) with (fp_of r). rewrite fp_eqb_refl. reflexivity.
  - intros x y Hx Hy E. apply in_app_or in Hx. apply in_app_or in Hy.
    destruct Hx as [Hx|[<-|[]]]; destruct Hy as [Hy|[<-|[]]].
    + apply (w2_fps_inj c a W2 x y Hx Hy E).
    + pose proof (fp_eqb_sym _ _ E) as E'. rewrite (Hfresh x Hx) in E'. discriminate.
    + rewrite (Hfresh y Hy) in E. discriminate.
    + reflexivity.
  - intros g [<-|Hg].
    + exists r. split; [apply in_or_app; right; left; reflexivity|apply fp_eqb_refl].
    + destruct (w2_fps_from c a W2 g Hg) as [x [Hx Ex]]. exists x. split; [apply in_or_app; left; exact Hx|exact Ex].
Qed.

Lemma del_rule_length a id r :
  wf a -> get_rule a id = Some r -> zlen (del_rule id (a_rules a)) = zlen (a_rules a) - 1.
Proof.
  intros W G. destruct (get_rule_some _ _ _ G) as [Hr Hid].
  pose proof (wf_sorted a W) as S. unfold del_rule, zlen.
  induction (a_rules a) as [|x l IH]; [destruct Hr|]. cbn [map] in S. inversion S as [|? ? S' F]; subst.
  cbn [filter length]. destruct Hr as [->|Hr].
  - rewrite Z.eqb_refl. cbn [negb].
    assert (E : filter (fun x => negb (r_id x =? r_id r)) l = l); [|rewrite E; lia].
    clear -F. induction l as [|y l IH]; [reflexivity|]. inversion F; subst. cbn [filter].
    destruct (r_id y =? r_id r) eqn:E; [apply Z.eqb_eq in E; lia|]. cbn [negb]. f_equal. auto.
  - destruct (r_id x =? r_id r) eqn:E.
    + apply Z.eqb_eq in E. rewrite Forall_forall in F. specialize (F (r_id r) (in_map r_id _ _ Hr)). lia.
    + cbn [negb length]. specialize (IH Hr S'). lia.
Qed.

Lemma wf2_remove_context_rule O c a id a' l : wf a -> wf2 c a -> remove_context_rule O a id = Ok (a', l) -> wf2 c a'.
Proof.
  intros W W2 H. unfold remove_context_rule in H.
  destruct (get_context_rule a id) as [r|] eqn:G; [|discriminate]. cbn [bind] in H.
  destruct (remove_fingerprint (a_fps a) (r_type r) (r_signers r) (r_policies r)) as [fps|] eqn:Er; [|discriminate].
  cbn [bind] in H. destruct (a_count a) as [cnt|] eqn:Ecnt; [|discriminate]. cbn [of_option bind] in H.
  destruct (in_u32 (cnt - 1)); [|discriminate]. cbn [guard bind] in H. inversion H; subst; clear H.
  apply get_context_rule_some in G. destruct (get_rule_some _ _ _ G) as [Hr Hid].
  rewrite (remove_fingerprint_ok _ _ _ _ _ Er).
  assert (Hin : forall x, In x (del_rule id (a_rules a)) -> In x (a_rules a) /\ r_id x <> id).
  { intros x Hx. unfold del_rule in Hx. apply filter_In in Hx. destruct Hx as [Hx Hn]. split; [exact Hx|].
    apply negb_true_iff in Hn. apply Z.eqb_neq. exact Hn. }
  pose proof (w2_count c a W2) as Hc. unfold count_of in Hc. rewrite Ecnt in Hc.
  constructor; cbn [a_rules a_count a_fps].
  - intros x Hx. apply (w2_rules c a W2). apply Hin. exact Hx.
  - unfold count_of. cbn [a_count]. rewrite (del_rule_length a id r W G). lia.
  - discriminate.
  - unfold count_of. cbn [a_count]. pose proof (w2_max c a W2) as Hm. unfold count_of in Hm. rewrite Ecnt in Hm. lia.
  - intros x Hx. destruct (Hin x Hx) as [Hx' Hn]. apply has_fp_filter; [apply (w2_fps_in c a W2); exact Hx'|].
    change (r_type r, r_signers r, r_policies r) with (fp_of r).
    destruct (fp_eqb (fp_of r) (fp_of x)) eqn:E; [|reflexivity].
    exfalso. apply Hn. rewrite <- (w2_fps_inj c a W2 r x Hr Hx' E). exact Hid.
  - intros x y Hx Hy. apply (w2_fps_inj c a W2); apply Hin; assumption.
  - intros g Hg. apply filter_In in Hg. destruct Hg as [Hg Hng]. apply negb_true_iff in Hng.
    destruct (w2_fps_from c a W2 g Hg) as [x [Hx Ex]]. exists x. split; [|exact Ex].
    unfold del_rule. apply filter_In. split; [exact Hx|]. apply negb_true_iff. apply Z.eqb_neq. intros Hidx.
    assert (x = r) by (apply (wf_id_inj a x r W Hx Hr); congruence). subst x.
    change (r_type r, r_signers r, r_policies r) with (fp_of r) in Hng.
    rewrite (fp_eqb_sym _ _ Ex) in Hng. discriminate.
Qed.

Lemma wf2_run_op O c a now op a' ret l : wf a -> wf2 c a -> run_op O c a now op = Ok (a', ret, l) -> wf2 c a'.
Proof.
  intros W W2 H. destruct op; cbn [run_op] in H.
  - destruct (add_context_rule O c a now t name valid signers policies) as [[[a1 r1] l1]|] eqn:E; [|discriminate].
    cbn in H. inversion H; subst. eapply wf2_add_context_rule; eauto.
  - destruct (update_context_rule_name a id name) as [[[a1 r1] l1]|] eqn:E; [|discriminate].
    cbn in H. inversion H; subst. eapply wf2_update_name; eauto.
  - destruct (update_context_rule_valid_until a now id valid) as [[[a1 r1] l1]|] eqn:E; [|discriminate].
    cbn in H. inversion H; subst. eapply wf2_update_valid; eauto.
  - destruct (remove_context_rule O a id) as [[a1 l1]|] eqn:E; [|discriminate].
    cbn in H. inversion H; subst. eapply wf2_remove_context_rule; eauto.
  - destruct (add_signer c a id s) as [[a1 l1]|] eqn:E; [|discriminate].
    cbn in H. inversion H; subst. eapply wf2_add_signer; eauto.
  - destruct (remove_signer c a id s) as [[a1 l1]|] eqn:E; [|discriminate].
    cbn in H. inversion H; subst. eapply wf2_remove_signer; eauto.
  - destruct (add_policy O c a id p param) as [[a1 l1]|] eqn:E; [|discriminate].
    cbn in H. inversion H; subst. eapply wf2_add_policy; eauto.
  - destruct (remove_policy O c a id p) as [[a1 l1]|] eqn:E; [|discriminate].
    cbn in H. inversion H; subst. eapply wf2_remove_policy; eauto.
Qed.

Lemma wf2_step c st cl : wf (s_acct st) -> wf2 c (s_acct st) -> wf2 c (s_acct (fst (step c st cl))).
Proof.
  intros W W2. destruct cl; cbn [step].
  - destruct (s_deployed st); [exact W2|].
    destruct (add_context_rule _ c (s_acct st) (s_now st) TDefault 0%N None signers policies) as [[[a1 r1] l1]|] eqn:E;
      cbn [fst s_acct]; [|exact W2]. eapply wf2_add_context_rule; eauto.
  - destruct ((0 <=? n) && in_u32 (s_now st + n)); exact W2.
  - exact W2.
  - destruct (negb (s_deployed st)); [exact W2|].
    destruct (do_check_auth _ (s_acct st) (s_now st) auths sigs [CCall self (fn_of op)]) as [l1|]; cbn [bind]; [|exact W2].
    destruct (run_op _ c (s_acct st) (s_now st) op) as [[[a1 ret] l2]|] eqn:E; cbn [bind fst]; [|exact W2].
    cbn [s_acct]. eapply wf2_run_op; eauto.
  - destruct (negb (s_deployed st)); [exact W2|]. destruct (do_check_auth _ _ _ _ _ _); exact W2.
  - destruct (negb (s_deployed st)); [exact W2|]. destruct (do_check_auth _ _ _ _ _ _); exact W2.
  - destruct (negb (s_deployed st)); [exact W2|]. destruct (do_check_auth _ _ _ _ _ _); [|exact W2].
    destruct ((1 <=? t) && (t <=? nsig)); exact W2.
Qed.

Lemma wf2_run c cs : forall st, swf st -> wf2 c (s_acct st) -> wf2 c (s_acct (run c st cs)).
Proof.
  induction cs as [|cl cs IH]; intros st S W2; [exact W2|]. cbn [run fold_left].
  apply IH; [apply swf_step; exact S|apply wf2_step; [apply S|exact W2]].
Qed.

Theorem limits_reachable c calls :
  let a := s_acct (run c init calls) in
  zlen (a_rules a) <= Z.max 0 (max_rules c) /\
  count_of a = zlen (a_rules a) /\
  (forall r, In r (a_rules a) ->
     NoDup (r_signers r) /\ NoDup (r_policies r) /\
     zlen (r_signers r) <= max_signers c /\ zlen (r_policies r) <= max_policies c /\
     (r_signers r <> [] \/ r_policies r <> [])) /\
  (forall r1 r2, In r1 (a_rules a) -> In r2 (a_rules a) ->
     r_type r1 = r_type r2 ->
     (forall s, In s (r_signers r1) <-> In s (r_signers r2)) ->
     (forall p, In p (r_policies r1) <-> In p (r_policies r2)) -> r1 = r2).
Proof.
  intros a. pose proof (wf2_run c calls init swf_init (wf2_acct0 c)) as W2. fold a in W2.
  split; [rewrite <- (w2_count c a W2); apply W2|]. split; [apply W2|]. split; [apply W2|].
  intros r1 r2 H1 H2 Ht Hs Hp. apply (w2_fps_inj c a W2 r1 r2 H1 H2). apply fp_eqb_iff. cbn. auto.
Qed.

(* no stored rule can be satisfied vacuously: a rule without policies names at least one signer *)
Corollary no_vacuous_rule c calls r :
  In r (a_rules (s_acct (run c init calls))) -> r_policies r = [] -> r_signers r <> [].
Proof.
  intros Hr Hp. destruct (limits_reachable c calls) as [_ [_ [H _]]].
  destruct (H r Hr) as [_ [_ [_ [_ [Hs|Hs]]]]]; [exact Hs|contradiction].
Qed.
