(* C15: the reference issuer - when it confirms a claim; nonce bumps; revocation;
   the key registry (a key is allowed for a topic iff a (topic, registry) pair is recorded). *)
From SC Require Import Lib.Prelude Lib.Int Lib.Host Model.ClaimIssuer Model.Identity
  Proofs.C15Base Proofs.C15Bytes.

(* ---------------- the reference issuer confirms iff ... ---------------- *)
Theorem issuer_iff c now self s d t scheme sig data :
  is_claim_valid c now self s d t scheme sig data = Ok tt <->
  exists sd ca vu p,
    extract_sig scheme sig = Ok sd /\
    is_key_allowed_for_topic s (sd_pk sd) scheme t = true /\
    decode_expiration data = Ok (ca, vu, p) /\ now < vu /\
    is_claim_revoked s d t data = false /\
    c_sigok c scheme (sd_pk sd)
      (build_claim_message (c_net c) (c_xdr c self) (c_xdr c d) t (get_current_nonce_for s d t) data)
      (sd_sig sd) (sd_rid sd) = true.
Proof.
  unfold is_claim_valid, is_claim_expired, claim_message. split.
  - intros H.
    apply bind_ok in H. destruct H as [sd [E1 H]].
    apply bind_ok in H. destruct H as [[] [E2 H]]. apply guard_ok in E2.
    apply bind_ok in H. destruct H as [ex [E3 H]].
    apply bind_ok in E3. destruct E3 as [[[ca vu] p] [E3 E3']]. inversion E3'. subst ex.
    apply bind_ok in H. destruct H as [[] [E4 H]]. apply guard_ok in E4.
    apply bind_ok in H. destruct H as [[] [E5 H]]. apply guard_ok in E5. apply guard_ok in H.
    exists sd, ca, vu, p. repeat split; auto.
    + apply negb_true_iff in E4. apply Z.leb_gt in E4. exact E4.
    + apply negb_true_iff in E5. exact E5.
  - intros [sd [ca [vu [p [E1 [E2 [E3 [E4 [E5 E6]]]]]]]]].
    rewrite E1. cbn [bind]. rewrite E2. cbn [guard bind]. rewrite E3. cbn [bind].
    assert (Hx : (vu <=? now) = false) by (apply Z.leb_gt; exact E4). rewrite Hx. cbn [negb guard bind].
    rewrite E5. cbn [negb guard bind]. rewrite E6. reflexivity.
Qed.

(* ---------------- nonce ---------------- *)
Lemma nonce_after_invalidate s s' d t :
  invalidate_claim_signatures s d t = Ok s' ->
  get_current_nonce_for s' d t = get_current_nonce_for s d t + 1 /\
  get_current_nonce_for s d t + 1 <= MAXU32 /\
  (forall d' t', (d', t') <> (d, t) -> get_current_nonce_for s' d' t' = get_current_nonce_for s d' t') /\
  is_topics s' = is_topics s /\ is_pairs s' = is_pairs s /\ is_revoked s' = is_revoked s.
Proof.
  unfold invalidate_claim_signatures, checked_add_u32, in_u32. intros H.
  destruct ((0 <=? get_current_nonce_for s d t + 1) && (get_current_nonce_for s d t + 1 <=? MAXU32)) eqn:E;
    cbn in H; [|discriminate].
  inversion H. subst s'. clear H. cbn [is_topics is_pairs is_revoked].
  apply andb_true_iff in E. destruct E as [_ E]. apply Z.leb_le in E.
  repeat split; auto.
  - unfold get_current_nonce_for at 1. cbn [is_nonce]. rewrite (aget_aset_eq _ nkey_eqb_spec). reflexivity.
  - intros d' t' Hn. unfold get_current_nonce_for. cbn [is_nonce].
    rewrite (aget_aset_neq _ nkey_eqb_spec) by exact Hn. reflexivity.
Qed.

(* The signature scheme accepts a signature for one message only (what unforgeability gives for
   signatures produced by honest signers; a hypothesis on the oracle, never used elsewhere). *)
Definition sig_binds_message (c : cfg) : Prop :=
  forall scheme pk m m' sg rid,
    c_sigok c scheme pk m sg rid = true -> c_sigok c scheme pk m' sg rid = true -> m = m'.

(* a claim confirmed under nonce n is rejected under every other nonce *)
Theorem other_nonce_rejects c now now' self s s' d t scheme sig data :
  sig_binds_message c ->
  0 <= get_current_nonce_for s d t <= MAXU32 -> 0 <= get_current_nonce_for s' d t <= MAXU32 ->
  get_current_nonce_for s' d t <> get_current_nonce_for s d t ->
  is_claim_valid c now self s d t scheme sig data = Ok tt ->
  is_claim_valid c now' self s' d t scheme sig data = Fail.
Proof.
  intros Hb Hn Hn' Hne H.
  destruct (is_claim_valid c now' self s' d t scheme sig data) as [[]|] eqn:E; auto. exfalso.
  apply issuer_iff in H. apply issuer_iff in E.
  destruct H as [sd [ca [vu [p [E1 [_ [_ [_ [_ E6]]]]]]]]].
  destruct E as [sd' [ca' [vu' [p' [F1 [_ [_ [_ [_ F6]]]]]]]]].
  rewrite E1 in F1. inversion F1. subst sd'.
  pose proof (Hb _ _ _ _ _ _ E6 F6) as Hm. unfold build_claim_message in Hm.
  apply app_inv_head in Hm. apply app_inv_head in Hm. apply app_inv_head in Hm. apply app_inv_head in Hm.
  apply app_inj_length in Hm; [|rewrite !be32_length; reflexivity]. destruct Hm as [Hm _].
  apply be32_inj in Hm; auto.
Qed.

Theorem nonce_bump_invalidates c now now' self s s' d t scheme sig data :
  sig_binds_message c ->
  0 <= get_current_nonce_for s d t ->
  invalidate_claim_signatures s d t = Ok s' ->
  is_claim_valid c now self s d t scheme sig data = Ok tt ->
  is_claim_valid c now' self s' d t scheme sig data = Fail.
Proof.
  intros Hb H0 Hi H. destruct (nonce_after_invalidate _ _ _ _ Hi) as [E [Hmax _]].
  eapply other_nonce_rejects; eauto; try lia.
Qed.

(* ---------------- revocation ---------------- *)
Lemma revoked_rejects c now self s d t scheme sig data :
  is_claim_revoked s d t data = true -> is_claim_valid c now self s d t scheme sig data = Fail.
Proof.
  intros Hr. destruct (is_claim_valid c now self s d t scheme sig data) as [[]|] eqn:E; auto.
  apply issuer_iff in E. destruct E as [sd [ca [vu [p [_ [_ [_ [_ [E5 _]]]]]]]]]. congruence.
Qed.
Lemma revoked_after_set s d t data r d' t' data' :
  is_claim_revoked (set_claim_revoked s d t data r) d' t' data' =
  if rkey_eqb (d', t', data') (d, t, data) then r else is_claim_revoked s d' t' data'.
Proof.
  unfold is_claim_revoked, set_claim_revoked. cbn [is_revoked].
  rewrite (aget_aset _ rkey_eqb_spec). destruct (rkey_eqb (d', t', data') (d, t, data)); reflexivity.
Qed.
(* the revocation flag does not depend on the nonce *)
Lemma revoked_after_invalidate s s' d0 t0 d t data :
  invalidate_claim_signatures s d0 t0 = Ok s' -> is_claim_revoked s' d t data = is_claim_revoked s d t data.
Proof.
  intros H. destruct (nonce_after_invalidate _ _ _ _ H) as [_ [_ [_ [_ [_ E]]]]].
  unfold is_claim_revoked. rewrite E. reflexivity.
Qed.

(* ---------------- key registry ---------------- *)
Definition pairs_of (s : issuer) (k : skey) : list treg :=
  match aget skey_eqb k (is_pairs s) with Some p => p | None => [] end.
Definition keys_of (s : issuer) (t : Z) : list skey :=
  match aget Z.eqb t (is_topics s) with Some ks => ks | None => [] end.

(* invariant: the Topics branch lists exactly the keys with a recorded (topic, registry) pair,
   without duplicates; stored vectors are never empty *)
Record keys_inv (s : issuer) : Prop := {
  ki_iff : forall t k, In k (keys_of s t) <-> exists r, In (t, r) (pairs_of s k);
  ki_nodup : forall t, NoDup (keys_of s t);
  ki_topics_nonempty : forall t, aget Z.eqb t (is_topics s) <> Some [];
  ki_pairs_nonempty : forall k, aget skey_eqb k (is_pairs s) <> Some [];
  ki_pairs_nodup : forall k, NoDup (pairs_of s k)
}.

Lemma allowed_iff_keys s pk scheme t :
  is_key_allowed_for_topic s pk scheme t = true <-> In (pk, scheme) (keys_of s t).
Proof.
  unfold is_key_allowed_for_topic, keys_of. destruct (aget Z.eqb t (is_topics s)).
  - apply existsb_eqb_In. exact skey_eqb_spec.
  - cbn. split; [discriminate | tauto].
Qed.

(* "a key currently allowed for the topic" = a key with a recorded pair for that topic *)
Theorem key_allowed_iff s pk scheme t : keys_inv s ->
  (is_key_allowed_for_topic s pk scheme t = true <-> exists r, In (t, r) (pairs_of s (pk, scheme))).
Proof. intros H. rewrite allowed_iff_keys. apply (ki_iff s H). Qed.

Lemma keys_inv_init : keys_inv issuer0.
Proof.
  constructor; unfold keys_of, pairs_of; cbn.
  - intros t k. split; [tauto | intros [r []]].
  - constructor.
  - discriminate.
  - discriminate.
  - constructor.
Qed.

Lemma treg_in_existsb (x : treg) l : existsb (treg_eqb x) l = true <-> In x l.
Proof. apply existsb_eqb_In. exact treg_eqb_spec. Qed.

Lemma pairs_of_after s s' k ps : is_pairs s' = aset skey_eqb k ps (is_pairs s) ->
  forall k', pairs_of s' k' = if skey_eqb k' k then ps else pairs_of s k'.
Proof.
  intros E k'. unfold pairs_of. rewrite E, (aget_aset _ skey_eqb_spec). destruct (skey_eqb k' k); reflexivity.
Qed.
Lemma keys_of_after s s' t ks : is_topics s' = aset Z.eqb t ks (is_topics s) ->
  forall t', keys_of s' t' = if t' =? t then ks else keys_of s t'.
Proof.
  intros E t'. unfold keys_of. rewrite E, (aget_aset _ Z_eqb_spec). destruct (t' =? t); reflexivity.
Qed.
Lemma keys_of_same s s' : is_topics s' = is_topics s -> forall t, keys_of s' t = keys_of s t.
Proof. intros E t. unfold keys_of. rewrite E. reflexivity. Qed.

Lemma keys_inv_allow c s pk registry scheme topic has s' :
  keys_inv s -> allow_key c s pk registry scheme topic has = Ok s' -> keys_inv s'.
Proof.
  intros Hi H. unfold allow_key in H.
  destruct (is_nil pk) eqn:Epk; [discriminate|].
  destruct has as [h|]; cbn [bind] in H; [|discriminate]. destruct h; cbn [negb] in H; [|discriminate].
  set (k := (pk, scheme)) in *. fold (pairs_of s k) in H. fold (keys_of s topic) in H.
  destruct (existsb (treg_eqb (topic, registry)) (pairs_of s k)) eqn:Edup.
  { destruct (is_key_allowed_for_topic s pk scheme topic);
      [|destruct (c_max_keys c <=? zlen (keys_of s topic))]; cbn [bind] in H; discriminate. }
  destruct (is_key_allowed_for_topic s pk scheme topic) eqn:Eal; cbn [bind] in H.
  - (* key already in the topic branch *)
    destruct (c_max_regs c <=? zlen (pairs_of s k)); [discriminate|].
    assert (E1 : is_topics s' = is_topics s) by (inversion H; reflexivity).
    assert (E2 : is_pairs s' = aset skey_eqb k (pairs_of s k ++ [(topic, registry)]) (is_pairs s)) by (inversion H; reflexivity).
    clear H. apply allowed_iff_keys in Eal. fold k in Eal.
    constructor.
    + intros t k'. rewrite (pairs_of_after _ _ _ _ E2), (keys_of_same _ _ E1).
      rewrite (ki_iff s Hi). destruct (skey_eqb k' k) eqn:Ek.
      * apply skey_eqb_spec in Ek. subst k'. split.
        -- intros [r Hr]. exists r. apply in_app_iff. left. exact Hr.
        -- intros [r Hr]. apply In_app_single in Hr. destruct Hr as [Hr|Hr]; [exists r; exact Hr|].
           inversion Hr. subst. apply (ki_iff s Hi). exact Eal.
      * tauto.
    + intros t. rewrite (keys_of_same _ _ E1). apply (ki_nodup s Hi).
    + intros t. rewrite E1. apply (ki_topics_nonempty s Hi).
    + intros k'. rewrite E2, (aget_aset _ skey_eqb_spec). destruct (skey_eqb k' k).
      * intros E. inversion E. destruct (pairs_of s k); discriminate.
      * apply (ki_pairs_nonempty s Hi).
    + intros k'. rewrite (pairs_of_after _ _ _ _ E2). destruct (skey_eqb k' k); [|apply (ki_pairs_nodup s Hi)].
      apply NoDup_app_single; [apply (ki_pairs_nodup s Hi)|]. intros Hx. apply treg_in_existsb in Hx. congruence.
  - (* key appended to the topic branch *)
    destruct (c_max_keys c <=? zlen (keys_of s topic)); cbn [bind] in H; [discriminate|].
    destruct (c_max_regs c <=? zlen (pairs_of s k)); [discriminate|].
    assert (E1 : is_topics s' = aset Z.eqb topic (keys_of s topic ++ [k]) (is_topics s)) by (inversion H; reflexivity).
    assert (E2 : is_pairs s' = aset skey_eqb k (pairs_of s k ++ [(topic, registry)]) (is_pairs s)) by (inversion H; reflexivity).
    clear H.
    assert (Hnk : ~ In k (keys_of s topic)).
    { intros Hin. apply allowed_iff_keys in Hin. fold k in Hin. unfold k in Hin. congruence. }
    constructor.
    + intros t k'. rewrite (keys_of_after _ _ _ _ E1), (pairs_of_after _ _ _ _ E2).
      destruct (t =? topic) eqn:Et; destruct (skey_eqb k' k) eqn:Ek.
      * apply Z.eqb_eq in Et. apply skey_eqb_spec in Ek. subst. split.
        -- intros _. exists registry. apply In_app_single. right. reflexivity.
        -- intros _. apply In_app_single. right. reflexivity.
      * apply Z.eqb_eq in Et. subst t. rewrite In_app_single, (ki_iff s Hi). split.
        -- intros [Hx|Hx]; [exact Hx|]. subst k'. rewrite (eqb_refl_of _ skey_eqb_spec) in Ek. discriminate.
        -- intros Hx. left. exact Hx.
      * apply skey_eqb_spec in Ek. subst k'. apply Z.eqb_neq in Et. rewrite (ki_iff s Hi). split.
        -- intros [r Hr]. exists r. apply in_app_iff. left. exact Hr.
        -- intros [r Hr]. apply In_app_single in Hr. destruct Hr as [Hr|Hr]; [exists r; exact Hr|].
           inversion Hr. congruence.
      * apply (ki_iff s Hi).
    + intros t. rewrite (keys_of_after _ _ _ _ E1). destruct (t =? topic).
      * apply NoDup_app_single; [apply (ki_nodup s Hi) | exact Hnk].
      * apply (ki_nodup s Hi).
    + intros t. rewrite E1, (aget_aset _ Z_eqb_spec). destruct (t =? topic).
      * intros E. inversion E. destruct (keys_of s topic); discriminate.
      * apply (ki_topics_nonempty s Hi).
    + intros k'. rewrite E2, (aget_aset _ skey_eqb_spec). destruct (skey_eqb k' k).
      * intros E. inversion E. destruct (pairs_of s k); discriminate.
      * apply (ki_pairs_nonempty s Hi).
    + intros k'. rewrite (pairs_of_after _ _ _ _ E2). destruct (skey_eqb k' k); [|apply (ki_pairs_nodup s Hi)].
      apply NoDup_app_single; [apply (ki_pairs_nodup s Hi)|]. intros Hx. apply treg_in_existsb in Hx. congruence.
Qed.

Lemma is_nil_true {A} (l : list A) : is_nil l = true <-> l = [].
Proof. destruct l; cbn; split; intros; congruence. Qed.

Lemma keys_inv_remove s pk registry scheme topic s' :
  keys_inv s -> remove_key s pk registry scheme topic = Ok s' -> keys_inv s'.
Proof.
  intros Hi H. unfold remove_key in H. set (k := (pk, scheme)) in *.
  apply bind_ok in H. destruct H as [pairs [Ep H]]. apply of_option_ok in Ep.
  apply bind_ok in H. destruct H as [pairs' [Er H]]. apply of_option_ok in Er.
  assert (Hpo : pairs_of s k = pairs) by (unfold pairs_of; rewrite Ep; reflexivity).
  (* the new Pairs branch *)
  set (ps' := if is_nil pairs' then aremove skey_eqb k (is_pairs s) else aset skey_eqb k pairs' (is_pairs s)) in *.
  assert (Hps' : forall k', (match aget skey_eqb k' ps' with Some p => p | None => [] end)
                          = if skey_eqb k' k then pairs' else pairs_of s k').
  { intros k'. unfold ps', pairs_of. destruct (is_nil pairs') eqn:En.
    - apply is_nil_true in En. rewrite (aget_aremove _ skey_eqb_spec). destruct (skey_eqb k' k); auto.
    - rewrite (aget_aset _ skey_eqb_spec). destruct (skey_eqb k' k); auto. }
  assert (Hps_ne : forall k', aget skey_eqb k' ps' <> Some []).
  { intros k'. unfold ps'. destruct (is_nil pairs') eqn:En.
    - rewrite (aget_aremove _ skey_eqb_spec). destruct (skey_eqb k' k); [discriminate | apply (ki_pairs_nonempty s Hi)].
    - rewrite (aget_aset _ skey_eqb_spec). destruct (skey_eqb k' k); [|apply (ki_pairs_nonempty s Hi)].
      intros E. inversion E. subst. discriminate. }
  assert (Hsub : forall x, In x pairs' -> In x pairs) by (apply (remove_first_incl _ _ _ _ Er)).
  assert (Hpnd : forall k', NoDup (match aget skey_eqb k' ps' with Some p => p | None => [] end)).
  { intros k'. rewrite Hps'. destruct (skey_eqb k' k); [|apply (ki_pairs_nodup s Hi)].
    apply (remove_first_NoDup _ treg_eqb_spec (topic, registry) pairs pairs'); [|exact Er].
    rewrite <- Hpo. apply (ki_pairs_nodup s Hi). }
  destruct (existsb (fun p : Z * addr => fst p =? topic) pairs') eqn:Ex.
  - (* another pair of the same topic remains: Topics unchanged *)
    assert (E1 : is_topics s' = is_topics s) by (inversion H; reflexivity).
    assert (E2 : is_pairs s' = ps') by (inversion H; reflexivity).
    clear H.
    apply existsb_exists in Ex. destruct Ex as [[t0 r0] [Hin0 Et0]]. cbn in Et0. apply Z.eqb_eq in Et0. subst t0.
    constructor.
    + intros t k'. rewrite (keys_of_same _ _ E1). unfold pairs_of at 1. rewrite E2, Hps'.
      rewrite (ki_iff s Hi). destruct (skey_eqb k' k) eqn:Ek; [|tauto].
      apply skey_eqb_spec in Ek. subst k'. rewrite Hpo. split.
      * intros [r Hr]. destruct (Z.eq_dec t topic) as [->|Hne].
        -- exists r0. exact Hin0.
        -- exists r. destruct (treg_eqb_spec (topic, registry) (t, r)) as [_ Hx].
           (* (t, r) differs from the removed pair, so it is still there *)
           clear Hx. revert Er Hr. clear -Hne. revert pairs'.
           induction pairs as [|y q IH]; cbn; intros pairs' Er Hr; [destruct Hr|].
           destruct (treg_eqb (topic, registry) y) eqn:Ey.
           ++ apply treg_eqb_spec in Ey. subst y. inversion Er. subst. destruct Hr as [Hr|Hr]; [inversion Hr; congruence | exact Hr].
           ++ destruct (remove_first (treg_eqb (topic, registry)) q) eqn:Rq; [|discriminate]. inversion Er. subst pairs'.
              destruct Hr as [->|Hr]; [left; reflexivity | right; apply (IH l eq_refl Hr)].
      * intros [r Hr]. exists r. apply Hsub. exact Hr.
    + intros t. rewrite (keys_of_same _ _ E1). apply (ki_nodup s Hi).
    + intros t. rewrite E1. apply (ki_topics_nonempty s Hi).
    + rewrite E2. exact Hps_ne.
    + intros k'. unfold pairs_of. rewrite E2. apply Hpnd.
  - (* no pair of this topic remains: the key leaves the topic branch *)
    apply bind_ok in H. destruct H as [ks [Ek H]]. apply of_option_ok in Ek.
    apply bind_ok in H. destruct H as [ks' [Ekr H]]. apply of_option_ok in Ekr.
    assert (E1 : is_topics s' = if is_nil ks' then aremove Z.eqb topic (is_topics s) else aset Z.eqb topic ks' (is_topics s)) by (inversion H; reflexivity).
    assert (E2 : is_pairs s' = ps') by (inversion H; reflexivity).
    clear H.
    assert (Hko : keys_of s topic = ks) by (unfold keys_of; rewrite Ek; reflexivity).
    assert (Hnd : NoDup ks) by (rewrite <- Hko; apply (ki_nodup s Hi)).
    assert (Hks' : forall t, (match aget Z.eqb t (if is_nil ks' then aremove Z.eqb topic (is_topics s) else aset Z.eqb topic ks' (is_topics s))
                               with Some x => x | None => [] end) = if t =? topic then ks' else keys_of s t).
    { intros t. unfold keys_of. destruct (is_nil ks') eqn:En.
      - apply is_nil_true in En. rewrite (aget_aremove _ Z_eqb_spec). destruct (t =? topic); auto.
      - rewrite (aget_aset _ Z_eqb_spec). destruct (t =? topic); auto. }
    assert (Hno : forall r, ~ In (topic, r) pairs').
    { intros r Hr. assert (existsb (fun p : Z * addr => fst p =? topic) pairs' = true); [|congruence].
      apply existsb_exists. exists (topic, r). split; auto. cbn. apply Z.eqb_refl. }
    constructor.
    + intros t k'. unfold keys_of at 1. unfold pairs_of at 1. rewrite E1, E2, Hks', Hps'.
      destruct (t =? topic) eqn:Et; destruct (skey_eqb k' k) eqn:Ekk.
      * apply Z.eqb_eq in Et. apply skey_eqb_spec in Ekk. subst t k'. split.
        -- intros Hin. apply (remove_first_In_nodup _ skey_eqb_spec k ks ks' Hnd Ekr) in Hin. destruct Hin. congruence.
        -- intros [r Hr]. exfalso. apply (Hno r Hr).
      * apply Z.eqb_eq in Et. subst t.
        rewrite (remove_first_In_nodup _ skey_eqb_spec k ks ks' Hnd Ekr), <- Hko, (ki_iff s Hi). split.
        -- intros [Hx _]. exact Hx.
        -- intros Hx. split; auto. intros ->. rewrite (eqb_refl_of _ skey_eqb_spec) in Ekk. discriminate.
      * apply skey_eqb_spec in Ekk. subst k'. apply Z.eqb_neq in Et. rewrite (ki_iff s Hi), Hpo. split.
        -- intros [r Hr]. exists r.
           revert Er Hr. clear -Et. revert pairs'.
           induction pairs as [|y q IH]; cbn; intros pairs' Er Hr; [destruct Hr|].
           destruct (treg_eqb (topic, registry) y) eqn:Ey.
           ++ apply treg_eqb_spec in Ey. subst y. inversion Er. subst. destruct Hr as [Hr|Hr]; [inversion Hr; congruence | exact Hr].
           ++ destruct (remove_first (treg_eqb (topic, registry)) q) eqn:Rq; [|discriminate]. inversion Er. subst pairs'.
              destruct Hr as [->|Hr]; [left; reflexivity | right; apply (IH l eq_refl Hr)].
        -- intros [r Hr]. exists r. apply Hsub. exact Hr.
      * apply (ki_iff s Hi).
    + intros t. unfold keys_of at 1. rewrite E1, Hks'. destruct (t =? topic).
      * apply (remove_first_NoDup _ skey_eqb_spec k ks ks' Hnd Ekr).
      * apply (ki_nodup s Hi).
    + intros t. rewrite E1. destruct (is_nil ks') eqn:En.
      * rewrite (aget_aremove _ Z_eqb_spec). destruct (t =? topic); [discriminate | apply (ki_topics_nonempty s Hi)].
      * rewrite (aget_aset _ Z_eqb_spec). destruct (t =? topic); [|apply (ki_topics_nonempty s Hi)].
        intros E. inversion E. subst. discriminate.
    + rewrite E2. exact Hps_ne.
    + intros k'. unfold pairs_of. rewrite E2. apply Hpnd.
Qed.

(* what allow_key / remove_key do to the recorded pairs *)
Lemma allow_key_pairs c s pk registry scheme topic has s' : allow_key c s pk registry scheme topic has = Ok s' ->
  forall k', pairs_of s' k' = if skey_eqb k' (pk, scheme) then pairs_of s (pk, scheme) ++ [(topic, registry)] else pairs_of s k'.
Proof.
  intros H. apply pairs_of_after. unfold allow_key in H.
  destruct (is_nil pk); [discriminate|]. destruct has as [[]|]; cbn [bind negb] in H; try discriminate.
  fold (pairs_of s (pk, scheme)) in H. fold (keys_of s topic) in H.
  destruct (is_key_allowed_for_topic s pk scheme topic); cbn [bind] in H.
  - destruct (existsb _ _); [discriminate|]. destruct (_ <=? _); [discriminate|]. inversion H. reflexivity.
  - destruct (c_max_keys c <=? _); cbn [bind] in H; [discriminate|].
    destruct (existsb _ _); [discriminate|]. destruct (_ <=? _); [discriminate|]. inversion H. reflexivity.
Qed.
Lemma remove_key_pairs s pk registry scheme topic s' : keys_inv s -> remove_key s pk registry scheme topic = Ok s' ->
  forall k' x, In x (pairs_of s' k') <->
    (In x (pairs_of s k') /\ ~ (k' = (pk, scheme) /\ x = (topic, registry))).
Proof.
  intros Hi H k' x. unfold remove_key in H. set (k := (pk, scheme)) in *.
  apply bind_ok in H. destruct H as [pairs [Ep H]]. apply of_option_ok in Ep.
  apply bind_ok in H. destruct H as [pairs' [Er H]]. apply of_option_ok in Er.
  assert (Hpo : pairs_of s k = pairs) by (unfold pairs_of; rewrite Ep; reflexivity).
  assert (E2 : is_pairs s' = if is_nil pairs' then aremove skey_eqb k (is_pairs s) else aset skey_eqb k pairs' (is_pairs s)).
  { destruct (existsb (fun p : Z * addr => fst p =? topic) pairs'); [inversion H; reflexivity|].
    apply bind_ok in H. destruct H as [ks [_ H]]. apply bind_ok in H. destruct H as [ks' [_ H]]. inversion H. reflexivity. }
  assert (Hp' : pairs_of s' k' = if skey_eqb k' k then pairs' else pairs_of s k').
  { unfold pairs_of. rewrite E2. destruct (is_nil pairs') eqn:En.
    - apply is_nil_true in En. rewrite (aget_aremove _ skey_eqb_spec). destruct (skey_eqb k' k); auto.
    - rewrite (aget_aset _ skey_eqb_spec). destruct (skey_eqb k' k); auto. }
  rewrite Hp'. destruct (skey_eqb k' k) eqn:Ek.
  - apply skey_eqb_spec in Ek. subst k'. rewrite Hpo.
    assert (Hnd : NoDup pairs) by (rewrite <- Hpo; apply (ki_pairs_nodup s Hi)).
    rewrite (remove_first_In_nodup _ treg_eqb_spec (topic, registry) pairs pairs' Hnd Er). split.
    + intros [Hx Hn]. split; [exact Hx|]. intros [_ Hy]. contradiction.
    + intros [Hx Hn]. split; [exact Hx|]. intros Hy. apply Hn. split; [reflexivity | exact Hy].
  - apply (eqb_false_of _ skey_eqb_spec) in Ek. split; [intros Hx; split; auto; intros [Hy _]; contradiction | tauto].
Qed.

(* with the invariant, remove_key fails only when the (topic, registry) pair is not recorded:
   the two `expect`s of the code cannot fire *)
Lemma remove_key_ok_iff s pk registry scheme topic : keys_inv s ->
  (is_ok (remove_key s pk registry scheme topic) = true <-> In (topic, registry) (pairs_of s (pk, scheme))).
Proof.
  intros Hi. unfold remove_key, pairs_of. set (k := (pk, scheme)).
  destruct (aget skey_eqb k (is_pairs s)) as [pairs|] eqn:Ep; cbn [of_option bind]; [|cbn; split; [discriminate|tauto]].
  destruct (remove_first (treg_eqb (topic, registry)) pairs) as [pairs'|] eqn:Er; cbn [of_option bind].
  - pose proof (remove_first_some_In _ treg_eqb_spec _ _ _ Er) as Hin. split; [intros _; exact Hin|]. intros _.
    destruct (existsb (fun p : Z * addr => fst p =? topic) pairs'); [reflexivity|].
    assert (Hk : In k (keys_of s topic)).
    { apply (ki_iff s Hi). exists registry. unfold pairs_of. rewrite Ep. exact Hin. }
    unfold keys_of in Hk. destruct (aget Z.eqb topic (is_topics s)) as [ks|]; [|destruct Hk]. cbn [of_option bind].
    destruct (remove_first (skey_eqb k) ks) eqn:Ek; [reflexivity|].
    apply (remove_first_none _ skey_eqb_spec) in Ek. contradiction.
  - apply (remove_first_none _ treg_eqb_spec) in Er. cbn. split; [discriminate | intros; contradiction].
Qed.
