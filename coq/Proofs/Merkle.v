(* C17: theory of Merkle proof verification for an arbitrary digest type and hash,
   under explicit hypotheses (Section variables, never axioms):
     H_inj      : the pair hash is injective
     leaf_node  : the values allowed as tree leaves ([leafp]) are never pair hashes
     gtb_*      : the byte order is a strict total order (sorted form only)
   Proofs/MerkleInst.v shows the hypotheses are satisfiable (free term algebra). *)
From SC Require Import Lib.Prelude Lib.Int Lib.Host Model.Merkle.

Lemma fold_left_app_one {A B} (f : A -> B -> A) l x a :
  fold_left f (l ++ [x]) a = f (fold_left f l a) x.
Proof. rewrite fold_left_app. reflexivity. Qed.

(* ------------------------------------------------------------------ *)
(* generic facts about trees, paths and honest proofs (any pair function) *)
Section Trees.
  Variable D : Type.
  Variable hp : D -> D -> D.

  Definition bitz (b : bool) : Z := if b then 1 else 0.

  Lemma index_of_acc : forall path acc,
    fold_left (fun a (b : bool) => 2 * a + (if b then 1 else 0)) path acc
    = acc * 2 ^ Z.of_nat (length path) + index_of path.
  Proof.
    unfold index_of. induction path as [|b q IH]; intros acc; cbn [fold_left length].
    - change (2 ^ Z.of_nat 0) with 1. lia.
    - rewrite IH. rewrite (IH (2 * 0 + _)). rewrite Nat2Z.inj_succ, Z.pow_succ_r by lia. lia.
  Qed.

  Lemma index_of_cons b q : index_of (b :: q) = bitz b * 2 ^ Z.of_nat (length q) + index_of q.
  Proof.
    unfold index_of at 1. cbn [fold_left]. rewrite index_of_acc. unfold bitz. destruct b; lia.
  Qed.

  Lemma index_of_snoc q b : index_of (q ++ [b]) = 2 * index_of q + bitz b.
  Proof. unfold index_of. rewrite fold_left_app_one. unfold bitz. reflexivity. Qed.

  Lemma index_of_bound path : 0 <= index_of path < 2 ^ Z.of_nat (length path).
  Proof.
    induction path as [|b q IH] using rev_ind.
    - cbn. lia.
    - rewrite index_of_snoc, app_length. cbn [length]. rewrite Nat.add_1_r, Nat2Z.inj_succ, Z.pow_succ_r by lia.
      unfold bitz. destruct b; lia.
  Qed.

  Lemma lookup_app : forall path1 (t : tree D) path2,
    lookup t (path1 ++ path2) = match lookup t path1 with Some s => lookup s path2 | None => None end.
  Proof.
    induction path1 as [|b q IH]; intros t path2; cbn [app lookup]; [reflexivity|].
    destruct t as [d|l r]; [reflexivity|]. apply IH.
  Qed.

  Lemma proof_of_length : forall path (t : tree D) s,
    lookup t path = Some s -> length (proof_of hp t path) = length path.
  Proof.
    induction path as [|b q IH]; intros t s Hl; cbn [proof_of length]; [reflexivity|].
    destruct t as [d|l r]; cbn [lookup] in Hl; [discriminate|].
    rewrite app_length. cbn [length]. rewrite (IH _ _ Hl). lia.
  Qed.

  Lemma proof_of_snoc : forall path (t : tree D) l r b,
    lookup t path = Some (Nd l r) ->
    proof_of hp t (path ++ [b]) = troot hp (if b then l else r) :: proof_of hp t path.
  Proof.
    induction path as [|c q IH]; intros t l r b Hl.
    - cbn [lookup] in Hl. inversion Hl; subst. cbn. destruct b; reflexivity.
    - destruct t as [d|tl tr]; cbn [lookup] in Hl; [discriminate|].
      cbn [app proof_of]. rewrite (IH _ _ _ _ Hl). reflexivity.
  Qed.

  Lemma lookup_snoc : forall path (t : tree D) l r b,
    lookup t path = Some (Nd l r) -> lookup t (path ++ [b]) = Some (if b then r else l).
  Proof. intros. rewrite lookup_app, H. reflexivity. Qed.

  (* leaves of a subtree are leaves of the tree *)
  Lemma lookup_leaves : forall path (t s : tree D), lookup t path = Some s ->
    forall d, In d (leaves s) -> In d (leaves t).
  Proof.
    induction path as [|b q IH]; intros t s Hl d Hd.
    - inversion Hl; subst; exact Hd.
    - destruct t as [x|l r]; cbn [lookup] in Hl; [discriminate|].
      cbn [leaves]. apply in_or_app. destruct b; [right|left]; eapply IH; eauto.
  Qed.

  (* two different paths to the same leaf value: the leaf list has a duplicate *)
  Lemma lookup_leaf_in : forall path (t : tree D) d, lookup t path = Some (Lf d) -> In d (leaves t).
  Proof. intros. eapply lookup_leaves; eauto. cbn. auto. Qed.

  Lemma nodup_app_l {A} (l1 l2 : list A) : NoDup (l1 ++ l2) -> NoDup l1.
  Proof. induction l1; cbn; intros Hn; [constructor|]. inversion Hn; subst. constructor; [rewrite in_app_iff in *; tauto|auto]. Qed.
  Lemma nodup_app_r {A} (l1 l2 : list A) : NoDup (l1 ++ l2) -> NoDup l2.
  Proof. induction l1; cbn; intros Hn; [exact Hn|]. inversion Hn; auto. Qed.
  Lemma nodup_app_disj {A} (l1 l2 : list A) x : NoDup (l1 ++ l2) -> In x l1 -> In x l2 -> False.
  Proof.
    induction l1; cbn; intros Hn H1 H2; [contradiction|]. inversion Hn; subst.
    destruct H1 as [->|H1]; [apply H3, in_or_app; auto|eauto].
  Qed.

  Lemma lookup_leaf_unique : forall path1 path2 (t : tree D) d,
    NoDup (leaves t) ->
    lookup t path1 = Some (Lf d) -> lookup t path2 = Some (Lf d) -> path1 = path2.
  Proof.
    induction path1 as [|b q IH]; intros path2 t d Hn H1 H2.
    - cbn in H1. inversion H1; subst. destruct path2; [reflexivity|discriminate].
    - destruct t as [x|l r]; cbn [lookup] in H1; [discriminate|].
      destruct path2 as [|b2 q2]; [cbn in H2; discriminate|]. cbn [lookup] in H2. cbn [leaves] in Hn.
      destruct b, b2.
      + f_equal. eapply IH; eauto using nodup_app_r.
      + exfalso. eapply nodup_app_disj; eauto using lookup_leaf_in.
      + exfalso. eapply nodup_app_disj; eauto using lookup_leaf_in.
      + f_equal. eapply IH; eauto using nodup_app_l.
  Qed.

  (* ---- the enumeration [nodes] is exactly the set of (node, honest proof, position) ---- *)
  Lemma nodes_complete : forall path (t s : tree D), lookup t path = Some s ->
    In (troot hp s, proof_of hp t path, index_of path) (nodes hp t).
  Proof.
    induction path as [|b q IH]; intros t s Hl.
    - cbn in Hl. inversion Hl; subst. destruct s; cbn; auto.
    - destruct t as [x|l r]; cbn [lookup] in Hl; [discriminate|].
      cbn [nodes proof_of]. right. apply in_or_app. rewrite index_of_cons.
      destruct b; [right|left]; apply in_map_iff.
      + exists (troot hp s, proof_of hp r q, index_of q). split; [|apply IH; exact Hl].
        cbn [fst snd]. rewrite (proof_of_length _ _ _ Hl). unfold bitz. f_equal; lia.
      + exists (troot hp s, proof_of hp l q, index_of q). split; [|apply IH; exact Hl].
        cbn [fst snd]. unfold bitz. f_equal; lia.
  Qed.

  Lemma nodes_sound : forall (t : tree D) v p i, In (v, p, i) (nodes hp t) ->
    exists path s, lookup t path = Some s /\ troot hp s = v /\ proof_of hp t path = p /\ index_of path = i.
  Proof.
    induction t as [d|l IHl r IHr]; intros v p i Hin.
    - cbn in Hin. destruct Hin as [E|[]]. inversion E. exists [], (Lf d). subst. cbn. auto.
    - cbn [nodes] in Hin. destruct Hin as [E|Hin].
      + inversion E; subst. exists [], (Nd l r). cbn. auto.
      + apply in_app_or in Hin. destruct Hin as [Hin|Hin]; apply in_map_iff in Hin; destruct Hin as [[[v0 p0] i0] [E Hin]];
          cbn [fst snd] in E; inversion E; subst; clear E.
        * destruct (IHl _ _ _ Hin) as (path & s & Hl & Hv & Hp & Hi).
          exists (false :: path), s. cbn [lookup proof_of]. rewrite index_of_cons. unfold bitz. subst. repeat split; auto; lia.
        * destruct (IHr _ _ _ Hin) as (path & s & Hl & Hv & Hp & Hi).
          exists (true :: path), s. cbn [lookup proof_of]. rewrite index_of_cons. unfold bitz.
          subst. rewrite (proof_of_length _ _ _ Hl). repeat split; auto; lia.
  Qed.

  Lemma quads_go_spec : forall t : tree D, quads_go hp t = (troot hp t, nodes hp t, quads hp t).
  Proof.
    induction t as [d|l IHl r IHr]; [reflexivity|].
    cbn [quads_go]. rewrite IHl, IHr. cbn [troot nodes quads]. reflexivity.
  Qed.

  (* members of [quads t]: (root of a subtree of t, node of that subtree, its proof, its position) *)
  Lemma quads_sound : forall (t : tree D) r v p i, In (r, (v, p, i)) (quads hp t) ->
    exists path0 t0 path s, lookup t path0 = Some t0 /\ troot hp t0 = r /\
      lookup t0 path = Some s /\ troot hp s = v /\ proof_of hp t0 path = p /\ index_of path = i.
  Proof.
    induction t as [d|l IHl r0 IHr]; intros r v p i Hin; cbn [quads] in Hin; apply in_app_or in Hin; destruct Hin as [Hin|Hin].
    - apply in_map_iff in Hin. destruct Hin as [[[v0 p0] i0] [E Hin]]. inversion E.
      destruct (nodes_sound _ _ _ _ Hin) as (path & s & ?). exists [], (Lf d), path, s. subst. cbn [lookup troot]. tauto.
    - destruct Hin.
    - apply in_map_iff in Hin. destruct Hin as [[[v0 p0] i0] [E Hin]]. inversion E.
      destruct (nodes_sound _ _ _ _ Hin) as (path & s & ?). exists [], (Nd l r0), path, s. subst. cbn [lookup troot]. tauto.
    - apply in_app_or in Hin. destruct Hin as [Hin|Hin].
      + destruct (IHl _ _ _ _ Hin) as (path0 & t0 & path & s & Hl & ?). exists (false :: path0), t0, path, s. cbn [lookup]. tauto.
      + destruct (IHr _ _ _ _ Hin) as (path0 & t0 & path & s & Hl & ?). exists (true :: path0), t0, path, s. cbn [lookup]. tauto.
  Qed.

  Lemma quads_complete : forall path0 (t t0 : tree D) path s,
    lookup t path0 = Some t0 -> lookup t0 path = Some s ->
    In (troot hp t0, (troot hp s, proof_of hp t0 path, index_of path)) (quads hp t).
  Proof.
    induction path0 as [|b q IH]; intros t t0 path s H0 Hl.
    - cbn in H0. inversion H0; subst. destruct t0; cbn [quads]; apply in_or_app; left; apply in_map; apply nodes_complete; exact Hl.
    - destruct t as [x|l r]; cbn [lookup] in H0; [discriminate|].
      cbn [quads]. apply in_or_app; right. apply in_or_app. destruct b; [right|left]; eapply IH; eauto.
  Qed.
End Trees.

Arguments bitz b : simpl never.

(* ------------------------------------------------------------------ *)
Section Theory.
  Variable D : Type.
  Variable deqb : D -> D -> bool.
  Variable H : D -> D -> D.
  Variable gtb : D -> D -> bool.
  Hypothesis deqb_spec : forall a b, deqb a b = true <-> a = b.
  Hypothesis H_inj : forall a b c d, H a b = H c d -> a = c /\ b = d.

  Notation cp := (cpair H gtb).

  Lemma deqb_refl a : deqb a a = true.
  Proof. apply deqb_spec. reflexivity. Qed.

  (* ============ positional form ============ *)
  Section Indexed.
    (* values allowed as leaves of a tree: never the hash of a pair *)
    Variable leafp : D -> Prop.
    Hypothesis leaf_node : forall a b, ~ leafp (H a b).

    Definition wf_tree (t : tree D) : Prop := Forall leafp (leaves t).

    Lemma wf_lookup : forall path t s, wf_tree t -> lookup t path = Some s -> wf_tree s.
    Proof.
      unfold wf_tree. intros path t s Hw Hl. rewrite Forall_forall in *. intros d Hd.
      apply Hw. eapply lookup_leaves; eauto.
    Qed.

    Lemma iclimb_cons v i h p : iclimb H v i (h :: p) =
      iclimb H (if Z.even i then H v h else H h v) (i / 2) p.
    Proof. reflexivity. Qed.

    Lemma iclimb_snoc v i p h : iclimb H v i (p ++ [h]) = istep H (iclimb H v i p) h.
    Proof. unfold iclimb. apply fold_left_app_one. Qed.

    (* completeness: the honest proof climbs from the node to the root, consuming
       exactly the position bits *)
    Lemma iclimb_honest : forall path t s, lookup t path = Some s -> forall hi, 0 <= hi ->
      iclimb H (troot H s) (hi * 2 ^ Z.of_nat (length path) + index_of path) (proof_of H t path)
      = (troot H t, hi).
    Proof.
      induction path as [|b q IH]; intros t s Hl hi Hhi.
      - cbn in Hl. inversion Hl; subst. cbn. f_equal. change (2 ^ 0) with 1. unfold index_of. cbn. lia.
      - destruct t as [x|l r]; cbn [lookup] in Hl; [discriminate|].
        cbn [proof_of]. rewrite iclimb_snoc. rewrite index_of_cons. cbn [length].
        rewrite Nat2Z.inj_succ, Z.pow_succ_r by lia.
        replace (hi * (2 * 2 ^ Z.of_nat (length q)) + (bitz b * 2 ^ Z.of_nat (length q) + index_of q))
          with ((2 * hi + bitz b) * 2 ^ Z.of_nat (length q) + index_of q) by lia.
        rewrite (IH _ _ Hl) by (unfold bitz; destruct b; lia).
        unfold istep. cbn [fst snd troot]. unfold bitz. destruct b.
        + replace (Z.even (2 * hi + 1)) with false
            by (replace (2 * hi + 1) with (1 + 2 * hi) by lia; rewrite Z.even_add_mul_2; reflexivity).
          replace ((2 * hi + 1) / 2) with hi
            by (replace (2 * hi + 1) with (1 + hi * 2) by lia; rewrite Z.div_add by lia; reflexivity).
          reflexivity.
        + replace (Z.even (2 * hi + 0)) with true
            by (replace (2 * hi + 0) with (0 + 2 * hi) by lia; rewrite Z.even_add_mul_2; reflexivity).
          replace ((2 * hi + 0) / 2) with hi
            by (replace (2 * hi + 0) with (0 + hi * 2) by lia; rewrite Z.div_add by lia; reflexivity).
          reflexivity.
    Qed.

    Theorem complete_indexed : forall t path s,
      lookup t path = Some s -> (length path < 32)%nat ->
      verify_with_index deqb H (proof_of H t path) (troot H t) (troot H s) (index_of path) = Ok true.
    Proof.
      intros t path s Hl Hlen. unfold verify_with_index.
      rewrite (proof_of_length _ _ _ _ _ Hl).
      destruct (32 <=? Z.of_nat (length path)) eqn:E1; [lia|].
      pose proof (index_of_bound path) as Hb.
      destruct (2 ^ Z.of_nat (length path) <=? index_of path) eqn:E2; [lia|].
      pose proof (iclimb_honest _ _ _ Hl 0 ltac:(lia)) as Hc.
      replace (0 * 2 ^ Z.of_nat (length path) + index_of path) with (index_of path) in Hc by lia.
      rewrite Hc. cbn [fst]. rewrite deqb_refl. reflexivity.
    Qed.

    (* soundness: whatever climbs to the root of a well-formed tree is a node of that tree,
       with the honest proof, and the low |p| bits of the index are its position *)
    Lemma iclimb_sound : forall t, wf_tree t -> forall p v i, 0 <= i ->
      fst (iclimb H v i p) = troot H t ->
      exists path s, lookup t path = Some s /\ troot H s = v /\ proof_of H t path = p /\
        i = snd (iclimb H v i p) * 2 ^ Z.of_nat (length p) + index_of path.
    Proof.
      intros t Hw. induction p as [|h p IH]; intros v i Hi Hc.
      - cbn in Hc. exists [], t. cbn. repeat split; auto. change (2 ^ 0) with 1. unfold index_of. cbn. lia.
      - rewrite iclimb_cons in Hc |- *.
        assert (Hi2 : 0 <= i / 2) by (apply Z.div_pos; lia).
        destruct (IH _ _ Hi2 Hc) as (path & s & Hl & Hv & Hp & Hidx).
        pose proof (wf_lookup _ _ _ Hw Hl) as Hws.
        destruct s as [d|l r].
        { exfalso. cbn [troot] in Hv. unfold wf_tree in Hws. cbn [leaves] in Hws.
          apply Forall_inv in Hws. rewrite Hv in Hws. destruct (Z.even i); eapply leaf_node; exact Hws. }
        cbn [troot] in Hv. cbn [length]. rewrite Nat2Z.inj_succ, Z.pow_succ_r by lia.
        set (hi := snd (iclimb H (if Z.even i then H v h else H h v) (i / 2) p)) in *.
        destruct (Z.even i) eqn:Ev.
        + apply H_inj in Hv. destruct Hv as [Hv1 Hv2].
          exists (path ++ [false]), l. rewrite (lookup_snoc _ _ _ _ _ _ Hl), (proof_of_snoc _ _ _ _ _ _ _ Hl), index_of_snoc.
          repeat split; auto; [congruence|].
          apply Z.even_spec in Ev. destruct Ev as [k Hk]. subst i.
          rewrite Z.mul_comm, Z.div_mul in Hidx by lia. unfold bitz. lia.
        + apply H_inj in Hv. destruct Hv as [Hv1 Hv2].
          exists (path ++ [true]), r. rewrite (lookup_snoc _ _ _ _ _ _ Hl), (proof_of_snoc _ _ _ _ _ _ _ Hl), index_of_snoc.
          repeat split; auto; [congruence|].
          assert (Ho : Z.odd i = true) by (rewrite <- Z.negb_even, Ev; reflexivity).
          apply Z.odd_spec in Ho. destruct Ho as [k Hk]. subst i.
          replace (2 * k + 1) with (1 + k * 2) in Hidx by lia.
          rewrite Z.div_add in Hidx by lia. change (1 / 2) with 0 in Hidx. unfold bitz. lia.
    Qed.

    Theorem sound_indexed : forall t p v i, wf_tree t -> 0 <= i ->
      verify_with_index deqb H p (troot H t) v i = Ok true ->
      exists path s, lookup t path = Some s /\ troot H s = v /\
        proof_of H t path = p /\ index_of path = i /\ length path = length p.
    Proof.
      intros t p v i Hw Hi Hv. unfold verify_with_index in Hv.
      destruct (32 <=? Z.of_nat (length p)); [discriminate|].
      destruct (2 ^ Z.of_nat (length p) <=? i) eqn:E2; [discriminate|].
      inversion Hv as [Hd]. apply deqb_spec in Hd.
      destruct (iclimb_sound _ Hw _ _ _ Hi Hd) as (path & s & Hl & Hs & Hp & Hidx).
      exists path, s. repeat split; auto.
      - pose proof (index_of_bound path) as Hb.
        assert (Hlen : length path = length p) by (rewrite <- Hp; symmetry; eapply proof_of_length; eauto).
        rewrite Hlen in Hb.
        assert (Hsnd : 0 <= snd (iclimb H v i p)).
        { clear -Hi. revert v i Hi. induction p as [|h p IH]; intros v i Hi; [exact Hi|].
          rewrite iclimb_cons. apply IH. apply Z.div_pos; lia. }
        assert (Hpow : 0 < 2 ^ Z.of_nat (length p)) by (apply Z.pow_pos_nonneg; lia).
        apply Z.leb_gt in E2.
        set (hi := snd (iclimb H v i p)) in *. set (P := 2 ^ Z.of_nat (length p)) in *.
        assert (hi = 0) by nia. lia.
      - rewrite <- Hp. symmetry. eapply proof_of_length; eauto.
    Qed.

    (* the answer never depends on anything but (proof, root, leaf, index): a different root
       is rejected *)
    Theorem indexed_other_root : forall p r r' v i,
      verify_with_index deqb H p r v i = Ok true -> r' <> r ->
      verify_with_index deqb H p r' v i = Ok false.
    Proof.
      intros p r r' v i Hv Hn. unfold verify_with_index in *.
      destruct (32 <=? Z.of_nat (length p)); [discriminate|].
      destruct (2 ^ Z.of_nat (length p) <=? i); [discriminate|].
      inversion Hv as [Hd]. apply deqb_spec in Hd. f_equal.
      destruct (deqb (fst (iclimb H v i p)) r') eqn:E; [|reflexivity].
      apply deqb_spec in E. congruence.
    Qed.

    (* for one root, one proof length and one index there is at most one accepted (value, proof) *)
    Lemma iclimb_inj : forall p p' v v' i, length p = length p' ->
      fst (iclimb H v i p) = fst (iclimb H v' i p') -> v = v' /\ p = p'.
    Proof.
      induction p as [|h p IH]; intros p' v v' i Hlen Hc; destruct p' as [|h' p']; try discriminate.
      - cbn in Hc. auto.
      - rewrite !iclimb_cons in Hc. cbn [length] in Hlen. injection Hlen as Hlen.
        destruct (IH _ _ _ _ Hlen Hc) as [Hv Hp].
        destruct (Z.even i); apply H_inj in Hv; destruct Hv; subst; auto.
    Qed.

    Theorem indexed_unique : forall p p' r v v' i, length p = length p' ->
      verify_with_index deqb H p r v i = Ok true ->
      verify_with_index deqb H p' r v' i = Ok true -> v = v' /\ p = p'.
    Proof.
      intros p p' r v v' i Hlen H1 H2. unfold verify_with_index in *. rewrite <- Hlen in H2.
      destruct (32 <=? Z.of_nat (length p)); [discriminate|].
      destruct (2 ^ Z.of_nat (length p) <=? i); [discriminate|].
      inversion H1 as [Hd1]. inversion H2 as [Hd2]. apply deqb_spec in Hd1, Hd2.
      apply (iclimb_inj p p' v v' i Hlen). congruence.
    Qed.

    (* exactness for a tree with pairwise different leaves: the leaf at [path] is accepted with
       exactly its honest proof and its position - every altered, reordered, truncated or
       extended proof and every other index is refused *)
    Theorem indexed_exact : forall t path v p i, wf_tree t -> NoDup (leaves t) -> 0 <= i ->
      lookup t path = Some (Lf v) -> (length path < 32)%nat ->
      (verify_with_index deqb H p (troot H t) v i = Ok true <-> p = proof_of H t path /\ i = index_of path).
    Proof.
      intros t path v p i Hw Hn Hi Hl Hlen. split.
      - intros Hv. destruct (sound_indexed _ _ _ _ Hw Hi Hv) as (path' & s & Hl' & Hs & Hp & Hidx & _).
        assert (s = Lf v).
        { destruct s as [d|l r]; [cbn in Hs; congruence|]. exfalso. cbn in Hs.
          pose proof (wf_lookup _ _ _ Hw Hl) as Hwv. unfold wf_tree in Hwv. cbn in Hwv. inversion Hwv; subst.
          eapply leaf_node; eauto. }
        subst s. assert (path' = path) by (eapply lookup_leaf_unique; eauto). subst. auto.
      - intros [-> ->]. exact (complete_indexed _ _ _ Hl Hlen).
    Qed.

    (* a leaf-like value that is not a leaf of the tree is refused with every proof and index *)
    Theorem indexed_nonmember : forall t v p i, wf_tree t -> 0 <= i -> leafp v -> ~ In v (leaves t) ->
      verify_with_index deqb H p (troot H t) v i <> Ok true.
    Proof.
      intros t v p i Hw Hi Hlv Hnin Hv.
      destruct (sound_indexed _ _ _ _ Hw Hi Hv) as (path' & s & Hl' & Hs & _).
      destruct s as [d|l r]; cbn in Hs.
      - subst d. apply Hnin. eapply lookup_leaf_in; eauto.
      - rewrite <- Hs in Hlv. eapply leaf_node; eauto.
    Qed.
  End Indexed.

  (* ============ sorted (commutative) form ============ *)
  Section Sorted.
    Hypothesis gtb_asym : forall a b, gtb a b = true -> gtb b a = false.
    Hypothesis gtb_total : forall a b, gtb a b = false -> gtb b a = false -> a = b.
    Variable leafp : D -> Prop.
    Hypothesis leaf_cnode : forall a b, ~ leafp (cp a b).

    Lemma cpair_comm a b : cp a b = cp b a.
    Proof.
      unfold cpair. destruct (gtb a b) eqn:E1.
      - rewrite (gtb_asym _ _ E1). reflexivity.
      - destruct (gtb b a) eqn:E2; [reflexivity|]. rewrite (gtb_total _ _ E1 E2). reflexivity.
    Qed.

    Lemma cpair_inj2 a b c d : cp a b = cp c d -> (a = c /\ b = d) \/ (a = d /\ b = c).
    Proof.
      unfold cpair. destruct (gtb a b), (gtb c d); intros E; apply H_inj in E; tauto.
    Qed.

    Lemma climb_cons v h p : climb H gtb v (h :: p) = climb H gtb (cp v h) p.
    Proof. reflexivity. Qed.
    Lemma climb_snoc v p h : climb H gtb v (p ++ [h]) = cp (climb H gtb v p) h.
    Proof. unfold climb. apply fold_left_app_one. Qed.

    Lemma climb_honest : forall path t s, lookup t path = Some s ->
      climb H gtb (troot cp s) (proof_of cp t path) = troot cp t.
    Proof.
      induction path as [|b q IH]; intros t s Hl.
      - cbn in Hl. inversion Hl; subst. reflexivity.
      - destruct t as [x|l r]; cbn [lookup] in Hl; [discriminate|].
        cbn [proof_of]. rewrite climb_snoc, (IH _ _ Hl). cbn [troot].
        destruct b; [apply cpair_comm|reflexivity].
    Qed.

    Theorem complete_sorted : forall t path s, lookup t path = Some s ->
      verify deqb H gtb (proof_of cp t path) (troot cp t) (troot cp s) = true.
    Proof. intros. unfold verify. rewrite (climb_honest _ _ _ H0). apply deqb_refl. Qed.

    Definition wf_stree (t : tree D) : Prop := Forall leafp (leaves t).

    Lemma wf_slookup : forall path t s, wf_stree t -> lookup t path = Some s -> wf_stree s.
    Proof.
      unfold wf_stree. intros path t s Hw Hl. rewrite Forall_forall in *. intros d Hd.
      apply Hw. eapply lookup_leaves; eauto.
    Qed.

    Lemma climb_sound : forall t, wf_stree t -> forall p v,
      climb H gtb v p = troot cp t ->
      exists path s, lookup t path = Some s /\ troot cp s = v /\ proof_of cp t path = p.
    Proof.
      intros t Hw. induction p as [|h p IH]; intros v Hc.
      - cbn in Hc. exists [], t. cbn. auto.
      - rewrite climb_cons in Hc. destruct (IH _ Hc) as (path & s & Hl & Hv & Hp).
        pose proof (wf_slookup _ _ _ Hw Hl) as Hws.
        destruct s as [d|l r].
        { exfalso. cbn [troot] in Hv. unfold wf_stree in Hws. cbn [leaves] in Hws.
          apply Forall_inv in Hws. rewrite Hv in Hws. eapply leaf_cnode; exact Hws. }
        cbn [troot] in Hv. apply cpair_inj2 in Hv. destruct Hv as [[Hv1 Hv2]|[Hv1 Hv2]].
        + exists (path ++ [false]), l. rewrite (lookup_snoc _ _ _ _ _ _ Hl), (proof_of_snoc _ _ _ _ _ _ _ Hl).
          repeat split; auto. congruence.
        + exists (path ++ [true]), r. rewrite (lookup_snoc _ _ _ _ _ _ Hl), (proof_of_snoc _ _ _ _ _ _ _ Hl).
          repeat split; auto. congruence.
    Qed.

    Theorem sound_sorted : forall t p v, wf_stree t ->
      verify deqb H gtb p (troot cp t) v = true ->
      exists path s, lookup t path = Some s /\ troot cp s = v /\ proof_of cp t path = p /\ length path = length p.
    Proof.
      intros t p v Hw Hv. unfold verify in Hv. apply deqb_spec in Hv.
      destruct (climb_sound _ Hw _ _ Hv) as (path & s & Hl & Hs & Hp).
      exists path, s. repeat split; auto. rewrite <- Hp. symmetry. eapply proof_of_length; eauto.
    Qed.

    Theorem sorted_other_root : forall p r r' v,
      verify deqb H gtb p r v = true -> r' <> r -> verify deqb H gtb p r' v = false.
    Proof.
      unfold verify. intros p r r' v Hv Hn. apply deqb_spec in Hv.
      destruct (deqb (climb H gtb v p) r') eqn:E; [|reflexivity]. apply deqb_spec in E. congruence.
    Qed.

    Theorem sorted_exact : forall t path v p, wf_stree t -> NoDup (leaves t) ->
      lookup t path = Some (Lf v) ->
      (verify deqb H gtb p (troot cp t) v = true <-> p = proof_of cp t path).
    Proof.
      intros t path v p Hw Hn Hl. split.
      - intros Hv. destruct (sound_sorted _ _ _ Hw Hv) as (path' & s & Hl' & Hs & Hp & _).
        assert (s = Lf v).
        { destruct s as [d|l r]; [cbn in Hs; congruence|]. exfalso. cbn in Hs.
          pose proof (wf_slookup _ _ _ Hw Hl) as Hwv. unfold wf_stree in Hwv. cbn [leaves] in Hwv.
          apply Forall_inv in Hwv. rewrite <- Hs in Hwv. eapply leaf_cnode; exact Hwv. }
        subst s. assert (path' = path) by (eapply lookup_leaf_unique; eauto). subst. auto.
      - intros ->. exact (complete_sorted _ _ _ Hl).
    Qed.

    Theorem sorted_nonmember : forall t v p, wf_stree t -> leafp v -> ~ In v (leaves t) ->
      verify deqb H gtb p (troot cp t) v = false.
    Proof.
      intros t v p Hw Hlv Hnin. destruct (verify deqb H gtb p (troot cp t) v) eqn:Hv; [|reflexivity]. exfalso.
      destruct (sound_sorted _ _ _ Hw Hv) as (path' & s & Hl' & Hs & _).
      destruct s as [d|l r]; cbn in Hs.
      - subst d. apply Hnin. eapply lookup_leaf_in; eauto.
      - rewrite <- Hs in Hlv. eapply leaf_cnode; eauto.
    Qed.
  End Sorted.
End Theory.
