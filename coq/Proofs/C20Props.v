(* C20: the property theorems, for every call sequence (reachable state = run from the empty
   registry), derived from the simulations of Proofs/C20*.v. *)
From SC Require Import Lib.Prelude Lib.Int Model.SwapPop Model.RegCommon Model.RegBinder Model.RegDocs
  Model.RegCTI Model.RegKeys Model.RegIRS Model.RegSmall Model.RegSA Run.C20
  Proofs.C20Common Proofs.C20Binder Proofs.C20Docs Proofs.C20Small Proofs.C20IRS Proofs.C20Keys
  Proofs.C20CTI Proofs.C20SA.
From Coq Require Import Permutation PeanoNat.
Local Open Scope nat_scope.
Set Implicit Arguments.

(* ========================================================================= *)
(* 1. token binder                                                             *)
(* ========================================================================= *)
Section Binder.
  Variable c : tb_cfg.
  Hypothesis bs_pos : 0 < tb_bs c.

  Lemma tb_init_rel : tb_rel c tb_init [].
  Proof.
    exists []. split; [|constructor]. unfold tb_inv. cbn. repeat split; auto; try constructor; try lia.
    intros k. cbn. lia.
  Qed.
  Lemma tb_reach cs : tb_rel c (run (tb_step c) tb_init cs) (spec_run (tb_spec c) [] cs).
  Proof. apply (@run_sim _ _ _ (tb_step c) (tb_spec c) (tb_rel c)); [intros; apply tb_spec_sim; auto|apply tb_init_rel]. Qed.

  (* after every history: the linked list is a duplicate-free enumeration of the reference set,
     membership and count agree, and every call is accepted / refused as the set machine says *)
  Theorem binder_refines cs :
    let s := run (tb_step c) tb_init cs in
    let a := spec_run (tb_spec c) [] cs in
    NoDup a /\ Permutation (tb_linked c s) a /\ NoDup (tb_linked c s)
    /\ (forall t, tb_is_bound c s t = memb N.eqb t a)
    /\ (forall k, is_ok (tb_step c s k) = is_ok (tb_spec c a k)).
  Proof.
    cbn zeta. pose proof (tb_reach cs) as HR. pose proof (tb_rel_NoDup HR) as Hn.
    destruct HR as [l [Hi Hp]]. split; auto. rewrite (tb_linked_inv bs_pos Hi).
    split; auto. split; [destruct Hi as (_ & H & _); auto|]. split.
    - intros t. rewrite (tb_is_bound_inv bs_pos t Hi). apply memb_perm. auto.
    - intros k. apply (@sim_is_ok _ _ _ (tb_step c) (tb_spec c) (tb_rel c)).
      + intros. apply tb_spec_sim; auto.
      + exists l. auto.
  Qed.

  (* binding a bound token / unbinding an unbound one is refused (and, a refused call leaving
     the state unchanged by construction, has no effect) *)
  Theorem binder_dup_absent_refused cs t :
    let s := run (tb_step c) tb_init cs in
    (tb_is_bound c s t = true -> tb_step c s (TbBind t) = Fail /\ step_state (tb_step c) s (TbBind t) = s)
    /\ (tb_is_bound c s t = false -> tb_step c s (TbUnbind t) = Fail /\ step_state (tb_step c) s (TbUnbind t) = s).
  Proof.
    cbn zeta. destruct (tb_reach cs) as [l [Hi Hp]].
    assert (F : forall k, tb_step c (run (tb_step c) tb_init cs) k = Fail ->
                          tb_step c (run (tb_step c) tb_init cs) k = Fail /\
                          step_state (tb_step c) (run (tb_step c) tb_init cs) k = run (tb_step c) tb_init cs).
    { intros k H. split; auto. unfold step_state. rewrite H. reflexivity. }
    rewrite (tb_is_bound_inv bs_pos t Hi). split; intros Hb; apply F; cbn [tb_step].
    - pose proof (tb_bind_inv bs_pos t Hi) as H. destruct (tb_bind c _ t); [|reflexivity].
      destruct H as (H & _). congruence.
    - pose proof (tb_unbind_inv bs_pos t Hi) as H. destruct (tb_unbind c _ t); [|reflexivity].
      destruct H as [i [Ei _]]. rewrite (index_of_memb N.eqb N.eqb_eq), Ei in Hb. discriminate.
  Qed.

  (* the capacity limit is enforced exactly at the limit *)
  Theorem binder_limit_exact cs t :
    let s := run (tb_step c) tb_init cs in
    tb_is_bound c s t = false ->
    (is_ok (tb_step c s (TbBind t)) = true <-> length (tb_linked c s) < tb_max c).
  Proof.
    cbn zeta. destruct (tb_reach cs) as [l [Hi Hp]]. rewrite (tb_is_bound_inv bs_pos t Hi), (tb_linked_inv bs_pos Hi).
    intros Hb. cbn [tb_step]. pose proof (tb_bind_inv bs_pos t Hi) as H.
    destruct (tb_bind c _ t); cbn [bind is_ok].
    - destruct H as (_ & H & _). tauto.
    - destruct H as [H|H]; [congruence|]. split; [discriminate|lia].
  Qed.

  (* index-based access enumerates every bound token exactly once, and get_token_index is its
     inverse *)
  Theorem binder_enumerates_once cs :
    let s := run (tb_step c) tb_init cs in
    let l := tb_linked c s in
    NoDup l
    /\ (forall i, tb_by_index c s i = of_option (nth_error l (N.to_nat i)))
    /\ (forall t i, tb_index_of c s t = Ok i <-> nth_error l i = Some t).
  Proof.
    cbn zeta. destruct (tb_reach cs) as [l [Hi Hp]]. rewrite (tb_linked_inv bs_pos Hi).
    pose proof Hi as (_ & Hn & _). split; auto. split.
    - intros i. apply tb_by_index_inv; auto.
    - intros t i. rewrite (tb_index_of_inv bs_pos t Hi). split.
      + destruct (index_of N.eqb t l) as [j|] eqn:E; cbn; [|discriminate]. intros H. inversion H. subst.
        apply (index_of_Some N.eqb N.eqb_eq _ _ E).
      + intros H. rewrite (index_of_nth_NoDup N.eqb N.eqb_eq i Hn H). reflexivity.
  Qed.
End Binder.

(* ========================================================================= *)
(* 2. documents                                                                *)
(* ========================================================================= *)
Section Docs.
  Variable c : dm_cfg.
  Hypothesis bs_pos : 0 < dm_bs c.

  Lemma dm_init_rel : dm_rel c dm_init [].
  Proof.
    exists []. split; [|split; [constructor|reflexivity]]. unfold dm_inv. cbn.
    repeat split; auto; try constructor; try lia. intros k. cbn. lia.
  Qed.
  Lemma dm_reach cs : dm_rel c (run (dm_step c) dm_init cs) (spec_run (dm_spec c) [] cs).
  Proof. apply (@run_sim _ _ _ (dm_step c) (dm_spec c) (dm_rel c)); [intros; apply dm_spec_sim; auto|apply dm_init_rel]. Qed.

  Theorem docs_refines cs :
    let s := run (dm_step c) dm_init cs in
    let a := spec_run (dm_spec c) [] cs in
    NoDup (map fst a)
    /\ dm_count s = length a
    /\ (forall nm, dm_get c s nm = of_option (aget N.eqb nm a))
    /\ (forall k, is_ok (dm_step c s k) = is_ok (dm_spec c a k)).
  Proof.
    cbn zeta. pose proof (dm_reach cs) as HR. destruct HR as [l [Hi [Hna Hlk]]].
    split; auto. split.
    - pose proof Hi as (Hc & _). rewrite Hc. symmetry. apply (@dm_rel_length c _ _ l Hi Hna Hlk).
    - split.
      + intros nm. rewrite (dm_get_inv bs_pos nm Hi), Hlk. reflexivity.
      + intros k. apply (@sim_is_ok _ _ _ (dm_step c) (dm_spec c) (dm_rel c)).
        * intros. apply dm_spec_sim; auto.
        * exists l. auto.
  Qed.

  (* the capacity limit applies to new names only, exactly at the limit; removing an absent
     document is refused *)
  Theorem docs_limit_and_absent cs nm d :
    let s := run (dm_step c) dm_init cs in
    (d_ulen d <= dm_max_uri c)%N ->
    (is_ok (dm_step c s (DmSet nm d)) = true <-> (is_ok (dm_get c s nm) = true \/ dm_count s < dm_max c))
    /\ (is_ok (dm_step c s (DmRemove nm)) = is_ok (dm_get c s nm)).
  Proof.
    cbn zeta. intros Hu. destruct (docs_refines cs) as (Hn & Hc & Hg & Hs). cbn zeta in *.
    rewrite !Hs, Hg, Hc. cbn [dm_spec].
    replace (dm_max_uri c <? d_ulen d)%N with false by (symmetry; apply N.ltb_ge; auto).
    unfold ahas. destruct (aget N.eqb nm (spec_run (dm_spec c) [] cs)); cbn [of_option is_ok].
    - split; [tauto|reflexivity].
    - split; [|reflexivity]. destruct (dm_max c <=? length (spec_run (dm_spec c) [] cs)) eqn:E; cbn [is_ok].
      + apply Nat.leb_le in E. split; [discriminate|intros [H|H]; [discriminate|lia]].
      + apply Nat.leb_gt in E. tauto.
  Qed.

  (* index-based access enumerates every document exactly once *)
  Theorem docs_enumerates_once cs :
    let s := run (dm_step c) dm_init cs in
    let a := spec_run (dm_spec c) [] cs in
    exists l, length l = dm_count s /\ NoDup (map fst l)
      /\ (forall i, dm_by_index c s i = of_option (nth_error l (N.to_nat i)))
      /\ (forall nm d, In (nm, d) l <-> aget N.eqb nm a = Some d)
      (* paging through get_documents(0), get_documents(1), ... yields the same enumeration *)
      /\ (forall m, dm_count s <= m * dm_bs c -> flat_map (fun k => dm_bucket s (N.of_nat k)) (seq 0 m) = l).
  Proof.
    cbn zeta. destruct (dm_reach cs) as [l [Hi [Hna Hlk]]]. exists l.
    pose proof Hi as (Hc & Hn & Hk & _). split; auto. split; auto. split; [|split].
    - intros i. apply dm_by_index_inv; auto.
    - intros nm d. rewrite Hlk. symmetry. apply (aget_In N.eqb N.eqb_eq). auto.
    - intros m Hm. rewrite Hc in Hm. rewrite <- (chunk_inv_concat bs_pos m Hk Hm).
      apply flat_map_ext. intros k. unfold dm_bucket. rewrite Nat2N.id. reflexivity.
  Qed.
End Docs.

(* ========================================================================= *)
(* 3. compliance modules                                                       *)
(* ========================================================================= *)
Section Compliance.
  Variable c : cm_cfg.
  Lemma cm_reach cs : cm_rel (run (cm_step c) cm_init cs) (spec_run (cm_spec c) cm_init cs).
  Proof.
    apply (@run_sim _ _ _ (cm_step c) (cm_spec c) cm_rel); [intros; apply cm_spec_sim; auto|].
    split; auto. apply cm_init_inv.
  Qed.
  (* per hook: a duplicate-free list; a registered module is refused, an unregistered one
     cannot be removed; the n-th module of a hook is accepted iff n <= MAX_MODULES *)
  Theorem compliance_set_semantics cs h m :
    let s := run (cm_step c) cm_init cs in
    NoDup (cm_modules s h)
    /\ (is_ok (cm_step c s (CmAdd h m)) = true <->
        (cm_is_registered s h m = false /\ length (cm_modules s h) < cm_max c))
    /\ (is_ok (cm_step c s (CmRemove h m)) = cm_is_registered s h m).
  Proof.
    cbn zeta. destruct (cm_reach cs) as [_ Hi]. split; [apply Hi|]. unfold cm_is_registered. cbn [cm_step]. split.
    - pose proof (cm_add_inv c h m Hi) as H. destruct (cm_add c _ h m); cbn [bind is_ok].
      + destruct H as (_ & _ & H1 & H2). tauto.
      + split; [discriminate|]. intros [H1 H2]. destruct H as [H|H]; [congruence|lia].
    - pose proof (cm_remove_inv h m Hi) as H. destruct (cm_remove _ h m); cbn [bind is_ok].
      + destruct H as (_ & _ & H). auto.
      + auto.
  Qed.
End Compliance.

(* ========================================================================= *)
(* 4. claim topics and trusted issuers                                         *)
(* ========================================================================= *)
Section CTI.
  Variable c : cti_cfg.
  Lemma cti_reach cs : cti_rel (run (cti_step c) cti_init cs) (spec_run (cti_spec c) cti_ref0 cs).
  Proof. apply (@run_sim _ _ _ (cti_step c) (cti_spec c) cti_rel); [intros; apply cti_spec_sim; auto|apply cti_rel_init]. Qed.

  Theorem cti_refines cs :
    let s := run (cti_step c) cti_init cs in
    let a := spec_run (cti_spec c) cti_ref0 cs in
    cti_topics s = rT a /\ cti_issuers s = rI a /\ NoDup (rT a) /\ NoDup (rI a)
    /\ (forall i, cti_get_issuer_topics s i = if memb N.eqb i (rI a) then Ok (rtopics a i) else Fail)
    /\ (forall i, In i (rI a) -> NoDup (rtopics a i) /\ (forall t, In t (rtopics a i) -> In t (rT a)))
    /\ (forall t, match cti_get_topic_issuers s t with
                  | Ok l => In t (rT a) /\ NoDup l /\ (forall i, In i l <-> (In i (rI a) /\ In t (rtopics a i)))
                  | Fail => ~ In t (rT a)
                  end)
    /\ (forall k, is_ok (cti_step c s k) = is_ok (cti_spec c a k)).
  Proof.
    cbn zeta. pose proof (cti_reach cs) as HR. pose proof HR as (ET & EI & NT & NI & HB & HC & HD).
    split; [auto|]. split; [auto|]. split; [auto|]. split; [auto|]. split; [|split; [exact HC|split]].
    - intros i. unfold cti_get_issuer_topics. rewrite HB. destruct (memb N.eqb i (rI _)); reflexivity.
    - intros t. unfold cti_get_topic_issuers. specialize (HD t). destruct (ti_get _ t); cbn [of_option]; auto.
    - intros k. apply (@sim_is_ok _ _ _ (cti_step c) (cti_spec c) cti_rel); auto. intros. apply cti_spec_sim; auto.
  Qed.

  (* both directions of the topic / issuer relation always agree *)
  Theorem cti_two_way_consistent cs i t :
    let s := run (cti_step c) cti_init cs in
    (exists l, cti_get_topic_issuers s t = Ok l /\ In i l)
    <-> (exists ts, cti_get_issuer_topics s i = Ok ts /\ In t ts).
  Proof.
    cbn zeta. pose proof (cti_reach cs) as HR. pose proof HR as (ET & EI & NT & NI & HB & HC & HD).
    unfold cti_get_topic_issuers, cti_get_issuer_topics. rewrite HB. specialize (HD t). split.
    - intros [l [El Hl]]. destruct (ti_get _ t) as [l'|]; [|discriminate]. inversion El. subst l'.
      destruct HD as (_ & _ & H). apply H in Hl. destruct Hl as [H1 H2].
      rewrite (proj2 (memb_In N.eqb N.eqb_eq i _) H1). cbn [of_option]. eauto.
    - intros [ts [Ets Hts]]. destruct (memb N.eqb i (rI _)) eqn:Em; [|discriminate]. inversion Ets. subst ts.
      apply (memb_In N.eqb N.eqb_eq) in Em. destruct (HC i Em) as [_ Hsub]. specialize (Hsub t Hts).
      destruct (ti_get _ t) as [l|]; [|contradiction]. exists l. split; auto. apply HD. auto.
  Qed.

  (* duplicates refused, limits exact *)
  Theorem cti_limits cs t :
    let s := run (cti_step c) cti_init cs in
    (is_ok (cti_step c s (CtAddTopic t)) = true <->
       (~ In t (cti_topics s) /\ length (cti_topics s) < cti_max_topics c))
    /\ (is_ok (cti_step c s (CtRemoveTopic t)) = true <-> In t (cti_topics s)).
  Proof.
    cbn zeta. destruct (cti_refines cs) as (ET & EI & NT & NI & _ & _ & _ & Hs). cbn zeta in *.
    rewrite !Hs, ET. cbn [cti_spec]. split.
    - destruct (cti_max_topics c <=? length (rT _)) eqn:E1; cbn [orb is_ok].
      + apply Nat.leb_le in E1. split; [discriminate|]. intros [_ H]. lia.
      + apply Nat.leb_gt in E1. destruct (memb N.eqb t (rT _)) eqn:E2; cbn [is_ok].
        * apply (memb_In N.eqb N.eqb_eq) in E2. split; [discriminate|tauto].
        * apply (memb_false N.eqb N.eqb_eq) in E2. tauto.
    - destruct (memb N.eqb t (rT _)) eqn:E2; cbn [is_ok].
      + apply (memb_In N.eqb N.eqb_eq) in E2. tauto.
      + apply (memb_false N.eqb N.eqb_eq) in E2. split; [discriminate|tauto].
  Qed.
  Theorem cti_issuer_limit cs i ts :
    let s := run (cti_step c) cti_init cs in
    let a := spec_run (cti_spec c) cti_ref0 cs in
    cti_valid c a ts = true ->
    (is_ok (cti_step c s (CtAddIssuer i ts)) = true <->
       (~ In i (cti_issuers s) /\ length (cti_issuers s) < cti_max_issuers c)).
  Proof.
    cbn zeta. destruct (cti_refines cs) as (ET & EI & NT & NI & _ & _ & _ & Hs). cbn zeta in *.
    intros Hv. rewrite Hs, EI. cbn [cti_spec]. rewrite Hv. cbn [andb].
    destruct (cti_max_issuers c <=? length (rI _)) eqn:E1; cbn [negb andb is_ok].
    - apply Nat.leb_le in E1. split; [discriminate|]. intros [_ H]. lia.
    - apply Nat.leb_gt in E1. destruct (memb N.eqb i (rI _)) eqn:E2; cbn [negb is_ok].
      + apply (memb_In N.eqb N.eqb_eq) in E2. split; [discriminate|tauto].
      + apply (memb_false N.eqb N.eqb_eq) in E2. tauto.
  Qed.
End CTI.

(* ========================================================================= *)
(* 5. claim-issuer keys                                                        *)
(* ========================================================================= *)
Section Keys.
  Variable c : ck_cfg.
  Lemma ck_reach cs : ck_rel (run (ck_step c) ck_init cs) (spec_run (ck_spec c) [] cs).
  Proof. apply (@run_sim _ _ _ (ck_step c) (ck_spec c) ck_rel); [intros; apply ck_spec_sim; auto|apply ck_rel_init]. Qed.

  (* the two storage directions are views of ONE set of (key, topic, registry) triples [a]:
     the keys of a topic, the registries of a key (one entry per pair, in insertion order), the
     two membership tests, and the accept / refuse decision of every call *)
  Theorem keys_refines cs :
    let s := run (ck_step c) ck_init cs in
    let a := spec_run (ck_spec c) [] cs in
    NoDup a
    /\ (forall t, match ck_keys_for_topic s t with
                  | Ok ks => NoDup ks /\ ks <> [] /\ (forall k, In k ks <-> exists r, In (k, t, r) a)
                  | Fail => forall k r, ~ In (k, t, r) a
                  end)
    /\ (forall k, ck_registries s k = match pairs_of a k with [] => Fail | ps => Ok (map kt_reg ps) end)
    /\ (forall k t, ck_allowed_for_topic s k t = true <-> exists r, In (k, t, r) a)
    /\ (forall k r, ck_allowed_for_registry s k r = true <-> exists t, In (k, t, r) a)
    /\ (forall q, is_ok (ck_step c s q) = is_ok (ck_spec c a q)).
  Proof.
    cbn zeta. pose proof (ck_reach cs) as HR. pose proof HR as (Hn & HP & HT).
    split; auto. split; [|split; [|split; [|split]]].
    - intros t. unfold ck_keys_for_topic. specialize (HT t). destruct (kt_get _ t) as [ks|]; cbn [of_option].
      + destruct HT as (H1 & H2 & H3). split; auto. split; auto. intros k. rewrite H3. apply In_keys_of.
      + intros k r Hin. assert (Hk : In k (keys_of (spec_run (ck_spec c) [] cs) t)) by (apply In_keys_of; eauto).
        rewrite HT in Hk. destruct Hk.
    - intros k. unfold ck_registries. rewrite HP. unfold proj_k.
      destruct (pairs_of _ k) as [|x0 r0]; [reflexivity|].
      change (opt_list (map kproj (x0 :: r0))) with (Some (map kproj (x0 :: r0))). cbn [of_option bind].
      rewrite map_map. reflexivity.
    - intros k t. rewrite (allowed_topic_rel k t HR). rewrite (memb_In skey_eqb skey_eqb_spec). apply In_keys_of.
    - intros k r. unfold ck_allowed_for_registry. rewrite HP. split.
      + destruct (proj_k _ k) as [|p0 ps0] eqn:Ep; [discriminate|]. cbn [opt_list]. intros H.
        apply existsb_exists in H. destruct H as [[t r'] [Hin E]]. cbn in E. apply N.eqb_eq in E. subst r'.
        rewrite <- Ep in Hin. apply In_proj_k in Hin. eauto.
      + intros [t Hin]. apply In_proj_k in Hin. destruct (proj_k _ k) as [|p0 ps0] eqn:Ep; [destruct Hin|].
        cbn [opt_list]. apply existsb_exists. exists (t, r). split; auto. cbn. apply N.eqb_refl.
    - intros q. apply (@sim_is_ok _ _ _ (ck_step c) (ck_spec c) ck_rel (fun s a k H => @ck_spec_sim c s a k H) _ _ _ HR).
  Qed.

  (* both directions of the key / topic relation agree: the key is listed for the topic iff
     one of its (topic, registry) pairs has that topic *)
  Theorem keys_two_way_consistent cs k t :
    let s := run (ck_step c) ck_init cs in
    (exists ks, ck_keys_for_topic s t = Ok ks /\ In k ks)
    <-> (exists ps r, kp_get (ck_pairs s) k = Some ps /\ In (t, r) ps).
  Proof.
    cbn zeta. pose proof (ck_reach cs) as HR. pose proof HR as (Hn & HP & HT).
    unfold ck_keys_for_topic. specialize (HT t). rewrite HP. split.
    - intros [ks [E Hk]]. destruct (kt_get _ t) as [ks'|]; [|discriminate]. inversion E. subst ks'.
      destruct HT as (_ & _ & H). apply H in Hk. apply In_keys_of in Hk. destruct Hk as [r Hr].
      apply In_proj_k in Hr. destruct (proj_k _ k) as [|p0 ps0] eqn:Ep; [destruct Hr|].
      exists (p0 :: ps0), r. split; auto.
    - intros [ps [r [E Hin]]]. destruct (proj_k _ k) as [|p0 ps0] eqn:Ep; [discriminate|]. inversion E. subst ps.
      rewrite <- Ep in Hin. apply In_proj_k in Hin.
      assert (Hk : In k (keys_of (spec_run (ck_spec c) [] cs) t)) by (apply In_keys_of; eauto).
      destruct (kt_get _ t) as [ks|]; [|rewrite HT in Hk; destruct Hk].
      exists ks. split; auto. apply HT. auto.
  Qed.

  (* MAX_REGISTRIES_PER_KEY is enforced exactly at the limit: for a key already allowed for the
     topic (so that the keys-per-topic limit does not interfere) a new (topic, registry) pair is
     accepted iff the key has fewer than the limit *)
  Theorem keys_registry_limit_exact cs pk sch reg t :
    let s := run (ck_step c) ck_init cs in
    let k := (pk, sch) in
    pk <> 0%N -> ck_allowed_for_topic s k t = true -> ck_allowed_for_registry s k reg = false ->
    (is_ok (ck_step c s (CkAllow pk reg sch t (Ok true))) = true <->
     length (match kp_get (ck_pairs s) k with Some ps => ps | None => [] end) < ck_max_regs c).
  Proof.
    cbn zeta. intros Hpk Hat Har. pose proof (ck_reach cs) as HR.
    rewrite (@sim_is_ok _ _ _ (ck_step c) (ck_spec c) ck_rel (fun s a k H => @ck_spec_sim c s a k H) _ _ _ HR).
    rewrite (get0_pairs (pk, sch) HR), proj_k_length. rewrite (allowed_topic_rel (pk, sch) t HR) in Hat.
    cbn [ck_spec]. replace (pk =? 0)%N with false by (symmetry; apply N.eqb_neq; auto).
    rewrite Hat. cbn [negb andb].
    assert (Hm : memb ktriple_eqb (pk, sch, t, reg) (spec_run (ck_spec c) [] cs) = false).
    { apply (memb_false ktriple_eqb ktriple_eqb_spec). intros Hin. apply In_proj_k in Hin.
      unfold ck_allowed_for_registry in Har. pose proof HR as (_ & HP & _). rewrite HP in Har.
      destruct (proj_k _ (pk, sch)) as [|p0 ps0] eqn:Ep; [destruct Hin|]. cbn [opt_list] in Har.
      assert (existsb (fun p : N * N => N.eqb (snd p) reg) (p0 :: ps0) = true).
      { apply existsb_exists. exists (t, reg). split; auto. cbn. apply N.eqb_refl. }
      congruence. }
    rewrite Hm. destruct (ck_max_regs c <=? length (pairs_of _ (pk, sch))) eqn:E; cbn [is_ok].
    - apply Nat.leb_le in E. split; [discriminate|lia].
    - apply Nat.leb_gt in E. tauto.
  Qed.

  (* MAX_KEYS_PER_TOPIC is enforced exactly at the limit: a key not yet allowed for the topic
     (and with room for another pair) is accepted iff the topic lists fewer keys than the limit *)
  Theorem keys_topic_limit_exact cs pk sch reg t :
    let s := run (ck_step c) ck_init cs in
    let k := (pk, sch) in
    pk <> 0%N -> ck_allowed_for_topic s k t = false ->
    length (match kp_get (ck_pairs s) k with Some ps => ps | None => [] end) < ck_max_regs c ->
    (is_ok (ck_step c s (CkAllow pk reg sch t (Ok true))) = true <->
     length (match kt_get (ck_topics s) t with Some ks => ks | None => [] end) < ck_max_keys c).
  Proof.
    cbn zeta. intros Hpk Hat Hroom. pose proof (ck_reach cs) as HR.
    rewrite (@sim_is_ok _ _ _ (ck_step c) (ck_spec c) ck_rel (fun s a k H => @ck_spec_sim c s a k H) _ _ _ HR).
    rewrite (get0_pairs (pk, sch) HR), proj_k_length in Hroom.
    rewrite (allowed_topic_rel (pk, sch) t HR) in Hat. rewrite (topic_len_rel t HR).
    cbn [ck_spec]. replace (pk =? 0)%N with false by (symmetry; apply N.eqb_neq; auto).
    rewrite Hat. cbn [negb andb].
    assert (Hm : memb ktriple_eqb (pk, sch, t, reg) (spec_run (ck_spec c) [] cs) = false).
    { apply (memb_false ktriple_eqb ktriple_eqb_spec). intros Hin.
      apply (memb_false skey_eqb skey_eqb_spec) in Hat. apply Hat. apply In_keys_of. eauto. }
    rewrite Hm.
    replace (ck_max_regs c <=? length (pairs_of (spec_run (ck_spec c) [] cs) (pk, sch))) with false
      by (symmetry; apply Nat.leb_gt; auto).
    destruct (ck_max_keys c <=? length (nodup_keys (keys_of (spec_run (ck_spec c) [] cs) t))) eqn:E; cbn [is_ok].
    - apply Nat.leb_le in E. split; [discriminate|lia].
    - apply Nat.leb_gt in E. tauto.
  Qed.
End Keys.

(* the code before the fix of defect F5 (length test after the push): with the real limits the
   20th pair of a key is refused although the key holds only 19 *)
Definition f5_cfg : ck_cfg := {| ck_max_keys := 50; ck_max_regs := 20 |}.
Definition f5_history : list ck_call :=
  map (fun n => CkAllow 7 (N.of_nat (n mod 5)) 101 (N.of_nat (n / 5)) (Ok true)) (seq 0 19).
Theorem keys_prefix_refuted :
  let s := run (ck_step_prefix f5_cfg) ck_init f5_history in
  let a := spec_run (ck_spec f5_cfg) [] f5_history in
  let k := CkAllow 7 4 101 3 (Ok true) in
  length (pairs_of a (7%N, 101%N)) = 19 /\ is_ok (ck_spec f5_cfg a k) = true
  /\ is_ok (ck_step_prefix f5_cfg s k) = false
  /\ is_ok (ck_step f5_cfg (run (ck_step f5_cfg) ck_init f5_history) k) = true.
Proof. vm_compute. repeat split. Qed.

(* ========================================================================= *)
(* generic: invariants / relations along runs                                  *)
(* ========================================================================= *)
Lemma run_app {St C O} (step : St -> C -> res (St * O)) cs cs' : forall s,
  run step s (cs ++ cs') = run step (run step s cs) cs'.
Proof. induction cs as [|k cs IH]; intros s; cbn [app run]; auto. Qed.
Lemma run_inv {St C O} (step : St -> C -> res (St * O)) (Inv : St -> Prop) :
  (forall s k, Inv s -> Inv (step_state step s k)) -> forall cs s, Inv s -> Inv (run step s cs).
Proof. intros H. induction cs as [|k cs IH]; intros s Hs; cbn [run]; auto. Qed.

(* ledger gaps change nothing: for a model whose step does not read the ledger (all registries
   except the smart account, whose theorems below are stated over histories with gaps), the
   state after any history of calls and [Advance] steps is the state after its calls alone -
   so every theorem about call sequences holds with arbitrary ledger gaps in between *)
Fixpoint calls_of {C} (cs : list (tcall C)) : list C :=
  match cs with
  | [] => []
  | Call c :: r => c :: calls_of r
  | Advance _ :: r => calls_of r
  end.
Theorem ledger_gaps_change_nothing {St C O} (step : St -> C -> res (St * O)) (dflt : O) cs : forall sl,
  fst (run (lstep (fun _ : N => step) dflt) sl cs) = run step (fst sl) (calls_of cs).
Proof.
  induction cs as [|k cs IH]; intros sl; cbn [run calls_of]; auto.
  destruct k as [c|n]; cbn [calls_of run]; rewrite IH; f_equal.
  all: unfold step_state, lstep; destruct sl as [s now]; cbn [fst snd]; try reflexivity.
  all: destruct (step s c) as [[s' o]|]; reflexivity.
Qed.

(* ========================================================================= *)
(* 6. identity registry storage                                                *)
(* ========================================================================= *)
Section IRS.
  Variable c : irs_cfg.
  Lemma irs_reach cs : irs_rel (run (irs_step c) irs_init cs) (spec_run (irs_spec c) irs_ref0 cs).
  Proof. apply (@run_sim _ _ _ (irs_step c) (irs_spec c) irs_rel); [intros; apply irs_spec_sim; auto|apply irs_rel_init]. Qed.

  Theorem irs_refines cs :
    let s := run (irs_step c) irs_init cs in
    let a := spec_run (irs_spec c) irs_ref0 cs in
    (forall x, irs_stored_identity s x = of_option (option_map fst (aget N.eqb x (rM a))))
    /\ (forall x, irs_get_profile s x = of_option (option_map snd (aget N.eqb x (rM a))))
    /\ (forall x, irs_recovered_to s x = aget N.eqb x (rV a))
    /\ (forall k, is_ok (irs_step c s k) = is_ok (irs_spec c a k)).
  Proof.
    cbn zeta. pose proof (irs_reach cs) as HR. pose proof HR as (Hid & Hpf & Hrv & _).
    repeat split.
    - intros x. unfold irs_stored_identity. rewrite Hid. reflexivity.
    - intros x. unfold irs_get_profile. rewrite Hpf. reflexivity.
    - intros x. unfold irs_recovered_to. apply Hrv.
    - intros k. apply (@sim_is_ok _ _ _ (irs_step c) (irs_spec c) irs_rel (fun s a k H => @irs_spec_sim c s a k H) _ _ _ HR).
  Qed.

  (* a recovered account holds no identity and can never be registered again *)
  Theorem irs_recovered_never_registered cs x y :
    let s := run (irs_step c) irs_init cs in
    irs_recovered_to s x = Some y ->
    irs_stored_identity s x = Fail
    /\ (forall ident ty cds, irs_step c s (IrAdd x ident ty cds) = Fail)
    /\ (forall old, irs_step c s (IrRecover old x) = Fail).
  Proof.
    cbn zeta. intros Hr. pose proof (irs_reach cs) as HR. pose proof HR as (Hid & Hpf & Hrv & Hrec).
    unfold irs_recovered_to in Hr. rewrite Hrv in Hr.
    assert (Hno : ahas N.eqb x (rM (spec_run (irs_spec c) irs_ref0 cs)) = false) by (apply Hrec; unfold ahas; rewrite Hr; reflexivity).
    split; [|split].
    - unfold irs_stored_identity. rewrite Hid. unfold ahas in Hno. destruct (aget N.eqb x (rM _)); [discriminate|reflexivity].
    - intros ident ty cds. cbn [irs_step]. unfold irs_add_identity, irs_recovered_to. rewrite Hrv, Hr. reflexivity.
    - intros old. cbn [irs_step]. unfold irs_recover, irs_recovered_to. rewrite Hrv, Hr. reflexivity.
  Qed.

  (* a recovery link, once written, is never changed or removed *)
  Lemma irs_link_step s a k x y : irs_rel s a -> irs_recovered_to s x = Some y ->
    irs_recovered_to (step_state (irs_step c) s k) x = Some y.
  Proof.
    intros HR Hr. pose proof HR as (Hid & Hpf & Hrv & Hrec). unfold step_state.
    destruct k as [acct ident ty cds|acct ident|acct|old new|acct cds|acct i d|acct i]; cbn [irs_step].
    - unfold irs_add_identity. destruct (irs_recovered_to s acct); auto. destruct cds; auto.
      destruct (irs_max_countries c <? _); auto. destruct (negb _); auto. destruct (id_get _ acct); auto.
    - unfold irs_modify_identity. destruct (id_get _ acct); auto.
    - unfold irs_remove_identity. destruct (id_get _ acct); auto. destruct (pf_get _ acct); auto.
    - unfold irs_recover. destruct (irs_recovered_to s new); auto. destruct (id_get (irs_ident s) old) eqn:Eo; auto.
      destruct (id_get (irs_ident s) new); auto. destruct (pf_get _ old); auto. cbn [bind].
      unfold irs_recovered_to, id_get, id_set. cbn [irs_recov]. rewrite (aget_aset N.eqb N.eqb_eq).
      destruct (N.eqb_spec x old) as [->|E]; auto.
      (* old holds an identity, hence is not a recovered account *)
      exfalso. unfold irs_recovered_to in Hr. rewrite Hrv in Hr.
      assert (Hno : ahas N.eqb old (rM a) = false) by (apply Hrec; unfold ahas; rewrite Hr; reflexivity).
      unfold id_get in Eo. fold (id_get (irs_ident s) old) in Eo. rewrite Hid in Eo. unfold ahas in Hno.
      destruct (aget N.eqb old (rM a)); discriminate.
    - unfold irs_add_countries. destruct cds; auto. destruct (negb _); auto. destruct (pf_get _ acct) as [[ty0 old]|]; auto.
      destruct (irs_max_countries c <? _); auto.
    - unfold irs_modify_country. destruct (negb _); auto. destruct (pf_get _ acct) as [[ty0 old]|]; auto.
      destruct (N.of_nat (length old) <=? i)%N; auto.
    - unfold irs_delete_country. destruct (pf_get _ acct) as [[ty0 old]|]; auto. destruct (length old =? 1); auto.
      destruct (N.of_nat (length old) <=? i)%N; auto.
  Qed.
  Theorem irs_recovery_link_permanent cs cs' x y :
    irs_recovered_to (run (irs_step c) irs_init cs) x = Some y ->
    irs_recovered_to (run (irs_step c) irs_init (cs ++ cs')) x = Some y.
  Proof.
    rewrite run_app. generalize (irs_reach cs). generalize (run (irs_step c) irs_init cs) (spec_run (irs_spec c) irs_ref0 cs).
    induction cs' as [|k cs' IH]; intros s a HR Hr; cbn [run]; auto.
    pose proof (irs_spec_sim c k HR) as Hs.
    assert (exists a', irs_rel (step_state (irs_step c) s k) a') as [a' HR'].
    { unfold step_state. destruct (irs_step c s k) as [[s' []]|]; [destruct Hs as [a' [_ H]]; eauto|eauto]. }
    apply (IH _ a' HR'). eapply irs_link_step; eauto.
  Qed.
  (* ---- the limits of the registry, exactly: MAX_COUNTRY_ENTRIES, MAX_METADATA_ENTRIES,
     MAX_METADATA_STRING_LEN (statements about the transcribed guards; no reachability needed) ---- *)
  Theorem irs_cd_valid_iff d :
    cd_valid c d = true <->
    match cd_meta d with
    | None => True
    | Some m => (N.of_nat (length m) <= irs_max_meta c)%N /\ (forall kv, In kv m -> (str_len (snd kv) <= irs_max_meta_len c)%N)
    end.
  Proof.
    unfold cd_valid. destruct (cd_meta d) as [m|]; [|tauto].
    rewrite andb_true_iff, N.leb_le, forallb_forall. split; intros [H1 H2]; split; auto; intros kv Hk; apply N.leb_le; auto.
  Qed.
  Theorem irs_add_identity_iff s acct ident ty cds :
    is_ok (irs_step c s (IrAdd acct ident ty cds)) = true <->
    irs_recovered_to s acct = None /\ cds <> [] /\ length cds <= irs_max_countries c
    /\ (forall d, In d cds -> cd_valid c d = true) /\ irs_stored_identity s acct = Fail.
  Proof.
    cbn [irs_step]. unfold irs_add_identity, irs_stored_identity.
    destruct (irs_recovered_to s acct); [split; [discriminate|intros [H _]; discriminate]|].
    destruct cds as [|d0 cds0]; [split; [discriminate|intros [_ [H _]]; congruence]|]. set (cds := d0 :: cds0).
    destruct (irs_max_countries c <? length cds) eqn:E1.
    { apply Nat.ltb_lt in E1. split; [discriminate|]. intros (_ & _ & H & _). lia. }
    apply Nat.ltb_ge in E1. destruct (forallb (cd_valid c) cds) eqn:E2; cbn [negb].
    - rewrite forallb_forall in E2. destruct (id_get (irs_ident s) acct); cbn [bind is_ok of_option].
      + split; [discriminate|]. intros (_ & _ & _ & _ & H). discriminate.
      + split; auto. intros _. repeat split; auto. discriminate.
    - split; [discriminate|]. intros (_ & _ & _ & H & _).
      assert (forallb (cd_valid c) cds = true) by (apply forallb_forall; auto). congruence.
  Qed.
  Theorem irs_add_countries_iff s acct cds :
    is_ok (irs_step c s (IrAddCountries acct cds)) = true <->
    cds <> [] /\ (forall d, In d cds -> cd_valid c d = true)
    /\ exists p, irs_get_profile s acct = Ok p /\ length (snd p) + length cds <= irs_max_countries c.
  Proof.
    cbn [irs_step]. unfold irs_add_countries, irs_get_profile.
    destruct cds as [|d0 cds0]; [split; [discriminate|intros [H _]; congruence]|]. set (cds := d0 :: cds0).
    destruct (forallb (cd_valid c) cds) eqn:E2; cbn [negb].
    - rewrite forallb_forall in E2. destruct (pf_get (irs_profile s) acct) as [[ty old]|]; cbn [of_option].
      + rewrite app_length. destruct (irs_max_countries c <? length old + length cds) eqn:E1; cbn [bind is_ok].
        * apply Nat.ltb_lt in E1. split; [discriminate|]. intros (_ & _ & [p [Hp Hl]]). inversion Hp. subst p. cbn [snd] in Hl. lia.
        * apply Nat.ltb_ge in E1. split; auto. intros _. split; [discriminate|]. split; auto. exists (ty, old). split; auto.
      + split; [discriminate|]. intros (_ & _ & [p [Hp _]]). discriminate.
    - split; [discriminate|]. intros (_ & H & _).
      assert (forallb (cd_valid c) cds = true) by (apply forallb_forall; auto). congruence.
  Qed.
End IRS.

(* ========================================================================= *)
(* 7. identity claims                                                          *)
(* ========================================================================= *)
Lemma ic_step_inv s k : ic_inv s -> ic_inv (step_state ic_step s k).
Proof.
  intros Hi. unfold step_state. destruct k as [cl [|]|i]; cbn [ic_step].
  - pose proof (ic_add_inv cl Hi) as H. destruct (ic_add s cl true) as [[s' j]|]; [|contradiction]. cbn [bind fst]. tauto.
  - cbn. auto.
  - pose proof (ic_remove_inv i Hi) as H. destruct (ic_remove s i) as [s'|]; cbn [bind]; [tauto|auto].
Qed.
(* the per-topic index lists every stored claim of that topic exactly once *)
Theorem claims_index_enumerates_once cs t :
  let s := run ic_step ic_init cs in
  NoDup (ic_ids_by_topic s t)
  /\ (forall i, In i (ic_ids_by_topic s t) <-> (is_ok (ic_get_claim s i) = true /\ snd i = t))
  /\ (forall i cl, ic_get_claim s i = Ok cl -> i = (cl_issuer cl, cl_topic cl)).
Proof.
  cbn zeta. pose proof (@run_inv _ _ _ ic_step ic_inv ic_step_inv cs ic_init ic_init_inv) as (Hk & Hc & Hn & Hm).
  split; [apply Hn|]. split.
  - intros i. rewrite Hm. unfold ic_get_claim, ahas. destruct (aget cid_eqb i (ic_claims _)); cbn; tauto.
  - intros i cl H. apply Hc. unfold ic_get_claim in H. destruct (aget cid_eqb i (ic_claims _)); inversion H. reflexivity.
Qed.

(* ========================================================================= *)
(* 8. smart-account context rules                                              *)
(* ========================================================================= *)
Section SAProps.
  Variable c : sa_cfg.

  (* the reference machine never lowers its id bound, and an added rule gets an id at or above it *)
  Lemma sa_spec_bound (c0 : sa_cfg) a k o a' : sa_spec c0 a k o = Some a' ->
    (rBound a <= rBound a')%N /\
    match k, o with
    | SaAddRule _ _ _ _ _, Ok (Some r) => (rBound a <= r_id r < rBound a')%N
    | _, _ => True
    end.
  Proof.
    destruct k as [cx name until sg po|id name|id until|id|id x|id x|id p ok|id p]; cbn [sa_spec].
    - destruct o as [[r|]|].
      + match goal with |- context [if ?b then _ else _] => destruct b eqn:E end; [|discriminate].
        intros H. inversion H. subst. cbn [rBound]. apply andb_prop in E. destruct E as [E _].
        apply andb_prop in E. destruct E as [_ E]. apply N.leb_le in E. lia.
      + discriminate.
      + match goal with |- context [if ?b then _ else _] => destruct b end; [|discriminate].
        intros H. inversion H. subst. split; [lia|exact I].
    - destruct (find_rule id (rRules a)) as [r|]; destruct o as [[r'|]|]; try discriminate.
      + match goal with |- context [if ?b then _ else _] => destruct b end; [|discriminate].
        intros H. inversion H. subst. cbn. split; [lia|exact I].
      + intros H. inversion H. subst. split; [lia|exact I].
    - destruct (find_rule id (rRules a)) as [r|]; destruct o as [[r'|]|]; try discriminate.
      + match goal with |- context [if ?b then _ else _] => destruct b end; [|discriminate].
        intros H. inversion H. subst. cbn. split; [lia|exact I].
      + match goal with |- context [if ?b then _ else _] => destruct b end; [discriminate|].
        intros H. inversion H. subst. split; [lia|exact I].
      + intros H. inversion H. subst. split; [lia|exact I].
    - destruct (find_rule id (rRules a)) as [r|]; destruct o as [[r'|]|]; try discriminate;
        intros H; inversion H; subst; cbn; split; try lia; exact I.
    - destruct (find_rule id (rRules a)) as [r|]; destruct o as [[r'|]|]; try discriminate;
        repeat match goal with |- context [if ?b then _ else _] => destruct b end; try discriminate;
        intros H; inversion H; subst; cbn; split; try lia; exact I.
    - destruct (find_rule id (rRules a)) as [r|]; destruct o as [[r'|]|]; try discriminate;
        repeat match goal with |- context [if ?b then _ else _] => destruct b end; try discriminate;
        intros H; inversion H; subst; cbn; split; try lia; exact I.
    - destruct (find_rule id (rRules a)) as [r|]; destruct o as [[r'|]|]; try discriminate;
        repeat match goal with |- context [if ?b then _ else _] => destruct b end; try discriminate;
        intros H; inversion H; subst; cbn; split; try lia; exact I.
    - destruct (find_rule id (rRules a)) as [r|]; destruct o as [[r'|]|]; try discriminate;
        repeat match goal with |- context [if ?b then _ else _] => destruct b end; try discriminate;
        intros H; inversion H; subst; cbn; split; try lia; exact I.
  Qed.

  (* ---- reachable states: any history of calls and ledger advances from the empty account ---- *)
  Definition sa_reachable (sl : sa_state * N) : Prop :=
    exists now0 cs, sl = run (sa_lstep c) (sa_init, now0) cs.

  Lemma sa_lstep_rel sl a k : sa_rel c (fst sl) a ->
    exists a', sa_rel c (fst (step_state (sa_lstep c) sl k)) a' /\ (rBound a <= rBound a')%N
      /\ match k, sa_lstep c sl k with
         | Call (SaAddRule _ _ _ _ _), Ok (_, Some rl) => (rBound a <= r_id rl < rBound a')%N
         | _, _ => True
         end.
  Proof.
    intros HR. destruct sl as [s now]. cbn [fst] in HR. destruct k as [k|n].
    - destruct (@sa_spec_sim (sa_with_now c now) s a k HR) as [a' [Es HR']].
      destruct (@sa_spec_bound _ _ _ _ _ Es) as [Hb Hk]. exists a'.
      split; [|split; [exact Hb|]].
      + unfold step_state, sa_lstep, lstep in *. cbn [fst snd] in *.
        destruct (sa_step (sa_with_now c now) s k) as [[s' o]|]; cbn [fst snd] in *; exact HR'.
      + destruct k; try exact I. unfold sa_lstep, lstep. cbn [fst snd]. unfold step_out in Hk.
        destruct (sa_step (sa_with_now c now) s (SaAddRule cx name until signers policies)) as [[s' [rl|]]|];
          cbn [fst snd]; auto.
    - exists a. unfold step_state, sa_lstep, lstep. cbn [fst snd]. split; auto. split; [lia|exact I].
  Qed.

  Lemma sa_reachable_rel sl : sa_reachable sl -> exists a, sa_rel c (fst sl) a.
  Proof.
    intros [now0 [cs ->]]. generalize (sa_rel_init c). generalize sa_ref0.
    change sa_init with (fst (sa_init, now0)) at 1. generalize (sa_init, now0).
    induction cs as [|k cs IH]; intros sl a HR; cbn [run]; eauto.
    destruct (sa_lstep_rel sl k HR) as [a' [HR' _]]. eauto.
  Qed.

  (* the ids handed out by the successful add_context_rule calls of a run, in order *)
  Fixpoint sa_added (sl : sa_state * N) (cs : list (tcall sa_call)) : list N :=
    match cs with
    | [] => []
    | k :: r =>
        let rest := sa_added (step_state (sa_lstep c) sl k) r in
        match k, sa_lstep c sl k with
        | Call (SaAddRule _ _ _ _ _), Ok (_, Some rl) => r_id rl :: rest
        | _, _ => rest
        end
    end.

  Lemma sa_added_bound cs : forall sl a, sa_rel c (fst sl) a ->
    incrb (sa_added sl cs) = true /\ (forall x, In x (sa_added sl cs) -> (rBound a <= x)%N).
  Proof.
    induction cs as [|k cs IH]; intros sl a HR; cbn [sa_added]; [split; [reflexivity|intros x []]|].
    destruct (sa_lstep_rel sl k HR) as [a' [HR' [Hb Hk]]].
    destruct (IH _ _ HR') as [Hi Hlb].
    assert (Hrest : incrb (sa_added (step_state (sa_lstep c) sl k) cs) = true /\
                    (forall x, In x (sa_added (step_state (sa_lstep c) sl k) cs) -> (rBound a <= x)%N)).
    { split; auto. intros x Hx. specialize (Hlb x Hx). lia. }
    destruct k as [[cx name until sg po|id name|id until|id|id x|id x|id p ok|id p]|n]; try exact Hrest.
    destruct (sa_lstep c sl (Call (SaAddRule cx name until sg po))) as [[s' [rl|]]|] eqn:E; try exact Hrest.
    split.
    - destruct (sa_added (step_state (sa_lstep c) sl (Call (SaAddRule cx name until sg po))) cs) as [|y r] eqn:Er; [reflexivity|].
      change (incrb (r_id rl :: y :: r)) with ((r_id rl <? y)%N && incrb (y :: r)).
      rewrite Hi, andb_true_r. apply N.ltb_lt.
      assert (Hy : (rBound a' <= y)%N) by (apply Hlb; cbn; auto). lia.
    - intros x [<-|Hx]; [lia|]. specialize (Hlb x Hx). lia.
  Qed.

  (* rule ids are never reused: the ids returned by the successful add_context_rule calls of any
     history (calls interleaved with arbitrary ledger advances) are strictly increasing *)
  Theorem sa_rule_ids_never_reused now0 cs : incrb (sa_added (sa_init, now0) cs) = true.
  Proof. apply (sa_added_bound cs (sa_init, now0) (sa_rel_init c)). Qed.

  (* after every history the storage is ONE map id -> rule: every getter answers from it, the
     count is its size, the per-type lists enumerate the rules of that type exactly once (in
     creation order), no two live rules have the same fingerprint, and signer / policy lists are
     duplicate-free, within their limits and never both empty *)
  Theorem sa_refines sl : sa_reachable sl ->
    let s := fst sl in
    exists rules,
      NoDup (map r_id rules)
      /\ (forall id, sa_get_rule s id = of_option (find_rule id rules))
      /\ sa_count0 s = length rules
      /\ (forall cx, sa_get_rules s cx = Ok (filter (fun r => ctxt_eqb (r_ctx r) cx) rules))
      /\ (forall r, In r rules -> NoDup (r_signers r) /\ NoDup (r_policies r))
      /\ (forall r, In r rules -> length (r_signers r) <= sa_max_signers c /\ length (r_policies r) <= sa_max_policies c
                                  /\ (r_signers r <> [] \/ r_policies r <> []))
      /\ (forall r1 r2, In r1 rules -> In r2 rules ->
            r_ctx r1 = r_ctx r2 -> (forall x, In x (r_signers r1) <-> In x (r_signers r2)) ->
            (forall x, In x (r_policies r1) <-> In x (r_policies r2)) -> r1 = r2).
  Proof.
    intros Hreach. cbn zeta. destruct (sa_reachable_rel Hreach) as [a HR]. exists (rRules a).
    pose proof HR as (HM & HS & HP & HI & HC & HN & HU & HB & HF & HW & HD & HV & HA).
    split; auto. split; [intros id; apply (sa_get_rule_rel id HR)|]. split; [apply (count0_rel HR)|].
    split; [|split; [auto|split]].
    - intros cx. unfold sa_get_rules. rewrite HI. apply (@mapM_get_rules c _ a); auto.
      intros x Hx. apply filter_In in Hx. tauto.
    - intros r Hr. specialize (HV r Hr). unfold sa_validate in HV. rewrite !andb_true_iff, negb_true_iff in HV.
      destruct HV as [[H1 H2] H3]. apply Nat.leb_le in H1. apply Nat.leb_le in H2. split; auto. split; auto.
      destruct (r_signers r); [|left; discriminate]. destruct (r_policies r); [discriminate|right; discriminate].
    - intros r1 r2 H1 H2 Ec Es Ep. apply HD; auto. unfold fp_same, fp_of. cbn [fst snd].
      rewrite (proj2 (ctxt_eqb_spec _ _) Ec), (proj2 (seteqb_spec signer_eqb signer_eqb_spec _ _) Es),
        (proj2 (seteqb_spec N.eqb N.eqb_eq _ _) Ep). reflexivity.
  Qed.

  (* a rule with the fingerprint of a live rule (same context type, same signer SET, same policy
     SET, in any order) is refused, at any ledger *)
  Theorem sa_duplicate_fingerprint_refused sl now id r cx name until sg po : sa_reachable sl ->
    let s := fst sl in
    sa_get_rule s id = Ok r -> r_ctx r = cx ->
    (forall x, In x sg <-> In x (r_signers r)) -> (forall p, In p (map fst po) <-> In p (r_policies r)) ->
    sa_step (sa_with_now c now) s (SaAddRule cx name until sg po) = Fail.
  Proof.
    intros Hreach. cbn zeta. intros Hg Hc Hs Hp. destruct (sa_reachable_rel Hreach) as [a HR].
    rewrite (sa_get_rule_rel id HR) in Hg. destruct (find_rule id (rRules a)) as [r'|] eqn:Ef; [|discriminate].
    inversion Hg. subst r'. destruct (find_rule_id _ _ Ef) as [_ Hin].
    cbn [sa_step]. unfold sa_add_rule.
    destruct (sa_max_rules _ <=? _); [reflexivity|]. destruct (negb (nodupb signer_eqb sg)); [reflexivity|].
    destruct (negb (until_ok _ until)); [reflexivity|]. destruct (negb (sa_validate _ sg (map fst po))); [reflexivity|].
    unfold sa_set_fp, sa_fp. destruct (negb (nodupb signer_eqb sg)); [reflexivity|].
    destruct (negb (nodupb N.eqb (map fst po))); [reflexivity|]. cbn [bind].
    rewrite (existsb_fps (cx, sg, map fst po) HR).
    replace (existsb (fun r0 => fp_same (cx, sg, map fst po) (fp_of r0)) (rRules a)) with true; [reflexivity|].
    symmetry. apply existsb_exists. exists r. split; auto. unfold fp_same, fp_of. cbn [fst snd].
    rewrite (proj2 (ctxt_eqb_spec _ _) (eq_sym Hc)), (proj2 (seteqb_spec signer_eqb signer_eqb_spec _ _) Hs),
      (proj2 (seteqb_spec N.eqb N.eqb_eq _ _) Hp). reflexivity.
  Qed.

  (* documented limits: never more than MAX_CONTEXT_RULES rules; a successful add needs room *)
  Theorem sa_rule_limit (s : sa_state) now cx name until sg po :
    is_ok (sa_step (sa_with_now c now) s (SaAddRule cx name until sg po)) = true -> sa_count0 s < sa_max_rules c.
  Proof.
    cbn [sa_step]. unfold sa_add_rule. cbn [sa_max_rules sa_with_now].
    destruct (sa_max_rules c <=? sa_count0 s) eqn:E; [discriminate|]. intros _. apply Nat.leb_gt. auto.
  Qed.

  (* ---- add_signer / add_policy: accepted iff the rule exists, the item is new, the list has
     room, (the policy installs,) and no live rule already has the resulting fingerprint ---- *)
  Lemma validate_grow_signers r x : sa_validate c (r_signers r) (r_policies r) = true ->
    sa_validate c (r_signers r ++ [x]) (r_policies r) = (length (r_signers r) <? sa_max_signers c).
  Proof.
    unfold sa_validate. rewrite !andb_true_iff. intros [[H1 H2] H3]. rewrite H2, app_length. cbn [length].
    replace (match r_signers r ++ [x], r_policies r with [], [] => true | _, _ => false end) with false
      by (destruct (r_signers r); reflexivity).
    cbn [negb]. rewrite !andb_true_r. destruct (length (r_signers r) <? sa_max_signers c) eqn:E.
    - apply Nat.ltb_lt in E. apply Nat.leb_le. lia.
    - apply Nat.ltb_ge in E. apply Nat.leb_gt. lia.
  Qed.
  Lemma validate_grow_policies r p : sa_validate c (r_signers r) (r_policies r) = true ->
    sa_validate c (r_signers r) (r_policies r ++ [p]) = (length (r_policies r) <? sa_max_policies c).
  Proof.
    unfold sa_validate. rewrite !andb_true_iff. intros [[H1 H2] H3]. rewrite H1, app_length. cbn [length andb].
    replace (match r_signers r, r_policies r ++ [p] with [], [] => true | _, _ => false end) with false
      by (destruct (r_signers r), (r_policies r); reflexivity).
    cbn [negb]. rewrite !andb_true_r. destruct (length (r_policies r) <? sa_max_policies c) eqn:E.
    - apply Nat.ltb_lt in E. apply Nat.leb_le. lia.
    - apply Nat.ltb_ge in E. apply Nat.leb_gt. lia.
  Qed.

  Theorem sa_add_signer_iff sl now id x : sa_reachable sl ->
    let s := fst sl in
    is_ok (sa_step (sa_with_now c now) s (SaAddSigner id x)) = true <->
    exists r, sa_get_rule s id = Ok r
      /\ ~ In x (r_signers r)                                           (* a duplicate signer is refused *)
      /\ length (r_signers r) < sa_max_signers c                        (* MAX_SIGNERS exactly at the limit *)
      /\ (forall id2 r2, sa_get_rule s id2 = Ok r2 ->                    (* no live rule with the new fingerprint *)
            same_fp (r_ctx r) (r_signers r ++ [x]) (r_policies r) r2 = false).
  Proof.
    intros Hreach. cbn zeta. destruct (sa_reachable_rel Hreach) as [a HR].
    pose proof HR as (_ & _ & HP & _ & _ & _ & _ & _ & _ & HW & _ & HV & _).
    cbn [sa_step]. unfold sa_add_signer. rewrite (sa_get_rule_rel id HR).
    assert (Hcoll : forall r sg po, existsb (same_fp (r_ctx r) sg po) (rRules a) = false <->
                      (forall id2 r2, sa_get_rule (fst sl) id2 = Ok r2 -> same_fp (r_ctx r) sg po r2 = false)).
    { intros r sg po. split.
      - intros H id2 r2 Hg. rewrite (sa_get_rule_rel id2 HR) in Hg.
        destruct (find_rule id2 (rRules a)) as [r2'|] eqn:E2; [|discriminate]. inversion Hg. subst r2'.
        destruct (find_rule_id _ _ E2) as [_ Hin2]. destruct (same_fp (r_ctx r) sg po r2) eqn:Es; auto.
        assert (existsb (same_fp (r_ctx r) sg po) (rRules a) = true) by (apply existsb_exists; eauto). congruence.
      - intros H. destruct (existsb (same_fp (r_ctx r) sg po) (rRules a)) eqn:E; auto.
        apply existsb_exists in E. destruct E as [r2 [Hin2 Es]].
        pose proof HR as (_ & _ & _ & _ & _ & _ & HU & _).
        rewrite (H (r_id r2) r2) in Es; [discriminate|]. rewrite (sa_get_rule_rel (r_id r2) HR).
        rewrite (@find_rule_in (r_id r2) (rRules a) r2 HU Hin2 eq_refl). reflexivity. }
    destruct (find_rule id (rRules a)) as [r|] eqn:Ef; cbn [of_option bind].
    2:{ split; [discriminate|]. intros [r [H _]]. discriminate. }
    destruct (find_rule_id _ _ Ef) as [_ Hin]. destruct (HW r Hin) as [W1 W2].
    destruct (memb signer_eqb x (r_signers r)) eqn:Em.
    { apply (memb_In signer_eqb signer_eqb_spec) in Em. split; [discriminate|].
      intros [r' [Hr [Hn _]]]. inversion Hr. subst r'. contradiction. }
    apply (memb_false signer_eqb signer_eqb_spec) in Em.
    change (sa_validate (sa_with_now c now)) with (sa_validate c).
    rewrite (validate_grow_signers r x (HV r Hin)).
    destruct (length (r_signers r) <? sa_max_signers c) eqn:El; cbn [negb].
    2:{ apply Nat.ltb_ge in El. split; [discriminate|]. intros [r' [Hr [_ [Hl _]]]]. inversion Hr. subst r'. lia. }
    apply Nat.ltb_lt in El.
    rewrite (@sp_fps c _ _ (fst sl) a r (r_signers r ++ [x]) (r_policies r) HR Hin (NoDup_snoc x W1 Em) W2).
    destruct (existsb (same_fp (r_ctx r) (r_signers r ++ [x]) (r_policies r)) (rRules a)) eqn:Ex; cbn [is_ok].
    - split; [discriminate|]. intros [r' [Hr [_ [_ Hc]]]]. inversion Hr. subst r'.
      apply (Hcoll r) in Hc. congruence.
    - split; [|reflexivity]. intros _. exists r. split; auto. split; auto. split; auto. apply (Hcoll r). auto.
  Qed.

  Theorem sa_add_policy_iff sl now id p installs : sa_reachable sl ->
    let s := fst sl in
    is_ok (sa_step (sa_with_now c now) s (SaAddPolicy id p installs)) = true <->
    exists r, sa_get_rule s id = Ok r
      /\ ~ In p (r_policies r)                                          (* a duplicate policy is refused *)
      /\ installs = true                                                (* the policy contract accepted the install *)
      /\ length (r_policies r) < sa_max_policies c                      (* MAX_POLICIES exactly at the limit *)
      /\ (forall id2 r2, sa_get_rule s id2 = Ok r2 ->
            same_fp (r_ctx r) (r_signers r) (r_policies r ++ [p]) r2 = false).
  Proof.
    intros Hreach. cbn zeta. destruct (sa_reachable_rel Hreach) as [a HR].
    pose proof HR as (_ & _ & HP & _ & _ & _ & HU & _ & _ & HW & _ & HV & _).
    cbn [sa_step]. unfold sa_add_policy. rewrite (sa_get_rule_rel id HR).
    assert (Hcoll : forall r sg po, existsb (same_fp (r_ctx r) sg po) (rRules a) = false <->
                      (forall id2 r2, sa_get_rule (fst sl) id2 = Ok r2 -> same_fp (r_ctx r) sg po r2 = false)).
    { intros r sg po. split.
      - intros H id2 r2 Hg. rewrite (sa_get_rule_rel id2 HR) in Hg.
        destruct (find_rule id2 (rRules a)) as [r2'|] eqn:E2; [|discriminate]. inversion Hg. subst r2'.
        destruct (find_rule_id _ _ E2) as [_ Hin2]. destruct (same_fp (r_ctx r) sg po r2) eqn:Es; auto.
        assert (existsb (same_fp (r_ctx r) sg po) (rRules a) = true) by (apply existsb_exists; eauto). congruence.
      - intros H. destruct (existsb (same_fp (r_ctx r) sg po) (rRules a)) eqn:E; auto.
        apply existsb_exists in E. destruct E as [r2 [Hin2 Es]].
        rewrite (H (r_id r2) r2) in Es; [discriminate|]. rewrite (sa_get_rule_rel (r_id r2) HR).
        rewrite (@find_rule_in (r_id r2) (rRules a) r2 HU Hin2 eq_refl). reflexivity. }
    destruct (find_rule id (rRules a)) as [r|] eqn:Ef; cbn [of_option bind].
    2:{ split; [discriminate|]. intros [r [H _]]. discriminate. }
    destruct (find_rule_id _ _ Ef) as [_ Hin]. destruct (HW r Hin) as [W1 W2].
    destruct (memb N.eqb p (r_policies r)) eqn:Em.
    { apply (memb_In N.eqb N.eqb_eq) in Em. split; [discriminate|].
      intros [r' [Hr [Hn _]]]. inversion Hr. subst r'. contradiction. }
    apply (memb_false N.eqb N.eqb_eq) in Em.
    destruct installs; cbn [negb].
    2:{ split; [discriminate|]. intros [r' [_ [_ [Hi _]]]]. discriminate. }
    change (sa_validate (sa_with_now c now)) with (sa_validate c).
    rewrite (validate_grow_policies r p (HV r Hin)).
    destruct (length (r_policies r) <? sa_max_policies c) eqn:El; cbn [negb].
    2:{ apply Nat.ltb_ge in El. split; [discriminate|]. intros [r' [Hr [_ [_ [Hl _]]]]]. inversion Hr. subst r'. lia. }
    apply Nat.ltb_lt in El.
    rewrite (@sp_fps c _ _ (fst sl) a r (r_signers r) (r_policies r ++ [p]) HR Hin W1 (NoDup_snoc p W2 Em)).
    destruct (existsb (same_fp (r_ctx r) (r_signers r) (r_policies r ++ [p])) (rRules a)) eqn:Ex; cbn [is_ok].
    - split; [discriminate|]. intros [r' [Hr [_ [_ [_ Hc]]]]]. inversion Hr. subst r'.
      apply (Hcoll r) in Hc. congruence.
    - split; [|reflexivity]. intros _. exists r. split; auto. split; auto. split; auto. split; auto. apply (Hcoll r). auto.
  Qed.

  (* ---- the remaining smart-account calls: accepted IFF ... (duplicates / absent refused, limits exact) ---- *)
  Lemma sa_collision_iff (sl : sa_state * N) a : sa_rel c (fst sl) a -> forall cx sg po,
    existsb (same_fp cx sg po) (rRules a) = false <->
    (forall id2 r2, sa_get_rule (fst sl) id2 = Ok r2 -> same_fp cx sg po r2 = false).
  Proof.
    intros HR cx sg po. pose proof HR as (_ & _ & _ & _ & _ & _ & HU & _). split.
    - intros H id2 r2 Hg. rewrite (sa_get_rule_rel id2 HR) in Hg.
      destruct (find_rule id2 (rRules a)) as [r2'|] eqn:E2; [|discriminate]. inversion Hg. subst r2'.
      destruct (find_rule_id _ _ E2) as [_ Hin2]. destruct (same_fp cx sg po r2) eqn:Es; auto.
      assert (existsb (same_fp cx sg po) (rRules a) = true) by (apply existsb_exists; eauto). congruence.
    - intros H. destruct (existsb (same_fp cx sg po) (rRules a)) eqn:E; auto.
      apply existsb_exists in E. destruct E as [r2 [Hin2 Es]].
      rewrite (H (r_id r2) r2) in Es; [discriminate|]. rewrite (sa_get_rule_rel (r_id r2) HR).
      rewrite (@find_rule_in (r_id r2) (rRules a) r2 HU Hin2 eq_refl). reflexivity.
  Qed.

  (* add_context_rule: MAX_CONTEXT_RULES exactly at the limit, duplicate signers refused, limits of the
     lists, past valid_until refused, duplicate fingerprint refused, every policy must install *)
  Theorem sa_add_rule_iff sl now cx name until sg po : sa_reachable sl ->
    let s := fst sl in
    is_ok (sa_step (sa_with_now c now) s (SaAddRule cx name until sg po)) = true <->
    sa_count0 s < sa_max_rules c
    /\ NoDup sg /\ NoDup (map fst po)
    /\ until_ok (sa_with_now c now) until = true
    /\ sa_validate c sg (map fst po) = true
    /\ (forall id2 r2, sa_get_rule s id2 = Ok r2 -> same_fp cx sg (map fst po) r2 = false)
    /\ forallb snd po = true
    /\ (match sa_next s with Some n => n | None => 0 end < 4294967295)%N.
  Proof.
    intros Hreach. cbn zeta. destruct (sa_reachable_rel Hreach) as [a HR].
    pose proof (sa_collision_iff sl HR cx sg (map fst po)) as Hcoll.
    cbn [sa_step]. unfold sa_add_rule. cbn [sa_max_rules sa_with_now].
    change (sa_validate (sa_with_now c now)) with (sa_validate c).
    destruct (sa_max_rules c <=? sa_count0 (fst sl)) eqn:E1.
    { apply Nat.leb_le in E1. split; [discriminate|]. intros [H _]. lia. }
    apply Nat.leb_gt in E1.
    destruct (nodupb signer_eqb sg) eqn:E2; cbn [negb].
    2:{ split; [discriminate|]. intros (_ & H & _). apply (nodupb_NoDup signer_eqb signer_eqb_spec) in H. congruence. }
    destruct (until_ok (sa_with_now c now) until) eqn:E3; cbn [negb].
    2:{ split; [discriminate|]. intros (_ & _ & _ & H & _). discriminate. }
    destruct (sa_validate c sg (map fst po)) eqn:E4; cbn [negb].
    2:{ split; [discriminate|]. intros (_ & _ & _ & _ & H & _). discriminate. }
    unfold sa_set_fp, sa_fp. rewrite E2. cbn [negb].
    destruct (nodupb N.eqb (map fst po)) eqn:E5; cbn [negb bind].
    2:{ split; [discriminate|]. intros (_ & _ & H & _). apply (nodupb_NoDup N.eqb N.eqb_eq) in H. congruence. }
    rewrite (existsb_fps (cx, sg, map fst po) HR).
    change (existsb (fun r => fp_same (cx, sg, map fst po) (fp_of r)) (rRules a)) with (existsb (same_fp cx sg (map fst po)) (rRules a)).
    destruct (existsb (same_fp cx sg (map fst po)) (rRules a)) eqn:E6.
    { split; [discriminate|]. intros (_ & _ & _ & _ & _ & H & _). apply Hcoll in H. congruence. }
    cbn [bind]. destruct (forallb snd po) eqn:E7; cbn [negb].
    2:{ split; [discriminate|]. intros (_ & _ & _ & _ & _ & _ & H & _). discriminate. }
    destruct (in_u32 (Z.of_N match sa_next (fst sl) with Some n => n | None => 0%N end + 1)) eqn:E8; cbn [negb is_ok].
    - unfold in_u32 in E8. rewrite maxu32_val in E8. apply andb_prop in E8. destruct E8 as [_ E8]. apply Z.leb_le in E8.
      split; auto. intros _. split; auto. split; [apply (nodupb_NoDup signer_eqb signer_eqb_spec); auto|].
      split; [apply (nodupb_NoDup N.eqb N.eqb_eq); auto|]. split; auto. split; auto. split; [apply Hcoll; auto|]. split; auto. lia.
    - unfold in_u32 in E8. rewrite maxu32_val in E8. apply andb_false_iff in E8.
      split; [discriminate|]. intros (_ & _ & _ & _ & _ & _ & _ & H).
      destruct E8 as [E8|E8]; apply Z.leb_gt in E8; lia.
  Qed.

  Theorem sa_remove_rule_iff sl now id : sa_reachable sl ->
    is_ok (sa_step (sa_with_now c now) (fst sl) (SaRemoveRule id)) = is_ok (sa_get_rule (fst sl) id).
  Proof.
    intros Hreach. destruct (sa_reachable_rel Hreach) as [a HR].
    pose proof (sa_remove_rule_sim id HR) as [a' [H _]]. cbn [sa_step sa_spec] in *.
    rewrite (sa_get_rule_rel id HR) in *.
    destruct (sa_remove_rule (fst sl) id) as [s'|]; cbn [bind is_ok];
      destruct (find_rule id (rRules a)); cbn [of_option is_ok]; auto; discriminate.
  Qed.
  Theorem sa_update_name_iff sl now id name : sa_reachable sl ->
    is_ok (sa_step (sa_with_now c now) (fst sl) (SaUpdateName id name)) = is_ok (sa_get_rule (fst sl) id).
  Proof.
    intros _. cbn [sa_step]. unfold sa_update_name. destruct (sa_get_rule (fst sl) id); reflexivity.
  Qed.
  Theorem sa_update_until_iff sl now id until : sa_reachable sl ->
    is_ok (sa_step (sa_with_now c now) (fst sl) (SaUpdateUntil id until)) =
    is_ok (sa_get_rule (fst sl) id) && until_ok (sa_with_now c now) until.
  Proof.
    intros _. cbn [sa_step]. unfold sa_update_until. destruct (sa_get_rule (fst sl) id); cbn [bind is_ok andb]; auto.
    destruct (until_ok (sa_with_now c now) until); reflexivity.
  Qed.

  Lemma validate_shrink_signers r x : sa_validate c (r_signers r) (r_policies r) = true ->
    sa_validate c (rem signer_eqb x (r_signers r)) (r_policies r) =
    negb (match rem signer_eqb x (r_signers r), r_policies r with [], [] => true | _, _ => false end).
  Proof.
    unfold sa_validate. rewrite !andb_true_iff. intros [[H1 H2] H3]. rewrite H2.
    replace (length (rem signer_eqb x (r_signers r)) <=? sa_max_signers c) with true; [reflexivity|].
    symmetry. apply Nat.leb_le. apply Nat.leb_le in H1.
    assert (length (rem signer_eqb x (r_signers r)) <= length (r_signers r)); [|lia].
    clear. induction (r_signers r) as [|y l IH]; cbn; auto. destruct (signer_eqb x y); cbn; lia.
  Qed.
  Lemma validate_shrink_policies r p : sa_validate c (r_signers r) (r_policies r) = true ->
    sa_validate c (r_signers r) (rem N.eqb p (r_policies r)) =
    negb (match r_signers r, rem N.eqb p (r_policies r) with [], [] => true | _, _ => false end).
  Proof.
    unfold sa_validate. rewrite !andb_true_iff. intros [[H1 H2] H3]. rewrite H1.
    replace (length (rem N.eqb p (r_policies r)) <=? sa_max_policies c) with true; [reflexivity|].
    symmetry. apply Nat.leb_le. apply Nat.leb_le in H2.
    assert (length (rem N.eqb p (r_policies r)) <= length (r_policies r)); [|lia].
    clear. induction (r_policies r) as [|y l IH]; cbn; auto. destruct (N.eqb p y); cbn; lia.
  Qed.

  (* remove_signer: accepted IFF the rule exists, holds the signer (an absent one is refused), is not
     left without any signer and policy, and no live rule already has the resulting fingerprint *)
  Theorem sa_remove_signer_iff sl now id x : sa_reachable sl ->
    let s := fst sl in
    is_ok (sa_step (sa_with_now c now) s (SaRemoveSigner id x)) = true <->
    exists r, sa_get_rule s id = Ok r /\ In x (r_signers r)
      /\ (rem signer_eqb x (r_signers r) <> [] \/ r_policies r <> [])
      /\ (forall id2 r2, sa_get_rule s id2 = Ok r2 ->
            same_fp (r_ctx r) (rem signer_eqb x (r_signers r)) (r_policies r) r2 = false).
  Proof.
    intros Hreach. cbn zeta. destruct (sa_reachable_rel Hreach) as [a HR].
    pose proof HR as (_ & _ & _ & _ & _ & _ & _ & _ & _ & HW & _ & HV & _).
    cbn [sa_step]. unfold sa_remove_signer. rewrite (sa_get_rule_rel id HR).
    destruct (find_rule id (rRules a)) as [r|] eqn:Ef; cbn [of_option bind].
    2:{ split; [discriminate|]. intros [r [H _]]. discriminate. }
    destruct (find_rule_id _ _ Ef) as [_ Hin]. destruct (HW r Hin) as [W1 W2].
    pose proof (sa_collision_iff sl HR (r_ctx r) (rem signer_eqb x (r_signers r)) (r_policies r)) as Hcoll.
    rewrite (rindex_of_NoDup signer_eqb signer_eqb_spec x W1).
    destruct (index_of signer_eqb x (r_signers r)) as [p|] eqn:Ep.
    2:{ apply (index_of_None signer_eqb signer_eqb_spec) in Ep. split; [discriminate|].
        intros [r' [Hr [Hi _]]]. inversion Hr. subst r'. contradiction. }
    assert (Hx : In x (r_signers r)) by (destruct (index_of_Some signer_eqb signer_eqb_spec _ _ Ep) as [H _]; eapply nth_error_In; eauto).
    rewrite (remove_at_index_of signer_eqb signer_eqb_spec x W1 Ep).
    change (sa_validate (sa_with_now c now)) with (sa_validate c).
    rewrite (validate_shrink_signers r x (HV r Hin)).
    assert (Hne : (match rem signer_eqb x (r_signers r), r_policies r with [], [] => true | _, _ => false end) = false
                  <-> (rem signer_eqb x (r_signers r) <> [] \/ r_policies r <> [])).
    { destruct (rem signer_eqb x (r_signers r)), (r_policies r); split; intros H; try reflexivity; try discriminate;
        try (left; discriminate); try (right; discriminate). destruct H; congruence. }
    destruct (match rem signer_eqb x (r_signers r), r_policies r with [], [] => true | _, _ => false end) eqn:Em; cbn [negb].
    { split; [discriminate|]. intros [r' [Hr [_ [H _]]]]. inversion Hr. subst r'. apply Hne in H. discriminate. }
    rewrite (@sp_fps c _ _ (fst sl) a r (rem signer_eqb x (r_signers r)) (r_policies r) HR Hin
               (rem_NoDup signer_eqb signer_eqb_spec x W1) W2).
    destruct (existsb (same_fp (r_ctx r) (rem signer_eqb x (r_signers r)) (r_policies r)) (rRules a)) eqn:Ex; cbn [is_ok].
    - split; [discriminate|]. intros [r' [Hr [_ [_ Hc]]]]. inversion Hr. subst r'. apply Hcoll in Hc. congruence.
    - split; [|reflexivity]. intros _. exists r. split; auto. split; auto. split; [apply Hne; auto|apply Hcoll; auto].
  Qed.

  Theorem sa_remove_policy_iff sl now id p : sa_reachable sl ->
    let s := fst sl in
    is_ok (sa_step (sa_with_now c now) s (SaRemovePolicy id p)) = true <->
    exists r, sa_get_rule s id = Ok r /\ In p (r_policies r)
      /\ (r_signers r <> [] \/ rem N.eqb p (r_policies r) <> [])
      /\ (forall id2 r2, sa_get_rule s id2 = Ok r2 ->
            same_fp (r_ctx r) (r_signers r) (rem N.eqb p (r_policies r)) r2 = false).
  Proof.
    intros Hreach. cbn zeta. destruct (sa_reachable_rel Hreach) as [a HR].
    pose proof HR as (_ & _ & _ & _ & _ & _ & _ & _ & _ & HW & _ & HV & _).
    cbn [sa_step]. unfold sa_remove_policy. rewrite (sa_get_rule_rel id HR).
    destruct (find_rule id (rRules a)) as [r|] eqn:Ef; cbn [of_option bind].
    2:{ split; [discriminate|]. intros [r [H _]]. discriminate. }
    destruct (find_rule_id _ _ Ef) as [_ Hin]. destruct (HW r Hin) as [W1 W2].
    pose proof (sa_collision_iff sl HR (r_ctx r) (r_signers r) (rem N.eqb p (r_policies r))) as Hcoll.
    rewrite (rindex_of_NoDup N.eqb N.eqb_eq p W2).
    destruct (index_of N.eqb p (r_policies r)) as [i0|] eqn:Ep.
    2:{ apply (index_of_None N.eqb N.eqb_eq) in Ep. split; [discriminate|].
        intros [r' [Hr [Hi _]]]. inversion Hr. subst r'. contradiction. }
    assert (Hx : In p (r_policies r)) by (destruct (index_of_Some N.eqb N.eqb_eq _ _ Ep) as [H _]; eapply nth_error_In; eauto).
    rewrite (remove_at_index_of N.eqb N.eqb_eq p W2 Ep).
    change (sa_validate (sa_with_now c now)) with (sa_validate c).
    rewrite (validate_shrink_policies r p (HV r Hin)).
    assert (Hne : (match r_signers r, rem N.eqb p (r_policies r) with [], [] => true | _, _ => false end) = false
                  <-> (r_signers r <> [] \/ rem N.eqb p (r_policies r) <> [])).
    { destruct (r_signers r), (rem N.eqb p (r_policies r)); split; intros H; try reflexivity; try discriminate;
        try (left; discriminate); try (right; discriminate). destruct H; congruence. }
    destruct (match r_signers r, rem N.eqb p (r_policies r) with [], [] => true | _, _ => false end) eqn:Em; cbn [negb].
    { split; [discriminate|]. intros [r' [Hr [_ [H _]]]]. inversion Hr. subst r'. apply Hne in H. discriminate. }
    rewrite (@sp_fps c _ _ (fst sl) a r (r_signers r) (rem N.eqb p (r_policies r)) HR Hin W1
               (rem_NoDup N.eqb N.eqb_eq p W2)).
    destruct (existsb (same_fp (r_ctx r) (r_signers r) (rem N.eqb p (r_policies r))) (rRules a)) eqn:Ex; cbn [is_ok].
    - split; [discriminate|]. intros [r' [Hr [_ [_ Hc]]]]. inversion Hr. subst r'. apply Hcoll in Hc. congruence.
    - split; [|reflexivity]. intros _. exists r. split; auto. split; auto. split; [apply Hne; auto|apply Hcoll; auto].
  Qed.
End SAProps.
