(* C17: the executable digest type [dg] with the table-driven hash [Htab] satisfies the
   hypotheses of Proofs/Merkle.v:
   - dg_cmp is a decidable strict total order (equality test, asymmetry, trichotomy);
   - Htab t is injective as soon as no two entries of the table have the same output
     (checked on every trace: [tab_sorted]);  with the empty table Htab [] = Pr is the free
     term algebra, for which all hypotheses hold unconditionally (non-vacuity);
   - digests that are not outputs of the table are never pair hashes. *)
From SC Require Import Lib.Prelude Lib.Int Lib.Host Model.Merkle Proofs.Merkle Run.C17.

Lemma dg_cmp_eq : forall a b, dg_cmp a b = Eq <-> a = b.
Proof.
  induction a as [n|a1 IH1 a2 IH2]; destruct b as [m|b1 b2]; cbn [dg_cmp]; try (split; [discriminate|discriminate]).
  - rewrite N.compare_eq_iff. split; congruence.
  - split.
    + destruct (dg_cmp a1 b1) eqn:E; try discriminate. intros E2.
      apply IH1 in E. apply IH2 in E2. congruence.
    + intros E. inversion E; subst. rewrite (proj2 (IH1 b1) eq_refl). apply IH2. reflexivity.
Qed.

Lemma dg_cmp_antisym : forall a b, dg_cmp b a = CompOpp (dg_cmp a b).
Proof.
  induction a as [n|a1 IH1 a2 IH2]; destruct b as [m|b1 b2]; cbn [dg_cmp]; try reflexivity.
  - apply N.compare_antisym.
  - rewrite IH1. destruct (dg_cmp a1 b1); cbn [CompOpp]; auto.
Qed.

Lemma dg_eqb_spec : forall a b, dg_eqb a b = true <-> a = b.
Proof.
  intros a b. unfold dg_eqb. rewrite <- dg_cmp_eq. destruct (dg_cmp a b); split; congruence.
Qed.

Lemma dg_gtb_asym : forall a b, dg_gtb a b = true -> dg_gtb b a = false.
Proof.
  intros a b. unfold dg_gtb. rewrite (dg_cmp_antisym a b). destruct (dg_cmp a b); cbn; congruence.
Qed.

Lemma dg_gtb_total : forall a b, dg_gtb a b = false -> dg_gtb b a = false -> a = b.
Proof.
  intros a b. unfold dg_gtb. rewrite (dg_cmp_antisym a b). intros H1 H2. apply dg_cmp_eq.
  destruct (dg_cmp a b); cbn in *; congruence.
Qed.

Lemma dg_gtb_at a b : dg_gtb (At a) (At b) = false <-> (a <= b)%N.
Proof.
  unfold dg_gtb. cbn [dg_cmp]. unfold N.le. destruct (a ?= b)%N; split; intros; try congruence; try discriminate.
Qed.

Lemma plist_eqb_spec : forall a b, plist_eqb a b = true <-> a = b.
Proof.
  induction a as [|x a IH]; destruct b as [|y b]; cbn [plist_eqb]; try (split; [discriminate|discriminate]).
  - tauto.
  - rewrite andb_true_iff, dg_eqb_spec, IH. split; [intros [-> ->]; reflexivity|intros E; inversion E; auto].
Qed.

(* ---------------- the table ---------------- *)
Lemma tab_get_in : forall t a b c, tab_get t a b = Some c -> In (a, b, c) t.
Proof.
  induction t as [|[[a' b'] c'] r IH]; intros a b c; cbn [tab_get]; [discriminate|].
  destruct (N.eqb a a' && N.eqb b b') eqn:E.
  - intros E2. inversion E2; subst. apply andb_prop in E. destruct E as [E1 E3].
    apply N.eqb_eq in E1, E3. subst. left. reflexivity.
  - intros E2. right. apply IH. exact E2.
Qed.

Lemma tab_sorted_from_spec : forall t last, tab_sorted_from last t = true ->
  (forall e, In e t -> match last with Some l => (l < snd e)%N | None => True end) /\ NoDup (map snd t).
Proof.
  induction t as [|[[a b] c] r IH]; intros last Hs; cbn [tab_sorted_from] in Hs.
  - split; [intros e []|constructor].
  - apply andb_prop in Hs. destruct Hs as [Hl Hr]. destruct (IH _ Hr) as [Hall Hnd]. split.
    + intros e [<-|Hin]; cbn [snd].
      * destruct last; [apply N.ltb_lt; exact Hl|exact I].
      * specialize (Hall _ Hin). cbn in Hall. destruct last as [l|]; [|exact I].
        apply N.ltb_lt in Hl. lia.
    + cbn [map snd]. constructor; [|exact Hnd]. intros Hin. apply in_map_iff in Hin.
      destruct Hin as [e [He Hin]]. specialize (Hall _ Hin). cbn in Hall. lia.
Qed.

Lemma nodup_map_inj {A B} (f : A -> B) : forall l x y, NoDup (map f l) -> In x l -> In y l -> f x = f y -> x = y.
Proof.
  induction l as [|z l IH]; intros x y Hn Hx Hy E; [destruct Hx|].
  cbn [map] in Hn. inversion Hn; subst.
  destruct Hx as [->|Hx], Hy as [->|Hy]; auto.
  - exfalso. apply H1. rewrite E. apply in_map. exact Hy.
  - exfalso. apply H1. rewrite <- E. apply in_map. exact Hx.
Qed.

Lemma tab_get_inj : forall t a b c d x, tab_sorted t = true ->
  tab_get t a b = Some x -> tab_get t c d = Some x -> a = c /\ b = d.
Proof.
  intros t a b c d x Hs H1 H2. apply tab_get_in in H1, H2.
  destruct (tab_sorted_from_spec _ _ Hs) as [_ Hn].
  assert (E : (a, b, x) = (c, d, x)) by (eapply (nodup_map_inj snd); eauto).
  inversion E; auto.
Qed.

Theorem Htab_inj : forall t, tab_sorted t = true ->
  forall a b c d, Htab t a b = Htab t c d -> a = c /\ b = d.
Proof.
  intros t Hs a b c d. unfold Htab.
  destruct a as [a|a1 a2], b as [b|b1 b2], c as [c|c1 c2], d as [d|d1 d2];
    try (intros E; inversion E; auto; fail);
    try (destruct (tab_get t a b); intros E; inversion E; auto; fail);
    try (destruct (tab_get t c d); intros E; inversion E; auto; fail).
  destruct (tab_get t a b) as [x|] eqn:E1, (tab_get t c d) as [y|] eqn:E2; intros E; inversion E; subst; auto.
  destruct (tab_get_inj _ _ _ _ _ _ Hs E1 E2). subst. auto.
Qed.

(* the free term algebra: no table at all *)
Lemma Htab_nil : forall a b, Htab [] a b = Pr a b.
Proof. intros [a|a1 a2] [b|b1 b2]; reflexivity. Qed.

(* ---------------- leaves are not node hashes ---------------- *)
Lemma in_range_of_get t a b c : tab_get t a b = Some c -> in_range t c = true.
Proof.
  intros Hg. apply tab_get_in in Hg. unfold in_range. apply existsb_exists.
  exists (a, b, c). split; [exact Hg|]. cbn. apply N.eqb_refl.
Qed.

Lemma leafp_i_node : forall t a b, leafp_i t (Htab t a b) = true -> False.
Proof.
  intros t a b. unfold Htab. destruct a as [a|? ?], b as [b|? ?]; cbn [leafp_i]; try discriminate.
  destruct (tab_get t a b) as [c|] eqn:E; cbn [leafp_i]; [|discriminate].
  rewrite (in_range_of_get _ _ _ _ E). discriminate.
Qed.

Lemma leafp_s_cnode : forall t a b, leafp_s t (cpair (Htab t) dg_gtb a b) = true -> False.
Proof.
  intros t a b. unfold cpair.
  assert (Hk : forall x y, dg_gtb x y = false -> leafp_s t (Htab t x y) = true -> False).
  { intros x y Hxy. unfold Htab. destruct x as [x|? ?], y as [y|? ?]; cbn [leafp_s]; try discriminate.
    destruct (tab_get t x y) as [c|] eqn:E; cbn [leafp_s]; [|discriminate].
    apply dg_gtb_at in Hxy. apply tab_get_in in E.
    assert (Hc : in_crange t c = true).
    { unfold in_crange. apply existsb_exists. exists (x, y, c). split; [exact E|]. cbn.
      rewrite N.eqb_refl. apply N.leb_le. exact Hxy. }
    rewrite Hc. discriminate. }
  destruct (dg_gtb a b) eqn:E.
  - apply Hk. apply dg_gtb_asym. exact E.
  - apply Hk. exact E.
Qed.

(* ---------------- non-vacuity: the hypotheses of Proofs/Merkle.v hold for the free algebra ---------------- *)
Definition free_leaf (d : dg) : Prop := is_at d = true.

Example free_algebra_satisfies_hypotheses :
  (forall a b, dg_eqb a b = true <-> a = b) /\
  (forall a b c d, Pr a b = Pr c d -> a = c /\ b = d) /\
  (forall a b, dg_gtb a b = true -> dg_gtb b a = false) /\
  (forall a b, dg_gtb a b = false -> dg_gtb b a = false -> a = b) /\
  (forall a b, ~ free_leaf (Pr a b)) /\
  (forall a b, ~ free_leaf (cpair Pr dg_gtb a b)).
Proof.
  repeat split; try (intros; inversion H; auto; fail).
  - apply dg_eqb_spec.
  - apply dg_eqb_spec.
  - apply dg_gtb_asym.
  - apply dg_gtb_total.
  - intros a b. unfold free_leaf. cbn. discriminate.
  - intros a b. unfold free_leaf, cpair. destruct (dg_gtb a b); cbn; discriminate.
Qed.

(* ---------------- the leaf-hash table ---------------- *)
Lemma ltab_get_in : forall t i a m c, ltab_get t i a m = Some c -> In (i, a, m, c) t.
Proof.
  induction t as [|[[[i' a'] m'] c'] r IH]; intros i a m c; cbn [ltab_get]; [discriminate|].
  destruct (N.eqb i i' && N.eqb a a' && Z.eqb m m') eqn:E.
  - intros E2. inversion E2; subst. apply andb_prop in E. destruct E as [E E3].
    apply andb_prop in E. destruct E as [E1 E2'].
    apply N.eqb_eq in E1, E2'. apply Z.eqb_eq in E3. subst. left. reflexivity.
  - intros E2. right. apply IH. exact E2.
Qed.

Lemma lkey_eqb_spec x y : lkey_eqb x y = true -> fst x = fst y.
Proof.
  destruct x as [[[i a] m] c], y as [[[i' a'] m'] c']. unfold lkey_eqb. cbn [fst snd].
  intros E. apply andb_prop in E. destruct E as [E E3]. apply andb_prop in E. destruct E as [E1 E2].
  apply N.eqb_eq in E1, E2. apply Z.eqb_eq in E3. subst. reflexivity.
Qed.

Lemma ltab_ok_spec : forall t l, ltab_ok t l = true ->
  (forall e, In e l -> in_range t (snd e) = false) /\
  (forall e e', In e l -> In e' l -> snd e = snd e' -> fst e = fst e').
Proof.
  induction l as [|e0 r IH]; intros Hok; [split; [intros ? []|intros ? ? []]|].
  cbn [ltab_ok] in Hok. apply andb_prop in Hok. destruct Hok as [Hok Hr].
  apply andb_prop in Hok. destruct Hok as [Hrange Hall].
  destruct (IH Hr) as [IH1 IH2]. rewrite forallb_forall in Hall. split.
  - intros e [<-|Hin]; [destruct (in_range t (snd e0)); [discriminate|reflexivity]|auto].
  - assert (Hk : forall e', In e' r -> snd e' = snd e0 -> fst e' = fst e0).
    { intros e' Hin Es. specialize (Hall _ Hin). apply orb_prop in Hall. destruct Hall as [Hn|Hk].
      - rewrite Es, N.eqb_refl in Hn. discriminate.
      - apply lkey_eqb_spec. exact Hk. }
    intros e e' [<-|Hin] [<-|Hin'] Es; auto.
    + symmetry. apply Hk; auto.
Qed.

(* on a well-formed header the leaf hashes the harness evaluated behave like an ideal leaf hash:
   one digest is the hash of one (index, address, amount) only, and never the output of a pair hash *)
Theorem ltab_hits_ideal : forall h, wf_hdr h = true ->
  (forall i a m i' a' m' c,
     ltab_get (h_ltab h) i a m = Some c -> ltab_get (h_ltab h) i' a' m' = Some c -> (i, a, m) = (i', a', m')) /\
  (forall i a m c x y, ltab_get (h_ltab h) i a m = Some c -> At c <> Htab (h_tab h) x y).
Proof.
  intros h Hwf. unfold wf_hdr in Hwf. apply andb_prop in Hwf. destruct Hwf as [_ Hl].
  destruct (ltab_ok_spec _ _ Hl) as [H1 H2]. split.
  - intros i a m i' a' m' c E1 E2. apply ltab_get_in in E1, E2.
    exact (H2 _ _ E1 E2 eq_refl).
  - intros i a m c x y E Ec. apply ltab_get_in in E. specialize (H1 _ E). cbn [snd] in H1.
    unfold Htab in Ec. destruct x as [x|? ?], y as [y|? ?]; try discriminate.
    destruct (tab_get (h_tab h) x y) as [c'|] eqn:Eg; [|discriminate].
    inversion Ec; subst c'. rewrite (in_range_of_get _ _ _ _ Eg) in H1. discriminate.
Qed.

(* ---------------- a witness for the hypotheses of the end-to-end theorems ---------------- *)
(* free algebra with a formal leaf-hash constructor: H := FP, LH := FL *)
Inductive fd := FL (i : N) (a : addr) (m : Z) | FP (x y : fd).
Fixpoint fd_eqb (x y : fd) : bool :=
  match x, y with
  | FL i a m, FL i' a' m' => N.eqb i i' && N.eqb a a' && Z.eqb m m'
  | FP a b, FP c d => fd_eqb a c && fd_eqb b d
  | _, _ => false
  end.
Lemma fd_eqb_spec : forall x y, fd_eqb x y = true <-> x = y.
Proof.
  induction x as [i a m|a IHa b IHb]; destruct y as [i' a' m'|c d]; cbn [fd_eqb]; try (split; discriminate).
  - rewrite !andb_true_iff, !N.eqb_eq, Z.eqb_eq. split; [intros [[-> ->] ->]; reflexivity|intros E; inversion E; auto].
  - rewrite andb_true_iff, IHa, IHb. split; [intros [-> ->]; reflexivity|intros E; inversion E; auto].
Qed.

Example end_to_end_hypotheses_satisfiable :
  (forall a b, fd_eqb a b = true <-> a = b) /\
  (forall a b c d, FP a b = FP c d -> a = c /\ b = d) /\
  (forall i a m i' a' m', FL i a m = FL i' a' m' -> (i, a, m) = (i', a', m')) /\
  (forall i a m x y, FL i a m <> FP x y).
Proof.
  split; [exact fd_eqb_spec|]. split; [intros a b c d E; inversion E; auto|].
  split; [intros i a m i' a' m' E; inversion E; reflexivity|intros; discriminate].
Qed.
