(* C13: facts about the situation classes K1 - K6 (special addresses, unusual argument values, sibling entry
   paths, aliasing) that the correspondence harness now drives deterministically.

     K1  an address nobody can authorise for - the token contract's own address, an account address the
         harness cannot sign for - is a pure sink of a fungible votes token: it can receive, be a delegatee,
         be queried, but its balance never decreases and it never gets a delegate;
     K2  a zero amount changes nothing any getter can see (no checkpoint is written);
     K3  a transfer to a muxed destination is the transfer to its address;
     K5  a transfer between two accounts with the same delegate (in particular a self-transfer) writes no
         checkpoint; a self-transfer changes nothing any getter can see. *)
From SC Require Import Lib.Prelude Lib.Int Lib.Host Model.Votes
  Proofs.VotesTimeline Proofs.VotesState Proofs.VotesRun.
Open Scope Z_scope.

(* ------------------------------------------------------------------ *)
(* two states no getter can tell apart                                  *)
(* ------------------------------------------------------------------ *)
Definition same_view (s s' : state) : Prop :=
  s_now s' = s_now s /\ s_supply s' = s_supply s /\
  (forall a, balance_of s' a = balance_of s a) /\
  (forall a, units_of (s_v s') a = units_of (s_v s) a) /\
  (forall a, delegate_of (s_v s') a = delegate_of (s_v s) a) /\
  (forall a, tl_of (s_v s') a = tl_of (s_v s) a) /\
  v_ts (s_v s') = v_ts (s_v s) /\
  (forall id, owner_of s' id = owner_of s id).

Lemma same_view_refl s : same_view s s.
Proof. repeat split. Qed.

Lemma same_view_observe h s s' qs : same_view s s' -> observe h s' qs = observe h s qs.
Proof.
  intros [Hn [Hs [Hb [Hu [Hd [Ht [Hts Ho]]]]]]]. unfold observe. rewrite Hn, Hs, Hts.
  unfold get_total_supply. rewrite Hts. f_equal.
  - apply map_ext. intros a. unfold observe_acct, get_votes. rewrite Hb, Hu, Hd, Ht. reflexivity.
  - apply map_ext. intros i. apply Ho.
  - apply map_ext. intros q. unfold observe_past, get_votes_at, get_total_supply_at. rewrite Hn, Hts. f_equal. f_equal.
    apply map_ext. intros a. rewrite Ht. reflexivity.
Qed.

(* the core of two states (ledger, votes state, balances) is the same and so are supply and nft owners *)
Lemma same_core_view s s' : same_core s s' -> s_supply s' = s_supply s -> (forall id, owner_of s' id = owner_of s id) ->
  same_view s s'.
Proof.
  intros [A [B C]] Hs Ho. unfold same_view. rewrite B. repeat split; auto.
Qed.

Lemma ind_zero b : ind b 0 = 0.
Proof. destruct b; reflexivity. Qed.

(* ------------------------------------------------------------------ *)
(* what the token layers leave alone                                    *)
(* ------------------------------------------------------------------ *)
Lemma set_allowance_frame h s o sp amt live s' : set_allowance h s o sp amt live = Ok s' ->
  s_supply s' = s_supply s /\ s_owner s' = s_owner s.
Proof. unfold set_allowance. intros H. inv_bind H. inv_guards. split; reflexivity. Qed.

Lemma spend_allowance_frame h s o sp amt s' : spend_allowance h s o sp amt = Ok s' ->
  s_supply s' = s_supply s /\ s_owner s' = s_owner s.
Proof.
  unfold spend_allowance. intros H. inv_bind H. destruct (0 <? amt).
  - eapply set_allowance_frame; eauto.
  - inv_guards. split; reflexivity.
Qed.

Lemma f_update_frame s from to amt s' : f_update s from to amt = Ok s' ->
  s_supply s' = s_supply s + ind (is_none_addr from) amt - ind (is_none_addr to) amt /\
  s_owner s' = s_owner s /\ s_alw s' = s_alw s.
Proof.
  unfold f_update. intros H. inv_bind H. inv_guards. rename x0 into s1.
  assert (M1 : s_supply s1 = s_supply s + ind (is_none_addr from) amt /\ s_owner s1 = s_owner s /\ s_alw s1 = s_alw s).
  { destruct from as [f|].
    - inv_bind Hx0. inv_guards. cbn. repeat split; lia.
    - inv_bind Hx0. inv_guards. unfold checked_add, fit128 in Hx1.
      destruct (in_i128 (s_supply s + amt)); [|discriminate]. inversion Hx1; subst. cbn. repeat split; lia. }
  destruct M1 as [S1 [O1 A1]].
  destruct to as [t|].
  - inv_bind H. inv_guards. cbn. rewrite S1, O1, A1. repeat split; lia.
  - inv_bind H. inv_guards. unfold fit128 in Hx1.
    destruct (in_i128 (s_supply s1 - amt)); [|discriminate]. inversion Hx1; subst. cbn. rewrite S1, O1, A1. repeat split; lia.
Qed.

(* ------------------------------------------------------------------ *)
(* K5: the two parties have the same delegate                           *)
(* ------------------------------------------------------------------ *)
Lemma tvu_same_delegate now v f t amt v' :
  transfer_voting_units now v (Some f) (Some t) amt = Ok v' ->
  delegate_of v f = delegate_of v t ->
  (forall a, tl_of v' a = tl_of v a) /\ v_ts v' = v_ts v /\
  (forall a, delegate_of v' a = delegate_of v a) /\
  (forall a, units_of v' a = units_of v a - ind (N.eqb a f) amt + ind (N.eqb a t) amt).
Proof.
  unfold transfer_voting_units. intros H Hd. destruct (amt =? 0) eqn:E.
  - apply Z.eqb_eq in E. subst amt. inversion H; subst. repeat split; auto. intros a. rewrite !ind_zero. lia.
  - inv_bind H. unfold move_delegate_votes in H. rewrite E in H. rewrite Hd, oaddr_eqb_refl in H.
    inversion H; subst; clear H.
    inv_bind Hx. inv_bind Hx0. inv_guards.
    repeat match goal with
    | H : checked_sub_u128 _ _ = Some _ |- _ => apply checked_sub_u128_inv in H; destruct H as [-> _]
    | H : checked_add_u128 _ _ = Some _ |- _ => apply checked_add_u128_inv in H; destruct H as [-> _]
    end.
    repeat split; try (intros; rewrite ?tl_of_set_units, ?v_ts_set_units, ?delegate_of_set_units; reflexivity).
    intros a. rewrite !units_of_set_units. unfold ind.
    destruct (N.eqb a t) eqn:Et; destruct (N.eqb a f) eqn:Ef; bool_hyps; subst; rewrite ?N.eqb_refl; try lia.
    replace (N.eqb t f) with false by (symmetry; apply N.eqb_neq; congruence). lia.
Qed.

(* the votes hook of a movement between two accounts with the same delegate *)
Definition no_checkpoint (s s' : state) : Prop :=
  (forall ct, get_tl (s_v s') ct = get_tl (s_v s) ct) /\ (forall a, delegate_of (s_v s') a = delegate_of (s_v s) a).

Lemma no_checkpoint_refl s : no_checkpoint s s.
Proof. split; reflexivity. Qed.

Lemma moved_tvu_same_delegate s0 s s1 s2 f t amt :
  same_core s0 s -> moved s s1 (Some f) (Some t) amt ->
  tvu s1 (Some f) (Some t) amt = Ok s2 ->
  delegate_of (s_v s0) f = delegate_of (s_v s0) t ->
  no_checkpoint s0 s2 /\
  (forall a, units_of (s_v s2) a = units_of (s_v s0) a - ind (N.eqb a f) amt + ind (N.eqb a t) amt).
Proof.
  intros [A0 [V0 B0]] [N1 [V1 B1]] H Hd. unfold tvu in H. inv_bind H. inv_guards. cbn [s_v with_v].
  rewrite V1, V0 in Hx. destruct (tvu_same_delegate _ _ _ _ _ _ Hx Hd) as [T1 [T2 [T3 T4]]].
  split; [split|]; auto. intros [|a]; cbn [get_tl]; auto.
Qed.

Definition is_transfer (c : call) (from to : addr) : Prop :=
  (exists x, c = Transfer from to x) \/ (exists sp x, c = TransferFrom sp from to x).

Theorem same_delegate_transfer_final : forall (h : header) (s : state) (auths : list addr) (c : call) (from to : addr),
  is_transfer c from to ->
  delegate_of (s_v s) from = delegate_of (s_v s) to ->
  let s' := fst (step h s auths c) in
  (forall ct, get_tl (s_v s') ct = get_tl (s_v s) ct) /\
  (forall a, delegate_of (s_v s') a = delegate_of (s_v s) a).
Proof.
  intros h s auths c from to Hc Hd. cbn zeta. unfold step.
  destruct (is_fungible (h_kind h)).
  - destruct (step_f h s auths c) as [[s' r]|] eqn:E; cbn [fst]; [|apply no_checkpoint_refl].
    destruct Hc as [[x ->]|[sp [x ->]]]; cbn [step_f] in E.
    + inv_bind E. inv_guards. apply f_update_moved in Hx0. destruct Hx0 as [_ M].
      unfold f_votes_hook in Hx1. destruct (0 <? x).
      * exact (proj1 (moved_tvu_same_delegate s s _ _ _ _ _ (same_core_refl s) M Hx1 Hd)).
      * inv_guards. destruct M as [_ [V _]]. split; intros; rewrite V; reflexivity.
    + inv_bind E. inv_guards. apply spend_allowance_same in Hx0. apply f_update_moved in Hx1. destruct Hx1 as [_ M].
      unfold f_votes_hook in Hx2. destruct (0 <? x).
      * exact (proj1 (moved_tvu_same_delegate s _ _ _ _ _ _ Hx0 M Hx2 Hd)).
      * inv_guards. destruct M as [_ [V _]]. destruct Hx0 as [_ [V0 _]]. split; intros; rewrite V, V0; reflexivity.
  - destruct (step_n h s auths c) as [[s' r]|] eqn:E; cbn [fst]; [|apply no_checkpoint_refl].
    unfold step_n in E. inv_bind E. clear Hx x.
    destruct Hc as [[x ->]|[sp [x ->]]].
    + inv_bind E. inv_guards. apply n_update_moved in Hx0.
      exact (proj1 (moved_tvu_same_delegate s s _ _ _ _ _ (same_core_refl s) Hx0 Hx1 Hd)).
    + inv_bind E. inv_guards. apply n_update_moved in Hx1.
      exact (proj1 (moved_tvu_same_delegate s s _ _ _ _ _ (same_core_refl s) Hx1 Hx2 Hd)).
Qed.

(* ------------------------------------------------------------------ *)
(* K5: a self-transfer changes nothing a getter can see                 *)
(* ------------------------------------------------------------------ *)
Lemma self_move_view s0 s s1 s2 a amt :
  same_core s0 s -> s_supply s = s_supply s0 -> (forall id, owner_of s id = owner_of s0 id) ->
  moved s s1 (Some a) (Some a) amt -> s_supply s1 = s_supply s -> (forall id, owner_of s1 id = owner_of s id) ->
  tvu s1 (Some a) (Some a) amt = Ok s2 ->
  same_view s0 s2.
Proof.
  intros C0 S0 O0 M S1 O1 H.
  destruct (moved_tvu_same_delegate _ _ _ _ _ _ _ C0 M H eq_refl) as [[T D] U].
  destruct C0 as [A0 [V0 B0]]. destruct M as [N1 [V1 B1]].
  unfold tvu in H. inv_bind H. inv_guards.
  unfold same_view. cbn [s_now s_supply with_v s_v]. repeat split.
  - congruence.
  - congruence.
  - intros b. bal_simpl. rewrite B1, B0. cbn [oaddr_eqb]. lia.
  - intros b. cbn [s_v with_v] in U. rewrite U. lia.
  - intros b. cbn [s_v with_v] in D. apply D.
  - intros b. cbn [s_v with_v] in T. apply (T (CAcct b)).
  - cbn [s_v with_v] in T. apply (T CTotal).
  - intros id. unfold owner_of in *. cbn [s_owner with_v]. rewrite O1, O0. reflexivity.
Qed.

Lemma n_update_self_owner s a id s' : n_update s (Some a) (Some a) id = Ok s' ->
  forall id', owner_of s' id' = owner_of s id'.
Proof.
  unfold n_update. intros H. inv_bind H. inv_bind Hx. inv_bind H. inv_guards. bool_hyps. subst.
  intros id'. unfold owner_of in *. cbn.
  destruct (N.eqb (Z.to_N id') (Z.to_N id)) eqn:E.
  - apply N.eqb_eq in E. rewrite E. symmetry. assumption.
  - apply N.eqb_neq in E. apply alist_get_remove_neq. congruence.
Qed.

Definition is_self_transfer (c : call) : Prop :=
  (exists a x, c = Transfer a a x) \/ (exists sp a x, c = TransferFrom sp a a x).

Theorem self_transfer_final : forall (h : header) (s : state) (auths : list addr) (c : call) (qs : list Z),
  is_self_transfer c ->
  observe h (fst (step h s auths c)) qs = observe h s qs.
Proof.
  intros h s auths c qs Hc. apply same_view_observe. unfold step.
  destruct (is_fungible (h_kind h)).
  - destruct (step_f h s auths c) as [[s' r]|] eqn:E; cbn [fst]; [|apply same_view_refl].
    destruct Hc as [[a [x ->]]|[sp [a [x ->]]]]; cbn [step_f] in E.
    + inv_bind E. inv_guards. pose proof (f_update_frame _ _ _ _ _ Hx0) as [F1 [F2 F3]].
      apply f_update_moved in Hx0. destruct Hx0 as [_ M].
      cbn [is_none_addr ind] in F1.
      unfold f_votes_hook in Hx1. destruct (0 <? x).
      * eapply (self_move_view s s); eauto using same_core_refl; [lia|intros; unfold owner_of; rewrite F2; reflexivity].
      * inv_guards. apply same_core_view; [|lia|intros; unfold owner_of; rewrite F2; reflexivity].
        destruct M as [N1 [V1 B1]]. split; [exact N1|split; [exact V1|]]. intros b. rewrite B1. cbn [oaddr_eqb]. lia.
    + inv_bind E. inv_guards. pose proof (spend_allowance_frame _ _ _ _ _ _ Hx0) as [G1 G2].
      apply spend_allowance_same in Hx0.
      pose proof (f_update_frame _ _ _ _ _ Hx1) as [F1 [F2 F3]].
      apply f_update_moved in Hx1. destruct Hx1 as [_ M].
      cbn [is_none_addr ind] in F1.
      unfold f_votes_hook in Hx2. destruct (0 <? x).
      * eapply (self_move_view s); eauto; [intros; unfold owner_of; rewrite G2; reflexivity|lia|intros; unfold owner_of; rewrite F2; reflexivity].
      * inv_guards. apply same_core_view; [|lia|intros; unfold owner_of; rewrite F2, G2; reflexivity].
        eapply same_core_trans; [exact Hx0|].
        destruct M as [N1 [V1 B1]]. split; [exact N1|split; [exact V1|]]. intros b. rewrite B1. cbn [oaddr_eqb]. lia.
  - destruct (step_n h s auths c) as [[s' r]|] eqn:E; cbn [fst]; [|apply same_view_refl].
    unfold step_n in E. inv_bind E. clear Hx x.
    destruct Hc as [[a [x ->]]|[sp [a [x ->]]]].
    + inv_bind E. inv_guards. pose proof (n_update_self_owner _ _ _ _ Hx0) as O.
      assert (S1 : s_supply x1 = s_supply s).
      { unfold n_update in Hx0. inv_bind Hx0. inv_bind Hx2. inv_bind Hx0. inv_guards. reflexivity. }
      apply n_update_moved in Hx0.
      eapply (self_move_view s s); eauto using same_core_refl.
    + inv_bind E. inv_guards. pose proof (n_update_self_owner _ _ _ _ Hx1) as O.
      assert (S1 : s_supply x2 = s_supply s).
      { unfold n_update in Hx1. inv_bind Hx1. inv_bind Hx3. inv_bind Hx1. inv_guards. reflexivity. }
      apply n_update_moved in Hx1.
      eapply (self_move_view s s); eauto using same_core_refl.
Qed.

(* ------------------------------------------------------------------ *)
(* K2: a zero amount changes nothing a getter can see                   *)
(* ------------------------------------------------------------------ *)
Definition is_zero_amount (c : call) : Prop :=
  (exists to, c = Mint to 0) \/ (exists a, c = Burn a 0) \/ (exists sp a, c = BurnFrom sp a 0) \/
  (exists a b, c = Transfer a b 0) \/ (exists sp a b, c = TransferFrom sp a b 0).

Lemma f_zero_view s0 s s1 from to :
  same_core s0 s -> s_supply s = s_supply s0 -> s_owner s = s_owner s0 ->
  f_update s from to 0 = Ok s1 -> same_view s0 s1.
Proof.
  intros C0 S0 O0 H. pose proof (f_update_frame _ _ _ _ _ H) as [F1 [F2 F3]].
  apply f_update_moved in H. destruct H as [_ M]. apply moved_zero_same in M.
  rewrite !ind_zero in F1.
  apply same_core_view; [eapply same_core_trans; eauto|lia|intros; unfold owner_of; rewrite F2, O0; reflexivity].
Qed.

Theorem zero_amount_final : forall (h : header) (s : state) (auths : list addr) (c : call) (qs : list Z),
  is_fungible (h_kind h) = true -> is_zero_amount c ->
  observe h (fst (step h s auths c)) qs = observe h s qs.
Proof.
  intros h s auths c qs Hf Hc. apply same_view_observe. unfold step. rewrite Hf.
  destruct (step_f h s auths c) as [[s' r]|] eqn:E; cbn [fst]; [|apply same_view_refl].
  destruct Hc as [[to ->]|[[a ->]|[[sp [a ->]]|[[a [b ->]]|[sp [a [b ->]]]]]]]; cbn [step_f] in E;
    inv_bind E; inv_guards; unfold f_votes_hook in *; change (0 <? 0) with false in *; cbv iota in *; inv_guards.
  - eapply (f_zero_view s s); eauto using same_core_refl.
  - eapply (f_zero_view s s); eauto using same_core_refl.
  - pose proof (spend_allowance_frame _ _ _ _ _ _ Hx1) as [G1 G2]. apply spend_allowance_same in Hx1.
    eapply (f_zero_view s); eauto.
  - eapply (f_zero_view s s); eauto using same_core_refl.
  - pose proof (spend_allowance_frame _ _ _ _ _ _ Hx0) as [G1 G2]. apply spend_allowance_same in Hx0.
    eapply (f_zero_view s); eauto.
Qed.

(* ------------------------------------------------------------------ *)
(* K3: a muxed destination                                              *)
(* ------------------------------------------------------------------ *)
Theorem muxed_transfer_final : forall (h : header) (s : state) (auths : list addr) (from to : addr) (mux_id x : Z),
  step h s auths (TransferMuxed from to mux_id x) = step h s auths (Transfer from to x).
Proof. reflexivity. Qed.

(* ------------------------------------------------------------------ *)
(* K1: an address nobody can authorise for is a pure sink               *)
(* ------------------------------------------------------------------ *)
Lemma pair_eqb_refl k : pair_eqb k k = true.
Proof. unfold pair_eqb. rewrite !N.eqb_refl. reflexivity. Qed.
Lemma pair_eqb_sym k k' : pair_eqb k k' = pair_eqb k' k.
Proof. unfold pair_eqb. rewrite (N.eqb_sym (fst k)), (N.eqb_sym (snd k)). reflexivity. Qed.
Lemma pair_eqb_true k k' : pair_eqb k k' = true -> k = k'.
Proof.
  unfold pair_eqb. intros H. apply andb_prop in H. destruct H as [A B]. apply N.eqb_eq in A, B.
  destruct k, k'; cbn in *; congruence.
Qed.

Lemma pget_premove_neq {V} k k' (l : list ((addr * addr) * V)) : pair_eqb k k' = false ->
  pget k (premove k' l) = pget k l.
Proof.
  intros Hn. induction l as [|[k0 v] l IH]; [reflexivity|]. cbn [premove pget].
  destruct (pair_eqb k' k0) eqn:E.
  - rewrite IH. apply pair_eqb_true in E. subst k0. rewrite Hn. reflexivity.
  - cbn [pget]. rewrite IH. reflexivity.
Qed.
Lemma pget_pset_neq {V} k k' (v : V) l : pair_eqb k k' = false -> pget k (pset k' v l) = pget k l.
Proof. intros Hn. unfold pset. cbn [pget]. rewrite Hn. apply pget_premove_neq. exact Hn. Qed.

(* nobody can spend on behalf of [a]: every allowance [a] has "granted" is empty, and [a] has no delegate *)
Definition sink_inv (a : addr) (s : state) : Prop :=
  0 <= s_now s /\
  (forall sp amt live, pget (a, sp) (s_alw s) = Some (amt, live) -> amt = 0) /\
  delegate_of (s_v s) a = None.

Lemma sink_allowance a s sp : sink_inv a s -> fst (allowance_data s a sp) = 0.
Proof.
  intros [_ [J _]]. unfold allowance_data. destruct (pget (a, sp) (s_alw s)) as [[amt live]|] eqn:E; [|reflexivity].
  destruct (live <? s_now s); [reflexivity|]. cbn [fst]. eapply J; eauto.
Qed.

Lemma has_auth_neq auths a b : has_auth auths a = false -> has_auth auths b = true -> b <> a.
Proof. intros H1 H2 E. subst. congruence. Qed.

Lemma set_allowance_sink h a s o sp amt live s' : o <> a ->
  set_allowance h s o sp amt live = Ok s' -> forall sp', pget (a, sp') (s_alw s') = pget (a, sp') (s_alw s).
Proof.
  intros Hn H sp'. unfold set_allowance in H. inv_bind H. inv_guards. cbn [s_alw with_alw].
  apply pget_pset_neq. unfold pair_eqb. cbn [fst snd].
  replace (N.eqb a o) with false by (symmetry; apply N.eqb_neq; congruence). reflexivity.
Qed.

(* spending an allowance of [from]: either [from] is not [a], or the amount is 0 and nothing is written *)
Lemma spend_allowance_sink h a s from sp amt s' : sink_inv a s ->
  spend_allowance h s from sp amt = Ok s' ->
  (forall sp', pget (a, sp') (s_alw s') = pget (a, sp') (s_alw s)) /\ (from = a -> amt = 0).
Proof.
  intros J H. unfold spend_allowance in H. inv_bind H. inv_guards. bool_hyps.
  destruct (N.eq_dec from a) as [->|Hn].
  - rewrite (sink_allowance _ _ _ J) in Hx0. assert (amt = 0) by lia. subst amt.
    change (0 <? 0) with false in H. cbv iota in H. inv_guards. split; [reflexivity|reflexivity].
  - split; [|intros; contradiction]. destruct (0 <? amt).
    + eapply set_allowance_sink; eauto.
    + inv_guards. reflexivity.
Qed.

(* a token movement (Base::update + the votes hook) as seen from [a] *)
Lemma f_move_sink a s0 s s2 s1 from to amt :
  sink_inv a s0 -> same_core s0 s -> (forall sp', pget (a, sp') (s_alw s) = pget (a, sp') (s_alw s0)) ->
  (from = Some a -> amt = 0) ->
  f_update s from to amt = Ok s1 -> f_votes_hook s1 from to amt = Ok s2 ->
  sink_inv a s2 /\ balance_of s0 a <= balance_of s2 a /\ units_of (s_v s0) a <= units_of (s_v s2) a.
Proof.
  intros [Jn [Ja Jd]] [A0 [V0 B0]] P0 Hfrom Hu Hh.
  pose proof (f_update_frame _ _ _ _ _ Hu) as [_ [_ F3]].
  apply f_update_moved in Hu. destruct Hu as [Hamt [N1 [V1 B1]]].
  unfold f_votes_hook in Hh. destruct (0 <? amt) eqn:E.
  - apply Z.ltb_lt in E. unfold tvu in Hh. inv_bind Hh. inv_guards. cbn [s_v s_now s_alw with_v].
    rewrite V1, V0, N1, A0 in Hx.
    assert (Hnz : amt <> 0) by lia.
    destruct (tvu_spec _ _ _ _ _ _ Jn Hnz Hx) as [T1 [T2 _]].
    assert (Hfa : oaddr_eqb from (Some a) = false).
    { apply oaddr_eqb_neq. intros Ef. specialize (Hfrom Ef). lia. }
    unfold sink_inv. cbn [s_now s_v s_alw with_v]. rewrite N1, A0.
    split; [split; [lia|split]|split].
    + intros sp amt' live. rewrite F3, P0. apply Ja.
    + rewrite T1. exact Jd.
    + bal_simpl. rewrite B1, B0, Hfa. unfold ind. destruct (oaddr_eqb to (Some a)); lia.
    + rewrite T2, Hfa. unfold ind. destruct (oaddr_eqb to (Some a)); lia.
  - apply Z.ltb_ge in E. assert (amt = 0) by lia. subst amt. inv_guards.
    unfold sink_inv. rewrite N1, A0.
    split; [split; [lia|split]|split].
    + intros sp amt' live. rewrite F3, P0. apply Ja.
    + rewrite V1, V0. exact Jd.
    + rewrite B1, B0, !ind_zero. lia.
    + rewrite V1, V0. lia.
Qed.

Lemma sink_step h a s auths c : is_fungible (h_kind h) = true -> has_auth auths a = false -> sink_inv a s ->
  let s' := fst (step h s auths c) in
  sink_inv a s' /\ balance_of s a <= balance_of s' a /\ units_of (s_v s) a <= units_of (s_v s') a.
Proof.
  intros Hf Ha J. cbn zeta. unfold step. rewrite Hf.
  destruct (step_f h s auths c) as [[s' r]|] eqn:E; cbn [fst]; [|split; [exact J|split; lia]].
  assert (P : forall sp', pget (a, sp') (s_alw s) = pget (a, sp') (s_alw s)) by reflexivity.
  destruct c; cbn [step_f] in E.
  - (* Advance *) inv_bind E. inv_guards. apply andb_prop in Hx. destruct Hx as [Hn _]. bool_hyps.
    destruct J as [Jn [Ja Jd]]. unfold sink_inv, balance_of. cbn [s_now s_v s_alw s_bal with_now].
    split; [split; [lia|split; assumption]|split; lia].
  - (* Mint *) inv_bind E. inv_guards.
    eapply (f_move_sink a s _ _ _ _ _ _ J); [apply same_core_refl|exact P| |exact Hx0|exact Hx1].
    intros Ef. discriminate Ef.
  - discriminate.
  - (* Burn *) inv_bind E. inv_guards.
    eapply (f_move_sink a s _ _ _ _ _ _ J); [apply same_core_refl|exact P| |exact Hx1|exact Hx2].
    intros Ef. inversion Ef; subst. congruence.
  - (* BurnFrom *) inv_bind E. inv_guards.
    destruct (spend_allowance_sink _ _ _ _ _ _ _ J Hx1) as [P1 Z1]. apply spend_allowance_same in Hx1.
    eapply (f_move_sink a s _ _ _ _ _ _ J); [exact Hx1|exact P1| |exact Hx2|exact Hx3].
    intros Ef. inversion Ef; subst. apply Z1. reflexivity.
  - (* Transfer *) inv_bind E. inv_guards.
    eapply (f_move_sink a s _ _ _ _ _ _ J); [apply same_core_refl|exact P| |exact Hx0|exact Hx1].
    intros Ef. inversion Ef; subst. congruence.
  - (* TransferFrom *) inv_bind E. inv_guards.
    destruct (spend_allowance_sink _ _ _ _ _ _ _ J Hx0) as [P1 Z1]. apply spend_allowance_same in Hx0.
    eapply (f_move_sink a s _ _ _ _ _ _ J); [exact Hx0|exact P1| |exact Hx1|exact Hx2].
    intros Ef. inversion Ef; subst. apply Z1. reflexivity.
  - (* Approve *) inv_bind E. inv_guards.
    assert (Hn : owner <> a) by (eapply has_auth_neq; eauto).
    pose proof (set_allowance_sink _ a _ _ _ _ _ _ Hn Hx0) as P1.
    apply set_allowance_same in Hx0. destruct Hx0 as [A0 [V0 B0]]. destruct J as [Jn [Ja Jd]].
    split; [split; [lia|split]|split].
    + intros sp0 amt0 live0. rewrite P1. apply Ja.
    + rewrite V0. exact Jd.
    + rewrite B0. lia.
    + rewrite V0. lia.
  - (* Delegate *) inv_bind E. inv_guards. destruct J as [Jn [Ja Jd]].
    destruct (delegate_spec _ _ _ _ _ _ Jn Hx) as [D1 [_ [D3 [D4 _]]]].
    assert (Hn : account <> a) by (eapply has_auth_neq; eauto).
    unfold sink_inv. cbn [s_now s_alw s_v with_v]. split; [split; [lia|split]|split].
    + exact Ja.
    + rewrite D3. replace (N.eqb a account) with false by (symmetry; apply N.eqb_neq; congruence). exact Jd.
    + bal_simpl. lia.
    + rewrite D4. lia.
Qed.

Lemma sink_run h a cs : is_fungible (h_kind h) = true ->
  (forall ac, In ac cs -> has_auth (fst ac) a = false) ->
  forall s, sink_inv a s ->
  let s' := run h s cs in
  sink_inv a s' /\ balance_of s a <= balance_of s' a /\ units_of (s_v s) a <= units_of (s_v s') a.
Proof.
  intros Hf. induction cs as [|[au c] cs IH]; intros Hc s J; cbn zeta.
  - cbn. split; [exact J|split; lia].
  - unfold run. cbn [fold_left fst snd]. fold (run h (fst (step h s au c)) cs).
    destruct (sink_step h a s au c Hf (Hc (au, c) (or_introl eq_refl)) J) as [J1 [B1 U1]].
    destruct (IH (fun ac H => Hc ac (or_intror H)) _ J1) as [J2 [B2 U2]].
    split; [exact J2|split; lia].
Qed.

Theorem nonsigner_is_a_sink_final : forall (h : header) (a : addr) (pre post : list (list addr * call)),
  0 <= h_start h -> is_fungible (h_kind h) = true ->
  (forall ac, In ac (pre ++ post) -> has_auth (fst ac) a = false) ->
  let s1 := run h (init h) pre in
  let s2 := run h (init h) (pre ++ post) in
  balance_of s1 a <= balance_of s2 a /\
  units_of (s_v s1) a <= units_of (s_v s2) a /\
  delegate_of (s_v s2) a = None.
Proof.
  intros h a pre post Hs Hf Hc. cbn zeta.
  assert (J0 : sink_inv a (init h)).
  { split; [exact Hs|split; [intros sp amt live H; discriminate|reflexivity]]. }
  destruct (sink_run h a pre Hf (fun ac H => Hc ac (in_or_app _ _ _ (or_introl H))) _ J0) as [J1 _].
  assert (R : run h (init h) (pre ++ post) = run h (run h (init h) pre) post) by (unfold run; apply fold_left_app).
  rewrite R.
  destruct (sink_run h a post Hf (fun ac H => Hc ac (in_or_app _ _ _ (or_intror H))) _ J1) as [[_ [_ J2]] [B U]].
  split; [exact B|split; [exact U|exact J2]].
Qed.
