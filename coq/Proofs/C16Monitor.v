(* C16: the monitor of Run/C16.v accepts every run of the model, and the model agrees with itself. *)
From SC Require Import Lib.Prelude Lib.Int Lib.Host Model.Gates Model.GatesSpec Proofs.Gates Run.C16.

(* ------------------------------------------------------------------ *)
(* reading the model's observation back                                *)
Lemma universe_length c : length (universe c) = na c.
Proof. unfold universe. rewrite map_length, seq_length. reflexivity. Qed.

Lemma nth_universe c i d : (i < na c)%nat -> nth i (universe c) d = N.of_nat i.
Proof.
  intros H. unfold universe.
  rewrite (nth_indep _ d (N.of_nat 0)) by (rewrite map_length, seq_length; exact H).
  rewrite map_nth, seq_nth by exact H. reflexivity.
Qed.

Lemma nth_map_uni {A} c (f : addr -> A) d x :
  in_uni c x = true -> nth (N.to_nat x) (map f (universe c)) d = f x.
Proof.
  unfold in_uni. intros H. apply Nat.ltb_lt in H.
  rewrite (nth_indep _ d (f 0%N)) by (rewrite map_length, universe_length; exact H).
  rewrite map_nth, nth_universe by exact H. rewrite N2Nat.id. reflexivity.
Qed.

Lemma in_universe c x : In x (universe c) -> in_uni c x = true.
Proof.
  unfold universe, in_uni. intros H. apply in_map_iff in H. destruct H as (i & Hi & Hin).
  apply in_seq in Hin. subst x. rewrite Nat2N.id. apply Nat.ltb_lt. lia.
Qed.

Lemma gb_observe c s x : in_uni c x = true -> gb (observe c s) x = bal s x.
Proof. intros H. unfold gb, observe. cbn [o_bal]. apply nth_map_uni; exact H. Qed.
Lemma ga_observe c s x y : in_uni c x = true -> in_uni c y = true -> ga (observe c s) x y = allowance s x y.
Proof.
  intros Hx Hy. unfold ga, observe. cbn [o_alw].
  rewrite (nth_map_uni c (fun o => map (fun sp => allowance s o sp) (universe c)) [] x Hx).
  apply (nth_map_uni c (fun sp => allowance s x sp)); exact Hy.
Qed.
Lemma gl_observe c s x : in_uni c x = true -> gl (observe c s) x = Some (listed c s x).
Proof. intros H. unfold gl, observe. cbn [o_list]. apply (nth_map_uni c (fun x => Some (listed c s x))); exact H. Qed.

Lemma gm_observe c s x : in_uni c x = true -> gm (observe c s) x = mgr s x.
Proof. intros H. unfold gm, observe. cbn [o_mgr]. apply nth_map_uni; exact H. Qed.

(* ------------------------------------------------------------------ *)
(* the specification does not depend on getter values outside the universe *)
Ltac uni_rw c s :=
  repeat match goal with
  | H : andb _ _ = true |- _ => apply andb_true_iff in H; destruct H
  end;
  cbn [view_obs view_st v_bal v_alw v_supply v_cap v_data o_supply o_cap o_data observe];
  repeat (rewrite (gb_observe c s) by assumption);
  repeat (rewrite (ga_observe c s) by assumption).

Lemma expected_ok_obs c h s cl : wf_call c cl = true ->
  expected_ok c h (view_obs (observe c s)) cl = expected_ok c h (view_st s) cl.
Proof.
  destruct cl as [o au]. unfold wf_call. cbn [fst]. intros Hw.
  unfold expected_ok. cbn [fst snd].
  destruct o; cbn [wf_op] in Hw; try reflexivity;
    unfold gate_open, base_ok, debit_ok, credit_ok, spend_ok; uni_rw c s; reflexivity.
Qed.

Lemma exp_bal_obs c s o x : wf_op c o = true -> in_uni c x = true ->
  exp_bal (view_obs (observe c s)) o x = exp_bal (view_st s) o x.
Proof.
  intros Hw Hx. destruct o; cbn [wf_op] in Hw; unfold exp_bal; uni_rw c s; reflexivity.
Qed.
Lemma exp_alw_obs c s o x y : wf_op c o = true -> in_uni c x = true -> in_uni c y = true ->
  exp_alw (view_obs (observe c s)) o x y = exp_alw (view_st s) o x y.
Proof.
  intros Hw Hx Hy. destruct o; cbn [wf_op] in Hw; unfold exp_alw; uni_rw c s; reflexivity.
Qed.

(* ------------------------------------------------------------------ *)
(* reflexivity of the observation comparison                           *)
Lemma list_eqb_refl {A} (eq : A -> A -> bool) (l : list A) :
  (forall x, eq x x = true) -> list_eqb eq l l = true.
Proof. intros H. induction l as [|x r IH]; cbn; [reflexivity|]. rewrite H, IH. reflexivity. Qed.
Lemma optZ_eqb_refl o : optZ_eqb o o = true.
Proof. destruct o; cbn; [apply Z.eqb_refl|reflexivity]. Qed.
Lemma obs_eqb_refl o : obs_eqb o o = true.
Proof.
  unfold obs_eqb. rewrite Z.eqb_refl, !Bool.eqb_reflx, !optZ_eqb_refl.
  rewrite (list_eqb_refl Z.eqb) by apply Z.eqb_refl.
  rewrite (list_eqb_refl ob_eqb) by (intros [b|]; [apply Bool.eqb_reflx|reflexivity]).
  rewrite (list_eqb_refl Bool.eqb) by apply Bool.eqb_reflx.
  rewrite (list_eqb_refl (list_eqb Z.eqb)) by (intros; apply list_eqb_refl; apply Z.eqb_refl).
  reflexivity.
Qed.

(* ------------------------------------------------------------------ *)
(* diff of the model with itself                                       *)
Lemma diff_model c cs : forall s i, diff_from c s (model_steps c s cs) i = 0%N.
Proof.
  induction cs as [|cl r IH]; intros s i; [reflexivity|].
  cbn [model_steps diff_from]. destruct (step c s cl) as [s' ok] eqn:E. cbn [fst snd].
  rewrite Bool.eqb_reflx, obs_eqb_refl. cbn [andb]. apply IH.
Qed.

(* ------------------------------------------------------------------ *)
(* the clauses                                                         *)
Lemma getters_ok c h s : Rel c h s -> m_getters c h (observe c s) = true.
Proof.
  intros (Rn & Rp & Rl & Ra & Rm & Ru). unfold m_getters. cbn [observe o_paused o_mig o_trap].
  rewrite Rp, Ra, !Bool.eqb_reflx. cbn [andb negb]. rewrite !andb_true_r.
  apply andb_true_iff. split.
  - apply forallb_forall. intros x Hx. rewrite (gl_observe c s x (in_universe c x Hx)), Rl.
    apply Bool.eqb_reflx.
  - apply forallb_forall. intros x Hx. rewrite (gm_observe c s x (in_universe c x Hx)), Rm.
    apply Bool.eqb_reflx.
Qed.

(* the property clauses follow from exactness alone *)
Lemma exact_clauses c h v cl ok :
  ok = expected_ok c h v cl ->
  m_paused_blocks c h (fst cl) ok && m_alternation h (fst cl) ok
  && m_allow c h (fst cl) ok && m_block c h (fst cl) ok && m_migrate h (fst cl) ok = true.
Proof.
  intros ->. destruct cl as [o au]. cbn [fst].
  unfold m_paused_blocks, m_alternation, m_allow, m_block, m_migrate, expected_ok, implies. cbn [fst snd].
  destruct o; cbn [pausable_op vetted forallb andb orb negb is_mint];
    unfold gate_open;
    destruct (knd c) eqn:K; cbn [kind_eqb is_allow is_block is_paus has_entry andb orb negb pausable_op vetted forallb implies];
    unfold implies;
    repeat match goal with |- context [h_paused h] => destruct (h_paused h) end;
    repeat match goal with |- context [h_armed h] => destruct (h_armed h) end;
    repeat match goal with |- context [h_listed h ?x] => destruct (h_listed h x) end;
    repeat match goal with |- context [h_mgr h ?x] => destruct (h_mgr h x) end;
    cbn [andb orb negb];
    repeat match goal with |- context [has_auth ?a ?x] => destruct (has_auth a x) end;
    cbn [andb orb negb];
    repeat match goal with |- context [N.eqb ?a ?x] => destruct (N.eqb a x) end;
    cbn [andb orb negb];
    rewrite ?andb_false_r, ?andb_true_r, ?orb_true_r, ?orb_false_r; cbn [andb orb negb];
    try reflexivity;
    repeat match goal with |- context [base_ok ?a ?b ?c ?d ?e] => destruct (base_ok a b c d e) end;
    repeat match goal with |- context [match ?x with Some _ => _ | None => _ end] => destruct x end;
    cbn [andb orb negb]; rewrite ?andb_false_r, ?andb_true_r, ?orb_true_r, ?orb_false_r; try reflexivity;
    repeat match goal with |- context [if ?b then _ else _] => destruct b end; try reflexivity.
Qed.

Lemma forallb_uni c (P : addr -> bool) :
  (forall x, in_uni c x = true -> P x = true) -> forallb P (universe c) = true.
Proof. intros H. apply forallb_forall. intros x Hx. apply H, in_universe, Hx. Qed.

Lemma effects_ok c h s o s' : wf_op c o = true -> Rel c h s -> effects s o s' ->
  m_effects c h (observe c s) o true (observe c s') = true.
Proof.
  intros Hw (Rn & _ & _ & _ & _ & Ru) (e1 & e2 & e3 & e4 & e5). unfold m_effects, implies. cbn [negb orb].
  repeat (apply andb_true_iff; split).
  - cbn [observe o_supply]. rewrite e1. apply Z.eqb_eq.
    destruct o; reflexivity.
  - apply forallb_uni. intros x Hx. rewrite (gb_observe c s' x Hx), e2, (exp_bal_obs c s o x Hw Hx).
    apply Z.eqb_refl.
  - apply forallb_uni. intros x Hx. apply forallb_uni. intros y Hy.
    specialize (e3 x y). rewrite (ga_observe c s' x y Hx Hy).
    destruct o; try (rewrite e3, (exp_alw_obs c s _ x y Hw Hx Hy); apply Z.eqb_refl).
    rewrite (ga_observe c s x y Hx Hy), e3, Ru, Rn. apply Z.eqb_refl.
  - cbn [observe o_cap]. rewrite e4. destruct o; apply optZ_eqb_refl.
  - cbn [observe o_data]. rewrite e5. destruct o; apply optZ_eqb_refl.
Qed.

Lemma cap_clause c h s cl s' : wf_call c cl = true ->
  expected_ok c h (view_obs (observe c s)) cl = true -> effects s (fst cl) s' ->
  m_cap c (observe c s) (fst cl) true (observe c s') = true.
Proof.
  destruct cl as [o au]. cbn [fst]. intros Hw He (e1 & _).
  unfold m_cap, implies. destruct o; try reflexivity.
  destruct (is_cap (knd c)) eqn:Hk; [|reflexivity]. cbn [andb negb orb].
  unfold expected_ok in He. cbn [fst snd] in He. unfold gate_open in He.
  cbn [observe o_cap o_supply view_obs v_cap v_supply] in *.
  destruct (knd c); try discriminate Hk; cbn [has_entry andb] in He;
    (destruct (cap s) as [cp|]; [|cbn [andb] in He; discriminate He]);
    rewrite e1; cbn [exp_supply view_st v_supply];
    b2p; rewrite Z.eqb_refl; cbn [andb];
    match goal with H : in_i128 _ = true |- _ => rewrite H end;
    rewrite andb_true_r; apply Z.leb_le; lia.
Qed.

Lemma reopen_ok c h v p cl ok : v = view_obs p -> ok = expected_ok c h v cl -> m_reopen c h p cl ok = true.
Proof.
  intros -> Hex. unfold m_reopen. rewrite <- Hex, Bool.eqb_reflx. unfold implies. rewrite !orb_true_r. cbn [andb].
  destruct cl as [o au]. cbn [fst snd]. destruct o; try reflexivity.
  rewrite Hex. unfold expected_ok. cbn [fst snd].
  destruct (kind_eqb (knd c) KUpgV1 || kind_eqb (knd c) KUpgV2), (h_armed h), (has_auth au operator), (N.eqb operator (owner c)); reflexivity.
Qed.

Lemma shape_ok c s : m_shape c (observe c s) = true.
Proof.
  unfold m_shape, observe. cbn [o_bal o_alw o_list o_mgr]. rewrite !map_length, universe_length, Nat.eqb_refl. cbn [andb].
  rewrite ?andb_true_r. apply forallb_forall. intros r Hr. apply in_map_iff in Hr. destruct Hr as (x & <- & _).
  rewrite map_length, universe_length. apply Nat.eqb_refl.
Qed.

Lemma all_read_ok c s : all_read (observe c s) = true.
Proof.
  unfold all_read, observe. cbn [o_list]. apply forallb_forall. intros e He. apply in_map_iff in He.
  destruct He as (x & <- & _). reflexivity.
Qed.

Lemma mon_step_model c h s cl : wf_call c cl = true -> Inv c s -> Rel c h s ->
  mon_step c h (observe c s) (cl, snd (step c s cl), observe c (fst (step c s cl))) = true.
Proof.
  intros Hw HI HR.
  destruct (step_spec_step c h s cl HI HR) as (Hok & Heff & Hno & HR' & HI').
  assert (Hex : snd (step c s cl) = expected_ok c h (view_obs (observe c s)) cl)
    by (rewrite expected_ok_obs by exact Hw; exact Hok).
  pose proof (exact_clauses c h _ cl _ Hex) as Hcl.
  repeat (apply andb_true_iff in Hcl; destruct Hcl as [Hcl ?]).
  assert (A1 : m_noeffect (observe c s) (snd (step c s cl)) (observe c (fst (step c s cl))) = true).
  { unfold m_noeffect, implies. destruct (snd (step c s cl)); [reflexivity|].
    rewrite (Hno eq_refl). cbn [negb orb]. apply obs_eqb_refl. }
  assert (A2 : m_getters c (if snd (step c s cl) then hist_upd h (fst cl) else h) (observe c (fst (step c s cl))) = true)
    by (apply getters_ok; exact HR').
  assert (A3 : m_cap c (observe c s) (fst cl) (snd (step c s cl)) (observe c (fst (step c s cl))) = true).
  { destruct (snd (step c s cl)) eqn:E.
    - apply (cap_clause c h s cl _ Hw); [symmetry; exact Hex|apply Heff; reflexivity].
    - unfold m_cap, implies. destruct (fst cl); try reflexivity. rewrite andb_false_r. reflexivity. }
  assert (A4 : m_reopen c h (observe c s) cl (snd (step c s cl)) = true)
    by (eapply reopen_ok; [reflexivity|exact Hex]).
  assert (A5 : m_effects c h (observe c s) (fst cl) (snd (step c s cl)) (observe c (fst (step c s cl))) = true).
  { destruct (snd (step c s cl)) eqn:E.
    - apply effects_ok; [exact Hw|exact HR|apply Heff; reflexivity].
    - reflexivity. }
  unfold mon_step. rewrite A1, Hcl, A2, A3, A4, A5, shape_ok.
  repeat match goal with H : _ = true |- _ => rewrite H end. reflexivity.
Qed.

Lemma mon_model c cs : forall h s i, forallb (wf_call c) cs = true -> Inv c s -> Rel c h s ->
  mon_from c h (observe c s) (model_steps c s cs) i = 0%N.
Proof.
  induction cs as [|cl r IH]; intros h s i Hw HI HR; [reflexivity|].
  cbn [forallb] in Hw. apply andb_true_iff in Hw. destruct Hw as [Hw1 Hw2].
  cbn [model_steps mon_from]. rewrite (mon_step_model c h s cl Hw1 HI HR).
  destruct (step_spec_step c h s cl HI HR) as (_ & _ & _ & HR' & HI').
  cbn [hist_next snd fst]. apply IH; assumption.
Qed.

Lemma last_obs_model c cs : forall s, exists s', last_obs_from (observe c s) (model_steps c s cs) = observe c s'.
Proof.
  induction cs as [|cl r IH]; intros s; [exists s; reflexivity|].
  cbn [model_steps last_obs_from snd]. apply IH.
Qed.

Lemma init_ok c : ctor_ok c = true -> mon_init c (observe c (init c)) = true.
Proof.
  intros Hc. unfold mon_init.
  rewrite (getters_ok c (hist0 c) (init c) (init_rel c)), shape_ok, all_read_ok. cbn [andb].
  repeat (apply andb_true_iff; split).
  - unfold init, observe. cbn [o_cap]. destruct (knd c); cbn; try reflexivity. apply Z.eqb_refl.
  - unfold init, init_supply_of, observe. cbn [o_supply]. destruct (knd c); cbn; apply Z.eqb_refl.
  - apply forallb_uni. intros x Hx. rewrite (gb_observe c _ x Hx). unfold init, init_supply_of.
    destruct (knd c); cbn [set_bal set_supply set_allowed set_capv bal empty_state]; unfold updZ;
      destruct (N.eqb x (owner c)); apply Z.eqb_refl.
  - apply forallb_uni. intros x Hx. apply forallb_uni. intros y Hy. rewrite (ga_observe c _ x y Hx Hy).
    rewrite allowance_unfold. unfold init. destruct (knd c); cbn; destruct (0 <? now0 c); reflexivity.
  - unfold init, observe. cbn [o_data]. destruct (knd c); reflexivity.
Qed.

Theorem check_accepts_model : forall c cs,
  wf_cfg c = true -> forallb (wf_call c) cs = true ->
  check (observe_model c cs) = (0%N, 0%N, 0%N).
Proof.
  intros c cs Hc Hw.
  assert (Hct : ctor_ok c = true) by (unfold wf_cfg in Hc; apply andb_true_iff in Hc; apply Hc).
  unfold check, diff, mon, observe_model, last_obs. cbn [t_cfg t_obs0 t_steps].
  rewrite Hct, obs_eqb_refl, diff_model, (init_ok c Hct).
  rewrite (mon_model c cs _ _ _ Hw (init_inv c Hc) (init_rel c)).
  destruct (last_obs_model c cs (init c)) as (s' & ->). rewrite all_read_ok. reflexivity.
Qed.
