(* C08, follow-up facts: the EXACT conditions under which each call succeeds (both directions:
   no field of the descriptor other than its id and its predecessor - no special target such as the
   timelock's own address, no special function symbol, argument vector or salt - and no special
   delay value takes part in the decision), and aliasing: an operation that names itself as its
   predecessor can never be executed. *)
From SC Require Import Lib.Prelude Lib.Int Lib.Host Model.Timelock Model.TimelockGhost
  Proofs.TimelockGhost Proofs.Timelock Proofs.C08Final.

Section WithHash.
  Variable hash : op -> id.
  Notation step := (step hash).
  Notation hist := (hist hash).
  Notation subject := (subject hash).

  Lemma set_execute_ok_conv s o :
    state_of s (hash o) = Ready -> (pred o = 0%N \/ state_of s (pred o) = Done) ->
    set_execute_operation hash s o = Ok (set_mark s (hash o) DONE_LEDGER).
  Proof.
    intros Hr Hp. unfold set_execute_operation, is_operation_ready, is_operation_done.
    rewrite Hr. cbn [opstate_eqb negb].
    destruct Hp as [Hp|Hp].
    - rewrite Hp. reflexivity.
    - rewrite Hp. cbn [opstate_eqb negb]. rewrite Bool.andb_false_r. reflexivity.
  Qed.

  Lemma cancel_ok_conv s i :
    (state_of s i = Waiting \/ state_of s i = Ready) -> cancel_operation s i = Ok (del_mark s i).
  Proof.
    intros [H|H]; unfold cancel_operation, is_operation_pending; rewrite H; reflexivity.
  Qed.

  (* a call succeeds exactly when ... *)
  Theorem call_succeeds_iff s c :
    0 <= now (tls s) ->
    is_ok (snd (step s c)) = true <->
    match c with
    | Schedule o d =>
        0 <= d <= MAXU32 /\ state_of (tls s) (hash o) = Unset /\
        exists m, min_delay (tls s) = Some m /\ m <= d
    | Execute o t =>
        t = true /\ state_of (tls s) (hash o) = Ready /\ (pred o = 0%N \/ state_of (tls s) (pred o) = Done)
    | SetExecute o =>
        state_of (tls s) (hash o) = Ready /\ (pred o = 0%N \/ state_of (tls s) (pred o) = Done)
    | Cancel i => state_of (tls s) i = Waiting \/ state_of (tls s) i = Ready
    | SetMinDelay d => 0 <= d <= MAXU32
    | Advance n => 0 <= n /\ now (tls s) + n <= MAXU32
    end.
  Proof.
    intros Hnow. split.
    - intros Hok. destruct (step_cases hash s c) as [[Hf _]|[_ Hc]].
      { rewrite Hf in Hok. discriminate. }
      destruct c as [o d|o t|o|i|d|n].
      + destruct Hc as (_ & _ & Hm & Hd & Hex). split; [exact Hd|]. split; [apply state_unset_iff; exact Hm|exact Hex].
      + destruct Hc as (Ht & _ & _ & _ & Hr & Hp). auto.
      + destruct Hc as (_ & _ & Hr & Hp). auto.
      + destruct Hc as (_ & _ & Hs). exact Hs.
      + destruct Hc as (_ & Hd & _). exact Hd.
      + destruct Hc as (_ & Hn & Hle & _). auto.
    - destruct c as [o d|o t|o|i|d|n]; cbn [Timelock.step].
      + intros (Hd & Hu & m & Hmin & Hle). apply state_unset_iff in Hu.
        rewrite (schedule_ok_conv hash (tls s) o d m Hd Hu Hmin Hle). reflexivity.
      + intros (-> & Hr & Hp). rewrite (set_execute_ok_conv (tls s) o Hr Hp). reflexivity.
      + intros (Hr & Hp). rewrite (set_execute_ok_conv (tls s) o Hr Hp). reflexivity.
      + intros Hs. rewrite (cancel_ok_conv (tls s) i Hs). reflexivity.
      + intros Hd. unfold set_min_delay. replace (in_u32 d) with true by (symmetry; apply in_u32_iff; exact Hd). reflexivity.
      + intros (Hn & Hle).
        replace (0 <=? n) with true by (symmetry; apply Z.leb_le; exact Hn).
        replace (in_u32 (now (tls s) + n)) with true; [reflexivity|].
        symmetry. apply in_u32_iff. lia.
  Qed.
  (* no privileged descriptor: whether (and how) schedule / set_execute act depends on the descriptor
     only through its id and its predecessor field *)
  Theorem descriptor_only_through_id s o1 o2 :
    hash o1 = hash o2 ->
    (forall d, step s (Schedule o1 d) = step s (Schedule o2 d)) /\
    (pred o1 = pred o2 -> step s (SetExecute o1) = step s (SetExecute o2)).
  Proof.
    intros Hh. split.
    - intros d. cbn [Timelock.step]. unfold schedule_operation. rewrite Hh. reflexivity.
    - intros Hp. cbn [Timelock.step]. unfold set_execute_operation. rewrite Hh, Hp. reflexivity.
  Qed.

  (* aliasing: an operation whose predecessor field is its own id is never executed *)
  Theorem self_predecessor_never_executes : forall n0 cs H1 e H2 o,
    2 <= n0 <= MAXU32 ->
    hist (init n0) cs = H1 ++ e :: H2 ->
    executes (he_call e) = Some o -> pred o = hash o -> pred o <> 0%N -> he_ok e = false.
  Proof.
    intros n0 cs H1 e H2 o Hn0 Hh Hex Hself Hnz.
    destruct (he_ok e) eqn:Eok; [exfalso|reflexivity].
    destruct (execute_conditions hash n0 cs H1 e H2 o Hn0 Hh Hex Eok)
      as (Ha & o' & d & m & a & Hb & HH1 & _ & _ & _ & Hsince & Hbefore & Hpred & _).
    destruct Hpred as [Hp|(x & o2 & Hx & Hxe & Hxo & Hxok)]; [contradiction|].
    rewrite Hself in Hxo. rewrite HH1 in Hx.
    apply in_app_or in Hx. destruct Hx as [Hx|[Hx|Hx]].
    - rewrite (Hbefore x o2 Hx Hxe Hxo) in Hxok. discriminate.
    - subst x. cbn in Hxe. discriminate.
    - assert (Hs : subject (he_call x) = Some (hash o)).
      { destruct (he_call x); cbn in Hxe; try discriminate; inversion Hxe; subst; cbn; rewrite Hxo; reflexivity. }
      rewrite (Hsince x Hx Hs) in Hxok. discriminate.
  Qed.
  (* every delay value alike (0, 1, u32::MAX, ...): an operation scheduled at ledger n with delay d is
     Waiting at exactly the ledgers below min(n + d, u32::MAX) and Ready at exactly the ledgers from it on *)
  Theorem scheduled_ready_exactly_from s o d k :
    2 <= now (tls s) <= MAXU32 ->
    is_ok (snd (step s (Schedule o d))) = true ->
    0 <= k -> now (tls s) + k <= MAXU32 ->
    let s' := fst (step (fst (step s (Schedule o d))) (Advance k)) in
    (state_of (tls s') (hash o) = Ready <-> Z.min (now (tls s) + d) MAXU32 <= now (tls s) + k) /\
    (state_of (tls s') (hash o) = Waiting <-> now (tls s) + k < Z.min (now (tls s) + d) MAXU32).
  Proof.
    intros Hnow Hok Hk Hle.
    destruct (step_cases hash s (Schedule o d)) as [[Hf _]|[_ Hc]]; [rewrite Hf in Hok; discriminate|].
    destruct Hc as (_ & Hst & _ & Hd & _).
    rewrite Hst. cbn [Timelock.step tls with_tl].
    replace (0 <=? k) with true by (symmetry; apply Z.leb_le; exact Hk).
    replace (in_u32 (now (set_mark (tls s) (hash o) (sat_add_u32 (now (tls s)) d)) + k)) with true
      by (symmetry; apply in_u32_iff; cbn [now set_mark]; lia).
    cbn [andb fst tls with_tl]. cbv zeta.
    rewrite state_ready_iff, state_waiting_iff.
    unfold mark at 1 2 3 4 5 6. cbn [marks now set_mark].
    change (match alist_get (hash o) (alist_set (hash o) (sat_add_u32 (now (tls s)) d) (marks (tls s))) with
            | Some v => v | None => UNSET_LEDGER end)
      with (mark (set_mark (tls s) (hash o) (sat_add_u32 (now (tls s)) d)) (hash o)).
    rewrite mark_set_eq.
    pose proof (sat_add_u32_range (now (tls s)) d Hnow (proj1 Hd)) as [Hr _].
    rewrite sat_add_u32_spec by lia. lia.
  Qed.
End WithHash.
