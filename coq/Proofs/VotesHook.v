(* C13 (deepening): on the fungible contracts the votes hook never blocks a token operation.
   In every reachable state: whenever Base::update succeeded, the transfer_voting_units call that
   FungibleVotes appends succeeds too - so mint / burn / transfer(_from) of the votes-enabled token
   fail exactly when the plain token would. *)
From SC Require Import Lib.Prelude Lib.Int Lib.Host Model.Votes
  Proofs.VotesTimeline Proofs.VotesState Proofs.VotesRun Proofs.C13Bounds Proofs.VotesTotal.
Open Scope Z_scope.

(* token total supply = vote supply *)
Definition finv (s : state) : Prop := s_supply s = supply_of (s_v s).

Lemma checked_add_inv a b v : checked_add a b = Some v -> v = a + b /\ MIN128 <= v <= MAX128.
Proof.
  unfold checked_add, fit128, in_i128. destruct ((MIN128 <=? a + b) && (a + b <=? MAX128)) eqn:E; [|discriminate].
  intros H; inversion H; subst. apply andb_prop in E. destruct E. split; [reflexivity|lia].
Qed.
Lemma fit128_inv z v : fit128 z = Some v -> v = z /\ MIN128 <= v <= MAX128.
Proof.
  unfold fit128, in_i128. destruct ((MIN128 <=? z) && (z <=? MAX128)) eqn:E; [|discriminate].
  intros H; inversion H; subst. apply andb_prop in E. destruct E. split; [reflexivity|lia].
Qed.

Lemma f_update_supply s from to amt s' : f_update s from to amt = Ok s' ->
  s_supply s' = s_supply s + ind (is_none_addr from) amt - ind (is_none_addr to) amt /\
  (forall f, from = Some f -> amt <= balance_of s f) /\
  (from = None -> s_supply s + amt <= MAX128).
Proof.
  unfold f_update. intros H. inv_bind H. inv_guards. rename x0 into s1.
  assert (S1 : s_supply s1 = s_supply s + ind (is_none_addr from) amt /\
               (forall f, from = Some f -> amt <= balance_of s f) /\
               (from = None -> s_supply s + amt <= MAX128)).
  { destruct from as [f|].
    - inv_bind Hx0. inv_guards. apply Z.leb_le in Hx1. cbn [is_none_addr ind]. split; [cbn; lia|].
      split; [intros f0 Hf; inversion Hf; subst; exact Hx1|intros; discriminate].
    - inv_bind Hx0. inv_guards. apply checked_add_inv in Hx1. destruct Hx1 as [-> R]. cbn [is_none_addr ind].
      split; [reflexivity|]. split; [intros; discriminate|intros; lia]. }
  destruct S1 as [A [B C]].
  destruct to as [t|].
  - inv_bind H. inv_guards. cbn [is_none_addr ind]. split; [cbn [s_supply set_bal with_bal]; lia|]. split; assumption.
  - inv_bind H. inv_guards. apply fit128_inv in Hx1. destruct Hx1 as [-> R]. cbn [is_none_addr ind s_supply with_supply].
    split; [lia|]. split; assumption.
Qed.

Lemma set_allowance_supply h s o sp amt live s' : set_allowance h s o sp amt live = Ok s' -> s_supply s' = s_supply s.
Proof. unfold set_allowance. intros H. inv_bind H. inv_guards. reflexivity. Qed.
Lemma spend_allowance_supply h s o sp amt s' : spend_allowance h s o sp amt = Ok s' -> s_supply s' = s_supply s.
Proof.
  unfold spend_allowance. intros H. inv_bind H. destruct (0 <? amt).
  - eapply set_allowance_supply; eauto.
  - inv_guards. reflexivity.
Qed.

(* Base::update followed by the hook keeps token supply = vote supply *)
Lemma f_hook_finv s0 s s1 s2 from to amt : 0 <= s_now s0 ->
  same_core s0 s -> s_supply s = s_supply s0 -> finv s0 ->
  f_update s from to amt = Ok s1 -> f_votes_hook s1 from to amt = Ok s2 -> finv s2.
Proof.
  intros H0 [A0 [V0 _]] Hs F Hu Hh. pose proof (f_update_supply _ _ _ _ _ Hu) as [D _].
  apply f_update_moved in Hu. destruct Hu as [Hamt [N1 [V1 _]]].
  unfold finv in *. unfold f_votes_hook in Hh. destruct (0 <? amt) eqn:E.
  - apply Z.ltb_lt in E. unfold tvu in Hh. inv_bind Hh. inv_guards. cbn [s_supply s_v with_v].
    rewrite N1, V1, A0, V0 in Hx. assert (Hne : amt <> 0) by lia.
    destruct (tvu_spec _ _ _ _ _ _ H0 Hne Hx) as [_ [_ [_ [_ [T5 _]]]]]. rewrite T5, D, Hs, F. reflexivity.
  - apply Z.ltb_ge in E. assert (amt = 0) by lia. subst amt. inv_guards.
    rewrite D, V1, Hs, F, V0. unfold ind. destruct (is_none_addr from); destruct (is_none_addr to); lia.
Qed.

Lemma step_f_finv h s auths c s' r : 0 <= s_now s -> finv s -> step_f h s auths c = Ok (s', r) -> finv s'.
Proof.
  intros H0 F.
  assert (K : forall s2 s3 s4 from to amt, same_core s s2 -> s_supply s2 = s_supply s ->
              f_update s2 from to amt = Ok s3 -> f_votes_hook s3 from to amt = Ok s4 -> finv s4).
  { intros. eapply (f_hook_finv s); eauto. }
  destruct c; cbn [step_f]; intros H.
  - inv_bind H. inv_guards. exact F.
  - inv_bind H. inv_guards. eapply (K s); eauto using same_core_refl.
  - discriminate.
  - inv_bind H. inv_guards. eapply (K s); eauto using same_core_refl.
  - inv_bind H. inv_guards. eapply K; [eapply spend_allowance_same; eassumption|eapply spend_allowance_supply; eassumption|eassumption|eassumption].
  - inv_bind H. inv_guards. eapply (K s); eauto using same_core_refl.
  - inv_bind H. inv_guards. eapply K; [eapply spend_allowance_same; eassumption|eapply spend_allowance_supply; eassumption|eassumption|eassumption].
  - inv_bind H. inv_guards.
    match goal with Hs : set_allowance _ _ _ _ _ _ = Ok _ |- _ =>
      unfold finv; rewrite (set_allowance_supply _ _ _ _ _ _ _ Hs);
      destruct (set_allowance_same _ _ _ _ _ _ _ Hs) as [_ [-> _]]; exact F end.
  - inv_bind H. inv_guards. unfold finv in *. cbn [s_supply s_v with_v]. rewrite F.
    match goal with Hd : delegate _ _ _ _ _ = Ok _ |- _ =>
      destruct (delegate_spec _ _ _ _ _ _ H0 Hd) as [_ [_ [_ [_ [D5 _]]]]] end.
    unfold supply_of. rewrite D5. reflexivity.
Qed.

Lemma run_finv h cs : is_fungible (h_kind h) = true -> forall s, 0 <= s_now s -> finv s ->
  finv (run h s cs).
Proof.
  intros Hk. induction cs as [|ac cs IH]; intros s H0 F; [exact F|].
  cbn [run fold_left]. fold (run h (fst (step h s (fst ac) (snd ac))) cs).
  pose proof (step_shape h s (fst ac) (snd ac)) as Sh.
  assert (Hn : 0 <= s_now (fst (step h s (fst ac) (snd ac)))).
  { destruct Sh as [Hn _ _|? ? ? _ Hn _ _ _|? ? ? Hn _ _ _]; lia. }
  apply IH; [exact Hn|]. unfold step. rewrite Hk.
  destruct (step_f h s (fst ac) (snd ac)) as [[s' r]|] eqn:E; cbn [fst]; [|exact F].
  exact (step_f_finv h s (fst ac) (snd ac) s' r H0 F E).
Qed.

Theorem fungible_hook_never_blocks_final : forall (h : header) (U : list addr) (cs : list (list addr * call)),
  is_fungible (h_kind h) = true ->
  0 <= h_start h -> NoDup U ->
  (forall ac, In ac cs -> forall a, In a (call_addrs (snd ac)) -> In a U) ->
  let s := run h (init h) cs in
  s_now s + 2 <= MAXU32 ->
  forall from to amt s1,
    (forall a, from = Some a \/ to = Some a -> In a U) ->
    f_update s from to amt = Ok s1 ->
    exists s2, f_votes_hook s1 from to amt = Ok s2.
Proof.
  intros h U cs Hk H0 Hnd Hin s Hroom from to amt s1 HU Hu.
  pose proof (inv_reachable h U cs H0 Hnd Hin) as I. fold s in I.
  assert (F : finv s) by (apply run_finv; [exact Hk|exact H0|reflexivity]).
  pose proof (f_update_supply _ _ _ _ _ Hu) as [_ [B C]].
  apply f_update_moved in Hu. destruct Hu as [Hamt [N1 [V1 _]]].
  unfold f_votes_hook. destruct (0 <? amt) eqn:E; [|eexists; reflexivity]. apply Z.ltb_lt in E.
  unfold tvu. rewrite N1, V1.
  destruct (tvu_total U s Hnd I Hroom from to amt E HU) as [v' ->]; [| |cbn [bind]; eexists; reflexivity].
  - intros f Hf. rewrite (inv_units_bal U s I). apply B. exact Hf.
  - intros Hf. specialize (C Hf). unfold finv in F. rewrite <- F. unfold MAX128, MAXU128 in *. lia.
Qed.

(* ---------- the NFT contract ---------- *)
Lemma n_update_from_balance s f to id s1 : n_update s (Some f) to id = Ok s1 -> 1 <= balance_of s f.
Proof.
  unfold n_update. intros H. inv_bind H. inv_bind Hx. inv_guards.
  match goal with Hc : checked_sub_u32 _ _ = Some _ |- _ =>
    unfold checked_sub_u32, in_u32 in Hc; destruct ((0 <=? balance_of s f - 1) && (balance_of s f - 1 <=? MAXU32)) eqn:E; [|discriminate] end.
  apply andb_prop in E. destruct E as [E _]. apply Z.leb_le in E. lia.
Qed.

(* whenever Base::update of the NFT succeeded, the transfer_voting_units(.., 1) appended by
   NonFungibleVotes succeeds (for a mint: unless the u128 vote supply is exhausted) *)
Theorem nft_hook_never_blocks_final : forall (h : header) (U : list addr) (cs : list (list addr * call)),
  0 <= h_start h -> NoDup U ->
  (forall ac, In ac cs -> forall a, In a (call_addrs (snd ac)) -> In a U) ->
  let s := run h (init h) cs in
  s_now s + 2 <= MAXU32 ->
  forall from to id s1,
    (forall a, from = Some a \/ to = Some a -> In a U) ->
    n_update s from to id = Ok s1 ->
    (from = None -> forall y, get_total_supply (s_v s) = Ok y -> y + 1 <= MAXU128) ->
    exists s2, tvu s1 from to 1 = Ok s2.
Proof.
  intros h U cs H0 Hnd Hin s Hroom from to id s1 HU Hu Hmint.
  pose proof (inv_reachable h U cs H0 Hnd Hin) as I. fold s in I.
  assert (Hb : forall f, from = Some f -> 1 <= units_of (s_v s) f).
  { intros f Hf. subst from. rewrite (inv_units_bal U s I). eapply n_update_from_balance; eauto. }
  apply n_update_moved in Hu. destruct Hu as [N1 [V1 _]].
  unfold tvu. rewrite N1, V1.
  destruct (tvu_total U s Hnd I Hroom from to 1 ltac:(lia) HU Hb) as [v' ->]; [|cbn [bind]; eexists; reflexivity].
  intros Hf. apply (Hmint Hf). unfold get_total_supply. rewrite tl_latest_ok. reflexivity.
Qed.
