(* C03 - lemmas about do_check_auth of the smart-account model (Model/SmartAccount.v),
   for an arbitrary account state and arbitrary collaborators. *)
From SC Require Import Lib.Prelude Lib.Int Lib.Host Model.SmartAccount.

(* a supplied signature verifies: the verifier contract answers true / the
   delegated signer's own authorisation is attached to the invocation *)
Definition verified (O : oracles) (auths : list addr) (x : signer * sigc) : Prop :=
  match x with
  | (Delegated a, _) => has_auth auths a = true
  | (External v k, d) => o_verify O v k d = Some true
  end.

Definition is_enf (e : event) : bool := match e with EEnforce _ _ _ _ => true | _ => false end.
Definition no_enf (l : list event) : Prop := filter is_enf l = [].

Lemma no_enf_app l1 l2 : no_enf l1 -> no_enf l2 -> no_enf (l1 ++ l2).
Proof. unfold no_enf. intros H1 H2. rewrite filter_app, H1, H2. reflexivity. Qed.

(* ------------------------------------------------------------------------- *)
(* authenticate                                                               *)
(* ------------------------------------------------------------------------- *)
Lemma authenticate_ok O auths sigs l :
  authenticate O auths sigs = Ok l -> (forall x, In x sigs -> verified O auths x) /\ no_enf l.
Proof.
  revert l. induction sigs as [|[s d] r IH]; intros l H.
  - inversion H. split; [intros x []|reflexivity].
  - cbn [authenticate] in H. destruct s as [a|v k].
    + destruct (has_auth auths a) eqn:Ha; [|discriminate].
      destruct (IH _ H) as [H1 H2]. split; [|exact H2].
      intros x [<-|Hx]; [exact Ha|auto].
    + destruct (o_verify O v k d) as [[|]|] eqn:Hv; try discriminate.
      destruct (authenticate O auths r) as [l'|] eqn:Hr; [|discriminate].
      cbn in H. inversion H; subst. destruct (IH _ eq_refl) as [H1 H2]. split.
      * intros x [<-|Hx]; [exact Hv|auto].
      * unfold no_enf in *. cbn. exact H2.
Qed.

Lemma authenticate_complete O auths sigs :
  (forall x, In x sigs -> verified O auths x) -> exists l, authenticate O auths sigs = Ok l.
Proof.
  induction sigs as [|[s d] r IH]; intros H; [exists []; reflexivity|].
  destruct IH as [l Hl]; [intros x Hx; apply H; right; exact Hx|].
  pose proof (H (s, d) (or_introl eq_refl)) as Hv. cbn [authenticate]. destruct s as [a|v k]; cbn in Hv.
  - rewrite Hv. eauto.
  - rewrite Hv, Hl. cbn. eauto.
Qed.

Lemma authenticate_fail O auths sigs :
  (exists x, In x sigs /\ ~ verified O auths x) -> authenticate O auths sigs = Fail.
Proof.
  intros [x [Hx Hn]]. destruct (authenticate O auths sigs) as [l|] eqn:E; [|reflexivity].
  exfalso. apply Hn. eapply authenticate_ok; eauto.
Qed.

(* ------------------------------------------------------------------------- *)
(* status of one rule for one context                                         *)
(* ------------------------------------------------------------------------- *)
(* the signers handed to the policies: the rule's own signers that were supplied *)
Definition auth_of (r : rule) (supplied : list signer) : list signer :=
  get_authenticated_signers (r_signers r) supplied.

Fixpoint pstatus (O : oracles) (ps : list policy) (c : ctx) (au : list signer) (r : rule) : rstat :=
  match ps with
  | [] => RSat
  | p :: rest =>
      match o_can O p c au r with
      | None => RTrap
      | Some false => RUnsat
      | Some true => pstatus O rest c au r
      end
  end.

Definition rstatus (O : oracles) (c : ctx) (supplied : list signer) (r : rule) : rstat :=
  if isnil (r_policies r) then
    if forallb (fun s => mem_s s supplied) (r_signers r) then RSat else RUnsat
  else pstatus O (r_policies r) c (auth_of r supplied) r.

Lemma length_filter_le {A} (f : A -> bool) l : (length (filter f l) <= length l)%nat.
Proof. induction l as [|x r IH]; cbn; [lia|]. destruct (f x); cbn; lia. Qed.

Lemma zlen_filter_eq {A} (f : A -> bool) l : (zlen l =? zlen (filter f l)) = forallb f l.
Proof.
  unfold zlen. induction l as [|x r IH]; [reflexivity|].
  cbn [filter forallb]. destruct (f x); cbn [andb length].
  - rewrite <- IH. rewrite !Nat2Z.inj_succ.
    destruct (Z.of_nat (length r) =? Z.of_nat (length (filter f r))) eqn:E;
      [apply Z.eqb_eq in E; apply Z.eqb_eq; lia|apply Z.eqb_neq in E; apply Z.eqb_neq; lia].
  - apply Z.eqb_neq. pose proof (length_filter_le f r). lia.
Qed.

Lemma pstatus_sat O ps c au r :
  pstatus O ps c au r = RSat <-> forall p, In p ps -> o_can O p c au r = Some true.
Proof.
  induction ps as [|p rest IH]; cbn [pstatus].
  - split; [intros _ p []|reflexivity].
  - destruct (o_can O p c au r) as [[|]|] eqn:E.
    + rewrite IH. split; [intros H q [<-|Hq]; auto|intros H q Hq; apply H; right; exact Hq].
    + split; [discriminate|intros H; specialize (H p (or_introl eq_refl)); congruence].
    + split; [discriminate|intros H; specialize (H p (or_introl eq_refl)); congruence].
Qed.

(* the requirement of the property text *)
Definition requirement (O : oracles) (c : ctx) (supplied : list signer) (r : rule) : Prop :=
  (r_policies r = [] /\ forall s, In s (r_signers r) -> In s supplied) \/
  (r_policies r <> [] /\ forall p, In p (r_policies r) -> o_can O p c (auth_of r supplied) r = Some true).

Lemma rstatus_sat O c supplied r : rstatus O c supplied r = RSat <-> requirement O c supplied r.
Proof.
  unfold rstatus, requirement. destruct (r_policies r) as [|p ps] eqn:Ep; cbn [isnil].
  - destruct (forallb (fun s => mem_s s supplied) (r_signers r)) eqn:F.
    + rewrite forallb_forall in F. split; [|reflexivity]. intros _. left. split; [reflexivity|].
      intros s Hs. apply mem_s_In. auto.
    + split; [discriminate|]. intros [[_ H]|[H _]]; [|congruence].
      assert (forallb (fun s => mem_s s supplied) (r_signers r) = true); [|congruence].
      apply forallb_forall. intros s Hs. apply mem_s_In. auto.
  - rewrite pstatus_sat. split; [intros H; right; split; [discriminate|exact H]|].
    intros [[H _]|[_ H]]; [discriminate|exact H].
Qed.

(* ------------------------------------------------------------------------- *)
(* can_enforce_all / select                                                   *)
(* ------------------------------------------------------------------------- *)
Lemma can_enforce_all_spec O ps c au r :
  match pstatus O ps c au r with
  | RTrap => can_enforce_all O ps c au r = Fail
  | RSat => exists l, can_enforce_all O ps c au r = Ok (true, l) /\ no_enf l
  | RUnsat => exists l, can_enforce_all O ps c au r = Ok (false, l) /\ no_enf l
  end.
Proof.
  induction ps as [|p rest IH]; cbn [pstatus can_enforce_all].
  - exists []. split; reflexivity.
  - destruct (o_can O p c au r) as [[|]|]; [| |reflexivity].
    + destruct (pstatus O rest c au r).
      * destruct IH as [l [-> Hl]]. cbn. eexists. split; [reflexivity|]. unfold no_enf in *. cbn. exact Hl.
      * destruct IH as [l [-> Hl]]. cbn. eexists. split; [reflexivity|]. unfold no_enf in *. cbn. exact Hl.
      * rewrite IH. reflexivity.
    + eexists. split; [reflexivity|]. reflexivity.
Qed.

(* the first rule, in the order tried, that is not passed over *)
Fixpoint first_decisive (O : oracles) (c : ctx) (supplied : list signer) (rules : list rule) : option rule :=
  match rules with
  | [] => None
  | r :: rest => match rstatus O c supplied r with
                 | RUnsat => first_decisive O c supplied rest
                 | _ => Some r
                 end
  end.

Lemma first_decisive_split O c supplied rules r :
  first_decisive O c supplied rules = Some r ->
  exists pre post, rules = pre ++ r :: post /\
    (forall x, In x pre -> rstatus O c supplied x = RUnsat) /\ rstatus O c supplied r <> RUnsat.
Proof.
  induction rules as [|x rest IH]; cbn [first_decisive]; [discriminate|].
  destruct (rstatus O c supplied x) eqn:E.
  - intros H. inversion H; subst. exists [], rest. split; [reflexivity|]. split; [intros y []|congruence].
  - intros H. destruct (IH H) as [pre [post [-> [Hp Hr]]]].
    exists (x :: pre), post. split; [reflexivity|]. split; [|exact Hr].
    intros y [<-|Hy]; auto.
  - intros H. inversion H; subst. exists [], rest. split; [reflexivity|]. split; [intros y []|congruence].
Qed.

Lemma first_decisive_none O c supplied rules :
  first_decisive O c supplied rules = None <-> forall x, In x rules -> rstatus O c supplied x = RUnsat.
Proof.
  induction rules as [|x rest IH]; cbn [first_decisive].
  - split; [intros _ y []|reflexivity].
  - destruct (rstatus O c supplied x) eqn:E.
    + split; [discriminate|]. intros H. specialize (H x (or_introl eq_refl)). congruence.
    + rewrite IH. split; [intros H y [<-|Hy]; auto|intros H y Hy; apply H; right; exact Hy].
    + split; [discriminate|]. intros H. specialize (H x (or_introl eq_refl)). congruence.
Qed.

Lemma zlen_auth_eq x supplied :
  (zlen (r_signers x) =? zlen (auth_of x supplied)) = forallb (fun s => mem_s s supplied) (r_signers x).
Proof. unfold auth_of, get_authenticated_signers. apply zlen_filter_eq. Qed.

Lemma select_cons O c supplied x rest :
  match rstatus O c supplied x with
  | RSat => exists l, select O (x :: rest) c supplied = Ok (x, auth_of x supplied, l) /\ no_enf l
  | RTrap => select O (x :: rest) c supplied = Fail
  | RUnsat => exists l, no_enf l /\
      select O (x :: rest) c supplied =
        (do '(r', au', l') <- select O rest c supplied; Ok (r', au', l ++ l'))
  end.
Proof.
  cbn [select]. unfold rstatus. change (get_authenticated_signers (r_signers x) supplied) with (auth_of x supplied).
  destruct (isnil (r_policies x)).
  - rewrite zlen_auth_eq.
    destruct (forallb (fun s => mem_s s supplied) (r_signers x)).
    + exists []. split; reflexivity.
    + exists []. split; [reflexivity|]. destruct (select O rest c supplied) as [[[r' au'] l']|]; reflexivity.
  - pose proof (can_enforce_all_spec O (r_policies x) c (auth_of x supplied) x) as Hc.
    destruct (pstatus O (r_policies x) c (auth_of x supplied) x).
    + destruct Hc as [l [-> Hl]]. cbn. exists l. split; [reflexivity|exact Hl].
    + destruct Hc as [l [-> Hl]]. cbn. exists l. split; [exact Hl|reflexivity].
    + rewrite Hc. reflexivity.
Qed.

Lemma select_spec O c supplied rules :
  match first_decisive O c supplied rules with
  | None => select O rules c supplied = Fail
  | Some r => match rstatus O c supplied r with
              | RSat => exists l, select O rules c supplied = Ok (r, auth_of r supplied, l) /\ no_enf l
              | _ => select O rules c supplied = Fail
              end
  end.
Proof.
  induction rules as [|x rest IH]; [reflexivity|].
  pose proof (select_cons O c supplied x rest) as Hx. cbn [first_decisive].
  destruct (rstatus O c supplied x) eqn:Ex.
  - rewrite Ex. exact Hx.
  - destruct Hx as [l [Hl ->]].
    destruct (first_decisive O c supplied rest) as [r|].
    + destruct (rstatus O c supplied r).
      * destruct IH as [l' [-> Hl']]. cbn. exists (l ++ l'). split; [reflexivity|apply no_enf_app; assumption].
      * rewrite IH. reflexivity.
      * rewrite IH. reflexivity.
    + rewrite IH. reflexivity.
  - rewrite Ex. exact Hx.
Qed.

(* ------------------------------------------------------------------------- *)
(* validate_all / enforce_all / do_check_auth                                 *)
(* ------------------------------------------------------------------------- *)
(* v = (rule, context, signers handed to the policies) is what get_validated_context returns for c *)
Definition validated (O : oracles) (a : acct) (now : Z) (supplied : list signer) (c : ctx)
  (v : rule * ctx * list signer) : Prop :=
  let '(r, c', au) := v in
  c' = c /\ au = auth_of r supplied /\
  exists L, get_valid_context_rules a now (ctx_type c) = Ok L /\
            first_decisive O c supplied L = Some r /\ rstatus O c supplied r = RSat.

Lemma get_validated_context_ok O a now c supplied r au l :
  get_validated_context O a now c supplied = Ok (r, au, l) ->
  validated O a now supplied c (r, c, au) /\ no_enf l.
Proof.
  unfold get_validated_context. destruct (get_valid_context_rules a now (ctx_type c)) as [L|] eqn:EL; [|discriminate].
  cbn [bind]. intros H. pose proof (select_spec O c supplied L) as S.
  destruct (first_decisive O c supplied L) as [r0|] eqn:Ef; [|congruence].
  destruct (rstatus O c supplied r0) eqn:Es; try congruence.
  destruct S as [l0 [S Hl]]. rewrite S in H. inversion H; subst.
  split; [|exact Hl]. cbn. split; [reflexivity|]. split; [reflexivity|]. exists L. auto.
Qed.

Lemma get_validated_context_complete O a now c supplied r au :
  validated O a now supplied c (r, c, au) ->
  exists l, get_validated_context O a now c supplied = Ok (r, au, l).
Proof.
  cbn. intros [_ [-> [L [EL [Ef Es]]]]]. unfold get_validated_context. rewrite EL. cbn [bind].
  pose proof (select_spec O c supplied L) as S. rewrite Ef, Es in S. destruct S as [l [S _]]. eauto.
Qed.

Lemma validate_all_ok O a now supplied cs vs l :
  validate_all O a now cs supplied = Ok (vs, l) ->
  Forall2 (validated O a now supplied) cs vs /\ no_enf l.
Proof.
  revert vs l. induction cs as [|c rest IH]; intros vs l H; cbn [validate_all] in H.
  - inversion H. split; [constructor|reflexivity].
  - destruct (get_validated_context O a now c supplied) as [[[r au] l1]|] eqn:E1; [|discriminate].
    cbn [bind] in H.
    destruct (validate_all O a now rest supplied) as [[vs' l2]|] eqn:E2; [|discriminate].
    cbn in H. inversion H; subst.
    destruct (get_validated_context_ok _ _ _ _ _ _ _ _ E1) as [Hv Hl1].
    destruct (IH _ _ eq_refl) as [Hf Hl2].
    split; [constructor; assumption|apply no_enf_app; assumption].
Qed.

Lemma validate_all_complete O a now supplied cs vs :
  Forall2 (validated O a now supplied) cs vs ->
  exists l, validate_all O a now cs supplied = Ok (vs, l).
Proof.
  induction 1 as [|c v cs vs Hv Hf IH]; [exists []; reflexivity|].
  destruct v as [[r c'] au]. assert (c' = c) by (cbn in Hv; tauto). subst c'.
  destruct (get_validated_context_complete _ _ _ _ _ _ _ Hv) as [l1 E1].
  destruct IH as [l2 E2]. cbn [validate_all]. rewrite E1. cbn [bind]. rewrite E2. cbn. eauto.
Qed.

Definition enf_events (v : rule * ctx * list signer) : list event :=
  let '(r, c, au) := v in map (fun p => EEnforce p c au r) (r_policies r).
(* the enforce hooks accept a sequence of enforce calls, one after the other: each call sees the
   calls made before it in this check ([pre]) *)
Fixpoint accepted_seq (O : oracles) (pre : list event) (evs : list event) : bool :=
  match evs with
  | [] => true
  | EEnforce p c au r :: rest => o_enforce O pre p c au r && accepted_seq O (pre ++ [EEnforce p c au r]) rest
  | _ :: _ => false
  end.

Lemma accepted_seq_app O l1 : forall pre l2,
  accepted_seq O pre (l1 ++ l2) = accepted_seq O pre l1 && accepted_seq O (pre ++ l1) l2.
Proof.
  induction l1 as [|e l1 IH]; intros pre l2; cbn [app accepted_seq]; [rewrite app_nil_r; reflexivity|].
  destruct e; try reflexivity. rewrite IH, <- app_assoc. cbn [app]. apply andb_assoc.
Qed.

Lemma enforce_policies_spec O ps c au r : forall pre,
  enforce_policies O pre ps c au r =
    if accepted_seq O pre (map (fun p => EEnforce p c au r) ps) then Ok (map (fun p => EEnforce p c au r) ps) else Fail.
Proof.
  induction ps as [|p rest IH]; intros pre; cbn [enforce_policies map accepted_seq]; [reflexivity|].
  destruct (o_enforce O pre p c au r); cbn [andb]; [|reflexivity].
  rewrite IH. destruct (accepted_seq O _ _); reflexivity.
Qed.

Lemma enforce_all_spec O vs : forall pre,
  enforce_all O pre vs = if accepted_seq O pre (flat_map enf_events vs) then Ok (flat_map enf_events vs) else Fail.
Proof.
  induction vs as [|[[r c] au] rest IH]; intros pre; cbn [enforce_all flat_map]; [reflexivity|].
  rewrite enforce_policies_spec, accepted_seq_app.
  change (enf_events (r, c, au)) with (map (fun p => EEnforce p c au r) (r_policies r)).
  destruct (accepted_seq O pre (map (fun p => EEnforce p c au r) (r_policies r))); cbn [andb bind]; [|reflexivity].
  rewrite IH.
  destruct (accepted_seq O (pre ++ map (fun p => EEnforce p c au r) (r_policies r)) (flat_map enf_events rest)); reflexivity.
Qed.

Lemma filter_enf_events vs : filter is_enf (flat_map enf_events vs) = flat_map enf_events vs.
Proof.
  induction vs as [|[[r c] au] rest IH]; [reflexivity|].
  cbn [flat_map]. rewrite filter_app, IH. f_equal.
  unfold enf_events. induction (r_policies r) as [|p ps IHp]; [reflexivity|]. cbn. f_equal. exact IHp.
Qed.

(* full characterisation of a successful check *)
Theorem do_check_auth_ok O a now auths sigs cs log :
  do_check_auth O a now auths sigs cs = Ok log ->
  (forall x, In x sigs -> verified O auths x) /\
  exists vs, Forall2 (validated O a now (map fst sigs)) cs vs /\
             accepted_seq O [] (flat_map enf_events vs) = true /\
             filter is_enf log = flat_map enf_events vs.
Proof.
  unfold do_check_auth. intros H.
  destruct (authenticate O auths sigs) as [lv|] eqn:Ea; [|discriminate]. cbn [bind] in H.
  destruct (validate_all O a now cs (map fst sigs)) as [[vs lc]|] eqn:Ev; [|discriminate]. cbn [bind] in H.
  rewrite enforce_all_spec in H.
  destruct (accepted_seq O [] (flat_map enf_events vs)) eqn:Ef; [|discriminate]. cbn in H. inversion H; subst.
  destruct (authenticate_ok _ _ _ _ Ea) as [Hs Hlv].
  destruct (validate_all_ok _ _ _ _ _ _ _ Ev) as [Hf Hlc].
  split; [exact Hs|]. exists vs. split; [exact Hf|]. split; [exact Ef|].
  rewrite !filter_app, Hlv, Hlc, filter_enf_events. reflexivity.
Qed.

Theorem do_check_auth_complete O a now auths sigs cs vs :
  (forall x, In x sigs -> verified O auths x) ->
  Forall2 (validated O a now (map fst sigs)) cs vs ->
  accepted_seq O [] (flat_map enf_events vs) = true ->
  exists log, do_check_auth O a now auths sigs cs = Ok log.
Proof.
  intros Hs Hf He. unfold do_check_auth.
  destruct (authenticate_complete _ _ _ Hs) as [lv ->]. cbn [bind].
  destruct (validate_all_complete _ _ _ _ _ _ Hf) as [lc ->]. cbn [bind].
  rewrite enforce_all_spec, He. cbn. eauto.
Qed.

(* validated is functional: the rule chosen for a context is determined *)
Lemma validated_fun O a now supplied c v1 v2 :
  validated O a now supplied c v1 -> validated O a now supplied c v2 -> v1 = v2.
Proof.
  destruct v1 as [[r1 c1] au1], v2 as [[r2 c2] au2]. cbn.
  intros [-> [-> [L1 [E1 [F1 _]]]]] [-> [-> [L2 [E2 [F2 _]]]]].
  rewrite E1 in E2. inversion E2; subst. rewrite F1 in F2. inversion F2; subst. reflexivity.
Qed.

Lemma Forall2_validated_fun O a now supplied cs vs1 vs2 :
  Forall2 (validated O a now supplied) cs vs1 -> Forall2 (validated O a now supplied) cs vs2 -> vs1 = vs2.
Proof.
  intros H. revert vs2. induction H as [|c v cs vs Hv Hf IH]; intros vs2 H2; inversion H2; subst; [reflexivity|].
  f_equal; [eapply validated_fun; eauto|auto].
Qed.

(* failure cases *)
Lemma validate_all_fail_unvalidated O a now supplied cs c L :
  In c cs -> get_valid_context_rules a now (ctx_type c) = Ok L ->
  (forall vs l, validate_all O a now cs supplied = Ok (vs, l) ->
     exists r, first_decisive O c supplied L = Some r /\ rstatus O c supplied r = RSat).
Proof.
  intros Hc EL vs l H. destruct (validate_all_ok _ _ _ _ _ _ _ H) as [Hf _].
  clear H. induction Hf as [|c' v cs' vs' Hv Hf IH]; [destruct Hc|].
  destruct Hc as [->|Hc]; [|auto].
  destruct v as [[r c2] au]. cbn in Hv. destruct Hv as [_ [_ [L' [EL' [F S]]]]].
  rewrite EL in EL'. inversion EL'; subst. eauto.
Qed.

(* ------------------------------------------------------------------------- *)
(* signers that the rule does not name never count                            *)
(* ------------------------------------------------------------------------- *)
Lemma mem_s_app s l1 l2 : mem_s s (l1 ++ l2) = mem_s s l1 || mem_s s l2.
Proof. unfold mem_s. apply existsb_app. Qed.

Lemma auth_of_foreign r supplied extra :
  (forall s, In s extra -> ~ In s (r_signers r)) ->
  auth_of r (supplied ++ extra) = auth_of r supplied.
Proof.
  intros H. unfold auth_of, get_authenticated_signers. apply filter_ext_in.
  intros s Hs. rewrite mem_s_app. destruct (mem_s s extra) eqn:E; [|apply orb_false_r].
  apply mem_s_In in E. exfalso. exact (H s E Hs).
Qed.

Lemma rstatus_foreign O c r supplied extra :
  (forall s, In s extra -> ~ In s (r_signers r)) ->
  rstatus O c (supplied ++ extra) r = rstatus O c supplied r.
Proof.
  intros H. unfold rstatus. rewrite auth_of_foreign by exact H.
  destruct (isnil (r_policies r)); [|reflexivity].
  assert (E : forallb (fun s => mem_s s (supplied ++ extra)) (r_signers r)
              = forallb (fun s => mem_s s supplied) (r_signers r)); [|rewrite E; reflexivity].
  clear -H. induction (r_signers r) as [|s l IH]; [reflexivity|]. cbn [forallb].
  rewrite IH by (intros x Hx Hi; apply (H x Hx); right; exact Hi). f_equal.
  rewrite mem_s_app. destruct (mem_s s extra) eqn:E; [|apply orb_false_r].
  apply mem_s_In in E. exfalso. apply (H s E). left. reflexivity.
Qed.
