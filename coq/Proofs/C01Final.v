(* C01: the statements pinned in Properties/C01.v. *)
From SC Require Import Lib.Prelude Lib.Int Lib.Host Model.Math Model.Fungible Model.FungibleObs
  Proofs.FungibleBasics Proofs.FungibleExec Proofs.FungibleAllow Proofs.FungibleInv Proofs.FungibleObsFacts
  Proofs.FungibleVotes Run.C01 Proofs.C01Monitor.

Lemma wf_cfg_host c : wf_cfg c = true -> wf_host (c_host c).
Proof. unfold wf_cfg, wf_host. apply Z.leb_le. Qed.

(* the invariant of Base::update, spelled out *)
Lemma update_inv_final : forall t from to amt t',
  (forall a, 0 <= balance t a) -> supply t = sumv (bals t) -> 0 <= supply t <= MAX128 -> NoDup (keys (bals t)) ->
  update t from to amt = Ok t' ->
  (forall a, 0 <= balance t' a) /\ supply t' = sumv (bals t') /\ 0 <= supply t' <= MAX128 /\ NoDup (keys (bals t')).
Proof.
  intros t from to amt t' A1 A2 A3 A4 H.
  destruct (update_inv t from to amt t' (Build_tok_inv _ A1 A2 A3 A4) H) as [B1 B2 B3 B4]. auto.
Qed.

Lemma update_never_traps_final : forall t from to amt,
  (forall a, 0 <= balance t a) -> supply t = sumv (bals t) -> 0 <= supply t <= MAX128 -> NoDup (keys (bals t)) ->
  update t from to amt = Fail ->
  amt < 0 \/ (exists a, from = Some a /\ balance t a < amt) \/ (from = None /\ MAX128 < supply t + amt).
Proof.
  intros t from to amt A1 A2 A3 A4 H.
  apply (update_fails_only_when_documented t from to amt (Build_tok_inv _ A1 A2 A3 A4) H).
Qed.

(* every reachable state of every flavour *)
Lemma reachable_inv_final : forall c start cs, wf_cfg c = true ->
  let t := tk (run c (init start) cs) in
  (forall a, 0 <= balance t a) /\
  supply t = sumv (bals t) /\
  0 <= supply t <= MAX128 /\
  NoDup (keys (bals t)) /\
  (forall a, ~ In a (keys (bals t)) -> balance t a = 0).
Proof.
  intros c start cs W. cbn zeta.
  destruct (reachable_inv c start cs (wf_cfg_host _ W)) as [[[I1 I2 I3 I4] _] _].
  repeat split; auto; try apply I3. intros a Ha. apply getd_notin. exact Ha.
Qed.

Lemma events_replay_final : forall c start cs, wf_cfg c = true ->
  let s := run c (init start) cs in
  (forall a, fst (replay (hist s)) a = balance (tk s) a) /\ snd (replay (hist s)) = supply (tk s).
Proof.
  intros c start cs W. cbn zeta. destruct (reachable_inv c start cs (wf_cfg_host _ W)) as [_ R]. exact R.
Qed.

Lemma reachable_state_inv_final : forall c start cs, wf_cfg c = true -> state_inv (run c (init start) cs).
Proof. intros c start cs W. apply reachable_inv. apply wf_cfg_host. exact W. Qed.

(* one successful call moves balances and supply exactly as its events say *)
Lemma step_moves_as_events : forall c start cs cl, wf_cfg c = true ->
  let s := run c (init start) cs in
  forall s' v evs, step c s cl = (s', Ok v, evs) ->
  (length evs <= 1)%nat /\
  let '(f, t, amt) := evs_move evs in
  0 <= amt /\
  (forall x, balance (tk s') x = ocredit (ocredit (balance (tk s)) f (- amt)) t amt x) /\
  supply (tk s') = supply (tk s) + (if is_none f then amt else 0) - (if is_none t then amt else 0).
Proof.
  intros c start cs cl W. cbn zeta. intros s' v evs H.
  destruct (reachable_inv c start cs (wf_cfg_host _ W)) as [C _].
  unfold step in H. destruct (exec c (run c (init start) cs) cl) as [[[s1 v1] evs1]|] eqn:E; [|discriminate].
  injection H; intros; subst.
  destruct (exec_balances _ _ _ _ _ _ (wf_cfg_host _ W) C E) as (Len & M & _).
  split; auto.
Qed.

Section PerKind.
  Variable c : cfg.
  Variable s : state.
  Hypothesis W : wf_cfg c = true.
  Hypothesis I : state_inv s.

  Let upd t1 f to amt t' : bals t1 = bals (tk s) -> supply t1 = supply (tk s) -> update t1 f to amt = Ok t' ->
    bal_moved (tk s) t' (f, to, amt).
  Proof. intros B S U. destruct I as [[It _] _]. apply (update_moved _ _ _ _ _ _ It B S U). Qed.

  Let spend o sp amt t1 : spend_allowance (c_host c) (now s) (tk s) o sp amt = Ok t1 ->
    bals t1 = bals (tk s) /\ supply t1 = supply (tk s).
  Proof.
    intros H. destruct (spend_allowance_spec _ _ _ _ _ _ _ (wf_cfg_host _ W) H) as (_ & _ & B & S & _). auto.
  Qed.

  (* a transfer (direct, by allowance, forced, recovery) never changes the supply and moves
     exactly [amt] from [from] to [to], also when from = to or amt = 0 *)
  Lemma transfer_keeps_supply : forall cl from to amt s' v evs,
    (exists au mux, cl = Transfer au from to mux amt) \/ (exists au sp, cl = TransferFrom au sp from to amt) \/
    cl = RForcedTransfer from to amt ->
    exec c s cl = Ok (s', v, evs) ->
    supply (tk s') = supply (tk s) /\
    forall x, balance (tk s') x = credit (credit (balance (tk s)) from (- amt)) to amt x.
  Proof.
    intros cl from to amt s' v evs K H. apply exec_spec in H. destruct H as (Sp & _).
    assert (M : bal_moved (tk s) (tk s') (Some from, Some to, amt)).
    { destruct K as [(au & mux & ->)|[(au & sp & ->)| ->]]; unfold call_spec in Sp.
      - destruct Sp as (_ & U & _). apply (upd _ _ _ _ _ eq_refl eq_refl U).
      - destruct Sp as (_ & (t1 & Hs & U) & _). destruct (spend _ _ _ _ Hs). eapply upd; eauto.
      - destruct Sp as (U & _). apply (upd _ _ _ _ _ eq_refl eq_refl U). }
    destruct M as (_ & B & S). cbn in S. split; [lia|exact B].
  Qed.

  Lemma mint_adds_exactly : forall to amt s' v evs,
    exec c s (Mint to amt) = Ok (s', v, evs) ->
    supply (tk s') = supply (tk s) + amt /\
    balance (tk s') to = balance (tk s) to + amt /\
    forall x, x <> to -> balance (tk s') x = balance (tk s) x.
  Proof.
    intros to amt s' v evs H. apply exec_spec in H. destruct H as ((U & _) & _).
    destruct (upd _ _ _ _ _ eq_refl eq_refl U) as (_ & B & S). cbn in S, B. split; [lia|].
    split; [rewrite B; unfold credit; rewrite N.eqb_refl; reflexivity|].
    intros x Hx. rewrite B. unfold credit. destruct (N.eqb x to) eqn:E; auto. apply N.eqb_eq in E. contradiction.
  Qed.

  Lemma burn_removes_exactly : forall cl from amt s' v evs,
    (exists au, cl = Burn au from amt) \/ (exists au sp, cl = BurnFrom au sp from amt) \/ cl = RBurn from amt ->
    exec c s cl = Ok (s', v, evs) ->
    supply (tk s') = supply (tk s) - amt /\
    balance (tk s') from = balance (tk s) from - amt /\
    forall x, x <> from -> balance (tk s') x = balance (tk s) x.
  Proof.
    intros cl from amt s' v evs K H. apply exec_spec in H. destruct H as (Sp & _).
    assert (M : bal_moved (tk s) (tk s') (Some from, None, amt)).
    { destruct K as [(au & ->)|[(au & sp & ->)| ->]]; unfold call_spec in Sp.
      - destruct Sp as (_ & U & _). apply (upd _ _ _ _ _ eq_refl eq_refl U).
      - destruct Sp as (_ & (t1 & Hs & U) & _). destruct (spend _ _ _ _ Hs). eapply upd; eauto.
      - destruct Sp as (U & _). apply (upd _ _ _ _ _ eq_refl eq_refl U). }
    destruct M as (_ & B & S). cbn in S, B. split; [lia|].
    split; [rewrite B; unfold credit; rewrite N.eqb_refl; lia|].
    intros x Hx. rewrite B. unfold credit. destruct (N.eqb x from) eqn:E; auto. apply N.eqb_eq in E. contradiction.
  Qed.

  (* vault shares: deposit / mint create exactly the shares of the Deposit event, withdraw / redeem
     destroy exactly the shares of the Withdraw event *)
  Lemma vault_shares_exactly : forall cl s' v evs,
    exec c s cl = Ok (s', v, evs) ->
    match cl with
    | VDeposit _ _ assets r f o => evs = [EDeposit o f r assets v] /\ supply (tk s') = supply (tk s) + v /\
                                 forall x, balance (tk s') x = credit (balance (tk s)) r v x
    | VMint _ _ sh r f o => evs = [EDeposit o f r v sh] /\ supply (tk s') = supply (tk s) + sh /\
                          forall x, balance (tk s') x = credit (balance (tk s)) r sh x
    | VWithdraw _ assets r ow o => evs = [EWithdraw o r ow assets v] /\ supply (tk s') = supply (tk s) - v /\
                                   forall x, balance (tk s') x = credit (balance (tk s)) ow (- v) x
    | VRedeem _ sh r ow o => evs = [EWithdraw o r ow v sh] /\ supply (tk s') = supply (tk s) - sh /\
                             forall x, balance (tk s') x = credit (balance (tk s)) ow (- sh) x
    | _ => True
    end.
  Proof.
    intros cl s' v evs H. apply exec_spec in H. destruct H as (Sp & _).
    destruct cl; auto; unfold call_spec in Sp.
    - destruct Sp as (_ & U & E). destruct (upd _ _ _ _ _ eq_refl eq_refl U) as (_ & B & S). cbn in B, S.
      split; auto. split; [lia|exact B].
    - destruct Sp as (_ & U & E). destruct (upd _ _ _ _ _ eq_refl eq_refl U) as (_ & B & S). cbn in B, S.
      split; auto. split; [lia|exact B].
    - destruct Sp as (_ & (t1 & Hs & U) & E).
      assert (X : bals t1 = bals (tk s) /\ supply t1 = supply (tk s)).
      { destruct (N.eqb operator owner); [subst; auto|apply (spend _ _ _ _ Hs)]. }
      destruct X as [X1 X2]. destruct (upd _ _ _ _ _ X1 X2 U) as (_ & B & S). cbn in B, S.
      split; auto. split; [lia|exact B].
    - destruct Sp as (_ & (t1 & Hs & U) & E).
      assert (X : bals t1 = bals (tk s) /\ supply t1 = supply (tk s)).
      { destruct (N.eqb operator owner); [subst; auto|apply (spend _ _ _ _ Hs)]. }
      destruct X as [X1 X2]. destruct (upd _ _ _ _ _ X1 X2 U) as (_ & B & S). cbn in B, S.
      split; auto. split; [lia|exact B].
  Qed.
End PerKind.

(* total_supply is the sum of the balances over ANY duplicate-free list of accounts that contains
   every account with a non-zero balance *)
Lemma supply_sum_over_cover : forall c start cs univ, wf_cfg c = true -> NoDup univ ->
  let t := tk (run c (init start) cs) in
  (forall a, balance t a <> 0 -> In a univ) -> sum_over (balance t) univ = supply t.
Proof.
  intros c start cs univ W ND. cbn zeta. intros Cov.
  destruct (reachable_inv c start cs (wf_cfg_host _ W)) as [[I _] _].
  apply sum_balances_supply; auto. intros a Ha.
  destruct (Z.eq_dec (balance (tk (run c (init start) cs)) a) 0) as [E|E]; auto.
  exfalso. apply Ha. apply Cov. exact E.
Qed.

(* FungibleVotes flavour: the votes module's voting units mirror the balances and its latest total-supply
   checkpoint mirrors total_supply, in every reachable state *)
Lemma votes_units_mirror_balances : forall c start cs, wf_cfg c = true -> c_flav c = FVotes ->
  let s := run c (init start) cs in
  (forall a, getd (units s) a = balance (tk s) a) /\ tsvotes s = supply (tk s).
Proof.
  intros c start cs W F. cbn zeta. apply reachable_votes_mirror; auto. apply wf_cfg_host. exact W.
Qed.
