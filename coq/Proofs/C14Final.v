(* C14 - the theorems pinned in Properties/C14.v. *)
From SC Require Import Lib.Prelude Lib.Int Lib.Host Model.Policies Model.PoliciesSpec
  Proofs.Policies Proofs.PoliciesSpend Proofs.PoliciesInv Proofs.PoliciesExact.
From Coq Require Import ZifyBool Sorting.Sorted.

Definition out_of (x : state * outcome * list event) : outcome := snd (fst x).
Definition is_true_out (o : outcome) : bool := match o with Ok (RBool true) => true | _ => false end.

(* ---------- frame of a spending batch (any state) ---------- *)
Lemma l_batch_frame c au a r sgs : forall ctxs s s' evs,
  enforce_batch c PL s au a r sgs ctxs = Ok (s', evs) ->
  st_simple s' = st_simple s /\ st_weighted s' = st_weighted s /\ now s' = now s /\
  forall k', k' <> (a, r) -> kget k' (st_spend s') = kget k' (st_spend s).
Proof.
  induction ctxs as [|ctx rest IH]; intros s s' evs H; cbn [enforce_batch] in H.
  - inversion H. subst. auto.
  - cbn [enforce_one] in H.
    destruct (l_enforce_one c s au a r sgs ctx) as [[s1 ev]|] eqn:E1; cbn [bind fst snd] in H; [|discriminate].
    destruct (enforce_batch c PL s1 au a r sgs rest) as [[s2 evs2]|] eqn:E2; cbn [bind fst snd] in H; [|discriminate].
    inversion H. subst s' evs.
    apply l_enforce_one_ok in E1 as (_ & _ & d & amt & d1 & _ & _ & _ & Hs1 & _).
    destruct (IH _ _ _ E2) as (H1 & H2 & H3 & H4). subst s1.
    cbn [st_simple st_weighted now st_spend set_spend] in *. repeat split; auto.
    intros k' Hne. rewrite (H4 k' Hne). apply kget_set_neq. exact Hne.
Qed.

(* ---------- the threshold configuration invariant needs no hypothesis on the ledger ---------- *)
Lemma exec_sw_inv c s cl s' rt evs :
  sinv s -> winv s -> exec c s cl = Ok (s', rt, evs) -> sinv s' /\ winv s'.
Proof.
  intros Hs Hw H. destruct cl; cbn [exec] in H.
  - destruct ((0 <=? n) && (now s + n <=? MAXU32)); [|discriminate]. inversion H. subst. auto.
  - destruct (can_enforce c p s acct rid ctx sgs); cbn [bind] in H; [|discriminate]. inversion H. subst. auto.
  - destruct (enforce_batch c p s auths acct rid sgs ctxs) as [[s1 e1]|] eqn:E; cbn [bind fst snd] in H; [|discriminate].
    inversion H. subst s1 rt e1. destruct p.
    + rewrite s_batch_spec in E. destruct (is_nil ctxs || _); [|discriminate]. inversion E. subst. auto.
    + rewrite (w_batch_spec _ _ _ _ _ _ _ (winv_vals s acct rid Hw)) in E.
      destruct (is_nil ctxs || _); [|discriminate]. inversion E. subst. auto.
    + apply l_batch_frame in E as (H1 & H2 & _). split.
      * intros k t. rewrite H1. apply Hs.
      * intros k d. rewrite H2. apply Hw.
  - apply unit_of_ok in H as (H & -> & ->). destruct p; cbn [uninstall] in H.
    + apply s_uninstall_ok in H as (_ & ->). split; [apply sinv_remove; exact Hs|exact Hw].
    + apply w_uninstall_ok in H as (_ & ->). split; [exact Hs|apply winv_remove; exact Hw].
    + apply l_uninstall_ok in H as (_ & ->). auto.
  - apply unit_of_ok in H as (H & -> & ->). apply s_install_ok in H as (_ & Ht & _ & H0 & _ & ->).
    split; [|exact Hw]. apply sinv_set; [exact Hs|unfold in_u32 in Ht; lia].
  - apply unit_of_ok in H as (H & -> & ->). apply s_set_threshold_ok in H as (_ & Ht & H0 & _ & ->).
    split; [|exact Hw]. apply sinv_set; [exact Hs|unfold in_u32 in Ht; lia].
  - apply unit_of_ok in H as (H & -> & ->). apply w_install_ok in H as (_ & _ & Hok & ->).
    split; [exact Hs|]. apply winv_set; assumption.
  - apply unit_of_ok in H as (H & -> & ->).
    apply w_set_threshold_ok in H as (d & _ & Hd & Hok & ->); [|intros d Hd; exact (Hw _ _ Hd)].
    split; [exact Hs|]. apply winv_set; assumption.
  - apply unit_of_ok in H as (H & -> & ->).
    apply w_set_weight_ok in H as (d & _ & Hd & Hok & ->); [|intros d Hd; exact (Hw _ _ Hd)].
    split; [exact Hs|]. apply winv_set; assumption.
  - apply unit_of_ok in H as (H & -> & ->). apply l_install_ok in H as (_ & _ & _ & _ & ->). auto.
  - apply unit_of_ok in H as (H & -> & ->). apply l_set_limit_ok in H as (_ & _ & d & _ & ->). auto.
Qed.

Lemma run_sw_inv c cs : forall s, sinv s -> winv s -> sinv (run c s cs) /\ winv (run c s cs).
Proof.
  induction cs as [|cl r IH]; intros s Hs Hw; cbn [run fold_left]; [auto|].
  unfold step_state, step. destruct (exec c s cl) as [[[s1 r1] e1]|] eqn:E; cbn [fst].
  - destruct (exec_sw_inv _ _ _ _ _ _ Hs Hw E). apply IH; assumption.
  - apply IH; assumption.
Qed.

Lemma init_sw_inv n0 : sinv (init n0) /\ winv (init n0).
Proof. split; intros k x H; cbn in H; discriminate. Qed.

(* ================= C14_simple_iff ================= *)
Theorem simple_iff : forall c s a r ctx sgs au,
  let met := match kget (a, r) (st_simple s) with Some t => t <=? len sgs | None => false end in
  out_of (step c s (CanEnforce PS a r ctx sgs)) = Ok (RBool met) /\
  is_ok (out_of (step c s (Enforce PS au a r [ctx] sgs))) = has_auth au a && met.
Proof.
  intros. split.
  - unfold out_of, step. cbn [exec can_enforce]. unfold s_can_enforce, met.
    destruct (kget (a, r) (st_simple s)); reflexivity.
  - unfold out_of, step. cbn [exec]. rewrite s_batch_spec. cbn [is_nil orb]. fold met. unfold s_can. fold met.
    destruct (has_auth au a && met); reflexivity.
Qed.

(* ================= C14_weighted_iff ================= *)
Theorem weighted_iff : forall c n0 cs a r d ctx sgs au,
  let s := run c (init n0) cs in
  kget (a, r) (st_weighted s) = Some d ->
  let w := wsum (wd_weights d) sgs in
  out_of (step c s (CanEnforce PW a r ctx sgs)) = (if w <=? MAXU32 then Ok (RBool (wd_thr d <=? w)) else Fail) /\
  is_ok (out_of (step c s (Enforce PW au a r [ctx] sgs))) = has_auth au a && (w <=? MAXU32) && (wd_thr d <=? w) /\
  (NoDup sgs -> w <= wtotal (wd_weights d) <= MAXU32).
Proof.
  intros c n0 cs a r d ctx sgs au s Hd w.
  destruct (init_sw_inv n0) as [Hs0 Hw0]. destruct (run_sw_inv c cs _ Hs0 Hw0) as [_ Hw]. fold s in Hw.
  pose proof (winv_vals s a r Hw) as Hv. destruct (Hw _ _ Hd) as (Hk & Hvv & Ht & Hm).
  split; [|split].
  - unfold out_of, step. cbn [exec can_enforce]. rewrite (w_can_enforce_spec _ _ _ _ Hv), Hd. cbn zeta. fold w.
    destruct (w <=? MAXU32); reflexivity.
  - unfold out_of, step. cbn [exec]. rewrite (w_batch_spec _ _ _ _ _ _ _ Hv). cbn [is_nil orb].
    unfold w_can. rewrite Hd. cbn zeta. fold w. rewrite andb_assoc.
    destruct (has_auth au a && (w <=? MAXU32) && (wd_thr d <=? w)); reflexivity.
  - intros Hnd. split; [apply wsum_le_total; assumption|exact Hm].
Qed.

(* not installed: can_enforce answers false, enforce fails (any state) *)
Theorem not_installed_refuses : forall c s p a r ctx sgs au,
  match p with
  | PS => kget (a, r) (st_simple s) = None
  | PW => kget (a, r) (st_weighted s) = None
  | PL => kget (a, r) (st_spend s) = None
  end ->
  out_of (step c s (CanEnforce p a r ctx sgs)) = Ok (RBool false) /\
  out_of (step c s (Enforce p au a r [ctx] sgs)) = Fail.
Proof.
  intros c s p a r ctx sgs au H. unfold out_of, step.
  destruct p; cbn beta iota in H; cbn [exec enforce_batch enforce_one can_enforce].
  - unfold s_can_enforce, s_enforce_one. rewrite H. destruct (has_auth au a); cbn; auto.
  - unfold w_can_enforce, w_enforce_one. rewrite H. destruct (has_auth au a); cbn; auto.
  - unfold l_can_enforce, l_enforce_one. rewrite H. destruct (has_auth au a), sgs; cbn; auto.
Qed.

(* ================= C14_config_refused ================= *)
Theorem config_refused_simple : forall c s au a r rs t,
  t = 0 \/ len rs < t ->
  out_of (step c s (SInstall au a r rs t)) = Fail /\ out_of (step c s (SSetThreshold au a r rs t)) = Fail.
Proof.
  intros c s au a r rs t Ht.
  assert (E : (t =? 0) || (len rs <? t) = true) by lia.
  unfold out_of, step. cbn [exec]. unfold s_install, s_set_threshold, s_validate_and_set. rewrite E.
  destruct (has_auth au a), (in_u32 t), (kget (a, r) (st_simple s)); cbn; auto.
Qed.

Theorem config_refused_winstall : forall c s au a r ws t,
  t = 0 \/ wtotal (wnorm ws) < t \/ MAXU32 < wtotal (wnorm ws) ->
  out_of (step c s (WInstall au a r ws t)) = Fail.
Proof.
  intros c s au a r ws t Ht. unfold out_of, step. cbn [exec]. unfold w_install.
  destruct (has_auth au a); cbn [guard bind unit_of]; [|reflexivity].
  destruct (in_u32 t && forallb (fun kv => in_u32 (snd kv)) ws) eqn:Hg; cbn [guard bind unit_of]; [|reflexivity].
  destruct (kget (a, r) (st_weighted s)); [reflexivity|].
  apply andb_prop in Hg as [_ Hws]. rewrite (total_weight_spec _ (wnorm_vals ws Hws)).
  destruct (wtotal (wnorm ws) <=? MAXU32) eqn:E; cbn [of_option bind]; [|reflexivity].
  replace ((t =? 0) || (wtotal (wnorm ws) <? t)) with true by lia. reflexivity.
Qed.

Lemma config_refused_wset_inv : forall c s au a r d,
  winv s -> kget (a, r) (st_weighted s) = Some d ->
  (forall t, t = 0 \/ wtotal (wd_weights d) < t -> out_of (step c s (WSetThreshold au a r t)) = Fail) /\
  (forall sg w, let tot := wtotal (alist_set sg w (wd_weights d)) in
                tot < wd_thr d \/ MAXU32 < tot -> out_of (step c s (WSetWeight au a r sg w)) = Fail).
Proof.
  intros c s au a r d Hw Hd.
  destruct (Hw _ _ Hd) as (Hk & Hv & Ht & Hm). split.
  - intros t Hbad. unfold out_of, step. cbn [exec]. unfold w_set_threshold.
    destruct (has_auth au a); cbn [guard bind unit_of]; [|reflexivity].
    destruct (in_u32 t); cbn [guard bind unit_of]; [|reflexivity].
    destruct (t =? 0) eqn:E0; [reflexivity|]. rewrite Hd. cbn [of_option bind].
    rewrite (total_weight_spec _ Hv). replace (wtotal (wd_weights d) <=? MAXU32) with true by lia.
    cbn [of_option bind]. replace (wtotal (wd_weights d) <? t) with true by lia. reflexivity.
  - intros sg w tot Hbad. unfold out_of, step. cbn [exec]. unfold w_set_weight.
    destruct (has_auth au a); cbn [guard bind unit_of]; [|reflexivity].
    destruct (in_u32 w) eqn:Hw0'; cbn [guard bind unit_of]; [|reflexivity].
    rewrite Hd. cbn [of_option bind]. cbn zeta.
    assert (Hw' : 0 <= w <= MAXU32) by (unfold in_u32 in Hw0'; lia).
    rewrite (total_weight_spec _ (alist_set_vals sg w _ Hw' Hv)). fold tot.
    destruct (tot <=? MAXU32) eqn:E; cbn [of_option bind]; [|reflexivity].
    replace (tot <? wd_thr d) with true by lia. reflexivity.
Qed.

Theorem config_refused_wset : forall c n0 cs au a r d,
  let s := run c (init n0) cs in
  kget (a, r) (st_weighted s) = Some d ->
  (forall t, t = 0 \/ wtotal (wd_weights d) < t -> out_of (step c s (WSetThreshold au a r t)) = Fail) /\
  (forall sg w, let tot := wtotal (alist_set sg w (wd_weights d)) in
                tot < wd_thr d \/ MAXU32 < tot -> out_of (step c s (WSetWeight au a r sg w)) = Fail).
Proof.
  intros c n0 cs au a r d s Hd.
  destruct (init_sw_inv n0) as [Hs0 Hw0]. destruct (run_sw_inv c cs _ Hs0 Hw0) as [_ Hw]. fold s in Hw.
  apply config_refused_wset_inv; assumption.
Qed.

(* the invariant of every reachable state *)
Theorem config_invariant : forall c n0 cs,
  let s := run c (init n0) cs in
  (forall k t, kget k (st_simple s) = Some t -> 0 < t <= MAXU32) /\
  (forall k d, kget k (st_weighted s) = Some d ->
     NoDup (map fst (wd_weights d)) /\
     Forall (fun kv => 0 <= snd kv <= MAXU32) (wd_weights d) /\
     0 < wd_thr d <= wtotal (wd_weights d) /\ wtotal (wd_weights d) <= MAXU32).
Proof.
  intros c n0 cs s. destruct (init_sw_inv n0) as [Hs0 Hw0].
  destruct (run_sw_inv c cs _ Hs0 Hw0) as [Hs Hw]. split; [exact Hs|exact Hw].
Qed.

(* ================= C14_can_enforce_agrees ================= *)
Lemma w_agree_one s au a r sgs ctx :
  is_ok (w_enforce_one s au a r sgs ctx) = has_auth au a && is_true_res (w_can_enforce s a r sgs).
Proof.
  unfold w_enforce_one, w_can_enforce. destruct (has_auth au a); cbn [guard bind andb]; [|reflexivity].
  destruct (kget (a, r) (st_weighted s)) as [d|]; cbn [of_option bind]; [|reflexivity].
  destruct (calc_weight (wd_weights d) sgs) as [w|]; cbn [of_option bind]; [|reflexivity].
  destruct (wd_thr d <=? w); reflexivity.
Qed.
Lemma s_agree_one s au a r sgs ctx :
  is_ok (s_enforce_one s au a r sgs ctx) = has_auth au a && is_true_res (s_can_enforce s a r sgs).
Proof.
  unfold s_enforce_one, s_can_enforce. destruct (has_auth au a); cbn [guard bind andb]; [|reflexivity].
  destruct (kget (a, r) (st_simple s)) as [t|]; cbn [of_option bind]; [|reflexivity].
  destruct (t <=? len sgs); reflexivity.
Qed.

Lemma batch_one c p s au a r sgs ctx :
  is_ok (enforce_batch c p s au a r sgs [ctx]) = is_ok (enforce_one c p s au a r sgs ctx).
Proof.
  cbn [enforce_batch]. destruct (enforce_one c p s au a r sgs ctx) as [[s1 ev]|]; reflexivity.
Qed.

Theorem can_enforce_agrees : forall c p s au a r ctx sgs,
  0 < max_history c ->
  is_ok (out_of (step c s (Enforce p au a r [ctx] sgs))) =
  has_auth au a && is_true_out (out_of (step c s (CanEnforce p a r ctx sgs))).
Proof.
  intros c p s au a r ctx sgs Hmh.
  assert (H1 : is_ok (out_of (step c s (Enforce p au a r [ctx] sgs))) = is_ok (enforce_one c p s au a r sgs ctx)).
  { rewrite <- batch_one. unfold out_of, step. cbn [exec].
    destruct (enforce_batch c p s au a r sgs [ctx]) as [[s1 e1]|]; reflexivity. }
  assert (H2 : is_true_out (out_of (step c s (CanEnforce p a r ctx sgs))) = is_true_res (can_enforce c p s a r ctx sgs)).
  { unfold out_of, step. cbn [exec]. destruct (can_enforce c p s a r ctx sgs) as [[|]|]; reflexivity. }
  rewrite H1, H2. destruct p; cbn [enforce_one can_enforce].
  - apply s_agree_one.
  - apply w_agree_one.
  - apply l_agree_one. exact Hmh.
Qed.

(* every state-changing entry point fails without the account's authorisation *)
Definition call_auths (cl : call) : option (list addr) :=
  match cl with
  | Advance _ | CanEnforce _ _ _ _ _ => None
  | Enforce _ au _ _ ctxs _ => match ctxs with [] => None | _ => Some au end
  | Uninstall _ au _ _ | SInstall au _ _ _ _ | SSetThreshold au _ _ _ _ | WInstall au _ _ _ _
  | WSetThreshold au _ _ _ | WSetWeight au _ _ _ _ | LInstall au _ _ _ _ | LSetLimit au _ _ _ => Some au
  end.

Theorem needs_account_auth : forall c s cl au k,
  call_auths cl = Some au -> call_key cl = Some k -> has_auth au (fst k) = false ->
  step c s cl = (s, Fail, []).
Proof.
  intros c s cl au k Hau Hk Hno. apply step_exec_fail.
  destruct cl; cbn [call_auths call_key] in Hau, Hk; try discriminate; inversion Hk; subst k; cbn [fst] in Hno.
  - destruct ctxs as [|ctx rest]; [discriminate|]. inversion Hau. subst au. cbn [exec enforce_batch].
    destruct p; cbn [enforce_one]; unfold s_enforce_one, w_enforce_one, l_enforce_one; rewrite Hno; reflexivity.
  - inversion Hau. subst au. cbn [exec]. destruct p; cbn [uninstall];
      unfold s_uninstall, w_uninstall, l_uninstall; rewrite Hno; reflexivity.
  - inversion Hau. subst au. cbn [exec]. unfold s_install. rewrite Hno. reflexivity.
  - inversion Hau. subst au. cbn [exec]. unfold s_set_threshold. rewrite Hno. reflexivity.
  - inversion Hau. subst au. cbn [exec]. unfold w_install. rewrite Hno. reflexivity.
  - inversion Hau. subst au. cbn [exec]. unfold w_set_threshold. rewrite Hno. reflexivity.
  - inversion Hau. subst au. cbn [exec]. unfold w_set_weight. rewrite Hno. reflexivity.
  - inversion Hau. subst au. cbn [exec]. unfold l_install. rewrite Hno. reflexivity.
  - inversion Hau. subst au. cbn [exec]. unfold l_set_limit. rewrite Hno. reflexivity.
Qed.

(* can_enforce is read-only; a rejected call leaves no trace *)
Theorem can_enforce_readonly : forall c s p a r ctx sgs,
  fst (fst (step c s (CanEnforce p a r ctx sgs))) = s /\ snd (step c s (CanEnforce p a r ctx sgs)) = [].
Proof.
  intros. unfold step. cbn [exec]. destruct (can_enforce c p s a r ctx sgs); cbn; auto.
Qed.

Theorem rejected_no_trace : forall c s cl, out_of (step c s cl) = Fail -> step c s cl = (s, Fail, []).
Proof. intros c s cl H. apply step_fail. exact H. Qed.

(* a call only touches the entry of its own (account, rule) in its own policy *)
Theorem only_own_entry : forall c s cl s' o evs k',
  step c s cl = (s', o, evs) -> call_key cl <> Some k' ->
  kget k' (st_simple s') = kget k' (st_simple s) /\
  kget k' (st_weighted s') = kget k' (st_weighted s) /\
  kget k' (st_spend s') = kget k' (st_spend s).
Proof.
  intros c s cl s' o evs k' H Hne. unfold step in H.
  destruct (exec c s cl) as [[[s1 r1] e1]|] eqn:E; inversion H; subst; [|auto]. clear H.
  destruct cl; cbn [exec call_key] in E, Hne.
  - destruct ((0 <=? n) && (now s + n <=? MAXU32)); [|discriminate]. inversion E. subst. auto.
  - destruct (can_enforce c p s acct rid ctx sgs); cbn [bind] in E; [|discriminate]. inversion E. subst. auto.
  - destruct (enforce_batch c p s auths acct rid sgs ctxs) as [[s1 e2]|] eqn:E2; cbn [bind fst snd] in E; [|discriminate].
    inversion E. subst s1 r1 e2. destruct p.
    + rewrite s_batch_spec in E2. destruct (is_nil ctxs || _); [|discriminate]. inversion E2. subst. auto.
    + (* the weighted batch never changes the state, whatever the stored weights are *)
      clear E. revert E2. generalize evs. induction ctxs as [|ctx rest IH]; intros evs0 E2; cbn [enforce_batch] in E2.
      * inversion E2. subst. auto.
      * cbn [enforce_one] in E2. unfold w_enforce_one in E2 at 1.
        destruct (has_auth auths acct); cbn [guard bind] in E2; [|discriminate].
        destruct (kget (acct, rid) (st_weighted s)) as [d|]; cbn [of_option bind] in E2; [|discriminate].
        destruct (calc_weight (wd_weights d) sgs) as [w|]; cbn [of_option bind] in E2; [|discriminate].
        destruct (wd_thr d <=? w); [|discriminate]. cbn [bind fst snd] in E2.
        destruct (enforce_batch c PW s auths acct rid sgs rest) as [[s2 ev2]|] eqn:E3; cbn [bind fst snd] in E2; [|discriminate].
        inversion E2. subst. eapply IH. reflexivity.
    + apply l_batch_frame in E2 as (H1 & H2 & _ & H4). rewrite H1, H2.
      split; [reflexivity|]. split; [reflexivity|]. apply H4. intros ->. apply Hne. reflexivity.
  - apply unit_of_ok in E as (E & -> & ->). assert (Hk : k' <> (acct, rid)) by (intros ->; apply Hne; reflexivity).
    destruct p; cbn [uninstall] in E.
    + apply s_uninstall_ok in E as (_ & ->). cbn [st_simple st_weighted st_spend set_simple set_weighted set_spend]. rewrite kget_remove_neq by exact Hk. auto.
    + apply w_uninstall_ok in E as (_ & ->). cbn [st_simple st_weighted st_spend set_simple set_weighted set_spend]. rewrite kget_remove_neq by exact Hk. auto.
    + apply l_uninstall_ok in E as (_ & ->). cbn [st_simple st_weighted st_spend set_simple set_weighted set_spend]. rewrite kget_remove_neq by exact Hk. auto.
  - apply unit_of_ok in E as (E & -> & ->). assert (Hk : k' <> (acct, rid)) by (intros ->; apply Hne; reflexivity).
    apply s_install_ok in E as (_ & _ & _ & _ & _ & ->). cbn [st_simple st_weighted st_spend set_simple set_weighted set_spend]. rewrite kget_set_neq by exact Hk. auto.
  - apply unit_of_ok in E as (E & -> & ->). assert (Hk : k' <> (acct, rid)) by (intros ->; apply Hne; reflexivity).
    apply s_set_threshold_ok in E as (_ & _ & _ & _ & ->). cbn [st_simple st_weighted st_spend set_simple set_weighted set_spend]. rewrite kget_set_neq by exact Hk. auto.
  - apply unit_of_ok in E as (E & -> & ->). assert (Hk : k' <> (acct, rid)) by (intros ->; apply Hne; reflexivity).
    apply w_install_ok in E as (_ & _ & _ & ->). cbn [st_simple st_weighted st_spend set_simple set_weighted set_spend]. rewrite kget_set_neq by exact Hk. auto.
  - apply unit_of_ok in E as (E & -> & ->). assert (Hk : k' <> (acct, rid)) by (intros ->; apply Hne; reflexivity).
    unfold w_set_threshold in E.
    destruct (has_auth auths acct); cbn [guard bind] in E; [|discriminate].
    destruct (in_u32 t); cbn [guard bind] in E; [|discriminate].
    destruct (t =? 0); [discriminate|].
    destruct (kget (acct, rid) (st_weighted s)) as [d|]; cbn [of_option bind] in E; [|discriminate].
    destruct (total_weight (wd_weights d)) as [tot|]; cbn [of_option bind] in E; [|discriminate].
    destruct (tot <? t); [discriminate|]. inversion E. subst. cbn [st_simple st_weighted st_spend set_simple set_weighted set_spend]. rewrite kget_set_neq by exact Hk. auto.
  - apply unit_of_ok in E as (E & -> & ->). assert (Hk : k' <> (acct, rid)) by (intros ->; apply Hne; reflexivity).
    unfold w_set_weight in E.
    destruct (has_auth auths acct); cbn [guard bind] in E; [|discriminate].
    destruct (in_u32 w); cbn [guard bind] in E; [|discriminate].
    destruct (kget (acct, rid) (st_weighted s)) as [d|]; cbn [of_option bind] in E; [|discriminate].
    cbn zeta in E. destruct (total_weight (alist_set sg w (wd_weights d))) as [tot|]; cbn [of_option bind] in E; [|discriminate].
    destruct (tot <? wd_thr d); [discriminate|]. inversion E. subst. cbn [st_simple st_weighted st_spend set_simple set_weighted set_spend]. rewrite kget_set_neq by exact Hk. auto.
  - apply unit_of_ok in E as (E & -> & ->). assert (Hk : k' <> (acct, rid)) by (intros ->; apply Hne; reflexivity).
    apply l_install_ok in E as (_ & _ & _ & _ & ->). cbn [st_simple st_weighted st_spend set_simple set_weighted set_spend]. rewrite kget_set_neq by exact Hk. auto.
  - apply unit_of_ok in E as (E & -> & ->). assert (Hk : k' <> (acct, rid)) by (intros ->; apply Hne; reflexivity).
    apply l_set_limit_ok in E as (_ & _ & d & _ & ->). cbn [st_simple st_weighted st_spend set_simple set_weighted set_spend]. rewrite kget_set_neq by exact Hk. auto.
Qed.

(* ================= C14_window ================= *)
Lemma newer_mono c1 c2 l : c1 <= c2 -> Forall (fun e => 0 <= fst e) l ->
  sum_entries (newer c2 l) <= sum_entries (newer c1 l).
Proof.
  intros Hc. unfold sum_entries, newer. induction 1 as [|e l He _ IH]; cbn [filter fold_right]; [lia|].
  destruct (c2 <? snd e) eqn:E2.
  - replace (c1 <? snd e) with true by lia. cbn [fold_right]. lia.
  - destruct (c1 <? snd e); cbn [fold_right]; lia.
Qed.

(* Whenever a batch of transfers is enforced at ledger n (after any history of calls, at ledgers
   >= 1): the specification-level log holds an installation for that (account, rule) whose limit
   and period are those the getter shows, and every transfer of the batch, in order, keeps the
   sum of all amounts enforced at ledgers in (n - period, n] within the limit in force. *)
Theorem window_batch : forall c n0 cs au a r ctxs sgs,
  1 <= n0 -> ctxs <> [] ->
  let s := fst (run_log c (init n0) [] cs) in
  let g := snd (run_log c (init n0) [] cs) in
  is_ok (out_of (step c s (Enforce PL au a r ctxs sgs))) = true ->
  exists i d, kget (a, r) g = Some i /\ kget (a, r) (st_spend s) = Some d /\
    sd_limit d = gi_limit i /\ sd_period d = gi_period i /\
    l_batch_ok (now s) (gi_limit i) (gi_period i) ctxs (gi_log i) = true.
Proof.
  intros c n0 cs au a r ctxs sgs Hn0 Hne s g Hok.
  pose proof (run_log_inv c cs (init n0) [] (inv_init n0 Hn0)) as Hinv. fold s g in Hinv.
  destruct Hinv as [Hn Hs Hw Hl].
  unfold out_of, step in Hok. cbn [exec] in Hok.
  destruct (enforce_batch c PL s au a r sgs ctxs) as [[s1 e1]|] eqn:E; [|discriminate].
  destruct (kget (a, r) (st_spend s)) as [d|] eqn:Hd.
  - destruct (grel_some' _ _ _ _ Hl Hd) as (i & Hi & Hrel).
    destruct (l_batch_rel c au a r sgs ctxs s d i s1 e1 Hn Hd Hrel E) as (d' & _ & _ & _ & _ & _ & _ & _ & Hbo & _).
    exists i, d. destruct Hrel as [H1 H2 _ _ _ _ _ _]. auto 10.
  - exfalso. destruct ctxs as [|ctx rest]; [apply Hne; reflexivity|].
    cbn [enforce_batch enforce_one] in E.
    destruct (l_enforce_one c s au a r sgs ctx) as [[s2 ev]|] eqn:E1; cbn [bind] in E; [|discriminate].
    apply l_enforce_one_ok in E1 as (_ & _ & d & _ & _ & Hd' & _). congruence.
Qed.

(* one transfer, spelled out, with the corollary for every later window of [period] consecutive
   ledgers (as long as no further transfer is enforced, amounts non-negative) *)
Theorem window_single : forall c n0 cs au a r ctx sgs,
  1 <= n0 ->
  let s := fst (run_log c (init n0) [] cs) in
  let g := snd (run_log c (init n0) [] cs) in
  is_ok (out_of (step c s (Enforce PL au a r [ctx] sgs))) = true ->
  exists i d amt, kget (a, r) g = Some i /\ kget (a, r) (st_spend s) = Some d /\
    sd_limit d = gi_limit i /\ sd_period d = gi_period i /\ 0 < gi_period i /\
    transfer_amount ctx = Some amt /\
    let log' := gi_log i ++ [(amt, now s)] in
    window_sum (now s) (gi_period i) log' <= gi_limit i /\
    (Forall (fun e => 0 <= fst e) log' ->
     forall m, now s <= m -> window_sum m (gi_period i) log' <= gi_limit i).
Proof.
  intros c n0 cs au a r ctx sgs Hn0 s g Hok.
  destruct (window_batch c n0 cs au a r [ctx] sgs Hn0 ltac:(discriminate) Hok) as (i & d & Hi & Hd & H1 & H2 & Hb).
  fold s g in Hi, Hd, Hb. cbn [l_batch_ok] in Hb.
  destruct (transfer_amount ctx) as [amt|] eqn:Ha; [|discriminate].
  pose proof (run_log_inv c cs (init n0) [] (inv_init n0 Hn0)) as Hinv. fold s g in Hinv.
  destruct (grel_some _ _ _ _ (inv_l _ _ Hinv) Hi) as (d0 & Hd0 & Hrel). rewrite Hd in Hd0. inversion Hd0. subst d0.
  exists i, d, amt. repeat (split; [assumption|]). split; [exact (lr_ppos _ _ _ Hrel)|]. split; [reflexivity|].
  cbn zeta. apply andb_prop in Hb as [Hb _]. split; [lia|].
  intros Hnn m Hm. unfold window_sum in *.
  pose proof (newer_mono (now s - gi_period i) (m - gi_period i) _ ltac:(lia) Hnn). lia.
Qed.

(* the stored history and cache are determined by the log: exactly the enforcements still inside
   the window of the last enforcement, oldest first, and their sum *)
Theorem history_is_window : forall c n0 cs k d,
  1 <= n0 ->
  let s := fst (run_log c (init n0) [] cs) in
  let g := snd (run_log c (init n0) [] cs) in
  kget k (st_spend s) = Some d ->
  exists i, kget k g = Some i /\
    sd_limit d = gi_limit i /\ sd_period d = gi_period i /\
    sd_hist d = newer (gi_cut i) (gi_log i) /\ sd_cached d = sum_entries (sd_hist d) /\
    gi_cut i <= now s - gi_period i /\
    StronglySorted (fun x y => snd x <= snd y) (gi_log i) /\
    Forall (fun e => 1 <= snd e <= now s) (gi_log i).
Proof.
  intros c n0 cs k d Hn0 s g Hd.
  pose proof (run_log_inv c cs (init n0) [] (inv_init n0 Hn0)) as Hinv. fold s g in Hinv.
  destruct (grel_some' _ _ _ _ (inv_l _ _ Hinv) Hd) as (i & Hi & [H1 H2 H3 H4 H5 H6 H7 H8]).
  exists i. auto 10.
Qed.

(* ---------- C14_config_refused: the four statements together ---------- *)
Theorem config_refused_all : forall c n0 cs,
  let s := run c (init n0) cs in
  (* simple: zero or more than the rule's signers *)
  (forall au a r rs t, t = 0 \/ len rs < t ->
     out_of (step c s (SInstall au a r rs t)) = Fail /\ out_of (step c s (SSetThreshold au a r rs t)) = Fail) /\
  (* weighted install: zero, above the total weight, or a total that does not fit u32 *)
  (forall au a r ws t, t = 0 \/ wtotal (wnorm ws) < t \/ MAXU32 < wtotal (wnorm ws) ->
     out_of (step c s (WInstall au a r ws t)) = Fail) /\
  (* weighted set_threshold / set_signer_weight on an installed policy *)
  (forall au a r d, kget (a, r) (st_weighted s) = Some d ->
     (forall t, t = 0 \/ wtotal (wd_weights d) < t -> out_of (step c s (WSetThreshold au a r t)) = Fail) /\
     (forall sg w, let tot := wtotal (alist_set sg w (wd_weights d)) in
                   tot < wd_thr d \/ MAXU32 < tot -> out_of (step c s (WSetWeight au a r sg w)) = Fail)) /\
  (* hence in every reachable state *)
  (forall k t, kget k (st_simple s) = Some t -> 0 < t <= MAXU32) /\
  (forall k d, kget k (st_weighted s) = Some d ->
     NoDup (map fst (wd_weights d)) /\
     Forall (fun kv => 0 <= snd kv <= MAXU32) (wd_weights d) /\
     0 < wd_thr d <= wtotal (wd_weights d) /\ wtotal (wd_weights d) <= MAXU32).
Proof.
  intros c n0 cs s. split; [|split; [|split]].
  - intros. apply config_refused_simple. assumption.
  - intros. apply config_refused_winstall. assumption.
  - intros au a r d Hd. apply (config_refused_wset c n0 cs au a r d Hd).
  - apply (config_invariant c n0 cs).
Qed.


(* ================= exact acceptance of the spending policy (non-negative amounts) ================= *)
Theorem spending_exact : forall c n0 cs au a r ctx sgs i amt,
  1 <= n0 -> 0 < max_history c ->
  let s := fst (run_log c (init n0) [] cs) in
  let g := snd (run_log c (init n0) [] cs) in
  kget (a, r) g = Some i -> transfer_amount ctx = Some amt ->
  nonneg_log (stored i) = true -> 0 <= amt -> sgs <> [] ->
  let fits := (window_sum (now s) (gi_period i) (gi_log i) + amt <=? gi_limit i)
              && (len (newer (now s - gi_period i) (gi_log i)) <? max_history c) in
  is_ok (out_of (step c s (Enforce PL au a r [ctx] sgs))) = has_auth au a && fits /\
  (window_sum (now s) (gi_period i) (gi_log i) + amt <= MAX128 ->
   out_of (step c s (CanEnforce PL a r ctx sgs)) = Ok (RBool fits)).
Proof.
  intros c n0 cs au a r ctx sgs i amt Hn0 Hmh s g Hi Ha Hnn Hamt Hsg fits.
  pose proof (run_log_inv c cs (init n0) [] (inv_init n0 Hn0)) as Hinv. fold s g in Hinv.
  destruct Hinv as [Hn Hs Hw Hl].
  assert (Hlin : linv s) by (unfold s; rewrite run_log_state; apply run_linv; apply init_linv).
  destruct (grel_some _ _ _ _ Hl Hi) as (d & Hd & Hrel). destruct (Hlin _ _ Hd) as [Hlim Hcc].
  split.
  - rewrite (can_enforce_agrees c PL s au a r ctx sgs Hmh). f_equal.
    assert (E : is_true_out (out_of (step c s (CanEnforce PL a r ctx sgs))) = is_true_res (l_can_enforce c s a r ctx sgs)).
    { unfold out_of, step. cbn [exec can_enforce]. destruct (l_can_enforce c s a r ctx sgs) as [[|]|]; reflexivity. }
    rewrite E. apply (l_can_exact c s a r ctx sgs i d amt Hmh Hn Hsg Hd Hrel Ha Hnn Hamt Hlim Hcc).
  - intros Hsum. unfold out_of, step. cbn [exec can_enforce].
    rewrite (l_can_value c s a r ctx sgs i d amt Hmh Hn Hsg Hd Hrel Ha Hnn Hamt Hlim Hcc Hsum). reflexivity.
Qed.

(* ================= batches beyond singletons ================= *)
(* threshold policies: a batch succeeds iff it is empty or (authorised and the threshold is met) -
   the contexts play no role *)
Theorem batch_threshold : forall c n0 cs au a r ctxs sgs,
  let s := run c (init n0) cs in
  is_ok (out_of (step c s (Enforce PS au a r ctxs sgs))) =
    is_nil ctxs || (has_auth au a && match kget (a, r) (st_simple s) with Some t => t <=? len sgs | None => false end) /\
  is_ok (out_of (step c s (Enforce PW au a r ctxs sgs))) =
    is_nil ctxs || (has_auth au a &&
                    match kget (a, r) (st_weighted s) with
                    | Some d => let w := wsum (wd_weights d) sgs in (w <=? MAXU32) && (wd_thr d <=? w)
                    | None => false
                    end).
Proof.
  intros c n0 cs au a r ctxs sgs s.
  destruct (init_sw_inv n0) as [Hs0 Hw0]. destruct (run_sw_inv c cs _ Hs0 Hw0) as [_ Hw]. fold s in Hw.
  split.
  - unfold out_of, step. cbn [exec]. rewrite s_batch_spec. unfold s_can.
    destruct (is_nil ctxs || _); reflexivity.
  - unfold out_of, step. cbn [exec]. rewrite (w_batch_spec _ _ _ _ _ _ _ (winv_vals s a r Hw)). unfold w_can.
    destruct (is_nil ctxs || _); reflexivity.
Qed.

(* spending: a successful batch kept every transfer, in order, within the window and the history
   bound (whatever the signs); with non-negative amounts the batch succeeds exactly then *)
Theorem batch_spending : forall c n0 cs au a r ctxs sgs i,
  1 <= n0 -> 0 < max_history c -> ctxs <> [] ->
  let s := fst (run_log c (init n0) [] cs) in
  let g := snd (run_log c (init n0) [] cs) in
  kget (a, r) g = Some i ->
  let exact := l_batch_exact (max_history c) (now s) (gi_limit i) (gi_period i) ctxs (gi_log i) in
  (is_ok (out_of (step c s (Enforce PL au a r ctxs sgs))) = true -> exact = true) /\
  (nonneg_log (stored i) = true -> nonneg_ctxs ctxs = true ->
   is_ok (out_of (step c s (Enforce PL au a r ctxs sgs))) =
     has_auth au a && (match sgs with [] => false | _ => true end) && exact).
Proof.
  intros c n0 cs au a r ctxs sgs i Hn0 Hmh Hne s g Hi exact.
  pose proof (run_log_inv c cs (init n0) [] (inv_init n0 Hn0)) as Hinv. fold s g in Hinv.
  destruct Hinv as [Hn Hs Hw Hl].
  assert (Hlin : linv s) by (unfold s; rewrite run_log_state; apply run_linv; apply init_linv).
  destruct (grel_some _ _ _ _ Hl Hi) as (d & Hd & Hrel).
  assert (E : is_ok (out_of (step c s (Enforce PL au a r ctxs sgs))) = is_ok (enforce_batch c PL s au a r sgs ctxs)).
  { unfold out_of, step. cbn [exec]. destruct (enforce_batch c PL s au a r sgs ctxs) as [[s1 e1]|]; reflexivity. }
  rewrite E. split.
  - destruct (enforce_batch c PL s au a r sgs ctxs) as [[s1 e1]|] eqn:Eb; [|discriminate]. intros _.
    apply (l_batch_fits c au a r sgs ctxs s d i s1 e1 Hn Hd Hrel Eb).
  - intros Hnn Hcn. apply (l_batch_exact_ok c au a r sgs ctxs s d i Hn Hlin Hd Hrel Hnn Hcn Hne).
Qed.

(* installing over a live installation is refused by all three policies (for the spending policy a
   re-install would silently restart the window) *)
Theorem install_twice_refused : forall c s au a r,
  (forall rs t, kget (a, r) (st_simple s) <> None -> out_of (step c s (SInstall au a r rs t)) = Fail) /\
  (forall ws t, kget (a, r) (st_weighted s) <> None -> out_of (step c s (WInstall au a r ws t)) = Fail) /\
  (forall l p, kget (a, r) (st_spend s) <> None -> out_of (step c s (LInstall au a r l p)) = Fail).
Proof.
  intros c s au a r. split; [|split].
  - intros rs t H. unfold out_of, step. cbn [exec]. unfold s_install.
    destruct (has_auth au a); cbn [guard bind unit_of]; [|reflexivity].
    destruct (in_u32 t); cbn [guard bind unit_of]; [|reflexivity].
    destruct (kget (a, r) (st_simple s)); [reflexivity|contradiction].
  - intros ws t H. unfold out_of, step. cbn [exec]. unfold w_install.
    destruct (has_auth au a); cbn [guard bind unit_of]; [|reflexivity].
    match goal with |- context [guard ?b] => destruct b end; cbn [guard bind unit_of]; [|reflexivity].
    destruct (kget (a, r) (st_weighted s)); [reflexivity|contradiction].
  - intros l p H. unfold out_of, step. cbn [exec]. unfold l_install.
    destruct (has_auth au a); cbn [guard bind unit_of]; [|reflexivity].
    destruct (in_i128 l && in_u32 p); cbn [guard bind unit_of]; [|reflexivity].
    destruct ((l <=? 0) || (p =? 0)); [reflexivity|].
    destruct (kget (a, r) (st_spend s)); [reflexivity|contradiction].
Qed.
