(* C10: the theorems in their final form. *)
From Coq Require Import Permutation.
From SC Require Import Lib.Prelude Lib.Int Lib.Host Model.Nft Run.NftCommon Proofs.NftMaps Proofs.NftFrame
  Proofs.NftInv Proofs.NftCons Proofs.NftOwn Proofs.NftSim Proofs.NftScope Proofs.NftCard Proofs.NftEnum Run.C10 Proofs.C10Card
  Proofs.C10Sim Proofs.C10Live Proofs.C10Monitor.
Local Open Scope N_scope.

(* the quantifier of the property along a call sequence: explicit mint ids are unused, and the
   sequential counter never points at an explicitly minted id *)
Fixpoint fresh_run (fl : flavour) (c : cfg) (s : state) (cs : list call) : bool :=
  match cs with
  | [] => true
  | cl :: r => fresh_ok fl c s cl && fresh_run fl c (fst (step fl c s cl)) r
  end.

Lemma run_sg_sim10 fl c cs : forall s g, Sim10 fl s g -> fresh_run fl c s cs = true ->
  Sim10 fl (fst (run_sg fl c s g cs)) (snd (run_sg fl c s g cs)).
Proof.
  induction cs as [|cl r IH]; intros s g Hs Hf; cbn [run_sg]; [exact Hs|].
  cbn [fresh_run] in Hf. apply andb_true_iff in Hf. destruct Hf as [Hf1 Hf2].
  apply IH; [|exact Hf2].
  destruct (step_cases fl c s cl) as [(s'&rr&He&Est)|[He Est]]; rewrite Est; cbn [fst snd].
  - eapply sim10_step; eassumption.
  - exact Hs.
Qed.

Lemma fresh_run_cons c cs : forall s, fresh_run FCons c s cs = true.
Proof. induction cs as [|cl r IH]; intros s; cbn [fresh_run fresh_ok]; [reflexivity | apply IH]. Qed.

(* the plain ownership map replayed from the successful calls of a run *)
Definition abs_map (fl : flavour) (c : cfg) (now0 : Z) (cs : list call) : N -> option addr :=
  rget (g_own (snd (run_sg fl c (init now0) (ghost0 now0) cs))).

Theorem refines_map fl c now0 cs :
  fresh_run fl c (init now0) cs = true ->
  let s := run fl c (init now0) cs in
  let abs := abs_map fl c now0 cs in
  (forall id, owner_of fl c s id = abs id) /\
  (forall a l, NoDup l -> (forall i, abs i = Some a -> In i l) ->
     balance s a = N.of_nat (length (filter (fun i => oaddr_eqb (abs i) (Some a)) l))).
Proof.
  intros Hf. cbv zeta. unfold abs_map.
  pose proof (run_sg_sim10 fl c cs _ _ (sim10_init fl now0) Hf) as (Hs&Hcard&_).
  rewrite run_sg_state in Hs. set (g := snd (run_sg fl c (init now0) (ghost0 now0) cs)) in *.
  destruct Hs as [Hc Ho]. split; [apply own_of; exact Ho|].
  intros a l Hnd Hcov. destruct Hc as (_&Hb&_). rewrite Hb.
  destruct Hcard as (dom&Hnd'&Hcv&Hcnt&_). rewrite Hcnt. f_equal.
  apply cnt_in_cover; [exact Hnd' | exact Hnd | |].
  - intros i Hi. apply Hcv. unfold owned_by in Hi. apply oaddr_eqb_eq in Hi. rewrite Hi. discriminate.
  - intros i Hi. apply Hcov. unfold owned_by in Hi. apply oaddr_eqb_eq in Hi. exact Hi.
Qed.

Theorem consec_refines_map c now0 cs :
  let s := run FCons c (init now0) cs in
  let abs := abs_map FCons c now0 cs in
  (forall id, owner_of FCons c s id = abs id) /\
  (forall a l, NoDup l -> (forall i, abs i = Some a -> In i l) ->
     balance s a = N.of_nat (length (filter (fun i => oaddr_eqb (abs i) (Some a)) l))).
Proof. apply refines_map. apply fresh_run_cons. Qed.

(* how owner_of evolves under one successful call in a reachable state: only the named token
   (or the freshly minted ids) changes *)
Definition owner_after (fl : flavour) (c : cfg) (s : state) (cl : call) (j : N) : option addr :=
  match cl with
  | Transfer _ _ to id | TransferFrom _ _ _ to id => if j =? id then Some to else owner_of fl c s j
  | Burn _ _ id | BurnFrom _ _ _ id => if j =? id then None else owner_of fl c s j
  | MintSeq to => if j =? next_id s then Some to else owner_of fl c s j
  | MintId to id => if j =? id then Some to else owner_of fl c s j
  | BatchMint to amt => if (next_id s <=? j) && (j <=? next_id s + amt - 1) then Some to else owner_of fl c s j
  | _ => owner_of fl c s j
  end.

Theorem frame fl c now0 cs cl s' r :
  let s := run fl c (init now0) cs in
  exec fl c s cl = Ok (s', r) -> forall j, owner_of fl c s' j = owner_after fl c s cl j.
Proof.
  cbv zeta. intros He j.
  pose proof (run_sg_sim fl c cs _ _ (sim_init fl now0)) as [Hc Ho]. rewrite run_sg_state in Hc, Ho.
  set (s := run fl c (init now0) cs) in *. set (g := snd (run_sg fl c (init now0) (ghost0 now0) cs)) in *.
  pose proof (own_step fl c s g cl s' r Ho He) as Ho'.
  rewrite (own_of fl c s' _ Ho'). pose proof (own_of fl c s g Ho) as Hown.
  pose proof (exec_ok _ _ _ _ _ _ He) as Hs.
  destruct cl; cbn [exec_spec] in Hs; cbn [ghost_step g_own owner_after rget]; rewrite ?Hown; try reflexivity.
  - destruct Hs as (_&->&_). cbn [g_own rget]. reflexivity.
  - destruct Hs as (_&Hz&_&_&->&_). cbn [g_own rget].
    replace (next_id s + amount - 1 + 1 - amount) with (next_id s) by lia. reflexivity.
Qed.

(* ids issued by sequential and batch minting: never below the counter, which never decreases *)
Theorem ids_fresh fl c s cl s' r : exec fl c s cl = Ok (s', r) ->
  next_id s <= next_id s' /\
  match cl with
  | MintSeq _ => r = Some (next_id s) /\ next_id s' = next_id s + 1
  | BatchMint _ amt => 1 <= amt /\ r = Some (next_id s + amt - 1) /\ next_id s' = next_id s + amt
  | _ => next_id s' = next_id s
  end.
Proof.
  intros He. apply exec_ok in He. destruct cl; cbn [exec_spec] in He.
  - destruct He as [-> _]. cbn. split; [lia | reflexivity].
  - destruct He as (_&->&_&(_&B&_)). rewrite B. split; [lia | split; reflexivity].
  - destruct He as (_&_&(_&B&_)). rewrite B. split; [lia | reflexivity].
  - destruct He as (_&Hz&_&_&->&_&B&_). rewrite B. split; [lia|]. split; [lia | split; reflexivity].
  - destruct He as (_&_&_&(_&B&_)). rewrite B. split; [lia | reflexivity].
  - destruct He as (_&_&_&_&(_&B&_)). rewrite B. split; [lia | reflexivity].
  - destruct He as (_&_&_&(_&B&_)). rewrite B. split; [lia | reflexivity].
  - destruct He as (_&_&_&_&(_&B&_)). rewrite B. split; [lia | reflexivity].
  - destruct He as (_&_&o&_&_&[[_ ->]|(_&_&en&_&_&->)]); cbn; split; (lia || reflexivity).
  - destruct He as (_&_&[[_ ->]|(_&_&en&_&_&->)]); cbn; split; (lia || reflexivity).
Qed.

Lemma next_id_mono_step fl c s cl : next_id s <= next_id (fst (step fl c s cl)).
Proof.
  destruct (step_cases fl c s cl) as [(s'&rr&He&->)|[He ->]]; cbn [fst]; [|lia].
  apply (ids_fresh fl c s cl s' rr He).
Qed.
Theorem next_id_mono fl c cs : forall s, next_id s <= next_id (run fl c s cs).
Proof.
  induction cs as [|cl r IH]; intros s; [cbn; lia|].
  change (run fl c s (cl :: r)) with (run fl c (fst (step fl c s cl)) r).
  pose proof (next_id_mono_step fl c s cl). specialize (IH (fst (step fl c s cl))). lia.
Qed.

(* ---------- ids at or above the counter do not exist (so minted ids are never reused) ---------- *)
Theorem cons_unissued c now0 cs j :
  let s := run FCons c (init now0) cs in next_id s <= j -> owner_of FCons c s j = None.
Proof.
  cbv zeta. intros Hj.
  pose proof (run_sg_sim FCons c cs _ _ (sim_init FCons now0)) as [_ Ho]. rewrite run_sg_state in Ho.
  cbn [OwnInv] in Ho. cbn [owner_of]. rewrite (cons_owner_of_cown c _ j (proj1 Ho)). unfold cown.
  destruct (j <? next_id (run FCons c (init now0) cs)) eqn:E; [apply N.ltb_lt in E; lia | reflexivity].
Qed.

(* sequential-only contracts (Base / Enumerable without explicit ids) *)
Definition no_mint_id (cs : list call) : bool :=
  forallb (fun cl => match cl with MintId _ _ => false | _ => true end) cs.
Definition SeqInv (s : state) : Prop := forall id, next_id s <= id -> aget N.eqb id (owner s) = None.

Lemma seq_step fl c s cl s' r : plain fl -> SeqInv s ->
  match cl with MintId _ _ => False | _ => True end ->
  exec fl c s cl = Ok (s', r) -> SeqInv s'.
Proof.
  intros Hp Hinv Hnm H. unfold SeqInv in *.
  assert (Hlt : forall id v, aget N.eqb id (owner s) = Some v -> id < next_id s).
  { intros id v E. destruct (N.lt_ge_cases id (next_id s)) as [X|X]; [exact X|]. rewrite (Hinv id X) in E. discriminate. }
  destruct cl; cbn [exec] in H; try contradiction.
  - apply Ok_inj in H. inversion H; subst. exact Hinv.
  - assert (H' : (do '(s1, id) <- increment_token_id s 1;
                  do s2 <- update fl c s1 None (Some to) id;
                  do s3 <- enum_after_mint fl s2 to id; Ok (s3, Some id)) = Ok (s', r))
      by (destruct fl; try exact H; exfalso; apply Hp; reflexivity).
    clear H. inv_res H'. unfold increment_token_id in G. inv_res G. subst x.
    cbv beta iota zeta in H'. inv_res H'. subst.
    pose proof (enum_after_mint_core _ _ _ _ _ G1) as Hc.
    pose proof (plain_mint_owner fl c _ to _ _ _ Hp G Hc) as Eo. cbn [owner set_next_id] in Eo.
    apply update_core in G; [|discriminate]. destruct G as [(_&Hn&_) _]. cbn [next_id set_next_id] in Hn.
    destruct Hc as (_&Hn'&_). rewrite Hn', Hn, Eo. intros id Hid.
    rewrite (aget_aset N.eqb Neqb_spec). destruct (id =? next_id s) eqn:E; [apply N.eqb_eq in E; lia|]. apply Hinv. lia.
  - destruct fl; try discriminate. exfalso; apply Hp; reflexivity.
  - inv_res H. subst. pose proof (enum_after_transfer_core _ _ _ _ _ _ G1) as Hc.
    pose proof (plain_move_owner fl c s from (Some to) id _ _ Hp G0 Hc) as Eo.
    apply update_core in G0; [|discriminate]. destruct G0 as [(_&Hn&_) Hw]. destruct (Hw from eq_refl) as [Hw1 _].
    assert (Hw2 : aget N.eqb id (owner s) = Some from) by (destruct fl; try exact Hw1; exfalso; apply Hp; reflexivity).
    destruct Hc as (_&Hn'&_). rewrite Hn', Hn, Eo. intros j Hj.
    rewrite (aget_aset N.eqb Neqb_spec). destruct (j =? id) eqn:E; [apply N.eqb_eq in E; subst; specialize (Hlt _ _ Hw2); lia | apply Hinv; exact Hj].
  - inv_res H. subst. pose proof (enum_after_transfer_core _ _ _ _ _ _ G2) as Hc.
    pose proof (plain_move_owner fl c s from (Some to) id _ _ Hp G1 Hc) as Eo.
    apply update_core in G1; [|discriminate]. destruct G1 as [(_&Hn&_) Hw]. destruct (Hw from eq_refl) as [Hw1 _].
    assert (Hw2 : aget N.eqb id (owner s) = Some from) by (destruct fl; try exact Hw1; exfalso; apply Hp; reflexivity).
    destruct Hc as (_&Hn'&_). rewrite Hn', Hn, Eo. intros j Hj.
    rewrite (aget_aset N.eqb Neqb_spec). destruct (j =? id) eqn:E; [apply N.eqb_eq in E; subst; specialize (Hlt _ _ Hw2); lia | apply Hinv; exact Hj].
  - inv_res H. subst. pose proof (enum_after_burn_core _ _ _ _ _ G1) as Hc.
    pose proof (plain_move_owner fl c s from None id _ _ Hp G0 Hc) as Eo.
    apply update_core in G0; [|discriminate]. destruct G0 as [(_&Hn&_) _].
    destruct Hc as (_&Hn'&_). rewrite Hn', Hn, Eo. intros j Hj.
    rewrite (aget_arem N.eqb Neqb_spec). destruct (j =? id); [reflexivity | apply Hinv; exact Hj].
  - inv_res H. subst. pose proof (enum_after_burn_core _ _ _ _ _ G2) as Hc.
    pose proof (plain_move_owner fl c s from None id _ _ Hp G1 Hc) as Eo.
    apply update_core in G1; [|discriminate]. destruct G1 as [(_&Hn&_) _].
    destruct Hc as (_&Hn'&_). rewrite Hn', Hn, Eo. intros j Hj.
    rewrite (aget_arem N.eqb Neqb_spec). destruct (j =? id); [reflexivity | apply Hinv; exact Hj].
  - inv_res H. subst. apply approve_for_owner_ok in G1. destruct G1 as [_ [[_ ->]|(_&_&en&_&_&->)]]; exact Hinv.
  - inv_res H. subst. apply approve_for_all_ok in G. destruct G as [_ [[_ ->]|(_&_&en&_&_&->)]]; exact Hinv.
Qed.

Lemma seq_run fl c cs : plain fl -> forall s, SeqInv s -> no_mint_id cs = true ->
  SeqInv (run fl c s cs) /\ fresh_run fl c s cs = true.
Proof.
  intros Hp. induction cs as [|cl r IH]; intros s Hinv Hn; [split; [exact Hinv | reflexivity]|].
  cbn [no_mint_id forallb] in Hn. apply andb_true_iff in Hn. destruct Hn as [Hn1 Hn2].
  change (run fl c s (cl :: r)) with (run fl c (fst (step fl c s cl)) r). cbn [fresh_run].
  assert (Hs' : SeqInv (fst (step fl c s cl))).
  { destruct (step_cases fl c s cl) as [(s'&rr&He&->)|[He ->]]; cbn [fst]; [|exact Hinv].
    eapply seq_step; [exact Hp | exact Hinv | | exact He]. destruct cl; try exact I. discriminate. }
  destruct (IH _ Hs' Hn2) as [A B]. split; [exact A|]. rewrite B, andb_true_r.
  unfold fresh_ok. destruct fl; try (exfalso; apply Hp; reflexivity);
    (destruct cl; try reflexivity; try discriminate; cbn [owner_of]; rewrite (Hinv (next_id s)) by lia; reflexivity).
Qed.

Theorem seq_unissued fl c now0 cs j : fl <> FCons -> no_mint_id cs = true ->
  let s := run fl c (init now0) cs in next_id s <= j -> owner_of fl c s j = None.
Proof.
  cbv zeta. intros Hp Hn Hj.
  destruct (seq_run fl c cs Hp (init now0)) as [A _]; [intros id _; reflexivity | exact Hn|].
  destruct fl; try (exfalso; apply Hp; reflexivity); cbn [owner_of]; apply A; exact Hj.
Qed.
Theorem seq_fresh fl c now0 cs : fl <> FCons -> no_mint_id cs = true -> fresh_run fl c (init now0) cs = true.
Proof. intros Hp Hn. apply (seq_run fl c cs Hp (init now0)); [intros id _; reflexivity | exact Hn]. Qed.

(* ---------- enumerable: both index lists enumerate the existing tokens exactly once ---------- *)
Theorem enum_lists c now0 cs :
  fresh_run FEnum c (init now0) cs = true ->
  let s := run FEnum c (init now0) cs in
  let abs := abs_map FEnum c now0 cs in
  (* global list *)
  (forall k, k < total s <-> get_token_id s k <> None) /\
  (forall k id, get_token_id s k = Some id -> abs id <> None) /\
  (forall k k' id, get_token_id s k = Some id -> get_token_id s k' = Some id -> k = k') /\
  (forall id, abs id <> None -> exists k, get_token_id s k = Some id) /\
  (forall l, NoDup l -> (forall i, abs i <> None -> In i l) ->
     total s = N.of_nat (length (filter (fun i => match abs i with Some _ => true | None => false end) l))) /\
  (* per-owner lists *)
  (forall a k, k < balance s a <-> get_owner_token_id s a k <> None) /\
  (forall a k id, get_owner_token_id s a k = Some id -> abs id = Some a) /\
  (forall a k k' id, get_owner_token_id s a k = Some id -> get_owner_token_id s a k' = Some id -> k = k') /\
  (forall a id, abs id = Some a -> exists k, get_owner_token_id s a k = Some id).
Proof.
  intros Hf. cbv zeta. unfold abs_map.
  pose proof (run_sg_sim10 FEnum c cs _ _ (sim10_init FEnum now0) Hf) as (Hs&Hcard&Hen&_).
  rewrite run_sg_state in Hs, Hen. set (g := snd (run_sg FEnum c (init now0) (ghost0 now0) cs)) in *.
  set (s := run FEnum c (init now0) cs) in *.
  destruct (Hen eq_refl) as [[HO HG] Htot]. destruct HG as (G1&G2&G3).
  split; [|split; [|split; [|split; [|split; [|split; [|split; [|split]]]]]]].
  - intros k. split; [apply G3|]. intros Hk. destruct (get_token_id s k) as [id|] eqn:E; [|contradiction].
    apply (G1 _ _ E).
  - intros k id E. apply (G1 _ _ E).
  - intros k k' id E E'. destruct (G1 _ _ E) as (_&_&I1). destruct (G1 _ _ E') as (_&_&I2). rewrite I1 in I2. inversion I2. reflexivity.
  - intros id Hid. destruct (G2 id Hid) as (k&_&B). exists k. exact B.
  - intros l Hnd Hcov. rewrite Htot. destruct Hcard as (dom&Hnd'&Hcv&_&Hsup&_). rewrite Hsup. f_equal.
    apply cnt_in_cover; [exact Hnd' | exact Hnd | |].
    + intros i Hi. apply Hcv. unfold exists_in in Hi. destruct (rget (g_own g) i); [discriminate | discriminate].
    + intros i Hi. apply Hcov. unfold exists_in in Hi. destruct (rget (g_own g) i); [discriminate | discriminate].
  - intros a k. destruct (HO a) as (O1&O2&O3). split; [apply O3|]. intros Hk.
    destruct (get_owner_token_id s a k) as [id|] eqn:E; [|contradiction]. apply (O1 _ _ E).
  - intros a k id E. destruct (HO a) as (O1&_&_). apply (O1 _ _ E).
  - intros a k k' id E E'. destruct (HO a) as (O1&_&_).
    destruct (O1 _ _ E) as (_&_&I1). destruct (O1 _ _ E') as (_&_&I2). rewrite I1 in I2. inversion I2. reflexivity.
  - intros a id Hid. destruct (HO a) as (_&O2&_). destruct (O2 id Hid) as (k&_&B). exists k. exact B.
Qed.

(* ---------- consecutive: the structural invariant behind the ownership inference ---------- *)
Theorem consec_inv c now0 cs :
  let s := run FCons c (init now0) cs in
  let abs := abs_map FCons c now0 cs in
  (* every set bit is below the counter; an owner entry sits on a set bit of a live token *)
  (forall m, In m (marks s) -> m < next_id s) /\
  (forall i a, aget N.eqb i (owner s) = Some a -> In i (marks s) /\ ~ In i (burned s)) /\
  (forall m, In m (marks s) -> aget N.eqb m (owner s) <> None \/ In m (burned s)) /\
  (forall b, In b (burned s) -> b < next_id s) /\
  (* the predecessor of a burned token is marked or burned *)
  (forall b, In b (burned s) -> 0 < b -> In (b - 1) (marks s) \/ In (b - 1) (burned s)) /\
  (* for every live token the least marked id at or above it exists and carries its abstract owner *)
  (forall j, j < next_id s -> ~ In j (burned s) ->
     exists m a, least_ge (marks s) j = Some m /\ aget N.eqb m (owner s) = Some a /\ abs j = Some a) /\
  (forall j, (next_id s <= j \/ In j (burned s)) -> abs j = None).
Proof.
  cbv zeta. unfold abs_map.
  pose proof (run_sg_sim FCons c cs _ _ (sim_init FCons now0)) as [_ Ho]. rewrite run_sg_state in Ho.
  cbn [OwnInv] in Ho. set (g := snd (run_sg FCons c (init now0) (ghost0 now0) cs)) in *.
  set (s := run FCons c (init now0) cs) in *. destruct Ho as (H1&H2&H3&H4&H5&H6&H7).
  repeat (split; [assumption|]). split.
  - intros j Hj Hb. specialize (H7 j Hj Hb). rewrite <- H6 in H7 |- *. unfold cown in *.
    apply N.ltb_lt in Hj. apply memN_false in Hb. rewrite Hj, Hb in *. cbn [negb andb] in *.
    destruct (least_ge (marks s) j) as [m|]; [|contradiction].
    destruct (aget N.eqb m (owner s)) as [a|] eqn:Ea; [|contradiction]. exists m, a. auto.
  - intros j Hj. rewrite <- H6. unfold cown. destruct Hj as [Hj|Hj].
    + destruct (j <? next_id s) eqn:E; [apply N.ltb_lt in E; lia | reflexivity].
    + apply memN_In in Hj. rewrite Hj. cbn [negb]. rewrite andb_false_r. reflexivity.
Qed.

Theorem base_refines_map c now0 cs :
  fresh_run FBase c (init now0) cs = true ->
  let s := run FBase c (init now0) cs in
  let abs := abs_map FBase c now0 cs in
  (forall id, owner_of FBase c s id = abs id) /\
  (forall a l, NoDup l -> (forall i, abs i = Some a -> In i l) ->
     balance s a = N.of_nat (length (filter (fun i => oaddr_eqb (abs i) (Some a)) l))).
Proof. apply refines_map. Qed.
Theorem enum_refines_map c now0 cs :
  fresh_run FEnum c (init now0) cs = true ->
  let s := run FEnum c (init now0) cs in
  let abs := abs_map FEnum c now0 cs in
  (forall id, owner_of FEnum c s id = abs id) /\
  (forall a l, NoDup l -> (forall i, abs i = Some a -> In i l) ->
     balance s a = N.of_nat (length (filter (fun i => oaddr_eqb (abs i) (Some a)) l))).
Proof. apply refines_map. Qed.


(* ---------- progress in reachable states ---------- *)
Lemma has_auth_of_In auths a : In a auths -> has_auth auths a = true.
Proof. intros H. unfold has_auth. apply existsb_exists. exists a. split; [exact H | apply N.eqb_refl]. Qed.

Theorem owner_can_transfer fl c now0 cs auths from to id :
  fresh_run fl c (init now0) cs = true ->
  let s := run fl c (init now0) cs in
  owner_of fl c s id = Some from -> In from auths -> balance s to + 1 <= MAXU32N ->
  exists s', exec fl c s (Transfer auths from to id) = Ok (s', None).
Proof.
  intros Hf. cbv zeta. intros Ho Ha Hroom.
  pose proof (run_sg_sim10 fl c cs _ _ (sim10_init fl now0) Hf) as Hs. rewrite run_sg_state in Hs.
  eapply owner_transfer_progress; [exact Hs | apply has_auth_of_In; exact Ha | | exact Hroom].
  rewrite <- (own_of fl c _ _ (proj2 (proj1 Hs))). exact Ho.
Qed.
Theorem owner_can_burn fl c now0 cs auths from id :
  fresh_run fl c (init now0) cs = true ->
  let s := run fl c (init now0) cs in
  owner_of fl c s id = Some from -> In from auths ->
  exists s', exec fl c s (Burn auths from id) = Ok (s', None).
Proof.
  intros Hf. cbv zeta. intros Ho Ha.
  pose proof (run_sg_sim10 fl c cs _ _ (sim10_init fl now0) Hf) as Hs. rewrite run_sg_state in Hs.
  eapply owner_burn_progress; [exact Hs | apply has_auth_of_In; exact Ha |].
  rewrite <- (own_of fl c _ _ (proj2 (proj1 Hs))). exact Ho.
Qed.

(* ---------- further pinned facts ---------- *)
Theorem move_names_owner fl c s cl s' r : exec fl c s cl = Ok (s', r) ->
  match cl with
  | Transfer _ from _ id | TransferFrom _ _ from _ id | Burn _ from id | BurnFrom _ _ from id =>
      owner_of fl c s id = Some from /\ r = None
  | _ => True
  end.
Proof.
  intros H. apply exec_ok in H. destruct cl; cbn [exec_spec] in H; try exact I.
  - destruct H as (_&A&B&_). auto.
  - destruct H as (_&_&A&B&_). auto.
  - destruct H as (_&A&B&_). auto.
  - destruct H as (_&_&A&B&_). auto.
Qed.

Theorem batch_mint_accepted c s to amt :
  1 <= amt -> amt <= max_batch c -> next_id s + amt <= MAXU32N -> balance s to + amt <= MAXU32N ->
  exists s', exec FCons c s (BatchMint to amt) = Ok (s', Some (next_id s + amt - 1)).
Proof. apply batch_mint_progress. Qed.

Lemma spender_check_model s sp from id :
  (sp = from \/ get_approved s id = Some sp \/ is_approved_for_all s from sp = true) ->
  check_spender_approval s sp from id = Ok tt.
Proof.
  intros H. unfold check_spender_approval. apply guard_true.
  destruct H as [->|[H|H]].
  - rewrite N.eqb_refl. reflexivity.
  - rewrite H. cbn [oaddr_eqb]. rewrite N.eqb_refl, orb_true_r. reflexivity.
  - rewrite H. apply orb_true_r.
Qed.

Theorem spender_can_transfer fl c now0 cs auths sp from to id :
  fresh_run fl c (init now0) cs = true ->
  let s := run fl c (init now0) cs in
  owner_of fl c s id = Some from -> In sp auths ->
  (sp = from \/ get_approved s id = Some sp \/ is_approved_for_all s from sp = true) ->
  balance s to + 1 <= MAXU32N ->
  exists s', exec fl c s (TransferFrom auths sp from to id) = Ok (s', None).
Proof.
  intros Hf. cbv zeta. intros Ho Ha Hsp Hroom.
  rewrite (transfer_from_as_transfer fl c _ auths sp from to id (has_auth_of_In _ _ Ha) (spender_check_model _ _ _ _ Hsp)).
  apply (owner_can_transfer fl c now0 cs [from] from to id Hf Ho); [left; reflexivity | exact Hroom].
Qed.
Theorem spender_can_burn fl c now0 cs auths sp from id :
  fresh_run fl c (init now0) cs = true ->
  let s := run fl c (init now0) cs in
  owner_of fl c s id = Some from -> In sp auths ->
  (sp = from \/ get_approved s id = Some sp \/ is_approved_for_all s from sp = true) ->
  exists s', exec fl c s (BurnFrom auths sp from id) = Ok (s', None).
Proof.
  intros Hf. cbv zeta. intros Ho Ha Hsp.
  rewrite (burn_from_as_burn fl c _ auths sp from id (has_auth_of_In _ _ Ha) (spender_check_model _ _ _ _ Hsp)).
  apply (owner_can_burn fl c now0 cs [from] from id Hf Ho). left; reflexivity.
Qed.
