(* C08: the monitor of Run/C08.v accepts every run of the model, and the model's diff with
   itself is empty. *)
From SC Require Import Lib.Prelude Lib.Int Lib.Host Model.Timelock Model.TimelockGhost
  Proofs.TimelockGhost Proofs.Timelock Proofs.C08Final Run.C08.

(* ---------------- reflexivity of the boolean equalities ---------------- *)
Lemma oz_eqb_refl a : oz_eqb a a = true.
Proof. destruct a; cbn; auto using Z.eqb_refl. Qed.
Lemma on_eqb_refl a : on_eqb a a = true.
Proof. destruct a; cbn; auto using N.eqb_refl. Qed.
Lemma outcome_eqb_refl a : outcome_eqb a a = true.
Proof. destruct a; cbn; auto using on_eqb_refl. Qed.
Lemma bool_eqb_refl b : Bool.eqb b b = true.
Proof. destruct b; reflexivity. Qed.
Lemma opview_eqb_refl v : opview_eqb v v = true.
Proof. unfold opview_eqb. rewrite Z.eqb_refl, opstate_eqb_refl, !bool_eqb_refl. reflexivity. Qed.
Lemma list_eqb_refl {A} (f : A -> A -> bool) l : (forall x, f x x = true) -> list_eqb f l l = true.
Proof. intros H. induction l; cbn; auto. rewrite H, IHl. reflexivity. Qed.
Lemma obs_eqb_refl o : obs_eqb o o = true.
Proof.
  unfold obs_eqb. rewrite Z.eqb_refl, oz_eqb_refl. cbn [andb].
  rewrite !list_eqb_refl; auto.
  - intros x. rewrite N.eqb_refl, Z.eqb_refl. reflexivity.
  - intros x. rewrite N.eqb_refl, opview_eqb_refl. reflexivity.
Qed.

(* ---------------- association lists built by [observe] ---------------- *)
Lemma alist_get_map {V} (f : N -> V) l i :
  alist_get i (map (fun j => (j, f j)) l) = if existsb (N.eqb i) l then Some (f i) else None.
Proof.
  induction l as [|j l IH]; cbn [map alist_get existsb]; [reflexivity|].
  destruct (N.eqb i j) eqn:E; cbn [orb]; [|exact IH].
  apply N.eqb_eq in E. subst j. reflexivity.
Qed.
Lemma forallb_map {A B} (g : A -> B) (P : B -> bool) l : forallb P (map g l) = forallb (fun x => P (g x)) l.
Proof. induction l; cbn; auto. rewrite IHl. reflexivity. Qed.
Lemma existsb_in l i : In i l -> existsb (N.eqb i) l = true.
Proof. intros H. apply existsb_exists. exists i. split; [exact H|apply N.eqb_refl]. Qed.
Lemma same_keys_map {A B} (f : N -> A) (g : N -> B) l :
  same_keys (map (fun i => (i, f i)) l) (map (fun i => (i, g i)) l) = true.
Proof.
  unfold same_keys. rewrite !map_map. cbn [fst]. apply list_eqb_refl. apply N.eqb_refl.
Qed.

Section WithHash.
  Variable hash : op -> id.
  Notation step := (step hash).
  Notation subject := (subject hash).

  Lemma ginv_mark_range t g i : ginv t g -> 0 <= mark t i <= MAXU32.
  Proof.
    intros [Hn Hg]. specialize (Hg i). destruct (alist_get i g) as [[a d m|]|]; cbn [entry_ok] in Hg.
    - destruct Hg as (-> & Ha & _ & Hd). pose proof (sat_add_u32_range a d). lia.
    - rewrite Hg, MAXU32_val. lia.
    - rewrite Hg, MAXU32_val. lia.
  Qed.

  Lemma view_coherent_model t i : 0 <= mark t i <= MAXU32 -> view_coherent (now t) (view t i) = true.
  Proof.
    intros H. unfold view_coherent, view; cbn [v_ledger v_state v_exists v_pending v_ready v_done v_trap negb andb].
    replace (in_u32 (mark t i)) with true by (symmetry; apply in_u32_iff; exact H).
    unfold operation_exists, is_operation_pending, is_operation_ready, is_operation_done.
    rewrite !bool_eqb_refl. cbn [andb]. rewrite !andb_true_r.
    unfold state_of, state_of_mark, UNSET_LEDGER, DONE_LEDGER. apply opstate_eqb_refl.
  Qed.

  Lemma obs_coherent_model ids tags s g : ginv (tls s) g -> obs_coherent (observe ids tags s) = true.
  Proof.
    intros Hg. unfold obs_coherent, observe; cbn [o_now o_ops].
    destruct Hg as [Hn Hg'].
    replace (2 <=? now (tls s)) with true by (symmetry; apply Z.leb_le; lia).
    replace (in_u32 (now (tls s))) with true by (symmetry; apply in_u32_iff; lia). cbn [andb].
    rewrite forallb_map. apply forallb_forall. intros i _. cbn [snd].
    apply view_coherent_model. apply (ginv_mark_range _ g). split; assumption.
  Qed.

  (* the boolean transition table follows from the state-machine theorem *)
  Lemma trans_ok_model s c i :
    2 <= now (tls s) ->
    trans_ok c (match subject c with Some j => N.eqb i j | None => false end)
             (state_of (tls s) i) (state_of (tls (fst (step s c))) i) = true.
  Proof.
    intros Hn. pose proof (state_machine hash s c i Hn) as M. cbv zeta in M.
    destruct (state_of (tls s) i), (state_of (tls (fst (step s c))) i); cbn [trans_ok]; try reflexivity; try contradiction.
    - destruct M as (o & d & -> & <- & _). cbn. rewrite N.eqb_refl. reflexivity.
    - destruct M as (o & d & -> & <- & _). cbn. rewrite N.eqb_refl. reflexivity.
    - subst c. cbn. rewrite N.eqb_refl. reflexivity.
    - destruct M as (n & -> & _). reflexivity.
    - subst c. cbn. rewrite N.eqb_refl. reflexivity.
    - destruct M as (o & Hx & <-). destruct c; cbn in Hx; inversion Hx; subst; cbn; rewrite N.eqb_refl; reflexivity.
  Qed.

  Lemma op_step_ok_model ids tags s c g i :
    ginv (tls s) g -> snd (step s c) <> Fail -> In i ids ->
    op_step_ok hash c (observe ids tags s) (i, view (tls (fst (step s c))) i) = true.
  Proof.
    intros Hg Hok Hin. unfold op_step_ok, ops_get, observe; cbn [o_ops o_now].
    rewrite alist_get_map, (existsb_in _ _ Hin).
    cbn [view v_state v_ledger v_pending].
    rewrite trans_ok_model by (destruct Hg; lia). cbn [andb].
    destruct (step_cases hash s c) as [[Hf _]|[_ H]]; [contradiction|].
    destruct (subject c) as [j|] eqn:Es.
    2:{ (* no subject: nothing stored changes *)
        rewrite (step_frame hash s c i) by (rewrite Es; discriminate). apply Z.eqb_refl. }
    destruct (N.eqb i j) eqn:Eij.
    2:{ apply N.eqb_neq in Eij. rewrite (step_frame hash s c i) by (rewrite Es; congruence). apply Z.eqb_refl. }
    apply N.eqb_eq in Eij. subst j.
    destruct c as [o d|o t|o|k|d|n]; cbn [TimelockGhost.subject] in Es; try discriminate; injection Es as Es; subst i.
    - destruct H as (_ & -> & Hm & _). cbn [with_tl tls]. rewrite mark_set_eq, Z.eqb_refl.
      apply state_unset_iff in Hm. rewrite Hm. reflexivity.
    - destruct H as (_ & _ & -> & _ & Hr & _). rewrite Hr.
      replace (state_of (set_mark (tls s) (hash o) DONE_LEDGER) (hash o)) with Done
        by (symmetry; apply state_done_iff; apply mark_set_eq). reflexivity.
    - destruct H as (_ & -> & Hr & _). rewrite Hr. cbn [with_tl tls].
      replace (state_of (set_mark (tls s) (hash o) DONE_LEDGER) (hash o)) with Done
        by (symmetry; apply state_done_iff; apply mark_set_eq). reflexivity.
    - destruct H as (_ & -> & Hr). cbn [with_tl tls].
      replace (state_of (del_mark (tls s) k) k) with Unset
        by (symmetry; apply state_unset_iff; apply mark_del_eq).
      unfold is_operation_pending. destruct Hr as [-> | ->]; reflexivity.
  Qed.

  Lemma run_count_set s a b v :
    match alist_get a (alist_set b v (runs s)) with Some x => x | None => 0 end
    = if N.eqb a b then v else run_count s a.
  Proof.
    destruct (N.eqb a b) eqn:E.
    - apply N.eqb_eq in E. subst. rewrite alist_get_set_eq. reflexivity.
    - apply N.eqb_neq in E. rewrite alist_get_set_neq by exact E. reflexivity.
  Qed.

  Lemma runs_step_ok_model ids tags s c a :
    snd (step s c) <> Fail -> In a tags ->
    runs_step_ok c (observe ids tags s) (a, run_count (fst (step s c)) a) = true.
  Proof.
    intros Hok Hin. unfold runs_step_ok, observe; cbn [o_runs].
    rewrite alist_get_map, (existsb_in _ _ Hin).
    destruct (step_cases hash s c) as [[Hf _]|[_ H]]; [contradiction|].
    destruct c as [o d|o t|o|k|d|n].
    - destruct H as (_ & -> & _). apply Z.eqb_refl.
    - destruct H as (-> & _ & _ & Hr & _). unfold run_count at 1 3. rewrite Hr, run_count_set.
      destruct (N.eqb a (args o)) eqn:E; [|apply Z.eqb_refl].
      apply N.eqb_eq in E. subst a. apply Z.eqb_refl.
    - destruct H as (_ & -> & _). apply Z.eqb_refl.
    - destruct H as (_ & -> & _). apply Z.eqb_refl.
    - destruct H as (_ & _ & ->). apply Z.eqb_refl.
    - destruct H as (_ & _ & _ & ->). apply Z.eqb_refl.
  Qed.

  Lemma obs_step_ok_model ids tags s c g :
    ginv (tls s) g ->
    obs_step_ok hash (observe ids tags s) (c, snd (step s c), observe ids tags (fst (step s c))) = true.
  Proof.
    intros Hg.
    destruct (step_ghost hash s c g Hg) as (g' & _ & Hg').
    unfold obs_step_ok. rewrite (obs_coherent_model _ _ _ g' Hg'). cbn [andb].
    destruct (snd (step s c)) as [r|] eqn:Eout.
    2:{ rewrite (step_fail_same hash s c Eout). apply obs_eqb_refl. }
    assert (Hok : snd (step s c) <> Fail) by (rewrite Eout; discriminate).
    unfold observe at 1 2 3 4; cbn [o_ops o_runs].
    rewrite !same_keys_map. cbn [andb].
    replace (forallb (op_step_ok hash c (observe ids tags s)) (o_ops (observe ids tags (fst (step s c))))) with true.
    2:{ symmetry. unfold observe at 2; cbn [o_ops]. rewrite forallb_map. apply forallb_forall.
        intros i Hi. apply (op_step_ok_model ids tags s c g i Hg Hok Hi). }
    replace (forallb (runs_step_ok c (observe ids tags s)) (o_runs (observe ids tags (fst (step s c))))) with true.
    2:{ symmetry. unfold observe at 2; cbn [o_runs]. rewrite forallb_map. apply forallb_forall.
        intros a Ha. apply (runs_step_ok_model ids tags s c a Hok Ha). }
    cbn [andb]. unfold observe; cbn [o_now o_min o_ops].
    destruct (step_cases hash s c) as [[Hf _]|[_ H]]; [contradiction|].
    destruct c as [o d|o t|o|k|d|n].
    - destruct H as (Hr & -> & _ & Hd & m & Hmin & Hle). rewrite Hr in Eout. injection Eout as <-.
      cbn [with_tl tls set_mark now min_delay]. rewrite Z.eqb_refl, oz_eqb_refl, on_eqb_refl, Hmin.
      cbn [andb]. apply Z.leb_le. exact Hle.
    - destruct H as (_ & Hr & Ht & _ & _ & Hp). rewrite Hr in Eout. injection Eout as <-.
      rewrite Ht. cbn [set_mark now min_delay]. rewrite Z.eqb_refl, oz_eqb_refl. cbn [andb on_eqb].
      destruct Hp as [Hp|Hp]; [rewrite Hp; reflexivity|].
      destruct (N.eqb (pred o) 0); [reflexivity|]. cbn [orb]. unfold ops_get.
      rewrite alist_get_map. destruct (existsb (N.eqb (pred o)) ids); [|reflexivity].
      cbn [view v_state]. rewrite Hp. reflexivity.
    - destruct H as (Hr & -> & _ & Hp). rewrite Hr in Eout. injection Eout as <-.
      cbn [with_tl tls set_mark now min_delay]. rewrite Z.eqb_refl, oz_eqb_refl. cbn [andb on_eqb].
      destruct Hp as [Hp|Hp]; [rewrite Hp; reflexivity|].
      destruct (N.eqb (pred o) 0); [reflexivity|]. cbn [orb]. unfold ops_get.
      rewrite alist_get_map. destruct (existsb (N.eqb (pred o)) ids); [|reflexivity].
      cbn [view v_state]. rewrite Hp. reflexivity.
    - destruct H as (Hr & -> & _). rewrite Hr in Eout. injection Eout as <-.
      cbn [with_tl tls del_mark now min_delay]. rewrite Z.eqb_refl, oz_eqb_refl. reflexivity.
    - destruct H as (Hr & _ & ->). rewrite Hr in Eout. injection Eout as <-.
      cbn [with_tl tls now min_delay]. rewrite Z.eqb_refl, oz_eqb_refl. reflexivity.
    - destruct H as (Hr & Hn & _ & ->). rewrite Hr in Eout. injection Eout as <-.
      cbn [with_tl tls now min_delay]. rewrite Z.eqb_refl, oz_eqb_refl.
      replace (0 <=? n) with true by (symmetry; apply Z.leb_le; exact Hn). reflexivity.
  Qed.

  Lemma mon_from_model ids tags cs : forall s g k,
    ginv (tls s) g ->
    mon_from hash (MS (observe ids tags s) g) (model_events hash ids tags s cs) k = 0%N.
  Proof.
    induction cs as [|c cs IH]; intros s g k Hg; cbn [model_events mon_from]; [reflexivity|].
    destruct (step s c) as [s' out] eqn:Es. cbn [mon_from mon_step m_prev m_ghost].
    pose proof (obs_step_ok_model ids tags s c g Hg) as Hobs. rewrite Es in Hobs. cbn [fst snd] in Hobs.
    rewrite Hobs.
    destruct (step_ghost hash s c g Hg) as (g' & Hgs & Hg'). rewrite Es in Hgs, Hg'. cbn [fst snd] in Hgs, Hg'.
    unfold observe at 1 2; cbn [o_now o_min]. rewrite Hgs. apply IH. exact Hg'.
  Qed.

  Lemma diff_from_model ids tags cs : forall s k,
    diff_from hash ids tags s (model_events hash ids tags s cs) k = 0%N.
  Proof.
    induction cs as [|c cs IH]; intros s k; cbn [model_events diff_from]; [reflexivity|].
    destruct (step s c) as [s' out] eqn:Es. cbn [diff_from]. rewrite Es.
    rewrite outcome_eqb_refl, obs_eqb_refl. cbn [andb]. apply IH.
  Qed.
End WithHash.

Lemma obs0_ok_model n0 ids tags tbl :
  2 <= n0 <= MAXU32 ->
  obs0_ok (Hdr n0 ids tags tbl UNSET_LEDGER DONE_LEDGER (observe ids tags (init n0))) = true.
Proof.
  intros Hn. unfold obs0_ok; cbn [h_obs0 h_now].
  rewrite (obs_coherent_model ids tags (init n0) [] (init_ginv n0 Hn)).
  unfold observe; cbn [o_now o_min o_ops o_runs init tls init_tl now min_delay].
  rewrite Z.eqb_refl. cbn [andb oz_eqb].
  rewrite !forallb_map. rewrite andb_true_iff. split; apply forallb_forall; intros x _; reflexivity.
Qed.

Theorem check_accepts_model : forall n0 ids tags tbl cs,
  2 <= n0 <= MAXU32 -> tbl_ok tbl = true -> tbl_in ids tags tbl = true ->
  check (model_trace n0 ids tags tbl cs) = (0%N, 0%N, 0%N).
Proof.
  intros n0 ids tags tbl cs Hn Htbl Hin. unfold check, model_trace.
  assert (D : diff (Hdr n0 ids tags tbl UNSET_LEDGER DONE_LEDGER (observe ids tags (init n0)),
                    model_events (hash_of tbl) ids tags (init n0) cs) = 0%N).
  { unfold diff, header_ok; cbn [h_unset h_done h_obs0 h_ids h_tags h_now h_tbl].
    rewrite !Z.eqb_refl, obs_eqb_refl. cbn [andb]. apply diff_from_model. }
  assert (M : monitor (Hdr n0 ids tags tbl UNSET_LEDGER DONE_LEDGER (observe ids tags (init n0)),
                       model_events (hash_of tbl) ids tags (init n0) cs) = 0%N).
  { unfold monitor; cbn [h_tbl h_obs0]. rewrite Htbl, (obs0_ok_model n0 ids tags tbl Hn).
    unfold hdr_ok; cbn [h_ids h_tags h_tbl h_obs0]. rewrite Hin. unfold observe at 1 2; cbn [o_ops o_runs].
    rewrite !map_map; cbn [fst]. rewrite !map_id, !(list_eqb_refl N.eqb) by apply N.eqb_refl. cbn [andb].
    apply mon_from_model. apply init_ginv. exact Hn. }
  rewrite D, M. reflexivity.
Qed.
