(* The boundary of the properties' quantifier in the model: a mint is fresh ([fresh_ok]) exactly when the
   reference-based test of the monitors ([mint_scope], Run/NftCommon.v) says InScope; the model never makes an
   Illegal mint.  Shared by C10 and C11. *)
From SC Require Import Lib.Prelude Lib.Int Lib.Host Model.Nft Run.NftCommon Proofs.NftMaps Proofs.NftFrame
  Proofs.NftInv Proofs.NftCons Proofs.NftOwn Proofs.NftSim.
Local Open Scope N_scope.

(* the quantifier of the property: explicit ids are fresh, and the sequential counter does not run
   into an explicitly minted id *)
Definition fresh_ok (fl : flavour) (c : cfg) (s : state) (cl : call) : bool :=
  match fl with
  | FCons => true      (* only batch minting: nothing to require *)
  | _ =>
      match cl with
      | MintSeq _ => is_none (owner_of fl c s (next_id s))
      | MintId _ id => is_none (owner_of fl c s id)
      | _ => true
      end
  end.


(* ... and it is never Illegal; it is in scope exactly when the mint was fresh *)
Lemma point_fresh_above r lo hi : (forall j, lo <= j -> rget r j = None) -> point_fresh r lo hi = true.
Proof.
  intros H. unfold point_fresh. apply forallb_forall. intros i _.
  destruct ((lo <=? i) && (i <=? hi)) eqn:E; [|reflexivity].
  apply andb_true_iff in E. destruct E as [E _]. apply N.leb_le in E. rewrite (H i E). reflexivity.
Qed.
Lemma scope_model fl c s g cl s' r :
  Sim fl s g -> exec fl c s cl = Ok (s', r) ->
  mint_scope fl g cl (Ok r) = if fresh_ok fl c s cl then InScope else OutOfScope.
Proof.
  intros [Hc Ho] He. pose proof (own_of fl c s g Ho) as Hown. apply exec_ok in He.
  destruct Hc as ((Hn&Hx)&_).
  destruct cl; cbn [exec_spec] in He; cbn [mint_scope]; try (unfold fresh_ok; destruct fl; reflexivity).
  - destruct He as (Hfl&->&_). unfold fresh_ok. rewrite <- Hx, N.ltb_irrefl, <- Hown.
    destruct fl; try reflexivity. exfalso; apply Hfl; reflexivity.
  - destruct He as (Hfl&_). unfold fresh_ok. rewrite <- Hown.
    destruct fl; try reflexivity. exfalso; apply Hfl; reflexivity.
  - destruct He as (->&Hz&_&_&->&_). unfold fresh_ok. rewrite <- Hx.
    assert (Hnone : forall j, next_id s <= j -> rget (g_own g) j = None).
    { intros j Hj. rewrite <- Hown. cbn [owner_of]. cbn [OwnInv] in Ho.
      rewrite (cons_owner_of_cown c s j (proj1 Ho)). unfold cown.
      destruct (j <? next_id s) eqn:E; [apply N.ltb_lt in E; lia | reflexivity]. }
    replace (next_id s + amount - 1 + 1 - amount) with (next_id s) by lia.
    rewrite N.leb_refl, andb_true_r.
    assert (E : (1 <=? amount) && (amount <=? next_id s + amount - 1 + 1) = true)
      by (apply andb_true_iff; split; apply N.leb_le; lia).
    rewrite E. rewrite (point_fresh_above _ _ _ Hnone). reflexivity.
Qed.

