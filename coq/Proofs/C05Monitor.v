(* C05: the monitor of Run/C05.v accepts every trace the model produces (and the diff of the model with
   itself is empty). *)
From SC Require Import Lib.Prelude Lib.Int Lib.Host Model.Math Proofs.Math Model.Vault
  Proofs.VaultSpec Proofs.VaultToken Proofs.VaultOps Proofs.VaultRate Proofs.VaultTrips Proofs.VaultLive Run.C05 Proofs.C05Tables Proofs.VaultAllow.
From Coq Require Import ZifyBool.

Ltac andb_split := repeat (apply andb_true_intro; split).

(* ---------- an operation returns what its preview returned ---------- *)
Lemma op_preview_exact c s cl s' v evs : step_res c s cl = Ok (s', (v, evs)) ->
  match cl with
  | Deposit _ _ _ _ _ | MintS _ _ _ _ _ | Withdraw _ _ _ _ _ | Redeem _ _ _ _ _ => fst (pre_values c s cl) = Ok v
  | _ => True
  end.
Proof.
  destruct cl; cbn [step_res pre_values fst]; auto; intros H.
  - unfold deposit in H. bsplit H u E0. bsplit H u1 E1. bsplit H sh E2. bsplit H s0 E3. inversion H; subst. exact E2.
  - unfold mint in H. bsplit H u E0. bsplit H u1 E1. bsplit H sh E2. bsplit H s0 E3. inversion H; subst. exact E2.
  - unfold withdraw in H. bsplit H u E0. bsplit H m E1. bsplit H u1 E2. bsplit H sh E3. bsplit H s0 E4.
    inversion H; subst. exact E3.
  - unfold redeem in H. bsplit H u E0. bsplit H u1 E2. bsplit H sh E3. bsplit H s0 E4. inversion H; subst. exact E3.
Qed.

(* ---------- the outside view of the two internal workflows ---------- *)
Lemma tab2_allowance_same n s s' (tk : state -> token) :
  now s' = now s -> allow (tk s') = allow (tk s) ->
  tab2 n (allowance (now s') (tk s')) = tab2 n (allowance (now s) (tk s)).
Proof. intros Hn Ha. rewrite Hn. apply tab2_ext. intros. apply allowance_ext. exact Ha. Qed.

Lemma deposit_like_model c n s s' au evs a sh r f o :
  deposit_effect s s' a sh r f o -> auth_full au o = true -> evs = [(0%N, o, f, r, a, sh)] ->
  (f < n)%N -> (o < n)%N -> 0 <= a <= bal (asset s) f -> 0 <= sh ->
  (o <> f -> a <= allowance (now s) (asset s) f o) ->
  deposit_like n (observe c n s) (observe c n s') au evs a sh r f o = true.
Proof.
  intros He Hau -> Hfn Hon Ha Hsh Hal. unfold deposit_like. rewrite Hau, eqb_events_refl, andb_true_r.
  assert (H1 : (0 <=? a) = true) by lia. assert (H2 : (0 <=? sh) = true) by lia.
  assert (H3 : (a <=? fn1 (o_ab (observe c n s)) f) = true).
  { cbn [observe o_ab]. change (map (bal (asset s)) (univ n)) with (tab1 n (bal (asset s))). rewrite fn1_tab1 by exact Hfn. lia. }
  assert (H4 : N.eqb o f || (a <=? fn2 (o_aal (observe c n s)) f o) = true).
  { destruct (N.eqb o f) eqn:Eo; [reflexivity|]. cbn [orb observe o_aal].
    change (map (fun o0 => map (allowance (now s) (asset s) o0) (univ n)) (univ n)) with (tab2 n (allowance (now s) (asset s))).
    rewrite fn2_tab2 by assumption. apply N.eqb_neq in Eo. specialize (Hal Eo). lia. }
  rewrite H1, H2, H3, H4. clear H3 H4.
  cbn [andb observe o_ab o_sb o_sup o_aal o_sal].
  andb_split.
  - apply eqb_lz_of_eq. change (tab1 n (bal (asset s')) = tab1 n (move (fn1 (tab1 n (bal (asset s)))) f V a)).
    rewrite tab1_move, (de_abal _ _ _ _ _ _ _ He). reflexivity.
  - apply eqb_lz_of_eq.
    change (tab1 n (bal (share s')) = tab1 n (upd (fn1 (tab1 n (bal (share s)))) r (fn1 (tab1 n (bal (share s))) r + sh))).
    rewrite tab1_upd_add, (de_sbal _ _ _ _ _ _ _ He). reflexivity.
  - unfold total_supply. rewrite (de_ssup _ _ _ _ _ _ _ He). apply Z.eqb_refl.
  - apply eqb_llz_of_eq.
    change (tab2 n (allowance (now s') (asset s')) = tab2 n (spent o f a (fn2 (tab2 n (allowance (now s) (asset s)))))).
    rewrite tab2_spent, (de_now _ _ _ _ _ _ _ He). apply tab2_ext. intros. apply (de_aallow _ _ _ _ _ _ _ He).
  - apply eqb_llz_of_eq. apply (tab2_allowance_same n s s' share).
    + apply (de_now _ _ _ _ _ _ _ He).
    + apply (de_sallow _ _ _ _ _ _ _ He).
Qed.

Lemma withdraw_like_model c n s s' au evs a sh r ow o :
  withdraw_effect s s' a sh r ow o -> auth_root au o = true -> evs = [(1%N, o, r, ow, a, sh)] ->
  (ow < n)%N -> (o < n)%N -> 0 <= sh <= bal (share s) ow -> 0 <= a <= total_assets s ->
  (o <> ow -> sh <= allowance (now s) (share s) ow o) ->
  withdraw_like n (observe c n s) (observe c n s') au evs a sh r ow o = true.
Proof.
  intros He Hau -> Hn Hon Hsh Ha Hal. unfold withdraw_like. rewrite Hau, eqb_events_refl, andb_true_r.
  assert (H1 : (0 <=? a) = true) by lia. assert (H2 : (0 <=? sh) = true) by lia.
  assert (H4 : N.eqb o ow || (sh <=? fn2 (o_sal (observe c n s)) ow o) = true).
  { destruct (N.eqb o ow) eqn:Eo; [reflexivity|]. cbn [orb observe o_sal].
    change (map (fun o0 => map (allowance (now s) (share s) o0) (univ n)) (univ n)) with (tab2 n (allowance (now s) (share s))).
    rewrite fn2_tab2 by assumption. apply N.eqb_neq in Eo. specialize (Hal Eo). lia. }
  rewrite H1, H2, H4. clear H4.
  cbn [andb observe o_ab o_sb o_sup o_ta o_aal o_sal].
  andb_split.
  - cbn [o_sb observe]. change (map (bal (share s)) (univ n)) with (tab1 n (bal (share s))). rewrite fn1_tab1 by exact Hn. lia.
  - lia.
  - reflexivity.
  - apply eqb_lz_of_eq. change (tab1 n (bal (asset s')) = tab1 n (move (fn1 (tab1 n (bal (asset s)))) V r a)).
    rewrite tab1_move, (we_abal _ _ _ _ _ _ _ He). reflexivity.
  - apply eqb_lz_of_eq.
    change (tab1 n (bal (share s')) = tab1 n (upd (fn1 (tab1 n (bal (share s)))) ow (fn1 (tab1 n (bal (share s))) ow - sh))).
    rewrite tab1_upd_sub, (we_sbal _ _ _ _ _ _ _ He). reflexivity.
  - unfold total_supply. rewrite (we_ssup _ _ _ _ _ _ _ He). apply Z.eqb_refl.
  - apply eqb_llz_of_eq.
    change (tab2 n (allowance (now s') (share s')) = tab2 n (spent o ow sh (fn2 (tab2 n (allowance (now s) (share s)))))).
    rewrite tab2_spent, (we_now _ _ _ _ _ _ _ He). apply tab2_ext. intros. apply (we_sallow _ _ _ _ _ _ _ He).
  - apply eqb_llz_of_eq. apply (tab2_allowance_same n s s' asset).
    + apply (we_now _ _ _ _ _ _ _ He).
    + apply (we_aallow _ _ _ _ _ _ _ He).
Qed.

(* ---------- mon_call on one model step ---------- *)
Local Opaque deposit_like withdraw_like.
Definition model_item (c : cfg) (n : N) (s : state) (cl : call) : item :=
  (cl, pre_values c s cl, snd (step c s cl), observe c n (fst (step c s cl))).

Lemma obs_same_bal c n s s' : bal (asset s') = bal (asset s) -> o_ab (observe c n s') = o_ab (observe c n s).
Proof. intros H. cbn [observe o_ab]. rewrite H. reflexivity. Qed.

Lemma mon_call_model c n s cl : wf_cfg c -> (0 < n)%N -> Inv c s -> wf_call_obs n cl = true ->
  mon_call c n (observe c n s) (model_item c n s cl) = true.
Proof.
  intros Hc Hn Hi Hwf. unfold wf_call_obs in Hwf. apply andb_prop in Hwf as [Hwf Huniv]. apply andb_prop in Hwf as [Hwf Hown].
  unfold call_univ in Huniv. apply andb_prop in Huniv as [Huniv _].
  destruct (wf_call_parts cl Hwf) as (Hnv & Hr).
  destruct (den_pos c s Hc Hi) as (HA1 & HSP & HA & HS & HP).
  unfold model_item, mon_call. cbn [o_ta o_sup observe].
  change (10 ^ c_off c) with (P_of c).
  destruct cl as [a r f op au|x r f op au|a r ow op au|x r ow op au|f t a au|t a|ow sp a l au|f t a au|sp f t a au|ow sp a l au|k|q|sa|so];
    cbn [call_auths call_amount call_owner_ok call_parties forallb pre_values fst snd] in *.
  - (* Deposit *)
    andb_split.
    + apply eqb_rz_of_eq. apply (to_shares_spec c s _ _ (Inv_stored c s Hi)); exact Hr.
    + reflexivity.
    + unfold step. cbn [step_res]. destruct (deposit c s au a r f op) as [[s' [sh evs]]|] eqn:E; cbn [fst snd]; [|reflexivity].
      destruct (deposit_ok _ _ _ _ _ _ _ _ _ _ E Hi Hnv) as (Hp & Hev & He & Hau & _ & _ & _ & _).
      destruct (to_shares_floor c s Hc Hi a sh Hr Hp) as (_ & _ & Hfl & _).
      andb_split.
      * rewrite Hp. cbn. apply Z.eqb_refl.
      * lia.
      * destruct (deposit_pull _ _ _ _ _ _ _ _ _ _ E) as (_ & Hx & Hsp).
        destruct (to_shares_floor c s Hc Hi a sh Hr Hp) as (_ & Hsh0 & _).
        apply deposit_like_model; auto; try lia. intros Hne. destruct (Hsp Hne) as (Hle & _). lia.
  - (* MintS *)
    andb_split.
    + apply eqb_rz_of_eq. apply (to_assets_spec c s _ _ (Inv_stored c s Hi)); exact Hr.
    + reflexivity.
    + unfold step. cbn [step_res]. destruct (mint c s au x r f op) as [[s' [a evs]]|] eqn:E; cbn [fst snd]; [|reflexivity].
      destruct (mint_ok _ _ _ _ _ _ _ _ _ _ E Hi Hnv) as (Hp & Hev & He & Hau & _ & _ & _ & _).
      destruct (to_assets_ceil c s Hc Hi x a Hr Hp) as (_ & _ & Hce & _).
      andb_split.
      * rewrite Hp. cbn. apply Z.eqb_refl.
      * lia.
      * destruct (mint_pull _ _ _ _ _ _ _ _ _ _ E) as (_ & Hx & Hsp).
        destruct (to_assets_ceil c s Hc Hi x a Hr Hp) as (Hx0 & _).
        apply deposit_like_model; auto; try lia. intros Hne. destruct (Hsp Hne) as (Hle & _). lia.
  - (* Withdraw *)
    assert (Hbr : MIN128 <= bal (share s) ow <= MAX128) by (apply tok_inv_bal_range; apply Hi).
    assert (Hown' : (ow < n)%N) by lia.
    andb_split.
    + apply eqb_rz_of_eq. apply (to_shares_spec c s _ _ (Inv_stored c s Hi)); exact Hr.
    + apply eqb_rz_of_eq. cbn [o_sb observe]. change (map (bal (share s)) (univ n)) with (tab1 n (bal (share s))).
      rewrite fn1_tab1 by exact Hown'. unfold max_withdraw. apply (to_assets_spec c s _ _ (Inv_stored c s Hi)); exact Hbr.
    + unfold step. cbn [step_res]. destruct (withdraw c s au a r ow op) as [[s' [sh evs]]|] eqn:E; cbn [fst snd].
      2:{ (* a failing withdraw is not one the owner was entitled to *)
          apply negb_true_iff. destruct (auth_root au op) eqn:Eau; [|reflexivity].
          destruct (N.eqb op ow) eqn:Eo; [|reflexivity]. apply N.eqb_eq in Eo. subst op. cbn [andb].
          destruct (max_withdraw c s ow) as [m|] eqn:Em; [|reflexivity].
          destruct ((0 <=? a) && (a <=? m)) eqn:Ea; [|reflexivity].
          assert (Ha : 0 <= a <= m) by lia.
          destruct (withdraw_succeeds c s au a r ow m Hc Hi Eau Em Ha) as (s1 & sh1 & ev1 & Hok).
          cbn [step_res] in Hok. rewrite E in Hok. discriminate. }
      destruct (withdraw_ok _ _ _ _ _ _ _ _ _ _ E Hi) as (Hp & Hev & (m & Hm & Hle) & He & Hau & Hsh & Hx & _ & _).
      destruct (to_shares_ceil c s Hc Hi a sh Hr Hp) as (_ & _ & Hce & _).
      andb_split.
      * rewrite Hp. cbn. apply Z.eqb_refl.
      * lia.
      * rewrite Hm. lia.
      * apply withdraw_like_model; auto; try lia. intros Hne. pose proof (withdraw_spend _ _ _ _ _ _ _ _ _ _ E Hne). lia.
  - (* Redeem *)
    assert (Hown' : (ow < n)%N) by lia.
    andb_split.
    + apply eqb_rz_of_eq. apply (to_assets_spec c s _ _ (Inv_stored c s Hi)); exact Hr.
    + cbn [o_sb observe]. change (map (bal (share s)) (univ n)) with (tab1 n (bal (share s))).
      rewrite fn1_tab1 by exact Hown'. unfold max_redeem. cbn. apply Z.eqb_refl.
    + unfold step. cbn [step_res]. destruct (redeem c s au x r ow op) as [[s' [a evs]]|] eqn:E; cbn [fst snd].
      2:{ apply negb_true_iff. destruct (auth_root au op) eqn:Eau; [|reflexivity].
          destruct (N.eqb op ow) eqn:Eo; [|reflexivity]. apply N.eqb_eq in Eo. subst op. cbn [andb].
          cbn [o_sb observe]. change (map (bal (share s)) (univ n)) with (tab1 n (bal (share s))).
          rewrite fn1_tab1 by exact Hown'.
          destruct ((0 <=? x) && (x <=? bal (share s) ow)) eqn:Ex; [|reflexivity].
          destruct (preview_redeem c s x) as [a|] eqn:Ep; [|reflexivity].
          assert (Hx : 0 <= x <= bal (share s) ow) by lia.
          destruct (redeem_succeeds c s au x r ow a Hc Hi Eau Hx Ep) as (s1 & ev1 & Hok).
          cbn [step_res] in Hok. rewrite E in Hok. discriminate. }
      destruct (redeem_ok _ _ _ _ _ _ _ _ _ _ E Hi) as (Hp & Hev & Hle & He & Hau & Hsh & Hx & _ & _).
      destruct (to_assets_floor c s Hc Hi x a Hr Hp) as (_ & _ & Hfl & _).
      andb_split.
      * rewrite Hp. cbn. apply Z.eqb_refl.
      * lia.
      * unfold max_redeem in *. lia.
      * apply withdraw_like_model; auto; try lia. intros Hne. pose proof (redeem_spend _ _ _ _ _ _ _ _ _ _ E Hne). lia.
  - (* ATransfer *)
    unfold step. cbn [step_res]. unfold lift_tok.
    destruct (tok_transfer (auth_root au) (asset s) f t a) as [t1|] eqn:E; cbn [bind fst snd]; [|reflexivity].
    apply tok_transfer_ok in E. destruct E as (Hau & Hx & ->). rewrite Hau. cbn [andb].
    assert (H1 : (0 <=? a) = true) by lia.
    assert (H2 : (a <=? fn1 (o_ab (observe c n s)) f) = true).
    { cbn [observe o_ab]. change (map (bal (asset s)) (univ n)) with (tab1 n (bal (asset s))). rewrite fn1_tab1 by lia. lia. }
    rewrite H1, H2. clear H2. cbn [andb].
    andb_split; cbn [observe o_ab o_sb o_sup o_sal set_asset asset share now bal]; unfold total_supply;
      cbn [set_asset share]; try apply eqb_lz_refl; try apply eqb_llz_refl; try apply Z.eqb_refl.
    apply eqb_lz_of_eq. change (tab1 n (move (bal (asset s)) f t a) = tab1 n (move (fn1 (tab1 n (bal (asset s)))) f t a)).
    rewrite tab1_move. reflexivity.
  - (* AMint *)
    unfold step. cbn [step_res]. unfold lift_tok.
    destruct (update (asset s) None (Some t) a) as [t1|] eqn:E; cbn [bind fst snd]; [|reflexivity].
    apply update_mint in E. destruct E as (Hx & Hsup & ->).
    assert (H1 : (0 <=? a) = true) by lia. rewrite H1. cbn [andb].
    andb_split; cbn [observe o_ab o_sb o_sup o_sal set_asset asset share now bal]; unfold total_supply;
      cbn [set_asset share]; try apply eqb_lz_refl; try apply eqb_llz_refl; try apply Z.eqb_refl.
    apply eqb_lz_of_eq.
    change (tab1 n (upd (bal (asset s)) t (bal (asset s) t + a)) =
            tab1 n (upd (fn1 (tab1 n (bal (asset s)))) t (fn1 (tab1 n (bal (asset s))) t + a))).
    rewrite tab1_upd_add. reflexivity.
  - (* AApprove *)
    unfold step. cbn [step_res]. unfold lift_tok.
    destruct (tok_approve c (now s) (auth_root au) (asset s) ow sp a l) as [t1|] eqn:E; cbn [bind fst snd].
    + unfold tok_approve in E. bsplit E u Eg. apply set_allowance_ok in E. destruct E as (_ & _ & _ & ->).
      andb_split; cbn [observe o_ab o_sb o_sup o_sal set_asset set_allow asset share now bal]; unfold total_supply;
        cbn [set_asset share]; try apply eqb_lz_refl; try apply eqb_llz_refl; try apply Z.eqb_refl.
    + andb_split; try apply eqb_lz_refl; try apply eqb_llz_refl; try apply Z.eqb_refl.
  - (* STransfer *)
    unfold step. cbn [step_res]. unfold lift_tok.
    destruct (tok_transfer (auth_root au) (share s) f t a) as [t1|] eqn:E; cbn [bind fst snd]; [|reflexivity].
    apply tok_transfer_ok in E. destruct E as (Hau & Hx & ->). rewrite Hau. cbn [andb].
    assert (H1 : (0 <=? a) = true) by lia.
    assert (H2 : (a <=? fn1 (o_sb (observe c n s)) f) = true).
    { cbn [observe o_sb]. change (map (bal (share s)) (univ n)) with (tab1 n (bal (share s))). rewrite fn1_tab1 by lia. lia. }
    rewrite H1, H2. clear H2. cbn [andb].
    andb_split; cbn [observe o_ab o_sb o_sup o_aal set_share asset share now bal supply]; unfold total_supply;
      cbn [set_share share supply]; try apply eqb_lz_refl; try apply eqb_llz_refl; try apply Z.eqb_refl.
    apply eqb_lz_of_eq. change (tab1 n (move (bal (share s)) f t a) = tab1 n (move (fn1 (tab1 n (bal (share s)))) f t a)).
    rewrite tab1_move. reflexivity.
  - (* STransferFrom *)
    unfold step. cbn [step_res]. unfold lift_tok.
    destruct (tok_transfer_from c (now s) (auth_root au) (share s) sp f t a) as [t1|] eqn:E; cbn [bind fst snd]; [|reflexivity].
    apply tok_transfer_from_ok in E. destruct E as (Hau & Hx & t2 & Esp & ->). rewrite Hau. cbn [andb].
    destruct (spend_allowance_ok _ _ _ _ _ _ _ Esp) as (Hxa & _).
    assert (H1 : (0 <=? a) = true) by lia.
    assert (H2 : (a <=? fn1 (o_sb (observe c n s)) f) = true).
    { cbn [observe o_sb]. change (map (bal (share s)) (univ n)) with (tab1 n (bal (share s))). rewrite fn1_tab1 by lia. lia. }
    assert (H3 : (a <=? fn2 (o_sal (observe c n s)) f sp) = true).
    { cbn [observe o_sal].
      change (map (fun o0 => map (allowance (now s) (share s) o0) (univ n)) (univ n)) with (tab2 n (allowance (now s) (share s))).
      rewrite fn2_tab2 by lia. lia. }
    rewrite H1, H2, H3. clear H2 H3. cbn [andb].
    andb_split; cbn [observe o_ab o_sb o_sup o_aal set_share asset share now bal supply]; unfold total_supply;
      cbn [set_share share supply]; try apply eqb_lz_refl; try apply eqb_llz_refl; try apply Z.eqb_refl.
    apply eqb_lz_of_eq. change (tab1 n (move (bal (share s)) f t a) = tab1 n (move (fn1 (tab1 n (bal (share s)))) f t a)).
    rewrite tab1_move. reflexivity.
  - (* SApprove *)
    unfold step. cbn [step_res]. unfold lift_tok.
    destruct (tok_approve c (now s) (auth_root au) (share s) ow sp a l) as [t1|] eqn:E; cbn [bind fst snd].
    + unfold tok_approve in E. bsplit E u Eg. apply set_allowance_ok in E. destruct E as (_ & _ & _ & ->).
      andb_split; cbn [observe o_ab o_sb o_sup o_aal set_share set_allow asset share now bal supply]; unfold total_supply;
        cbn [set_share set_allow share supply]; try apply eqb_lz_refl; try apply eqb_llz_refl; try apply Z.eqb_refl.
    + andb_split; try apply eqb_lz_refl; try apply eqb_llz_refl; try apply Z.eqb_refl.
  - (* Advance *)
    unfold step. cbn [step_res].
    destruct (guard ((0 <=? k) && in_u32 (now s + k))); cbn [bind fst snd];
      andb_split; try apply eqb_lz_refl; try apply Z.eqb_refl.
  - (* Query *)
    unfold step. cbn [step_res].
    destruct (run_query c s q) as [v|] eqn:Eq; cbn [bind fst snd];
      (apply andb_true_intro; split; [apply eqb_obs_refl|]); apply eqb_rz_of_eq; rewrite <- Eq; clear Eq;
      (destruct q as [a|x|a|x|a|x|r|r|o|o]; cbn [run_query call_amount call_owner_ok] in *;
        try (apply (to_shares_spec c s _ _ (Inv_stored c s Hi)); exact Hr); try (apply (to_assets_spec c s _ _ (Inv_stored c s Hi)); exact Hr); try reflexivity;
        [ assert (Hbr : MIN128 <= bal (share s) o <= MAX128) by (apply tok_inv_bal_range; apply Hi);
          cbn [o_sb observe]; change (map (bal (share s)) (univ n)) with (tab1 n (bal (share s)));
          rewrite fn1_tab1 by lia; unfold max_withdraw; apply (to_assets_spec c s _ _ (Inv_stored c s Hi)); exact Hbr
        | cbn [o_sb observe]; change (map (bal (share s)) (univ n)) with (tab1 n (bal (share s)));
          rewrite fn1_tab1 by lia; reflexivity ]).
  - (* SetAsset: already set *)
    unfold step. cbn [step_res]. unfold vault_set_asset. destruct (Inv_stored c s Hi) as [Hva _]. rewrite Hva. reflexivity.
  - (* SetOffset: already set *)
    unfold step. cbn [step_res]. unfold vault_set_decimals_offset. destruct (Inv_stored c s Hi) as [_ Hvo]. rewrite Hvo.
    destruct (guard (negb (c_max_off c <? so))); reflexivity.
Qed.

(* ---------- mon_step on one model step ---------- *)
Lemma wf_call_obs_wf n cl : wf_call_obs n cl = true -> wf_call cl = true.
Proof. unfold wf_call_obs. intros H. apply andb_prop in H as [H _]. apply andb_prop in H as [H _]. exact H. Qed.

Lemma stored_decimals c s : Stored c s -> in_u32 (c_adec c + c_off c) = true ->
  vault_decimals c s = Ok (c_adec c + c_off c).
Proof.
  intros Hst Hd. unfold vault_decimals. rewrite (stored_client c s Hst), (stored_off c s Hst). cbn [bind].
  unfold checked_add_u32. rewrite Hd. reflexivity.
Qed.

(* construction: succeeds exactly for an admissible offset and non-overflowing decimals, and leaves [init] *)
Lemma construct_eq c n0 :
  construct c n0 = if c_max_off c <? c_off c then Fail
                   else if in_u32 (c_adec c + c_off c) then Ok (init c n0, c_adec c + c_off c) else Fail.
Proof.
  unfold construct, vault_set_asset, vault_set_decimals_offset, blank, vault_decimals, asset_client, query_asset,
    get_decimals_offset, checked_add_u32, init.
  cbn [v_asset v_off bind of_option now asset share].
  destruct (c_max_off c <? c_off c); cbn [negb guard bind v_asset v_off of_option now asset share]; [reflexivity|].
  change (N.eqb ASSET_ADDR ASSET_ADDR) with true. cbn [guard bind].
  destruct (in_u32 (c_adec c + c_off c)); reflexivity.
Qed.
Lemma construct_ok c n0 s0 d : construct c n0 = Ok (s0, d) ->
  s0 = init c n0 /\ d = c_adec c + c_off c /\ c_off c <= c_max_off c /\ in_u32 (c_adec c + c_off c) = true.
Proof.
  rewrite construct_eq. destruct (c_max_off c <? c_off c) eqn:E1; [discriminate|].
  destruct (in_u32 (c_adec c + c_off c)) eqn:E2; [|discriminate]. intros H; inversion H. repeat split; auto. lia.
Qed.
Lemma construct_fail c n0 : construct c n0 = Fail ->
  c_max_off c < c_off c \/ in_u32 (c_adec c + c_off c) = false.
Proof.
  rewrite construct_eq. destruct (c_max_off c <? c_off c) eqn:E1; [left; lia|].
  destruct (in_u32 (c_adec c + c_off c)) eqn:E2; [discriminate|]. right; reflexivity.
Qed.

Lemma obs_nonneg_observe c n s : Inv c s -> obs_nonneg (observe c n s) = true.
Proof.
  intros Hi. pose proof (Inv_A_nonneg c s Hi). pose proof (Inv_S_nonneg c s Hi). destruct Hi as (Ha & Hs & _).
  unfold obs_nonneg. cbn [observe o_ab o_sb o_sup o_ta].
  assert (H1 : forallb (Z.leb 0) (map (bal (asset s)) (univ n)) = true).
  { apply forallb_forall. intros x Hx. apply in_map_iff in Hx. destruct Hx as (a & <- & _). destruct Ha as (Hn & _). specialize (Hn a). lia. }
  assert (H2 : forallb (Z.leb 0) (map (bal (share s)) (univ n)) = true).
  { apply forallb_forall. intros x Hx. apply in_map_iff in Hx. destruct Hx as (a & <- & _). destruct Hs as (Hn & _). specialize (Hn a). lia. }
  rewrite H1, H2. cbn [andb]. lia.
Qed.

Lemma mon_step_model c n s cl : wf_cfg c -> in_u32 (c_adec c + c_off c) = true -> (0 < n)%N -> Inv c s ->
  wf_call_obs n cl = true ->
  mon_step c n (observe c n s) (model_item c n s cl) = true.
Proof.
  intros Hc Hdu Hn Hi Hwf. pose proof (wf_call_obs_wf n cl Hwf) as Hw.
  pose proof (mon_call_model c n s cl Hc Hn Hi Hwf) as Hcall.
  destruct (step_inv_rate c s cl Hc Hi Hw) as (Hi' & Hrate).
  unfold mon_step. unfold model_item in *. rewrite Hcall, andb_true_r. clear Hcall.
  rewrite Hwf, obs_shape_observe, (obs_nonneg_observe c n _ Hi'). cbn [andb].
  andb_split.
  - cbn [observe o_dec]. rewrite (stored_decimals c _ (Inv_stored c _ Hi') Hdu). apply Z.eqb_refl.
  - cbn [observe o_asset]. destruct (Inv_stored c _ Hi') as [Hva _]. unfold query_asset. rewrite Hva. reflexivity.
  - cbn [observe o_ta o_ab]. change (map (bal (asset (fst (step c s cl)))) (univ n)) with (tab1 n (bal (asset (fst (step c s cl))))).
    rewrite fn1_tab1 by (unfold V; exact Hn). unfold total_assets. apply Z.eqb_refl.
  - unfold step. destruct (step_res c s cl) as [[s' o]|]; cbn [fst snd is_fail]; [reflexivity|apply eqb_obs_refl].
  - unfold step. destruct (step_res c s cl) as [[s' [v evs]]|] eqn:E; cbn [fst snd is_fail].
    + pose proof (op_preview_exact c s cl s' v evs E) as Hp.
      destruct cl; auto; rewrite Hp; reflexivity.
    + destruct cl; auto; destruct (is_fail _); reflexivity.
  - unfold rate_le. cbn [observe o_ta o_sup]. unfold rate_le_states in Hrate. fold (P_of c). lia.
Qed.

(* ---------- the allowance-ageing clause and the ghost state of the monitor ---------- *)
Record Ghost (c : cfg) (n : N) (s : state) (st : mstate) : Prop := {
  g_obs : m_obs st = observe c n s;
  g_now : m_now st = now s;
  g_alu : forall a b, m_alu st a b = lu_of (asset s) a b;
  g_slu : forall a b, m_slu st a b = lu_of (share s) a b
}.

Lemma allowance_aged t nw k o sp : 0 <= k ->
  allowance (nw + k) t o sp = if snd (allow t o sp) <? nw + k then 0 else allowance nw t o sp.
Proof.
  intros Hk. unfold allowance, allowance_data.
  destruct (snd (allow t o sp) <? nw + k) eqn:E1; [reflexivity|].
  destruct (snd (allow t o sp) <? nw) eqn:E2; [lia|reflexivity].
Qed.

Lemma tab2_aged n lu nw k t : 0 <= k -> (forall a b, lu a b = lu_of t a b) ->
  tab2 n (allowance (nw + k) t) = tab2 n (aged lu (nw + k) (fn2 (tab2 n (allowance nw t)))).
Proof.
  intros Hk Hlu. apply tab2_ext. intros o sp Ho Hs. unfold aged. rewrite fn2_tab2 by assumption.
  rewrite Hlu. unfold lu_of. apply allowance_aged; exact Hk.
Qed.

Lemma tab2_approved n nw t o sp a l : 0 <= a -> (0 < a -> nw <= l) ->
  tab2 n (allowance nw (set_allow t (upd2 (allow t) o sp (a, l)))) = tab2 n (upd2z (fn2 (tab2 n (allowance nw t))) o sp a).
Proof.
  intros Ha Hl. apply tab2_ext. intros x y Hx Hy. unfold upd2z, allowance, allowance_data. cbn [allow set_allow]. unfold upd2.
  destruct (N.eqb x o && N.eqb y sp) eqn:E.
  - cbn [fst snd]. destruct (l <? nw) eqn:El; cbn [fst]; lia.
  - rewrite fn2_tab2 by assumption. reflexivity.
Qed.

Lemma can_pull_obs_model c n s st au a f o : Ghost c n s st ->
  can_pull_obs c n st au a f o = true -> can_pull c s au a f o.
Proof.
  intros [Hobs Hnow Halu Hslu] H. unfold can_pull_obs in H. rewrite Hobs, Hnow in H.
  cbn [observe o_ab o_aal] in H.
  change (map (bal (asset s)) (univ n)) with (tab1 n (bal (asset s))) in H.
  change (map (fun o0 => map (allowance (now s) (asset s) o0) (univ n)) (univ n)) with (tab2 n (allowance (now s) (asset s))) in H.
  apply andb_prop in H as [H Ho]. apply andb_prop in H as [H Hf]. apply andb_prop in H as [H Hal].
  apply andb_prop in H as [H Hle]. apply andb_prop in H as [Hau H0].
  assert (Hf' : (f < n)%N) by lia. assert (Ho' : (o < n)%N) by lia.
  rewrite fn1_tab1 in Hle by exact Hf'.
  split; [exact Hau|]. split; [lia|]. intros Hne.
  apply orb_prop in Hal as [Hal|Hal]; [apply N.eqb_eq in Hal; contradiction|].
  apply andb_prop in Hal as [Hal1 Hal2]. rewrite fn2_tab2 in Hal1 by assumption.
  split; [lia|]. intros Hp. rewrite Halu in Hal2. unfold lu_of in Hal2. lia.
Qed.

Lemma mon_ghost_model c n s st cl : Inv c s -> wf_call cl = true -> Ghost c n s st ->
  mon_ghost c n st (model_item c n s cl) = true.
Proof.
  intros Hi Hwfc Hg. pose proof Hg as [Hobs Hnow Halu Hslu]. unfold mon_ghost, model_item.
  unfold step. destruct (step_res c s cl) as [[s' [v evs]]|] eqn:E; cbn [fst snd].
  2:{ destruct cl; try reflexivity; cbn [pre_values fst].
      - (* Deposit *)
        apply negb_true_iff. destruct (preview_deposit c s assets) as [sh|] eqn:Ep; [|reflexivity].
        destruct ((o_sup (m_obs st) + sh <=? MAX128) && can_pull_obs c n st au assets from operator) eqn:Ec; [|reflexivity].
        exfalso. apply andb_prop in Ec as [Em Ec]. rewrite Hobs in Em. cbn [observe o_sup] in Em.
        pose proof (can_pull_obs_model c n s st au assets from operator Hg Ec) as Hpull.
        destruct (proj2 (deposit_iff c s au assets receiver from operator Hi)) as (s1 & sh1 & ev1 & Hok).
        { exists sh. split; [exact Ep|]. split; [lia|exact Hpull]. }
        rewrite E in Hok. discriminate.
      - (* MintS *)
        apply negb_true_iff. destruct (preview_mint c s shares) as [a|] eqn:Ep; [|reflexivity].
        destruct (in_i128 shares && (o_sup (m_obs st) + shares <=? MAX128) && can_pull_obs c n st au a from operator) eqn:Ec; [|reflexivity].
        exfalso. apply andb_prop in Ec as [Em Ec]. apply andb_prop in Em as [Er Em]. rewrite Hobs in Em. cbn [observe o_sup] in Em.
        apply in_i128_iff in Er.
        pose proof (can_pull_obs_model c n s st au a from operator Hg Ec) as Hpull.
        destruct (proj2 (mint_iff c s au shares receiver from operator Hi Er)) as (s1 & a1 & ev1 & Hok).
        { exists a. split; [exact Ep|]. split; [lia|exact Hpull]. }
        rewrite E in Hok. discriminate. }
  rewrite Hobs, Hnow.
  destruct cl as [a r f op au|x r f op au|a r ow op au|x r ow op au|f t a au|t a|ow sp a l au|f t a au|sp f t a au|ow sp a l au|k|q|sa|so];
    cbn [step_res] in E; try reflexivity.
  - (* ATransfer *)
    unfold lift_tok in E. bsplit E t1 E1. inversion E; subst. apply tok_transfer_ok in E1. destruct E1 as (_ & _ & ->).
    apply eqb_llz_refl.
  - (* AMint *)
    unfold lift_tok in E. bsplit E t1 E1. inversion E; subst. apply update_mint in E1. destruct E1 as (_ & _ & ->).
    apply eqb_llz_refl.
  - (* AApprove *)
    unfold lift_tok, tok_approve in E. bsplit E t1 E1. inversion E; subst. bsplit E1 u Eg. apply guard_ok in Eg.
    apply set_allowance_ok in E1. destruct E1 as (Ha & _ & Hl & ->). rewrite Eg. cbn [andb].
    assert (H0a : (0 <=? a) = true) by lia. rewrite H0a. cbn [andb].
    apply eqb_llz_of_eq. cbn [observe o_aal set_asset asset now].
    change (map (fun o => map (allowance (now s) (set_allow (asset s) (upd2 (allow (asset s)) ow sp (a, l))) o) (univ n)) (univ n))
      with (tab2 n (allowance (now s) (set_allow (asset s) (upd2 (allow (asset s)) ow sp (a, l))))).
    change (map (fun o => map (allowance (now s) (asset s) o) (univ n)) (univ n)) with (tab2 n (allowance (now s) (asset s))).
    apply tab2_approved; auto.
  - (* STransfer *)
    unfold lift_tok in E. bsplit E t1 E1. inversion E; subst. apply tok_transfer_ok in E1. destruct E1 as (_ & _ & ->).
    apply eqb_llz_refl.
  - (* STransferFrom *)
    unfold lift_tok in E. bsplit E t1 E1. inversion E; subst.
    apply tok_transfer_from_ok in E1. destruct E1 as (_ & _ & t2 & Esp & ->).
    destruct (spend_allowance_ok _ _ _ _ _ _ _ Esp) as (_ & _ & _ & Hal & _ & _).
    apply eqb_llz_of_eq. cbn [observe o_sal set_share share now].
    change (map (fun o => map (allowance (now s) (share s) o) (univ n)) (univ n)) with (tab2 n (allowance (now s) (share s))).
    match goal with |- map (fun o => map (allowance (now s) ?T o) (univ n)) (univ n) = _ =>
      change (map (fun o => map (allowance (now s) T o) (univ n)) (univ n)) with (tab2 n (allowance (now s) T)) end.
    apply tab2_ext. intros x y Hx Hy. rewrite (allowance_ext (now s) _ t2) by reflexivity. rewrite Hal.
    unfold upd2z. destruct (N.eqb x f && N.eqb y sp) eqn:Exy.
    + assert (x = f /\ y = sp) as [-> ->] by (apply andb_prop in Exy as [Ea Eb]; apply N.eqb_eq in Ea, Eb; auto).
      rewrite fn2_tab2 by assumption. reflexivity.
    + rewrite fn2_tab2 by assumption. reflexivity.
  - (* SApprove *)
    unfold lift_tok, tok_approve in E. bsplit E t1 E1. inversion E; subst. bsplit E1 u Eg. apply guard_ok in Eg.
    apply set_allowance_ok in E1. destruct E1 as (Ha & _ & Hl & ->). rewrite Eg. cbn [andb].
    assert (H0a : (0 <=? a) = true) by lia. rewrite H0a. cbn [andb].
    apply eqb_llz_of_eq. cbn [observe o_sal set_share share now].
    change (map (fun o => map (allowance (now s) (set_allow (share s) (upd2 (allow (share s)) ow sp (a, l))) o) (univ n)) (univ n))
      with (tab2 n (allowance (now s) (set_allow (share s) (upd2 (allow (share s)) ow sp (a, l))))).
    change (map (fun o => map (allowance (now s) (share s) o) (univ n)) (univ n)) with (tab2 n (allowance (now s) (share s))).
    apply tab2_approved; auto.
  - (* Advance *)
    bsplit E u Eg. apply guard_ok in Eg. inversion E; subst. assert (Hk : 0 <= k) by lia.
    assert (Ek : (0 <=? k) = true) by lia. rewrite Ek. cbn [andb observe o_aal o_sal now asset share].
    apply andb_true_intro. split; apply eqb_llz_of_eq.
    + exact (tab2_aged n (m_alu st) (now s) k (asset s) Hk Halu).
    + exact (tab2_aged n (m_slu st) (now s) k (share s) Hk Hslu).
Qed.

Lemma mon_allow_model c n s st cl : Inv c s -> wf_call cl = true -> Ghost c n s st ->
  mon_allow c n st (model_item c n s cl) = true.
Proof.
  intros Hi Hwfc Hg. unfold mon_allow. rewrite (mon_ghost_model c n s st cl Hi Hwfc Hg), andb_true_r.
  destruct Hg as [Hobs Hnow Halu Hslu]. unfold model_item, next_now. cbn [snd observe o_now].
  unfold step. destruct (step_res c s cl) as [[s' [v evs]]|] eqn:E; cbn [fst snd].
  - destruct (step_res_frame c s cl s' (v, evs) E) as (Fn & _ & _). rewrite Fn, Hnow. destruct cl; apply Z.eqb_refl.
  - rewrite Hnow. destruct cl; apply Z.eqb_refl.
Qed.

Lemma ghost_next c n s st cl : Ghost c n s st -> Ghost c n (fst (step c s cl)) (mnext st (model_item c n s cl)).
Proof.
  intros [Hobs Hnow Halu Hslu]. unfold mnext, model_item. unfold step.
  destruct (step_res c s cl) as [[s' [v evs]]|] eqn:E; cbn [fst snd].
  - destruct (step_res_frame c s cl s' (v, evs) E) as (Fn & Fa & Fs).
    destruct cl; constructor; cbn [m_obs m_now m_alu m_slu]; try reflexivity;
      try (rewrite Fn, Hnow; reflexivity); intros x y; rewrite ?Fa, ?Fs; auto;
      unfold upd2z; rewrite ?Halu, ?Hslu; reflexivity.
  - constructor; cbn [m_obs m_now m_alu m_slu]; auto.
Qed.

Lemma mon_from_model c n : wf_cfg c -> in_u32 (c_adec c + c_off c) = true -> (0 < n)%N ->
  forall cs s st i, Inv c s -> Ghost c n s st ->
  forallb (wf_call_obs n) cs = true -> mon_from c n st (model_items c n s cs) i = 0%N.
Proof.
  intros Hc Hdu Hn. induction cs as [|cl cs IH]; intros s st i Hi Hg Hwf; [reflexivity|].
  cbn [forallb] in Hwf. apply andb_prop in Hwf as [Hw Hws].
  cbn [model_items mon_from].
  change (cl, pre_values c s cl, snd (step c s cl), observe c n (fst (step c s cl))) with (model_item c n s cl).
  rewrite (g_obs _ _ _ _ Hg). rewrite (mon_step_model c n s cl Hc Hdu Hn Hi Hw), (mon_allow_model c n s st cl Hi (wf_call_obs_wf n cl Hw) Hg). cbn [andb].
  apply IH; auto.
  - apply step_inv_rate; auto. apply (wf_call_obs_wf n); exact Hw.
  - apply ghost_next; exact Hg.
Qed.

Lemma replay_model c n : forall cs s i, replay c n s (model_items c n s cs) i = 0%N.
Proof.
  induction cs as [|cl cs IH]; intros s i; [reflexivity|].
  cbn [model_items replay]. rewrite eqb_pre_refl, eqb_out_refl, eqb_obs_refl. cbn [andb]. apply IH.
Qed.

(* ---------- whole traces ---------- *)
Lemma observe_init c n now0 : in_u32 (c_adec c + c_off c) = true ->
  observe c n (init c now0) = empty_obs c n now0.
Proof.
  intros Hdu. unfold observe, empty_obs.
  assert (Hst : Stored c (init c now0)) by (split; reflexivity).
  rewrite (stored_decimals c _ Hst Hdu). cbn [init now asset share query_asset v_asset of_option].
  change (N.eqb ASSET_ADDR ASSET_ADDR) with true.
  assert (Hz : forall o, map (allowance now0 empty_token o) (univ n) = map (fun _ => 0) (univ n)).
  { intros o. apply map_ext. intros sp. unfold allowance, allowance_data. cbn. destruct (0 <? now0); reflexivity. }
  unfold tab1, tab2, total_supply, total_assets. cbn [init asset share bal supply empty_token].
  f_equal; apply map_ext; intros o; apply Hz.
Qed.

Theorem check_accepts_model c n now0 cs : wf_hdr c n = true -> in_u32 now0 = true ->
  forallb (wf_call_obs n) cs = true ->
  check (observe_model c n now0 cs) = (0%N, 0%N, 0%N).
Proof.
  intros Hh Hnow Hwf. pose proof Hh as Hh0. unfold wf_hdr in Hh. apply andb_prop in Hh as [Hh Hn]. apply andb_prop in Hh as [Hoff Hdec].
  assert (Hc : wf_cfg c) by (unfold wf_cfg; lia). assert (Hn' : (0 < n)%N) by lia.
  unfold check, observe_model. destruct (construct c now0) as [[s0 d]|] eqn:Ec.
  - destruct (construct_ok c now0 s0 d Ec) as (-> & -> & Hmax & Hdu).
    assert (Hi0 : Inv c (init c now0)) by apply Inv_init.
    f_equal. f_equal.
    + unfold diff. cbn [fst snd h_cfg h_ctor h_n h_now h_obs0]. rewrite Ec. cbn [ctor_dec]. rewrite eqb_rz_refl. cbn [negb].
      rewrite eqb_obs_refl. apply replay_model.
    + unfold monitor. cbn [fst snd h_cfg h_ctor h_n h_now h_obs0].
      assert (Hm : mon_header {| h_cfg := c; h_n := n; h_now := now0; h_ctor := Ok (c_adec c + c_off c);
                                 h_obs0 := observe c n (init c now0) |} = true).
      { unfold mon_header. cbn [h_cfg h_ctor h_obs0 h_n h_now]. rewrite Hh0, Hnow. cbn [andb].
        rewrite (observe_init c n now0 Hdu), eqb_obs_refl, Z.eqb_refl. cbn [andb]. rewrite andb_true_r. lia. }
      rewrite Hm. destruct (model_items c n (init c now0) cs) eqn:Eit.
      * reflexivity.
      * rewrite <- Eit. apply mon_from_model; auto.
        constructor; cbn [minit m_obs m_now m_alu m_slu h_obs0 h_now init now asset share]; auto.
  - f_equal. f_equal.
    + unfold diff. cbn [fst snd h_cfg h_ctor h_now]. rewrite Ec. reflexivity.
    + unfold monitor. cbn [fst snd].
      assert (Hm : mon_header {| h_cfg := c; h_n := n; h_now := now0; h_ctor := Fail; h_obs0 := observe c n (blank now0) |} = true).
      { unfold mon_header. cbn [h_cfg h_ctor h_n h_now]. rewrite Hh0, Hnow. cbn [andb]. destruct (construct_fail c now0 Ec) as [H|H].
        - assert (E : (c_max_off c <? c_off c) = true) by lia. rewrite E. reflexivity.
        - unfold in_u32 in H. apply orb_true_iff. right. lia. }
      rewrite Hm. reflexivity.
Qed.

(* ---------- the monitor is not trivially true ---------- *)
Local Open Scope N_scope.
Definition cfg0 : cfg := {| c_off := 0; c_max_off := 10; c_adec := 7; c_max_ttl := 1000 |}.
Definition z3 : list Z := [0; 0; 0]%Z.
Definition zz3 : list (list Z) := [z3; z3; z3].
Definition hdr0 : header :=
  {| h_cfg := cfg0; h_n := 3; h_now := 10%Z; h_ctor := Ok 7%Z;
     h_obs0 := {| o_ab := z3; o_sb := z3; o_sup := 0; o_ta := 0; o_aal := zz3; o_sal := zz3; o_dec := 7; o_asset := 1; o_now := 10 |} |}.
Definition funded : obs := {| o_ab := [0; 100; 0]%Z; o_sb := z3; o_sup := 0; o_ta := 0; o_aal := zz3; o_sal := zz3; o_dec := 7; o_asset := 1; o_now := 10 |}.
Definition fund1 : item := (AMint 1 100, (Ok 0%Z, Ok 0%Z), Ok (0%Z, []), funded).
(* donation of 9 then a deposit of 10: exact shares 10 * 1 / 10 = 1 *)
Definition donated : obs := {| o_ab := [9; 100; 0]%Z; o_sb := z3; o_sup := 0; o_ta := 9; o_aal := zz3; o_sal := zz3; o_dec := 7; o_asset := 1; o_now := 10 |}.
Definition don : item := (AMint 0 9, (Ok 0%Z, Ok 0%Z), Ok (0%Z, []), donated).
Definition good_dep : item :=
  (Deposit 10 1 1 1 [(1, AFull)], (Ok 1%Z, Ok MAX128), Ok (1%Z, [(0, 1, 1, 1, 10%Z, 1%Z)]),
   {| o_ab := [19; 90; 0]%Z; o_sb := [0; 1; 0]%Z; o_sup := 1; o_ta := 19; o_aal := zz3; o_sal := zz3; o_dec := 7; o_asset := 1; o_now := 10 |}).
(* the same deposit rounded up in the user's favour: 2 shares for 10 assets at rate 10 *)
Definition bad_dep_round_up : item :=
  (Deposit 10 1 1 1 [(1, AFull)], (Ok 2%Z, Ok MAX128), Ok (2%Z, [(0, 1, 1, 1, 10%Z, 2%Z)]),
   {| o_ab := [19; 90; 0]%Z; o_sb := [0; 2; 0]%Z; o_sup := 2; o_ta := 19; o_aal := zz3; o_sal := zz3; o_dec := 7; o_asset := 1; o_now := 10 |}).
(* preview says 1, the operation mints 0 *)
Definition bad_dep_preview : item :=
  (Deposit 10 1 1 1 [(1, AFull)], (Ok 1%Z, Ok MAX128), Ok (0%Z, [(0, 1, 1, 1, 10%Z, 0%Z)]),
   {| o_ab := [19; 90; 0]%Z; o_sb := [0; 0; 0]%Z; o_sup := 0; o_ta := 19; o_aal := zz3; o_sal := zz3; o_dec := 7; o_asset := 1; o_now := 10 |}).
(* the shares go to somebody who was not named *)
Definition bad_dep_party : item :=
  (Deposit 10 1 1 1 [(1, AFull)], (Ok 1%Z, Ok MAX128), Ok (1%Z, [(0, 1, 1, 1, 10%Z, 1%Z)]),
   {| o_ab := [19; 90; 0]%Z; o_sb := [0; 0; 1]%Z; o_sup := 1; o_ta := 19; o_aal := zz3; o_sal := zz3; o_dec := 7; o_asset := 1; o_now := 10 |}).
(* nobody authorised the deposit *)
Definition bad_dep_auth : item :=
  (Deposit 10 1 1 1 [], (Ok 1%Z, Ok MAX128), Ok (1%Z, [(0, 1, 1, 1, 10%Z, 1%Z)]),
   {| o_ab := [19; 90; 0]%Z; o_sb := [0; 1; 0]%Z; o_sup := 1; o_ta := 19; o_aal := zz3; o_sal := zz3; o_dec := 7; o_asset := 1; o_now := 10 |}).
(* redeem of the share pays out 10 of 20 (exact 1 * 20 / 2 = 10) - fine; paying 11 lowers the rate *)
Definition good_red : item :=
  (Redeem 1 1 1 1 [(1, ARoot)], (Ok 10%Z, Ok 1%Z), Ok (10%Z, [(1, 1, 1, 1, 10%Z, 1%Z)]),
   {| o_ab := [9; 100; 0]%Z; o_sb := [0; 0; 0]%Z; o_sup := 0; o_ta := 9; o_aal := zz3; o_sal := zz3; o_dec := 7; o_asset := 1; o_now := 10 |}).
Definition bad_red_generous : item :=
  (Redeem 1 1 1 1 [(1, ARoot)], (Ok 11%Z, Ok 1%Z), Ok (11%Z, [(1, 1, 1, 1, 11%Z, 1%Z)]),
   {| o_ab := [8; 101; 0]%Z; o_sb := [0; 0; 0]%Z; o_sup := 0; o_ta := 8; o_aal := zz3; o_sal := zz3; o_dec := 7; o_asset := 1; o_now := 10 |}).
(* a failing call that leaves a trace *)
Definition bad_fail_trace : item :=
  (Redeem 5 1 1 1 [(1, ARoot)], (Ok 50%Z, Ok 1%Z), Fail,
   {| o_ab := [19; 90; 0]%Z; o_sb := [0; 0; 0]%Z; o_sup := 0; o_ta := 19; o_aal := zz3; o_sal := zz3; o_dec := 7; o_asset := 1; o_now := 10 |}).

Example monitor_accepts_good : monitor (hdr0, [fund1; don; good_dep; good_red]) = 0.
Proof. vm_compute. reflexivity. Qed.
Example monitor_rejects_round_up : monitor (hdr0, [fund1; don; bad_dep_round_up]) = 3.
Proof. vm_compute. reflexivity. Qed.
Example monitor_rejects_preview_mismatch : monitor (hdr0, [fund1; don; bad_dep_preview]) = 3.
Proof. vm_compute. reflexivity. Qed.
Example monitor_rejects_wrong_party : monitor (hdr0, [fund1; don; bad_dep_party]) = 3.
Proof. vm_compute. reflexivity. Qed.
Example monitor_rejects_unauthorised : monitor (hdr0, [fund1; don; bad_dep_auth]) = 3.
Proof. vm_compute. reflexivity. Qed.
Example monitor_rejects_generous_redeem : monitor (hdr0, [fund1; don; good_dep; bad_red_generous]) = 4.
Proof. vm_compute. reflexivity. Qed.
Example monitor_rejects_failed_call_with_effect : monitor (hdr0, [fund1; don; good_dep; bad_fail_trace]) = 4.
Proof. vm_compute. reflexivity. Qed.
(* an offset above the maximum must be rejected by the constructor *)
Example monitor_rejects_offset_11 :
  monitor ({| h_cfg := {| c_off := 11; c_max_off := 10; c_adec := 7; c_max_ttl := 1000 |}; h_n := 3; h_now := 10%Z;
              h_ctor := Ok 18%Z; h_obs0 := h_obs0 hdr0 |}, []) = 1.
Proof. vm_compute. reflexivity. Qed.

(* state that lapses although no call changed it is rejected: after one long Advance ... *)
Local Open Scope N_scope.
Definition after_dep : obs :=
  {| o_ab := [19; 90; 0]%Z; o_sb := [0; 1; 0]%Z; o_sup := 1; o_ta := 19; o_aal := zz3; o_sal := zz3; o_dec := 7; o_asset := 1; o_now := 600010 |}.
Definition adv_ok : item := (Advance 600000, (Ok 0%Z, Ok 0%Z), Ok (0%Z, []), after_dep).
(* ... a share balance is gone *)
Definition adv_lost_balance : item := (Advance 600000, (Ok 0%Z, Ok 0%Z), Ok (0%Z, []),
  {| o_ab := [19; 90; 0]%Z; o_sb := [0; 0; 0]%Z; o_sup := 1; o_ta := 19; o_aal := zz3; o_sal := zz3; o_dec := 7; o_asset := 1; o_now := 600010 |}).
(* ... the total supply reads 0 *)
Definition adv_lost_supply : item := (Advance 600000, (Ok 0%Z, Ok 0%Z), Ok (0%Z, []),
  {| o_ab := [19; 90; 0]%Z; o_sb := [0; 1; 0]%Z; o_sup := 0; o_ta := 19; o_aal := zz3; o_sal := zz3; o_dec := 7; o_asset := 1; o_now := 600010 |}).
(* ... the vault forgot its asset (every getter that needs it traps: -1) *)
Definition adv_lost_asset : item := (Advance 600000, (Ok 0%Z, Ok 0%Z), Ok (0%Z, []),
  {| o_ab := [19; 90; 0]%Z; o_sb := [0; 1; 0]%Z; o_sup := 1; o_ta := -1; o_aal := zz3; o_sal := zz3; o_dec := -1; o_asset := -1; o_now := 600010 |}).
(* ... the decimals offset fell back to 0 (vault with offset 3: decimals 10 -> 7) *)
Definition hdr3 : header :=
  {| h_cfg := {| c_off := 3; c_max_off := 10; c_adec := 7; c_max_ttl := 1000 |}; h_n := 3; h_now := 10%Z; h_ctor := Ok 10%Z;
     h_obs0 := {| o_ab := z3; o_sb := z3; o_sup := 0; o_ta := 0; o_aal := zz3; o_sal := zz3; o_dec := 10; o_asset := 1; o_now := 10 |} |}.
Definition adv_lost_offset : item := (Advance 600000, (Ok 0%Z, Ok 0%Z), Ok (0%Z, []),
  {| o_ab := z3; o_sb := z3; o_sup := 0; o_ta := 0; o_aal := zz3; o_sal := zz3; o_dec := 7; o_asset := 1; o_now := 600010 |}).
(* an allowance approved until ledger 500 must still be there at ledger 110, and be gone at 501 *)
Definition al3 : list (list Z) := [z3; [0; 0; 40]%Z; z3].
Definition appr : item := (AApprove 1 2 40 500 [(1, ARoot)], (Ok 0%Z, Ok 0%Z), Ok (0%Z, []),
  {| o_ab := [0; 100; 0]%Z; o_sb := z3; o_sup := 0; o_ta := 0; o_aal := al3; o_sal := zz3; o_dec := 7; o_asset := 1; o_now := 10 |}).
Definition adv_keep : item := (Advance 100, (Ok 0%Z, Ok 0%Z), Ok (0%Z, []),
  {| o_ab := [0; 100; 0]%Z; o_sb := z3; o_sup := 0; o_ta := 0; o_aal := al3; o_sal := zz3; o_dec := 7; o_asset := 1; o_now := 110 |}).
Definition funded_at (t : Z) : obs := {| o_ab := [0; 100; 0]%Z; o_sb := z3; o_sup := 0; o_ta := 0; o_aal := zz3; o_sal := zz3; o_dec := 7; o_asset := 1; o_now := t |}.
Definition adv_lapsed_early : item := (Advance 100, (Ok 0%Z, Ok 0%Z), Ok (0%Z, []), funded_at 110).
Definition adv_expire : item := (Advance 391, (Ok 0%Z, Ok 0%Z), Ok (0%Z, []), funded_at 501).
Definition adv_survives_expiry : item := (Advance 391, (Ok 0%Z, Ok 0%Z), Ok (0%Z, []),
  {| o_ab := [0; 100; 0]%Z; o_sb := z3; o_sup := 0; o_ta := 0; o_aal := al3; o_sal := zz3; o_dec := 7; o_asset := 1; o_now := 501 |}).

Example monitor_accepts_long_gap : monitor (hdr0, [fund1; don; good_dep; adv_ok]) = 0.
Proof. vm_compute. reflexivity. Qed.
Example monitor_rejects_lapsed_balance : monitor (hdr0, [fund1; don; good_dep; adv_lost_balance]) = 4.
Proof. vm_compute. reflexivity. Qed.
Example monitor_rejects_lapsed_supply : monitor (hdr0, [fund1; don; good_dep; adv_lost_supply]) = 4.
Proof. vm_compute. reflexivity. Qed.
Example monitor_rejects_lapsed_asset_address : monitor (hdr0, [fund1; don; good_dep; adv_lost_asset]) = 4.
Proof. vm_compute. reflexivity. Qed.
Example monitor_rejects_lapsed_offset : monitor (hdr3, [adv_lost_offset]) = 1.
Proof. vm_compute. reflexivity. Qed.
Example monitor_accepts_allowance_life : monitor (hdr0, [fund1; appr; adv_keep; adv_expire]) = 0.
Proof. vm_compute. reflexivity. Qed.
Example monitor_rejects_allowance_lapsed_early : monitor (hdr0, [fund1; appr; adv_lapsed_early]) = 3.
Proof. vm_compute. reflexivity. Qed.
Example monitor_rejects_allowance_outliving : monitor (hdr0, [fund1; appr; adv_keep; adv_survives_expiry]) = 4.
Proof. vm_compute. reflexivity. Qed.

(* ---------- malformed traces are rejected by the monitor itself (nothing about the trace is assumed) ---------- *)
(* an observation with a missing entry *)
Definition short_obs : item := (AMint 1 100, (Ok 0%Z, Ok 0%Z), Ok (0%Z, []),
  {| o_ab := [0; 100]%Z; o_sb := z3; o_sup := 0; o_ta := 0; o_aal := zz3; o_sal := zz3; o_dec := 7; o_asset := 1; o_now := 10 |}).
Example monitor_rejects_short_observation : monitor (hdr0, [short_obs]) = 1.
Proof. vm_compute. reflexivity. Qed.
(* an empty observation *)
Definition no_obs : item := (AMint 1 100, (Ok 0%Z, Ok 0%Z), Ok (0%Z, []),
  {| o_ab := []; o_sb := []; o_sup := 0; o_ta := 0; o_aal := []; o_sal := []; o_dec := 7; o_asset := 1; o_now := 10 |}).
Example monitor_rejects_empty_observation : monitor (hdr0, [no_obs]) = 1.
Proof. vm_compute. reflexivity. Qed.
(* a party outside the observed universe (its balance would not be seen) *)
Definition outside : item := (AMint 7 100, (Ok 0%Z, Ok 0%Z), Ok (0%Z, []), h_obs0 hdr0).
Example monitor_rejects_address_outside_universe : monitor (hdr0, [outside]) = 1.
Proof. vm_compute. reflexivity. Qed.
(* the vault's own address among the signers *)
Definition vault_signs : item := (ATransfer 0 1 0 [(0, ARoot)], (Ok 0%Z, Ok 0%Z), Fail, h_obs0 hdr0).
Example monitor_rejects_vault_signature : monitor (hdr0, [vault_signs]) = 1.
Proof. vm_compute. reflexivity. Qed.
(* the host clock disagrees with the Advance calls *)
Definition clock_off : item := (Advance 5, (Ok 0%Z, Ok 0%Z), Ok (0%Z, []), funded_at 16).
Example monitor_rejects_wrong_clock : monitor (hdr0, [fund1; clock_off]) = 2.
Proof. vm_compute. reflexivity. Qed.
(* a "fresh" vault that already holds something / a first observation that is not the empty one *)
Example monitor_rejects_nonempty_first_observation :
  monitor ({| h_cfg := cfg0; h_n := 3; h_now := 10%Z; h_ctor := Ok 7%Z; h_obs0 := funded |}, []) = 1.
Proof. vm_compute. reflexivity. Qed.
(* an empty universe; calls on a vault whose constructor failed *)
Example monitor_rejects_empty_universe :
  monitor ({| h_cfg := cfg0; h_n := 0; h_now := 10%Z; h_ctor := Ok 7%Z; h_obs0 := empty_obs cfg0 0 10 |}, []) = 1.
Proof. vm_compute. reflexivity. Qed.
Example monitor_rejects_calls_after_failed_constructor :
  monitor ({| h_cfg := {| c_off := 11; c_max_off := 10; c_adec := 7; c_max_ttl := 1000 |}; h_n := 3; h_now := 10%Z;
              h_ctor := Fail; h_obs0 := h_obs0 hdr0 |}, [fund1]) = 1.
Proof. vm_compute. reflexivity. Qed.
(* Advance that changes total_assets() / a failing call that moves the clock *)
Definition adv_ta : item := (Advance 5, (Ok 0%Z, Ok 0%Z), Ok (0%Z, []),
  {| o_ab := [0; 100; 0]%Z; o_sb := z3; o_sup := 0; o_ta := 3; o_aal := zz3; o_sal := zz3; o_dec := 7; o_asset := 1; o_now := 15 |}).
Example monitor_rejects_advance_changing_total_assets : monitor (hdr0, [fund1; adv_ta]) = 2.
Proof. vm_compute. reflexivity. Qed.
Definition fail_moves_clock : item := (Redeem 5 1 1 1 [(1, ARoot)], (Ok 0%Z, Ok 0%Z), Fail, funded_at 11).
Example monitor_rejects_failed_call_moving_clock : monitor (hdr0, [fund1; fail_moves_clock]) = 2.
Proof. vm_compute. reflexivity. Qed.

(* ---------- "nothing is created": the reviewer's hand-made histories ---------- *)
Definition dep100 : item := (Deposit 100 1 1 1 [(1, AFull)], (Ok 100%Z, Ok MAX128), Ok (100%Z, [(0, 1, 1, 1, 100%Z, 100%Z)]),
  {| o_ab := [100; 0; 0]%Z; o_sb := [0; 100; 0]%Z; o_sup := 100; o_ta := 100; o_aal := zz3; o_sal := zz3; o_dec := 7; o_asset := 1; o_now := 10 |}).
(* operator 2 has no allowance, redeems owner 1's shares to himself; the allowance getter then reads -100 *)
Definition red_no_allowance : item := (Redeem 100 2 1 2 [(2, ARoot)], (Ok 100%Z, Ok 100%Z), Ok (100%Z, [(1, 2, 2, 1, 100%Z, 100%Z)]),
  {| o_ab := [0; 0; 100]%Z; o_sb := z3; o_sup := 0; o_ta := 0; o_aal := zz3; o_sal := [z3; [0; 0; -100]%Z; z3]; o_dec := 7; o_asset := 1; o_now := 10 |}).
Example monitor_rejects_operator_without_allowance : monitor (hdr0, [fund1; dep100; red_no_allowance]) = 3.
Proof. vm_compute. reflexivity. Qed.
(* a deposit of assets the depositor does not hold *)
Definition dep_unfunded : item := (Deposit 100 1 1 1 [(1, AFull)], (Ok 100%Z, Ok MAX128), Ok (100%Z, [(0, 1, 1, 1, 100%Z, 100%Z)]),
  {| o_ab := [100; -100; 0]%Z; o_sb := [0; 100; 0]%Z; o_sup := 100; o_ta := 100; o_aal := zz3; o_sal := zz3; o_dec := 7; o_asset := 1; o_now := 10 |}).
Example monitor_rejects_deposit_without_funds : monitor (hdr0, [dep_unfunded]) = 1.
Proof. vm_compute. reflexivity. Qed.
(* a negative share transfer signed by the beneficiary; a negative donation *)
Definition neg_share_transfer : item := (STransfer 2 1 (-100) [(2, ARoot)], (Ok 0%Z, Ok 0%Z), Ok (0%Z, []),
  {| o_ab := [100; 0; 0]%Z; o_sb := [0; 0; 100]%Z; o_sup := 100; o_ta := 100; o_aal := zz3; o_sal := zz3; o_dec := 7; o_asset := 1; o_now := 10 |}).
Example monitor_rejects_negative_share_transfer : monitor (hdr0, [fund1; dep100; neg_share_transfer]) = 3.
Proof. vm_compute. reflexivity. Qed.
Definition neg_donation : item := (ATransfer 1 0 (-50) [(1, ARoot)], (Ok 0%Z, Ok 0%Z), Ok (0%Z, []),
  {| o_ab := [50; 50; 0]%Z; o_sb := [0; 100; 0]%Z; o_sup := 100; o_ta := 50; o_aal := zz3; o_sal := zz3; o_dec := 7; o_asset := 1; o_now := 10 |}).
Example monitor_rejects_negative_donation : monitor (hdr0, [fund1; dep100; neg_donation]) = 3.
Proof. vm_compute. reflexivity. Qed.
(* shares that exist before anybody deposited *)
Example monitor_rejects_premined_shares :
  monitor ({| h_cfg := cfg0; h_n := 3; h_now := 10%Z; h_ctor := Ok 7%Z;
              h_obs0 := {| o_ab := z3; o_sb := [0; 0; 50]%Z; o_sup := 0; o_ta := 0; o_aal := zz3; o_sal := zz3; o_dec := 7; o_asset := 1; o_now := 10 |} |}, []) = 1.
Proof. vm_compute. reflexivity. Qed.
