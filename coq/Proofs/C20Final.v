(* C20: the monitor accepts every run of the eight models, and the diff of a model with
   itself is empty. *)
From SC Require Import Lib.Prelude Model.SwapPop Model.RegCommon Model.RegBinder Model.RegDocs
  Model.RegCTI Model.RegKeys Model.RegIRS Model.RegSmall Model.RegSA Run.C20
  Proofs.C20Common Proofs.C20Binder Proofs.C20Docs Proofs.C20Small Proofs.C20IRS Proofs.C20Keys
  Proofs.C20CTI Proofs.C20SA.
From Coq Require Import PeanoNat.
Set Implicit Arguments.
Local Open Scope nat_scope.

(* ---- reflexivity of the answer comparisons ---- *)
Lemma lrefl {B} (beq : B -> B -> bool) (H : forall x y, beq x y = true <-> x = y) (l : list B) : list_eqb beq l l = true.
Proof. apply (list_eqb_spec beq H). reflexivity. Qed.
Lemma rrefl {B} (beq : B -> B -> bool) (H : forall x, beq x x = true) (r : res B) : res_eqb beq r r = true.
Proof. apply res_eqb_refl. auto. Qed.
Lemma orefl {B} (beq : B -> B -> bool) (H : forall x y, beq x y = true <-> x = y) (o : option B) : option_eqb beq o o = true.
Proof. apply (option_eqb_spec beq H). reflexivity. Qed.

Lemma tb_ans_refl a : tb_ans_eqb a a = true.
Proof.
  destruct a as [l|n|b|r|r]; cbn.
  - apply (lrefl N.eqb N.eqb_eq). - apply N.eqb_refl. - apply bool_eqb_refl.
  - apply rrefl. apply N.eqb_refl. - apply rrefl. apply N.eqb_refl.
Qed.
Lemma doc_refl d : doc_eqb d d = true. Proof. apply doc_eqb_spec. reflexivity. Qed.
Lemma dentry_refl (e : N * doc) : dentry_eqb e e = true. Proof. apply dentry_eqb_spec. reflexivity. Qed.
Lemma dm_ans_refl a : dm_ans_eqb a a = true.
Proof.
  destruct a as [n|r|r|l]; cbn.
  - apply N.eqb_refl. - apply rrefl. apply doc_refl. - apply rrefl. apply dentry_refl.
  - apply (lrefl dentry_eqb dentry_eqb_spec).
Qed.
Lemma cti_ans_refl a : cti_ans_eqb a a = true.
Proof.
  destruct a as [l|r|b|r|r]; cbn.
  - apply (lrefl N.eqb N.eqb_eq). - apply rrefl. intros x. apply (lrefl N.eqb N.eqb_eq).
  - apply bool_eqb_refl. - apply rrefl. apply bool_eqb_refl.
  - apply rrefl. intros m. apply lrefl. apply pair_eqb_spec; [apply N.eqb_eq|apply (list_eqb_spec N.eqb N.eqb_eq)].
Qed.
Lemma ck_ans_refl a : ck_ans_eqb a a = true.
Proof.
  destruct a as [r|r|b]; cbn.
  - apply rrefl. intros l. apply (lrefl skey_eqb skey_eqb_spec).
  - apply rrefl. intros l. apply (lrefl N.eqb N.eqb_eq). - apply bool_eqb_refl.
Qed.
Lemma irs_ans_refl a : irs_ans_eqb a a = true.
Proof.
  destruct a as [r|r|r|l|o]; cbn.
  - apply rrefl. apply N.eqb_refl.
  - apply rrefl. intros p. unfold profile_eqb, pair_eqb. rewrite N.eqb_refl, (lrefl cdata_eqb cdata_eqb_spec). reflexivity.
  - apply rrefl. intros d. apply cdata_eqb_spec. reflexivity.
  - apply (lrefl cdata_eqb cdata_eqb_spec). - apply (orefl N.eqb N.eqb_eq).
Qed.
Lemma cm_ans_refl a : cm_ans_eqb a a = true.
Proof. destruct a as [l|b]; cbn; [apply (lrefl N.eqb N.eqb_eq)|apply bool_eqb_refl]. Qed.
Lemma ic_ans_refl a : ic_ans_eqb a a = true.
Proof.
  destruct a as [r|l]; cbn.
  - apply rrefl. intros x. apply claim_eqb_spec. reflexivity. - apply (lrefl cid_eqb cid_eqb_spec).
Qed.
Lemma rule_refl r : rule_eqb r r = true. Proof. apply rule_eqb_spec. reflexivity. Qed.
Lemma sa_ans_refl a : sa_ans_eqb a a = true.
Proof.
  destruct a as [r|r|n]; cbn.
  - apply rrefl. apply rule_refl. - apply rrefl. intros l. apply (lrefl rule_eqb rule_eqb_spec). - apply N.eqb_refl.
Qed.
Lemma unit_refl (u : unit) : unit_eqb u u = true. Proof. reflexivity. Qed.
Lemma ocid_refl o : ocid_eqb o o = true. Proof. apply (orefl cid_eqb cid_eqb_spec). Qed.
Lemma orule_refl o : orule_eqb o o = true. Proof. apply (orefl rule_eqb rule_eqb_spec). Qed.

Lemma all_true {B} (l : list B) : forallb (fun _ => true) l = true.
Proof. induction l; auto. Qed.

Lemma pre_ok_bs bs max pre : tb_pre_ok (tb_cfg_of bs max) pre = true -> 0 < tb_bs (tb_cfg_of bs max).
Proof. unfold tb_pre_ok. rewrite !andb_true_iff. intros [_ H]. apply Nat.ltb_lt. auto. Qed.
Lemma dm_pre_ok_bs bs max mu pre : dm_pre_ok (dm_cfg_of bs max mu) pre = true -> 0 < dm_bs (dm_cfg_of bs max mu).
Proof. unfold dm_pre_ok. rewrite !andb_true_iff. intros [[_ H] _]. apply Nat.ltb_lt. auto. Qed.

Theorem check_accepts_model (k : calls) : calls_wf k = true -> check (observe_model k) = (0%N, 0%N, 0%N)%N.
Proof.
  intros Hwf. unfold check.
  assert (D : diff (observe_model k) = 0%N); [|assert (M : monitor (observe_model k) = 0%N); [|rewrite D, M; reflexivity]].
  - (* diff *)
    destruct k; cbn [observe_model diff calls_wf] in *; try rewrite Hwf;
      apply replay_model; auto using tb_ans_refl, dm_ans_refl, cti_ans_refl, ck_ans_refl, irs_ans_refl,
        cm_ans_refl, ic_ans_refl, sa_ans_refl, unit_refl, ocid_refl, orule_refl.
  - (* monitor *)
    destruct k as [bs max pre cs|bs max mu pre cs|mt mi cs|mk mr cs|mc mm ml cs|mx cs|cs|mr ms mp now cs];
      cbn [observe_model monitor calls_wf] in *; try rewrite Hwf.
    + apply (@mon_model _ _ _ _ _ _ _ _ _ (tb_rel (tb_cfg_of bs max)) (fun _ => true)); auto using all_true.
      * intros s a cq HR _. apply tb_mon_step; auto. eapply pre_ok_bs; eauto.
      * apply tb_rel_start; auto. eapply pre_ok_bs; eauto.
    + apply (@mon_model _ _ _ _ _ _ _ _ _ (dm_rel (dm_cfg_of bs max mu)) (fun _ => true)); auto using all_true.
      * intros s a cq HR _. apply dm_mon_step; auto. eapply dm_pre_ok_bs; eauto.
      * apply dm_rel_start; auto. eapply dm_pre_ok_bs; eauto.
    + apply (@mon_model _ _ _ _ _ _ _ _ _ (cti_rel) (fun _ => true)); auto using all_true, cti_rel_init.
      intros s a cq HR _. apply cti_mon_step; auto.
    + apply (@mon_model _ _ _ _ _ _ _ _ _ (ck_rel) (fun _ => true)); auto using all_true, ck_rel_init.
      intros s a cq HR _. apply ck_mon_step; auto.
    + apply (@mon_model _ _ _ _ _ _ _ _ _ (irs_rel) (fun _ => true)); auto using all_true, irs_rel_init.
      intros s a cq HR _. apply irs_mon_step; auto.
    + apply (@mon_model _ _ _ _ _ _ _ _ _ (cm_rel) (fun _ => true)); auto using all_true.
      * intros s a cq HR _. apply cm_mon_step; auto.
      * split; auto. apply cm_init_inv.
    + apply (@mon_model _ _ _ _ _ _ _ _ _ (ic_rel) (fun _ => true)); auto using all_true.
      * intros s a cq HR _. apply ic_mon_step; auto.
      * split; auto. apply ic_init_inv.
    + apply (@mon_model _ _ _ _ _ _ _ _ _ (sa_rel (sa_cfg_of mr ms mp now)) (fun _ => true)); auto using all_true, sa_rel_init.
      intros s a cq HR _. apply sa_mon_step; auto.
Qed.
