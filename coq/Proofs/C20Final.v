(* C20: the monitor accepts every run of the eight models, and the diff of a model with
   itself is empty. *)
From SC Require Import Lib.Prelude Model.SwapPop Model.RegCommon Model.RegBinder Model.RegDocs
  Model.RegCTI Model.RegKeys Model.RegIRS Model.RegSmall Model.RegSA Run.C20
  Proofs.C20Common Proofs.C20Binder Proofs.C20Docs Proofs.C20Small Proofs.C20IRS Proofs.C20Keys
  Proofs.C20CTI Proofs.C20SA.
From Coq Require Import PeanoNat.
Set Implicit Arguments.
Local Open Scope nat_scope.

(* ---- reflexivity of the answer comparisons ---- *)
Lemma lrefl {B} (beq : B -> B -> bool) (H : forall x y, beq x y = true <-> x = y) (l : list B) : list_eqb beq l l = true.
Proof. apply (list_eqb_spec beq H). reflexivity. Qed.
Lemma rrefl {B} (beq : B -> B -> bool) (H : forall x, beq x x = true) (r : res B) : res_eqb beq r r = true.
Proof. apply res_eqb_refl. auto. Qed.
Lemma orefl {B} (beq : B -> B -> bool) (H : forall x y, beq x y = true <-> x = y) (o : option B) : option_eqb beq o o = true.
Proof. apply (option_eqb_spec beq H). reflexivity. Qed.

Lemma tb_ans_refl a : tb_ans_eqb a a = true.
Proof.
  destruct a as [l|n|b|r|r|]; cbn.
  - apply (lrefl N.eqb N.eqb_eq). - apply N.eqb_refl. - apply bool_eqb_refl.
  - apply rrefl. apply N.eqb_refl. - apply rrefl. apply N.eqb_refl. - reflexivity.
Qed.
Lemma doc_refl d : doc_eqb d d = true. Proof. apply doc_eqb_spec. reflexivity. Qed.
Lemma dentry_refl (e : N * doc) : dentry_eqb e e = true. Proof. apply dentry_eqb_spec. reflexivity. Qed.
Lemma dm_ans_refl a : dm_ans_eqb a a = true.
Proof.
  destruct a as [n|r|r|l|]; cbn; [| | | |reflexivity].
  - apply N.eqb_refl. - apply rrefl. apply doc_refl. - apply rrefl. apply dentry_refl.
  - apply (lrefl dentry_eqb dentry_eqb_spec).
Qed.
Lemma cti_ans_refl a : cti_ans_eqb a a = true.
Proof.
  destruct a as [l|r|b|r|r|]; cbn; [| | | | |reflexivity].
  - apply (lrefl N.eqb N.eqb_eq). - apply rrefl. intros x. apply (lrefl N.eqb N.eqb_eq).
  - apply bool_eqb_refl. - apply rrefl. apply bool_eqb_refl.
  - apply rrefl. intros m. apply lrefl. apply pair_eqb_spec; [apply N.eqb_eq|apply (list_eqb_spec N.eqb N.eqb_eq)].
Qed.
Lemma ck_ans_refl a : ck_ans_eqb a a = true.
Proof.
  destruct a as [r|r|b|]; cbn; [| | |reflexivity].
  - apply rrefl. intros l. apply (lrefl skey_eqb skey_eqb_spec).
  - apply rrefl. intros l. apply (lrefl N.eqb N.eqb_eq). - apply bool_eqb_refl.
Qed.
Lemma irs_ans_refl a : irs_ans_eqb a a = true.
Proof.
  destruct a as [r|r|r|l|o|]; cbn; [| | | | |reflexivity].
  - apply rrefl. apply N.eqb_refl.
  - apply rrefl. intros p. unfold profile_eqb, pair_eqb. rewrite N.eqb_refl, (lrefl cdata_eqb cdata_eqb_spec). reflexivity.
  - apply rrefl. intros d. apply cdata_eqb_spec. reflexivity.
  - apply (lrefl cdata_eqb cdata_eqb_spec). - apply (orefl N.eqb N.eqb_eq).
Qed.
Lemma cm_ans_refl a : cm_ans_eqb a a = true.
Proof. destruct a as [l|b|]; cbn; [apply (lrefl N.eqb N.eqb_eq)|apply bool_eqb_refl|reflexivity]. Qed.
Lemma ic_ans_refl a : ic_ans_eqb a a = true.
Proof.
  destruct a as [r|l|]; cbn; [| |reflexivity].
  - apply rrefl. intros x. apply claim_eqb_spec. reflexivity. - apply (lrefl cid_eqb cid_eqb_spec).
Qed.
Lemma rule_refl r : rule_eqb r r = true. Proof. apply rule_eqb_spec. reflexivity. Qed.
Lemma sa_ans_refl a : sa_ans_eqb a a = true.
Proof.
  destruct a as [r|r|n|]; cbn; [| | |reflexivity].
  - apply rrefl. apply rule_refl. - apply rrefl. intros l. apply (lrefl rule_eqb rule_eqb_spec). - apply N.eqb_refl.
Qed.
Lemma unit_refl (u : unit) : unit_eqb u u = true. Proof. reflexivity. Qed.
Lemma ocid_refl o : ocid_eqb o o = true. Proof. apply (orefl cid_eqb cid_eqb_spec). Qed.
Lemma orule_refl o : orule_eqb o o = true. Proof. apply (orefl rule_eqb rule_eqb_spec). Qed.

Lemma all_true {B} (l : list B) : forallb (fun _ => true) l = true.
Proof. induction l; auto. Qed.

Lemma pre_ok_bs bs max pre : tb_pre_ok (tb_cfg_of bs max) pre = true -> 0 < tb_bs (tb_cfg_of bs max).
Proof. unfold tb_pre_ok. rewrite !andb_true_iff. intros [_ H]. apply Nat.ltb_lt. auto. Qed.
Lemma dm_pre_ok_bs bs max mu pre : dm_pre_ok (dm_cfg_of bs max mu) pre = true -> 0 < dm_bs (dm_cfg_of bs max mu).
Proof. unfold dm_pre_ok. rewrite !andb_true_iff. intros [[_ H] _]. apply Nat.ltb_lt. auto. Qed.

Lemma wf_queries_binder bs max pre cs : calls_wf (CsBinder bs max pre cs) = true ->
  tb_pre_ok (tb_cfg_of bs max) pre = true /\ forallb (@has_queries _ _) cs = true.
Proof. cbn. apply andb_prop. Qed.
Lemma wf_queries_docs bs max mu pre cs : calls_wf (CsDocs bs max mu pre cs) = true ->
  dm_pre_ok (dm_cfg_of bs max mu) pre = true /\ forallb (@has_queries _ _) cs = true.
Proof. cbn. apply andb_prop. Qed.

(* the monitor accepts every run of the models, the diff of a model with itself is empty; the third
   component only reports whether the printed limits are the documented ones *)
Theorem check_accepts_model (k : calls) : calls_wf k = true ->
  check (observe_model k) = (0%N, 0%N, if limits_as_documented (observe_model k) then 0%N else 9%N).
Proof.
  intros Hwf. unfold check.
  assert (D : diff (observe_model k) = 0%N); [|assert (M : monitor (observe_model k) = 0%N); [|rewrite D, M; reflexivity]].
  - (* diff *)
    destruct k as [bs max pre cs|bs max mu pre cs|mt mi cs|mk mr cs|mc mm ml cs|mx cs|cs|mr ms mp now cs];
      cbn [observe_model diff].
    + destruct (wf_queries_binder _ _ _ _ Hwf) as [Hp _]. rewrite Hp. apply replay_model; auto using tb_ans_refl, unit_refl.
    + destruct (wf_queries_docs _ _ _ _ _ Hwf) as [Hp _]. rewrite Hp. apply replay_model; auto using dm_ans_refl, unit_refl.
    + apply replay_model; auto using cti_ans_refl, unit_refl.
    + apply replay_model; auto using ck_ans_refl, unit_refl.
    + apply replay_model; auto using irs_ans_refl, unit_refl.
    + apply replay_model; auto using cm_ans_refl, unit_refl.
    + apply replay_model; auto using ic_ans_refl, ocid_refl.
    + apply replay_model; auto using sa_ans_refl, orule_refl.
  - (* monitor *)
    destruct k as [bs max pre cs|bs max mu pre cs|mt mi cs|mk mr cs|mc mm ml cs|mx cs|cs|mr ms mp now cs];
      cbn [observe_model monitor].
    + destruct (wf_queries_binder _ _ _ _ Hwf) as [Hp Hq]. rewrite Hp.
      pose proof (pre_ok_bs _ _ _ Hp) as Hb. set (c := tb_cfg_of bs max) in *.
      rewrite (nonempty_obs_model (tb_lstep c) (lans (tb_answer c)) cs _ _ Hq).
      unfold tb_gap, tb_lstep.
      rewrite (@gap_stable_model _ _ _ _ _ tb_pairs (fun _ => tb_step c) (tb_answer c) tt (tb_Inv c) (tb_linked c)
                 (fun _ s k H => tb_Inv_step Hb k H) (fun s H => tb_L_nodup Hb H) (fun s qs H => tb_L_pairs Hb qs H)
                 cs (tb_start c pre, 0%N) [] 0%N); [| exists pre; apply tb_rel_start; auto | constructor].
      replace (mon_run (tb_mon c) (pre, 0%N) (model_trace (lstep (fun _ : N => tb_step c) tt) (lans (tb_answer c)) (tb_start c pre, 0%N) cs) 0%N) with 0%N; [reflexivity|].
      symmetry. apply (@mon_model _ _ _ _ _ _ _ _ _ (lRel (tb_rel c)) (fun _ => true)); auto using all_true.
      * intros sl al cq HR _. unfold tb_mon.
        apply (@lmon_step _ _ _ _ _ (fun _ => tb_step c) (tb_answer c) tt _
                 (fun _ => spec_unit (tb_spec c)) tb_chk tb_cross (tb_rel c)); auto.
        -- intros _ s a cq0 H. apply tb_mon_step; auto.
        -- intros s a q H. apply tb_chk_ok; auto.
        -- intros s a qs H. apply tb_cross_ok; auto.
      * split; [apply tb_rel_start; auto|reflexivity].
    + destruct (wf_queries_docs _ _ _ _ _ Hwf) as [Hp Hq]. rewrite Hp.
      pose proof (dm_pre_ok_bs _ _ _ _ Hp) as Hb. set (c := dm_cfg_of bs max mu) in *.
      rewrite (nonempty_obs_model (dm_lstep c) (lans (dm_answer c)) cs _ _ Hq).
      unfold dm_gap, dm_lstep.
      rewrite (@gap_stable_model _ _ _ _ _ dm_pairs (fun _ => dm_step c) (dm_answer c) tt (dm_Inv c) (fun s => names (dm_flat c s))
                 (fun _ s k H => dm_Inv_step Hb k H) (fun s H => dm_L_nodup Hb H) (fun s qs H => dm_L_pairs Hb qs H)
                 cs (dm_start c pre, 0%N) [] 0%N); [| exists pre; apply dm_rel_start; auto | constructor].
      replace (mon_run (dm_mon c) (pre, 0%N) (model_trace (lstep (fun _ : N => dm_step c) tt) (lans (dm_answer c)) (dm_start c pre, 0%N) cs) 0%N) with 0%N; [reflexivity|].
      symmetry. apply (@mon_model _ _ _ _ _ _ _ _ _ (lRel (dm_rel c)) (fun _ => true)); auto using all_true.
      * intros sl al cq HR _. unfold dm_mon.
        apply (@lmon_step _ _ _ _ _ (fun _ => dm_step c) (dm_answer c) tt _
                 (fun _ => spec_unit (dm_spec c)) dm_chk (dm_cross c) (dm_rel c)); auto.
        -- intros _ s a cq0 H. apply dm_mon_step; auto.
        -- intros s a q H. apply dm_chk_ok; auto.
        -- intros s a qs H. apply dm_cross_ok; auto.
      * split; [apply dm_rel_start; auto|reflexivity].
    + cbn [calls_wf] in Hwf. rewrite (nonempty_obs_model (cti_lstep (cti_cfg_of mt mi)) (lans cti_answer) cs _ _ Hwf).
      replace (mon_run _ _ _ _) with 0%N; [reflexivity|]. symmetry.
      apply (@mon_model _ _ _ _ _ _ _ _ _ (lRel cti_rel) (fun _ => true)); auto using all_true.
      * intros sl al cq HR _. unfold cti_mon, cti_lstep.
        apply (@lmon_step _ _ _ _ _ (fun _ => cti_step (cti_cfg_of mt mi)) cti_answer tt _
                 (fun _ => spec_unit (cti_spec (cti_cfg_of mt mi))) cti_chk (fun _ _ => true) cti_rel); auto.
        -- intros _ s a cq0 H. apply cti_mon_step; auto.
        -- intros s a q H. apply cti_chk_ok; auto.
      * split; [apply cti_rel_init|reflexivity].
    + cbn [calls_wf] in Hwf. rewrite (nonempty_obs_model (ck_lstep (ck_cfg_of mk mr)) (lans ck_answer) cs _ _ Hwf).
      replace (mon_run _ _ _ _) with 0%N; [reflexivity|]. symmetry.
      apply (@mon_model _ _ _ _ _ _ _ _ _ (lRel ck_rel) (fun _ => true)); auto using all_true.
      * intros sl al cq HR _. unfold ck_mon, ck_lstep.
        apply (@lmon_step _ _ _ _ _ (fun _ => ck_step (ck_cfg_of mk mr)) ck_answer tt _
                 (fun _ => spec_unit (ck_spec (ck_cfg_of mk mr))) ck_chk (fun _ _ => true) ck_rel); auto.
        -- intros _ s a cq0 H. apply ck_mon_step; auto.
        -- intros s a q H. apply ck_chk_ok; auto.
      * split; [apply ck_rel_init|reflexivity].
    + cbn [calls_wf] in Hwf. rewrite (nonempty_obs_model (irs_lstep (irs_cfg_of mc mm ml)) (lans irs_answer) cs _ _ Hwf).
      replace (mon_run _ _ _ _) with 0%N; [reflexivity|]. symmetry.
      apply (@mon_model _ _ _ _ _ _ _ _ _ (lRel irs_rel) (fun _ => true)); auto using all_true.
      * intros sl al cq HR _. unfold irs_mon, irs_lstep.
        apply (@lmon_step _ _ _ _ _ (fun _ => irs_step (irs_cfg_of mc mm ml)) irs_answer tt _
                 (fun _ => spec_unit (irs_spec (irs_cfg_of mc mm ml))) irs_chk (fun _ _ => true) irs_rel); auto.
        -- intros _ s a cq0 H. apply irs_mon_step; auto.
        -- intros s a q H. apply irs_chk_ok; auto.
      * split; [apply irs_rel_init|reflexivity].
    + cbn [calls_wf] in Hwf. rewrite (nonempty_obs_model (cm_lstep (cm_cfg_of mx)) (lans cm_answer) cs _ _ Hwf).
      replace (mon_run _ _ _ _) with 0%N; [reflexivity|]. symmetry.
      apply (@mon_model _ _ _ _ _ _ _ _ _ (lRel cm_rel) (fun _ => true)); auto using all_true.
      * intros sl al cq HR _. unfold cm_mon, cm_lstep.
        apply (@lmon_step _ _ _ _ _ (fun _ => cm_step (cm_cfg_of mx)) cm_answer tt _
                 (fun _ => spec_unit (cm_spec (cm_cfg_of mx))) cm_chk (fun _ _ => true) cm_rel); auto.
        -- intros _ s a cq0 H. apply cm_mon_step; auto.
        -- intros s a q H. apply cm_chk_ok; auto.
      * split; [split; auto; apply cm_init_inv|reflexivity].
    + cbn [calls_wf] in Hwf. rewrite (nonempty_obs_model ic_lstep (lans ic_answer) cs _ _ Hwf).
      replace (mon_run _ _ _ _) with 0%N; [reflexivity|]. symmetry.
      apply (@mon_model _ _ _ _ _ _ _ _ _ (lRel ic_rel) (fun _ => true)); auto using all_true.
      * intros sl al cq HR _. unfold ic_mon, ic_lstep.
        apply (@lmon_step _ _ _ _ _ (fun _ => ic_step) ic_answer None _
                 (fun _ => ic_spec) ic_chk (fun _ _ => true) ic_rel); auto.
        -- intros _ s a cq0 H. apply ic_mon_step; auto.
        -- intros s a q H. apply ic_chk_ok; auto.
      * split; [split; auto; apply ic_init_inv|reflexivity].
    + cbn [calls_wf] in Hwf. set (c := sa_cfg_of mr ms mp now).
      rewrite (nonempty_obs_model (sa_lstep c) (lans sa_answer) cs _ _ Hwf).
      replace (mon_run _ _ _ _) with 0%N; [reflexivity|]. symmetry.
      apply (@mon_model _ _ _ _ _ _ _ _ _ (lRel (sa_rel c)) (fun _ => true)); auto using all_true.
      * intros sl al cq HR _. unfold sa_mon, sa_lstep.
        apply (@lmon_step _ _ _ _ _ (fun n => sa_step (sa_with_now c n)) sa_answer None _
                 (fun n => sa_spec (sa_with_now c n)) sa_chk (fun _ _ => true) (sa_rel c)); auto.
        -- intros n s a cq0 H. apply (@sa_mon_step (sa_with_now c n) s a cq0 H).
        -- intros s a q H. apply (@sa_chk_ok c s a q H).
      * split; [apply sa_rel_init|reflexivity].
Qed.
