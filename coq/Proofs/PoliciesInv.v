(* C14 - the invariant of every reachable state and what each call does to it. *)
From SC Require Import Lib.Prelude Lib.Int Lib.Host Model.Policies Model.PoliciesSpec
  Proofs.Policies Proofs.PoliciesSpend.
From Coq Require Import ZifyBool Sorting.Sorted.

Definition sinv (s : state) : Prop := forall k t, kget k (st_simple s) = Some t -> 0 < t <= MAXU32.
Definition winv (s : state) : Prop := forall k d, kget k (st_weighted s) = Some d -> wdata_ok d.

Record inv (s : state) (g : ghost_l) : Prop := mk_inv {
  inv_now : 1 <= now s;
  inv_s : sinv s;
  inv_w : winv s;
  inv_l : grel s g }.

Lemma inv_init n0 : 1 <= n0 -> inv (init n0) [].
Proof.
  intros H. constructor; [exact H| | |apply grel_init]; intros k x Hk; cbn in Hk; discriminate.
Qed.

Lemma winv_vals s a r : winv s -> forall d, kget (a, r) (st_weighted s) = Some d -> wvals_ok (wd_weights d).
Proof. intros H d Hd. destruct (H _ _ Hd) as (_ & Hv & _). exact Hv. Qed.

(* ---------- batches of the two threshold policies: no state, one event per context ---------- *)
Definition is_nil {A} (l : list A) : bool := match l with [] => true | _ => false end.
Definition s_can (s : state) (a : addr) (r : N) (sgs : list signer) : bool :=
  match kget (a, r) (st_simple s) with Some t => t <=? len sgs | None => false end.
Definition w_can (s : state) (a : addr) (r : N) (sgs : list signer) : bool :=
  match kget (a, r) (st_weighted s) with
  | None => false
  | Some d => let w := wsum (wd_weights d) sgs in (w <=? MAXU32) && (wd_thr d <=? w)
  end.

Lemma s_batch_spec c s au a r sgs ctxs :
  enforce_batch c PS s au a r sgs ctxs =
  if is_nil ctxs || (has_auth au a && s_can s a r sgs)
  then Ok (s, map (fun _ => EvEnforced PS a r (len sgs) 0 0) ctxs) else Fail.
Proof.
  unfold s_can. induction ctxs as [|ctx rest IH]; cbn [enforce_batch enforce_one is_nil orb map]; [reflexivity|].
  rewrite s_enforce_one_spec.
  match goal with |- context [if ?b then Ok (s, EvEnforced PS a r (len sgs) 0 0) else Fail] => destruct b eqn:E end;
    cbn [bind fst snd]; [|reflexivity].
  rewrite IH, orb_true_r. cbn [bind fst snd]. reflexivity.
Qed.
Lemma w_batch_spec c s au a r sgs ctxs :
  (forall d, kget (a, r) (st_weighted s) = Some d -> wvals_ok (wd_weights d)) ->
  enforce_batch c PW s au a r sgs ctxs =
  if is_nil ctxs || (has_auth au a && w_can s a r sgs)
  then Ok (s, map (fun _ => EvEnforced PW a r (len sgs) 0 0) ctxs) else Fail.
Proof.
  intros Hv. unfold w_can. induction ctxs as [|ctx rest IH]; cbn [enforce_batch enforce_one is_nil orb map]; [reflexivity|].
  rewrite (w_enforce_one_spec _ _ _ _ _ _ Hv).
  match goal with |- context [if ?b then Ok (s, EvEnforced PW a r (len sgs) 0 0) else Fail] => destruct b eqn:E end;
    cbn [bind fst snd]; [|reflexivity].
  rewrite IH, orb_true_r. cbn [bind fst snd]. reflexivity.
Qed.

(* ---------- invariant pieces under updates of one component ---------- *)
Lemma sinv_set s k t : sinv s -> 0 < t <= MAXU32 -> sinv (set_simple s (kset k t (st_simple s))).
Proof.
  intros H Ht k' t'. cbn [st_simple set_simple]. destruct (key_eqb k' k) eqn:E.
  - apply key_eqb_eq in E. subst. rewrite kget_set_eq. intros X. inversion X. subst. exact Ht.
  - apply key_eqb_neq in E. rewrite kget_set_neq by exact E. apply H.
Qed.
Lemma sinv_remove s k : sinv s -> sinv (set_simple s (kremove k (st_simple s))).
Proof.
  intros H k' t'. cbn [st_simple set_simple]. destruct (key_eqb k' k) eqn:E.
  - apply key_eqb_eq in E. subst. rewrite kget_remove_eq. discriminate.
  - apply key_eqb_neq in E. rewrite kget_remove_neq by exact E. apply H.
Qed.
Lemma winv_set s k d : winv s -> wdata_ok d -> winv (set_weighted s (kset k d (st_weighted s))).
Proof.
  intros H Hd k' d'. cbn [st_weighted set_weighted]. destruct (key_eqb k' k) eqn:E.
  - apply key_eqb_eq in E. subst. rewrite kget_set_eq. intros X. inversion X. subst. exact Hd.
  - apply key_eqb_neq in E. rewrite kget_set_neq by exact E. apply H.
Qed.
Lemma winv_remove s k : winv s -> winv (set_weighted s (kremove k (st_weighted s))).
Proof.
  intros H k' d'. cbn [st_weighted set_weighted]. destruct (key_eqb k' k) eqn:E.
  - apply key_eqb_eq in E. subst. rewrite kget_remove_eq. discriminate.
  - apply key_eqb_neq in E. rewrite kget_remove_neq by exact E. apply H.
Qed.

Lemma unit_of_ok (x : res state) s' r evs : unit_of x = Ok (s', r, evs) -> x = Ok s' /\ r = RUnit /\ evs = [].
Proof. unfold unit_of. destruct x; cbn [bind]; intros H; inversion H; auto. Qed.

(* ---------- the main step lemma ---------- *)
(* What a call does to the state is what the specification-level bookkeeping predicts from the
   call and its outcome alone; the invariant is preserved. *)
Lemma exec_sound c s g cl s' rt evs :
  inv s g -> exec c s cl = Ok (s', rt, evs) ->
  inv s' (ghost_l_step (now s) g cl (Ok rt)) /\
  st_simple s' = ghost_s_step (st_simple s) cl (Ok rt) /\
  st_weighted s' = ghost_w_step (st_weighted s) cl (Ok rt) /\
  now s' = match cl with Advance n => now s + n | _ => now s end.
Proof.
  intros [Hn Hs Hw Hl] H. destruct cl; cbn [exec] in H; cbn [ghost_l_step ghost_s_step ghost_w_step].
  - (* Advance *)
    destruct ((0 <=? n) && (now s + n <=? MAXU32)) eqn:E; [|discriminate]. inversion H. subst. clear H.
    split; [|auto]. constructor; cbn [now set_now]; [lia|exact Hs|exact Hw|].
    eapply grel_same; [exact Hl|cbn [now set_now]; lia|reflexivity].
  - (* CanEnforce *)
    destruct (can_enforce c p s acct rid ctx sgs); cbn [bind] in H; [|discriminate]. inversion H. subst.
    destruct p; (split; [constructor; assumption|auto]).
  - (* Enforce *)
    destruct (enforce_batch c p s auths acct rid sgs ctxs) as [[s1 e1]|] eqn:E; cbn [bind fst snd] in H; [|discriminate].
    inversion H. subst s1 rt e1. clear H. destruct p.
    + rewrite s_batch_spec in E. destruct (is_nil ctxs || _); [|discriminate]. inversion E. subst.
      split; [constructor; assumption|auto].
    + rewrite (w_batch_spec _ _ _ _ _ _ _ (winv_vals s acct rid Hw)) in E.
      destruct (is_nil ctxs || _); [|discriminate]. inversion E. subst.
      split; [constructor; assumption|auto].
    + destruct ctxs as [|ctx rest].
      * cbn [enforce_batch] in E. inversion E. subst. split; [constructor; assumption|auto].
      * destruct (kget (acct, rid) g) as [i|] eqn:Hg.
        -- destruct (grel_some _ _ _ _ Hl Hg) as (d & Hd & Hrel).
           destruct (l_batch_rel c auths acct rid sgs (ctx :: rest) s d i s' evs Hn Hd Hrel E)
             as (d' & Hk' & Hrel' & Hoth & Hnow & Hss & Hww & _).
           split; [|rewrite Hss, Hww; auto].
           constructor; [lia|intros k t; rewrite Hss; apply Hs|intros k t; rewrite Hww; apply Hw|].
           intros k. rewrite Hnow. destruct (key_eqb k (acct, rid)) eqn:Ek.
           ++ apply key_eqb_eq in Ek. subst k. rewrite kget_set_eq, Hk'. exact Hrel'.
           ++ apply key_eqb_neq in Ek. rewrite kget_set_neq by exact Ek. rewrite (Hoth k Ek). apply Hl.
        -- (* not installed: the first enforce fails *)
           exfalso. pose proof (grel_none _ _ _ Hl Hg) as Hnone.
           cbn [enforce_batch enforce_one] in E.
           destruct (l_enforce_one c s auths acct rid sgs ctx) as [[s1 ev]|] eqn:E1; cbn [bind] in E; [|discriminate].
           apply l_enforce_one_ok in E1 as (_ & _ & d & _ & _ & Hd & _). congruence.
  - (* Uninstall *)
    apply unit_of_ok in H as (H & -> & ->). destruct p; cbn [uninstall] in H.
    + apply s_uninstall_ok in H as (_ & ->). split; [|auto].
      constructor; [exact Hn|apply sinv_remove; exact Hs|exact Hw|eapply grel_same; [exact Hl|cbn; lia|reflexivity]].
    + apply w_uninstall_ok in H as (_ & ->). split; [|auto].
      constructor; [exact Hn|exact Hs|apply winv_remove; exact Hw|eapply grel_same; [exact Hl|cbn; lia|reflexivity]].
    + apply l_uninstall_ok in H as (_ & ->). split; [|auto].
      constructor; [exact Hn|exact Hs|exact Hw|]. eapply grel_remove; [exact Hl|reflexivity|reflexivity].
  - (* SInstall *)
    apply unit_of_ok in H as (H & -> & ->). apply s_install_ok in H as (_ & Ht & _ & H0 & _ & ->).
    split; [|auto]. constructor; [exact Hn| |exact Hw|eapply grel_same; [exact Hl|cbn; lia|reflexivity]].
    apply sinv_set; [exact Hs|unfold in_u32 in Ht; lia].
  - (* SSetThreshold *)
    apply unit_of_ok in H as (H & -> & ->). apply s_set_threshold_ok in H as (_ & Ht & H0 & _ & ->).
    split; [|auto]. constructor; [exact Hn| |exact Hw|eapply grel_same; [exact Hl|cbn; lia|reflexivity]].
    apply sinv_set; [exact Hs|unfold in_u32 in Ht; lia].
  - (* WInstall *)
    apply unit_of_ok in H as (H & -> & ->). apply w_install_ok in H as (_ & _ & Hok & ->).
    split; [|auto]. constructor; [exact Hn|exact Hs| |eapply grel_same; [exact Hl|cbn; lia|reflexivity]].
    apply winv_set; assumption.
  - (* WSetThreshold *)
    apply unit_of_ok in H as (H & -> & ->).
    apply w_set_threshold_ok in H as (d & _ & Hd & Hok & ->); [|intros d Hd; exact (Hw _ _ Hd)].
    rewrite Hd. split; [|auto].
    constructor; [exact Hn|exact Hs| |eapply grel_same; [exact Hl|cbn; lia|reflexivity]].
    apply winv_set; assumption.
  - (* WSetWeight *)
    apply unit_of_ok in H as (H & -> & ->).
    apply w_set_weight_ok in H as (d & _ & Hd & Hok & ->); [|intros d Hd; exact (Hw _ _ Hd)].
    rewrite Hd. split; [|auto].
    constructor; [exact Hn|exact Hs| |eapply grel_same; [exact Hl|cbn; lia|reflexivity]].
    apply winv_set; assumption.
  - (* LInstall *)
    apply unit_of_ok in H as (H & -> & ->). apply l_install_ok in H as (_ & Hl0 & Hp0 & Hnone & ->).
    split; [|auto]. constructor; [exact Hn|exact Hs|exact Hw|].
    eapply grel_set; [exact Hl|reflexivity|reflexivity|].
    constructor; cbn [sd_limit sd_period sd_hist sd_cached gi_limit gi_period gi_log gi_cut]; auto; try lia; try constructor.
  - (* LSetLimit *)
    apply unit_of_ok in H as (H & -> & ->). apply l_set_limit_ok in H as (_ & Hl0 & d & Hd & ->).
    destruct (grel_some' _ _ _ _ Hl Hd) as (i & Hi & Hrel). rewrite Hi.
    split; [|auto]. constructor; [exact Hn|exact Hs|exact Hw|].
    eapply grel_set; [exact Hl|reflexivity|reflexivity|].
    destruct Hrel as [H1 H2 H3 H4 H5 H6 H7 H8].
    constructor; cbn [sd_limit sd_period sd_hist sd_cached gi_limit gi_period gi_log gi_cut]; auto.
Qed.

(* lifted to [step] (a failing call returns the old state) *)
Lemma step_sound c s g cl s' o evs :
  inv s g -> step c s cl = (s', o, evs) ->
  inv s' (ghost_l_step (now s) g cl o) /\
  st_simple s' = ghost_s_step (st_simple s) cl o /\
  st_weighted s' = ghost_w_step (st_weighted s) cl o /\
  now s' = match cl, o with Advance n, Ok _ => now s + n | _, _ => now s end.
Proof.
  intros Hinv H. unfold step in H. destruct (exec c s cl) as [[[s1 r1] e1]|] eqn:E.
  - inversion H. subst. destruct (exec_sound _ _ _ _ _ _ _ Hinv E) as (H1 & H2 & H3 & H4).
    split; [exact H1|]. split; [exact H2|]. split; [exact H3|]. rewrite H4. destruct cl; reflexivity.
  - inversion H. subst. cbn [ghost_l_step ghost_s_step ghost_w_step].
    split; [exact Hinv|]. split; [reflexivity|]. split; [reflexivity|]. destruct cl; reflexivity.
Qed.

(* ---------- the run instrumented with the specification-level log ---------- *)
Fixpoint run_log (c : cfg) (s : state) (g : ghost_l) (cs : list call) : state * ghost_l :=
  match cs with
  | [] => (s, g)
  | cl :: r => let '(s', o, _) := step c s cl in run_log c s' (ghost_l_step (now s) g cl o) r
  end.

Lemma run_log_state c cs : forall s g, fst (run_log c s g cs) = run c s cs.
Proof.
  induction cs as [|cl r IH]; intros s g; cbn [run_log run fold_left]; [reflexivity|].
  unfold step_state. destruct (step c s cl) as [[s' o] evs]. cbn [fst]. apply IH.
Qed.

Lemma run_log_inv c cs : forall s g, inv s g -> inv (fst (run_log c s g cs)) (snd (run_log c s g cs)).
Proof.
  induction cs as [|cl r IH]; intros s g H; cbn [run_log]; [exact H|].
  destruct (step c s cl) as [[s' o] evs] eqn:E. apply IH.
  destruct (step_sound _ _ _ _ _ _ _ H E) as (H1 & _). exact H1.
Qed.

Theorem reachable_inv c n0 cs : 1 <= n0 ->
  inv (run c (init n0) cs) (snd (run_log c (init n0) [] cs)).
Proof.
  intros H. rewrite <- (run_log_state c cs (init n0) []). apply run_log_inv. apply inv_init. exact H.
Qed.
