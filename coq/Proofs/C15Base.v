(* C15: basic lemmas - association lists, boolean equalities, remove_first, membership *)
From SC Require Import Lib.Prelude Lib.Int Lib.Host Model.ClaimIssuer Model.Identity.

Lemma bind_ok {A B} (r : res A) (f : A -> res B) b :
  bind r f = Ok b <-> exists a, r = Ok a /\ f a = Ok b.
Proof.
  destruct r; cbn; split.
  - intros H. eauto.
  - intros [a' [E H]]. inversion E. subst. exact H.
  - discriminate.
  - intros [a' [E _]]. discriminate.
Qed.
Lemma of_option_ok {A} (o : option A) a : of_option o = Ok a <-> o = Some a.
Proof. destruct o; cbn; split; intros H; inversion H; reflexivity. Qed.
Lemma guard_ok (b : bool) : guard b = Ok tt <-> b = true.
Proof. destruct b; cbn; split; intros H; try reflexivity; discriminate. Qed.
Lemma is_ok_true {A} (r : res A) : is_ok r = true <-> exists a, r = Ok a.
Proof. destruct r; cbn; split; intros H; eauto; try discriminate. destruct H; discriminate. Qed.
Lemma res_unit (r : res unit) : is_ok r = true <-> r = Ok tt.
Proof. destruct r as [[]|]; cbn; split; intros H; auto; discriminate. Qed.

(* ---------------- boolean equalities ---------------- *)
Definition eqb_spec {K} (eqb : K -> K -> bool) := forall a b, eqb a b = true <-> a = b.

Lemma eqb_refl_of {K} (eqb : K -> K -> bool) : eqb_spec eqb -> forall a, eqb a a = true.
Proof. intros H a. apply H. reflexivity. Qed.
Lemma eqb_false_of {K} (eqb : K -> K -> bool) : eqb_spec eqb -> forall a b, eqb a b = false <-> a <> b.
Proof.
  intros H a b. split.
  - intros E Heq. apply H in Heq. congruence.
  - intros Hn. destruct (eqb a b) eqn:E; auto. apply H in E. contradiction.
Qed.
Lemma eqb_sym_of {K} (eqb : K -> K -> bool) : eqb_spec eqb -> forall a b, eqb a b = eqb b a.
Proof.
  intros H a b. destruct (eqb a b) eqn:E.
  - apply H in E. subst. symmetry. apply H. reflexivity.
  - destruct (eqb b a) eqn:E2; auto. apply H in E2. subst. rewrite (eqb_refl_of _ H) in E. discriminate.
Qed.

Lemma Z_eqb_spec : eqb_spec Z.eqb. Proof. intros a b. apply Z.eqb_eq. Qed.
Lemma N_eqb_spec : eqb_spec N.eqb. Proof. intros a b. apply N.eqb_eq. Qed.

Lemma list_eqb_spec {A} (e : A -> A -> bool) : eqb_spec e -> eqb_spec (list_eqb e).
Proof.
  intros H a. induction a as [|x a IH]; intros [|y b]; cbn; split; intros E; try discriminate; auto.
  - apply andb_true_iff in E. destruct E as [E1 E2]. apply H in E1. apply IH in E2. congruence.
  - inversion E. subst. apply andb_true_iff. split; [apply H; reflexivity | apply IH; reflexivity].
Qed.
Lemma bytes_eqb_spec : eqb_spec bytes_eqb.
Proof. apply list_eqb_spec. exact Z_eqb_spec. Qed.

Lemma cid_eqb_spec : eqb_spec cid_eqb.
Proof.
  intros [a1 a2] [b1 b2]. unfold cid_eqb. cbn. rewrite andb_true_iff, N.eqb_eq, Z.eqb_eq.
  split; [intros [-> ->]; reflexivity | intros E; inversion E; auto].
Qed.
Lemma skey_eqb_spec : eqb_spec skey_eqb.
Proof.
  intros [a1 a2] [b1 b2]. unfold skey_eqb. cbn. rewrite andb_true_iff, Z.eqb_eq, (bytes_eqb_spec a1 b1).
  split; [intros [-> ->]; reflexivity | intros E; inversion E; auto].
Qed.
Lemma treg_eqb_spec : eqb_spec treg_eqb.
Proof.
  intros [a1 a2] [b1 b2]. unfold treg_eqb. cbn. rewrite andb_true_iff, N.eqb_eq, Z.eqb_eq.
  split; [intros [-> ->]; reflexivity | intros E; inversion E; auto].
Qed.
Lemma nkey_eqb_spec : eqb_spec nkey_eqb.
Proof.
  intros [a1 a2] [b1 b2]. unfold nkey_eqb. cbn. rewrite andb_true_iff, N.eqb_eq, Z.eqb_eq.
  split; [intros [-> ->]; reflexivity | intros E; inversion E; auto].
Qed.
Lemma rkey_eqb_spec : eqb_spec rkey_eqb.
Proof.
  intros [[a1 a2] a3] [[b1 b2] b3]. unfold rkey_eqb. cbn.
  rewrite !andb_true_iff, N.eqb_eq, Z.eqb_eq, (bytes_eqb_spec a3 b3).
  split; [intros [[-> ->] ->]; reflexivity | intros E; inversion E; auto].
Qed.

(* ---------------- association lists ---------------- *)
Section AListLemmas.
  Context {K V : Type} (eqb : K -> K -> bool) (Heq : eqb_spec eqb).

  Lemma aget_aremove_eq k (l : list (K * V)) : aget eqb k (aremove eqb k l) = None.
  Proof.
    induction l as [|[k' v] r IH]; cbn; auto.
    destruct (eqb k k') eqn:E; auto. cbn. rewrite E. exact IH.
  Qed.
  Lemma aget_aremove_neq k k' (l : list (K * V)) : k <> k' -> aget eqb k (aremove eqb k' l) = aget eqb k l.
  Proof.
    intros Hn. induction l as [|[k2 v] r IH]; cbn; auto.
    destruct (eqb k' k2) eqn:E.
    - apply Heq in E. subst k2. destruct (eqb k k') eqn:E2; [apply Heq in E2; contradiction|]. exact IH.
    - cbn. destruct (eqb k k2); auto.
  Qed.
  Lemma aget_aset_eq k v (l : list (K * V)) : aget eqb k (aset eqb k v l) = Some v.
  Proof. unfold aset. cbn. rewrite (eqb_refl_of _ Heq). reflexivity. Qed.
  Lemma aget_aset_neq k k' v (l : list (K * V)) : k <> k' -> aget eqb k (aset eqb k' v l) = aget eqb k l.
  Proof.
    intros Hn. unfold aset. cbn. destruct (eqb k k') eqn:E; [apply Heq in E; contradiction|].
    apply aget_aremove_neq; exact Hn.
  Qed.
  Lemma aget_aset k k' v (l : list (K * V)) :
    aget eqb k (aset eqb k' v l) = if eqb k k' then Some v else aget eqb k l.
  Proof.
    destruct (eqb k k') eqn:E.
    - apply Heq in E. subst. apply aget_aset_eq.
    - apply aget_aset_neq. intros ->. rewrite (eqb_refl_of _ Heq) in E. discriminate.
  Qed.
  Lemma aget_aremove k k' (l : list (K * V)) :
    aget eqb k (aremove eqb k' l) = if eqb k k' then None else aget eqb k l.
  Proof.
    destruct (eqb k k') eqn:E.
    - apply Heq in E. subst. apply aget_aremove_eq.
    - apply aget_aremove_neq. intros ->. rewrite (eqb_refl_of _ Heq) in E. discriminate.
  Qed.
  Lemma aget_map_const (f : K -> V) k (l : list K) :
    aget eqb k (map (fun a => (a, f a)) l) = if existsb (eqb k) l then Some (f k) else None.
  Proof.
    induction l as [|x r IH]; cbn; auto.
    destruct (eqb k x) eqn:E; cbn; auto. apply Heq in E. subst. reflexivity.
  Qed.
End AListLemmas.

(* ---------------- membership ---------------- *)
Lemma existsb_eqb_In {K} (eqb : K -> K -> bool) (Heq : eqb_spec eqb) x l :
  existsb (eqb x) l = true <-> In x l.
Proof.
  rewrite existsb_exists. split.
  - intros [y [Hy E]]. apply Heq in E. subst. exact Hy.
  - intros H. exists x. split; auto. apply Heq. reflexivity.
Qed.
Lemma mem_z_In x l : mem_z x l = true <-> In x l.
Proof. apply existsb_eqb_In. exact Z_eqb_spec. Qed.
Lemma mem_a_In x l : mem_a x l = true <-> In x l.
Proof. apply existsb_eqb_In. exact N_eqb_spec. Qed.
Lemma mem_z_false x l : mem_z x l = false <-> ~ In x l.
Proof. rewrite <- mem_z_In. destruct (mem_z x l); split; intros; congruence. Qed.
Lemma mem_a_false x l : mem_a x l = false <-> ~ In x l.
Proof. rewrite <- mem_a_In. destruct (mem_a x l); split; intros; congruence. Qed.

Lemma nodupb_NoDup l : nodupb l = true <-> NoDup l.
Proof.
  induction l as [|x r IH]; cbn.
  - split; [constructor | reflexivity].
  - rewrite andb_true_iff, negb_true_iff, mem_z_false, IH. split.
    + intros [H1 H2]. constructor; auto.
    + intros H. inversion H. auto.
Qed.

(* ---------------- remove_first ---------------- *)
Section RemoveFirst.
  Context {A : Type} (eqb : A -> A -> bool) (Heq : eqb_spec eqb).

  Lemma remove_first_none x (l : list A) : remove_first (eqb x) l = None <-> ~ In x l.
  Proof.
    induction l as [|y r IH]; cbn.
    - split; auto.
    - destruct (eqb x y) eqn:E.
      + apply Heq in E. subst. split; [discriminate | intros H; exfalso; apply H; auto].
      + destruct (remove_first (eqb x) r) eqn:R.
        * split; [discriminate|]. intros H. exfalso. destruct IH as [_ IH].
          assert (Hn : ~ In x r) by (intros Hi; apply H; auto). specialize (IH Hn). discriminate.
        * split; auto. intros _ [->|Hi].
          -- rewrite (eqb_refl_of _ Heq) in E. discriminate.
          -- apply IH in Hi; auto.
  Qed.
  Lemma remove_first_some_In x (l l' : list A) : remove_first (eqb x) l = Some l' -> In x l.
  Proof.
    revert l'. induction l as [|y r IH]; cbn; intros l' H; [discriminate|].
    destruct (eqb x y) eqn:E.
    - apply Heq in E. subst. auto.
    - destruct (remove_first (eqb x) r) eqn:R; [|discriminate]. right. eapply IH. reflexivity.
  Qed.
  (* membership after removing the first occurrence from a duplicate-free list *)
  Lemma remove_first_In_nodup x (l l' : list A) : NoDup l -> remove_first (eqb x) l = Some l' ->
    forall y, In y l' <-> (In y l /\ y <> x).
  Proof.
    revert l'. induction l as [|z r IH]; cbn; intros l' Hnd H y; [discriminate|].
    inversion Hnd as [|? ? Hz Hr]. subst.
    destruct (eqb x z) eqn:E.
    - apply Heq in E. subst z. inversion H. subst l'. split.
      + intros Hy. split; auto. intros ->. contradiction.
      + intros [[->|Hy] Hn]; [congruence | auto].
    - destruct (remove_first (eqb x) r) eqn:R; [|discriminate]. inversion H. subst l'.
      specialize (IH _ Hr eq_refl y). cbn. rewrite IH. split.
      + intros [->|[Hy Hn]]; [split; auto; intros ->; rewrite (eqb_refl_of _ Heq) in E; discriminate | auto].
      + intros [[->|Hy] Hn]; auto.
  Qed.
  Lemma remove_first_NoDup x (l l' : list A) : NoDup l -> remove_first (eqb x) l = Some l' -> NoDup l'.
  Proof.
    revert l'. induction l as [|z r IH]; cbn; intros l' Hnd H; [discriminate|].
    inversion Hnd as [|? ? Hz Hr]. subst.
    destruct (eqb x z) eqn:E.
    - inversion H. subst. exact Hr.
    - destruct (remove_first (eqb x) r) eqn:R; [|discriminate]. inversion H. subst l'.
      constructor; [|apply IH; auto].
      intros Hi. apply (remove_first_In_nodup x r l Hr R) in Hi. destruct Hi. contradiction.
  Qed.
  Lemma remove_first_incl x (l l' : list A) : remove_first (eqb x) l = Some l' -> forall y, In y l' -> In y l.
  Proof.
    revert l'. induction l as [|z r IH]; cbn; intros l' H y Hy; [discriminate|].
    destruct (eqb x z).
    - inversion H. subst. auto.
    - destruct (remove_first (eqb x) r) eqn:R; [|discriminate]. inversion H. subst l'.
      destruct Hy as [->|Hy]; auto. right. eapply IH; eauto.
  Qed.
End RemoveFirst.

Lemma NoDup_app_single {A} (l : list A) x : NoDup l -> ~ In x l -> NoDup (l ++ [x]).
Proof.
  induction l as [|y r IH]; cbn; intros Hnd Hn.
  - constructor; [intros []|constructor].
  - inversion Hnd. subst. cbn in Hn. constructor.
    + rewrite in_app_iff. cbn. intros [H|[H|[]]]; [contradiction | subst; apply Hn; auto].
    + apply IH; auto.
Qed.
Lemma In_app_single {A} (l : list A) x y : In y (l ++ [x]) <-> In y l \/ y = x.
Proof. rewrite in_app_iff. cbn. intuition. Qed.
