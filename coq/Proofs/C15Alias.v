(* C15: aliasing in the claim issuer's key registry.  A signing key is the PAIR (public key bytes,
   scheme number); an authorisation is recorded per (signing key, topic, registry).  remove_key
   takes away exactly the one authorisation it names: the same key bytes under another scheme
   number, the same signing key for another topic, and the same signing key for the same topic under
   another registry are all untouched - wherever the entries sit in the stored vectors and in
   whatever order they were recorded.  (A lookup by key bytes only would drop the FIRST entry with
   these bytes from Topics(topic): the de-authorised signing key would keep confirming claims and a
   still-authorised one would be refused.) *)
From SC Require Import Lib.Prelude Lib.Int Lib.Host Model.ClaimIssuer Model.Identity Run.C15
  Proofs.C15Base Proofs.C15Issuer Proofs.C15World Proofs.C15Monitor Proofs.C15Examples.

(* after a successful remove_key: allowed <-> a recorded pair other than the removed one *)
Theorem remove_key_exact s pk r sc t s' : keys_inv s -> remove_key s pk r sc t = Ok s' ->
  forall pk' sc' t',
    (is_key_allowed_for_topic s' pk' sc' t' = true <->
     exists r', In (t', r') (pairs_of s (pk', sc')) /\ ~ ((pk', sc') = (pk, sc) /\ (t', r') = (t, r))).
Proof.
  intros Hi H pk' sc' t'.
  rewrite (key_allowed_iff s' pk' sc' t' (keys_inv_remove _ _ _ _ _ _ Hi H)).
  split; intros [r' Hr]; exists r'; apply (remove_key_pairs _ _ _ _ _ _ Hi H); exact Hr.
Qed.

(* every other signing key (same bytes under another scheme included) and every other topic of the
   same signing key: unchanged *)
Theorem remove_key_others_unchanged s pk r sc t s' : keys_inv s -> remove_key s pk r sc t = Ok s' ->
  forall pk' sc' t', (pk', sc') <> (pk, sc) \/ t' <> t ->
    is_key_allowed_for_topic s' pk' sc' t' = is_key_allowed_for_topic s pk' sc' t'.
Proof.
  intros Hi H pk' sc' t' Hne. apply Bool.eq_true_iff_eq.
  rewrite (remove_key_exact _ _ _ _ _ _ Hi H), (key_allowed_iff s pk' sc' t' Hi). split.
  - intros [r' [Hr _]]. exists r'. exact Hr.
  - intros [r' Hr]. exists r'. split; [exact Hr|]. intros [Ek Ex]. destruct Hne as [Hne|Hne]; [contradiction|].
    inversion Ex. contradiction.
Qed.

(* the removed signing key stays allowed for the topic exactly when it is also recorded for that
   topic under another registry *)
Theorem remove_key_removed s pk r sc t s' : keys_inv s -> remove_key s pk r sc t = Ok s' ->
  (is_key_allowed_for_topic s' pk sc t = true <-> exists r', r' <> r /\ In (t, r') (pairs_of s (pk, sc))).
Proof.
  intros Hi H. rewrite (remove_key_exact _ _ _ _ _ _ Hi H). split.
  - intros [r' [Hr Hn]]. exists r'. split; [|exact Hr]. intros ->. apply Hn. split; reflexivity.
  - intros [r' [Hne Hr]]. exists r'. split; [exact Hr|]. intros [_ Ex]. inversion Ex. contradiction.
Qed.

(* allow_key never takes an authorisation away and adds exactly the one it names *)
Theorem allow_key_exact c s pk r sc t has s' : keys_inv s -> allow_key c s pk r sc t has = Ok s' ->
  forall pk' sc' t',
    is_key_allowed_for_topic s' pk' sc' t' =
    is_key_allowed_for_topic s pk' sc' t' || (skey_eqb (pk', sc') (pk, sc) && (t' =? t)).
Proof.
  intros Hi H pk' sc' t'. apply Bool.eq_true_iff_eq.
  rewrite (key_allowed_iff s' pk' sc' t' (keys_inv_allow _ _ _ _ _ _ _ _ Hi H)), Bool.orb_true_iff,
    (key_allowed_iff s pk' sc' t' Hi), (allow_key_pairs _ _ _ _ _ _ _ _ H).
  destruct (skey_eqb (pk', sc') (pk, sc)) eqn:Ek; cbn [andb].
  - apply skey_eqb_spec in Ek. rewrite Ek. split.
    + intros [r' Hr]. apply in_app_iff in Hr. destruct Hr as [Hr|[Hr|[]]]; [left; exists r'; exact Hr|].
      inversion Hr. subst. right. apply Z.eqb_refl.
    + intros [[r' Hr]|Et]; [exists r'; apply in_app_iff; left; exact Hr|].
      apply Z.eqb_eq in Et. subst t'. exists r. apply in_app_iff. right. left. reflexivity.
  - split; [intros Hx; left; exact Hx | intros [Hx|Hx]; [exact Hx | discriminate]].
Qed.

(* ---------------- over all call sequences ---------------- *)
Theorem remove_key_exact_reachable c now ctis irss idents issuers ks i s pk r sc t s' :
  the_issuer (run c (init now ctis irss idents issuers) ks) i = Ok s ->
  remove_key s pk r sc t = Ok s' ->
  (forall pk' sc' t', (pk', sc') <> (pk, sc) \/ t' <> t ->
     is_key_allowed_for_topic s' pk' sc' t' = is_key_allowed_for_topic s pk' sc' t') /\
  (is_key_allowed_for_topic s' pk sc t = true <->
   exists r', r' <> r /\ In (t, r') (match aget skey_eqb (pk, sc) (is_pairs s) with Some p => p | None => [] end)).
Proof.
  intros Hs H. destruct (reachable_issuer _ _ _ _ _ _ _ _ _ Hs) as [Hi _]. split.
  - apply (remove_key_others_unchanged _ _ _ _ _ _ Hi H).
  - apply (remove_key_removed _ _ _ _ _ _ Hi H).
Qed.

Theorem allow_key_exact_reachable c now ctis irss idents issuers ks i s pk r sc t has s' :
  the_issuer (run c (init now ctis irss idents issuers) ks) i = Ok s ->
  allow_key c s pk r sc t has = Ok s' ->
  forall pk' sc' t',
    is_key_allowed_for_topic s' pk' sc' t' =
    is_key_allowed_for_topic s pk' sc' t' || (bytes_eqb pk' pk && (sc' =? sc) && (t' =? t)).
Proof.
  intros Hs H. destruct (reachable_issuer _ _ _ _ _ _ _ _ _ Hs) as [Hi _].
  apply (allow_key_exact _ _ _ _ _ _ _ _ Hi H).
Qed.

(* ---------------- concrete instances ---------------- *)
(* the same 32 key bytes allowed for topic 1 under scheme 7 and under scheme 101 (in both orders),
   a genuine ed25519 claim held; then one of the two signing keys is removed *)
Definition alias_hist (first second : Z) : list call :=
  [AddTopic 0%N 1; AddIssuer 0%N 3%N [1]; AllowKey 3%N ex_pk 0%N first 1; AllowKey 3%N ex_pk 0%N second 1;
   AddIdentity 1%N 10%N 2%N 1; SetCti 0%N; SetIrs 1%N; AddClaim 2%N ex_claim; Verify 10%N].
Definition verified_after (ks : list call) : bool :=
  is_ok (verify_identity (cfg_of ex_hdr) (run (cfg_of ex_hdr) (init_of ex_hdr) ks) 10%N).
Definition keys_after (ks : list call) : res (list skey) :=
  do s <- the_issuer (run (cfg_of ex_hdr) (init_of ex_hdr) ks) 3%N; get_keys_for_topic s 1.

Example alias_model :
  (* removing the other scheme's entry - registered first or last - leaves the genuine key confirming *)
  verified_after (alias_hist 7 101 ++ [RemoveKey 3%N ex_pk 0%N 7 1]) = true /\
  verified_after (alias_hist 101 7 ++ [RemoveKey 3%N ex_pk 0%N 7 1]) = true /\
  keys_after (alias_hist 101 7 ++ [RemoveKey 3%N ex_pk 0%N 7 1]) = Ok [(ex_pk, 101)] /\
  (* removing the genuine key - registered first or last - stops it, the other entry stays listed *)
  verified_after (alias_hist 7 101 ++ [RemoveKey 3%N ex_pk 0%N 101 1]) = false /\
  verified_after (alias_hist 101 7 ++ [RemoveKey 3%N ex_pk 0%N 101 1]) = false /\
  keys_after (alias_hist 7 101 ++ [RemoveKey 3%N ex_pk 0%N 101 1]) = Ok [(ex_pk, 7)] /\
  (* allowed again after removal *)
  verified_after (alias_hist 7 101 ++ [RemoveKey 3%N ex_pk 0%N 101 1; AllowKey 3%N ex_pk 0%N 101 1]) = true.
Proof. vm_compute. repeat split; reflexivity. Qed.

(* bad traces: the implementation drops the FIRST entry with these key bytes instead of the named one.
   (a) [scheme 7; scheme 101], remove (pk, 101): what is observed afterwards is the state in which
       (pk, 7) was removed - the de-authorised key still confirms the held claim *)
Definition alias_stale_trace : trace :=
  (ex_hdr, tamper_last (fun _ => last_obs (alias_hist 7 101 ++ [RemoveKey 3%N ex_pk 0%N 7 1]))
             (mt (alias_hist 7 101 ++ [RemoveKey 3%N ex_pk 0%N 101 1]))).
(* (b) [scheme 101; scheme 7], remove (pk, 7): the still-authorised key is refused *)
Definition alias_refused_trace : trace :=
  (ex_hdr, tamper_last (fun _ => last_obs (alias_hist 101 7 ++ [RemoveKey 3%N ex_pk 0%N 101 1]))
             (mt (alias_hist 101 7 ++ [RemoveKey 3%N ex_pk 0%N 7 1]))).
Example monitor_rejects_alias_removal :
  snd (fst (check alias_stale_trace)) = 10%N /\ snd (fst (check alias_refused_trace)) = 10%N /\
  check (ex_hdr, mt (alias_hist 7 101 ++ [RemoveKey 3%N ex_pk 0%N 101 1])) = (0%N, 0%N, 0%N) /\
  check (ex_hdr, mt (alias_hist 101 7 ++ [RemoveKey 3%N ex_pk 0%N 7 1])) = (0%N, 0%N, 0%N).
Proof. vm_compute. repeat split; reflexivity. Qed.
