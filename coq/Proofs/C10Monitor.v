(* The C10 monitor accepts every trace of the model (under the property's quantifier: fresh
   mint ids; and for the literal counting checks: the queried ids cover the existing tokens). *)
From Coq Require Import Permutation.
From SC Require Import Lib.Prelude Lib.Int Lib.Host Model.Nft Run.NftCommon Proofs.NftMaps Proofs.NftFrame
  Proofs.NftInv Proofs.NftCons Proofs.NftOwn Proofs.NftSim Proofs.NftScope Proofs.NftCard Proofs.NftEnum Run.C10 Proofs.C10Card
  Proofs.C10Sim Proofs.C10Live Model.NftBits Model.NftBitsRun Proofs.NftBits Proofs.NftBitsRun.
Local Open Scope N_scope.

(* ---------- the hypothesis of the acceptance theorem: the QUERIES are well formed ----------
   a boolean over calls and query shapes, evaluated along the run of the model and of the reference; it is
   exactly the observation test the monitor applies ([c10_shape_ok]) plus the lengths of the enumeration
   queries (two indices beyond the end).  Once a call leaves the quantifier (OutOfScope) nothing is asked. *)
Definition enum_shape (fl : flavour) (s : state) (sh : obs) : bool :=
  match fl with
  | FEnum =>
      (N.of_nat (length (o_glob sh)) =? total s + 2)
      && list_eqb N.eqb (map fst (o_otok sh)) (map fst (o_bal sh))
      && forallb (fun p : addr * list (option N) => N.of_nat (length (snd p)) =? balance s (fst p) + 2) (o_otok sh)
  | _ => true
  end.
Fixpoint wf_run (fl : flavour) (c : cfg) (full : bool) (s : state) (g : ghost) (l : list (call * obs)) : bool :=
  match l with
  | [] => true
  | (cl, sh) :: r =>
      let s' := fst (step fl c s cl) in
      let o := snd (step fl c s cl) in
      let g' := ghost_step g cl o in
      match mint_scope fl g cl o with
      | OutOfScope => true
      | _ => c10_shape_ok fl full g' cl o (model_obs fl c s' sh) && enum_shape fl s' sh && wf_run fl c full s' g' r
      end
  end.

(* ---------- small list facts ---------- *)
Lemma nodupb_NoDup l : nodupb l = true -> NoDup l.
Proof.
  induction l as [|a r IH]; cbn [nodupb]; intros H; constructor.
  - apply andb_true_iff in H. destruct H as [H _]. apply negb_true_iff in H. apply memN_false. exact H.
  - apply IH. apply andb_true_iff in H. apply H.
Qed.
Lemma NoDup_nodupb l : NoDup l -> nodupb l = true.
Proof.
  induction 1 as [|a r Hn Hr IH]; cbn [nodupb]; [reflexivity|].
  rewrite IH, andb_true_r. apply negb_true_iff. apply memN_false. exact Hn.
Qed.
Lemma aget_In_key {V} k (l : list (N * V)) v : aget N.eqb k l = Some v -> In k (map fst l).
Proof.
  induction l as [|[k' v'] r IH]; cbn [aget map fst]; [discriminate|].
  destruct (k =? k') eqn:E; [apply N.eqb_eq in E; left; auto | intros H; right; apply IH; exact H].
Qed.

Lemma map_fst_keyed {K V W} (F : K -> V) (l : list (K * W)) :
  map fst (map (fun p : K * W => (fst p, F (fst p))) l) = map fst l.
Proof. rewrite map_map. apply map_ext. intros [k w]. reflexivity. Qed.

Lemma count_owned_keyed {W} (R : N -> option addr) a (l : list (N * W)) :
  count_owned a (map (fun p : N * W => (fst p, R (fst p))) l) = N.of_nat (cnt_in (owned_by R a) (map fst l)).
Proof.
  unfold count_owned, cnt_in. f_equal. induction l as [|[k w] r IH]; cbn [map filter fst snd]; [reflexivity|].
  unfold owned_by at 1. destruct (oaddr_eqb (R k) (Some a)); cbn [length]; rewrite IH; reflexivity.
Qed.
Lemma count_existing_keyed {W} (R : N -> option addr) (l : list (N * W)) :
  count_existing (map (fun p : N * W => (fst p, R (fst p))) l) = N.of_nat (cnt_in (exists_in R) (map fst l)).
Proof.
  unfold count_existing, cnt_in. f_equal. induction l as [|[k w] r IH]; cbn [map filter fst snd]; [reflexivity|].
  unfold exists_in at 1. destruct (R k); cbn [is_some length]; rewrite IH; reflexivity.
Qed.

(* ---------- what the shape test gives ---------- *)
Lemma incr_from_lt lo l : incr_from lo l = true -> forall x, In x l -> lo < x.
Proof.
  revert lo. induction l as [|a r IH]; intros lo H x Hx; [destruct Hx|]. cbn [incr_from] in H.
  apply andb_true_iff in H. destruct H as [H1 H2]. apply N.ltb_lt in H1.
  destruct Hx as [<-|Hx]; [exact H1 | specialize (IH a H2 x Hx); lia].
Qed.
Lemma incr_from_NoDup lo l : incr_from lo l = true -> NoDup l.
Proof.
  revert lo. induction l as [|a r IH]; intros lo H; constructor; cbn [incr_from] in H;
    apply andb_true_iff in H; destruct H as [_ H2].
  - intros Hin. pose proof (incr_from_lt a r H2 a Hin). lia.
  - exact (IH a H2).
Qed.
Lemma strictly_incr_NoDup l : strictly_incr l = true -> NoDup l.
Proof.
  destruct l as [|a r]; cbn [strictly_incr]; intros H; constructor.
  - intros Hin. pose proof (incr_from_lt a r H a Hin). lia.
  - exact (incr_from_NoDup a r H).
Qed.
Lemma covers_from_In l : forall lo n, covers_from l lo n = true -> forall x, lo <= x < lo + N.of_nat n -> In x l.
Proof.
  induction l as [|a r IH]; intros lo n H x Hx.
  - destruct n; cbn in H; [lia | discriminate].
  - destruct n as [|k]; [lia|]. cbn [covers_from] in H.
    destruct (a <? lo) eqn:E1; [right; apply (IH lo (S k) H x Hx)|].
    destruct (a =? lo) eqn:E2; [|discriminate]. apply N.eqb_eq in E2. subst a.
    destruct (N.eq_dec x lo) as [->|Hne]; [left; reflexivity|]. right. apply (IH (lo + 1) k H). lia.
Qed.

(* ranges of the reference lie below its counter *)
Definition RangeInv (g : ghost) : Prop := forall lo hi a, In (LRange lo hi a) (g_own g) -> hi < g_next g.
Lemma range_init now0 : RangeInv (ghost0 now0).
Proof. intros lo hi a []. Qed.
Lemma range_step fl g cl o : RangeInv g -> mint_scope fl g cl o = InScope -> RangeInv (ghost_step g cl o).
Proof.
  intros H Hs. destruct o as [r|]; [|exact H].
  destruct cl; cbn [ghost_step]; try exact H; cbn [mint_scope] in Hs.
  - destruct fl; try discriminate; (destruct r as [id|]; [|discriminate]);
      (destruct (id <? g_next g) eqn:E; [discriminate|]); apply N.ltb_ge in E;
      intros lo hi a [X|X]; try discriminate X; cbn [g_next]; specialize (H lo hi a X); lia.
  - intros lo hi a [X|X]; [discriminate X | exact (H lo hi a X)].
  - destruct fl; try discriminate. destruct r as [last|]; [|discriminate].
    destruct ((1 <=? amount) && (amount <=? last + 1) && (g_next g <=? last + 1 - amount)) eqn:E; [|discriminate].
    apply andb_true_iff in E. destruct E as [E E3]. apply andb_true_iff in E. destruct E as [E1 E2].
    apply N.leb_le in E1, E2, E3.
    intros lo hi a [X|X]; cbn [g_next]; [inversion X; subst; lia | specialize (H lo hi a X); lia].
  - intros lo hi a [X|X]; [discriminate X | exact (H lo hi a X)].
  - intros lo hi a [X|X]; [discriminate X | exact (H lo hi a X)].
  - intros lo hi a [X|X]; [discriminate X | exact (H lo hi a X)].
  - intros lo hi a [X|X]; [discriminate X | exact (H lo hi a X)].
Qed.
Lemma rget_dom r i : rget r i <> None ->
  In i (point_ids r) \/ exists lo hi a, In (LRange lo hi a) r /\ lo <= i <= hi.
Proof.
  induction r as [|[j o|lo hi a] r IH]; cbn [rget point_ids]; intros H; [contradiction | |].
  - destruct (i =? j) eqn:E; [apply N.eqb_eq in E; left; left; auto|].
    destruct (IH H) as [X|(lo&hi&a&X&Y)]; [left; right; exact X | right; exists lo, hi, a; split; [right; exact X | exact Y]].
  - destruct ((lo <=? i) && (i <=? hi)) eqn:E.
    + apply andb_true_iff in E. destruct E as [E1 E2]. apply N.leb_le in E1, E2.
      right. exists lo, hi, a. split; [left; reflexivity | lia].
    + destruct (IH H) as [X|(lo'&hi'&a'&X&Y)]; [left; exact X | right; exists lo', hi', a'; split; [right; exact X | exact Y]].
Qed.

(* in `full` mode the queried ids cover every existing token *)
Lemma full_covers g ids : RangeInv g ->
  covers_from ids 0 (N.to_nat (g_next g + 3)) = true -> forallb (fun i => memN i ids) (point_ids (g_own g)) = true ->
  forall i, rget (g_own g) i <> None -> In i ids.
Proof.
  intros Hr Hc Hp i Hi. destruct (rget_dom _ _ Hi) as [X|(lo&hi&a&X&Y)].
  - rewrite forallb_forall in Hp. apply memN_In. apply Hp. exact X.
  - specialize (Hr lo hi a X). apply (covers_from_In ids 0 _ Hc). lia.
Qed.

(* ---------- index-list answers of the model pass enum_list_ok ---------- *)
Lemma mapi_from_seq {A} (get : N -> option N) (l : list A) k :
  mapi_from (fun i (_ : A) => get i) k l = map get (seqN k (length l)).
Proof. revert k. induction l as [|a r IH]; intros k; cbn [mapi_from length seqN map]; [reflexivity|]. rewrite IH. reflexivity. Qed.

Lemma seqN_app lo n m : seqN lo (n + m) = seqN lo n ++ seqN (lo + N.of_nat n) m.
Proof.
  revert lo. induction n as [|n IH]; intros lo; cbn [seqN app plus].
  - rewrite N.add_0_r. reflexivity.
  - rewrite IH. f_equal. f_equal. f_equal. lia.
Qed.

Lemma split_somes_app ids rest : split_somes (map Some ids ++ None :: rest) = (ids, None :: rest).
Proof. induction ids as [|a r IH]; cbn [map app split_somes]; [reflexivity|]. rewrite IH. reflexivity. Qed.

Lemma NoDup_map_on {A B} (f : A -> B) l :
  (forall x y, In x l -> In y l -> f x = f y -> x = y) -> NoDup l -> NoDup (map f l).
Proof.
  intros Hinj Hn. induction Hn as [|a r Ha Hr IH]; cbn [map]; constructor.
  - intros Hin. apply in_map_iff in Hin. destruct Hin as (y&Hy&Hyr).
    assert (y = a) by (apply Hinj; [right; exact Hyr | left; reflexivity | exact Hy]). subst. contradiction.
  - apply IH. intros x y Hx Hy. apply Hinj; right; assumption.
Qed.

Lemma enum_list_model {A} (get idx : N -> option N) n (P : N -> Prop) (p : N -> bool) (l : list A) :
  IList get idx n P -> (forall id, P id -> p id = true) -> N.of_nat (length l) = n + 2 ->
  enum_list_ok (mapi_from (fun k (_ : A) => get k) 0 l) n p = true.
Proof.
  intros (L1&L2&L3) Hp Hlen. rewrite mapi_from_seq.
  set (m := N.to_nat n).
  assert (El : length l = (m + 2)%nat) by (unfold m; lia).
  rewrite El, seqN_app. rewrite map_app. cbn [seqN map]. rewrite N.add_0_l.
  assert (Hm : N.of_nat m = n) by (unfold m; lia). rewrite Hm.
  set (val := fun k => match get k with Some x => x | None => 0 end).
  assert (Hsome : map get (seqN 0 m) = map Some (map val (seqN 0 m))).
  { rewrite map_map. apply map_ext_in. intros k Hk. apply seqN_In in Hk. unfold val.
    destruct (get k) eqn:E; [reflexivity|]. exfalso. apply (L3 k); [lia | exact E]. }
  assert (Hn1 : get n = None).
  { destruct (get n) eqn:E; [|reflexivity]. destruct (L1 _ _ E) as (X&_). lia. }
  assert (Hn2 : get (N.succ n) = None).
  { destruct (get (N.succ n)) eqn:E; [|reflexivity]. destruct (L1 _ _ E) as (X&_). lia. }
  rewrite Hsome, Hn1, Hn2. unfold enum_list_ok. rewrite split_somes_app.
  rewrite map_length, seqN_length, Hm, N.eqb_refl. cbn [andb list_eqb on_eqb].
  assert (Hget : forall k, In k (seqN 0 m) -> get k = Some (val k)).
  { intros k Hk. apply seqN_In in Hk. unfold val. destruct (get k) eqn:E; [reflexivity|]. exfalso. apply (L3 k); [lia | exact E]. }
  rewrite andb_true_r. apply andb_true_iff. split.
  - apply NoDup_nodupb. apply NoDup_map_on; [|apply seqN_NoDup].
    intros x y Hx Hy E. pose proof (Hget x Hx) as Gx. pose proof (Hget y Hy) as Gy.
    destruct (L1 _ _ Gx) as (_&_&Ix). destruct (L1 _ _ Gy) as (_&_&Iy). rewrite E in Ix. rewrite Ix in Iy. inversion Iy. reflexivity.
  - apply forallb_forall. intros x Hx. apply in_map_iff in Hx. destruct Hx as (k&<-&Hk).
    apply Hp. destruct (L1 _ _ (Hget k Hk)) as (_&X&_). exact X.
Qed.

Lemma list_eqb_Neqb_eq l1 l2 : list_eqb N.eqb l1 l2 = true -> l1 = l2.
Proof.
  revert l2. induction l1 as [|a r IH]; intros [|b r2]; cbn [list_eqb]; intros H; try discriminate; [reflexivity|].
  apply andb_true_iff in H. destruct H as [H1 H2]. apply N.eqb_eq in H1. subst. f_equal. apply IH. exact H2.
Qed.

Lemma c10_obs_model fl c full s g sh :
  Sim10 fl s g ->
  (full = true -> NoDup (map fst (o_owner sh)) /\ forall i, rget (g_own g) i <> None -> In i (map fst (o_owner sh))) ->
  enum_shape fl s sh = true -> c10_obs_ok fl full g (model_obs fl c s sh) = true.
Proof.
  intros (Hs&Hcard&Hen&Hto) Hfull Hwf2. pose proof Hs as [Hc Ho]. pose proof (own_of fl c s g Ho) as Hown.
  destruct Hc as ((Hn&Hx)&Hb&_&_).
  unfold c10_obs_ok, model_obs. cbn [o_next o_owner o_bal o_total o_glob o_otok].
  repeat (apply andb_true_iff; split).
  - apply N.eqb_eq. exact Hx.
  - apply forallb_forall. intros x Hin. apply in_map_iff in Hin. destruct Hin as (p&<-&_). cbn [fst snd].
    rewrite Hown. apply oaddr_eqb_refl'.
  - apply forallb_forall. intros x Hin. apply in_map_iff in Hin. destruct Hin as (p&<-&_). cbn [fst snd].
    apply N.eqb_eq. apply Hb.
  - destruct full; [|reflexivity]. destruct (Hfull eq_refl) as [Hnd Hcov].
    apply forallb_forall. intros x Hin. apply in_map_iff in Hin. destruct Hin as (p&<-&_). cbn [fst snd].
    apply N.eqb_eq. rewrite Hb.
    rewrite (count_owned_keyed (owner_of fl c s) (fst p) (o_owner sh)).
    destruct Hcard as (dom&Hnd'&Hcv&Hcnt&_). rewrite Hcnt. f_equal.
    rewrite (cnt_in_ext (owned_by (owner_of fl c s) (fst p)) (owned_by (rget (g_own g)) (fst p))) by (intros i _; unfold owned_by; rewrite Hown; reflexivity).
    apply cnt_in_cover; [exact Hnd' | exact Hnd | |].
    + intros i Hi. apply Hcv. unfold owned_by in Hi. apply oaddr_eqb_eq in Hi. rewrite Hi. discriminate.
    + intros i Hi. apply Hcov. unfold owned_by in Hi. apply oaddr_eqb_eq in Hi. rewrite Hi. discriminate.
  - destruct fl; try reflexivity.
    destruct (Hen eq_refl) as [[HO HG] Htot]. cbn [enum_shape] in Hwf2.
    apply andb_true_iff in Hwf2. destruct Hwf2 as [Hwf2 Hw3]. apply andb_true_iff in Hwf2. destruct Hwf2 as [Hw1 Hw2].
    apply N.eqb_eq in Hw1. apply list_eqb_Neqb_eq in Hw2.
    unfold enum_ok. cbn [o_total o_owner o_glob o_otok o_bal].
    repeat (apply andb_true_iff; split).
    + apply N.eqb_eq. exact Htot.
    + destruct full; [|reflexivity]. destruct (Hfull eq_refl) as [Hnd Hcov].
      apply N.eqb_eq. rewrite Htot.
      rewrite (count_existing_keyed (owner_of FEnum c s) (o_owner sh)).
      destruct Hcard as (dom&Hnd'&Hcv&_&Hsup&_). rewrite Hsup. f_equal.
      rewrite (cnt_in_ext (exists_in (owner_of FEnum c s)) (exists_in (rget (g_own g)))) by (intros i _; unfold exists_in; rewrite Hown; reflexivity).
      apply cnt_in_cover; [exact Hnd' | exact Hnd | |].
      * intros i Hi. apply Hcv. unfold exists_in in Hi. destruct (rget (g_own g) i); [discriminate | discriminate].
      * intros i Hi. apply Hcov. unfold exists_in in Hi. destruct (rget (g_own g) i); [discriminate | discriminate].
    + apply (enum_list_model (gget s) (gidx s) (total s) (fun id => rget (g_own g) id <> None)); [exact HG | | exact Hw1].
      intros id Hid. destruct (rget (g_own g) id); [reflexivity | contradiction].
    + rewrite !map_map. cbn [fst].
      change (list_eqb N.eqb (map fst (o_otok sh)) (map fst (o_bal sh)) = true).
      rewrite Hw2. apply list_eqb_refl. apply N.eqb_refl.
    + apply forallb_forall. intros x Hin. apply in_map_iff in Hin. destruct Hin as (p&<-&Hp). cbn [fst snd].
      rewrite <- Hb.
      apply (enum_list_model (oget s (fst p)) (oidx s) (balance s (fst p)) (fun id => rget (g_own g) id = Some (fst p))).
      * apply HO.
      * intros id Hid. rewrite Hid. apply oaddr_eqb_refl'.
      * rewrite forallb_forall in Hw3. specialize (Hw3 p Hp). apply N.eqb_eq in Hw3. exact Hw3.
Qed.

Lemma c10_live_ok fl c g cl r : c10_live fl c g cl (Ok r) = true.
Proof. destruct cl; cbn [c10_live is_ok]; try reflexivity; try (destruct fl; try reflexivity); match goal with |- (if ?b then _ else _) = _ => destruct b end; reflexivity. Qed.

Lemma c10_live_fail fl c s g cl : Sim10 fl s g -> exec fl c s cl = Fail -> c10_live fl c g cl Fail = true.
Proof.
  intros Hs He. destruct cl; cbn [c10_live is_ok]; try reflexivity.
  - destruct fl; try reflexivity.
    destruct ((1 <=? amount) && (amount <=? max_batch c) && (g_next g + amount <=? MAXU32N) && (cnt (g_cnt g) to + amount <=? MAXU32N)) eqn:E; [|reflexivity].
    repeat (apply andb_true_iff in E; destruct E as [E ?]). apply N.leb_le in E, H, H0, H1.
    pose proof Hs as ((((_&Hx)&Hb&_)&_)&_). rewrite <- Hx in H0. rewrite <- Hb in H.
    destruct (batch_mint_progress c s to amount E H1 H0 H) as [s' X]. rewrite X in He. discriminate.
  - destruct (has_auth auths from && oaddr_eqb (rget (g_own g) id) (Some from) && (cnt (g_cnt g) to + 1 <=? MAXU32N)) eqn:E; [|reflexivity].
    apply andb_true_iff in E. destruct E as [E E3]. apply andb_true_iff in E. destruct E as [E1 E2].
    apply oaddr_eqb_eq in E2. apply N.leb_le in E3.
    pose proof Hs as (((_&Hb&_)&_)&_). rewrite <- Hb in E3.
    destruct (owner_transfer_progress fl c s g auths from to id Hs E1 E2 E3) as [s' X]. rewrite X in He. discriminate.
  - destruct (has_auth auths spender && oaddr_eqb (rget (g_own g) id) (Some from)
              && ((spender =? from) || oaddr_eqb (live_appr g id) (Some spender) || live_oper g from spender)
              && (cnt (g_cnt g) to + 1 <=? MAXU32N)) eqn:E; [|reflexivity].
    repeat (apply andb_true_iff in E; destruct E as [E ?]). apply oaddr_eqb_eq in H1. apply N.leb_le in H.
    pose proof Hs as ((Hc&_)&_). pose proof Hc as (_&Hb&_). rewrite <- Hb in H.
    rewrite (transfer_from_as_transfer fl c s auths spender from to id E (spender_check_progress s g spender from id Hc H0)) in He.
    destruct (owner_transfer_progress fl c s g [from] from to id Hs (has_auth_self from) H1 H) as [s' X]. rewrite X in He. discriminate.
  - destruct (has_auth auths from && oaddr_eqb (rget (g_own g) id) (Some from)) eqn:E; [|reflexivity].
    apply andb_true_iff in E. destruct E as [E1 E2]. apply oaddr_eqb_eq in E2.
    destruct (owner_burn_progress fl c s g auths from id Hs E1 E2) as [s' X]. rewrite X in He. discriminate.
  - destruct (has_auth auths spender && oaddr_eqb (rget (g_own g) id) (Some from)
              && ((spender =? from) || oaddr_eqb (live_appr g id) (Some spender) || live_oper g from spender)) eqn:E; [|reflexivity].
    repeat (apply andb_true_iff in E; destruct E as [E ?]). apply oaddr_eqb_eq in H0.
    pose proof Hs as ((Hc&_)&_).
    rewrite (burn_from_as_burn fl c s auths spender from id E (spender_check_progress s g spender from id Hc H)) in He.
    destruct (owner_burn_progress fl c s g [from] from id Hs (has_auth_self from) H0) as [s' X]. rewrite X in He. discriminate.
Qed.

(* the shape test on a model observation looks only at the query shape *)
Lemma shape_full fl g cl o ob : RangeInv g -> c10_shape_ok fl true g cl o ob = true ->
  NoDup (map fst (o_owner ob)) /\ forall i, rget (g_own g) i <> None -> In i (map fst (o_owner ob)).
Proof.
  intros Hr H. unfold c10_shape_ok in H.
  apply andb_true_iff in H. destruct H as [H _]. apply andb_true_iff in H. destruct H as [H H0].
  apply andb_true_iff in H. destruct H as [H _]. apply andb_true_iff in H. destruct H as [H _].
  apply andb_true_iff in H0. destruct H0 as [Hc Hp].
  split; [apply strictly_incr_NoDup; exact H | apply full_covers; assumption].
Qed.

Lemma mon_model_steps fl c full l : forall s g i,
  Sim10 fl s g -> RangeInv g -> wf_run fl c full s g l = true ->
  mon_from false fl c full g (model_steps fl c s l) i = 0.
Proof.
  induction l as [|[cl sh] r IH]; intros s g i Hs Hr Hwf; cbn [model_steps mon_from]; [reflexivity|].
  cbn [wf_run] in Hwf.
  destruct (step_cases fl c s cl) as [(s'&rr&He&Est)|[He Est]]; rewrite Est in *; cbn [fst snd] in *;
    cbn [mon_from fst snd].
  - rewrite (scope_model fl c s g cl s' rr (proj1 Hs) He) in *.
    destruct (fresh_ok fl c s cl) eqn:Hfr; [|reflexivity].
    apply andb_true_iff in Hwf. destruct Hwf as [Hwf Hwr]. apply andb_true_iff in Hwf. destruct Hwf as [Hsh Hen].
    pose proof (sim10_step fl c s g cl s' rr Hs Hfr He) as Hs'.
    assert (Hsc : mint_scope fl g cl (Ok rr) = InScope) by (rewrite (scope_model fl c s g cl s' rr (proj1 Hs) He), Hfr; reflexivity).
    pose proof (range_step fl g cl (Ok rr) Hr Hsc) as Hr'.
    cbn [c10_step_ok]. rewrite (c10_legal_model fl c s g cl s' rr (proj1 Hs) He), c10_live_ok, Hsh.
    rewrite (c10_obs_model fl c full s' _ sh Hs'); [cbn [andb]; apply IH; assumption | | exact Hen].
    intros ->. destruct (shape_full fl _ cl _ _ Hr' Hsh) as [A B].
    unfold model_obs in A, B; cbn [o_owner] in A, B; rewrite map_fst_keyed in A, B. split; assumption.
  - cbn [mint_scope] in *. cbn [ghost_step] in Hwf.
    apply andb_true_iff in Hwf. destruct Hwf as [Hwf Hwr]. apply andb_true_iff in Hwf. destruct Hwf as [Hsh Hen].
    cbn [c10_step_ok ghost_step].
    assert (Hleg : c10_legal g cl Fail = true).
    { destruct cl; try reflexivity. cbn in He. discriminate. }
    rewrite Hleg, (c10_live_fail fl c s g cl Hs He), Hsh.
    rewrite (c10_obs_model fl c full s g sh Hs); [cbn [andb]; apply IH; assumption | | exact Hen].
    intros ->. destruct (shape_full fl _ cl _ _ Hr Hsh) as [A B].
    unfold model_obs in A, B; cbn [o_owner] in A, B; rewrite map_fst_keyed in A, B. split; assumption.
Qed.

(* ---------- the bit-level replay of the model's own consecutive traces has an empty diff ---------- *)
Lemma dump_model_idem bs d : dump_model bs (dump_model bs d) = dump_model bs d.
Proof. unfold dump_model. rewrite map_map. apply map_ext. intros [k v]. reflexivity. Qed.
Lemma bdump_eqb_refl d : bdump_eqb d d = true.
Proof.
  unfold bdump_eqb. apply list_eqb_refl. intros [k [[n l]|]]; cbn [fst snd]; rewrite N.eqb_refl; [|reflexivity].
  unfold words_eqb. cbn [fst snd]. rewrite N.eqb_refl. cbn [andb]. apply list_eqb_refl.
  intros [i w]. cbn [fst snd]. rewrite !N.eqb_refl. reflexivity.
Qed.
Lemma bcfg_okb_ok b c : bcfg_okb b c = true -> bcfg_ok b c.
Proof.
  unfold bcfg_okb, bcfg_ok. intros H. apply andb_true_iff in H. destruct H as [H H3]. apply andb_true_iff in H. destruct H as [H1 H2].
  apply N.ltb_lt in H1, H2. apply N.eqb_eq in H3. auto.
Qed.

(* the dump queries list the right bucket indexes (hypothesis on the query shapes, consecutive flavour) *)
Fixpoint dshapes_ok (b : bcfg) (c : cfg) (sb : bstate) (l : list (call * obs)) (shapes : list bdump) : bool :=
  match l with
  | [] => true
  | (cl, _) :: r =>
      let sb' := fst (step_b b c sb cl) in
      dump_shape_ok b sb' shapes && dshapes_ok b c sb' r (tl shapes)
  end.
Lemma dump_model_keys bs d : map fst (dump_model bs d) = map fst d.
Proof. unfold dump_model. rewrite map_map. apply map_ext. intros [k v]. reflexivity. Qed.

Lemma diffb_model b c l : bcfg_ok b c -> forall (s : state) (bs : buckets) shapes i, Good b (s, bs) ->
  dshapes_ok b c (s, bs) l shapes = true ->
  diffb_from b c (s, bs) (model_steps FCons c s l) (model_dumps b c (s, bs) l shapes) i = 0.
Proof.
  intros Hok. induction l as [|[cl sh] r IH]; intros s bs shapes i Hg Hd; cbn [model_steps diffb_from model_dumps]; [reflexivity|].
  cbn [dshapes_ok] in Hd. apply andb_true_iff in Hd. destruct Hd as [Hd1 Hd2].
  destruct (step_sim' b c s bs cl Hok Hg) as (bs'&E&Hg').
  destruct (step FCons c s cl) as [s' o'] eqn:Es. cbn [fst snd] in E, Hg'. cbn [diffb_from]. rewrite E in *. cbn [fst snd tl] in *.
  rewrite out_eqb_refl. cbn [andb].
  assert (Ho : forallb (fun p : N * option addr => oaddr_eqb (snd p) (cons_owner_of_b b (s', bs') (fst p)))
                 (o_owner (model_obs FCons c s' sh)) = true).
  { apply forallb_forall. intros x Hx. unfold model_obs in Hx. cbn [o_owner] in Hx. apply in_map_iff in Hx.
    destruct Hx as (p&<-&_). cbn [fst snd owner_of]. rewrite (owner_of_b_eq b c s' bs' (fst p) Hok Hg'). apply oaddr_eqb_refl'. }
  rewrite Ho, dump_model_idem, bdump_eqb_refl.
  assert (Hds : dump_shape_ok b (s', bs') (dump_model bs' match shapes with [] => [] | d :: _ => d end :: model_dumps b c (s', bs') r (tl shapes)) = true).
  { unfold dump_shape_ok in *. cbn [fst] in *. rewrite dump_model_keys. destruct shapes as [|d ds]; [discriminate | exact Hd1]. }
  rewrite Hds. cbn [andb]. apply IH; assumption.
Qed.

Lemma diff_bits_model fl c b now0 full l shapes :
  (fl = FCons -> bcfg_okb b c = true /\ dshapes_ok b c (init_b now0) l shapes = true) ->
  diff_bits (model_btrace fl c b now0 full l shapes) = 0.
Proof.
  intros Hb. unfold diff_bits, model_btrace, model_trace. cbn [bt_trace bt_bcfg bt_dumps t_fl t_cfg t_now0 t_steps].
  destruct fl; try reflexivity. destruct (Hb eq_refl) as [H1 H2]. rewrite H1.
  apply diffb_model; [apply bcfg_okb_ok; exact H1 | apply good_init | exact H2].
Qed.

Theorem c10_check_accepts_model fl c b now0 full l shapes :
  wf_run fl c full (init now0) (ghost0 now0) l = true ->
  (fl = FCons -> bcfg_okb b c = true /\ dshapes_ok b c (init_b now0) l shapes = true) ->
  check (model_btrace fl c b now0 full l shapes) = (0, 0, 0).
Proof.
  intros Hwf Hb. unfold check. rewrite (diff_bits_model fl c b now0 full l shapes Hb).
  unfold model_btrace. cbn [bt_trace]. rewrite diff_model_trace. cbn [first_diff N.eqb].
  unfold monitor, model_trace. cbn [t_fl t_cfg t_full t_now0 t_steps].
  rewrite (mon_model_steps fl c full l _ _ 0 (sim10_init fl now0) (range_init now0) Hwf). reflexivity.
Qed.
