(* C14 - facts behind the situation classes K1..K6 of the hardening round:
   K1/K5  no address is special: the model commutes with every injective renaming of the addresses
          (so the policy contract's own address, another registered contract, the account itself ... used as
          the smart account behave like any other address: what matters is only whose authorisation is attached),
          and a context matters only through the amount the spending policy extracts from it (the token contract
          called, from, to, extra arguments, the function name of a non-transfer play no role; for the two
          threshold policies the context plays no role at all);
   K5     rewriting a value by itself changes no getter;
   K6     uninstall really forgets: whatever was stored, uninstall followed by install yields the entry of a first
          installation (empty history, zero cache); the sibling path set_threshold creates an entry that install
          then refuses to overwrite. *)
From SC Require Import Lib.Prelude Lib.Int Lib.Host Model.Policies Model.PoliciesSpec Proofs.Policies.

(* ================= contexts matter only through transfer_amount ================= *)
Lemma enforce_one_ctx c p s au a r sgs ctx ctx' :
  transfer_amount ctx = transfer_amount ctx' ->
  enforce_one c p s au a r sgs ctx = enforce_one c p s au a r sgs ctx'.
Proof.
  intros H. destruct p; cbn [enforce_one]; try reflexivity.
  unfold l_enforce_one. rewrite H. reflexivity.
Qed.

Lemma enforce_batch_ctx c p au a r sgs : forall ctxs ctxs' s,
  map transfer_amount ctxs = map transfer_amount ctxs' ->
  enforce_batch c p s au a r sgs ctxs = enforce_batch c p s au a r sgs ctxs'.
Proof.
  induction ctxs as [|x xs IH]; intros [|y ys] s H; cbn in H; try discriminate; [reflexivity|].
  inversion H as [[H1 H2]]. cbn [enforce_batch].
  rewrite (enforce_one_ctx c p s au a r sgs x y H1).
  destruct (enforce_one c p s au a r sgs y) as [se|]; cbn [bind]; [|reflexivity].
  rewrite (IH ys (fst se) H2). reflexivity.
Qed.

Theorem context_parties_irrelevant : forall c s p au a r sgs,
  (forall ctxs ctxs', map transfer_amount ctxs = map transfer_amount ctxs' ->
     step c s (Enforce p au a r ctxs sgs) = step c s (Enforce p au a r ctxs' sgs)) /\
  (forall ctx ctx', transfer_amount ctx = transfer_amount ctx' ->
     step c s (CanEnforce p a r ctx sgs) = step c s (CanEnforce p a r ctx' sgs)) /\
  (* the threshold policies: not even the amount *)
  (p <> PL -> forall ctx ctx', step c s (CanEnforce p a r ctx sgs) = step c s (CanEnforce p a r ctx' sgs) /\
                               step c s (Enforce p au a r [ctx] sgs) = step c s (Enforce p au a r [ctx'] sgs)).
Proof.
  intros c s p au a r sgs. split; [|split].
  - intros ctxs ctxs' H. unfold step. cbn [exec]. rewrite (enforce_batch_ctx c p au a r sgs ctxs ctxs' s H). reflexivity.
  - intros ctx ctx' H. unfold step. cbn [exec]. destruct p; cbn [can_enforce]; try reflexivity.
    unfold l_can_enforce. rewrite H. reflexivity.
  - intros Hp ctx ctx'. destruct p; try congruence; split; reflexivity.
Qed.

(* in particular the token contract called and every argument but the third are irrelevant *)
Corollary token_and_parties_irrelevant : forall c s p au a r sgs tok tok' from to from' to' amt rest rest',
  step c s (Enforce p au a r [CContract tok FN_TRANSFER (from :: to :: AI128 amt :: rest)] sgs) =
  step c s (Enforce p au a r [CContract tok' FN_TRANSFER (from' :: to' :: AI128 amt :: rest')] sgs) /\
  step c s (CanEnforce p a r (CContract tok FN_TRANSFER (from :: to :: AI128 amt :: rest)) sgs) =
  step c s (CanEnforce p a r (CContract tok' FN_TRANSFER (from' :: to' :: AI128 amt :: rest')) sgs).
Proof.
  intros. destruct (context_parties_irrelevant c s p au a r sgs) as (H1 & H2 & _). split.
  - apply H1. reflexivity.
  - apply H2. reflexivity.
Qed.

(* ================= no address is special: injective renamings ================= *)
Section Rename.
  Context (f : addr -> addr) (f_inj : forall a b, f a = f b -> a = b).

  Definition rk (k : key) : key := (f (fst k), snd k).
  Definition rmap {V} (m : list (key * V)) : list (key * V) := map (fun kv => (rk (fst kv), snd kv)) m.
  Definition rstate (s : state) : state :=
    {| now := now s; st_simple := rmap (st_simple s); st_weighted := rmap (st_weighted s); st_spend := rmap (st_spend s) |}.
  Definition rcall (cl : call) : call :=
    match cl with
    | Advance n => Advance n
    | CanEnforce p a r ctx sgs => CanEnforce p (f a) r ctx sgs
    | Enforce p au a r ctxs sgs => Enforce p (map f au) (f a) r ctxs sgs
    | Uninstall p au a r => Uninstall p (map f au) (f a) r
    | SInstall au a r rs t => SInstall (map f au) (f a) r rs t
    | SSetThreshold au a r rs t => SSetThreshold (map f au) (f a) r rs t
    | WInstall au a r ws t => WInstall (map f au) (f a) r ws t
    | WSetThreshold au a r t => WSetThreshold (map f au) (f a) r t
    | WSetWeight au a r sg w => WSetWeight (map f au) (f a) r sg w
    | LInstall au a r l p => LInstall (map f au) (f a) r l p
    | LSetLimit au a r l => LSetLimit (map f au) (f a) r l
    end.
  Definition revent (ev : event) : event :=
    match ev with EvEnforced p a r n x t => EvEnforced p (f a) r n x t end.

  Lemma feqb a b : N.eqb (f a) (f b) = N.eqb a b.
  Proof.
    destruct (N.eqb a b) eqn:E.
    - apply N.eqb_eq in E. subst. apply N.eqb_refl.
    - apply N.eqb_neq in E. apply N.eqb_neq. intros H. apply E, f_inj, H.
  Qed.
  Lemma rk_eqb a b : key_eqb (rk a) (rk b) = key_eqb a b.
  Proof. unfold key_eqb, rk. cbn [fst snd]. rewrite feqb. reflexivity. Qed.
  Lemma rk_pair a r : (f a, r) = rk (a, r).
  Proof. reflexivity. Qed.
  Lemma has_auth_rename au a : has_auth (map f au) (f a) = has_auth au a.
  Proof.
    unfold has_auth. induction au as [|x xs IH]; cbn [map existsb]; [reflexivity|].
    rewrite feqb, IH. reflexivity.
  Qed.
  Lemma kget_rename {V} k (m : list (key * V)) : kget (rk k) (rmap m) = kget k m.
  Proof.
    induction m as [|[k' v] r IH]; cbn [rmap map kget fst snd]; [reflexivity|].
    rewrite rk_eqb. destruct (key_eqb k k'); [reflexivity|exact IH].
  Qed.
  Lemma kremove_rename {V} k (m : list (key * V)) : kremove (rk k) (rmap m) = rmap (kremove k m).
  Proof.
    induction m as [|[k' v] r IH]; cbn [rmap map kremove fst snd]; [reflexivity|].
    rewrite rk_eqb. destruct (key_eqb k k'); [exact IH|].
    cbn [map fst snd]. f_equal. exact IH.
  Qed.
  Lemma kset_rename {V} k (v : V) (m : list (key * V)) : kset (rk k) v (rmap m) = rmap (kset k v m).
  Proof. unfold kset. cbn [rmap map fst snd]. f_equal. apply kremove_rename. Qed.

  Definition rres (x : res state) : res state := match x with Ok s => Ok (rstate s) | Fail => Fail end.
  Definition rres_e (x : res (state * event)) : res (state * event) :=
    match x with Ok (s, e) => Ok (rstate s, revent e) | Fail => Fail end.

  Lemma rset_simple s m : rstate (set_simple s m) = set_simple (rstate s) (rmap m).
  Proof. reflexivity. Qed.
  Lemma rset_weighted s m : rstate (set_weighted s m) = set_weighted (rstate s) (rmap m).
  Proof. reflexivity. Qed.
  Lemma rset_spend s m : rstate (set_spend s m) = set_spend (rstate s) (rmap m).
  Proof. reflexivity. Qed.

  Ltac ren :=
    repeat first [ rewrite has_auth_rename | rewrite rk_pair | rewrite kget_rename
                 | rewrite kset_rename | rewrite kremove_rename ].

  Lemma s_validate_rename s k rs t :
    s_validate_and_set (rstate s) (rk k) rs t = rres (s_validate_and_set s k rs t).
  Proof.
    unfold s_validate_and_set. destruct ((t =? 0) || (len rs <? t)); [reflexivity|].
    cbn [rres rstate st_simple]. rewrite kset_rename. reflexivity.
  Qed.
  Lemma s_install_rename s au a r rs t :
    s_install (rstate s) (map f au) (f a) r rs t = rres (s_install s au a r rs t).
  Proof.
    unfold s_install. rewrite has_auth_rename. destruct (has_auth au a); cbn [guard bind]; [|reflexivity].
    destruct (in_u32 t); cbn [guard bind]; [|reflexivity].
    rewrite rk_pair. cbn [rstate st_simple]. rewrite kget_rename.
    destruct (kget (a, r) (st_simple s)); [reflexivity|]. apply s_validate_rename.
  Qed.
  Lemma s_set_threshold_rename s au a r rs t :
    s_set_threshold (rstate s) (map f au) (f a) r rs t = rres (s_set_threshold s au a r rs t).
  Proof.
    unfold s_set_threshold. rewrite has_auth_rename. destruct (has_auth au a); cbn [guard bind]; [|reflexivity].
    destruct (in_u32 t); cbn [guard bind]; [|reflexivity].
    rewrite rk_pair. apply s_validate_rename.
  Qed.
  Lemma uninstall_rename p s au a r :
    uninstall p (rstate s) (map f au) (f a) r = rres (uninstall p s au a r).
  Proof.
    destruct p; cbn [uninstall]; unfold s_uninstall, w_uninstall, l_uninstall;
      rewrite has_auth_rename; destruct (has_auth au a); cbn [guard bind rres]; try reflexivity;
      rewrite rk_pair; cbn [rstate st_simple st_weighted st_spend]; rewrite kremove_rename; reflexivity.
  Qed.
  Lemma w_install_rename s au a r ws t :
    w_install (rstate s) (map f au) (f a) r ws t = rres (w_install s au a r ws t).
  Proof.
    unfold w_install. rewrite has_auth_rename. destruct (has_auth au a); cbn [guard bind]; [|reflexivity].
    destruct (in_u32 t && forallb (fun kv => in_u32 (snd kv)) ws); cbn [guard bind]; [|reflexivity].
    rewrite rk_pair. cbn [rstate st_weighted]. rewrite kget_rename.
    destruct (kget (a, r) (st_weighted s)); [reflexivity|].
    destruct (total_weight (wnorm ws)) as [tot|]; cbn [of_option bind]; [|reflexivity].
    destruct ((t =? 0) || (tot <? t)); [reflexivity|].
    cbn [rres]. rewrite kset_rename. reflexivity.
  Qed.
  Lemma w_set_threshold_rename s au a r t :
    w_set_threshold (rstate s) (map f au) (f a) r t = rres (w_set_threshold s au a r t).
  Proof.
    unfold w_set_threshold. rewrite has_auth_rename. destruct (has_auth au a); cbn [guard bind]; [|reflexivity].
    destruct (in_u32 t); cbn [guard bind]; [|reflexivity].
    destruct (t =? 0); [reflexivity|].
    rewrite rk_pair. cbn [rstate st_weighted]. rewrite kget_rename.
    destruct (kget (a, r) (st_weighted s)) as [d|]; cbn [of_option bind]; [|reflexivity].
    destruct (total_weight (wd_weights d)) as [tot|]; cbn [of_option bind]; [|reflexivity].
    destruct (tot <? t); [reflexivity|]. cbn [rres]. rewrite kset_rename. reflexivity.
  Qed.
  Lemma w_set_weight_rename s au a r sg w :
    w_set_weight (rstate s) (map f au) (f a) r sg w = rres (w_set_weight s au a r sg w).
  Proof.
    unfold w_set_weight. rewrite has_auth_rename. destruct (has_auth au a); cbn [guard bind]; [|reflexivity].
    destruct (in_u32 w); cbn [guard bind]; [|reflexivity].
    rewrite rk_pair. cbn [rstate st_weighted]. rewrite kget_rename.
    destruct (kget (a, r) (st_weighted s)) as [d|]; cbn [of_option bind]; [|reflexivity].
    destruct (total_weight (alist_set sg w (wd_weights d))) as [tot|]; cbn [of_option bind]; [|reflexivity].
    destruct (tot <? wd_thr d); [reflexivity|]. cbn [rres]. rewrite kset_rename. reflexivity.
  Qed.
  Lemma l_install_rename s au a r l p :
    l_install (rstate s) (map f au) (f a) r l p = rres (l_install s au a r l p).
  Proof.
    unfold l_install. rewrite has_auth_rename. destruct (has_auth au a); cbn [guard bind]; [|reflexivity].
    destruct (in_i128 l && in_u32 p); cbn [guard bind]; [|reflexivity].
    destruct ((l <=? 0) || (p =? 0)); [reflexivity|].
    rewrite rk_pair. cbn [rstate st_spend]. rewrite kget_rename.
    destruct (kget (a, r) (st_spend s)); [reflexivity|]. cbn [rres]. rewrite kset_rename. reflexivity.
  Qed.
  Lemma l_set_limit_rename s au a r l :
    l_set_limit (rstate s) (map f au) (f a) r l = rres (l_set_limit s au a r l).
  Proof.
    unfold l_set_limit. rewrite has_auth_rename. destruct (has_auth au a); cbn [guard bind]; [|reflexivity].
    destruct (in_i128 l); cbn [guard bind]; [|reflexivity].
    destruct (l <=? 0); [reflexivity|].
    rewrite rk_pair. cbn [rstate st_spend]. rewrite kget_rename.
    destruct (kget (a, r) (st_spend s)) as [d|]; cbn [of_option bind]; [|reflexivity].
    cbn [rres]. rewrite kset_rename. reflexivity.
  Qed.

  Lemma can_enforce_rename c p s a r ctx sgs :
    can_enforce c p (rstate s) (f a) r ctx sgs = can_enforce c p s a r ctx sgs.
  Proof.
    destruct p; cbn [can_enforce]; unfold s_can_enforce, w_can_enforce, l_can_enforce;
      rewrite rk_pair; cbn [rstate st_simple st_weighted st_spend now]; rewrite kget_rename; reflexivity.
  Qed.

  Lemma enforce_one_rename c p s au a r sgs ctx :
    enforce_one c p (rstate s) (map f au) (f a) r sgs ctx = rres_e (enforce_one c p s au a r sgs ctx).
  Proof.
    destruct p; cbn [enforce_one].
    - unfold s_enforce_one. rewrite has_auth_rename. destruct (has_auth au a); cbn [guard bind]; [|reflexivity].
      rewrite rk_pair. cbn [rstate st_simple]. rewrite kget_rename.
      destruct (kget (a, r) (st_simple s)) as [t|]; cbn [of_option bind]; [|reflexivity].
      destruct (t <=? len sgs); reflexivity.
    - unfold w_enforce_one. rewrite has_auth_rename. destruct (has_auth au a); cbn [guard bind]; [|reflexivity].
      rewrite rk_pair. cbn [rstate st_weighted]. rewrite kget_rename.
      destruct (kget (a, r) (st_weighted s)) as [d|]; cbn [of_option bind]; [|reflexivity].
      destruct (calc_weight (wd_weights d) sgs) as [w|]; cbn [of_option bind]; [|reflexivity].
      destruct (wd_thr d <=? w); reflexivity.
    - unfold l_enforce_one. rewrite has_auth_rename. destruct (has_auth au a); cbn [guard bind]; [|reflexivity].
      destruct sgs as [|sg sgs']; [reflexivity|].
      rewrite rk_pair. cbn [rstate st_spend now]. rewrite kget_rename.
      destruct (kget (a, r) (st_spend s)) as [d|]; cbn [of_option bind]; [|reflexivity].
      destruct (transfer_amount ctx) as [amt|]; [|reflexivity].
      destruct (l_enforce_data c (now s) d amt) as [d'|]; cbn [bind]; [|reflexivity].
      cbn [rres_e revent]. rewrite kset_rename. reflexivity.
  Qed.

  Lemma enforce_batch_rename c p au a r sgs : forall ctxs s,
    enforce_batch c p (rstate s) (map f au) (f a) r sgs ctxs =
    match enforce_batch c p s au a r sgs ctxs with
    | Ok (s', evs) => Ok (rstate s', map revent evs)
    | Fail => Fail
    end.
  Proof.
    induction ctxs as [|x xs IH]; intros s; cbn [enforce_batch]; [reflexivity|].
    rewrite enforce_one_rename.
    destruct (enforce_one c p s au a r sgs x) as [[s1 e1]|]; cbn [rres_e bind fst snd]; [|reflexivity].
    rewrite IH.
    destruct (enforce_batch c p s1 au a r sgs xs) as [[s2 e2]|]; cbn [bind fst snd map]; reflexivity.
  Qed.

  Lemma unit_of_rename x : unit_of (rres x) = match unit_of x with Ok (s, r, e) => Ok (rstate s, r, map revent e) | Fail => Fail end.
  Proof. destruct x; reflexivity. Qed.

  Theorem exec_rename c s cl :
    exec c (rstate s) (rcall cl) =
    match exec c s cl with Ok (s', r, evs) => Ok (rstate s', r, map revent evs) | Fail => Fail end.
  Proof.
    destruct cl; cbn [exec rcall].
    - cbn [rstate now]. destruct ((0 <=? n) && (now s + n <=? MAXU32)); reflexivity.
    - rewrite can_enforce_rename. destruct (can_enforce c p s acct rid ctx sgs); reflexivity.
    - rewrite enforce_batch_rename.
      destruct (enforce_batch c p s auths acct rid sgs ctxs) as [[s' evs]|]; reflexivity.
    - rewrite uninstall_rename. apply unit_of_rename.
    - rewrite s_install_rename. apply unit_of_rename.
    - rewrite s_set_threshold_rename. apply unit_of_rename.
    - rewrite w_install_rename. apply unit_of_rename.
    - rewrite w_set_threshold_rename. apply unit_of_rename.
    - rewrite w_set_weight_rename. apply unit_of_rename.
    - rewrite l_install_rename. apply unit_of_rename.
    - rewrite l_set_limit_rename. apply unit_of_rename.
  Qed.

  Theorem step_rename c s cl :
    step c (rstate s) (rcall cl) =
    let '(s', o, evs) := step c s cl in (rstate s', o, map revent evs).
  Proof.
    unfold step. rewrite exec_rename. destruct (exec c s cl) as [[[s' r] evs]|]; reflexivity.
  Qed.

  (* lifted to whole runs: the renamed run of the renamed calls *)
  Theorem run_rename c : forall cs s, run c (rstate s) (map rcall cs) = rstate (run c s cs).
  Proof.
    induction cs as [|cl cs IH]; intros s; cbn [run fold_left map]; [reflexivity|].
    fold (run c (step_state c (rstate s) (rcall cl)) (map rcall cs)).
    unfold step_state at 1. rewrite step_rename.
    destruct (step c s cl) as [[s' o] evs] eqn:E. cbn [fst].
    rewrite IH. unfold step_state. rewrite E. reflexivity.
  Qed.

  (* what every getter of the renamed account shows is what the original account showed *)
  Theorem observe_rename (u : universe) s evs :
    observe {| u_keys := map rk (u_keys u); u_sgs := u_sgs u |} (rstate s) (map revent evs) =
    let o := observe u s evs in {| o_s := o_s o; o_w := o_w o; o_l := o_l o; o_ev := map revent (o_ev o) |}.
  Proof.
    unfold observe. cbn [u_keys u_sgs rstate st_simple st_weighted st_spend o_s o_w o_l o_ev]. f_equal.
    - rewrite map_map. apply map_ext. intros k. apply kget_rename.
    - rewrite map_map. apply map_ext. intros k. rewrite kget_rename. reflexivity.
    - rewrite map_map. apply map_ext. intros k. rewrite kget_rename. reflexivity.
  Qed.
End Rename.

(* an instance: swapping two addresses (e.g. an ordinary account and the policy contract's own address) *)
Definition swap_addr (x y a : addr) : addr := if N.eqb a x then y else if N.eqb a y then x else a.
Lemma swap_addr_inj x y a b : swap_addr x y a = swap_addr x y b -> a = b.
Proof.
  unfold swap_addr.
  destruct (N.eqb a x) eqn:Ax, (N.eqb a y) eqn:Ay, (N.eqb b x) eqn:Bx, (N.eqb b y) eqn:By;
    repeat match goal with
           | H : N.eqb _ _ = true |- _ => apply N.eqb_eq in H
           | H : N.eqb _ _ = false |- _ => apply N.eqb_neq in H
           end; intros; subst; congruence.
Qed.

(* ================= K6: uninstall forgets, install after uninstall is a first installation ================= *)
Definition fresh_spend (l p : Z) : sdata := {| sd_limit := l; sd_period := p; sd_hist := []; sd_cached := 0 |}.

Theorem reinstall_is_fresh : forall c s au a r l p,
  has_auth au a = true -> 0 < l <= MAX128 -> 0 < p <= MAXU32 ->
  exists s1 s2,
    step c s (Uninstall PL au a r) = (s1, Ok RUnit, []) /\
    kget (a, r) (st_spend s1) = None /\
    step c s1 (LInstall au a r l p) = (s2, Ok RUnit, []) /\
    kget (a, r) (st_spend s2) = Some (fresh_spend l p) /\
    (forall k, k <> (a, r) -> kget k (st_spend s2) = kget k (st_spend s)) /\
    st_simple s2 = st_simple s /\ st_weighted s2 = st_weighted s /\ now s2 = now s.
Proof.
  intros c s au a r l p Ha Hl Hp.
  exists (set_spend s (kremove (a, r) (st_spend s))).
  eexists. split; [|split; [|split; [|split; [|split]]]].
  - unfold step. cbn [exec uninstall]. unfold l_uninstall. rewrite Ha. reflexivity.
  - cbn [set_spend st_spend]. apply kget_remove_eq.
  - unfold step. cbn [exec]. unfold l_install. rewrite Ha. cbn [guard bind].
    assert (E1 : in_i128 l && in_u32 p = true).
    { unfold in_i128, in_u32, MIN128, MAX128, MAXU32 in *. lia. }
    rewrite E1. cbn [guard bind].
    assert (E2 : (l <=? 0) || (p =? 0) = false) by lia. rewrite E2.
    cbn [set_spend st_spend]. rewrite kget_remove_eq. cbn [unit_of bind]. reflexivity.
  - cbn [set_spend st_spend]. apply kget_set_eq.
  - intros k Hk. cbn [set_spend st_spend]. rewrite kget_set_neq by exact Hk. apply kget_remove_neq. exact Hk.
  - cbn. auto.
Qed.

(* uninstall of any policy: the entry is gone, whatever it was (also when there was none: idempotent) *)
Theorem uninstall_forgets : forall c s p au a r,
  has_auth au a = true ->
  exists s1, step c s (Uninstall p au a r) = (s1, Ok RUnit, []) /\
    match p with
    | PS => kget (a, r) (st_simple s1) = None
    | PW => kget (a, r) (st_weighted s1) = None
    | PL => kget (a, r) (st_spend s1) = None
    end /\
    snd (fst (step c s1 (CanEnforce p a r CCreate []))) = Ok (RBool false) /\
    exists s2, step c s1 (Uninstall p au a r) = (s2, Ok RUnit, []).
Proof.
  intros c s p au a r Ha. destruct p.
  - exists (set_simple s (kremove (a, r) (st_simple s))). split; [|split; [|split]].
    + unfold step. cbn [exec uninstall]. unfold s_uninstall. rewrite Ha. reflexivity.
    + cbn [set_simple st_simple]. apply kget_remove_eq.
    + unfold step. cbn [exec can_enforce]. unfold s_can_enforce. cbn [set_simple st_simple]. rewrite kget_remove_eq. reflexivity.
    + eexists. unfold step. cbn [exec uninstall]. unfold s_uninstall. rewrite Ha. reflexivity.
  - exists (set_weighted s (kremove (a, r) (st_weighted s))). split; [|split; [|split]].
    + unfold step. cbn [exec uninstall]. unfold w_uninstall. rewrite Ha. reflexivity.
    + cbn [set_weighted st_weighted]. apply kget_remove_eq.
    + unfold step. cbn [exec can_enforce]. unfold w_can_enforce. cbn [set_weighted st_weighted]. rewrite kget_remove_eq. reflexivity.
    + eexists. unfold step. cbn [exec uninstall]. unfold w_uninstall. rewrite Ha. reflexivity.
  - exists (set_spend s (kremove (a, r) (st_spend s))). split; [|split; [|split]].
    + unfold step. cbn [exec uninstall]. unfold l_uninstall. rewrite Ha. reflexivity.
    + cbn [set_spend st_spend]. apply kget_remove_eq.
    + reflexivity.
    + eexists. unfold step. cbn [exec uninstall]. unfold l_uninstall. rewrite Ha. reflexivity.
Qed.

(* the sibling path: set_threshold needs no installation and creates the entry; install then refuses *)
Theorem set_threshold_then_install_refused : forall c s au a r rs t s1 o evs,
  step c s (SSetThreshold au a r rs t) = (s1, Ok o, evs) ->
  kget (a, r) (st_simple s1) = Some t /\
  forall au' rs' t', snd (fst (step c s1 (SInstall au' a r rs' t'))) = Fail.
Proof.
  intros c s au a r rs t s1 o evs H. apply step_ok_exec in H. cbn [exec] in H.
  unfold unit_of in H. destruct (s_set_threshold s au a r rs t) as [s'|] eqn:E; cbn [bind] in H; [|discriminate].
  inversion H; subst. apply s_set_threshold_ok in E as (_ & _ & _ & _ & ->).
  split.
  - cbn [set_simple st_simple]. apply kget_set_eq.
  - intros au' rs' t'. unfold step. cbn [exec]. unfold s_install.
    destruct (has_auth au' a); cbn [guard bind]; [|reflexivity].
    destruct (in_u32 t'); cbn [guard bind]; [|reflexivity].
    cbn [set_simple st_simple]. rewrite kget_set_eq. reflexivity.
Qed.

(* ================= K5: a value rewritten by itself changes no getter ================= *)
Lemma kget_set_same {V} k k' (v : V) m : kget k m = Some v -> kget k' (kset k v m) = kget k' m.
Proof.
  intros H. destruct (key_eqb k' k) eqn:E.
  - apply key_eqb_eq in E. subst. rewrite kget_set_eq. symmetry. exact H.
  - apply key_eqb_neq in E. apply kget_set_neq. exact E.
Qed.

Lemma observe_ext u s s' evs :
  (forall k, kget k (st_simple s') = kget k (st_simple s)) ->
  (forall k, option_map (obs_w u) (kget k (st_weighted s')) = option_map (obs_w u) (kget k (st_weighted s))) ->
  (forall k, kget k (st_spend s') = kget k (st_spend s)) ->
  observe u s' evs = observe u s evs.
Proof.
  intros H1 H2 H3. unfold observe. f_equal; apply map_ext; intros k; auto. rewrite H3. reflexivity.
Qed.

Theorem same_value_rewrite_changes_nothing : forall c u s cl s' o evs,
  step c s cl = (s', Ok o, evs) ->
  match cl with
  | SSetThreshold _ a r _ t => kget (a, r) (st_simple s) = Some t
  | WSetThreshold _ a r t => option_map wd_thr (kget (a, r) (st_weighted s)) = Some t
  | WSetWeight _ a r sg w => match kget (a, r) (st_weighted s) with Some d => alist_get sg (wd_weights d) = Some w | None => False end
  | LSetLimit _ a r l => option_map sd_limit (kget (a, r) (st_spend s)) = Some l
  | _ => False
  end ->
  observe u s' [] = observe u s [] /\ evs = [] /\ now s' = now s.
Proof.
  intros c u s cl s' o evs H Hsame. apply step_ok_exec in H.
  destruct cl; try contradiction; cbn [exec] in H; unfold unit_of in H.
  - destruct (s_set_threshold s auths acct rid rsigners t) as [s1|] eqn:E; cbn [bind] in H; [|discriminate].
    inversion H; subst. apply s_set_threshold_ok in E as (_ & _ & _ & _ & ->).
    split; [|split; reflexivity]. apply observe_ext; cbn [set_simple st_simple st_weighted st_spend]; auto.
    intros k. apply kget_set_same. exact Hsame.
  - destruct (w_set_threshold s auths acct rid t) as [s1|] eqn:E; cbn [bind] in H; [|discriminate].
    inversion H; subst. unfold w_set_threshold in E.
    destruct (kget (acct, rid) (st_weighted s)) as [d|] eqn:Ed; [|cbn in Hsame; discriminate].
    cbn in Hsame. inversion Hsame; subst.
    destruct (guard (has_auth auths acct)); cbn [bind] in E; [|discriminate].
    destruct (guard (in_u32 (wd_thr d))); cbn [bind] in E; [|discriminate].
    destruct (wd_thr d =? 0); [discriminate|]. cbn [of_option bind] in E.
    destruct (total_weight (wd_weights d)) as [tot|]; cbn [of_option bind] in E; [|discriminate].
    destruct (tot <? wd_thr d); [discriminate|]. inversion E.
    split; [|split; reflexivity].
    apply observe_ext; cbn [set_weighted st_simple st_weighted st_spend]; auto.
    intros k. destruct (key_eqb k (acct, rid)) eqn:Ek.
    + apply key_eqb_eq in Ek. subst k. rewrite kget_set_eq, Ed. destruct d; reflexivity.
    + apply key_eqb_neq in Ek. rewrite kget_set_neq by exact Ek. reflexivity.
  - destruct (w_set_weight s auths acct rid sg w) as [s1|] eqn:E; cbn [bind] in H; [|discriminate].
    inversion H; subst. unfold w_set_weight in E.
    destruct (kget (acct, rid) (st_weighted s)) as [d|] eqn:Ed; [|contradiction].
    destruct (guard (has_auth auths acct)); cbn [bind] in E; [|discriminate].
    destruct (guard (in_u32 w)); cbn [bind] in E; [|discriminate].
    cbn [of_option bind] in E.
    destruct (total_weight (alist_set sg w (wd_weights d))) as [tot|]; cbn [of_option bind] in E; [|discriminate].
    destruct (tot <? wd_thr d); [discriminate|]. inversion E.
    split; [|split; reflexivity].
    apply observe_ext; cbn [set_weighted st_simple st_weighted st_spend]; auto.
    intros k. destruct (key_eqb k (acct, rid)) eqn:Ek.
    + apply key_eqb_eq in Ek. subst k. rewrite kget_set_eq, Ed. cbn [option_map]. f_equal.
      unfold obs_w. cbn [wd_thr wd_weights]. f_equal. apply map_ext. intros x.
      destruct (N.eqb x sg) eqn:Ex.
      * apply N.eqb_eq in Ex. subst x. rewrite alist_get_set_eq. symmetry. exact Hsame.
      * apply N.eqb_neq in Ex. apply alist_get_set_neq. exact Ex.
    + apply key_eqb_neq in Ek. rewrite kget_set_neq by exact Ek. reflexivity.
  - destruct (l_set_limit s auths acct rid limit) as [s1|] eqn:E; cbn [bind] in H; [|discriminate].
    inversion H; subst. unfold l_set_limit in E.
    destruct (kget (acct, rid) (st_spend s)) as [d|] eqn:Ed; [|cbn in Hsame; discriminate].
    cbn in Hsame. inversion Hsame; subst.
    destruct (guard (has_auth auths acct)); cbn [bind] in E; [|discriminate].
    destruct (guard (in_i128 (sd_limit d))); cbn [bind] in E; [|discriminate].
    destruct (sd_limit d <=? 0); [discriminate|]. cbn [of_option bind] in E. inversion E.
    split; [|split; reflexivity].
    apply observe_ext; cbn [set_spend st_simple st_weighted st_spend]; auto.
    intros k. destruct (key_eqb k (acct, rid)) eqn:Ek.
    + apply key_eqb_eq in Ek. subst k. rewrite kget_set_eq, Ed. destruct d; reflexivity.
    + apply key_eqb_neq in Ek. rewrite kget_set_neq by exact Ek. reflexivity.
Qed.

(* the run-level and observation-level forms of the renaming theorem, packaged *)
Theorem no_special_address_run : forall (f : addr -> addr), (forall a b, f a = f b -> a = b) ->
  forall c cs s (u : universe) evs,
  run c (rstate f s) (map (rcall f) cs) = rstate f (run c s cs) /\
  observe {| u_keys := map (rk f) (u_keys u); u_sgs := u_sgs u |} (rstate f s) (map (revent f) evs) =
    let o := observe u s evs in {| o_s := o_s o; o_w := o_w o; o_l := o_l o; o_ev := map (revent f) (o_ev o) |}.
Proof. intros f Hf c cs s u evs. split; [apply run_rename; exact Hf|apply observe_rename; exact Hf]. Qed.
