(* C19: over every history, an account's fee-token balance can only go down
   (a) in a successful forward that names it as the user and carries an authorisation entry signed by it
       over the exact tuple - by exactly the stated fee (fee <= the authorised maximum) unless the
       target of that very call is a fee token (then also by what the signed target call moves), or
   (b) as the [from] of the token function that a forward with a fee token as target makes the
       forwarder call - a call whose exact contract, function and arguments the user of that forward
       signed, or
   (c) for the permissioned forwarder's own balance, by a manager's sweep. *)
From SC Require Import Lib.Prelude Lib.Int Lib.Host Model.FeeForwarder Proofs.FeeForwarder
  Run.C19 Proofs.FeeForwarderAllow Proofs.FeeForwarderFwd Proofs.C19Monitor Proofs.C19Final.

Lemma debit_only_by_authorised_forward c cs cl st' ret t h :
  1 <= min_temp_ttl (c_host c) ->
  wf_call c cl = true ->
  let st := run c cs in
  step_ok c st cl = Ok (st', ret) ->
  balance (get_tok st' t) h < balance (get_tok st t) h ->
  (exists k fee max exp target fn args relayer au,
     cl = Forward k t fee max exp target fn args h relayer au /\
     0 < fee <= max /\
     (memb target (c_tokens c) = false -> balance (get_tok st' t) h = balance (get_tok st t) h - fee) /\
     exists e, In e au /\ en_who e = h /\
       en_root e = {| f_contract := fwd_addr c k; f_name := F_FORWARD;
                      f_args := [VA t; VI max; VI exp; VA target; VS fn; VL args] |})
  \/ (exists k tok fee max exp fn args user relayer au to amt sp,
        cl = Forward k tok fee max exp t fn args user relayer au /\
        tgt_moves c t fn args = Some (h, to, amt, sp) /\ 0 < amt /\
        exists e, In e au /\ en_who e = user /\
          en_root e = {| f_contract := fwd_addr c k; f_name := F_FORWARD;
                         f_args := [VA tok; VI max; VI exp; VA t; VS fn; VL args] |})
  \/ (exists recipient operator au,
        cl = Sweep t recipient operator au /\ h = c_fp c /\ In operator (c_managers c)).
Proof.
  intros Hm Hwf st H Hlt.
  destruct cl as [n|tok to amt|tok owner spender amt exp au|k tok fee max exp target fn args user relayer au
                 |allowed tok operator au|tok recipient operator au].
  - (* Advance *) exfalso. cbn [step_ok] in H. destruct (n <? 0); [discriminate|].
    inversion H; subst st'. unfold get_tok in Hlt. cbn [toks] in Hlt. lia.
  - (* Mint *) exfalso. cbn [step_ok] in H.
    destruct (memb tok (c_tokens c)); cbn [guard bind] in H; [|discriminate].
    destruct (mint (get_tok st tok) to amt) as [t'|] eqn:Em; cbn [bind] in H; [|discriminate].
    inversion H; subst st'. destruct (mint_spec _ _ _ _ Em) as [Ha [_ [_ Hb]]].
    rewrite get_tok_with in Hlt. destruct (N.eqb t tok) eqn:E; cbv iota in Hlt; [|lia].
    apply N.eqb_eq in E. subst t. rewrite Hb in Hlt. destruct (N.eqb h to); cbv iota in Hlt; lia.
  - (* Approve *) exfalso. cbn [step_ok] in H.
    destruct (memb tok (c_tokens c)); cbn [guard bind] in H; [|discriminate].
    destruct (require_auth false None owner _ _) as [ts1|]; cbn [bind] in H; [|discriminate].
    destruct (set_allowance _ _ _ _ _ _ _) as [t'|] eqn:Es; cbn [bind] in H; [|discriminate].
    inversion H; subst st'. pose proof (set_allowance_spec _ _ _ _ _ _ _ _ Hm Es) as P.
    rewrite get_tok_with in Hlt. destruct (N.eqb t tok) eqn:E; cbv iota in Hlt; [|lia].
    apply N.eqb_eq in E. subst t.
    rewrite (balance_same_bal _ _ h (sa_bal _ _ _ _ _ _ _ _ P)) in Hlt. lia.
  - (* Forward *)
    destruct (forward_needs_auth _ _ _ _ _ _ _ _ _ _ _ _ _ _ _ H) as [[e [He1 [He2 He3]]] _].
    destruct (forward_fee_bounds _ _ _ _ _ _ _ _ _ _ _ _ _ _ _ H) as [Hf _].
    destruct (forward_exact_debit_credit c cs _ _ _ _ _ _ _ _ _ _ _ _ _ Hm Hwf H) as [Hb [_ [_ [_ [_ [_ [Hnt Hamt]]]]]]].
    fold st in Hb. specialize (Hb t h).
    destruct (N.eqb t tok && N.eqb h user) eqn:Eu.
    + left. apply andb_true_iff in Eu. destruct Eu as [E1 E2]. apply N.eqb_eq in E1. apply N.eqb_eq in E2. subst tok. subst h.
      exists k, fee, max, exp, target, fn, args, relayer, au. split; [reflexivity|]. split; [exact Hf|]. split.
      * intros Ht. rewrite (Hnt Ht) in Hb. cbn [tgt_delta] in Hb. rewrite !N.eqb_refl in Hb.
        rewrite Hb in Hlt.
        match type of Hlt with context [if ?b then fee else 0] => destruct b; cbv iota in *; lia end.
      * exists e. auto.
    + right. left.
      assert (Hfee : exists X, balance (get_tok st' t) h = balance (get_tok st t) h + X + tgt_delta (tgt_moves c target fn args) target t h /\ 0 <= X).
      { eexists. split; [exact Hb|]. destruct (N.eqb t tok) eqn:Et0; [|lia]. cbn [andb] in Eu. rewrite Eu.
        match goal with |- context [if ?b then fee else 0] => destruct b end; cbv iota; lia. }
      clear Hb. destruct Hfee as [X [Hb HX]].
      destruct (tgt_moves c target fn args) as [[[[from to] amt] sp]|] eqn:Emv; cbn [tgt_delta] in Hb; [|lia].
      pose proof (Hamt _ _ _ _ eq_refl) as Hge.
      unfold transfer_delta in Hb. destruct (N.eqb t target) eqn:Et; cbv iota in Hb; [|lia].
      apply N.eqb_eq in Et. subst target.
      destruct (N.eqb h from) eqn:Eh; cbv iota in Hb.
      2:{ destruct (N.eqb h to); cbv iota in Hb; lia. }
      apply N.eqb_eq in Eh. subst from.
      assert (0 < amt) by (destruct (N.eqb h to); cbv iota in Hb; lia).
      exists k, tok, fee, max, exp, fn, args, user, relayer, au, to, amt, sp.
      split; [reflexivity|]. split; [exact Emv|]. split; [assumption|]. exists e. auto.
  - (* SetTok *) exfalso. cbn [step_ok] in H.
    destruct (memb operator (c_managers c)); cbn [guard bind] in H; [|discriminate].
    destruct (require_auth false None operator _ _) as [ts1|]; cbn [bind] in H; [|discriminate].
    destruct (set_allowed _ _ _) as [a'|]; cbn [bind] in H; [|discriminate].
    inversion H; subst st'. unfold get_tok in Hlt. cbn [toks] in Hlt. lia.
  - (* Sweep *) right. right. cbn [step_ok] in H.
    destruct (memb operator (c_managers c)) eqn:Em; cbn [guard bind] in H; [|discriminate].
    destruct (require_auth false None operator _ _) as [ts1|]; cbn [bind] in H; [|discriminate].
    destruct (memb tok (c_tokens c)); cbn [guard bind] in H; [|discriminate].
    destruct (balance (get_tok st tok) (c_fp c) =? 0); [discriminate|].
    destruct (update_transfer _ _ _ _) as [t'|] eqn:Eu; cbn [bind] in H; [|discriminate].
    inversion H; subst st' ret. destruct (update_transfer_spec _ _ _ _ _ Eu) as [Ha [_ [_ [_ Hb]]]].
    rewrite get_tok_with in Hlt. destruct (N.eqb t tok) eqn:E; cbv iota in Hlt; [|lia].
    apply N.eqb_eq in E. subst tok. rewrite Hb in Hlt.
    exists recipient, operator, au. split; [reflexivity|]. split; [|apply memb_In; exact Em].
    destruct (N.eqb h (c_fp c)) eqn:Eh; cbv iota in Hlt; [apply N.eqb_eq; exact Eh|].
    destruct (N.eqb h recipient); cbv iota in Hlt; lia.
Qed.
