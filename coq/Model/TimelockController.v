(* C09 model: examples/timelock-controller/src/contract.rs on top of the timelock model
   (Model/Timelock.v) and a model of packages/access/src/access_control/storage.rs
   (+ role_transfer/storage.rs for the two-step admin transfer), transcribed guard by guard.

   Authorisation.  Every call carries what the caller attached:
     a_plain : the ordinary accounts whose authorisation for exactly this invocation is attached;
     a_self  : at most one authorisation entry for the CONTROLLER'S OWN address: the root
               invocation it claims to authorise, further (sub-)invocations of its tree, and
               the "signature" = Vec<OperationMeta>; the host calls
               __check_auth(payload, signature, [root; subs...]) when the contract calls
               self.require_auth() in an invocation that matches the root;
     a_exec  : (executor, operation) pairs: entries authorising
               require_auth_for_args(("execute_op", contract, fn, args, pred, salt)) inside __check_auth.
   [require_auth] below is the host's dispatch; __check_auth is the contract's code.

   The controller itself may hold the EXECUTOR role (granted through the timelock).  Then a
   descriptor may name the controller as executor: executor.require_auth_for_args(..) inside
   __check_auth is answered by the host's invoker-contract rule - the frame that invoked
   __check_auth is the controller's own entry point (auth.rs, maybe_check_invoker_contract_auth:
   call_stack[len-2] is the address) - so NO signature of anybody is needed.  Only when
   __check_auth is invoked directly by the test utility (no invoking frame, [direct] = true) the
   host would look for a further authorisation entry of the controller; the harness attaches
   none, which is a refusal. *)
From SC Require Import Lib.Prelude Lib.Int Lib.Host Model.Timelock.

Definition role := N.
Definition PROPOSER : role := 1%N.
Definition EXECUTOR : role := 2%N.
Definition CANCELLER : role := 3%N.

(* function symbols of the controller (ids fixed by the harness's symbol table) *)
Definition F_update_delay : N := 10%N.
Definition F_grant_role : N := 11%N.
Definition F_revoke_role : N := 12%N.
Definition F_set_role_admin : N := 13%N.
Definition F_transfer_admin_role : N := 14%N.
Definition F_renounce_admin : N := 15%N.
Definition F_accept_admin_transfer : N := 16%N.
Definition F_renounce_role : N := 17%N.
Definition F_schedule_op : N := 18%N.
Definition F_execute_op : N := 19%N.
Definition F_cancel_op : N := 20%N.

(* argument vectors of the controller's entry points; [aid] maps them to the abstract
   argument ids used in operation descriptors and contexts (table kept by the harness) *)
Inductive argv :=
| AV_u32 (d : Z)
| AV_role (account : addr) (r : role) (caller : addr)
| AV_role_admin (r ar : role)
| AV_transfer (new : addr) (live_until : Z)
| AV_nil
| AV_renounce (r : role) (caller : addr)
| AV_sched (o : op) (delay : Z) (proposer : addr)
| AV_exec (o : op) (executor : option addr)
| AV_cancel (i : id) (canceller : addr).

(* ---------------- access control ---------------- *)
Record ac := { admin : option addr;
               pending : option (tentry addr);          (* PendingAdmin, temporary storage *)
               members : list (role * list addr);        (* RoleAccounts / HasRole / RoleAccountsCount *)
               radmin : list (role * role);              (* RoleAdmin *)
               existing : list role }.                   (* ExistingRoles *)

Definition mem_list (s : ac) (r : role) : list addr :=
  match alist_get r (members s) with Some l => l | None => [] end.
Fixpoint index_of (a : addr) (l : list addr) (k : Z) : option Z :=
  match l with
  | [] => None
  | x :: r => if N.eqb a x then Some k else index_of a r (k + 1)
  end.
(* has_role -> Option<u32> (the index in the enumeration) *)
Definition has_role (s : ac) (a : addr) (r : role) : option Z := index_of a (mem_list s r) 0.
Definition holds (s : ac) (a : addr) (r : role) : bool :=
  match has_role s a r with Some _ => true | None => false end.
Definition role_count (s : ac) (r : role) : Z := Z.of_nat (length (mem_list s r)).
Definition role_admin (s : ac) (r : role) : option role := alist_get r (radmin s).

Definition set_members (s : ac) (r : role) (l : list addr) (ex : list role) : ac :=
  {| admin := admin s; pending := pending s; members := alist_set r l (members s);
     radmin := radmin s; existing := ex |}.

Fixpoint remove_first (r : role) (l : list role) : list role :=
  match l with
  | [] => []
  | x :: t => if N.eqb r x then t else x :: remove_first r t
  end.
Fixpoint set_nth (i : nat) (v : addr) (l : list addr) : list addr :=
  match l, i with
  | [], _ => []
  | _ :: t, O => v :: t
  | x :: t, S k => x :: set_nth k v t
  end.

(* grant_role_no_auth (add_to_role_enumeration) *)
Definition grant_no_auth (max_roles : Z) (s : ac) (a : addr) (r : role) : res ac :=
  if holds s a r then Ok s
  else
    let l := mem_list s r in
    do ex <- (match l with
              | [] => if Z.of_nat (length (existing s)) =? max_roles then Fail   (* MaxRolesExceeded *)
                      else Ok (existing s ++ [r])
              | _ => Ok (existing s)
              end);
    Ok (set_members s r (l ++ [a]) ex).

(* remove_from_role_enumeration + removal of HasRole *)
Definition remove_member (s : ac) (a : addr) (r : role) : res ac :=
  let l := mem_list s r in
  match l with
  | [] => Fail                                                     (* RoleIsEmpty *)
  | _ =>
      match has_role s a r with
      | None => Fail                                               (* RoleNotHeld *)
      | Some idx =>
          let last_index := Z.of_nat (length l) - 1 in
          let init := removelast l in
          let l' := if idx =? last_index then init else set_nth (Z.to_nat idx) (last l 0%N) init in
          let ex := if last_index =? 0 then remove_first r (existing s) else existing s in
          Ok (set_members s r l' ex)
      end
  end.

(* revoke_role_no_auth *)
Definition revoke_no_auth (s : ac) (a : addr) (r : role) : res ac :=
  if holds s a r then remove_member s a r else Fail.                (* RoleNotHeld *)

(* ensure_if_admin_or_admin_role *)
Definition is_admin_or_admin_role (s : ac) (r : role) (caller : addr) : bool :=
  (match admin s with Some ad => N.eqb caller ad | None => false end)
  || (match role_admin s r with Some ar => holds s caller ar | None => false end).

(* role_transfer::transfer_role on the PendingAdmin key *)
Definition transfer_role (c : hostcfg) (now : Z) (p : option (tentry addr)) (new : addr) (live_until : Z)
  : res (option (tentry addr)) :=
  if live_until =? 0 then
    match tget now p with
    | None => Fail                                                 (* NoPendingTransfer *)
    | Some pa => if N.eqb pa new then Ok None else Fail            (* InvalidPendingAccount *)
    end
  else if (max_live_until c now <? live_until) || (live_until <? now) then Fail
  else
    let live_for := live_until - now in
    textend c now (tset c now p new) live_for live_for.

(* ---------------- the controller ---------------- *)
Record cfg := { self : addr; hcfg : hostcfg; max_roles : Z }.

Record meta := Meta { m_pred : id; m_salt : N; m_exec : option addr }.
Arguments Meta _%N_scope _%N_scope _.
(* auth::Context: a contract invocation (contract, fn, args id) or anything else
   (create-contract host functions) *)
Inductive ctx := CtxC (contract : addr) (f : N) (a : N) | CtxOther.
Arguments CtxC (_ _ _)%N_scope.
Definition ctx_eqb (x y : ctx) : bool :=
  match x, y with
  | CtxC c f a, CtxC c' f' a' => N.eqb c c' && N.eqb f f' && N.eqb a a'
  | CtxOther, CtxOther => true
  | _, _ => false
  end.

Record selfentry := SE { se_root : ctx; se_subs : list ctx; se_metas : list meta }.
Record authz := AZ { a_plain : list addr; a_self : option selfentry; a_exec : list (addr * op) }.

Record state := { ctl : tl; acs : ac; cruns : list (N * Z) }.
Definition with_ctl (s : state) (t : tl) : state := {| ctl := t; acs := acs s; cruns := cruns s |}.
Definition with_acs (s : state) (a : ac) : state := {| ctl := ctl s; acs := a; cruns := cruns s |}.
Definition crun_count (s : state) (a : N) : Z :=
  match alist_get a (cruns s) with Some v => v | None => 0 end.

Inductive call :=
| ScheduleOp (o : op) (delay : Z) (proposer : addr) (au : authz)
| ExecuteOp (o : op) (executor : option addr) (tgt_ok : bool) (au : authz)
| CancelOp (i : id) (canceller : addr) (au : authz)
| UpdateDelay (d : Z) (au : authz)
| GrantRole (account : addr) (r : role) (caller : addr) (au : authz)
| RevokeRole (account : addr) (r : role) (caller : addr) (au : authz)
| RenounceRole (r : role) (caller : addr) (au : authz)
| SetRoleAdmin (r ar : role) (au : authz)
| TransferAdmin (new : addr) (live_until : Z) (au : authz)
| AcceptAdmin (au : authz)
| RenounceAdmin (au : authz)
| CheckAuth (metas : list meta) (ctxs : list ctx) (xa : list (addr * op))   (* __check_auth invoked directly *)
| Advance (n : Z).

Arguments ScheduleOp _ _%Z_scope _%N_scope _.
Arguments CancelOp _%N_scope _%N_scope _.
Arguments GrantRole _%N_scope _%N_scope _%N_scope _.
Arguments RevokeRole _%N_scope _%N_scope _%N_scope _.
Arguments RenounceRole _%N_scope _%N_scope _.
Arguments SetRoleAdmin _%N_scope _%N_scope _.
Arguments TransferAdmin _%N_scope _%Z_scope _.
Definition outcome := res (option id).

(* the function symbol and the argument vector of the invocation a call makes *)
Definition fn_of (c : call) : N :=
  match c with
  | ScheduleOp _ _ _ _ => F_schedule_op | ExecuteOp _ _ _ _ => F_execute_op | CancelOp _ _ _ => F_cancel_op
  | UpdateDelay _ _ => F_update_delay | GrantRole _ _ _ _ => F_grant_role | RevokeRole _ _ _ _ => F_revoke_role
  | RenounceRole _ _ _ => F_renounce_role | SetRoleAdmin _ _ _ => F_set_role_admin
  | TransferAdmin _ _ _ => F_transfer_admin_role | AcceptAdmin _ => F_accept_admin_transfer
  | RenounceAdmin _ => F_renounce_admin | CheckAuth _ _ _ => 0%N | Advance _ => 0%N
  end.
Definition argv_of (c : call) : argv :=
  match c with
  | ScheduleOp o d p _ => AV_sched o d p | ExecuteOp o x _ _ => AV_exec o x | CancelOp i k _ => AV_cancel i k
  | UpdateDelay d _ => AV_u32 d | GrantRole a r k _ | RevokeRole a r k _ => AV_role a r k
  | RenounceRole r k _ => AV_renounce r k | SetRoleAdmin r ar _ => AV_role_admin r ar
  | TransferAdmin n l _ => AV_transfer n l
  | AcceptAdmin _ | RenounceAdmin _ | CheckAuth _ _ _ | Advance _ => AV_nil
  end.
Definition authz_of (c : call) : authz :=
  match c with
  | ScheduleOp _ _ _ au | ExecuteOp _ _ _ au | CancelOp _ _ au | UpdateDelay _ au | GrantRole _ _ _ au
  | RevokeRole _ _ _ au | RenounceRole _ _ au | SetRoleAdmin _ _ au | TransferAdmin _ _ au
  | AcceptAdmin au | RenounceAdmin au => au
  | CheckAuth _ _ xa => AZ [] None xa
  | Advance _ => AZ [] None []
  end.

(* __check_auth invoked directly (test utility) rather than by the host inside an entry point *)
Definition is_direct (c : call) : bool := match c with CheckAuth _ _ _ => true | _ => false end.

Definition xa_has (xa : list (addr * op)) (x : addr) (o : op) : bool :=
  existsb (fun p => N.eqb (fst p) x && op_eqb (snd p) o) xa.

Section WithHash.
  Variable hash : op -> id.
  Variable aid : argv -> N.
  Variable cf : cfg.

  (* ---- __check_auth, one (context, meta) pair of the loop ---- *)
  Definition check_ctx (direct : bool) (xa : list (addr * op)) (s : state) (c : ctx) (m : meta) : res state :=
    match c with
    | CtxC contract f a =>
        if negb (N.eqb contract (self cf)) then Fail                       (* only self-administration *)
        else
          let o := Op contract f a (m_pred m) (m_salt m) in
          do _ <- (if role_count (acs s) EXECUTOR =? 0 then Ok tt           (* no executors: anyone *)
                   else match m_exec m with
                        | None => Fail                                     (* expect("Executor must be present") *)
                        | Some x =>
                            if negb (holds (acs s) x EXECUTOR) then Fail    (* ensure_role *)
                            else if N.eqb x (self cf)
                                 then (if direct then Fail else Ok tt)        (* invoker-contract authorisation *)
                            else guard (xa_has xa x o)                      (* executor.require_auth_for_args *)
                        end);
          do t <- set_execute_operation hash (ctl s) o;
          Ok (with_ctl s t)
    | CtxOther => Fail
    end.

  Fixpoint check_loop (direct : bool) (xa : list (addr * op)) (s : state) (l : list (ctx * meta)) : res state :=
    match l with
    | [] => Ok s
    | (c, m) :: r => do s' <- check_ctx direct xa s c m; check_loop direct xa s' r
    end.

  (* the code after fix fd487bd: one descriptor per authorised context *)
  Definition check_auth (direct : bool) (s : state) (metas : list meta) (ctxs : list ctx) (xa : list (addr * op)) : res state :=
    if negb (Nat.eqb (length metas) (length ctxs)) then Fail               (* TimelockError::Unauthorized *)
    else check_loop direct xa s (combine ctxs metas).

  (* the code before the fix: auth_contexts.iter().zip(context_meta) truncates silently *)
  Definition check_auth_prefix (direct : bool) (s : state) (metas : list meta) (ctxs : list ctx) (xa : list (addr * op)) : res state :=
    check_loop direct xa s (combine ctxs metas).

  (* the operation a (context, descriptor) pair of __check_auth stands for *)
  Definition pair_op (p : ctx * meta) : option op :=
    match fst p with
    | CtxC contract f a =>
        if N.eqb contract (self cf) then Some (Op contract f a (m_pred (snd p)) (m_salt (snd p))) else None
    | CtxOther => None
    end.
  Fixpoint ops_of (l : list (ctx * meta)) : list op :=
    match l with
    | [] => []
    | p :: r => match pair_op p with Some o => o :: ops_of r | None => ops_of r end
    end.
  (* set_execute_operation on a list of operations, in order *)
  Fixpoint exec_all (t : tl) (os : list op) : res tl :=
    match os with
    | [] => Ok t
    | o :: r => do t' <- set_execute_operation hash t o; exec_all t' r
    end.

  (* ---- the host's require_auth for an invocation whose own context is [root] ---- *)
  Definition require_auth (s : state) (au : authz) (root : ctx) (a : addr) : res state :=
    if N.eqb a (self cf) then
      match a_self au with
      | Some se =>
          if ctx_eqb (se_root se) root
          then check_auth false s (se_metas se) (se_root se :: se_subs se) (a_exec au)
          else Fail
      | None => Fail
      end
    else if has_auth (a_plain au) a then Ok s else Fail.

  Definition root_of (c : call) : ctx := CtxC (self cf) (fn_of c) (aid (argv_of c)).

  (* The address whose authorisation a SUCCESSFUL call must have had, read off from what is
     publicly visible: the admin before the call, the number of executors before it, the admin
     after it (for accept_admin_transfer: the new admin is the account that had to sign). *)
  Inductive demand := NoAuth | AuthOf (a : addr) | Violation.
  Definition auth_demand (adm_before : option addr) (nexec : Z) (adm_after : option addr) (c : call) : demand :=
    match c with
    | ScheduleOp _ _ p _ => AuthOf p
    | CancelOp _ k _ => AuthOf k
    | ExecuteOp _ x _ _ =>
        if nexec =? 0 then NoAuth
        else match x with Some e => AuthOf e | None => Violation end
    | UpdateDelay _ _ | SetRoleAdmin _ _ _ | TransferAdmin _ _ _ | RenounceAdmin _ =>
        match adm_before with Some ad => AuthOf ad | None => Violation end
    | GrantRole _ _ k _ | RevokeRole _ _ k _ | RenounceRole _ k _ => AuthOf k
    | AcceptAdmin _ => match adm_after with Some pa => AuthOf pa | None => Violation end
    | CheckAuth _ _ _ | Advance _ => NoAuth
    end.
  (* ... and the (context, descriptor) pairs that authorisation must have consumed;
     None = the authorisation attached to the call cannot justify its success *)
  Definition pairs_of (adm_before : option addr) (nexec : Z) (adm_after : option addr) (c : call)
    : option (list (ctx * meta)) :=
    match c with
    | CheckAuth metas ctxs _ =>
        if Nat.eqb (length metas) (length ctxs) then Some (combine ctxs metas) else None
    | _ =>
        match auth_demand adm_before nexec adm_after c with
        | Violation => None
        | NoAuth => Some []
        | AuthOf a =>
            if N.eqb a (self cf) then
              match a_self (authz_of c) with
              | Some se =>
                  let ctxs := se_root se :: se_subs se in
                  if ctx_eqb (se_root se) (root_of c) && Nat.eqb (length (se_metas se)) (length ctxs)
                  then Some (combine ctxs (se_metas se)) else None
              | None => None
              end
            else if has_auth (a_plain (authz_of c)) a then Some [] else None
        end
    end.

  (* the timelock-level calls a successful controller call amounts to: the operations its
     authorisation consumed (set_execute_operation each), then its own *)
  Definition own_event (c : call) : list Timelock.call :=
    match c with
    | ScheduleOp o d _ _ => [Schedule o d]
    | CancelOp i _ _ => [Cancel i]
    | ExecuteOp o _ t _ => [Execute o t]
    | UpdateDelay d _ => [SetMinDelay d]
    | Advance n => [Timelock.Advance n]
    | _ => []
    end.
  Definition tl_calls (c : call) (pairs : list (ctx * meta)) : list Timelock.call :=
    map SetExecute (ops_of pairs) ++ own_event c.

  (* enforce_admin_auth *)
  Definition enforce_admin_auth (s : state) (au : authz) (root : ctx) : res state :=
    match admin (acs s) with
    | None => Fail                                                          (* AdminNotSet *)
    | Some ad => require_auth s au root ad
    end.

  Definition now_of (s : state) : Z := now (ctl s).

  Definition step_ok (s : state) (c : call) : res (state * option id) :=
    let root := root_of c in
    match c with
    | ScheduleOp o d p au =>
        do _ <- guard (holds (acs s) p PROPOSER);                           (* only_role: ensure_role *)
        do s1 <- require_auth s au root p;                                  (*            require_auth *)
        do '(t, i) <- schedule_operation hash (ctl s1) o d;
        Ok (with_ctl s1 t, Some i)
    | ExecuteOp o x tgt_ok au =>
        do s1 <- (if role_count (acs s) EXECUTOR =? 0 then Ok s
                  else match x with
                       | None => Fail                                       (* expect("to be present") *)
                       | Some e => do _ <- guard (holds (acs s) e EXECUTOR); require_auth s au root e
                       end);
        do t <- set_execute_operation hash (ctl s1) o;
        (* invoke_contract(target, function, args): re-entry into the controller is refused *)
        if N.eqb (target o) (self cf) then Fail
        else if tgt_ok
             then Ok ({| ctl := t; acs := acs s1;
                         cruns := alist_set (args o) (crun_count s1 (args o) + 1) (cruns s1) |}, None)
             else Fail
    | CancelOp i k au =>
        do _ <- guard (holds (acs s) k CANCELLER);
        do s1 <- require_auth s au root k;
        do t <- cancel_operation (ctl s1) i;
        Ok (with_ctl s1 t, None)
    | UpdateDelay d au =>
        do s1 <- enforce_admin_auth s au root;                              (* only_admin *)
        do t <- set_min_delay (ctl s1) d;
        Ok (with_ctl s1 t, None)
    | GrantRole a r k au =>
        do s1 <- require_auth s au root k;
        do _ <- guard (is_admin_or_admin_role (acs s1) r k);
        do a' <- grant_no_auth (max_roles cf) (acs s1) a r;
        Ok (with_acs s1 a', None)
    | RevokeRole a r k au =>
        do s1 <- require_auth s au root k;
        do _ <- guard (is_admin_or_admin_role (acs s1) r k);
        do a' <- revoke_no_auth (acs s1) a r;
        Ok (with_acs s1 a', None)
    | RenounceRole r k au =>
        do s1 <- require_auth s au root k;
        do a' <- revoke_no_auth (acs s1) k r;
        Ok (with_acs s1 a', None)
    | SetRoleAdmin r ar au =>
        do s1 <- enforce_admin_auth s au root;
        let a := acs s1 in
        Ok (with_acs s1 {| admin := admin a; pending := pending a; members := members a;
                           radmin := alist_set r ar (radmin a); existing := existing a |}, None)
    | TransferAdmin new lu au =>
        do _ <- guard (in_u32 lu);
        do s1 <- enforce_admin_auth s au root;
        let a := acs s1 in
        do p <- transfer_role (hcfg cf) (now_of s1) (pending a) new lu;
        Ok (with_acs s1 {| admin := admin a; pending := p; members := members a;
                           radmin := radmin a; existing := existing a |}, None)
    | AcceptAdmin au =>
        match admin (acs s) with
        | None => Fail                                                      (* AdminNotSet *)
        | Some _ =>
            match tget (now_of s) (pending (acs s)) with
            | None => Fail                                                  (* NoPendingTransfer *)
            | Some pa =>
                do s1 <- require_auth s au root pa;
                let a := acs s1 in
                Ok (with_acs s1 {| admin := Some pa; pending := None; members := members a;
                                   radmin := radmin a; existing := existing a |}, None)
            end
        end
    | RenounceAdmin au =>
        do s1 <- enforce_admin_auth s au root;
        let a := acs s1 in
        match tget (now_of s1) (pending a) with
        | Some _ => Fail                                                    (* TransferInProgress *)
        | None => Ok (with_acs s1 {| admin := None; pending := pending a; members := members a;
                                     radmin := radmin a; existing := existing a |}, None)
        end
    | CheckAuth metas ctxs xa =>
        do s1 <- check_auth true s metas ctxs xa; Ok (s1, None)
    | Advance n =>
        if (0 <=? n) && in_u32 (now_of s + n)
        then Ok (with_ctl s {| now := now_of s + n; min_delay := min_delay (ctl s); marks := marks (ctl s) |}, None)
        else Fail
    end.

  (* "the call consumed a ready operation for exactly that call": the authorisation entry for
     the controller's own address names this very invocation as its root, its first descriptor
     (predecessor, salt, executor) together with the invocation's function and arguments is an
     operation that was Ready before the call and is Done after it, whose predecessor is zero or
     Done, and - when executors are configured - the descriptor names an account holding the
     executor role that signed for it (or the controller itself, if IT holds the executor role:
     the host then takes the controller's own running entry point as its authorisation) *)
  Definition consumes (s : state) (c : call) (s' : state) : Prop :=
    exists se m rest,
      a_self (authz_of c) = Some se /\ se_root se = root_of c /\ se_metas se = m :: rest /\
      length rest = length (se_subs se) /\
      let o := Op (self cf) (fn_of c) (aid (argv_of c)) (m_pred m) (m_salt m) in
      state_of (ctl s) (hash o) = Ready /\ state_of (ctl s') (hash o) = Done /\
      (m_pred m = 0%N \/ state_of (ctl s') (m_pred m) = Done) /\
      (role_count (acs s) EXECUTOR <> 0 ->
       exists x, m_exec m = Some x /\ holds (acs s) x EXECUTOR = true /\
                 (x = self cf \/ xa_has (a_exec (authz_of c)) x o = true)).

  Definition step (s : state) (c : call) : state * outcome :=
    match step_ok s c with
    | Ok (s', r) => (s', Ok r)
    | Fail => (s, Fail)
    end.

  Definition run (s : state) (cs : list call) : state := fold_left (fun s c => fst (step s c)) cs s.

  (* ---- __constructor(min_delay, proposers, executors, admin) ---- *)
  Fixpoint grant_all (a : ac) (l : list addr) (rs : list role) : res ac :=
    match l with
    | [] => Ok a
    | x :: t =>
        do a1 <- (fix go (a : ac) (rs : list role) : res ac :=
                    match rs with [] => Ok a | r :: rt => do a' <- grant_no_auth (max_roles cf) a x r; go a' rt end) a rs;
        grant_all a1 t rs
    end.

  Definition construct (n0 : Z) (min_delay0 : Z) (proposers executors : list addr) (adm : option addr) : res state :=
    let admin_addr := match adm with Some a => a | None => self cf end in
    let a0 := {| admin := Some admin_addr; pending := None; members := []; radmin := []; existing := [] |} in
    do a1 <- grant_all a0 proposers [PROPOSER; CANCELLER];
    do a2 <- grant_all a1 executors [EXECUTOR];
    do t <- set_min_delay (init_tl n0) min_delay0;
    Ok {| ctl := t; acs := a2; cruns := [] |}.
End WithHash.
