(* C14 - specification-level vocabulary: what the property talks about, written with plain
   (unbounded) sums and an explicit log of the enforcements, independently of how the code
   computes it.  Used by the theorems (about the model) and by the monitor (about the
   implementation's observations). *)
From SC Require Import Lib.Prelude Lib.Int Lib.Host Model.Policies.

(* the (smart account, rule id) a call addresses *)
Definition call_key (cl : call) : option key :=
  match cl with
  | Advance _ => None
  | CanEnforce _ a r _ _ | Enforce _ _ a r _ _ | Uninstall _ _ a r
  | SInstall _ a r _ _ | SSetThreshold _ a r _ _
  | WInstall _ a r _ _ | WSetThreshold _ a r _ | WSetWeight _ a r _ _
  | LInstall _ a r _ _ | LSetLimit _ a r _ => Some (a, r)
  end.

(* ---------- weighted threshold: plain sums ---------- *)
Definition weight_of (m : list (N * Z)) (sg : signer) : Z :=
  match alist_get sg m with Some w => w | None => 0 end.
(* sum of the configured weights of the given signers (a signer listed twice counts twice) *)
Definition wsum (m : list (N * Z)) (sgs : list signer) : Z :=
  fold_right (fun sg acc => weight_of m sg + acc) 0 sgs.
(* total configured weight *)
Definition wtotal (m : list (N * Z)) : Z := fold_right (fun kv acc => snd kv + acc) 0 m.

(* ---------- spending limit: the log of enforcements ---------- *)
Definition sum_entries (l : list entry) : Z := fold_right (fun e acc => fst e + acc) 0 l.
(* entries recorded strictly after ledger [cut] *)
Definition newer (cut : Z) (l : list entry) : list entry := filter (fun e => cut <? snd e) l.
(* amount authorised in the window of [period] ledgers ending at [nw]: n - period < n_i *)
Definition window_sum (nw period : Z) (log : list entry) : Z := sum_entries (newer (nw - period) log).

(* what the specification remembers about one installation of the spending policy *)
Record linst := {
  gi_limit : Z;                 (* limit in force *)
  gi_period : Z;
  gi_log : list entry;          (* (amount, ledger) of every enforced transfer since install, oldest first *)
  gi_cut : Z }.                 (* ledger - period of the last enforcement (entries <= it have left the window) *)

Definition ghost_l := list (key * linst).
(* the part of the log the specification expects to be stored *)
Definition stored (i : linst) : list entry := newer (gi_cut i) (gi_log i).

(* effect of enforcing the contexts of one batch at ledger [nw] on the log *)
Fixpoint log_batch (nw : Z) (ctxs : list context) (log : list entry) : list entry :=
  match ctxs with
  | [] => log
  | c :: r =>
      match transfer_amount c with
      | Some a => log_batch nw r (log ++ [(a, nw)])
      | None => log_batch nw r log
      end
  end.

(* every transfer of the batch, in order, keeps the amount authorised inside the window ending
   at the current ledger within the limit in force *)
Fixpoint l_batch_ok (nw lim per : Z) (ctxs : list context) (log : list entry) : bool :=
  match ctxs with
  | [] => true
  | c :: r =>
      match transfer_amount c with
      | Some a => let log' := log ++ [(a, nw)] in
                  (window_sum nw per log' <=? lim) && l_batch_ok nw lim per r log'
      | None => false                                  (* non-transfer / malformed context *)
      end
  end.

(* exact acceptance rule (for non-negative amounts): the transfer fits under the limit in force
   and the stored window has room for one more entry ([mh] = MAX_HISTORY_ENTRIES) *)
Definition nonneg_log (l : list entry) : bool := forallb (fun e => 0 <=? fst e) l.
Definition nonneg_ctxs (ctxs : list context) : bool :=
  forallb (fun c => match transfer_amount c with Some a => 0 <=? a | None => true end) ctxs.
Definition l_fits (mh nw lim per : Z) (log : list entry) (amt : Z) : bool :=
  (window_sum nw per log + amt <=? lim) && (len (newer (nw - per) log) <? mh).
Fixpoint l_batch_exact (mh nw lim per : Z) (ctxs : list context) (log : list entry) : bool :=
  match ctxs with
  | [] => true
  | c :: r =>
      match transfer_amount c with
      | Some a => l_fits mh nw lim per log a && l_batch_exact mh nw lim per r (log ++ [(a, nw)])
      | None => false
      end
  end.

(* the events of a successful batch: amount and total spent in the period, per transfer *)
Fixpoint l_events (nw per : Z) (acct : addr) (rid : N) (ctxs : list context) (log : list entry) : list event :=
  match ctxs with
  | [] => []
  | c :: r =>
      match transfer_amount c with
      | Some a => let log' := log ++ [(a, nw)] in
                  EvEnforced PL acct rid 0 a (window_sum nw per log') :: l_events nw per acct rid r log'
      | None => l_events nw per acct rid r log
      end
  end.

(* bookkeeping of successful spending-policy calls *)
Definition ghost_l_step (nw : Z) (g : ghost_l) (cl : call) (o : outcome) : ghost_l :=
  match o with
  | Fail => g
  | Ok _ =>
      match cl with
      | LInstall _ acct rid l p =>
          kset (acct, rid) {| gi_limit := l; gi_period := p; gi_log := []; gi_cut := nw - p |} g
      | LSetLimit _ acct rid l =>
          match kget (acct, rid) g with
          | Some i => kset (acct, rid) {| gi_limit := l; gi_period := gi_period i; gi_log := gi_log i; gi_cut := gi_cut i |} g
          | None => g
          end
      | Uninstall PL _ acct rid => kremove (acct, rid) g
      | Enforce PL _ acct rid ctxs _ =>
          match ctxs, kget (acct, rid) g with
          | _ :: _, Some i =>
              kset (acct, rid) {| gi_limit := gi_limit i; gi_period := gi_period i;
                                  gi_log := log_batch nw ctxs (gi_log i); gi_cut := nw - gi_period i |} g
          | _, _ => g
          end
      | _ => g
      end
  end.

(* the getter value the specification expects for an installation *)
Definition linst_obs (i : linst) : Z * Z * list entry * Z :=
  let h := newer (gi_cut i) (gi_log i) in (gi_limit i, gi_period i, h, sum_entries h).

(* bookkeeping of the configuration calls of the two threshold policies *)
Definition ghost_s_step (g : list (key * Z)) (cl : call) (o : outcome) : list (key * Z) :=
  match o with
  | Fail => g
  | Ok _ =>
      match cl with
      | SInstall _ acct rid _ t | SSetThreshold _ acct rid _ t => kset (acct, rid) t g
      | Uninstall PS _ acct rid => kremove (acct, rid) g
      | _ => g
      end
  end.
Definition ghost_w_step (g : list (key * wdata)) (cl : call) (o : outcome) : list (key * wdata) :=
  match o with
  | Fail => g
  | Ok _ =>
      match cl with
      | WInstall _ acct rid ws t => kset (acct, rid) {| wd_weights := wnorm ws; wd_thr := t |} g
      | WSetThreshold _ acct rid t =>
          match kget (acct, rid) g with
          | Some d => kset (acct, rid) {| wd_weights := wd_weights d; wd_thr := t |} g
          | None => g
          end
      | WSetWeight _ acct rid sg w =>
          match kget (acct, rid) g with
          | Some d => kset (acct, rid) {| wd_weights := alist_set sg w (wd_weights d); wd_thr := wd_thr d |} g
          | None => g
          end
      | Uninstall PW _ acct rid => kremove (acct, rid) g
      | _ => g
      end
  end.
