(* C20 / registry 5: identity registry storage
   (packages/tokens/src/rwa/identity_registry_storage/storage.rs).
   Three storage keys per account: Identity(account) -> identity address,
   IdentityProfile(account) -> (type, country data list), RecoveredTo(old) -> new. *)
From SC Require Import Lib.Prelude Model.SwapPop Model.RegCommon.
Local Open Scope nat_scope.

Record irs_cfg := { irs_max_countries : nat;     (* MAX_COUNTRY_ENTRIES *)
                    irs_max_meta : N;            (* MAX_METADATA_ENTRIES *)
                    irs_max_meta_len : N }.      (* MAX_METADATA_STRING_LEN *)

(* CountryData as built by the harness: Individual(Residence(code)) with metadata None or
   Some(map), the map printed in full as its (key, value) entries in map order (strings encoded
   injectively, see str_len) *)
Record cdata := { cd_code : N; cd_meta : option (list (N * N)) }.
Definition meta_eqb : list (N * N) -> list (N * N) -> bool := list_eqb (pair_eqb N.eqb N.eqb).
Lemma meta_eqb_spec : forall a b, meta_eqb a b = true <-> a = b.
Proof. apply list_eqb_spec. apply pair_eqb_spec; apply N.eqb_eq. Qed.
Definition cdata_eqb (a b : cdata) : bool :=
  N.eqb (cd_code a) (cd_code b) && option_eqb meta_eqb (cd_meta a) (cd_meta b).
Lemma cdata_eqb_spec a b : cdata_eqb a b = true <-> a = b.
Proof.
  destruct a as [c1 m1], b as [c2 m2]. unfold cdata_eqb. cbn.
  rewrite andb_true_iff, N.eqb_eq, (option_eqb_spec meta_eqb meta_eqb_spec).
  split; [intros [-> ->]; auto|intros H; inversion H; auto].
Qed.

(* validate_country_data: at most MAX_METADATA_ENTRIES entries, every value at most
   MAX_METADATA_STRING_LEN bytes *)
Definition cd_valid (c : irs_cfg) (d : cdata) : bool :=
  match cd_meta d with
  | None => true
  | Some m =>
      (N.of_nat (length m) <=? irs_max_meta c)%N
      && forallb (fun kv => (str_len (snd kv) <=? irs_max_meta_len c)%N) m
  end.

Notation profile := (N * list cdata)%type (only parsing).     (* identity type (0 individual, 1 organization), countries *)

Record irs_state := { irs_ident : list (addr * addr);          (* Identity(account) *)
                      irs_profile : list (addr * profile);     (* IdentityProfile(account) *)
                      irs_recov : list (addr * addr) }.        (* RecoveredTo(old) *)
Definition irs_init : irs_state := {| irs_ident := []; irs_profile := []; irs_recov := [] |}.

Definition id_get (m : list (addr * addr)) (a : addr) := aget N.eqb a m.
Definition id_set (m : list (addr * addr)) (a : addr) (v : addr) := aset N.eqb a v m.
Definition id_del (m : list (addr * addr)) (a : addr) := adel N.eqb a m.
Definition pf_get (m : list (addr * profile)) (a : addr) := aget N.eqb a m.
Definition pf_set (m : list (addr * profile)) (a : addr) (v : profile) := aset N.eqb a v m.
Definition pf_del (m : list (addr * profile)) (a : addr) := adel N.eqb a m.

(* ---- getters ---- *)
Definition irs_stored_identity (s : irs_state) (a : addr) : res addr := of_option (id_get (irs_ident s) a).
Definition irs_get_profile (s : irs_state) (a : addr) : res profile := of_option (pf_get (irs_profile s) a).
Definition irs_country (s : irs_state) (a : addr) (i : N) : res cdata :=
  do p <- irs_get_profile s a;
  if (N.of_nat (length (snd p)) <=? i)%N then Fail else of_option (nth_error (snd p) (N.to_nat i)).
Definition irs_countries (s : irs_state) (a : addr) : list cdata :=
  match pf_get (irs_profile s) a with Some p => snd p | None => [] end.
Definition irs_recovered_to (s : irs_state) (a : addr) : option addr := id_get (irs_recov s) a.

(* ---- mutators ---- *)
Definition irs_add_identity (c : irs_cfg) (s : irs_state) (acct ident : addr) (ty : N) (cds : list cdata)
  : res irs_state :=
  match irs_recovered_to s acct with
  | Some _ => Fail                                                    (* AccountRecovered *)
  | None =>
      match cds with
      | [] => Fail                                                    (* EmptyCountryList *)
      | _ =>
          if irs_max_countries c <? length cds then Fail              (* MaxCountryEntriesReached *)
          else if negb (forallb (cd_valid c) cds) then Fail
          else match id_get (irs_ident s) acct with
               | Some _ => Fail                                       (* IdentityOverwrite *)
               | None => Ok {| irs_ident := id_set (irs_ident s) acct ident;
                               irs_profile := pf_set (irs_profile s) acct (ty, cds);
                               irs_recov := irs_recov s |}
               end
      end
  end.

Definition irs_modify_identity (s : irs_state) (acct ident : addr) : res irs_state :=
  match id_get (irs_ident s) acct with
  | None => Fail                                                      (* IdentityNotFound *)
  | Some _ => Ok {| irs_ident := id_set (irs_ident s) acct ident;
                    irs_profile := irs_profile s; irs_recov := irs_recov s |}
  end.

Definition irs_remove_identity (s : irs_state) (acct : addr) : res irs_state :=
  match id_get (irs_ident s) acct with
  | None => Fail
  | Some _ =>
      match pf_get (irs_profile s) acct with
      | None => Fail                                                  (* .expect("identity profile must be already set") *)
      | Some _ => Ok {| irs_ident := id_del (irs_ident s) acct;
                        irs_profile := pf_del (irs_profile s) acct; irs_recov := irs_recov s |}
      end
  end.

Definition irs_recover (s : irs_state) (old new : addr) : res irs_state :=
  match irs_recovered_to s new with
  | Some _ => Fail                                                    (* AccountRecovered *)
  | None =>
      match id_get (irs_ident s) old with
      | None => Fail                                                  (* IdentityNotFound *)
      | Some ident =>
          match id_get (irs_ident s) new with
          | Some _ => Fail                                            (* IdentityOverwrite *)
          | None =>
              let ident' := id_del (id_set (irs_ident s) new ident) old in
              match pf_get (irs_profile s) old with
              | None => Fail                                          (* .expect(...) *)
              | Some p =>
                  Ok {| irs_ident := ident';
                        irs_profile := pf_del (pf_set (irs_profile s) new p) old;
                        irs_recov := id_set (irs_recov s) old new |}
              end
          end
      end
  end.

Definition irs_add_countries (c : irs_cfg) (s : irs_state) (acct : addr) (cds : list cdata) : res irs_state :=
  match cds with
  | [] => Fail
  | _ =>
      if negb (forallb (cd_valid c) cds) then Fail
      else match pf_get (irs_profile s) acct with
           | None => Fail                                             (* IdentityNotFound *)
           | Some (ty, old) =>
               let all := old ++ cds in
               if irs_max_countries c <? length all then Fail
               else Ok {| irs_ident := irs_ident s; irs_profile := pf_set (irs_profile s) acct (ty, all);
                          irs_recov := irs_recov s |}
           end
  end.

Definition irs_modify_country (c : irs_cfg) (s : irs_state) (acct : addr) (i : N) (d : cdata) : res irs_state :=
  if negb (cd_valid c d) then Fail
  else match pf_get (irs_profile s) acct with
       | None => Fail
       | Some (ty, old) =>
           if (N.of_nat (length old) <=? i)%N then Fail               (* CountryDataNotFound *)
           else Ok {| irs_ident := irs_ident s;
                      irs_profile := pf_set (irs_profile s) acct (ty, upd (N.to_nat i) d old);
                      irs_recov := irs_recov s |}
       end.

Definition irs_delete_country (s : irs_state) (acct : addr) (i : N) : res irs_state :=
  match pf_get (irs_profile s) acct with
  | None => Fail
  | Some (ty, old) =>
      if length old =? 1 then Fail                                    (* EmptyCountryList *)
      else if (N.of_nat (length old) <=? i)%N then Fail               (* CountryDataNotFound *)
      else Ok {| irs_ident := irs_ident s;
                 irs_profile := pf_set (irs_profile s) acct (ty, remove_at (N.to_nat i) old);
                 irs_recov := irs_recov s |}
  end.

(* ---- calls, queries, answers ---- *)
Inductive irs_call :=
| IrAdd (acct ident : addr) (ty : N) (cds : list cdata)
| IrModify (acct ident : addr)
| IrRemove (acct : addr)
| IrRecover (old new : addr)
| IrAddCountries (acct : addr) (cds : list cdata)
| IrModifyCountry (acct : addr) (i : N) (d : cdata)
| IrDeleteCountry (acct : addr) (i : N).

Definition irs_step (c : irs_cfg) (s : irs_state) (k : irs_call) : res (irs_state * unit) :=
  match k with
  | IrAdd a i ty cds => do s' <- irs_add_identity c s a i ty cds; Ok (s', tt)
  | IrModify a i => do s' <- irs_modify_identity s a i; Ok (s', tt)
  | IrRemove a => do s' <- irs_remove_identity s a; Ok (s', tt)
  | IrRecover o n => do s' <- irs_recover s o n; Ok (s', tt)
  | IrAddCountries a cds => do s' <- irs_add_countries c s a cds; Ok (s', tt)
  | IrModifyCountry a i d => do s' <- irs_modify_country c s a i d; Ok (s', tt)
  | IrDeleteCountry a i => do s' <- irs_delete_country s a i; Ok (s', tt)
  end.

Inductive irs_query :=
| IqIdentity (a : addr)
| IqProfile (a : addr)
| IqCountry (a : addr) (i : N)
| IqCountries (a : addr)
| IqRecovered (a : addr).

Inductive irs_ans :=
| IaAddr (r : res addr)
| IaProfile (r : res profile)
| IaCountry (r : res cdata)
| IaCountries (l : list cdata)
| IaOpt (o : option addr)
| IaTrap.

Definition irs_answer (s : irs_state) (q : irs_query) : irs_ans :=
  match q with
  | IqIdentity a => IaAddr (irs_stored_identity s a)
  | IqProfile a => IaProfile (irs_get_profile s a)
  | IqCountry a i => IaCountry (irs_country s a i)
  | IqCountries a => IaCountries (irs_countries s a)
  | IqRecovered a => IaOpt (irs_recovered_to s a)
  end.

Definition profile_eqb : profile -> profile -> bool := pair_eqb N.eqb (list_eqb cdata_eqb).
Definition irs_ans_eqb (a b : irs_ans) : bool :=
  match a, b with
  | IaAddr x, IaAddr y => res_eqb N.eqb x y
  | IaProfile x, IaProfile y => res_eqb profile_eqb x y
  | IaCountry x, IaCountry y => res_eqb cdata_eqb x y
  | IaCountries x, IaCountries y => list_eqb cdata_eqb x y
  | IaOpt x, IaOpt y => option_eqb N.eqb x y
  | IaTrap, IaTrap => true
  | _, _ => false
  end.
