(* C20 - generic list machinery for the registries: boolean set operations, Vec-style
   positional operations (first index, remove at index, set at index, swap-and-pop),
   association lists over an arbitrary key type, and bucketed (chunked) vectors.
   Everything here is definitions + lemmas, stdlib only. *)
From SC Require Import Lib.Prelude.
From Coq Require Import Permutation PeanoNat ZifyNat.

Set Implicit Arguments.
Local Open Scope nat_scope.

(* ------------------------------------------------------------------------- *)
(* 1. Lists over a type with a boolean equality                               *)
(* ------------------------------------------------------------------------- *)
Section Eqb.
  Variable A : Type.
  Variable eqb : A -> A -> bool.
  Hypothesis eqb_spec : forall x y, eqb x y = true <-> x = y.

  Lemma eqb_refl x : eqb x x = true.
  Proof. apply eqb_spec. reflexivity. Qed.
  Lemma eqb_neq x y : eqb x y = false <-> x <> y.
  Proof.
    split; intros H.
    - intros E. apply eqb_spec in E. congruence.
    - destruct (eqb x y) eqn:E; auto. apply eqb_spec in E. contradiction.
  Qed.
  Lemma eqb_dec (x y : A) : {x = y} + {x <> y}.
  Proof.
    destruct (eqb x y) eqn:E; [left; apply eqb_spec; auto | right; apply eqb_neq; auto].
  Qed.

  (* Vec::contains *)
  Fixpoint memb (x : A) (l : list A) : bool :=
    match l with [] => false | y :: r => eqb x y || memb x r end.
  Lemma memb_In x l : memb x l = true <-> In x l.
  Proof.
    induction l as [|y r IH]; cbn; [split; [discriminate|tauto]|].
    rewrite orb_true_iff, IH, eqb_spec. split; intros [H|H]; auto.
  Qed.
  Lemma memb_false x l : memb x l = false <-> ~ In x l.
  Proof. rewrite <- memb_In. destruct (memb x l); split; congruence. Qed.

  Fixpoint nodupb (l : list A) : bool :=
    match l with [] => true | x :: r => negb (memb x r) && nodupb r end.
  Lemma nodupb_NoDup l : nodupb l = true <-> NoDup l.
  Proof.
    induction l as [|x r IH]; cbn; [split; auto using NoDup_nil|].
    rewrite andb_true_iff, negb_true_iff, memb_false, IH. split.
    - intros [H1 H2]. constructor; auto.
    - intros H. inversion H; auto.
  Qed.

  (* Vec::first_index_of / iter().position *)
  Fixpoint index_of (x : A) (l : list A) : option nat :=
    match l with
    | [] => None
    | y :: r => if eqb x y then Some 0 else option_map S (index_of x r)
    end.
  (* iter().rposition : last index *)
  Fixpoint rindex_of (x : A) (l : list A) : option nat :=
    match l with
    | [] => None
    | y :: r => match rindex_of x r with
                | Some i => Some (S i)
                | None => if eqb x y then Some 0 else None
                end
    end.

  Lemma index_of_None x l : index_of x l = None <-> ~ In x l.
  Proof.
    induction l as [|y r IH]; cbn; [tauto|].
    destruct (eqb x y) eqn:E.
    - apply eqb_spec in E. subst. split; [discriminate|intros H; exfalso; apply H; auto].
    - apply eqb_neq in E. destruct (index_of x r); cbn.
      + split; [discriminate|]. intros H. exfalso.
        assert (H0 : ~ In x r) by (intros H'; apply H; auto). apply IH in H0. discriminate.
      + split; auto. intros _ [H|H]; [congruence|]. apply (proj1 IH eq_refl) in H. auto.
  Qed.
  Lemma index_of_Some x l i : index_of x l = Some i -> nth_error l i = Some x /\ i < length l.
  Proof.
    revert i. induction l as [|y r IH]; cbn; [discriminate|]. intros i.
    destruct (eqb x y) eqn:E.
    - apply eqb_spec in E. subst. intros H. inversion H. cbn. split; auto. lia.
    - destruct (index_of x r) as [j|]; cbn; [|discriminate]. intros H. inversion H. subst.
      destruct (IH j eq_refl). cbn. split; auto. lia.
  Qed.
  Lemma index_of_In x l : In x l -> exists i, index_of x l = Some i.
  Proof.
    intros H. destruct (index_of x l) eqn:E; eauto. apply index_of_None in E. contradiction.
  Qed.
  Lemma index_of_memb x l : memb x l = match index_of x l with Some _ => true | None => false end.
  Proof.
    destruct (index_of x l) eqn:E.
    - apply memb_In. apply index_of_Some in E. destruct E as [E _]. eapply nth_error_In; eauto.
    - apply memb_false. apply index_of_None. auto.
  Qed.
  Lemma index_of_first x l i j : index_of x l = Some i -> j < i -> nth_error l j <> Some x.
  Proof.
    revert i j. induction l as [|y r IH]; cbn; [discriminate|]. intros i j.
    destruct (eqb x y) eqn:E.
    - intros H. inversion H. lia.
    - apply eqb_neq in E. destruct (index_of x r) as [k|]; cbn; [|discriminate].
      intros H. inversion H. subst. destruct j; cbn.
      + intros _ H'. congruence.
      + intros Hj. apply (IH k); auto. lia.
  Qed.
  Lemma index_of_app x l m :
    index_of x (l ++ m) =
      match index_of x l with
      | Some i => Some i
      | None => option_map (fun j => length l + j) (index_of x m)
      end.
  Proof.
    induction l as [|y r IH]; cbn.
    - destruct (index_of x m); reflexivity.
    - destruct (eqb x y); auto. rewrite IH. destruct (index_of x r); cbn; auto.
      destruct (index_of x m); reflexivity.
  Qed.
  Lemma NoDup_nth_error_inj (l : list A) i j x :
    NoDup l -> nth_error l i = Some x -> nth_error l j = Some x -> i = j.
  Proof.
    intros Hn Hi Hj. assert (i < length l) by (apply nth_error_Some; congruence).
    apply (proj1 (NoDup_nth_error l) Hn i j); auto. congruence.
  Qed.
  Lemma index_of_nth_NoDup x l i : NoDup l -> nth_error l i = Some x -> index_of x l = Some i.
  Proof.
    intros Hn Hi. destruct (index_of_In x l) as [j Hj]; [eapply nth_error_In; eauto|].
    rewrite Hj. f_equal. apply index_of_Some in Hj. destruct Hj as [Hj _].
    eapply NoDup_nth_error_inj; eauto.
  Qed.
  Lemma rindex_of_None x l : rindex_of x l = None <-> ~ In x l.
  Proof.
    induction l as [|y r IH]; cbn; [tauto|].
    destruct (rindex_of x r) eqn:R.
    - split; [discriminate|]. intros H. exfalso. apply H. right.
      destruct (in_dec eqb_dec x r); auto. apply IH in n0. discriminate.
    - destruct (eqb x y) eqn:E.
      + apply eqb_spec in E. subst. split; [discriminate|]. intros H. exfalso. apply H. auto.
      + apply eqb_neq in E. split; auto. intros _ [H|H]; [congruence|]. apply IH in H; auto.
  Qed.
  Lemma rindex_of_Some x l i : rindex_of x l = Some i -> nth_error l i = Some x.
  Proof.
    revert i. induction l as [|y r IH]; cbn; [discriminate|]. intros i.
    destruct (rindex_of x r) as [j|].
    - intros H. inversion H. subst. cbn. auto.
    - destruct (eqb x y) eqn:E; [|discriminate]. apply eqb_spec in E. subst.
      intros H. inversion H. reflexivity.
  Qed.
  Lemma rindex_of_NoDup x l : NoDup l -> rindex_of x l = index_of x l.
  Proof.
    intros Hn. destruct (rindex_of x l) as [i|] eqn:R.
    - symmetry. apply index_of_nth_NoDup; auto. apply rindex_of_Some; auto.
    - symmetry. apply index_of_None. apply rindex_of_None. auto.
  Qed.

  (* remove every occurrence (on a duplicate-free list: the one occurrence) *)
  Fixpoint rem (x : A) (l : list A) : list A :=
    match l with
    | [] => []
    | y :: r => if eqb x y then rem x r else y :: rem x r
    end.
  Lemma rem_In x y l : In y (rem x l) <-> In y l /\ y <> x.
  Proof.
    induction l as [|z r IH]; cbn; [tauto|].
    destruct (eqb x z) eqn:E.
    - apply eqb_spec in E. subst z. rewrite IH. split; [tauto|]. intros [[H|H] H']; [congruence|tauto].
    - apply eqb_neq in E. cbn. rewrite IH. split; [intros [H|H]; [subst; split; auto|tauto]|tauto].
  Qed.
  Lemma rem_notin x l : ~ In x l -> rem x l = l.
  Proof.
    induction l as [|y r IH]; cbn; auto. intros H.
    destruct (eqb x y) eqn:E.
    - apply eqb_spec in E. subst. exfalso. apply H. auto.
    - f_equal. apply IH. intros H'. apply H. auto.
  Qed.
  Lemma rem_NoDup x l : NoDup l -> NoDup (rem x l).
  Proof.
    induction 1 as [|y r Hy Hn IH]; cbn; [constructor|].
    destruct (eqb x y); auto. constructor; auto. rewrite rem_In. tauto.
  Qed.
  Lemma rem_length x l : NoDup l -> In x l -> S (length (rem x l)) = length l.
  Proof.
    induction l as [|y r IH]; cbn; [tauto|]. intros Hn Hi. inversion Hn; subst.
    destruct (eqb x y) eqn:E; cbn.
    - apply eqb_spec in E. subst. rewrite rem_notin; auto.
    - apply eqb_neq in E. destruct Hi as [Hi|Hi]; [congruence|]. rewrite IH; auto.
  Qed.
  Lemma rem_app x l m : rem x (l ++ m) = rem x l ++ rem x m.
  Proof.
    induction l as [|y r IH]; cbn; auto. destruct (eqb x y); cbn; congruence.
  Qed.
  Lemma rem_Permutation x l m : Permutation l m -> Permutation (rem x l) (rem x m).
  Proof.
    induction 1; cbn; auto.
    - destruct (eqb x x0); auto.
    - destruct (eqb x x0), (eqb x y); auto. apply perm_swap.
    - eapply perm_trans; eauto.
  Qed.

  (* Vec::remove(i) (order preserving) *)
  Fixpoint remove_at (i : nat) (l : list A) {struct l} : list A :=
    match l with
    | [] => []
    | y :: r => match i with 0 => r | S i' => y :: remove_at i' r end
    end.
  Lemma remove_at_index_of x l i : NoDup l -> index_of x l = Some i -> remove_at i l = rem x l.
  Proof.
    revert i. induction l as [|y r IH]; cbn; [discriminate|]. intros i Hn. inversion Hn; subst.
    destruct (eqb x y) eqn:E.
    - apply eqb_spec in E. subst. intros H. inversion H. cbn. rewrite rem_notin; auto.
    - destruct (index_of x r) as [j|] eqn:J; cbn; [|discriminate]. intros H. inversion H. subst.
      cbn [remove_at]. f_equal. apply IH; auto.
  Qed.
  Lemma remove_at_length i (l : list A) : i < length l -> S (length (remove_at i l)) = length l.
  Proof.
    revert i. induction l as [|y r IH]; cbn; [lia|]. intros [|i] H; cbn; auto. rewrite IH; lia.
  Qed.

  (* boolean subset / set equality of duplicate-free lists *)
  Definition subsetb (l m : list A) : bool := forallb (fun x => memb x m) l.
  Lemma subsetb_spec l m : subsetb l m = true <-> (forall x, In x l -> In x m).
  Proof.
    unfold subsetb. rewrite forallb_forall. split; intros H x Hx.
    - apply memb_In. auto.
    - apply memb_In. auto.
  Qed.
  (* same elements, in any order and multiplicity *)
  Definition seteqb (l m : list A) : bool := subsetb l m && subsetb m l.
  Lemma seteqb_spec l m : seteqb l m = true <-> (forall x, In x l <-> In x m).
  Proof.
    unfold seteqb. rewrite andb_true_iff, !subsetb_spec. split.
    - intros [H1 H2] x. split; auto.
    - intros H. split; intros x; apply H.
  Qed.
  (* [l] is a duplicate-free enumeration of exactly the elements of [m] *)
  Definition enumb (l m : list A) : bool :=
    nodupb l && subsetb l m && subsetb m l.
  Lemma enumb_spec l m : enumb l m = true <-> NoDup l /\ (forall x, In x l <-> In x m).
  Proof.
    unfold enumb. rewrite !andb_true_iff, nodupb_NoDup, !subsetb_spec. split.
    - intros [[H1 H2] H3]. split; auto. intros x. split; auto.
    - intros [H1 H2]. repeat split; auto; intros x; apply H2.
  Qed.
  Lemma enumb_Permutation l m : NoDup m -> Permutation l m -> enumb l m = true.
  Proof.
    intros Hn Hp. apply enumb_spec. split.
    - eapply Permutation_NoDup; [apply Permutation_sym|]; eauto.
    - intros x. split; apply Permutation_in; auto using Permutation_sym.
  Qed.
  Lemma enumb_length l m : NoDup m -> enumb l m = true -> length l = length m.
  Proof.
    intros Hm H. apply enumb_spec in H. destruct H as [Hl H].
    apply Nat.le_antisymm; apply NoDup_incl_length; auto; intros x Hx; apply H; auto.
  Qed.

  (* list equality *)
  Fixpoint list_eqb (l m : list A) : bool :=
    match l, m with
    | [], [] => true
    | x :: l', y :: m' => eqb x y && list_eqb l' m'
    | _, _ => false
    end.
  Lemma list_eqb_spec l m : list_eqb l m = true <-> l = m.
  Proof.
    revert m. induction l as [|x l IH]; destruct m as [|y m]; cbn; try (split; congruence).
    rewrite andb_true_iff, eqb_spec, IH. split; [intros [-> ->]; auto|intros H; inversion H; auto].
  Qed.
End Eqb.

Definition option_eqb {A} (eqb : A -> A -> bool) (a b : option A) : bool :=
  match a, b with Some x, Some y => eqb x y | None, None => true | _, _ => false end.
Lemma option_eqb_spec {A} (eqb : A -> A -> bool) :
  (forall x y, eqb x y = true <-> x = y) -> forall a b, option_eqb eqb a b = true <-> a = b.
Proof.
  intros H [x|] [y|]; cbn; try (split; congruence). rewrite H. split; congruence.
Qed.
Definition pair_eqb {A B} (ea : A -> A -> bool) (eb : B -> B -> bool) (a b : A * B) : bool :=
  ea (fst a) (fst b) && eb (snd a) (snd b).
Lemma pair_eqb_spec {A B} (ea : A -> A -> bool) (eb : B -> B -> bool) :
  (forall x y, ea x y = true <-> x = y) -> (forall x y, eb x y = true <-> x = y) ->
  forall a b, pair_eqb ea eb a b = true <-> a = b.
Proof.
  intros Ha Hb [a1 b1] [a2 b2]. unfold pair_eqb. cbn. rewrite andb_true_iff, Ha, Hb.
  split; [intros [-> ->]; auto|intros H; inversion H; auto].
Qed.
Lemma Neqb_spec : forall x y : N, N.eqb x y = true <-> x = y.
Proof. exact N.eqb_eq. Qed.
Lemma Nateqb_spec : forall x y : nat, Nat.eqb x y = true <-> x = y.
Proof. exact Nat.eqb_eq. Qed.
Lemma Booleqb_spec : forall x y : bool, Bool.eqb x y = true <-> x = y.
Proof. intros [] []; cbn; split; congruence. Qed.

(* ------------------------------------------------------------------------- *)
(* 2. Positional updates: Vec::set, pop_back, swap-and-pop                     *)
(* ------------------------------------------------------------------------- *)
Section Pos.
  Variable A : Type.

  (* Vec::set(i, x): the caller checks i < len (the host traps otherwise) *)
  Fixpoint upd (i : nat) (x : A) (l : list A) {struct l} : list A :=
    match l with
    | [] => []
    | y :: r => match i with 0 => x :: r | S i' => y :: upd i' x r end
    end.
  Lemma upd_length i x l : length (upd i x l) = length l.
  Proof. revert i. induction l as [|y r IH]; intros [|i]; cbn; auto. Qed.
  Lemma upd_nth_eq i x l : i < length l -> nth_error (upd i x l) i = Some x.
  Proof. revert i. induction l as [|y r IH]; intros [|i]; cbn; try lia; auto. intros. apply IH. lia. Qed.
  Lemma upd_nth_neq i j x l : i <> j -> nth_error (upd i x l) j = nth_error l j.
  Proof.
    revert i j. induction l as [|y r IH]; intros [|i] [|j]; cbn; auto; try congruence.
    all: intros; apply IH; congruence.
  Qed.
  Lemma upd_same i x l : nth_error l i = Some x -> upd i x l = l.
  Proof.
    revert i. induction l as [|y r IH]; intros [|i]; cbn; try discriminate.
    - congruence.
    - intros. f_equal. auto.
  Qed.
  Lemma upd_app_l i x l m : i < length l -> upd i x (l ++ m) = upd i x l ++ m.
  Proof.
    revert i. induction l as [|y r IH]; intros [|i]; cbn; try lia; auto.
    intros. f_equal. apply IH. lia.
  Qed.
  Lemma upd_app_r i x l m : length l <= i -> upd i x (l ++ m) = l ++ upd (i - length l) x m.
  Proof.
    revert i. induction l as [|y r IH]; intros i; cbn.
    - rewrite Nat.sub_0_r. auto.
    - destruct i; [lia|]. intros. cbn. f_equal. apply IH. lia.
  Qed.
  Lemma upd_firstn i x l n : n <= i -> firstn n (upd i x l) = firstn n l.
  Proof.
    revert i n. induction l as [|y r IH]; intros [|i] [|n]; cbn; auto; try lia.
    intros. f_equal. apply IH. lia.
  Qed.
  Lemma upd_skipn_ge i x l n : n <= i -> skipn n (upd i x l) = upd (i - n) x (skipn n l).
  Proof.
    revert i n. induction l as [|y r IH]; intros i n; cbn.
    - destruct n; cbn; auto.
    - destruct n; cbn; [rewrite Nat.sub_0_r; auto|]. destruct i; [lia|]. intros. cbn. apply IH. lia.
  Qed.
  Lemma upd_skipn_lt i x l n : i < n -> skipn n (upd i x l) = skipn n l.
  Proof.
    revert i n. induction l as [|y r IH]; intros i n; cbn.
    - destruct n; auto.
    - destruct n; [lia|]. destruct i; cbn; auto. intros. apply IH. lia.
  Qed.
  Lemma upd_firstn_lt i x l n : i < n -> firstn n (upd i x l) = upd i x (firstn n l).
  Proof.
    revert i n. induction l as [|y r IH]; intros i n; cbn.
    - destruct n; auto.
    - destruct n; [lia|]. destruct i; cbn; auto. intros. f_equal. apply IH. lia.
  Qed.

  Lemma removelast_length (l : list A) : length (removelast l) = length l - 1.
  Proof.
    induction l as [|y r IH]; cbn; auto. destruct r; cbn in *; auto. rewrite IH. lia.
  Qed.
  Lemma removelast_firstn_len (l : list A) : removelast l = firstn (length l - 1) l.
  Proof.
    induction l as [|y r IH]; cbn; auto. destruct r as [|z r]; cbn in *; auto.
    rewrite IH. rewrite Nat.sub_0_r. reflexivity.
  Qed.

  (* swap-and-pop: overwrite position i with the last element, then drop the last *)
  Definition swap_pop (i : nat) (l : list A) : list A :=
    match nth_error l (length l - 1) with
    | Some z => removelast (upd i z l)
    | None => l
    end.
  Lemma swap_pop_length i l : l <> [] -> length (swap_pop i l) = length l - 1.
  Proof.
    intros Hl. unfold swap_pop. destruct (nth_error l (length l - 1)) eqn:E.
    - rewrite removelast_length, upd_length. auto.
    - apply nth_error_None in E. destruct l; [congruence|cbn in *; lia].
  Qed.
  Lemma swap_pop_last l : l <> [] -> swap_pop (length l - 1) l = removelast l.
  Proof.
    intros Hl. unfold swap_pop. destruct (nth_error l (length l - 1)) eqn:E.
    - rewrite upd_same; auto.
    - apply nth_error_None in E. destruct l; [congruence|cbn in *; lia].
  Qed.
End Pos.

Lemma swap_pop_Permutation {A} (eqb : A -> A -> bool)
  (eqb_spec : forall x y, eqb x y = true <-> x = y) (l : list A) i x :
  NoDup l -> nth_error l i = Some x -> Permutation (swap_pop i l) (rem eqb x l).
Proof.
  intros Hn Hi.
  assert (Hlen : i < length l) by (apply nth_error_Some; congruence).
  destruct (exists_last (l := l)) as [l' [z El]]; [intros ->; cbn in *; lia|].
  subst l. unfold swap_pop. rewrite app_length. cbn [length]. replace (length l' + 1 - 1) with (length l') by lia.
  rewrite nth_error_app2 by lia. rewrite Nat.sub_diag. cbn [nth_error].
  apply NoDup_remove in Hn. rewrite app_nil_r in Hn. destruct Hn as [Hn Hz].
  rewrite app_length in Hlen. cbn in Hlen.
  destruct (Nat.eq_dec i (length l')) as [->|Hne].
  - rewrite nth_error_app2 in Hi by lia. rewrite Nat.sub_diag in Hi. cbn in Hi. inversion Hi. subst x.
    rewrite upd_app_r by lia. rewrite Nat.sub_diag. cbn [upd]. rewrite removelast_last.
    rewrite rem_app. cbn. rewrite (eqb_refl eqb eqb_spec). cbn. rewrite app_nil_r.
    rewrite rem_notin; auto.
  - assert (Hi' : i < length l') by lia.
    rewrite nth_error_app1 in Hi by lia.
    rewrite upd_app_l by lia. rewrite removelast_last.
    rewrite rem_app. cbn. assert (x <> z) by (intros ->; apply Hz; eapply nth_error_In; eauto).
    replace (eqb x z) with false by (symmetry; apply (eqb_neq eqb eqb_spec); auto). cbn.
    (* l' = a ++ x :: b *)
    destruct (nth_error_split l' i Hi) as [a [b [El Ha]]]. subst l' i.
    rewrite upd_app_r by lia. rewrite Nat.sub_diag. cbn [upd].
    rewrite rem_app. cbn. rewrite (eqb_refl eqb eqb_spec). cbn.
    apply NoDup_remove in Hn. destruct Hn as [Hn Hx].
    assert (Ra : rem eqb x a = a) by (apply rem_notin; auto; intros H'; apply Hx; apply in_or_app; auto).
    assert (Rb : rem eqb x b = b) by (apply rem_notin; auto; intros H'; apply Hx; apply in_or_app; auto).
    rewrite Ra, Rb.
    apply Permutation_trans with (z :: a ++ b).
    + apply Permutation_sym. apply Permutation_middle.
    + change (z :: a ++ b) with ([z] ++ (a ++ b)). apply Permutation_app_comm.
Qed.

Lemma swap_pop_NoDup {A} (eqb : A -> A -> bool)
  (eqb_spec : forall x y, eqb x y = true <-> x = y) (l : list A) i x :
  NoDup l -> nth_error l i = Some x -> NoDup (swap_pop i l).
Proof.
  intros Hn Hi. eapply Permutation_NoDup.
  - apply Permutation_sym. eapply swap_pop_Permutation; eauto.
  - apply rem_NoDup; auto.
Qed.

(* ------------------------------------------------------------------------- *)
(* 3. Association lists over a key type with boolean equality                  *)
(* ------------------------------------------------------------------------- *)
Section AList.
  Variables K V : Type.
  Variable eqb : K -> K -> bool.
  Hypothesis eqb_spec : forall x y, eqb x y = true <-> x = y.

  Fixpoint aget (k : K) (l : list (K * V)) : option V :=
    match l with
    | [] => None
    | (k', v) :: r => if eqb k k' then Some v else aget k r
    end.
  Fixpoint adel (k : K) (l : list (K * V)) : list (K * V) :=
    match l with
    | [] => []
    | (k', v) :: r => if eqb k k' then adel k r else (k', v) :: adel k r
    end.
  Definition aset (k : K) (v : V) (l : list (K * V)) : list (K * V) := (k, v) :: adel k l.
  Definition ahas (k : K) (l : list (K * V)) : bool :=
    match aget k l with Some _ => true | None => false end.

  Lemma aget_adel_eq k l : aget k (adel k l) = None.
  Proof.
    induction l as [|[k' v] r IH]; cbn; auto. destruct (eqb k k') eqn:E; auto. cbn. rewrite E. auto.
  Qed.
  Lemma aget_adel_neq k k' l : k <> k' -> aget k (adel k' l) = aget k l.
  Proof.
    intros Hn. induction l as [|[k2 v] r IH]; cbn; auto.
    destruct (eqb k' k2) eqn:E.
    - apply eqb_spec in E. subst. replace (eqb k k2) with false; auto.
      symmetry. apply (eqb_neq eqb eqb_spec). auto.
    - cbn. destruct (eqb k k2); auto.
  Qed.
  Lemma aget_aset_eq k v l : aget k (aset k v l) = Some v.
  Proof. unfold aset. cbn. rewrite (eqb_refl eqb eqb_spec). auto. Qed.
  Lemma aget_aset_neq k k' v l : k <> k' -> aget k (aset k' v l) = aget k l.
  Proof.
    intros Hn. unfold aset. cbn. replace (eqb k k') with false.
    - apply aget_adel_neq. auto.
    - symmetry. apply (eqb_neq eqb eqb_spec). auto.
  Qed.
  Lemma aget_aset k k' v l : aget k (aset k' v l) = if eqb k k' then Some v else aget k l.
  Proof.
    destruct (eqb k k') eqn:E.
    - apply eqb_spec in E. subst. apply aget_aset_eq.
    - apply aget_aset_neq. apply (eqb_neq eqb eqb_spec). auto.
  Qed.
  Lemma aget_adel k k' l : aget k (adel k' l) = if eqb k k' then None else aget k l.
  Proof.
    destruct (eqb k k') eqn:E.
    - apply eqb_spec in E. subst. apply aget_adel_eq.
    - apply aget_adel_neq. apply (eqb_neq eqb eqb_spec). auto.
  Qed.
End AList.

(* ------------------------------------------------------------------------- *)
(* 4. Bucketed vectors: a flat list stored as chunks of [n] elements            *)
(* ------------------------------------------------------------------------- *)
Section NthExt.
  Variable A : Type.
  Lemma list_ext (l m : list A) : (forall i, nth_error l i = nth_error m i) -> l = m.
  Proof.
    revert m. induction l as [|x l IH]; intros [|y m] H; auto.
    - specialize (H 0). discriminate.
    - specialize (H 0). discriminate.
    - pose proof (H 0) as H0. cbn in H0. inversion H0. subst. f_equal. apply IH.
      intros i. apply (H (S i)).
  Qed.
  Lemma nth_firstn (l : list A) n j : nth_error (firstn n l) j = if j <? n then nth_error l j else None.
  Proof.
    destruct (j <? n) eqn:E.
    - apply Nat.ltb_lt in E. revert n j E.
      induction l as [|x l IH]; intros [|n] [|j] E; cbn [firstn nth_error]; auto; try lia.
      apply IH. lia.
    - apply Nat.ltb_ge in E. apply nth_error_None. rewrite firstn_length. lia.
  Qed.
  Lemma nth_skipn (l : list A) n j : nth_error (skipn n l) j = nth_error l (n + j).
  Proof.
    revert l. induction n as [|n IH]; intros [|x l]; cbn; auto. destruct j; auto.
  Qed.
  Lemma nth_app (l m : list A) j :
    nth_error (l ++ m) j = if j <? length l then nth_error l j else nth_error m (j - length l).
  Proof.
    destruct (j <? length l) eqn:E.
    - apply Nat.ltb_lt in E. apply nth_error_app1. auto.
    - apply Nat.ltb_ge in E. apply nth_error_app2. auto.
  Qed.
  Lemma nth_upd (l : list A) i x j :
    nth_error (upd i x l) j = if (j =? i) && (i <? length l) then Some x else nth_error l j.
  Proof.
    destruct (j =? i) eqn:E; cbn [andb].
    - apply Nat.eqb_eq in E. subst. destruct (i <? length l) eqn:L.
      + apply Nat.ltb_lt in L. apply upd_nth_eq. auto.
      + apply Nat.ltb_ge in L. transitivity (@None A).
        * apply nth_error_None. rewrite upd_length. auto.
        * symmetry. apply nth_error_None. auto.
    - apply Nat.eqb_neq in E. apply upd_nth_neq. auto.
  Qed.
  Lemma nth_removelast (l : list A) j :
    nth_error (removelast l) j = if j <? length l - 1 then nth_error l j else None.
  Proof. rewrite removelast_firstn_len. apply nth_firstn. Qed.
  Lemma nth_error_ge (l : list A) j : length l <= j -> nth_error l j = None.
  Proof. apply nth_error_None. Qed.
End NthExt.

Section Chunks.
  Variable A : Type.
  Variable n : nat.          (* bucket size *)
  Hypothesis n_pos : 0 < n.

  Definition chunk (k : nat) (l : list A) : list A := firstn n (skipn (k * n) l).

  Lemma chunk_length k l : length (chunk k l) = Nat.min n (length l - k * n).
  Proof. unfold chunk. rewrite firstn_length, skipn_length. reflexivity. Qed.
  Lemma chunk_beyond k l : length l <= k * n -> chunk k l = [].
  Proof. intros H. unfold chunk. rewrite skipn_all2; auto. apply firstn_nil. Qed.
  Lemma nth_chunk k l j : nth_error (chunk k l) j = if j <? n then nth_error l (k * n + j) else None.
  Proof. unfold chunk. rewrite nth_firstn, nth_skipn. reflexivity. Qed.
  Lemma chunk_nth_divmod l i : nth_error (chunk (i / n) l) (i mod n) = nth_error l i.
  Proof.
    rewrite nth_chunk. replace (i mod n <? n) with true by (symmetry; apply Nat.ltb_lt; apply Nat.mod_upper_bound; lia).
    f_equal. pose proof (Nat.div_mod i n). nia.
  Qed.

  (* the concatenation of the first m chunks *)
  Lemma firstn_add (a b : nat) (l : list A) : firstn (a + b) l = firstn a l ++ firstn b (skipn a l).
  Proof.
    revert l. induction a as [|a IH]; intros l; [reflexivity|].
    destruct l as [|x l]; cbn [plus firstn skipn app].
    - rewrite firstn_nil. reflexivity.
    - f_equal. apply IH.
  Qed.
  Lemma concat_chunks m l : flat_map (fun k => chunk k l) (seq 0 m) = firstn (m * n) l.
  Proof.
    induction m as [|m IH]; [reflexivity|].
    rewrite seq_S, flat_map_app, IH. cbn [flat_map plus]. rewrite app_nil_r.
    replace (S m * n) with (m * n + n) by lia. rewrite firstn_add. reflexivity.
  Qed.
  Lemma concat_chunks_all m l : length l <= m * n -> flat_map (fun k => chunk k l) (seq 0 m) = l.
  Proof. intros H. rewrite concat_chunks. apply firstn_all2. auto. Qed.

  (* appending within / at the current bucket *)
  Lemma chunk_app_lt k l m : (k + 1) * n <= length l -> chunk k (l ++ m) = chunk k l.
  Proof.
    intros H. apply list_ext. intros j. rewrite !nth_chunk. destruct (j <? n) eqn:E; auto.
    apply Nat.ltb_lt in E. rewrite nth_app.
    replace (k * n + j <? length l) with true by (symmetry; apply Nat.ltb_lt; nia). reflexivity.
  Qed.
  Lemma chunk_app_cur k l m :
    k * n <= length l -> length l + length m <= (k + 1) * n -> chunk k (l ++ m) = chunk k l ++ m.
  Proof.
    intros H1 H2. apply list_ext. intros j. rewrite nth_app, !nth_chunk, chunk_length, nth_app.
    rewrite Nat.min_r by nia.
    destruct (j <? length l - k * n) eqn:E1.
    - apply Nat.ltb_lt in E1.
      replace (j <? n) with true by (symmetry; apply Nat.ltb_lt; nia).
      replace (k * n + j <? length l) with true by (symmetry; apply Nat.ltb_lt; nia). reflexivity.
    - apply Nat.ltb_ge in E1.
      replace (k * n + j <? length l) with false by (symmetry; apply Nat.ltb_ge; nia).
      replace (k * n + j - length l) with (j - (length l - k * n)) by nia.
      destruct (j <? n) eqn:E2; auto. apply Nat.ltb_ge in E2.
      symmetry. apply nth_error_ge. nia.
  Qed.

  (* Vec::set at flat index i touches bucket i / n at offset i mod n only *)
  Lemma chunk_upd k i x l :
    chunk k (upd i x l) = if k =? i / n then upd (i mod n) x (chunk k l) else chunk k l.
  Proof.
    pose proof (Nat.div_mod i n) as Hdm. pose proof (Nat.mod_upper_bound i n) as Hm.
    apply list_ext. intros j. rewrite nth_chunk, nth_upd.
    destruct (k =? i / n) eqn:Ek.
    - apply Nat.eqb_eq in Ek. rewrite nth_upd, nth_chunk, chunk_length.
      destruct (j <? n) eqn:Ej.
      + apply Nat.ltb_lt in Ej.
        replace (k * n + j =? i) with (j =? i mod n).
        * destruct (j =? i mod n) eqn:E1; cbn [andb]; auto.
          replace (i mod n <? Nat.min n (length l - k * n)) with (i <? length l); auto.
          destruct (i <? length l) eqn:E2; symmetry.
          -- apply Nat.ltb_lt in E2. apply Nat.ltb_lt. nia.
          -- apply Nat.ltb_ge in E2. apply Nat.ltb_ge. nia.
        * destruct (j =? i mod n) eqn:E1; symmetry.
          -- apply Nat.eqb_eq in E1. apply Nat.eqb_eq. nia.
          -- apply Nat.eqb_neq in E1. apply Nat.eqb_neq. nia.
      + apply Nat.ltb_ge in Ej.
        replace (j =? i mod n) with false by (symmetry; apply Nat.eqb_neq; lia). reflexivity.
    - apply Nat.eqb_neq in Ek. rewrite nth_chunk. destruct (j <? n) eqn:Ej; auto.
      apply Nat.ltb_lt in Ej.
      replace (k * n + j =? i) with false; auto.
      symmetry. apply Nat.eqb_neq. intros E. apply Ek. subst i.
      apply (Nat.div_unique (k * n + j) n k j); lia.
  Qed.

  (* pop_back touches the last bucket only *)
  Lemma chunk_removelast k l :
    l <> [] ->
    chunk k (removelast l) = if k =? (length l - 1) / n then removelast (chunk k l) else chunk k l.
  Proof.
    intros Hl. assert (Hlen : 0 < length l) by (destruct l; [congruence|cbn; lia]).
    set (p := length l - 1).
    pose proof (Nat.div_mod p n) as Hdm. pose proof (Nat.mod_upper_bound p n) as Hm.
    apply list_ext. intros j. rewrite nth_chunk, nth_removelast. fold p.
    destruct (k =? p / n) eqn:Ek.
    - apply Nat.eqb_eq in Ek. rewrite nth_removelast, nth_chunk, chunk_length.
      destruct (j <? n) eqn:Ej.
      + apply Nat.ltb_lt in Ej.
        replace (j <? Nat.min n (length l - k * n) - 1) with (k * n + j <? p); auto.
        destruct (k * n + j <? p) eqn:E; symmetry.
        * apply Nat.ltb_lt in E. apply Nat.ltb_lt. nia.
        * apply Nat.ltb_ge in E. apply Nat.ltb_ge. nia.
      + destruct (j <? Nat.min n (length l - k * n) - 1); reflexivity.
    - apply Nat.eqb_neq in Ek. rewrite nth_chunk. destruct (j <? n) eqn:Ej; auto.
      apply Nat.ltb_lt in Ej.
      destruct (k * n + j <? p) eqn:E; auto. apply Nat.ltb_ge in E.
      symmetry. apply nth_error_ge.
      assert (k * n + j <> p).
      { intros E'. apply Ek. apply (Nat.div_unique p n k j); lia. }
      lia.
  Qed.
End Chunks.

(* ------------------------------------------------------------------------- *)
(* 5. Bucket storage: a map bucket-index -> Vec, kept as the chunks of a flat list *)
(* ------------------------------------------------------------------------- *)
Section Buckets.
  Variable A : Type.
  Definition buckets := list (nat * list A).
  Definition bk_get (bk : buckets) (k : nat) : option (list A) := aget Nat.eqb k bk.
  (* get(..).unwrap_or_else(|| Vec::new(e)) *)
  Definition bk_get0 (bk : buckets) (k : nat) : list A :=
    match bk_get bk k with Some b => b | None => [] end.
  Definition bk_set (bk : buckets) (k : nat) (b : list A) : buckets := aset Nat.eqb k b bk.
  (* Vec::set traps when the offset is out of bounds *)
  Definition vec_set (i : nat) (x : A) (l : list A) : res (list A) :=
    if i <? length l then Ok (upd i x l) else Fail.

  Lemma bk_get_set bk k k' b : bk_get (bk_set bk k' b) k = if k =? k' then Some b else bk_get bk k.
  Proof. unfold bk_get, bk_set. apply aget_aset. exact Nat.eqb_eq. Qed.

  Variable n : nat.
  Hypothesis n_pos : 0 < n.

  (* the stored buckets are exactly the chunks of the flat list [l]; an absent bucket
     lies entirely beyond the end of [l] *)
  Definition chunk_inv (bk : buckets) (l : list A) : Prop :=
    forall k, match bk_get bk k with
              | Some b => b = chunk n k l
              | None => length l <= k * n
              end.

  Lemma chunk_inv_nil : chunk_inv [] [].
  Proof. intros k. cbn. lia. Qed.
  Lemma chunk_inv_get0 bk l k : chunk_inv bk l -> bk_get0 bk k = chunk n k l.
  Proof.
    intros H. specialize (H k). unfold bk_get0. destruct (bk_get bk k); auto.
    symmetry. apply chunk_beyond. auto.
  Qed.
  Lemma chunk_inv_get bk l k : chunk_inv bk l -> k * n < length l -> bk_get bk k = Some (chunk n k l).
  Proof.
    intros H Hk. specialize (H k). destruct (bk_get bk k); [subst; auto|lia].
  Qed.

  Lemma chunk_inv_app bk l m :
    chunk_inv bk l -> length l + length m <= (length l / n + 1) * n ->
    chunk_inv (bk_set bk (length l / n) (bk_get0 bk (length l / n) ++ m)) (l ++ m).
  Proof.
    intros H Hfit k. rewrite bk_get_set. rewrite (chunk_inv_get0 _ H).
    pose proof (Nat.div_mod (length l) n) as Hdm. pose proof (Nat.mod_upper_bound (length l) n) as Hm.
    destruct (k =? length l / n) eqn:Ek.
    - apply Nat.eqb_eq in Ek. subst k. symmetry. apply chunk_app_cur; auto. nia.
    - apply Nat.eqb_neq in Ek. specialize (H k). destruct (bk_get bk k) as [b|].
      + subst b. destruct (Nat.lt_ge_cases k (length l / n)) as [Hlt|Hge].
        * symmetry. apply chunk_app_lt; auto. nia.
        * rewrite !chunk_beyond; auto; try rewrite app_length; nia.
      + rewrite app_length.
        assert (length l / n < k).
        { destruct (Nat.lt_ge_cases (length l / n) k); auto. exfalso.
          assert (k < length l / n) by lia. nia. }
        nia.
  Qed.

  Lemma chunk_inv_upd bk l i x :
    chunk_inv bk l ->
    chunk_inv (bk_set bk (i / n) (upd (i mod n) x (bk_get0 bk (i / n)))) (upd i x l).
  Proof.
    intros H k. rewrite bk_get_set. rewrite (chunk_inv_get0 _ H). rewrite chunk_upd by auto.
    destruct (k =? i / n) eqn:Ek.
    - apply Nat.eqb_eq in Ek. subst k. reflexivity.
    - specialize (H k). destruct (bk_get bk k); auto. rewrite upd_length. auto.
  Qed.

  Lemma chunk_inv_pop bk l :
    chunk_inv bk l -> l <> [] ->
    chunk_inv (bk_set bk ((length l - 1) / n) (removelast (bk_get0 bk ((length l - 1) / n)))) (removelast l).
  Proof.
    intros H Hl k. rewrite bk_get_set. rewrite (chunk_inv_get0 _ H). rewrite chunk_removelast by auto.
    destruct (k =? (length l - 1) / n) eqn:Ek.
    - apply Nat.eqb_eq in Ek. subst k. reflexivity.
    - specialize (H k). destruct (bk_get bk k); auto. rewrite removelast_length. lia.
  Qed.

  (* the linked list / scans over the first m buckets *)
  Lemma chunk_inv_concat bk l m :
    chunk_inv bk l -> length l <= m * n -> flat_map (fun k => bk_get0 bk k) (seq 0 m) = l.
  Proof.
    intros H Hm. transitivity (flat_map (fun k => chunk n k l) (seq 0 m)).
    - apply flat_map_ext. intros k. apply chunk_inv_get0. auto.
    - apply concat_chunks_all; auto.
  Qed.
End Buckets.

(* strictly increasing lists of N: a linear-time sufficient test for duplicate-freeness,
   used by the harness fixtures that pre-load large registries *)
Fixpoint incrb (l : list N) : bool :=
  match l with
  | x :: ((y :: _) as r) => (x <? y)%N && incrb r
  | _ => true
  end.
Lemma incrb_lt x l : incrb (x :: l) = true -> forall y, In y l -> (x < y)%N.
Proof.
  revert x. induction l as [|z l IH]; intros x H y Hy; [destruct Hy|].
  cbn [incrb] in H. apply andb_prop in H. destruct H as [H1 H2]. apply N.ltb_lt in H1.
  destruct Hy as [->|Hy]; auto. specialize (IH z H2 y Hy). lia.
Qed.
Lemma incrb_tail x l : incrb (x :: l) = true -> incrb l = true.
Proof. destruct l; auto. cbn [incrb]. intros H. apply andb_prop in H. tauto. Qed.
Lemma incrb_NoDup l : incrb l = true -> NoDup l.
Proof.
  induction l as [|x l IH]; intros H; constructor.
  - intros Hx. pose proof (incrb_lt _ _ H x Hx). lia.
  - apply IH. eapply incrb_tail; eauto.
Qed.

Lemma NoDup_app_disjoint {A} (l m : list A) :
  NoDup l -> NoDup m -> (forall x, In x l -> ~ In x m) -> NoDup (l ++ m).
Proof.
  induction l as [|x l IH]; intros Hl Hm Hd; cbn; auto.
  inversion Hl; subst. constructor.
  - intros Hx. apply in_app_or in Hx. destruct Hx as [Hx|Hx]; [contradiction|].
    apply (Hd x); cbn; auto.
  - apply IH; auto. intros y Hy. apply Hd. cbn. auto.
Qed.
Lemma NoDup_snoc {A} (l : list A) x : NoDup l -> ~ In x l -> NoDup (l ++ [x]).
Proof.
  intros Hl Hx. apply NoDup_app_disjoint; auto.
  - constructor; [intros []|constructor].
  - intros y Hy [->|[]]. contradiction.
Qed.
Lemma NoDup_app_inv {A} (l m : list A) :
  NoDup (l ++ m) -> NoDup l /\ NoDup m /\ (forall x, In x l -> ~ In x m).
Proof.
  induction l as [|x l IH]; cbn; intros H.
  - split; [constructor|]. split; [auto|]. intros x [].
  - inversion H; subst. destruct (IH H3) as (Hl & Hm & Hd). repeat split; auto.
    + constructor; auto. intros Hx. apply H2. apply in_or_app. auto.
    + intros y [->|Hy] Hy'; [apply H2; apply in_or_app; auto|]. eapply Hd; eauto.
Qed.
Lemma skipn_add {A} (a b : nat) (l : list A) : skipn a (skipn b l) = skipn (b + a) l.
Proof.
  revert l. induction b as [|b IH]; intros l; [reflexivity|].
  destruct l as [|x l]; cbn [skipn plus]; [destruct a; reflexivity|apply IH].
Qed.

(* positions after a swap-and-pop *)
Lemma nth_swap_pop {A} (l : list A) i z j :
  nth_error l (length l - 1) = Some z -> i < length l ->
  nth_error (swap_pop i l) j =
    if j <? length l - 1 then (if j =? i then Some z else nth_error l j) else None.
Proof.
  intros Hz Hi. unfold swap_pop. rewrite Hz. rewrite nth_removelast, upd_length, nth_upd.
  destruct (j <? length l - 1); auto. destruct (j =? i); cbn [andb]; auto.
  replace (i <? length l) with true; auto. symmetry. apply Nat.ltb_lt. auto.
Qed.
Lemma map_swap_pop {A B} (f : A -> B) (l : list A) i : map f (swap_pop i l) = swap_pop i (map f l).
Proof.
  apply list_ext. intros j. rewrite nth_error_map.
  destruct (Nat.lt_ge_cases i (length l)) as [Hi|Hi].
  - destruct (nth_error l (length l - 1)) as [z|] eqn:Ez.
    + rewrite (nth_swap_pop l j Ez Hi).
      assert (Ez' : nth_error (map f l) (length (map f l) - 1) = Some (f z))
        by (rewrite map_length, nth_error_map, Ez; reflexivity).
      rewrite (nth_swap_pop (map f l) j Ez') by (rewrite map_length; auto).
      rewrite map_length, nth_error_map.
      destruct (j <? length l - 1); auto. destruct (j =? i); auto.
    + apply nth_error_None in Ez. lia.
  - (* i out of range: upd does nothing *)
    unfold swap_pop. rewrite map_length, nth_error_map.
    destruct (nth_error l (length l - 1)) as [z|] eqn:Ez; cbn [option_map].
    + rewrite !nth_removelast, !upd_length, !nth_upd, map_length, nth_error_map.
      replace (i <? length l) with false by (symmetry; apply Nat.ltb_ge; auto).
      rewrite !andb_false_r. destruct (j <? length l - 1); auto.
    + rewrite nth_error_map. reflexivity.
Qed.

Lemma index_of_swap_pop {A} (eqb : A -> A -> bool)
  (eqb_spec : forall x y, eqb x y = true <-> x = y) (l : list A) i x z n :
  NoDup l -> nth_error l i = Some x -> nth_error l (length l - 1) = Some z ->
  index_of eqb n (swap_pop i l) =
    if eqb n x then None else if eqb n z then Some i else index_of eqb n l.
Proof.
  intros Hn Hx Hz.
  assert (Hi : i < length l) by (apply nth_error_Some; congruence).
  assert (Hn' : NoDup (swap_pop i l)) by (eapply swap_pop_NoDup; eauto).
  destruct (eqb n x) eqn:Enx.
  - apply eqb_spec in Enx. subst n. apply (index_of_None eqb eqb_spec). intros Hin.
    apply In_nth_error in Hin. destruct Hin as [j Hj]. rewrite (nth_swap_pop l j Hz Hi) in Hj.
    destruct (j <? length l - 1) eqn:Ej; [|discriminate]. apply Nat.ltb_lt in Ej.
    destruct (j =? i) eqn:Eji.
    + apply Nat.eqb_eq in Eji. inversion Hj. subst.
      pose proof (NoDup_nth_error_inj _ _ Hn Hx Hz). lia.
    + apply Nat.eqb_neq in Eji. pose proof (NoDup_nth_error_inj _ _ Hn Hx Hj). lia.
  - apply (eqb_neq eqb eqb_spec) in Enx. destruct (eqb n z) eqn:Enz.
    + apply eqb_spec in Enz. subst n. apply (index_of_nth_NoDup eqb eqb_spec); auto.
      rewrite (nth_swap_pop l i Hz Hi).
      assert (i <> length l - 1) by (intros ->; congruence).
      replace (i <? length l - 1) with true by (symmetry; apply Nat.ltb_lt; lia).
      rewrite Nat.eqb_refl. reflexivity.
    + apply (eqb_neq eqb eqb_spec) in Enz. destruct (index_of eqb n l) as [j|] eqn:Ej.
      * destruct (index_of_Some eqb eqb_spec _ _ Ej) as [Hj Hjl].
        apply (index_of_nth_NoDup eqb eqb_spec); auto. rewrite (nth_swap_pop l j Hz Hi).
        assert (j <> length l - 1) by (intros ->; congruence).
        assert (j <> i) by (intros ->; congruence).
        replace (j <? length l - 1) with true by (symmetry; apply Nat.ltb_lt; lia).
        replace (j =? i) with false by (symmetry; apply Nat.eqb_neq; auto). exact Hj.
      * apply (index_of_None eqb eqb_spec). apply (index_of_None eqb eqb_spec) in Ej.
        intros Hin. apply Ej.
        assert (Hp := swap_pop_Permutation eqb eqb_spec i Hn Hx).
        apply (Permutation_in _ Hp) in Hin. apply (rem_In eqb eqb_spec) in Hin. tauto.
Qed.
