(* C07 model: the two-step role transfer of packages/access/src/role_transfer/storage.rs
   as used by ownable/storage.rs (owner) and access_control/storage.rs (admin).

   State: the holder (instance storage, Owner / Admin key), the pending entry
   (temporary storage, PendingOwner / PendingAdmin key) with the host's
   temporary-entry semantics of Lib/Host.v, the ledger sequence, and the counter of
   the example's guarded entry point.  Transcribed guard by guard, in code order. *)
From SC Require Import Lib.Prelude Lib.Int Lib.Host.

(* which of the two instantiations: Ownable or AccessControl's admin *)
Inductive kind := Own | AC.

Record rt := { holder : option addr; pending : option (tentry addr) }.

(* role_transfer::transfer_role(e, new, pending_key, live_until_ledger) - no auth inside *)
Definition transfer_role (c : hostcfg) (now : Z) (p : option (tentry addr)) (new : addr) (live_until : Z)
  : res (option (tentry addr)) :=
  if live_until =? 0 then
    (* cancel *)
    match tget now p with
    | None => Fail                                   (* NoPendingTransfer *)
    | Some pa => if N.eqb pa new then Ok (tremove p) (* remove *)
                 else Fail                           (* InvalidPendingAccount *)
    end
  else
    if (max_live_until c now <? live_until) || (live_until <? now) then Fail  (* InvalidLiveUntilLedger *)
    else
      let live_for := live_until - now in
      let p1 := tset c now p new in                  (* temporary().set(pending_key, new) *)
      textend c now p1 live_for live_for.            (* temporary().extend_ttl(key, live_for, live_for) *)

(* role_transfer::accept_transfer(e, active_key, pending_key) *)
Definition accept_transfer (now : Z) (auths : list addr) (s : rt) : res rt :=
  match tget now (pending s) with
  | None => Fail                                     (* NoPendingTransfer *)
  | Some pa =>
      if has_auth auths pa                           (* pending.require_auth() *)
      then Ok {| holder := Some pa; pending := tremove (pending s) |}
      else Fail
  end.

(* enforce_owner_auth / enforce_admin_auth *)
Definition enforce_holder_auth (auths : list addr) (s : rt) : res addr :=
  match holder s with
  | None => Fail                                     (* OwnerNotSet / AdminNotSet *)
  | Some h => if has_auth auths h then Ok h else Fail
  end.

(* transfer_ownership / transfer_admin_role *)
Definition offer (c : hostcfg) (now : Z) (auths : list addr) (new : addr) (live_until : Z) (s : rt) : res rt :=
  do _h <- enforce_holder_auth auths s;
  do p <- transfer_role c now (pending s) new live_until;
  Ok {| holder := holder s; pending := p |}.

(* accept_ownership / accept_admin_transfer (the latter first requires an admin to be set) *)
Definition accept (k : kind) (now : Z) (auths : list addr) (s : rt) : res rt :=
  match k with
  | Own => accept_transfer now auths s
  | AC => match holder s with
          | None => Fail                             (* AdminNotSet *)
          | Some _ => accept_transfer now auths s
          end
  end.

(* renounce_ownership / renounce_admin *)
Definition renounce (now : Z) (auths : list addr) (s : rt) : res rt :=
  do _h <- enforce_holder_auth auths s;
  match tget now (pending s) with
  | Some _ => Fail                                   (* TransferInProgress *)
  | None => Ok {| holder := None; pending := pending s |}
  end.

(* ---------------- the state machine driven by the harness ---------------- *)

Record state := { now : Z; rts : rt; ctr : Z }.

Inductive call :=
| Offer (new : addr) (live_until : Z) (auths : list addr)   (* live_until = 0 : cancel *)
| Accept (auths : list addr)
| Renounce (auths : list addr)
| Guarded (auths : list addr)      (* #[only_owner] increment / #[only_admin] admin_restricted_function *)
| Advance (n : N).                 (* the ledger sequence moves forward by n *)

Definition init (start : Z) (h0 : option addr) : state :=
  {| now := start; rts := {| holder := h0; pending := None |}; ctr := 0 |}.

Definition with_rt (s : state) (r : rt) : state := {| now := now s; rts := r; ctr := ctr s |}.

(* value returned by a successful call: the counter for Own's increment, 0 otherwise *)
Definition step (k : kind) (c : hostcfg) (s : state) (cl : call) : state * res Z :=
  match cl with
  | Offer new lu auths =>
      match offer c (now s) auths new lu (rts s) with
      | Ok r => (with_rt s r, Ok 0)
      | Fail => (s, Fail)
      end
  | Accept auths =>
      match accept k (now s) auths (rts s) with
      | Ok r => (with_rt s r, Ok 0)
      | Fail => (s, Fail)
      end
  | Renounce auths =>
      match renounce (now s) auths (rts s) with
      | Ok r => (with_rt s r, Ok 0)
      | Fail => (s, Fail)
      end
  | Guarded auths =>
      match enforce_holder_auth auths (rts s) with
      | Ok _ =>
          match k with
          | Own => ({| now := now s; rts := rts s; ctr := ctr s + 1 |}, Ok (ctr s + 1))
          | AC => (s, Ok 0)
          end
      | Fail => (s, Fail)
      end
  | Advance n => ({| now := now s + Z.of_N n; rts := rts s; ctr := ctr s |}, Ok 0)
  end.

Definition run (k : kind) (c : hostcfg) (s : state) (cs : list call) : state :=
  fold_left (fun s cl => fst (step k c s cl)) cs s.

(* what the harness can see of a state: the holder (public getter) and, through a
   test-only look into the contract's temporary storage, the live pending entry with
   its live_until ledger *)
Definition pending_view (s : state) : option (addr * Z) :=
  match tlive_at (now s) (pending (rts s)) with
  | Some e => Some (tval e, tlive e)
  | None => None
  end.
Definition obs := (option addr * option (addr * Z))%type.
Definition observe (s : state) : obs := (holder (rts s), pending_view s).

(* an executed call with what was visible before and after it *)
Record event := {
  ev_now : Z;                  (* ledger at the call *)
  ev_holder : option addr;     (* holder before the call *)
  ev_call : call;
  ev_out : res Z;
  ev_after : option addr       (* holder after the call *)
}.

Fixpoint history (k : kind) (c : hostcfg) (s : state) (cs : list call) : list event :=
  match cs with
  | [] => []
  | cl :: r =>
      let '(s', o) := step k c s cl in
      {| ev_now := now s; ev_holder := holder (rts s); ev_call := cl; ev_out := o;
         ev_after := holder (rts s') |} :: history k c s' r
  end.

(* ---- the pre-F2 expectation, kept for the refutation: "an offer dies at its own
   live_until" would need the entry's lifetime to be reset by a newer offer.  The code
   (and therefore [transfer_role] above) does not do that. ---- *)
Definition f2_calls (a b : addr) (owner : addr) : list call :=
  [Offer a 1000 [owner]; Offer b 110 [owner]; Advance 400%N; Accept [b]].
