(* C18 - an independent reader of WebAuthn client data (clientDataJSON), used by the MONITOR
   only (it is not a model of serde-json-core).  It reads a JSON text (RFC 8259) that is one
   object and extracts the top-level members "type" and "challenge" (WebAuthn: C.type,
   C.challenge of the parsed client data).  Three answers:
     CdPlain ty ch : a well-formed object with exactly one "type" and one "challenge" member,
                     both strings without escape sequences (raw bytes returned);
     CdInvalid     : certainly not acceptable client data: not a JSON object, the object's own
                     skeleton malformed (keys, colons, commas, closing brace, end of input),
                     trailing non-whitespace, "type"/"challenge" missing or not a string;
     CdOther       : not decided here (non-ASCII bytes incl. a BOM, escape sequences in a
                     top-level key or in the two fields, duplicate "type"/"challenge",
                     control characters / unknown escapes inside strings, anything malformed
                     inside a member value other than a string (serde-json-core skips such
                     values leniently), out of fuel).
   Bytes are [Z]. *)
From SC Require Import Lib.Prelude.

Inductive scan (A : Type) : Type :=
| SOk (a : A) (rest : list Z)
| SInvalid
| SOther.
Arguments SOk {A} a rest.
Arguments SInvalid {A}.
Arguments SOther {A}.

Definition is_ws (c : Z) : bool := (c =? 32) || (c =? 9) || (c =? 10) || (c =? 13).
Fixpoint skip_ws (l : list Z) : list Z :=
  match l with
  | c :: r => if is_ws c then skip_ws r else l
  | [] => []
  end.

Definition is_digit (c : Z) : bool := (48 <=? c) && (c <=? 57).
Definition is_hex (c : Z) : bool :=
  is_digit c || ((65 <=? c) && (c <=? 70)) || ((97 <=? c) && (c <=? 102)).

(* the body of a string after the opening quote: raw content (escape sequences kept as
   written), whether an escape sequence occurred *)
Fixpoint str_body (l : list Z) (acc : list Z) (esc : bool) : scan (list Z * bool) :=
  match l with
  | [] => SInvalid
  | c :: r =>
      if c =? 34 then SOk (rev acc, esc) r
      else if c =? 92 then
        match r with
        | [] => SInvalid
        | d :: r' =>
            if (d =? 34) || (d =? 92) || (d =? 47) || (d =? 98) || (d =? 102) || (d =? 110)
               || (d =? 114) || (d =? 116)
            then str_body r' (d :: c :: acc) true
            else if d =? 117 then
              match r' with
              | h1 :: h2 :: h3 :: h4 :: _ =>
                  if is_hex h1 && is_hex h2 && is_hex h3 && is_hex h4
                  then str_body r' (d :: c :: acc) true     (* the hex digits are ordinary characters *)
                  else SOther
              | _ => SOther
              end
            else SOther
        end
      else if c <? 32 then SOther
      else str_body r (c :: acc) esc
  end.

Fixpoint skip_digits (l : list Z) : list Z :=
  match l with
  | c :: r => if is_digit c then skip_digits r else l
  | [] => []
  end.
Definition digits1 (l : list Z) : option (list Z) :=
  match l with
  | c :: r => if is_digit c then Some (skip_digits r) else None
  | [] => None
  end.

(* number = [ minus ] int [ frac ] [ exp ] *)
Definition number (l : list Z) : scan unit :=
  let l1 := match l with c :: r => if c =? 45 then r else l | [] => l end in
  match l1 with
  | [] => SInvalid
  | c :: r =>
      let after_int :=
        if c =? 48 then Some r
        else if (49 <=? c) && (c <=? 57) then Some (skip_digits r) else None in
      match after_int with
      | None => SInvalid
      | Some l2 =>
          let after_frac :=
            match l2 with
            | d :: r2 => if d =? 46 then digits1 r2 else Some l2
            | [] => Some l2
            end in
          match after_frac with
          | None => SInvalid
          | Some l3 =>
              match l3 with
              | e :: r3 =>
                  if (e =? 101) || (e =? 69) then
                    let r4 := match r3 with s :: r' => if (s =? 43) || (s =? 45) then r' else r3 | [] => r3 end in
                    match digits1 r4 with Some l5 => SOk tt l5 | None => SInvalid end
                  else SOk tt l3
              | [] => SOk tt l3
              end
          end
      end
  end.

Fixpoint strip_prefix (p l : list Z) : option (list Z) :=
  match p, l with
  | [], _ => Some l
  | x :: p', y :: l' => if x =? y then strip_prefix p' l' else None
  | _ :: _, [] => None
  end.

Definition LIT_TRUE : list Z := [116; 114; 117; 101].
Definition LIT_FALSE : list Z := [102; 97; 108; 115; 101].
Definition LIT_NULL : list Z := [110; 117; 108; 108].

(* any JSON value, structure only; [fuel] bounds nesting plus the number of members *)
Fixpoint value (fuel : nat) (l : list Z) : scan unit :=
  match fuel with
  | O => SOther
  | S f =>
      match l with
      | [] => SInvalid
      | c :: r =>
          if c =? 34 then
            match str_body r [] false with SOk _ r' => SOk tt r' | SInvalid => SInvalid | SOther => SOther end
          else if c =? 123 then members f (skip_ws r) true
          else if c =? 91 then elements f (skip_ws r) true
          else if c =? 116 then match strip_prefix LIT_TRUE l with Some r' => SOk tt r' | None => SInvalid end
          else if c =? 102 then match strip_prefix LIT_FALSE l with Some r' => SOk tt r' | None => SInvalid end
          else if c =? 110 then match strip_prefix LIT_NULL l with Some r' => SOk tt r' | None => SInvalid end
          else number l
      end
  end
(* after '{' (and whitespace): members, up to and including '}' *)
with members (fuel : nat) (l : list Z) (first : bool) : scan unit :=
  match fuel with
  | O => SOther
  | S f =>
      match l with
      | [] => SInvalid
      | c :: r =>
          if (c =? 125) && first then SOk tt r
          else if c =? 34 then
            match str_body r [] false with
            | SOk _ r1 =>
                match skip_ws r1 with
                | c2 :: r2 =>
                    if c2 =? 58 then
                      match value f (skip_ws r2) with
                      | SOk _ r3 =>
                          match skip_ws r3 with
                          | c4 :: r4 =>
                              if c4 =? 44 then members f (skip_ws r4) false
                              else if c4 =? 125 then SOk tt r4
                              else SInvalid
                          | [] => SInvalid
                          end
                      | SInvalid => SInvalid
                      | SOther => SOther
                      end
                    else SInvalid
                | [] => SInvalid
                end
            | SInvalid => SInvalid
            | SOther => SOther
            end
          else SInvalid
      end
  end
(* after '[' (and whitespace): elements, up to and including ']' *)
with elements (fuel : nat) (l : list Z) (first : bool) : scan unit :=
  match fuel with
  | O => SOther
  | S f =>
      match l with
      | [] => SInvalid
      | c :: r =>
          if (c =? 93) && first then SOk tt r
          else
            match value f l with
            | SOk _ r3 =>
                match skip_ws r3 with
                | c4 :: r4 =>
                    if c4 =? 44 then elements f (skip_ws r4) false
                    else if c4 =? 93 then SOk tt r4
                    else SInvalid
                | [] => SInvalid
                end
            | SInvalid => SInvalid
            | SOther => SOther
            end
      end
  end.

(* what has been seen of one of the two fields *)
Inductive field := FNone | FStr (raw : list Z) | FBad | FUndecided.

Definition KEY_TYPE : list Z := [116; 121; 112; 101].
Definition KEY_CHALLENGE : list Z := [99; 104; 97; 108; 108; 101; 110; 103; 101].

Fixpoint eqb_raw (a b : list Z) : bool :=
  match a, b with
  | [], [] => true
  | x :: r, y :: s => (x =? y) && eqb_raw r s
  | _, _ => false
  end.

Definition upd_field (old : field) (new : field) : field :=
  match old with FNone => new | _ => FUndecided end.       (* a second occurrence: not decided here *)

(* the members of the top-level object, recording "type" and "challenge" *)
Fixpoint top_members (fuel : nat) (l : list Z) (first : bool) (ty ch : field) : scan (field * field) :=
  match fuel with
  | O => SOther
  | S f =>
      match l with
      | [] => SInvalid
      | c :: r =>
          if (c =? 125) && first then SOk (ty, ch) r
          else if c =? 34 then
            match str_body r [] false with
            | SOk (key, kesc) r1 =>
                if kesc then SOther                        (* an escaped key could spell "type" *)
                else
                match skip_ws r1 with
                | c2 :: r2 =>
                    if c2 =? 58 then
                      let v := skip_ws r2 in
                      let res : scan field :=
                        match v with
                        | q :: rv =>
                            if q =? 34 then
                              match str_body rv [] false with
                              | SOk (raw, esc) r3 => SOk (if esc then FUndecided else FStr raw) r3
                              | SInvalid => SInvalid
                              | SOther => SOther
                              end
                            else match value f v with
                                 | SOk _ r3 => SOk FBad r3
                                 | SInvalid => SOther        (* malformed inside a value that is not read: not decided here *)
                                 | SOther => SOther
                                 end
                        | [] => SInvalid
                        end in
                      match res with
                      | SOk fv r3 =>
                          let ty' := if eqb_raw key KEY_TYPE then upd_field ty fv else ty in
                          let ch' := if eqb_raw key KEY_CHALLENGE then upd_field ch fv else ch in
                          match skip_ws r3 with
                          | c4 :: r4 =>
                              if c4 =? 44 then top_members f (skip_ws r4) false ty' ch'
                              else if c4 =? 125 then SOk (ty', ch') r4
                              else match fv with
                                   | FBad => SOther     (* junk after a value that is not a string:
                                                           serde-json-core skips up to the next delimiter *)
                                   | _ => SInvalid
                                   end
                          | [] => SInvalid
                          end
                      | SInvalid => SInvalid
                      | SOther => SOther
                      end
                    else SInvalid
                | [] => SInvalid
                end
            | SInvalid => SInvalid
            | SOther => SOther
            end
          else SInvalid
      end
  end.

Inductive cdres := CdPlain (ty ch : list Z) | CdInvalid | CdOther.

Definition all_ascii (l : list Z) : bool := forallb (fun c => (0 <=? c) && (c <? 128)) l.

Definition cd_fields (cd : list Z) : cdres :=
  if negb (all_ascii cd) then CdOther
  else
    match skip_ws cd with
    | c :: r =>
        if c =? 123 then
          match top_members (S (length cd)) (skip_ws r) true FNone FNone with
          | SOk (ty, ch) rest =>
              match skip_ws rest with
              | _ :: _ => CdInvalid                          (* trailing characters *)
              | [] =>
                  match ty, ch with
                  | FNone, _ | FBad, _ | _, FNone | _, FBad => CdInvalid
                  | FStr t, FStr c' => CdPlain t c'
                  | _, _ => CdOther
                  end
              end
          | SInvalid => CdInvalid
          | SOther => CdOther
          end
        else CdInvalid
    | [] => CdInvalid
    end.
