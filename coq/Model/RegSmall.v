(* C20 / registries 6 and 7: compliance hook modules
   (packages/tokens/src/rwa/compliance/storage.rs: add_module_to, remove_module_from, getters)
   and the identity-claims index (packages/tokens/src/rwa/identity_claims/storage.rs). *)
From SC Require Import Lib.Prelude Model.SwapPop Model.RegCommon.
Local Open Scope nat_scope.

(* ------------------------------------------------------------------------- *)
(* compliance: HookModules(hook) -> Vec<Address>                              *)
(* ------------------------------------------------------------------------- *)
Record cm_cfg := { cm_max : nat }.      (* MAX_MODULES *)
Notation hook := (N) (only parsing).                   (* 0 Transferred, 1 Created, 2 Destroyed, 3 CanTransfer, 4 CanCreate *)
Notation cm_state := (list (hook * list addr)) (only parsing).
Definition cm_init : cm_state := [].

Definition cm_modules (s : cm_state) (h : hook) : list addr :=
  match aget N.eqb h s with Some l => l | None => [] end.
Definition cm_is_registered (s : cm_state) (h : hook) (m : addr) : bool := memb N.eqb m (cm_modules s h).

Definition cm_add (c : cm_cfg) (s : cm_state) (h : hook) (m : addr) : res cm_state :=
  let l := cm_modules s h in
  if memb N.eqb m l then Fail                           (* ModuleAlreadyRegistered *)
  else if cm_max c <=? length l then Fail               (* ModuleBoundExceeded *)
  else Ok (aset N.eqb h (l ++ [m]) s).

Definition cm_remove (s : cm_state) (h : hook) (m : addr) : res cm_state :=
  let l := cm_modules s h in
  if negb (memb N.eqb m l) then Fail                    (* ModuleNotRegistered *)
  else match index_of N.eqb m l with
       | None => Fail                                   (* .expect("module exists") *)
       | Some i => Ok (aset N.eqb h (remove_at i l) s)
       end.

Inductive cm_call := CmAdd (h : hook) (m : addr) | CmRemove (h : hook) (m : addr).
Definition cm_step (c : cm_cfg) (s : cm_state) (k : cm_call) : res (cm_state * unit) :=
  match k with
  | CmAdd h m => do s' <- cm_add c s h m; Ok (s', tt)
  | CmRemove h m => do s' <- cm_remove s h m; Ok (s', tt)
  end.
Inductive cm_query := MqModules (h : hook) | MqIsRegistered (h : hook) (m : addr).
Inductive cm_ans := MaList (l : list addr) | MaBool (b : bool) | MaTrap.
Definition cm_answer (s : cm_state) (q : cm_query) : cm_ans :=
  match q with
  | MqModules h => MaList (cm_modules s h)
  | MqIsRegistered h m => MaBool (cm_is_registered s h m)
  end.
Definition cm_ans_eqb (a b : cm_ans) : bool :=
  match a, b with
  | MaList x, MaList y => list_eqb N.eqb x y
  | MaBool x, MaBool y => Bool.eqb x y
  | MaTrap, MaTrap => true
  | _, _ => false
  end.

(* ------------------------------------------------------------------------- *)
(* identity claims: Claim(id) -> Claim, ClaimsByTopic(topic) -> Vec<id>        *)
(* the claim id keccak256(issuer || topic) is idealised as the pair itself     *)
(* ------------------------------------------------------------------------- *)
Notation cid := (addr * N)%type (only parsing).          (* (issuer, topic) *)
Definition cid_eqb : cid -> cid -> bool := pair_eqb N.eqb N.eqb.
Lemma cid_eqb_spec : forall a b, cid_eqb a b = true <-> a = b.
Proof. apply pair_eqb_spec; apply N.eqb_eq. Qed.

Record claim := { cl_topic : N; cl_scheme : N; cl_issuer : addr; cl_sig : N; cl_data : N; cl_uri : N }.
Definition claim_eqb (a b : claim) : bool :=
  N.eqb (cl_topic a) (cl_topic b) && N.eqb (cl_scheme a) (cl_scheme b) && N.eqb (cl_issuer a) (cl_issuer b)
  && N.eqb (cl_sig a) (cl_sig b) && N.eqb (cl_data a) (cl_data b) && N.eqb (cl_uri a) (cl_uri b).
Lemma claim_eqb_spec a b : claim_eqb a b = true <-> a = b.
Proof.
  destruct a, b. unfold claim_eqb. cbn. rewrite !andb_true_iff, !N.eqb_eq. split.
  - intros [[[[[-> ->] ->] ->] ->] ->]. reflexivity.
  - intros H. inversion H. auto 10.
Qed.

Record ic_state := { ic_claims : list (cid * claim);        (* Claim(id) *)
                     ic_topic : list (N * list cid) }.      (* ClaimsByTopic(topic) *)
Definition ic_init : ic_state := {| ic_claims := []; ic_topic := [] |}.

Definition ic_get_claim (s : ic_state) (i : cid) : res claim := of_option (aget cid_eqb i (ic_claims s)).
Definition ic_ids_by_topic (s : ic_state) (t : N) : list cid :=
  match aget N.eqb t (ic_topic s) with Some l => l | None => [] end.

(* add_claim; [valid] = the issuer contract's is_claim_valid did not trap (input of the call) *)
Definition ic_add (s : ic_state) (cl : claim) (valid : bool) : res (ic_state * cid) :=
  if negb valid then Fail
  else
    let i : cid := (cl_issuer cl, cl_topic cl) in
    let is_new := negb (ahas cid_eqb i (ic_claims s)) in
    let claims' := aset cid_eqb i cl (ic_claims s) in
    let topic' := if is_new then aset N.eqb (cl_topic cl) (ic_ids_by_topic s (cl_topic cl) ++ [i]) (ic_topic s)
                  else ic_topic s in
    Ok ({| ic_claims := claims'; ic_topic := topic' |}, i).

Definition ic_remove (s : ic_state) (i : cid) : res ic_state :=
  do cl <- ic_get_claim s i;                              (* ClaimNotFound *)
  let ids := ic_ids_by_topic s (cl_topic cl) in
  let topic' := match index_of cid_eqb i ids with
                | Some p => match remove_at p ids with
                            | [] => adel N.eqb (cl_topic cl) (ic_topic s)
                            | l' => aset N.eqb (cl_topic cl) l' (ic_topic s)
                            end
                | None => ic_topic s
                end in
  Ok {| ic_claims := adel cid_eqb i (ic_claims s); ic_topic := topic' |}.

Inductive ic_call := IcAdd (cl : claim) (valid : bool) | IcRemove (i : cid).
(* returned value: Some id for add_claim, None for remove_claim *)
Definition ic_step (s : ic_state) (k : ic_call) : res (ic_state * option cid) :=
  match k with
  | IcAdd cl v => do r <- ic_add s cl v; Ok (fst r, Some (snd r))
  | IcRemove i => do s' <- ic_remove s i; Ok (s', None)
  end.
Inductive ic_query := JqClaim (i : cid) | JqByTopic (t : N).
Inductive ic_ans := JaClaim (r : res claim) | JaIds (l : list cid) | JaTrap.
Definition ic_answer (s : ic_state) (q : ic_query) : ic_ans :=
  match q with
  | JqClaim i => JaClaim (ic_get_claim s i)
  | JqByTopic t => JaIds (ic_ids_by_topic s t)
  end.
Definition ic_ans_eqb (a b : ic_ans) : bool :=
  match a, b with
  | JaClaim x, JaClaim y => res_eqb claim_eqb x y
  | JaIds x, JaIds y => list_eqb cid_eqb x y
  | JaTrap, JaTrap => true
  | _, _ => false
  end.
