(* C06 model: packages/access/src/access_control/storage.rs (roles, role admins, admin,
   swap-and-pop enumeration), the macro guards of packages/macros (only_admin, only_role,
   has_role, has_any_role, only_any_role) as they expand inside
   examples/nft-access-control/src/contract.rs.  The admin hand-over reuses
   Model/RoleTransfer.v (C07).  Transcribed guard by guard, storage key by storage key. *)
From SC Require Import Lib.Prelude Lib.Int Lib.Host Model.RoleTransfer.

Definition role := N.            (* Symbol, numbered by the harness *)

(* constants of the code / of the example, as parameters *)
Record cfg := {
  host : hostcfg;
  max_roles : N;                 (* access_control::MAX_ROLES *)
  minter : role;                 (* "minter" *)
  burner : role                  (* "burner" *)
}.

(* total maps as functions with point update *)
Definition upd {A} (f : N -> A) (k : N) (v : A) : N -> A :=
  fun k' => if N.eqb k' k then v else f k'.
Definition upd2 {A} (f : N -> N -> A) (k1 k2 : N) (v : A) : N -> N -> A :=
  fun a b => if N.eqb a k1 && N.eqb b k2 then v else f a b.

(* the part of the example's NFT (Base) the role-guarded entry points touch: owner and single-token
   approval ApprovalData { approved, live_until_ledger } (approve_for_all is never used) *)
Record nftst := { n_owner : N -> option addr; n_appr : N -> option (addr * Z) }.

Record st := {
  a_now : Z;
  a_rt : rt;                                (* Admin (instance) / PendingAdmin (temporary) *)
  a_role_admin : role -> option role;       (* RoleAdmin(role) *)
  a_has : addr -> role -> option N;         (* HasRole(account, role) -> index *)
  a_member : role -> N -> option addr;      (* RoleAccounts(role, index) -> account *)
  a_count : role -> N;                      (* RoleAccountsCount(role), absent = 0 *)
  a_existing : list role;                   (* ExistingRoles *)
  a_nft : nftst                             (* the example's NFT (Base): owner_of, get_approved *)
}.

Definition set_rt (s : st) (r : rt) : st :=
  {| a_now := a_now s; a_rt := r; a_role_admin := a_role_admin s; a_has := a_has s;
     a_member := a_member s; a_count := a_count s; a_existing := a_existing s; a_nft := a_nft s |}.
Definition set_nft (s : st) (f : nftst) : st :=
  {| a_now := a_now s; a_rt := a_rt s; a_role_admin := a_role_admin s; a_has := a_has s;
     a_member := a_member s; a_count := a_count s; a_existing := a_existing s; a_nft := f |}.

Definition is_some {A} (o : option A) : bool := match o with Some _ => true | None => false end.

(* Base::get_approved: the stored approval unless its live_until_ledger has passed.  (The temporary entry
   itself lives at least until live_until_ledger: set + extend_ttl(live_for, live_for).) *)
Definition approved_of (now : Z) (f : nftst) (t : N) : option addr :=
  match n_appr f t with
  | Some (a, lu) => if lu <? now then None else Some a
  | None => None
  end.

(* has_role(e, account, role).is_some() *)
Definition has_role (s : st) (a : addr) (r : role) : bool := is_some (a_has s a r).

(* ensure_if_admin_or_admin_role *)
Definition admin_or_admin_role (s : st) (r : role) (caller : addr) : bool :=
  let is_admin := match holder (a_rt s) with Some a => N.eqb caller a | None => false end in
  let is_admin_role := match a_role_admin s r with
                       | Some ar => has_role s caller ar
                       | None => false
                       end in
  is_admin || is_admin_role.

(* existing_roles.remove(position of the first r) *)
Fixpoint remove_first (r : role) (l : list role) : list role :=
  match l with
  | [] => []
  | x :: t => if N.eqb x r then t else x :: remove_first r t
  end.

(* add_to_role_enumeration *)
Definition add_to_role_enumeration (c : cfg) (s : st) (account : addr) (r : role) : res st :=
  let count := a_count s r in
  do ex <- (if N.eqb count 0
            then if N.eqb (N.of_nat (length (a_existing s))) (max_roles c) then Fail   (* MaxRolesExceeded *)
                 else Ok (a_existing s ++ [r])                                          (* push_back *)
            else Ok (a_existing s));
  do _u <- guard (Z.of_N count + 1 <=? MAXU32);                                        (* count + 1 : u32 *)
  Ok {| a_now := a_now s; a_rt := a_rt s; a_role_admin := a_role_admin s;
        a_has := upd2 (a_has s) account r (Some count);
        a_member := upd2 (a_member s) r count (Some account);
        a_count := upd (a_count s) r (count + 1)%N;
        a_existing := ex; a_nft := a_nft s |}.

(* remove_from_role_enumeration *)
Definition remove_from_role_enumeration (s : st) (account : addr) (r : role) : res st :=
  let count := a_count s r in
  if N.eqb count 0 then Fail                                       (* RoleIsEmpty *)
  else
    do idx <- of_option (a_has s account r);                       (* RoleNotHeld *)
    let last := (count - 1)%N in
    do '(mem1, has1) <-
       (if negb (N.eqb idx last) then
          do last_account <- of_option (a_member s r last);        (* expect(..) *)
          Ok (upd2 (a_member s) r idx (Some last_account),         (* swap *)
              upd2 (a_has s) last_account r (Some idx))
        else Ok (a_member s, a_has s));
    let mem2 := upd2 mem1 r last None in                           (* remove(last_key) *)
    let has2 := upd2 has1 account r None in                        (* remove(to_be_removed_has_role_key) *)
    Ok {| a_now := a_now s; a_rt := a_rt s; a_role_admin := a_role_admin s;
          a_has := has2; a_member := mem2;
          a_count := upd (a_count s) r last;
          a_existing := if N.eqb last 0 then remove_first r (a_existing s) else a_existing s;
          a_nft := a_nft s |}.

(* grant_role *)
Definition grant_role (c : cfg) (s : st) (auths : list addr) (account : addr) (r : role) (caller : addr) : res st :=
  do _a <- guard (has_auth auths caller);                          (* caller.require_auth() *)
  do _b <- guard (admin_or_admin_role s r caller);                 (* Unauthorized *)
  if has_role s account r then Ok s                                (* early return *)
  else add_to_role_enumeration c s account r.

(* revoke_role (revoke_role_no_auth removes the HasRole key once more) *)
Definition revoke_role (s : st) (auths : list addr) (account : addr) (r : role) (caller : addr) : res st :=
  do _a <- guard (has_auth auths caller);
  do _b <- guard (admin_or_admin_role s r caller);
  do _c <- guard (has_role s account r);                           (* RoleNotHeld *)
  do s1 <- remove_from_role_enumeration s account r;
  Ok {| a_now := a_now s1; a_rt := a_rt s1; a_role_admin := a_role_admin s1;
        a_has := upd2 (a_has s1) account r None; a_member := a_member s1; a_count := a_count s1;
        a_existing := a_existing s1; a_nft := a_nft s1 |}.

(* renounce_role *)
Definition renounce_role (s : st) (auths : list addr) (r : role) (caller : addr) : res st :=
  do _a <- guard (has_auth auths caller);
  do _c <- guard (has_role s caller r);
  do s1 <- remove_from_role_enumeration s caller r;
  Ok {| a_now := a_now s1; a_rt := a_rt s1; a_role_admin := a_role_admin s1;
        a_has := upd2 (a_has s1) caller r None; a_member := a_member s1; a_count := a_count s1;
        a_existing := a_existing s1; a_nft := a_nft s1 |}.

(* set_role_admin *)
Definition set_role_admin (s : st) (auths : list addr) (r ar : role) : res st :=
  do _h <- enforce_holder_auth auths (a_rt s);
  Ok {| a_now := a_now s; a_rt := a_rt s; a_role_admin := upd (a_role_admin s) r (Some ar);
        a_has := a_has s; a_member := a_member s; a_count := a_count s;
        a_existing := a_existing s; a_nft := a_nft s |}.

(* #[has_any_role(caller, ["minter", "burner"])] *)
Definition has_any_role (c : cfg) (s : st) (caller : addr) : bool :=
  has_role s caller (minter c) || has_role s caller (burner c).

Inductive call :=
| Grant (account : addr) (r : role) (caller : addr) (auths : list addr)
| Revoke (account : addr) (r : role) (caller : addr) (auths : list addr)
| RenounceRole (r : role) (caller : addr) (auths : list addr)
| SetRoleAdmin (r ar : role) (auths : list addr)
| TransferAdmin (new : addr) (live_until : Z) (auths : list addr)
| AcceptAdmin (auths : list addr)
| RenounceAdmin (auths : list addr)
(* macro-guarded entry points of examples/nft-access-control *)
| AdminRestricted (auths : list addr)                              (* #[only_admin] *)
| Mint (to : addr) (token : N) (caller : addr) (auths : list addr) (* #[only_role(caller, "minter")] *)
| MultiRoleAction (caller : addr) (auths : list addr)              (* #[has_any_role] + require_auth in the body *)
| MultiRoleAuthAction (caller : addr) (auths : list addr)          (* #[only_any_role] *)
| Burn (from : addr) (token : N) (auths : list addr)               (* #[has_role(from, "burner")] + Base::burn *)
| BurnFrom (spender from : addr) (token : N) (auths : list addr)   (* #[has_role(spender, "burner")] + Base::burn_from *)
| Approve (approver approved : addr) (token : N) (live_until : Z) (auths : list addr) (* NonFungibleToken::approve (not role-guarded) *)
| Advance (n : N).

Definition exec (c : cfg) (s : st) (cl : call) : res st :=
  match cl with
  | Grant account r caller auths => grant_role c s auths account r caller
  | Revoke account r caller auths => revoke_role s auths account r caller
  | RenounceRole r caller auths => renounce_role s auths r caller
  | SetRoleAdmin r ar auths => set_role_admin s auths r ar
  | TransferAdmin new lu auths =>
      do r <- offer (host c) (a_now s) auths new lu (a_rt s); Ok (set_rt s r)
  | AcceptAdmin auths =>
      do r <- accept AC (a_now s) auths (a_rt s); Ok (set_rt s r)
  | RenounceAdmin auths =>
      do r <- renounce (a_now s) auths (a_rt s); Ok (set_rt s r)
  | AdminRestricted auths =>
      do _h <- enforce_holder_auth auths (a_rt s); Ok s
  | Mint to token caller auths =>
      do _a <- guard (has_role s caller (minter c));               (* ensure_role *)
      do _b <- guard (has_auth auths caller);                      (* caller.require_auth() *)
      Ok (set_nft s {| n_owner := upd (n_owner (a_nft s)) token (Some to);   (* Base::mint *)
                       n_appr := n_appr (a_nft s) |})
  | MultiRoleAction caller auths =>
      do _a <- guard (has_any_role c s caller);
      do _b <- guard (has_auth auths caller);
      Ok s
  | MultiRoleAuthAction caller auths =>
      do _a <- guard (has_any_role c s caller);
      do _b <- guard (has_auth auths caller);
      Ok s
  | Burn from token auths =>
      do _a <- guard (has_role s from (burner c));                 (* ensure_role *)
      do _b <- guard (has_auth auths from);                        (* Base::burn: from.require_auth() *)
      do o <- of_option (n_owner (a_nft s) token);                 (* owner_of: NonExistentToken *)
      do _c <- guard (N.eqb o from);                               (* IncorrectOwner *)
      Ok (set_nft s {| n_owner := upd (n_owner (a_nft s)) token None;
                       n_appr := upd (n_appr (a_nft s)) token None |})   (* approval cleared *)
  | BurnFrom spender from token auths =>
      do _a <- guard (has_role s spender (burner c));
      do _b <- guard (has_auth auths spender);                     (* spender.require_auth() *)
      do _d <- guard (N.eqb spender from                           (* check_spender_approval *)
                      || match approved_of (a_now s) (a_nft s) token with Some ap => N.eqb ap spender | None => false end);
      do o <- of_option (n_owner (a_nft s) token);
      do _c <- guard (N.eqb o from);
      Ok (set_nft s {| n_owner := upd (n_owner (a_nft s)) token None;
                       n_appr := upd (n_appr (a_nft s)) token None |})
  | Approve approver approved token lu auths =>
      do _b <- guard (has_auth auths approver);                    (* approver.require_auth() *)
      do o <- of_option (n_owner (a_nft s) token);                 (* owner_of *)
      do _c <- guard (N.eqb approver o);                           (* InvalidApprover (no operators) *)
      if lu =? 0 then                                              (* remove the approval *)
        Ok (set_nft s {| n_owner := n_owner (a_nft s); n_appr := upd (n_appr (a_nft s)) token None |})
      else
        do _d <- guard (negb (lu <? a_now s));                     (* InvalidLiveUntilLedger *)
        do _e <- guard (lu - a_now s <=? max_ttl (host c) - 1);    (* extend_ttl beyond the maximum traps *)
        Ok (set_nft s {| n_owner := n_owner (a_nft s);
                         n_appr := upd (n_appr (a_nft s)) token (Some (approved, lu)) |})
  | Advance n =>
      Ok {| a_now := a_now s + Z.of_N n; a_rt := a_rt s; a_role_admin := a_role_admin s;
            a_has := a_has s; a_member := a_member s; a_count := a_count s;
            a_existing := a_existing s; a_nft := a_nft s |}
  end.

(* a failing call leaves the old state (host rollback) *)
Definition step (c : cfg) (s : st) (cl : call) : st * bool :=
  match exec c s cl with
  | Ok s' => (s', true)
  | Fail => (s, false)
  end.

Definition init (start : Z) (admin : option addr) : st :=
  {| a_now := start; a_rt := {| holder := admin; pending := None |};
     a_role_admin := fun _ => None; a_has := fun _ _ => None; a_member := fun _ _ => None;
     a_count := fun _ => 0%N; a_existing := [];
     a_nft := {| n_owner := fun _ => None; n_appr := fun _ => None |} |}.

Definition run (c : cfg) (s : st) (cs : list call) : st :=
  fold_left (fun s cl => fst (step c s cl)) cs s.

(* ---------------- observations: every public getter over a small universe ---------------- *)
Record universe := { u_accounts : list addr; u_roles : list role; u_tokens : list N }.

Fixpoint nseq (start : N) (len : nat) : list N :=
  match len with O => [] | S k => start :: nseq (N.succ start) k end.

Record robs := {
  ro_admin_role : option role;             (* get_role_admin(role) *)
  ro_count : N;                            (* get_role_member_count(role) *)
  ro_members : list (option addr);         (* get_role_member(role, i) for i = 0 .. count+1 (None = call fails) *)
  ro_has : list (option N)                 (* has_role(account, role) for every account of the universe *)
}.
Record aobs := {
  ob_admin : option addr;                  (* get_admin() *)
  ob_pending : option (addr * Z);          (* test-only look at the PendingAdmin entry (diff only) *)
  ob_roles : list robs;                    (* one per role of the universe *)
  ob_existing : list role;                 (* get_existing_roles() *)
  ob_tokens : list (option addr);          (* owner_of(token) (None = call fails) *)
  ob_approved : list (option addr)         (* get_approved(token) *)
}.

Definition observe_role (u : universe) (s : st) (r : role) : robs :=
  {| ro_admin_role := a_role_admin s r;
     ro_count := a_count s r;
     ro_members := map (a_member s r) (nseq 0 (N.to_nat (a_count s r) + 2));
     ro_has := map (fun a => a_has s a r) (u_accounts u) |}.

Definition observe (u : universe) (s : st) : aobs :=
  {| ob_admin := holder (a_rt s);
     ob_pending := match tlive_at (a_now s) (pending (a_rt s)) with
                   | Some e => Some (tval e, tlive e) | None => None end;
     ob_roles := map (observe_role u s) (u_roles u);
     ob_existing := a_existing s;
     ob_tokens := map (n_owner (a_nft s)) (u_tokens u);
     ob_approved := map (approved_of (a_now s) (a_nft s)) (u_tokens u) |}.
