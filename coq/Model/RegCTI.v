(* C20 / registry 3: claim topics and trusted issuers
   (packages/tokens/src/rwa/claim_topics_and_issuers/storage.rs).
   Four storage keys: ClaimTopics (Vec<u32>), TrustedIssuers (Vec<Address>),
   IssuerClaimTopics(issuer) (Vec<u32>), ClaimTopicIssuers(topic) (Vec<Address>);
   the last two are the two directions of the issuer/topic relation. *)
From SC Require Import Lib.Prelude Model.SwapPop Model.RegCommon.
Local Open Scope nat_scope.

Record cti_cfg := { cti_max_topics : nat;     (* MAX_CLAIM_TOPICS *)
                    cti_max_issuers : nat }.  (* MAX_ISSUERS *)

Notation topic := (N) (only parsing).

Record cti_state := {
  cti_topics : list topic;                       (* ClaimTopics (absent = []) *)
  cti_issuers : list addr;                       (* TrustedIssuers (absent = []) *)
  cti_itopics : list (addr * list topic);        (* IssuerClaimTopics(issuer) *)
  cti_tissuers : list (topic * list addr) }.     (* ClaimTopicIssuers(topic) *)
Definition cti_init : cti_state :=
  {| cti_topics := []; cti_issuers := []; cti_itopics := []; cti_tissuers := [] |}.

Definition it_get (m : list (addr * list topic)) (i : addr) := aget N.eqb i m.
Definition it_set (m : list (addr * list topic)) (i : addr) (v : list topic) := aset N.eqb i v m.
Definition it_del (m : list (addr * list topic)) (i : addr) := adel N.eqb i m.
Definition ti_get (m : list (topic * list addr)) (t : topic) := aget N.eqb t m.
Definition ti_set (m : list (topic * list addr)) (t : topic) (v : list addr) := aset N.eqb t v m.
Definition ti_del (m : list (topic * list addr)) (t : topic) := adel N.eqb t m.

(* a `for x in xs { ... }` loop whose body may trap *)
Fixpoint foldM {A B} (f : B -> A -> res B) (l : list A) (b : B) : res B :=
  match l with
  | [] => Ok b
  | x :: r => do b' <- f b x; foldM f r b'
  end.

(* remove the first occurrence of x, if any (position + Vec::remove) *)
Definition remove_first (x : N) (l : list N) : list N :=
  match index_of N.eqb x l with Some i => remove_at i l | None => l end.

(* ---- getters ---- *)
Definition cti_get_topic_issuers (s : cti_state) (t : topic) : res (list addr) :=
  of_option (ti_get (cti_tissuers s) t).                 (* ClaimTopicDoesNotExist *)
Definition cti_get_issuer_topics (s : cti_state) (i : addr) : res (list topic) :=
  of_option (it_get (cti_itopics s) i).                  (* IssuerDoesNotExist *)
Definition cti_is_trusted (s : cti_state) (i : addr) : bool := memb N.eqb i (cti_issuers s).
Definition cti_has_topic (s : cti_state) (i : addr) (t : topic) : res bool :=
  do ts <- cti_get_issuer_topics s i; Ok (memb N.eqb t ts).

(* Map<u32, Vec<Address>>: iteration order = ascending key; set overwrites *)
Fixpoint smap_set (k : N) (v : list addr) (m : list (N * list addr)) : list (N * list addr) :=
  match m with
  | [] => [(k, v)]
  | (k', v') :: r => if (k <? k')%N then (k, v) :: m
                     else if (k =? k')%N then (k, v) :: r
                     else (k', v') :: smap_set k v r
  end.
Definition cti_topics_and_issuers (s : cti_state) : res (list (N * list addr)) :=
  foldM (fun m t => do is <- cti_get_topic_issuers s t; Ok (smap_set t is m)) (cti_topics s) [].

(* ---- validations shared by add_trusted_issuer / update_issuer_claim_topics ---- *)
Definition cti_validate_topics (c : cti_cfg) (s : cti_state) (ts : list topic) : bool :=
  negb (match ts with [] => true | _ => false end)        (* ClaimTopicsSetCannotBeEmpty *)
  && (length ts <=? cti_max_topics c)                      (* MaxClaimTopicsLimitReached *)
  && nodupb N.eqb ts                                       (* validate_no_duplicate_topics *)
  && forallb (fun t => memb N.eqb t (cti_topics s)) ts.    (* validate_topics_exist *)

(* ---- mutators ---- *)
Definition cti_add_topic (c : cti_cfg) (s : cti_state) (t : topic) : res cti_state :=
  if cti_max_topics c <=? length (cti_topics s) then Fail
  else if memb N.eqb t (cti_topics s) then Fail
  else Ok {| cti_topics := cti_topics s ++ [t]; cti_issuers := cti_issuers s;
             cti_itopics := cti_itopics s; cti_tissuers := ti_set (cti_tissuers s) t [] |}.

Definition cti_remove_topic (s : cti_state) (t : topic) : res cti_state :=
  match index_of N.eqb t (cti_topics s) with
  | None => Fail
  | Some i =>
      let topics' := remove_at i (cti_topics s) in
      (* every trusted issuer forgets the topic *)
      let itopics' :=
        fold_left (fun m iss =>
                     match it_get m iss with
                     | Some its => match index_of N.eqb t its with
                                   | Some j => it_set m iss (remove_at j its)
                                   | None => m
                                   end
                     | None => m
                     end) (cti_issuers s) (cti_itopics s) in
      Ok {| cti_topics := topics'; cti_issuers := cti_issuers s;
            cti_itopics := itopics'; cti_tissuers := ti_del (cti_tissuers s) t |}
  end.

Definition cti_add_issuer (c : cti_cfg) (s : cti_state) (i : addr) (ts : list topic) : res cti_state :=
  if negb (cti_validate_topics c s ts) then Fail
  else if cti_max_issuers c <=? length (cti_issuers s) then Fail
  else if memb N.eqb i (cti_issuers s) then Fail
  else
    do ti' <- foldM (fun m t => do l <- of_option (ti_get m t); Ok (ti_set m t (l ++ [i])))
                    ts (cti_tissuers s);
    Ok {| cti_topics := cti_topics s; cti_issuers := cti_issuers s ++ [i];
          cti_itopics := it_set (cti_itopics s) i ts; cti_tissuers := ti' |}.

Definition cti_remove_issuer (s : cti_state) (i : addr) : res cti_state :=
  match index_of N.eqb i (cti_issuers s) with
  | None => Fail
  | Some p =>
      do its <- cti_get_issuer_topics s i;
      do ti' <- foldM (fun m t => do l <- of_option (ti_get m t);
                                  Ok (match index_of N.eqb i l with
                                      | Some j => ti_set m t (remove_at j l)
                                      | None => m
                                      end))
                      its (cti_tissuers s);
      Ok {| cti_topics := cti_topics s; cti_issuers := remove_at p (cti_issuers s);
            cti_itopics := it_del (cti_itopics s) i; cti_tissuers := ti' |}
  end.

Definition cti_update_issuer (c : cti_cfg) (s : cti_state) (i : addr) (ts : list topic) : res cti_state :=
  if negb (cti_validate_topics c s ts) then Fail
  else if negb (cti_is_trusted s i) then Fail
  else
    do old <- cti_get_issuer_topics s i;
    let to_remove := filter (fun t => negb (memb N.eqb t ts)) old in
    let to_add := filter (fun t => negb (memb N.eqb t old)) ts in
    do ti1 <- foldM (fun m t => do l <- of_option (ti_get m t);
                                Ok (match index_of N.eqb i l with
                                    | Some j => ti_set m t (remove_at j l)
                                    | None => m
                                    end))
                    to_remove (cti_tissuers s);
    do ti2 <- foldM (fun m t => do l <- of_option (ti_get m t); Ok (ti_set m t (l ++ [i])))
                    to_add ti1;
    Ok {| cti_topics := cti_topics s; cti_issuers := cti_issuers s;
          cti_itopics := it_set (cti_itopics s) i ts; cti_tissuers := ti2 |}.

(* ---- calls, queries, answers ---- *)
Inductive cti_call :=
| CtAddTopic (t : topic)
| CtRemoveTopic (t : topic)
| CtAddIssuer (i : addr) (ts : list topic)
| CtRemoveIssuer (i : addr)
| CtUpdateIssuer (i : addr) (ts : list topic).

Definition cti_step (c : cti_cfg) (s : cti_state) (k : cti_call) : res (cti_state * unit) :=
  match k with
  | CtAddTopic t => do s' <- cti_add_topic c s t; Ok (s', tt)
  | CtRemoveTopic t => do s' <- cti_remove_topic s t; Ok (s', tt)
  | CtAddIssuer i ts => do s' <- cti_add_issuer c s i ts; Ok (s', tt)
  | CtRemoveIssuer i => do s' <- cti_remove_issuer s i; Ok (s', tt)
  | CtUpdateIssuer i ts => do s' <- cti_update_issuer c s i ts; Ok (s', tt)
  end.

Inductive cti_query :=
| CqTopics
| CqIssuers
| CqTopicIssuers (t : topic)
| CqIssuerTopics (i : addr)
| CqIsTrusted (i : addr)
| CqHasTopic (i : addr) (t : topic)
| CqAll.

Inductive cti_ans :=
| CaList (l : list N)
| CaRList (r : res (list N))
| CaBool (b : bool)
| CaRBool (r : res bool)
| CaMap (r : res (list (N * list N)))
| CaTrap.

Definition cti_answer (s : cti_state) (q : cti_query) : cti_ans :=
  match q with
  | CqTopics => CaList (cti_topics s)
  | CqIssuers => CaList (cti_issuers s)
  | CqTopicIssuers t => CaRList (cti_get_topic_issuers s t)
  | CqIssuerTopics i => CaRList (cti_get_issuer_topics s i)
  | CqIsTrusted i => CaBool (cti_is_trusted s i)
  | CqHasTopic i t => CaRBool (cti_has_topic s i t)
  | CqAll => CaMap (cti_topics_and_issuers s)
  end.

Definition cti_ans_eqb (a b : cti_ans) : bool :=
  match a, b with
  | CaList x, CaList y => list_eqb N.eqb x y
  | CaRList x, CaRList y => res_eqb (list_eqb N.eqb) x y
  | CaBool x, CaBool y => Bool.eqb x y
  | CaRBool x, CaRBool y => res_eqb Bool.eqb x y
  | CaMap x, CaMap y => res_eqb (list_eqb (pair_eqb N.eqb (list_eqb N.eqb))) x y
  | CaTrap, CaTrap => true
  | _, _ => false
  end.
