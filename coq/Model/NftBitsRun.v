(* The consecutive flavour executed on the BIT-LEVEL ownership buckets (Model/NftBits.v), call by
   call, exactly as consecutive/storage.rs does: owner_of scans the stored buckets word by word,
   set_ownership_in_bucket rewrites one word of one bucket.  The state is the state of Model/Nft.v
   plus the stored buckets; the bit-level functions never read the set-level [marks] field (it is
   carried along as a ghost, updated only by [mark], so that the two runs can be compared). *)
From SC Require Import Lib.Prelude Lib.Int Lib.Host Model.Nft Model.NftBits.
Local Open Scope N_scope.

Definition bstate := (state * buckets)%type.

(* ghost update of the set-level field *)
Definition gmark (s : state) (id : N) : state := if memN id (marks s) then s else set_marks s (id :: marks s).

(* Consecutive::owner_of on the stored buckets *)
Definition cons_owner_of_b (b : bcfg) (sb : bstate) (id : N) : option addr :=
  let '(s, bs) := sb in
  if next_id s =? 0 then None
  else
    let last := next_id s - 1 in
    if memN id (burned s) || (last <? id) then None
    else match scan_bits b bs id last with
         | Some m => aget N.eqb m (owner s)
         | None => None
         end.

(* Consecutive::set_ownership_in_bucket *)
Definition set_ownership_in_bucket_b (b : bcfg) (sb : bstate) (id : N) : res bstate :=
  let '(s, bs) := sb in
  do _ <- guard (id <? next_id s);
  do bs' <- set_ownership_bits b bs id;
  Ok (gmark s id, bs').

(* Consecutive::set_owner_for_previous_token *)
Definition set_owner_for_previous_token_b (b : bcfg) (sb : bstate) (to : addr) (id : N) : res bstate :=
  let '(s, bs) := sb in
  if (id =? 0) || (next_id s <=? id) then Ok sb
  else
    let p := id - 1 in
    match aget N.eqb p (owner s) with
    | Some _ => Ok sb
    | None =>
        if memN p (burned s) then Ok sb
        else set_ownership_in_bucket_b b (set_owner s (aset N.eqb p to (owner s)), bs) p
    end.

(* Consecutive::update *)
Definition update_b (b : bcfg) (sb : bstate) (from to : option addr) (id : N) : res bstate :=
  do sb1 <- match from with
            | Some f =>
                do o <- of_option (cons_owner_of_b b sb id);
                do _ <- guard (o =? f);
                do s' <- decrease_balance (fst sb) f 1;
                let s'' := set_appr s' (arem N.eqb id (appr s')) in
                set_owner_for_previous_token_b b (s'', snd sb) f id
            | None => Ok sb
            end;
  let '(s1, bs1) := sb1 in
  match to with
  | Some t =>
      do s2 <- increase_balance s1 t 1;
      let s3 := set_owner s2 (aset N.eqb id t (owner s2)) in
      set_ownership_in_bucket_b b (s3, bs1) id
  | None =>
      let s2 := set_owner s1 (arem N.eqb id (owner s1)) in
      Ok (set_burned s2 (id :: burned s2), bs1)
  end.

(* the calls of the consecutive contract *)
Definition exec_b (b : bcfg) (c : cfg) (sb : bstate) (cl : call) : res (bstate * option N) :=
  let '(s, bs) := sb in
  match cl with
  | Advance n => Ok ((set_now s (now s + Z.of_N n)%Z, bs), None)
  | MintSeq _ | MintId _ _ => Fail
  | BatchMint to amount =>
      do _ <- guard (negb (amount =? 0) && (amount <=? max_batch c));
      do '(s1, first) <- increment_token_id s amount;
      do s2 <- increase_balance s1 to amount;
      let last := first + amount - 1 in
      do '(s3, bs3) <- set_ownership_in_bucket_b b (s2, bs) last;
      Ok ((set_owner s3 (aset N.eqb last to (owner s3)), bs3), Some last)
  | Transfer auths from to id =>
      do _ <- guard (has_auth auths from);
      do sb1 <- update_b b sb (Some from) (Some to) id;
      Ok (sb1, None)
  | TransferFrom auths spender from to id =>
      do _ <- guard (has_auth auths spender);
      do _ <- check_spender_approval s spender from id;
      do sb1 <- update_b b sb (Some from) (Some to) id;
      Ok (sb1, None)
  | Burn auths from id =>
      do _ <- guard (has_auth auths from);
      do sb1 <- update_b b sb (Some from) None id;
      Ok (sb1, None)
  | BurnFrom auths spender from id =>
      do _ <- guard (has_auth auths spender);
      do _ <- check_spender_approval s spender from id;
      do sb1 <- update_b b sb (Some from) None id;
      Ok (sb1, None)
  | Approve auths approver approved id lu =>
      do _ <- guard (has_auth auths approver);
      do o <- of_option (cons_owner_of_b b sb id);
      do s1 <- approve_for_owner c s o approver approved id lu;
      Ok ((s1, bs), None)
  | ApproveForAll auths o op lu =>
      do s1 <- approve_for_all c s auths o op lu;
      Ok ((s1, bs), None)
  end.

Definition step_b (b : bcfg) (c : cfg) (sb : bstate) (cl : call) : bstate * outcome :=
  match exec_b b c sb cl with
  | Ok (sb', r) => (sb', Ok r)
  | Fail => (sb, Fail)
  end.
Definition run_b (b : bcfg) (c : cfg) (sb : bstate) (cs : list call) : bstate :=
  fold_left (fun st cl => fst (step_b b c st cl)) cs sb.
Definition init_b (now0 : Z) : bstate := (init now0, []).
