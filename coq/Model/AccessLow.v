(* C06, the low-level entry points of packages/access/src/access_control/storage.rs that carry NO
   authorisation check and are meant for constructors and for entry points with their own checks:
   grant_role_no_auth, revoke_role_no_auth, set_role_admin_no_auth, remove_role_admin_no_auth, and the two
   guards ensure_if_admin_or_admin_role / ensure_role called directly.  The example constructors
   (fee-forwarder-permissioned, timelock-controller, fungible-allowlist, ...) reach grant_role_no_auth with
   caller-supplied account lists: a constructor is modelled as set_admin followed by the list of
   (account, role) pairs it grants, in order, duplicates included.
   The tables are those of Model/Access.v; every ordinary call of that model is a call of this machine. *)
From SC Require Import Lib.Prelude Lib.Int Lib.Host Model.RoleTransfer Model.Access.

(* grant_role_no_auth: return early if the account already has the role, else add_to_role_enumeration *)
Definition grant_role_no_auth (c : cfg) (s : st) (account : addr) (r : role) : res st :=
  if has_role s account r then Ok s else add_to_role_enumeration c s account r.

(* revoke_role_no_auth: RoleNotHeld unless held; remove_from_role_enumeration; remove the HasRole key *)
Definition revoke_role_no_auth (s : st) (account : addr) (r : role) : res st :=
  do _c <- guard (has_role s account r);
  do s1 <- remove_from_role_enumeration s account r;
  Ok {| a_now := a_now s1; a_rt := a_rt s1; a_role_admin := a_role_admin s1;
        a_has := upd2 (a_has s1) account r None; a_member := a_member s1; a_count := a_count s1;
        a_existing := a_existing s1; a_nft := a_nft s1 |}.

(* set_role_admin_no_auth *)
Definition set_role_admin_no_auth (s : st) (r ar : role) : res st :=
  Ok {| a_now := a_now s; a_rt := a_rt s; a_role_admin := upd (a_role_admin s) r (Some ar);
        a_has := a_has s; a_member := a_member s; a_count := a_count s;
        a_existing := a_existing s; a_nft := a_nft s |}.

(* remove_role_admin_no_auth: AdminRoleNotFound unless the key exists *)
Definition remove_role_admin_no_auth (s : st) (r : role) : res st :=
  if is_some (a_role_admin s r)
  then Ok {| a_now := a_now s; a_rt := a_rt s; a_role_admin := upd (a_role_admin s) r None;
             a_has := a_has s; a_member := a_member s; a_count := a_count s;
             a_existing := a_existing s; a_nft := a_nft s |}
  else Fail.

Inductive lcall :=
| LCall (cl : Access.call)                          (* any entry point of Model/Access.v *)
| GrantNoAuth (account : addr) (r : role)
| RevokeNoAuth (account : addr) (r : role)
| SetRoleAdminNoAuth (r ar : role)
| RemoveRoleAdminNoAuth (r : role)
| RemoveCountNoAuth (r : role) (answer : bool)      (* remove_role_accounts_count_no_auth: refused while the role has members
                                                       (RoleCountIsNotZero); without members it succeeds iff the count KEY still exists.
                                                       Key presence is not part of the model (an absent key reads 0), so for an
                                                       empty role the implementation's answer is an input of the call. *)
| EnsureAuthority (r : role) (caller : addr)        (* ensure_if_admin_or_admin_role(role, caller), nothing else *)
| EnsureRole (r : role) (caller : addr).            (* ensure_role(role, caller), nothing else *)

Definition lexec (c : cfg) (s : st) (cl : lcall) : res st :=
  match cl with
  | LCall cl => Access.exec c s cl
  | GrantNoAuth account r => grant_role_no_auth c s account r
  | RevokeNoAuth account r => revoke_role_no_auth s account r
  | SetRoleAdminNoAuth r ar => set_role_admin_no_auth s r ar
  | RemoveRoleAdminNoAuth r => remove_role_admin_no_auth s r
  | RemoveCountNoAuth r answer => if N.eqb (a_count s r) 0 && answer then Ok s else Fail
  | EnsureAuthority r caller => do _a <- guard (admin_or_admin_role s r caller); Ok s
  | EnsureRole r caller => do _a <- guard (has_role s caller r); Ok s
  end.

Definition lstep (c : cfg) (s : st) (cl : lcall) : st * bool :=
  match lexec c s cl with
  | Ok s' => (s', true)
  | Fail => (s, false)
  end.

Definition lrun (c : cfg) (s : st) (cs : list lcall) : st :=
  fold_left (fun s cl => fst (lstep c s cl)) cs s.

(* a constructor: set_admin(admin); then grant_role_no_auth for every listed pair, in order *)
Definition ctor_calls (pairs : list (addr * role)) : list lcall :=
  map (fun p => GrantNoAuth (fst p) (snd p)) pairs.
Definition linit (c : cfg) (start : Z) (admin : option addr) (pairs : list (addr * role)) : st :=
  lrun c (Access.init start admin) (ctor_calls pairs).

(* what the code would be WITHOUT the early return of grant_role_no_auth (kept only for the refutation
   pinned in Properties/C06.v: the early return is what makes a constructor list a set) *)
Definition grant_role_no_auth_always_add (c : cfg) (s : st) (account : addr) (r : role) : res st :=
  add_to_role_enumeration c s account r.
Definition bad_ctor (c : cfg) (start : Z) (admin : option addr) (pairs : list (addr * role)) : st :=
  fold_left (fun s p => match grant_role_no_auth_always_add c s (fst p) (snd p) with Ok s' => s' | Fail => s end)
            pairs (Access.init start admin).
