(* C18 - model of packages/accounts/src/verifiers/utils/base64_url.rs and an independent
   statement of RFC 4648 section 5 (base64url) without padding.

   Bytes are [Z] in 0..255 (usize arithmetic on them never overflows: the largest
   intermediate value is < 2^24).  The Rust function writes into a caller-supplied
   destination slice; an out-of-bounds write is a panic = [Fail]. *)
From SC Require Import Lib.Prelude.

Definition is_byte (b : Z) : bool := (0 <=? b) && (b <? 256).
Definition bytes_ok (l : list Z) : bool := forallb is_byte l.

(* ------------------------------------------------------------------ *)
(* 1. The code                                                         *)
(* ------------------------------------------------------------------ *)

(* const ALPHABET: &[u8] = b"ABCDEFGHIJKLMNOPQRSTUVWXYZabcdefghijklmnopqrstuvwxyz0123456789-_"; *)
Definition ALPHABET : list Z :=
  [ 65; 66; 67; 68; 69; 70; 71; 72; 73; 74; 75; 76; 77; 78; 79; 80; 81; 82; 83; 84; 85; 86;
    87; 88; 89; 90;
    97; 98; 99; 100; 101; 102; 103; 104; 105; 106; 107; 108; 109; 110; 111; 112; 113; 114;
    115; 116; 117; 118; 119; 120; 121; 122;
    48; 49; 50; 51; 52; 53; 54; 55; 56; 57;
    45; 95 ].

(* ALPHABET[i]; every index used by the code is masked with 0x3F, hence in range *)
Definition alpha (i : Z) : Z := nth (Z.to_nat i) ALPHABET 0.

(* val >> sh & 0x3F *)
Definition sextet (val sh : Z) : Z := Z.land (Z.shiftr val sh) 63.

(* (src[si] as usize) << 16 | (src[si+1] as usize) << 8 | (src[si+2] as usize) *)
Definition val3 (a b c : Z) : Z := Z.lor (Z.lor (Z.shiftl a 16) (Z.shiftl b 8)) c.
(* remain = 2:  (src[si] as usize) << 16, then  val |= (src[si+1] as usize) << 8 *)
Definition val2 (a b : Z) : Z := Z.lor (Z.shiftl a 16) (Z.shiftl b 8).
(* remain = 1 *)
Definition val1 (a : Z) : Z := Z.shiftl a 16.

(* dst[i] = v : panics when i is out of bounds *)
Fixpoint put (dst : list Z) (i : nat) (v : Z) : res (list Z) :=
  match dst, i with
  | [], _ => Fail
  | _ :: r, O => Ok (v :: r)
  | x :: r, S k => do r' <- put r k v; Ok (x :: r')
  end.

(* base64_url_encode(dst, src), the part of [src] not yet consumed being the argument
   (si = src.len() - |src|), [di] the write index.  The [while si < n] loop with
   n = (src.len() / 3) * 3 consumes whole triples; what is left is 0, 1 or 2 bytes. *)
Fixpoint encode_loop (src : list Z) (dst : list Z) (di : nat) : res (list Z) :=
  match src with
  | [] => Ok dst                                        (* remain == 0: return *)
  | [a] =>                                              (* remain == 1 *)
      let val := val1 a in
      do d <- put dst di (alpha (sextet val 18));
      put d (di + 1) (alpha (sextet val 12))
  | [a; b] =>                                           (* remain == 2 *)
      let val := val2 a b in
      do d <- put dst di (alpha (sextet val 18));
      do d <- put d (di + 1) (alpha (sextet val 12));
      put d (di + 2) (alpha (sextet val 6))
  | a :: b :: c :: rest =>                              (* loop body, si += 3, di += 4 *)
      let val := val3 a b c in
      do d <- put dst di (alpha (sextet val 18));
      do d <- put d (di + 1) (alpha (sextet val 12));
      do d <- put d (di + 2) (alpha (sextet val 6));
      do d <- put d (di + 3) (alpha (Z.land val 63));
      encode_loop rest d (di + 4)
  end.

Definition encode_into (dst src : list Z) : res (list Z) := encode_loop src dst 0.

(* the characters the code produces, as a plain function of the source bytes *)
Fixpoint encode (src : list Z) : list Z :=
  match src with
  | [] => []
  | [a] => let val := val1 a in [alpha (sextet val 18); alpha (sextet val 12)]
  | [a; b] =>
      let val := val2 a b in [alpha (sextet val 18); alpha (sextet val 12); alpha (sextet val 6)]
  | a :: b :: c :: rest =>
      let val := val3 a b c in
      alpha (sextet val 18) :: alpha (sextet val 12) :: alpha (sextet val 6)
        :: alpha (Z.land val 63) :: encode rest
  end.

(* ------------------------------------------------------------------ *)
(* 2. RFC 4648 section 5, no padding - written independently of the code *)
(* ------------------------------------------------------------------ *)

(* "the input is a stream of octets, the most significant bit first" *)
Definition byte_bits (b : Z) : list bool :=
  [Z.testbit b 7; Z.testbit b 6; Z.testbit b 5; Z.testbit b 4;
   Z.testbit b 3; Z.testbit b 2; Z.testbit b 1; Z.testbit b 0].
Definition bit_string (l : list Z) : list bool := flat_map byte_bits l.

(* "proceeding from left to right ... groups of 6 bits"; a final short group is
   filled with zero bits on the right *)
Fixpoint groups6 (bs : list bool) : list (list bool) :=
  match bs with
  | [] => []
  | b0 :: b1 :: b2 :: b3 :: b4 :: b5 :: r => [b0; b1; b2; b3; b4; b5] :: groups6 r
  | short => [short ++ repeat false (6 - length short)]
  end.

(* a group read as a 6-bit number, most significant bit first *)
Definition bits_val (g : list bool) : Z := fold_left (fun acc b => 2 * acc + Z.b2z b) g 0.

(* Table 2, "The URL and Filename safe Base 64 Alphabet":
   0..25 'A'..'Z', 26..51 'a'..'z', 52..61 '0'..'9', 62 '-', 63 '_' *)
Definition b64url_char (v : Z) : Z :=
  if v <? 26 then 65 + v
  else if v <? 52 then 97 + (v - 26)
  else if v <? 62 then 48 + (v - 52)
  else if v =? 62 then 45
  else 95.

(* no '=' is appended *)
Definition rfc4648_url_nopad (l : list Z) : list Z :=
  map (fun g => b64url_char (bits_val g)) (groups6 (bit_string l)).

(* ceil (4 n / 3) *)
Definition enc_len (n : Z) : Z := (4 * n + 2) / 3.

(* ------------------------------------------------------------------ *)
(* 3. The function literally as written: indices si / di, the bound n, the while loop
   (fuel = src.len(), never exhausted), then the remainder.  [Proofs/Base64.v] shows it
   equal to [encode_into]. *)
Definition idx (l : list Z) (i : nat) : res Z := of_option (nth_error l i).   (* src[i] *)

Fixpoint while_loop (fuel : nat) (src dst : list Z) (si di n : nat) : res (list Z * nat * nat) :=
  if (si <? n)%nat then
    match fuel with
    | O => Fail
    | S f =>
        do a <- idx src si; do b <- idx src (si + 1); do c <- idx src (si + 2);
        let val := val3 a b c in
        do d <- put dst di (alpha (sextet val 18));
        do d <- put d (di + 1) (alpha (sextet val 12));
        do d <- put d (di + 2) (alpha (sextet val 6));
        do d <- put d (di + 3) (alpha (Z.land val 63));
        while_loop f src d (si + 3) (di + 4) n
    end
  else Ok (dst, si, di).

Definition base64_url_encode (dst src : list Z) : res (list Z) :=
  let n := (length src / 3 * 3)%nat in
  do '(dst, si, di) <- while_loop (length src) src dst 0 0 n;
  let remain := (length src - si)%nat in
  if (remain =? 0)%nat then Ok dst
  else
    do a <- idx src si;
    let val := Z.shiftl a 16 in
    do val <- (if (remain =? 2)%nat
               then do b <- idx src (si + 1); Ok (Z.lor val (Z.shiftl b 8))
               else Ok val);
    do d <- put dst di (alpha (sextet val 18));
    do d <- put d (di + 1) (alpha (sextet val 12));
    if (remain =? 2)%nat then put d (di + 2) (alpha (sextet val 6)) else Ok d.
