(* C08: the property as a history machine ("ghost"), independent of how the code
   encodes operation states (sentinel ledgers 0/1, saturating ready ledger).

   For every operation id the history is in one of three situations:
     absent            never scheduled, or cancelled since the last scheduling
     GP at delay mind  scheduled (successfully) at ledger [at] with [delay], while the
                       minimum delay in force was [mind]; not cancelled / executed since
     GD                executed

   [gstep] consumes one event of a history - the call, the ledger and the minimum delay
   in force when it was made, and whether it succeeded - and returns [None] when the
   event violates the property text of C08:
     - a successful schedule needs an id that is neither pending nor done, a minimum
       delay that is set, and delay >= that minimum;
     - a successful execute needs a pending id whose delay has fully elapsed
       (at + delay, saturating at u32::MAX, <= now), a predecessor that is zero or
       executed, and (execute_operation) a target invocation that succeeded;
     - a successful cancel needs a pending id;
     - an executed id stays executed: nothing succeeds on it any more. *)
From SC Require Import Lib.Prelude Lib.Int Lib.Host Model.Timelock.

Inductive gst := GP (at_ delay mind : Z) | GD.
Definition ghost := list (id * gst).

Definition g_is_done (g : ghost) (i : id) : bool :=
  match alist_get i g with Some GD => true | _ => false end.

Section WithHash.
  Variable hash : op -> id.

  Definition g_execute (g : ghost) (now : Z) (o : op) : option ghost :=
    match alist_get (hash o) g with
    | Some (GP at_ d m) =>
        if (sat_add_u32 at_ d <=? now) && (N.eqb (pred o) 0 || g_is_done g (pred o))
        then Some (alist_set (hash o) GD g) else None
    | _ => None
    end.

  Definition gstep (g : ghost) (now : Z) (mind : option Z) (c : call) (ok : bool) : option ghost :=
    if negb ok then Some g
    else match c with
         | Schedule o d =>
             match alist_get (hash o) g, mind with
             | None, Some m => if (m <=? d) && in_u32 d then Some (alist_set (hash o) (GP now d m) g) else None
             | _, _ => None
             end
         | Execute o tgt_ok => if tgt_ok then g_execute g now o else None
         | SetExecute o => g_execute g now o
         | Cancel i =>
             match alist_get i g with
             | Some (GP _ _ _) => Some (alist_remove i g)
             | _ => None
             end
         | SetMinDelay _ | Advance _ => Some g
         end.

  (* one entry of a run log: the call, the ledger and the minimum delay in force when it
     was made, whether it succeeded *)
  Record hev := HE { he_call : call; he_now : Z; he_min : option Z; he_ok : bool }.

  Fixpoint gfold (g : ghost) (H : list hev) : option ghost :=
    match H with
    | [] => Some g
    | e :: r => match gstep g (he_now e) (he_min e) (he_call e) (he_ok e) with
                | Some g' => gfold g' r
                | None => None
                end
    end.

  (* several successful calls made at one ledger (one invocation of the controller) *)
  Fixpoint gfeed (g : ghost) (now : Z) (mind : option Z) (cs : list call) : option ghost :=
    match cs with
    | [] => Some g
    | c :: r => match gstep g now mind c true with Some g' => gfeed g' now mind r | None => None end
    end.

  (* the id a call is about *)
  Definition subject (c : call) : option id :=
    match c with
    | Schedule o _ | Execute o _ | SetExecute o => Some (hash o)
    | Cancel i => Some i
    | SetMinDelay _ | Advance _ => None
    end.
  (* the operation an execute-kind call runs *)
  Definition executes (c : call) : option op :=
    match c with Execute o _ | SetExecute o => Some o | _ => None end.

  (* the run log of the model *)
  Fixpoint hist (s : state) (cs : list call) : list hev :=
    match cs with
    | [] => []
    | c :: r => HE c (now (tls s)) (min_delay (tls s)) (is_ok (snd (step hash s c)))
                :: hist (fst (step hash s c)) r
    end.
End WithHash.
Arguments HE _ _ _ _ : clear implicits.
