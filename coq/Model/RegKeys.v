(* C20 / registry 4: claim-issuer signing keys
   (packages/tokens/src/rwa/claim_issuer/storage.rs: allow_key, remove_key and getters).
   Two storage keys, the two directions of the key/topic relation:
   Topics(topic) -> Vec<SigningKey>, Pairs(key) -> Vec<(topic, registry)>.
   The registry's answer to has_claim_topic(this contract, topic) is an input of the call. *)
From SC Require Import Lib.Prelude Model.SwapPop Model.RegCommon.
Local Open Scope nat_scope.

Record ck_cfg := { ck_max_keys : nat;     (* MAX_KEYS_PER_TOPIC *)
                   ck_max_regs : nat }.   (* MAX_REGISTRIES_PER_KEY *)

(* SigningKey { public_key, scheme }; public key id 0 denotes the EMPTY byte string *)
Notation skey := (N * N)%type (only parsing).
Definition skey_eqb : skey -> skey -> bool := pair_eqb N.eqb N.eqb.
Lemma skey_eqb_spec : forall a b, skey_eqb a b = true <-> a = b.
Proof. apply pair_eqb_spec; apply N.eqb_eq. Qed.
Notation kpair := (N * addr)%type (only parsing).           (* (claim_topic, registry) *)
Definition kpair_eqb : kpair -> kpair -> bool := pair_eqb N.eqb N.eqb.
Lemma kpair_eqb_spec : forall a b, kpair_eqb a b = true <-> a = b.
Proof. apply pair_eqb_spec; apply N.eqb_eq. Qed.

Record ck_state := { ck_topics : list (N * list skey);        (* Topics(topic) *)
                     ck_pairs : list (skey * list kpair) }.   (* Pairs(key) *)
Definition ck_init : ck_state := {| ck_topics := []; ck_pairs := [] |}.

Definition kt_get (m : list (N * list skey)) (t : N) := aget N.eqb t m.
Definition kt_set (m : list (N * list skey)) (t : N) (v : list skey) := aset N.eqb t v m.
Definition kt_del (m : list (N * list skey)) (t : N) := adel N.eqb t m.
Definition kp_get (m : list (skey * list kpair)) (k : skey) := aget skey_eqb k m.
Definition kp_set (m : list (skey * list kpair)) (k : skey) (v : list kpair) := aset skey_eqb k v m.
Definition kp_del (m : list (skey * list kpair)) (k : skey) := adel skey_eqb k m.

(* ---- getters ---- *)
Definition ck_keys_for_topic (s : ck_state) (t : N) : res (list skey) :=
  of_option (kt_get (ck_topics s) t).                               (* NoKeysForTopic *)
Definition ck_registries (s : ck_state) (k : skey) : res (list addr) :=
  do ps <- of_option (kp_get (ck_pairs s) k); Ok (map snd ps).      (* KeyNotFound *)
Definition ck_allowed_for_topic (s : ck_state) (k : skey) (t : N) : bool :=
  match kt_get (ck_topics s) t with Some ks => memb skey_eqb k ks | None => false end.
Definition ck_allowed_for_registry (s : ck_state) (k : skey) (r : addr) : bool :=
  match kp_get (ck_pairs s) k with Some ps => existsb (fun p => N.eqb (snd p) r) ps | None => false end.

(* ---- allow_key (the code as fixed by commit a47411c: length test BEFORE the push) ---- *)
Definition ck_allow (c : ck_cfg) (s : ck_state) (pk : N) (reg : addr) (scheme : N) (t : N)
           (has : res bool) : res ck_state :=
  if (pk =? 0)%N then Fail                                           (* KeyIsEmpty *)
  else match has with
       | Fail => Fail                                                (* the registry call trapped *)
       | Ok false => Fail                                            (* NotAllowed *)
       | Ok true =>
           let k : skey := (pk, scheme) in
           do topics1 <- (if ck_allowed_for_topic s k t then Ok (ck_topics s)
                          else
                            let ks := match kt_get (ck_topics s) t with Some ks => ks | None => [] end in
                            if ck_max_keys c <=? length ks then Fail        (* LimitExceeded *)
                            else Ok (kt_set (ck_topics s) t (ks ++ [k])));
           let ps := match kp_get (ck_pairs s) k with Some ps => ps | None => [] end in
           if memb kpair_eqb (t, reg) ps then Fail                   (* KeyAlreadyAllowed *)
           else if ck_max_regs c <=? length ps then Fail             (* LimitExceeded *)
           else Ok {| ck_topics := topics1; ck_pairs := kp_set (ck_pairs s) k (ps ++ [(t, reg)]) |}
       end.

(* the code BEFORE the fix (defect F5): push first, then `len >= MAX` *)
Definition ck_allow_prefix (c : ck_cfg) (s : ck_state) (pk : N) (reg : addr) (scheme : N) (t : N)
           (has : res bool) : res ck_state :=
  if (pk =? 0)%N then Fail
  else match has with
       | Fail => Fail
       | Ok false => Fail
       | Ok true =>
           let k : skey := (pk, scheme) in
           do topics1 <- (if ck_allowed_for_topic s k t then Ok (ck_topics s)
                          else
                            let ks := match kt_get (ck_topics s) t with Some ks => ks | None => [] end in
                            if ck_max_keys c <=? length ks then Fail
                            else Ok (kt_set (ck_topics s) t (ks ++ [k])));
           let ps := match kp_get (ck_pairs s) k with Some ps => ps | None => [] end in
           if memb kpair_eqb (t, reg) ps then Fail
           else
             let ps' := ps ++ [(t, reg)] in
             if ck_max_regs c <=? length ps' then Fail
             else Ok {| ck_topics := topics1; ck_pairs := kp_set (ck_pairs s) k ps' |}
       end.

(* ---- remove_key ---- *)
Definition ck_remove (s : ck_state) (pk : N) (reg : addr) (scheme : N) (t : N) : res ck_state :=
  let k : skey := (pk, scheme) in
  do ps <- of_option (kp_get (ck_pairs s) k);                        (* KeyNotFound *)
  do pos <- of_option (index_of kpair_eqb (t, reg) ps);              (* KeyNotFound *)
  let ps' := remove_at pos ps in
  let pairs' := match ps' with [] => kp_del (ck_pairs s) k | _ => kp_set (ck_pairs s) k ps' end in
  if existsb (fun p => N.eqb (fst p) t) ps' then
    Ok {| ck_topics := ck_topics s; ck_pairs := pairs' |}
  else
    do ks <- of_option (kt_get (ck_topics s) t);                     (* .expect(...) *)
    do kpos <- of_option (index_of skey_eqb k ks);                   (* .expect("key must be in topic keys") *)
    let ks' := remove_at kpos ks in
    Ok {| ck_topics := match ks' with [] => kt_del (ck_topics s) t | _ => kt_set (ck_topics s) t ks' end;
          ck_pairs := pairs' |}.

(* ---- calls, queries, answers ---- *)
Inductive ck_call :=
| CkAllow (pk : N) (reg : addr) (scheme : N) (t : N) (has : res bool)
| CkRemove (pk : N) (reg : addr) (scheme : N) (t : N).

Definition ck_step (c : ck_cfg) (s : ck_state) (k : ck_call) : res (ck_state * unit) :=
  match k with
  | CkAllow pk reg sch t has => do s' <- ck_allow c s pk reg sch t has; Ok (s', tt)
  | CkRemove pk reg sch t => do s' <- ck_remove s pk reg sch t; Ok (s', tt)
  end.
Definition ck_step_prefix (c : ck_cfg) (s : ck_state) (k : ck_call) : res (ck_state * unit) :=
  match k with
  | CkAllow pk reg sch t has => do s' <- ck_allow_prefix c s pk reg sch t has; Ok (s', tt)
  | CkRemove pk reg sch t => do s' <- ck_remove s pk reg sch t; Ok (s', tt)
  end.

Inductive ck_query :=
| KqKeysForTopic (t : N)
| KqRegistries (k : skey)
| KqAllowedTopic (k : skey) (t : N)
| KqAllowedRegistry (k : skey) (r : addr).

Inductive ck_ans :=
| KaKeys (r : res (list skey))
| KaRegs (r : res (list addr))
| KaBool (b : bool)
| KaTrap.

Definition ck_answer (s : ck_state) (q : ck_query) : ck_ans :=
  match q with
  | KqKeysForTopic t => KaKeys (ck_keys_for_topic s t)
  | KqRegistries k => KaRegs (ck_registries s k)
  | KqAllowedTopic k t => KaBool (ck_allowed_for_topic s k t)
  | KqAllowedRegistry k r => KaBool (ck_allowed_for_registry s k r)
  end.

Definition ck_ans_eqb (a b : ck_ans) : bool :=
  match a, b with
  | KaKeys x, KaKeys y => res_eqb (list_eqb skey_eqb) x y
  | KaRegs x, KaRegs y => res_eqb (list_eqb N.eqb) x y
  | KaBool x, KaBool y => Bool.eqb x y
  | KaTrap, KaTrap => true
  | _, _ => false
  end.
