(* C04 - executable model of the RWA token (packages/tokens/src/rwa/storage.rs) over its own
   small fungible balance/allowance core (packages/tokens/src/fungible/storage.rs: Base::update,
   set_allowance, spend_allowance, allowance_data) and the pausable flag
   (packages/contract-utils/src/pausable/storage.rs).

   Transcribed function by function, guard by guard, in the order of the code.
   * i128 values are Z with the range checks of the Rust written out (plain + / - under
     overflow-checks = trap = Fail).
   * The compliance contract and the identity verifier are external collaborators: their
     answers are INPUTS of every call (record [oracle]); everything the token asks them or tells
     them is appended to a per-call log (an observation).
   * The wrappers of the harness token contract (harness/src/bin/c04.rs) add
     [operator.require_auth()] / [caller.require_auth()] in front of the supervisory library
     functions, exactly like the RWAToken trait prescribes (`operator: Address`). *)
From SC Require Import Lib.Prelude Lib.Int Lib.Host.

(* ------------------------------------------------------------------ *)
(* pointwise updates of total maps                                      *)
Definition upd {V} (f : addr -> V) (a : addr) (v : V) : addr -> V :=
  fun x => if N.eqb x a then v else f x.
Definition upd2 {V} (f : addr -> addr -> V) (a b : addr) (v : V) : addr -> addr -> V :=
  fun x y => if N.eqb x a && N.eqb y b then v else f x y.

Lemma upd_same {V} (f : addr -> V) a v : upd f a v a = v.
Proof. unfold upd. rewrite N.eqb_refl. reflexivity. Qed.
Lemma upd_other {V} (f : addr -> V) a v x : x <> a -> upd f a v x = f x.
Proof. unfold upd. intros H. destruct (N.eqb x a) eqn:E; auto. apply N.eqb_eq in E. contradiction. Qed.

(* ------------------------------------------------------------------ *)
(* what the collaborators are asked (Q..) and told (N..)                *)
Inductive iev :=                       (* identity verifier *)
| QVerify (a : addr)                   (* verify_identity(a) *)
| QRecovery (old : addr).              (* recovery_target(old) *)
Inductive cev :=                       (* compliance contract; every call also carries the token
                                          address, a wrong one is logged as CBadToken *)
| QCanTransfer (from to : addr) (amt : Z)
| QCanCreate (to : addr) (amt : Z)
| NTransferred (from to : addr) (amt : Z)
| NCreated (to : addr) (amt : Z)
| NDestroyed (from : addr) (amt : Z)
| CBadToken.

(* the notifications (as opposed to the questions) *)
Definition is_notif (e : cev) : bool :=
  match e with NTransferred _ _ _ | NCreated _ _ | NDestroyed _ _ | CBadToken => true | _ => false end.

(* tokens that must come out of the frozen part when [amt] leaves an account holding balance [b]
   of which [f] are frozen: the part of the amount the free tokens do not cover *)
Definition unfrozen_by (b f amt : Z) : Z := Z.max 0 (amt - (b - f)).

(* the collaborators' answers during one call *)
Record oracle := mkOracle {
  o_verified : list addr;              (* verify_identity(a) returns iff a is listed, else panics *)
  o_can_transfer : bool;               (* can_transfer answers `true`; false = it answers false OR does not answer
                                          (raises an error, traps, returns a non-bool): the token calls
                                          `client.can_transfer(..)`, so either way the call fails as a whole *)
  o_can_create : bool;                 (* likewise can_create *)
  o_recovery : list (addr * addr)      (* recovery_target(old) = alist_get old *)
}.
Definition idv_ok (o : oracle) (a : addr) : bool := existsb (N.eqb a) (o_verified o).
Definition recovery_target (o : oracle) (old : addr) : option addr := alist_get old (o_recovery o).

(* ------------------------------------------------------------------ *)
Record state := mkState {
  now : Z;                                         (* ledger sequence number *)
  paused : bool;                                   (* PausableStorageKey::Paused *)
  supply : Z;                                      (* FungibleStorageKey::TotalSupply *)
  bal : addr -> Z;                                 (* FungibleStorageKey::Balance *)
  frozen : addr -> Z;                              (* RWAStorageKey::FrozenTokens *)
  aflag : addr -> bool;                            (* RWAStorageKey::AddressFrozen *)
  allow : addr -> addr -> option (tentry (Z * Z)); (* temporary Allowance{owner,spender} -> (amount, live_until_ledger) *)
  cmp_set : bool;                                  (* RWAStorageKey::Compliance present *)
  idv_set : bool;                                  (* RWAStorageKey::IdentityVerifier present *)
  cmp_at : addr;                                   (* ... and the compliance contract it names (meaningful when present) *)
  idv_at : addr;                                   (* ... and the identity verifier it names *)
  idv_log : list iev;                              (* calls received by the identity verifier during the current call *)
  cmp_log : list cev                               (* calls received by the compliance contract during the current call *)
}.

Definition init : state :=
  mkState 0 false 0 (fun _ => 0) (fun _ => 0) (fun _ => false) (fun _ _ => None) false false 0%N 0%N [] [].

Definition set_now s v := mkState v (paused s) (supply s) (bal s) (frozen s) (aflag s) (allow s) (cmp_set s) (idv_set s) (cmp_at s) (idv_at s) (idv_log s) (cmp_log s).
Definition set_paused s v := mkState (now s) v (supply s) (bal s) (frozen s) (aflag s) (allow s) (cmp_set s) (idv_set s) (cmp_at s) (idv_at s) (idv_log s) (cmp_log s).
Definition set_supply s v := mkState (now s) (paused s) v (bal s) (frozen s) (aflag s) (allow s) (cmp_set s) (idv_set s) (cmp_at s) (idv_at s) (idv_log s) (cmp_log s).
Definition set_bal s v := mkState (now s) (paused s) (supply s) v (frozen s) (aflag s) (allow s) (cmp_set s) (idv_set s) (cmp_at s) (idv_at s) (idv_log s) (cmp_log s).
Definition set_frozen s v := mkState (now s) (paused s) (supply s) (bal s) v (aflag s) (allow s) (cmp_set s) (idv_set s) (cmp_at s) (idv_at s) (idv_log s) (cmp_log s).
Definition set_aflag s v := mkState (now s) (paused s) (supply s) (bal s) (frozen s) v (allow s) (cmp_set s) (idv_set s) (cmp_at s) (idv_at s) (idv_log s) (cmp_log s).
Definition set_allow s v := mkState (now s) (paused s) (supply s) (bal s) (frozen s) (aflag s) v (cmp_set s) (idv_set s) (cmp_at s) (idv_at s) (idv_log s) (cmp_log s).
Definition set_cmp_set s v := mkState (now s) (paused s) (supply s) (bal s) (frozen s) (aflag s) (allow s) v (idv_set s) (cmp_at s) (idv_at s) (idv_log s) (cmp_log s).
Definition set_idv_set s v := mkState (now s) (paused s) (supply s) (bal s) (frozen s) (aflag s) (allow s) (cmp_set s) v (cmp_at s) (idv_at s) (idv_log s) (cmp_log s).
Definition log_idv (ev : iev) s := mkState (now s) (paused s) (supply s) (bal s) (frozen s) (aflag s) (allow s) (cmp_set s) (idv_set s) (cmp_at s) (idv_at s) (idv_log s ++ [ev]) (cmp_log s).
Definition log_cmp (ev : cev) s := mkState (now s) (paused s) (supply s) (bal s) (frozen s) (aflag s) (allow s) (cmp_set s) (idv_set s) (cmp_at s) (idv_at s) (idv_log s) (cmp_log s ++ [ev]).
Definition set_cmp_at s v := mkState (now s) (paused s) (supply s) (bal s) (frozen s) (aflag s) (allow s) true (idv_set s) v (idv_at s) (idv_log s) (cmp_log s).
Definition set_idv_at s v := mkState (now s) (paused s) (supply s) (bal s) (frozen s) (aflag s) (allow s) (cmp_set s) true (cmp_at s) v (idv_log s) (cmp_log s).
Definition clear_logs s := mkState (now s) (paused s) (supply s) (bal s) (frozen s) (aflag s) (allow s) (cmp_set s) (idv_set s) (cmp_at s) (idv_at s) [] [].

(* plain `+` / `-` on i128 with overflow checks on *)
Definition add_i128 (a b : Z) : res Z := of_option (checked_add a b).
Definition sub_i128 (a b : Z) : res Z := of_option (checked_sub a b).

(* ------------------------------------------------------------------ *)
(* fungible core                                                        *)

(* Base::update *)
Definition update (from to : option addr) (amt : Z) (s : state) : res state :=
  do _ <- guard (0 <=? amt);                                   (* amount < 0 -> LessThanZero *)
  do s1 <- match from with
           | Some a =>
               do _ <- guard (amt <=? bal s a);                (* from_balance < amount -> InsufficientBalance *)
               do nb <- sub_i128 (bal s a) amt;                (* from_balance -= amount *)
               Ok (set_bal s (upd (bal s) a nb))
           | None =>
               do ns <- add_i128 (supply s) amt;               (* total_supply.checked_add(amount) *)
               Ok (set_supply s ns)
           end;
  match to with
  | Some a =>
      do nb <- add_i128 (bal s1 a) amt;                        (* Base::balance(e, account) + amount *)
      Ok (set_bal s1 (upd (bal s1) a nb))
  | None =>
      do ns <- sub_i128 (supply s1) amt;                       (* Base::total_supply(e) - amount *)
      Ok (set_supply s1 ns)
  end.

(* Base::allowance_data *)
Definition allowance_data (s : state) (owner spender : addr) : Z * Z :=
  let d := match tget (now s) (allow s owner spender) with Some d => d | None => (0, 0) end in
  if snd d <? now s then (0, 0) else d.
Definition allowance (s : state) (owner spender : addr) : Z := fst (allowance_data s owner spender).

(* Base::set_allowance *)
Definition set_allowance (hc : hostcfg) (owner spender : addr) (amt live : Z) (s : state) : res state :=
  do _ <- guard (0 <=? amt);                                   (* LessThanZero *)
  do _ <- guard (negb ((max_live_until hc (now s) <? live) || ((0 <? amt) && (live <? now s))));
                                                               (* InvalidLiveUntilLedger *)
  let e1 := tset hc (now s) (allow s owner spender) (amt, live) in
  if 0 <? amt then
    let live_for := live - now s in
    do e2 <- textend hc (now s) e1 live_for live_for;
    Ok (set_allow s (upd2 (allow s) owner spender e2))
  else Ok (set_allow s (upd2 (allow s) owner spender e1)).

(* Base::spend_allowance *)
Definition spend_allowance (hc : hostcfg) (owner spender : addr) (amt : Z) (s : state) : res state :=
  do _ <- guard (0 <=? amt);                                   (* LessThanZero *)
  let d := allowance_data s owner spender in
  do _ <- guard (amt <=? fst d);                               (* InsufficientAllowance *)
  if 0 <? amt then
    do na <- sub_i128 (fst d) amt;
    set_allowance hc owner spender na (snd d) s
  else Ok s.

(* ------------------------------------------------------------------ *)
(* RWA                                                                  *)

(* the collaborators the token currently points at *)
Definition link_cmp (s : state) : option addr := if cmp_set s then Some (cmp_at s) else None.
Definition link_idv (s : state) : option addr := if idv_set s then Some (idv_at s) else None.

(* RWA::compliance / RWA::identity_verifier: panic when not set *)
Definition compliance_addr (s : state) : res unit := guard (cmp_set s).
Definition identity_verifier_addr (s : state) : res unit := guard (idv_set s).

(* IdentityVerifierClient::verify_identity(a): logged by the verifier, panics unless verified *)
Definition verify_identity (o : oracle) (a : addr) (s : state) : res state :=
  let s := log_idv (QVerify a) s in
  do _ <- guard (idv_ok o a); Ok s.

(* RWA::get_free_tokens: total_balance - frozen_tokens *)
Definition get_free_tokens (s : state) (a : addr) : res Z := sub_i128 (bal s a) (frozen s a).

(* RWA::validate_transfer *)
Definition validate_transfer (o : oracle) (from to : addr) (amt : Z) (s : state) : res state :=
  do _ <- guard (negb (paused s));                             (* EnforcedPause *)
  do _ <- guard (negb (aflag s from || aflag s to));           (* AddressFrozen *)
  do free <- get_free_tokens s from;
  do _ <- guard (negb (free <? amt));                          (* InsufficientFreeTokens *)
  do _ <- identity_verifier_addr s;
  do s <- verify_identity o from s;
  do s <- verify_identity o to s;
  do _ <- compliance_addr s;
  let s := log_cmp (QCanTransfer from to amt) s in
  do _ <- guard (o_can_transfer o);                            (* TransferNotCompliant *)
  Ok s.

(* RWA::transfer *)
Definition transfer (auths : list addr) (o : oracle) (from to : addr) (amt : Z) (s : state) : res state :=
  do _ <- guard (has_auth auths from);                         (* from.require_auth() *)
  do s <- validate_transfer o from to amt s;
  do s <- update (Some from) (Some to) amt s;
  do _ <- compliance_addr s;
  Ok (log_cmp (NTransferred from to amt) s).

(* RWA::transfer_from (current code, after fix a18c261) *)
Definition transfer_from (hc : hostcfg) (auths : list addr) (o : oracle) (spender from to : addr) (amt : Z)
  (s : state) : res state :=
  do _ <- guard (has_auth auths spender);                      (* spender.require_auth() *)
  do s <- validate_transfer o from to amt s;
  do s <- spend_allowance hc from spender amt s;
  do s <- update (Some from) (Some to) amt s;
  do _ <- compliance_addr s;
  Ok (log_cmp (NTransferred from to amt) s).

(* RWA::transfer_from as it was before the fix (finding F1): no validate_transfer *)
Definition transfer_from_prefix (hc : hostcfg) (auths : list addr) (o : oracle) (spender from to : addr) (amt : Z)
  (s : state) : res state :=
  do _ <- guard (has_auth auths spender);
  do s <- spend_allowance hc from spender amt s;
  do s <- update (Some from) (Some to) amt s;
  do _ <- compliance_addr s;
  Ok (log_cmp (NTransferred from to amt) s).

(* the block shared (textually duplicated) by forced_transfer and burn:
   "Check if we need to unfreeze tokens to complete the transfer/burn" *)
Definition unfreeze_needed (a : addr) (amt : Z) (s : state) : res state :=
  do free <- get_free_tokens s a;
  if free <? amt then
    do k <- sub_i128 amt free;                                 (* tokens_to_unfreeze *)
    do nf <- sub_i128 (frozen s a) k;                          (* current_frozen - tokens_to_unfreeze *)
    Ok (set_frozen s (upd (frozen s) a nf))
  else Ok s.

(* RWA::forced_transfer *)
Definition forced_transfer (from to : addr) (amt : Z) (s : state) : res state :=
  do _ <- guard (negb (bal s from <? amt));                    (* InsufficientBalance *)
  do s <- unfreeze_needed from amt s;
  do s <- update (Some from) (Some to) amt s;
  do _ <- compliance_addr s;
  Ok (log_cmp (NTransferred from to amt) s).

(* RWA::mint *)
Definition mint (o : oracle) (to : addr) (amt : Z) (s : state) : res state :=
  do _ <- identity_verifier_addr s;
  do s <- verify_identity o to s;
  do _ <- compliance_addr s;
  let s := log_cmp (QCanCreate to amt) s in
  do _ <- guard (o_can_create o);                              (* MintNotCompliant *)
  do s <- update None (Some to) amt s;
  Ok (log_cmp (NCreated to amt) s).

(* RWA::burn *)
Definition burn (a : addr) (amt : Z) (s : state) : res state :=
  do _ <- guard (negb (bal s a <? amt));                       (* amount > balance -> InsufficientBalance *)
  do s <- unfreeze_needed a amt s;
  do s <- update (Some a) None amt s;
  do _ <- compliance_addr s;
  Ok (log_cmp (NDestroyed a amt) s).

(* RWA::set_address_frozen *)
Definition set_address_frozen (a : addr) (v : bool) (s : state) : res state :=
  Ok (set_aflag s (upd (aflag s) a v)).

(* RWA::freeze_partial_tokens *)
Definition freeze_partial_tokens (a : addr) (amt : Z) (s : state) : res state :=
  do _ <- guard (0 <=? amt);                                   (* LessThanZero *)
  do nf <- add_i128 (frozen s a) amt;                          (* current_frozen + amount *)
  do _ <- guard (nf <=? bal s a);                              (* InsufficientBalance *)
  Ok (set_frozen s (upd (frozen s) a nf)).

(* RWA::unfreeze_partial_tokens *)
Definition unfreeze_partial_tokens (a : addr) (amt : Z) (s : state) : res state :=
  do _ <- guard (0 <=? amt);                                   (* LessThanZero *)
  do _ <- guard (amt <=? frozen s a);                          (* InsufficientFreeTokens *)
  do nf <- sub_i128 (frozen s a) amt;
  Ok (set_frozen s (upd (frozen s) a nf)).

(* RWA::recover_balance *)
Definition recover_balance (o : oracle) (old new : addr) (s : state) : res (bool * state) :=
  do _ <- identity_verifier_addr s;
  do s <- verify_identity o new s;
  let s := log_idv (QRecovery old) s in
  do target <- of_option (recovery_target o old);              (* None -> IdentityMismatch *)
  do _ <- guard (N.eqb target new);                            (* IdentityMismatch *)
  let lost := bal s old in
  if lost =? 0 then Ok (false, s)
  else
    let fz := frozen s old in
    let fl := aflag s old in
    do s <- forced_transfer old new lost s;
    do s <- (if 0 <? fz then freeze_partial_tokens new fz s else Ok s);
    do s <- (if fl then set_address_frozen new true s else Ok s);
    Ok (true, s).

(* pausable::pause / unpause *)
Definition pause (s : state) : res state :=
  do _ <- guard (negb (paused s)); Ok (set_paused s true).
Definition unpause (s : state) : res state :=
  do _ <- guard (paused s); Ok (set_paused s false).

(* ------------------------------------------------------------------ *)
(* calls                                                                *)
Inductive op :=
| Transfer (from to : addr) (amt : Z)
| TransferFrom (spender from to : addr) (amt : Z)
| Approve (owner spender : addr) (amt : Z) (live_until : Z)
| Mint (to : addr) (amt : Z) (operator : addr)
| Burn (a : addr) (amt : Z) (operator : addr)
| ForcedTransfer (from to : addr) (amt : Z) (operator : addr)
| RecoverBalance (old new : addr) (operator : addr)
| SetAddressFrozen (a : addr) (v : bool) (operator : addr)
| Freeze (a : addr) (amt : Z) (operator : addr)
| Unfreeze (a : addr) (amt : Z) (operator : addr)
| Pause (caller : addr)
| Unpause (caller : addr)
| SetCompliance (which : addr) (operator : addr)        (* points the token at the compliance contract [which] *)
| SetIdentityVerifier (which : addr) (operator : addr)  (* points the token at the identity verifier [which] *)
| Advance (n : Z).                         (* ledger sequence += n *)

(* [c_orc a] = the answers of the collaborator contract at address [a] during this call: the token
   must consult the contracts it CURRENTLY points at *)
Record call := mkCall { c_op : op; c_auths : list addr; c_orc : addr -> oracle }.

(* the answers the token actually gets: the identity questions go to the registered verifier,
   the compliance questions to the registered compliance contract *)
Definition eff_orc (s : state) (c : call) : oracle :=
  let oi := c_orc c (match link_idv s with Some a => a | None => 0%N end) in
  let oc := c_orc c (match link_cmp s with Some a => a | None => 0%N end) in
  mkOracle (o_verified oi) (o_can_transfer oc) (o_can_create oc) (o_recovery oi).

(* the argument types of the entry points: i128 amounts, u32 ledgers *)
Definition wf_op (s : state) (o : op) : bool :=
  match o with
  | Transfer _ _ amt | TransferFrom _ _ _ amt | Mint _ amt _ | Burn _ amt _
  | ForcedTransfer _ _ amt _ | Freeze _ amt _ | Unfreeze _ amt _ => in_i128 amt
  | Approve _ _ amt live => in_i128 amt && in_u32 live
  | Advance n => (0 <=? n) && in_u32 (now s + n)
  | _ => true
  end.

Definition ret := option bool.   (* None = (), Some b = bool *)

Definition unit_ret (r : res state) : res (ret * state) := do s <- r; Ok (None, s).

(* [tf] = the transfer_from implementation (current or pre-fix) *)
Definition exec_with (tf : hostcfg -> list addr -> oracle -> addr -> addr -> addr -> Z -> state -> res state)
  (hc : hostcfg) (c : call) (s : state) : res (ret * state) :=
  let au := c_auths c in
  let o := eff_orc s c in
  do _ <- guard (wf_op s (c_op c));
  match c_op c with
  | Transfer from to amt => unit_ret (transfer au o from to amt s)
  | TransferFrom sp from to amt => unit_ret (tf hc au o sp from to amt s)
  | Approve owner sp amt live =>
      unit_ret (do _ <- guard (has_auth au owner); set_allowance hc owner sp amt live s)
  | Mint to amt opr => unit_ret (do _ <- guard (has_auth au opr); mint o to amt s)
  | Burn a amt opr => unit_ret (do _ <- guard (has_auth au opr); burn a amt s)
  | ForcedTransfer from to amt opr => unit_ret (do _ <- guard (has_auth au opr); forced_transfer from to amt s)
  | RecoverBalance old new opr =>
      do _ <- guard (has_auth au opr);
      do '(b, s) <- recover_balance o old new s; Ok (Some b, s)
  | SetAddressFrozen a v opr => unit_ret (do _ <- guard (has_auth au opr); set_address_frozen a v s)
  | Freeze a amt opr => unit_ret (do _ <- guard (has_auth au opr); freeze_partial_tokens a amt s)
  | Unfreeze a amt opr => unit_ret (do _ <- guard (has_auth au opr); unfreeze_partial_tokens a amt s)
  | Pause cl => unit_ret (do _ <- guard (has_auth au cl); pause s)
  | Unpause cl => unit_ret (do _ <- guard (has_auth au cl); unpause s)
  | SetCompliance w opr => unit_ret (do _ <- guard (has_auth au opr); Ok (set_cmp_at s w))
  | SetIdentityVerifier w opr => unit_ret (do _ <- guard (has_auth au opr); Ok (set_idv_at s w))
  | Advance n => Ok (None, set_now s (now s + n))
  end.

(* one call: the logs are those of this call only; a failing call rolls everything back *)
Definition step_with tf (hc : hostcfg) (s : state) (c : call) : state * res ret :=
  let s0 := clear_logs s in
  match exec_with tf hc c s0 with
  | Ok (r, s') => (s', Ok r)
  | Fail => (s0, Fail)
  end.

Definition step := step_with transfer_from.
Definition step_prefix := step_with transfer_from_prefix.

Definition run_with tf (hc : hostcfg) (s : state) (cs : list call) : state :=
  fold_left (fun s c => fst (step_with tf hc s c)) cs s.
Definition run := run_with transfer_from.
Definition run_prefix := run_with transfer_from_prefix.

(* ------------------------------------------------------------------ *)
(* MUXED DESTINATIONS.  The entry point `FungibleToken::transfer(from, to: MuxedAddress, amount)`
   of an RWA token contract dispatches to `<RWA as ContractOverrides>::transfer`, whose destination
   is either a plain address or an (account) address carrying a 64-bit multiplexing id.  The
   override drops the id - `RWA::transfer(e, from, &to.address(), amount)` - so the id has no
   influence whatsoever on gates, balances or notifications: [Transfer from to amt] above IS that
   entry point, for every id.  [transfer_entry] writes it out; the harness sends destinations of
   both kinds (the id is kept in the trace, see [IMux] in Run/C04Token.v). *)
Inductive dest := Plain (a : addr) | Muxed (a : addr) (id : Z).
Definition dest_addr (d : dest) : addr := match d with Plain a => a | Muxed a _ => a end.
(* <RWA as ContractOverrides>::transfer *)
Definition transfer_entry (auths : list addr) (o : oracle) (from : addr) (to : dest) (amt : Z) (s : state) : res state :=
  transfer auths o from (dest_addr to) amt s.
(* the call term of a transfer whose destination was sent as a muxed address with id [id] *)
Definition mux_op (id : Z) (o : op) : op :=
  match o with
  | Transfer f t a => Transfer f (dest_addr (Muxed t id)) a
  | o' => o'
  end.
