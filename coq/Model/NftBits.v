(* Bit-level layer of consecutive/storage.rs: ownership buckets as vectors of machine words.
   set_ownership_in_bucket, find_bit_in_item, find_bit_in_bucket and the scan over buckets of
   Consecutive::owner_of, transcribed with the word width W (= u32::BITS = IDS_IN_ITEM) and the
   number of items per bucket I (= ITEMS_IN_BUCKET) as parameters.  Proofs/NftBits.v links this
   layer to the set level used by Model/Nft.v. *)
From SC Require Import Lib.Prelude Lib.Int Lib.Host Model.Nft.
Local Open Scope N_scope.

Record bcfg := { W : N; I : N }.                      (* bits per item, items per bucket *)
Definition ids_per_bucket (b : bcfg) : N := I b * W b.

Definition bucket := list N.                          (* Vec<u32>: I words *)
Definition buckets := list (N * bucket).              (* OwnershipBucket(index) -> bucket (persistent) *)

Fixpoint nth_item (l : bucket) (k : nat) : option N :=
  match l, k with
  | [], _ => None
  | x :: _, O => Some x
  | _ :: r, S k' => nth_item r k'
  end.
Fixpoint set_item (l : bucket) (k : nat) (v : N) : bucket :=
  match l, k with
  | [], _ => []
  | _ :: r, O => v :: r
  | x :: r, S k' => x :: set_item r k' v
  end.

(* (num & (1 << i)) != 0 *)
Definition has_bit (num i : N) : bool := negb (N.land num (N.shiftl 1 i) =? 0).

(* Consecutive::set_ownership_in_bucket (the part after the `token_id >= next_id` guard):
   Fail = the `expect("token_id out of allowed range")` *)
Definition set_ownership_bits (b : bcfg) (bs : buckets) (id : N) : res buckets :=
  let bucket_index := id / ids_per_bucket b in
  let bk := match aget N.eqb bucket_index bs with
            | Some x => x
            | None => repeat 0 (N.to_nat (I b))
            end in
  let relative_id := id mod ids_per_bucket b in
  let item_index := relative_id / W b in
  let bit_index := relative_id mod W b in
  let mask := N.shiftl 1 (W b - bit_index - 1) in
  do item <- of_option (nth_item bk (N.to_nat item_index));
  if negb (N.land item mask =? 0) then Ok bs
  else Ok (aset N.eqb bucket_index (set_item bk (N.to_nat item_index) (N.lor item mask)) bs).

(* find_bit_in_item: `for i in (0..=(last - start)).rev()`: positions start, start+1, .., last
   (MSB-relative), first one whose bit (last - pos) is set.  [n] = number of positions left. *)
Fixpoint find_from (num last pos : N) (n : nat) : option N :=
  match n with
  | O => None
  | S k => if has_bit num (last - pos) then Some pos else find_from num last (pos + 1) k
  end.
Definition find_bit_in_item (b : bcfg) (input : option N) (start : N) : option N :=
  match input with
  | None => None
  | Some num =>
      if num =? 0 then None
      else if W b <=? start then None
      else find_from num (W b - 1) start (N.to_nat (W b - start))
  end.

(* find_bit_in_bucket: items item_index .. len-1; [items] = the remaining items, i = index of its head *)
Fixpoint find_items (b : bcfg) (items : bucket) (i item_index relative_id : N) : option N :=
  match items with
  | [] => None
  | x :: r =>
      let from_id := if i =? item_index then relative_id else 0 in
      match find_bit_in_item b (Some x) from_id with
      | Some pos => Some (i * W b + pos)
      | None => find_items b r (i + 1) item_index relative_id
      end
  end.
Definition find_bit_in_bucket (b : bcfg) (bk : bucket) (start : N) : option N :=
  let len := N.of_nat (length bk) in
  if len * W b <=? start then None
  else
    let item_index := start / W b in
    let relative_id := start mod W b in
    find_items b (skipn (N.to_nat item_index) bk) item_index item_index relative_id.

(* the scan of Consecutive::owner_of over buckets bucket_index ..= last_bucket_index
   ([n] = number of buckets left, i = current bucket) *)
Fixpoint scan_buckets (b : bcfg) (bs : buckets) (i bucket_index relative_id : N) (n : nat) : option N :=
  match n with
  | O => None
  | S k =>
      match aget N.eqb i bs with
      | None => scan_buckets b bs (i + 1) bucket_index relative_id k
      | Some bk =>
          let from_id := if i =? bucket_index then relative_id else 0 in
          match find_bit_in_bucket b bk from_id with
          | Some pos => Some (i * ids_per_bucket b + pos)
          | None => scan_buckets b bs (i + 1) bucket_index relative_id k
          end
      end
  end.
Definition scan_bits (b : bcfg) (bs : buckets) (id last : N) : option N :=
  let ib := ids_per_bucket b in
  let bucket_index := id / ib in
  let last_bucket_index := last / ib in
  scan_buckets b bs bucket_index bucket_index (id mod ib) (N.to_nat (last_bucket_index + 1 - bucket_index)).

(* the buckets the code has written after setting the bits of [marks] (oldest first = last of the list) *)
Fixpoint buckets_of (b : bcfg) (marks : list N) : res buckets :=
  match marks with
  | [] => Ok []
  | m :: r => do bs <- buckets_of b r; set_ownership_bits b bs m
  end.
