(* C06, third contract: examples/fungible-allowlist.  Its AccessControl implementation is the same
   library code (Model/Access.v); the constructor grants "manager" with grant_role_no_auth and
   allows the admin; allow_user / disallow_user are #[only_role(operator, "manager")]. *)
From SC Require Import Lib.Prelude Lib.Int Lib.Host Model.RoleTransfer Model.Access.

Record alcfg := { al_c : cfg; al_manager : role }.
Record alst := { al_s : st; al_allowed : addr -> bool }.    (* AllowList: Allowed(account) key present *)

Inductive alcall :=
| ACall (cl : Access.call)                                   (* any AccessControl entry point *)
| AllowUser (user operator : addr) (auths : list addr)       (* #[only_role(operator, "manager")] allow_user *)
| DisallowUser (user operator : addr) (auths : list addr).   (* #[only_role(operator, "manager")] disallow_user *)

(* only_role: ensure_role(manager, operator); operator.require_auth(); then the body *)
Definition manager_guard (c : alcfg) (s : alst) (operator : addr) (auths : list addr) : bool :=
  has_role (al_s s) operator (al_manager c) && has_auth auths operator.

Definition al_step (c : alcfg) (s : alst) (cl : alcall) : alst * bool :=
  match cl with
  | ACall cl =>
      let '(s', ok) := Access.step (al_c c) (al_s s) cl in
      ({| al_s := s'; al_allowed := al_allowed s |}, ok)
  | AllowUser user operator auths =>
      if manager_guard c s operator auths
      then ({| al_s := al_s s; al_allowed := upd (al_allowed s) user true |}, true)
      else (s, false)
  | DisallowUser user operator auths =>
      if manager_guard c s operator auths
      then ({| al_s := al_s s; al_allowed := upd (al_allowed s) user false |}, true)
      else (s, false)
  end.

(* __constructor(name, symbol, admin, manager, supply): set_admin; grant_role_no_auth(manager, "manager");
   AllowList::allow_user(admin); mint.  grant_role_no_auth on the empty tables = an admin-authorised grant. *)
Definition al_init (c : alcfg) (start : Z) (admin manager_account : addr) : alst :=
  {| al_s := fst (Access.step (al_c c) (Access.init start (Some admin))
                    (Grant manager_account (al_manager c) admin [admin]));
     al_allowed := upd (fun _ => false) admin true |}.

Definition al_run (c : alcfg) (s : alst) (cs : list alcall) : alst :=
  fold_left (fun s cl => fst (al_step c s cl)) cs s.

Definition alobs := (aobs * list bool)%type.   (* AccessControl getters, allowed(account) for every account *)
Definition al_observe (u : universe) (s : alst) : alobs :=
  (Access.observe u (al_s s), map (al_allowed s) (u_accounts u)).
