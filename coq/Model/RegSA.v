(* C20 / registry 8: smart-account context rules
   (packages/accounts/src/smart_account/storage.rs: add/update/remove_context_rule,
   add/remove_signer, add/remove_policy, getters).
   Storage keys: Meta(id), Signers(id), Policies(id), Ids(context type) (persistent);
   NextId, Count (instance); Fingerprint(hash) (persistent, one per rule).
   The fingerprint sha256(xdr(context type) || xdr(sorted signers) || xdr(sorted policies))
   is idealised: two fingerprints are equal iff context type, signer SET and policy SET agree.
   Policy contracts are external: whether `install` succeeds is an input of the call;
   `uninstall` failures are ignored by the code (try_uninstall). *)
From SC Require Import Lib.Prelude Lib.Int Model.SwapPop Model.RegCommon.
Local Open Scope nat_scope.

Record sa_cfg := { sa_max_rules : nat;       (* MAX_CONTEXT_RULES *)
                   sa_max_signers : nat;     (* MAX_SIGNERS *)
                   sa_max_policies : nat;    (* MAX_POLICIES *)
                   sa_now : N }.             (* e.ledger().sequence() (constant within a trace) *)

(* the configuration at another ledger sequence number *)
Definition sa_with_now (c : sa_cfg) (now : N) : sa_cfg :=
  {| sa_max_rules := sa_max_rules c; sa_max_signers := sa_max_signers c; sa_max_policies := sa_max_policies c; sa_now := now |}.

Inductive signer := Delegated (a : addr) | External (a : addr) (k : N).
Inductive ctxt := CDefault | CCall (a : addr) | CCreate (h : N).

Definition signer_eqb (x y : signer) : bool :=
  match x, y with
  | Delegated a, Delegated b => N.eqb a b
  | External a k, External b j => N.eqb a b && N.eqb k j
  | _, _ => false
  end.
Lemma signer_eqb_spec x y : signer_eqb x y = true <-> x = y.
Proof.
  destruct x, y; cbn; try (split; congruence).
  - rewrite N.eqb_eq. split; congruence.
  - rewrite andb_true_iff, !N.eqb_eq. split; [intros [-> ->]; auto|intros H; inversion H; auto].
Qed.
Definition ctxt_eqb (x y : ctxt) : bool :=
  match x, y with
  | CDefault, CDefault => true
  | CCall a, CCall b => N.eqb a b
  | CCreate a, CCreate b => N.eqb a b
  | _, _ => false
  end.
Lemma ctxt_eqb_spec x y : ctxt_eqb x y = true <-> x = y.
Proof.
  destruct x, y; cbn; try (split; congruence); rewrite N.eqb_eq; split; congruence.
Qed.

(* The fingerprint: the code sorts the signer list and the policy list before hashing, so that
   two rules collide exactly when they have the same context type, the same SET of signers and
   the same SET of policies.  The hash is idealised accordingly: a fingerprint is the triple
   itself and two fingerprints are "the same storage key" when [fp_same] holds. *)
Notation fingerprint := (ctxt * list signer * list addr)%type (only parsing).
Definition fp_same (f g : fingerprint) : bool :=
  ctxt_eqb (fst (fst f)) (fst (fst g)) && seteqb signer_eqb (snd (fst f)) (snd (fst g))
  && seteqb N.eqb (snd f) (snd g).

(* compute_fingerprint: traps on a duplicate signer or policy *)
Definition sa_fp (cx : ctxt) (signers : list signer) (policies : list addr) : res fingerprint :=
  if negb (nodupb signer_eqb signers) then Fail            (* DuplicateSigner *)
  else if negb (nodupb N.eqb policies) then Fail           (* DuplicatePolicy *)
  else Ok (cx, signers, policies).

Record rule := { r_id : N; r_ctx : ctxt; r_name : N; r_signers : list signer;
                 r_policies : list addr; r_until : option N }.
Definition rule_eqb (a b : rule) : bool :=
  N.eqb (r_id a) (r_id b) && ctxt_eqb (r_ctx a) (r_ctx b) && N.eqb (r_name a) (r_name b)
  && list_eqb signer_eqb (r_signers a) (r_signers b) && list_eqb N.eqb (r_policies a) (r_policies b)
  && option_eqb N.eqb (r_until a) (r_until b).
Lemma rule_eqb_spec a b : rule_eqb a b = true <-> a = b.
Proof.
  destruct a, b. unfold rule_eqb. cbn.
  rewrite !andb_true_iff, !N.eqb_eq, ctxt_eqb_spec, (list_eqb_spec signer_eqb signer_eqb_spec),
    (list_eqb_spec N.eqb N.eqb_eq), (option_eqb_spec N.eqb N.eqb_eq).
  split.
  - intros [[[[[-> ->] ->] ->] ->] ->]. reflexivity.
  - intros H. inversion H. auto 10.
Qed.

Notation meta := (N * ctxt * option N)%type (only parsing).     (* name, context type, valid_until *)

Record sa_state := {
  sa_next : option N;                         (* NextId (instance; absent = 0) *)
  sa_count : option nat;                      (* Count (instance; absent = 0) *)
  sa_meta : list (N * meta);                  (* Meta(id) *)
  sa_signers : list (N * list signer);        (* Signers(id) *)
  sa_policies : list (N * list addr);         (* Policies(id) *)
  sa_ids : list (ctxt * list N);              (* Ids(context type) *)
  sa_fps : list fingerprint }.                (* Fingerprint(..) = true *)
Definition sa_init : sa_state :=
  {| sa_next := None; sa_count := None; sa_meta := []; sa_signers := []; sa_policies := [];
     sa_ids := []; sa_fps := [] |}.

Definition sa_count0 (s : sa_state) : nat := match sa_count s with Some n => n | None => 0 end.
Definition sa_ids_of (s : sa_state) (cx : ctxt) : list N :=
  match aget ctxt_eqb cx (sa_ids s) with Some l => l | None => [] end.

(* get_context_rule *)
Definition sa_get_rule (s : sa_state) (id : N) : res rule :=
  do m <- of_option (aget N.eqb id (sa_meta s));                       (* ContextRuleNotFound *)
  let '(name, cx, until) := m in
  let sg := match aget N.eqb id (sa_signers s) with Some l => l | None => [] end in
  let po := match aget N.eqb id (sa_policies s) with Some l => l | None => [] end in
  Ok {| r_id := id; r_ctx := cx; r_name := name; r_signers := sg; r_policies := po; r_until := until |}.

(* get_context_rules(type) *)
Fixpoint mapM {A B} (f : A -> res B) (l : list A) : res (list B) :=
  match l with
  | [] => Ok []
  | x :: r => do y <- f x; do ys <- mapM f r; Ok (y :: ys)
  end.
Definition sa_get_rules (s : sa_state) (cx : ctxt) : res (list rule) := mapM (sa_get_rule s) (sa_ids_of s cx).

(* validate_signers_and_policies *)
Definition sa_validate (c : sa_cfg) (signers : list signer) (policies : list addr) : bool :=
  (length signers <=? sa_max_signers c) && (length policies <=? sa_max_policies c)
  && negb (match signers, policies with [], [] => true | _, _ => false end).

(* validate_and_set_fingerprint *)
Definition sa_set_fp (fps : list fingerprint) (cx : ctxt) (sg : list signer) (po : list addr)
  : res (list fingerprint) :=
  do f <- sa_fp cx sg po;
  if existsb (fp_same f) fps then Fail                                  (* DuplicateContextRule *)
  else Ok (f :: fps).
(* remove_fingerprint *)
Definition sa_del_fp (fps : list fingerprint) (cx : ctxt) (sg : list signer) (po : list addr)
  : res (list fingerprint) :=
  do f <- sa_fp cx sg po; Ok (filter (fun g => negb (fp_same f g)) fps).

Definition until_ok (c : sa_cfg) (u : option N) : bool :=
  match u with Some v => negb (v <? sa_now c)%N | None => true end.      (* PastValidUntil *)

(* add_context_rule; [policies] = keys of the Map argument in host order together with the
   answer of each policy's `install` (true = returns, false = traps) *)
Definition sa_add_rule (c : sa_cfg) (s : sa_state) (cx : ctxt) (name : N) (until : option N)
           (signers : list signer) (policies : list (addr * bool)) : res (sa_state * rule) :=
  let id := match sa_next s with Some n => n | None => 0%N end in
  let count := sa_count0 s in
  if sa_max_rules c <=? count then Fail                                  (* TooManyContextRules *)
  else
    let same := sa_ids_of s cx in
    if negb (nodupb signer_eqb signers) then Fail                        (* DuplicateSigner *)
    else if negb (until_ok c until) then Fail
    else
      let pol := map fst policies in
      if negb (sa_validate c signers pol) then Fail
      else
        do fps' <- sa_set_fp (sa_fps s) cx signers pol;
        if negb (forallb snd policies) then Fail                         (* a policy's install trapped *)
        else if negb (in_u32 (Z.of_N id + 1)) then Fail                  (* id + 1 overflows u32 *)
        else
          let r := {| r_id := id; r_ctx := cx; r_name := name; r_signers := signers;
                      r_policies := pol; r_until := until |} in
          Ok ({| sa_next := Some (id + 1)%N; sa_count := Some (S count);
                 sa_meta := aset N.eqb id (name, cx, until) (sa_meta s);
                 sa_signers := aset N.eqb id signers (sa_signers s);
                 sa_policies := aset N.eqb id pol (sa_policies s);
                 sa_ids := aset ctxt_eqb cx (same ++ [id]) (sa_ids s);
                 sa_fps := fps' |}, r).

Definition sa_with_meta (s : sa_state) (id : N) (m : meta) : sa_state :=
  {| sa_next := sa_next s; sa_count := sa_count s; sa_meta := aset N.eqb id m (sa_meta s);
     sa_signers := sa_signers s; sa_policies := sa_policies s; sa_ids := sa_ids s; sa_fps := sa_fps s |}.

(* update_context_rule_name *)
Definition sa_update_name (s : sa_state) (id : N) (name : N) : res (sa_state * rule) :=
  do r <- sa_get_rule s id;
  Ok (sa_with_meta s id (name, r_ctx r, r_until r),
      {| r_id := id; r_ctx := r_ctx r; r_name := name; r_signers := r_signers r;
         r_policies := r_policies r; r_until := r_until r |}).

(* update_context_rule_valid_until *)
Definition sa_update_until (c : sa_cfg) (s : sa_state) (id : N) (until : option N) : res (sa_state * rule) :=
  do r <- sa_get_rule s id;
  if negb (until_ok c until) then Fail
  else Ok (sa_with_meta s id (r_name r, r_ctx r, until),
           {| r_id := id; r_ctx := r_ctx r; r_name := r_name r; r_signers := r_signers r;
              r_policies := r_policies r; r_until := until |}).

(* remove_context_rule *)
Definition sa_remove_rule (s : sa_state) (id : N) : res sa_state :=
  do r <- sa_get_rule s id;
  do fps' <- sa_del_fp (sa_fps s) (r_ctx r) (r_signers r) (r_policies r);
  let ids := sa_ids_of s (r_ctx r) in
  let ids_map := match rindex_of N.eqb id ids with
                 | Some p => aset ctxt_eqb (r_ctx r) (remove_at p ids) (sa_ids s)
                 | None => sa_ids s
                 end in
  match sa_count s with
  | None => Fail                                                          (* .expect("to be set") *)
  | Some 0 => Fail                                                        (* count - 1 underflows *)
  | Some (S n) =>
      Ok {| sa_next := sa_next s; sa_count := Some n;
            sa_meta := adel N.eqb id (sa_meta s);
            sa_signers := adel N.eqb id (sa_signers s);
            sa_policies := adel N.eqb id (sa_policies s);
            sa_ids := ids_map; sa_fps := fps' |}
  end.

Definition sa_with_signers (s : sa_state) (id : N) (sg : list signer) (fps : list fingerprint) : sa_state :=
  {| sa_next := sa_next s; sa_count := sa_count s; sa_meta := sa_meta s;
     sa_signers := aset N.eqb id sg (sa_signers s); sa_policies := sa_policies s; sa_ids := sa_ids s;
     sa_fps := fps |}.
Definition sa_with_policies (s : sa_state) (id : N) (po : list addr) (fps : list fingerprint) : sa_state :=
  {| sa_next := sa_next s; sa_count := sa_count s; sa_meta := sa_meta s;
     sa_signers := sa_signers s; sa_policies := aset N.eqb id po (sa_policies s); sa_ids := sa_ids s;
     sa_fps := fps |}.

(* add_signer *)
Definition sa_add_signer (c : sa_cfg) (s : sa_state) (id : N) (x : signer) : res sa_state :=
  do r <- sa_get_rule s id;
  if memb signer_eqb x (r_signers r) then Fail                            (* DuplicateSigner *)
  else
    let sg := r_signers r ++ [x] in
    if negb (sa_validate c sg (r_policies r)) then Fail
    else
      do f1 <- sa_set_fp (sa_fps s) (r_ctx r) sg (r_policies r);
      do f2 <- sa_del_fp f1 (r_ctx r) (r_signers r) (r_policies r);
      Ok (sa_with_signers s id sg f2).

(* remove_signer *)
Definition sa_remove_signer (c : sa_cfg) (s : sa_state) (id : N) (x : signer) : res sa_state :=
  do r <- sa_get_rule s id;
  match rindex_of signer_eqb x (r_signers r) with
  | None => Fail                                                          (* SignerNotFound *)
  | Some p =>
      let sg := remove_at p (r_signers r) in
      if negb (sa_validate c sg (r_policies r)) then Fail
      else
        do f1 <- sa_set_fp (sa_fps s) (r_ctx r) sg (r_policies r);
        do f2 <- sa_del_fp f1 (r_ctx r) (r_signers r) (r_policies r);
        Ok (sa_with_signers s id sg f2)
  end.

(* add_policy; [installs] = the policy's install returns *)
Definition sa_add_policy (c : sa_cfg) (s : sa_state) (id : N) (p : addr) (installs : bool) : res sa_state :=
  do r <- sa_get_rule s id;
  if memb N.eqb p (r_policies r) then Fail                                (* DuplicatePolicy *)
  else if negb installs then Fail
  else
    let po := r_policies r ++ [p] in
    if negb (sa_validate c (r_signers r) po) then Fail
    else
      do f1 <- sa_set_fp (sa_fps s) (r_ctx r) (r_signers r) po;
      do f2 <- sa_del_fp f1 (r_ctx r) (r_signers r) (r_policies r);
      Ok (sa_with_policies s id po f2).

(* remove_policy *)
Definition sa_remove_policy (c : sa_cfg) (s : sa_state) (id : N) (p : addr) : res sa_state :=
  do r <- sa_get_rule s id;
  match rindex_of N.eqb p (r_policies r) with
  | None => Fail                                                          (* PolicyNotFound *)
  | Some i =>
      let po := remove_at i (r_policies r) in
      if negb (sa_validate c (r_signers r) po) then Fail
      else
        do f1 <- sa_set_fp (sa_fps s) (r_ctx r) (r_signers r) po;
        do f2 <- sa_del_fp f1 (r_ctx r) (r_signers r) (r_policies r);
        Ok (sa_with_policies s id po f2)
  end.

(* ---- calls, queries, answers ---- *)
Inductive sa_call :=
| SaAddRule (cx : ctxt) (name : N) (until : option N) (signers : list signer) (policies : list (addr * bool))
| SaUpdateName (id : N) (name : N)
| SaUpdateUntil (id : N) (until : option N)
| SaRemoveRule (id : N)
| SaAddSigner (id : N) (x : signer)
| SaRemoveSigner (id : N) (x : signer)
| SaAddPolicy (id : N) (p : addr) (installs : bool)
| SaRemovePolicy (id : N) (p : addr).

(* returned value: the rule for add / update, None otherwise *)
Definition sa_step (c : sa_cfg) (s : sa_state) (k : sa_call) : res (sa_state * option rule) :=
  match k with
  | SaAddRule cx name until sg po => do r <- sa_add_rule c s cx name until sg po; Ok (fst r, Some (snd r))
  | SaUpdateName id name => do r <- sa_update_name s id name; Ok (fst r, Some (snd r))
  | SaUpdateUntil id until => do r <- sa_update_until c s id until; Ok (fst r, Some (snd r))
  | SaRemoveRule id => do s' <- sa_remove_rule s id; Ok (s', None)
  | SaAddSigner id x => do s' <- sa_add_signer c s id x; Ok (s', None)
  | SaRemoveSigner id x => do s' <- sa_remove_signer c s id x; Ok (s', None)
  | SaAddPolicy id p ok => do s' <- sa_add_policy c s id p ok; Ok (s', None)
  | SaRemovePolicy id p => do s' <- sa_remove_policy c s id p; Ok (s', None)
  end.

Inductive sa_query :=
| SqRule (id : N)
| SqRules (cx : ctxt)
| SqCount.
Inductive sa_ans :=
| SaRule (r : res rule)
| SaRules (r : res (list rule))
| SaNat (n : N)
| SaTrap.
Definition sa_answer (s : sa_state) (q : sa_query) : sa_ans :=
  match q with
  | SqRule id => SaRule (sa_get_rule s id)
  | SqRules cx => SaRules (sa_get_rules s cx)
  | SqCount => SaNat (N.of_nat (sa_count0 s))
  end.
Definition sa_ans_eqb (a b : sa_ans) : bool :=
  match a, b with
  | SaRule x, SaRule y => res_eqb rule_eqb x y
  | SaRules x, SaRules y => res_eqb (list_eqb rule_eqb) x y
  | SaNat x, SaNat y => N.eqb x y
  | SaTrap, SaTrap => true
  | _, _ => false
  end.
