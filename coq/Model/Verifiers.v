(* C18 - model of packages/accounts/src/verifiers/{webauthn.rs, ed25519.rs,
   utils/extract_from_bytes.rs} and of the two example verifier contracts
   (examples/multisig-smart-account/{webauthn,ed25519}-verifier/src/contract.rs).

   The P-256 / Ed25519 verification, SHA-256, the serde-json-core parser and the XDR
   decoder are oracles: functions given as parameters (a [Section] in the proofs;
   in the correspondence run the harness supplies their answers for each call).
   Everything around them - the decision logic - is transcribed guard by guard. *)
From SC Require Import Lib.Prelude Lib.Int Model.Base64.

Definition len (l : list Z) : Z := Z.of_nat (length l).

Fixpoint eqb_bytes (a b : list Z) : bool :=
  match a, b with
  | [], [] => true
  | x :: r, y :: s => if x =? y then eqb_bytes r s else false   (* lazy: stops at the first difference *)
  | _, _ => false
  end.

(* ------------------------------------------------------------------ *)
(* utils/extract_from_bytes.rs                                         *)
(* ------------------------------------------------------------------ *)
Inductive bound := Unbounded | Included (n : Z) | Excluded (n : Z).

(* data.slice(start..end) of the host, start <= end <= len *)
Definition slice (data : list Z) (s e : Z) : list Z :=
  firstn (Z.to_nat (e - s)) (skipn (Z.to_nat s) data).

(* extract_from_bytes::<N>(e, data, r)  with r = (sb, eb).  Result: [Fail] = panic,
   [Ok None], [Ok (Some bytes)]. *)
Definition extract_from_bytes (N : Z) (data : list Z) (sb eb : bound) : res (option (list Z)) :=
  let start := match sb with Unbounded => 0 | Included n | Excluded n => n end in
  do e <- match eb with
          | Unbounded => Ok (len data)
          | Included n => of_option (checked_add_u32 n 1)        (* n + 1 *)
          | Excluded n => Ok n
          end;
  if len data <? e then Ok None                                   (* end > data.len() *)
  else
    do d <- (if in_u32 (e - start) then Ok (e - start) else Fail); (* end - start, u32 *)
    if negb (d =? N) then Ok None
    else
      (* data.slice(r): Bytes::slice starts at n+1 for an Excluded start bound, so the
         slice then has N-1 bytes and copy_from_slice panics (N = 0: the host rejects
         start > end) *)
      match sb with
      | Excluded _ => Fail
      | _ => Ok (Some (slice data start e))
      end.

(* the only use in the code: r = 0..n *)
Definition extract_prefix (n : Z) (data : list Z) : res (option (list Z)) :=
  extract_from_bytes n data (Included 0) (Excluded n).

(* ------------------------------------------------------------------ *)
(* webauthn.rs                                                         *)
(* ------------------------------------------------------------------ *)
(* pub const CLIENT_DATA_MAX_LEN / AUTHENTICATOR_DATA_MIN_LEN, printed by the harness *)
Record cfg := { max_cd : Z; min_ad : Z }.

(* pub const AUTH_DATA_FLAGS_UP/UV/BE/BS : bits 0, 2, 3, 4 of the flags byte
   (fixed by the WebAuthn specification; transcribed, not parameters) *)
Definition FLAGS_UP : Z := 1.
Definition FLAGS_UV : Z := 4.
Definition FLAGS_BE : Z := 8.
Definition FLAGS_BS : Z := 16.

(* b"webauthn.get" *)
Definition WEBAUTHN_GET : list Z := [119; 101; 98; 97; 117; 116; 104; 110; 46; 103; 101; 116].

(* validate_expected_type *)
Definition validate_expected_type (ty : list Z) : res unit :=
  guard (eqb_bytes ty WEBAUTHN_GET).

(* validate_challenge: the first 32 bytes of the payload, base64url-encoded into a
   43-byte zeroed buffer, must equal the challenge string *)
Definition validate_challenge (challenge payload : list Z) : res unit :=
  do o <- extract_prefix 32 payload;
  do p32 <- of_option o;                                    (* SignaturePayloadInvalid *)
  do expected <- base64_url_encode (repeat 0 43%nat) p32;
  guard (eqb_bytes challenge expected).

Definition validate_user_present_bit_set (flags : Z) : res unit :=
  guard (negb (Z.land flags FLAGS_UP =? 0)).
Definition validate_user_verified_bit_set (flags : Z) : res unit :=
  guard (negb (Z.land flags FLAGS_UV =? 0)).
Definition validate_backup_eligibility_and_state (flags : Z) : res unit :=
  guard (negb ((Z.land flags FLAGS_BE =? 0) && negb (Z.land flags FLAGS_BS =? 0))).

(* The decision logic of [verify] given the oracles' answers for this call:
   [parsed] = result of serde_json_core::de::from_slice::<ClientDataJson> on the client
   data (type_field, challenge), [sig_ok] = whether secp256r1_verify accepts
   (key, sha256 (authenticator_data ++ sha256 client_data), signature). *)
Definition wa_decide (c : cfg) (payload ad cd : list Z)
           (parsed : option (list Z * list Z)) (sig_ok : bool) : res bool :=
  do _ <- guard (negb (max_cd c <? len cd));                (* ClientDataTooLong *)
  do '(ty, ch) <- of_option parsed;                         (* JsonParseError *)
  do _ <- validate_expected_type ty;
  do _ <- validate_challenge ch payload;
  do _ <- guard (negb (len ad <? min_ad c));                (* AuthDataFormatInvalid *)
  do flags <- of_option (nth_error ad 32);                  (* .get(32).expect(..) *)
  do _ <- validate_user_present_bit_set flags;
  do _ <- validate_user_verified_bit_set flags;
  do _ <- validate_backup_eligibility_and_state flags;
  do _ <- guard sig_ok;                                     (* secp256r1_verify traps *)
  Ok true.

(* webauthn::verify with the oracles as functions *)
Definition wa_verify (c : cfg)
           (parse : list Z -> option (list Z * list Z))
           (sha256 : list Z -> list Z)
           (p256_verify : list Z -> list Z -> list Z -> bool)   (* key, digest, signature *)
           (payload key sig ad cd : list Z) : res bool :=
  wa_decide c payload ad cd (parse cd) (p256_verify key (sha256 (ad ++ sha256 cd)) sig).

(* example contract WebauthnVerifierContract::verify(payload, key_data, sig_data):
   [decoded] = WebAuthnSigData::from_xdr(sig_data) as (signature, authenticator_data,
   client_data); the key is the first 65 bytes of key_data *)
Definition wa_contract_decide (c : cfg) (payload key_data : list Z)
           (decoded : option (list Z * list Z * list Z))
           (parsed : option (list Z * list Z)) (sig_ok : bool) : res bool :=
  do '(sig, ad, cd) <- of_option decoded;                   (* .expect(..) *)
  do o <- extract_prefix 65 key_data;
  do _key <- of_option o;                                   (* .expect(..) *)
  wa_decide c payload ad cd parsed sig_ok.

Definition wa_contract (c : cfg)
           (from_xdr : list Z -> option (list Z * list Z * list Z))
           (parse : list Z -> option (list Z * list Z))
           (sha256 : list Z -> list Z)
           (p256_verify : list Z -> list Z -> list Z -> bool)
           (payload key_data sig_data : list Z) : res bool :=
  do '(sig, ad, cd) <- of_option (from_xdr sig_data);
  do o <- extract_prefix 65 key_data;
  do key <- of_option o;
  wa_verify c parse sha256 p256_verify payload key sig ad cd.

(* ------------------------------------------------------------------ *)
(* ed25519.rs and the example Ed25519VerifierContract                  *)
(* ------------------------------------------------------------------ *)
Definition ed_decide (sig_ok : bool) : res bool :=
  do _ <- guard sig_ok;                                     (* ed25519_verify traps *)
  Ok true.

Definition ed_verify (ed25519_verify : list Z -> list Z -> list Z -> bool)  (* key, msg, sig *)
           (payload key sig : list Z) : res bool :=
  ed_decide (ed25519_verify key payload sig).
