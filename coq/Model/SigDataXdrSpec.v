(* C18 - an independent decoder of the XDR form of WebAuthnSigData (used by the MONITOR only;
   the code uses soroban-sdk's from_xdr).  A #[contracttype] struct travels as
     ScVal::Map(Some(entries)), entries sorted by key, key = ScVal::Symbol(field name),
   here  authenticator_data : Bytes, client_data : Bytes, signature : BytesN<64>.
   XDR (RFC 4506): 4-byte big-endian discriminants and lengths, opaque data padded with
   zero bytes to a multiple of four.  SCV_BYTES = 13, SCV_SYMBOL = 15, SCV_MAP = 17.
   Strict: exactly this map, nothing after it. *)
From SC Require Import Lib.Prelude.

Definition u32be (l : list Z) : option (Z * list Z) :=
  match l with
  | a :: b :: c :: d :: r => Some (a * 16777216 + b * 65536 + c * 256 + d, r)
  | _ => None
  end.
Definition expect_u32 (v : Z) (l : list Z) : option (list Z) :=
  match u32be l with Some (x, r) => if x =? v then Some r else None | None => None end.

(* n bytes followed by zero padding to a multiple of 4 *)
Definition take_padded (n : Z) (l : list Z) : option (list Z * list Z) :=
  let pad := (4 - n mod 4) mod 4 in
  if Z.of_nat (length l) <? n + pad then None
  else
    let body := firstn (Z.to_nat n) l in
    let rest := skipn (Z.to_nat n) l in
    if forallb (fun b => b =? 0) (firstn (Z.to_nat pad) rest)
    then Some (body, skipn (Z.to_nat pad) rest) else None.

Fixpoint eqb_zl (a b : list Z) : bool :=
  match a, b with
  | [], [] => true
  | x :: r, y :: s => (x =? y) && eqb_zl r s
  | _, _ => false
  end.

(* one map entry  Symbol(name) -> Bytes(value) *)
Definition xdr_entry (name : list Z) (l : list Z) : option (list Z * list Z) :=
  match expect_u32 15 l with
  | Some r =>
      match u32be r with
      | Some (n, r1) =>
          match take_padded n r1 with
          | Some (s, r2) =>
              if eqb_zl s name then
                match expect_u32 13 r2 with
                | Some r3 => match u32be r3 with Some (m, r4) => take_padded m r4 | None => None end
                | None => None
                end
              else None
          | None => None
          end
      | None => None
      end
  | None => None
  end.

(* "authenticator_data", "client_data", "signature" *)
Definition NAME_AD : list Z :=
  [97; 117; 116; 104; 101; 110; 116; 105; 99; 97; 116; 111; 114; 95; 100; 97; 116; 97].
Definition NAME_CD : list Z := [99; 108; 105; 101; 110; 116; 95; 100; 97; 116; 97].
Definition NAME_SIG : list Z := [115; 105; 103; 110; 97; 116; 117; 114; 101].

(* (signature, authenticator_data, client_data) *)
Definition xdr_sigdata (l : list Z) : option (list Z * list Z * list Z) :=
  match expect_u32 17 l with
  | Some r0 =>
      match expect_u32 1 r0 with
      | Some r1 =>
          match expect_u32 3 r1 with
          | Some r2 =>
              match xdr_entry NAME_AD r2 with
              | Some (ad, r3) =>
                  match xdr_entry NAME_CD r3 with
                  | Some (cd, r4) =>
                      match xdr_entry NAME_SIG r4 with
                      | Some (sig, r5) =>
                          match r5 with
                          | [] => if Z.of_nat (length sig) =? 64 then Some (sig, ad, cd) else None
                          | _ :: _ => None
                          end
                      | None => None
                      end
                  | None => None
                  end
              | None => None
              end
          | None => None
          end
      | None => None
      end
  | None => None
  end.
