(* Model of packages/tokens/src/non_fungible/{storage.rs, overrides.rs,
   extensions/burnable/storage.rs, extensions/enumerable/storage.rs,
   extensions/consecutive/storage.rs, utils/sequential/storage.rs}.

   One state record holds every storage entry the three flavours use; the flavour
   (the `ContractType` of the contract: Base, Enumerable, Consecutive) selects which
   override runs, exactly as overrides.rs dispatches.  Transcribed function by
   function, guard by guard, in the order of the code.

   Token ids, addresses, balances and counters are [N] (u32 range checks written
   out), ledger numbers are [Z] (as in Lib/Host.v).  The Consecutive ownership
   buckets are modelled at the *set level* here (the set of ids whose bit is set);
   the bit-level layout (buckets of 32-bit words) is in Model/NftBits.v. *)
From SC Require Import Lib.Prelude Lib.Int Lib.Host.
Local Open Scope N_scope.

(* ---------- association lists with an explicit key equality ---------- *)
Section AMap.
  Context {K V : Type} (keqb : K -> K -> bool).
  Fixpoint aget (k : K) (l : list (K * V)) : option V :=
    match l with
    | [] => None
    | (k', v) :: r => if keqb k k' then Some v else aget k r
    end.
  Fixpoint arem (k : K) (l : list (K * V)) : list (K * V) :=
    match l with
    | [] => []
    | (k', v) :: r => if keqb k k' then arem k r else (k', v) :: arem k r
    end.
  Definition aset (k : K) (v : V) (l : list (K * V)) : list (K * V) := (k, v) :: arem k l.
End AMap.

Definition peqb (a b : N * N) : bool := (fst a =? fst b) && (snd a =? snd b).
Definition memN (x : N) (l : list N) : bool := existsb (N.eqb x) l.
Definition MAXU32N : N := 4294967295.

Inductive flavour := FBase | FEnum | FCons.

(* constants of the code: consecutive::{IDS_IN_BUCKET, MAX_TOKENS_IN_BATCH}; host ttl config *)
Record cfg := { hcfg : hostcfg; ids_in_bucket : N; max_batch : N }.

Record state := {
  now : Z;                                   (* e.ledger().sequence() *)
  next_id : N;                               (* NFTSequentialStorageKey::TokenIdCounter (instance) *)
  owner : list (N * addr);                   (* Owner(id) (persistent; NFTStorageKey / NFTConsecutiveStorageKey) *)
  bal : list (addr * N);                     (* Balance(addr) *)
  appr : list (N * tentry (addr * Z));       (* Approval(id) (temporary): ApprovalData {approved, live_until_ledger} *)
  oper : list ((addr * addr) * tentry Z);    (* ApprovalForAll(owner, operator) (temporary): live_until_ledger *)
  total : N;                                 (* NFTEnumerableStorageKey::TotalSupply *)
  otok : list ((addr * N) * N);              (* OwnerTokens{owner,index} -> id *)
  otidx : list (N * N);                      (* OwnerTokensIndex(id) -> index *)
  gtok : list (N * N);                       (* GlobalTokens(index) -> id *)
  gtidx : list (N * N);                      (* GlobalTokensIndex(id) -> index *)
  marks : list N;                            (* ids whose bit is set in an OwnershipBucket *)
  burned : list N                            (* BurnedToken(id) = true *)
}.

Definition init (now0 : Z) : state :=
  {| now := now0; next_id := 0; owner := []; bal := []; appr := []; oper := []; total := 0;
     otok := []; otidx := []; gtok := []; gtidx := []; marks := []; burned := [] |}.

Definition set_now s v := {| now := v; next_id := next_id s; owner := owner s; bal := bal s; appr := appr s; oper := oper s; total := total s; otok := otok s; otidx := otidx s; gtok := gtok s; gtidx := gtidx s; marks := marks s; burned := burned s |}.
Definition set_next_id s v := {| now := now s; next_id := v; owner := owner s; bal := bal s; appr := appr s; oper := oper s; total := total s; otok := otok s; otidx := otidx s; gtok := gtok s; gtidx := gtidx s; marks := marks s; burned := burned s |}.
Definition set_owner s v := {| now := now s; next_id := next_id s; owner := v; bal := bal s; appr := appr s; oper := oper s; total := total s; otok := otok s; otidx := otidx s; gtok := gtok s; gtidx := gtidx s; marks := marks s; burned := burned s |}.
Definition set_bal s v := {| now := now s; next_id := next_id s; owner := owner s; bal := v; appr := appr s; oper := oper s; total := total s; otok := otok s; otidx := otidx s; gtok := gtok s; gtidx := gtidx s; marks := marks s; burned := burned s |}.
Definition set_appr s v := {| now := now s; next_id := next_id s; owner := owner s; bal := bal s; appr := v; oper := oper s; total := total s; otok := otok s; otidx := otidx s; gtok := gtok s; gtidx := gtidx s; marks := marks s; burned := burned s |}.
Definition set_oper s v := {| now := now s; next_id := next_id s; owner := owner s; bal := bal s; appr := appr s; oper := v; total := total s; otok := otok s; otidx := otidx s; gtok := gtok s; gtidx := gtidx s; marks := marks s; burned := burned s |}.
Definition set_total s v := {| now := now s; next_id := next_id s; owner := owner s; bal := bal s; appr := appr s; oper := oper s; total := v; otok := otok s; otidx := otidx s; gtok := gtok s; gtidx := gtidx s; marks := marks s; burned := burned s |}.
Definition set_otok s v := {| now := now s; next_id := next_id s; owner := owner s; bal := bal s; appr := appr s; oper := oper s; total := total s; otok := v; otidx := otidx s; gtok := gtok s; gtidx := gtidx s; marks := marks s; burned := burned s |}.
Definition set_otidx s v := {| now := now s; next_id := next_id s; owner := owner s; bal := bal s; appr := appr s; oper := oper s; total := total s; otok := otok s; otidx := v; gtok := gtok s; gtidx := gtidx s; marks := marks s; burned := burned s |}.
Definition set_gtok s v := {| now := now s; next_id := next_id s; owner := owner s; bal := bal s; appr := appr s; oper := oper s; total := total s; otok := otok s; otidx := otidx s; gtok := v; gtidx := gtidx s; marks := marks s; burned := burned s |}.
Definition set_gtidx s v := {| now := now s; next_id := next_id s; owner := owner s; bal := bal s; appr := appr s; oper := oper s; total := total s; otok := otok s; otidx := otidx s; gtok := gtok s; gtidx := v; marks := marks s; burned := burned s |}.
Definition set_marks s v := {| now := now s; next_id := next_id s; owner := owner s; bal := bal s; appr := appr s; oper := oper s; total := total s; otok := otok s; otidx := otidx s; gtok := gtok s; gtidx := gtidx s; marks := v; burned := burned s |}.
Definition set_burned s v := {| now := now s; next_id := next_id s; owner := owner s; bal := bal s; appr := appr s; oper := oper s; total := total s; otok := otok s; otidx := otidx s; gtok := gtok s; gtidx := gtidx s; marks := marks s; burned := v |}.

(* ================= storage.rs : Base, QUERY STATE ================= *)

(* Base::balance *)
Definition balance (s : state) (a : addr) : N :=
  match aget N.eqb a (bal s) with Some b => b | None => 0 end.

(* Base::get_approved : entry present in temporary storage and live_until_ledger >= sequence *)
Definition get_approved (s : state) (id : N) : option addr :=
  match tget (now s) (aget N.eqb id (appr s)) with
  | Some (a, lu) => if (lu <? now s)%Z then None else Some a
  | None => None
  end.

(* Base::is_approved_for_all *)
Definition is_approved_for_all (s : state) (o op : addr) : bool :=
  match tget (now s) (aget peqb (o, op) (oper s)) with
  | Some lu => (now s <=? lu)%Z
  | None => false
  end.

(* ================= consecutive/storage.rs : owner_of ================= *)

(* least element of l that is >= lo *)
Fixpoint least_ge (l : list N) (lo : N) : option N :=
  match l with
  | [] => None
  | m :: r =>
      if lo <=? m then
        match least_ge r lo with Some m' => Some (N.min m m') | None => Some m end
      else least_ge r lo
  end.

(* the scan over buckets bucket_index ..= last_bucket_index, starting at relative_id in the
   first one: the least set position >= id whose bucket is not beyond the last token's *)
Definition scan (c : cfg) (s : state) (id last : N) : option N :=
  least_ge (filter (fun m => m / ids_in_bucket c <=? last / ids_in_bucket c) (marks s)) id.

Definition cons_owner_of (c : cfg) (s : state) (id : N) : option addr :=
  if next_id s =? 0 then None
  else
    let last := next_id s - 1 in
    if memN id (burned s) || (last <? id) then None
    else match scan c s id last with
         | Some m => aget N.eqb m (owner s)
         | None => None
         end.

(* ContractOverrides::owner_of ; None = panic NonExistentToken *)
Definition owner_of (fl : flavour) (c : cfg) (s : state) (id : N) : option addr :=
  match fl with
  | FCons => cons_owner_of c s id
  | _ => aget N.eqb id (owner s)
  end.

(* ================= storage.rs : helpers ================= *)

Definition increase_balance (s : state) (to : addr) (amt : N) : res state :=
  let b := balance s to + amt in
  do _ <- guard (b <=? MAXU32N);
  Ok (set_bal s (aset N.eqb to b (bal s))).

Definition decrease_balance (s : state) (from : addr) (amt : N) : res state :=
  do _ <- guard (amt <=? balance s from);
  Ok (set_bal s (aset N.eqb from (balance s from - amt) (bal s))).

Definition oaddr_eqb (a b : option addr) : bool :=
  match a, b with Some x, Some y => x =? y | None, None => true | _, _ => false end.

(* Base::check_spender_approval *)
Definition check_spender_approval (s : state) (spender owner_ : addr) (id : N) : res unit :=
  guard ((spender =? owner_) || oaddr_eqb (get_approved s id) (Some spender)
         || is_approved_for_all s owner_ spender).

(* Base::approve_for_owner *)
Definition approve_for_owner (c : cfg) (s : state) (owner_ approver approved : addr) (id : N) (lu : Z)
  : res state :=
  do _ <- guard ((approver =? owner_) || is_approved_for_all s owner_ approver);
  if (lu =? 0)%Z then Ok (set_appr s (arem N.eqb id (appr s)))
  else
    do _ <- guard (now s <=? lu)%Z;
    let e1 := tset (hcfg c) (now s) (aget N.eqb id (appr s)) (approved, lu) in
    let live_for := (lu - now s)%Z in
    do e2 <- textend (hcfg c) (now s) e1 live_for live_for;
    match e2 with
    | Some en => Ok (set_appr s (aset N.eqb id en (appr s)))
    | None => Fail
    end.

(* Base::approve_for_all *)
Definition approve_for_all (c : cfg) (s : state) (auths : list addr) (owner_ operator : addr) (lu : Z)
  : res state :=
  do _ <- guard (has_auth auths owner_);
  if (lu =? 0)%Z then Ok (set_oper s (arem peqb (owner_, operator) (oper s)))
  else
    do _ <- guard (now s <=? lu)%Z;
    let e1 := tset (hcfg c) (now s) (aget peqb (owner_, operator) (oper s)) lu in
    let live_for := (lu - now s)%Z in
    do e2 <- textend (hcfg c) (now s) e1 live_for live_for;
    match e2 with
    | Some en => Ok (set_oper s (aset peqb (owner_, operator) en (oper s)))
    | None => Fail
    end.

(* ================= consecutive/storage.rs : bucket helpers ================= *)

(* Consecutive::set_ownership_in_bucket (set level: add id to the set of set bits) *)
Definition set_ownership_in_bucket (s : state) (id : N) : res state :=
  do _ <- guard (id <? next_id s);
  if memN id (marks s) then Ok s else Ok (set_marks s (id :: marks s)).

(* Consecutive::set_owner_for_previous_token *)
Definition set_owner_for_previous_token (s : state) (to : addr) (id : N) : res state :=
  if (id =? 0) || (next_id s <=? id) then Ok s
  else
    let p := id - 1 in
    match aget N.eqb p (owner s) with
    | Some _ => Ok s
    | None =>
        if memN p (burned s) then Ok s
        else set_ownership_in_bucket (set_owner s (aset N.eqb p to (owner s))) p
    end.

(* ================= Base::update / Consecutive::update ================= *)
Definition update (fl : flavour) (c : cfg) (s : state) (from to : option addr) (id : N) : res state :=
  do s1 <- match from with
           | Some f =>
               do o <- of_option (owner_of fl c s id);
               do _ <- guard (o =? f);
               do s' <- decrease_balance s f 1;
               let s'' := set_appr s' (arem N.eqb id (appr s')) in
               match fl with
               | FCons => set_owner_for_previous_token s'' f id
               | _ => Ok s''
               end
           | None => Ok s
           end;
  match to with
  | Some t =>
      do s2 <- increase_balance s1 t 1;
      let s3 := set_owner s2 (aset N.eqb id t (owner s2)) in
      match fl with
      | FCons => set_ownership_in_bucket s3 id
      | _ => Ok s3
      end
  | None =>
      let s2 := set_owner s1 (arem N.eqb id (owner s1)) in
      Ok (match fl with
          | FCons => set_burned s2 (id :: burned s2)
          | _ => s2
          end)
  end.

(* ================= enumerable/storage.rs ================= *)

Definition get_owner_token_id (s : state) (o : addr) (k : N) : option N := aget peqb (o, k) (otok s).
Definition get_token_id (s : state) (k : N) : option N := aget N.eqb k (gtok s).

Definition add_to_owner_enumeration (s : state) (o : addr) (id : N) : res state :=
  do _ <- guard (1 <=? balance s o);
  let k := balance s o - 1 in
  let s1 := set_otok s (aset peqb (o, k) id (otok s)) in
  Ok (set_otidx s1 (aset N.eqb id k (otidx s1))).

Definition remove_from_owner_enumeration (s : state) (o : addr) (id : N) : res state :=
  do ri <- of_option (aget N.eqb id (otidx s));
  let last := balance s o in
  do s1 <- (if ri =? last then Ok s
            else
              do lid <- of_option (get_owner_token_id s o last);
              let t1 := set_otok s (aset peqb (o, ri) lid (otok s)) in
              Ok (set_otidx t1 (aset N.eqb lid ri (otidx t1))));
  let s2 := set_otok s1 (arem peqb (o, last) (otok s1)) in
  Ok (set_otidx s2 (arem N.eqb id (otidx s2))).

Definition add_to_global_enumeration (s : state) (id k : N) : state :=
  let s1 := set_gtok s (aset N.eqb k id (gtok s)) in
  set_gtidx s1 (aset N.eqb id k (gtidx s1)).

Definition remove_from_global_enumeration (s : state) (id last : N) : res state :=
  do ri <- of_option (aget N.eqb id (gtidx s));
  do lid <- of_option (get_token_id s last);
  let s1 := set_gtok s (aset N.eqb ri lid (gtok s)) in
  let s2 := set_gtidx s1 (aset N.eqb lid ri (gtidx s1)) in
  let s3 := set_gtok s2 (arem N.eqb last (gtok s2)) in
  Ok (set_gtidx s3 (arem N.eqb id (gtidx s3))).

Definition add_to_enumerations (s : state) (o : addr) (id : N) : res state :=
  do s1 <- add_to_owner_enumeration s o id;
  let t := total s1 in
  do _ <- guard (t + 1 <=? MAXU32N);
  Ok (add_to_global_enumeration (set_total s1 (t + 1)) id t).

Definition remove_from_enumerations (s : state) (o : addr) (id : N) : res state :=
  do s1 <- remove_from_owner_enumeration s o id;
  do _ <- guard (1 <=? total s1);
  let nt := total s1 - 1 in
  remove_from_global_enumeration (set_total s1 nt) id nt.

(* Enumerable::transfer / transfer_from : fix-up of the owner lists after Base::transfer *)
Definition enum_after_transfer (fl : flavour) (s : state) (from to : addr) (id : N) : res state :=
  match fl with
  | FEnum =>
      if from =? to then Ok s
      else do s1 <- remove_from_owner_enumeration s from id; add_to_owner_enumeration s1 to id
  | _ => Ok s
  end.
Definition enum_after_burn (fl : flavour) (s : state) (from : addr) (id : N) : res state :=
  match fl with FEnum => remove_from_enumerations s from id | _ => Ok s end.
Definition enum_after_mint (fl : flavour) (s : state) (to : addr) (id : N) : res state :=
  match fl with FEnum => add_to_enumerations s to id | _ => Ok s end.

(* ================= calls ================= *)
Inductive call :=
| Advance (n : N)                                                  (* the ledger moves on *)
| MintSeq (to : addr)                                              (* Base/Enumerable::sequential_mint *)
| MintId (to : addr) (id : N)                                      (* Base::mint / Enumerable::non_sequential_mint *)
| BatchMint (to : addr) (amount : N)                               (* Consecutive::batch_mint *)
| Transfer (auths : list addr) (from to : addr) (id : N)
| TransferFrom (auths : list addr) (spender from to : addr) (id : N)
| Burn (auths : list addr) (from : addr) (id : N)
| BurnFrom (auths : list addr) (spender from : addr) (id : N)
| Approve (auths : list addr) (approver approved : addr) (id : N) (live_until : Z)
| ApproveForAll (auths : list addr) (owner_ operator : addr) (live_until : Z).

Definition outcome := res (option N).

(* sequential::increment_token_id *)
Definition increment_token_id (s : state) (amount : N) : res (state * N) :=
  let cur := next_id s in
  do _ <- guard (cur + amount <=? MAXU32N);
  Ok (set_next_id s (cur + amount), cur).

Definition exec (fl : flavour) (c : cfg) (s : state) (cl : call) : res (state * option N) :=
  match cl with
  | Advance n => Ok (set_now s (now s + Z.of_N n)%Z, None)
  | MintSeq to =>
      match fl with
      | FCons => Fail
      | _ =>
          do '(s1, id) <- increment_token_id s 1;
          do s2 <- update fl c s1 None (Some to) id;
          do s3 <- enum_after_mint fl s2 to id;
          Ok (s3, Some id)
      end
  | MintId to id =>
      match fl with
      | FCons => Fail
      | _ =>
          do s2 <- update fl c s None (Some to) id;
          do s3 <- enum_after_mint fl s2 to id;
          Ok (s3, None)
      end
  | BatchMint to amount =>
      match fl with
      | FCons =>
          do _ <- guard (negb (amount =? 0) && (amount <=? max_batch c));
          do '(s1, first) <- increment_token_id s amount;
          do s2 <- increase_balance s1 to amount;
          let last := first + amount - 1 in
          do s3 <- set_ownership_in_bucket s2 last;
          Ok (set_owner s3 (aset N.eqb last to (owner s3)), Some last)
      | _ => Fail
      end
  | Transfer auths from to id =>
      do _ <- guard (has_auth auths from);
      do s1 <- update fl c s (Some from) (Some to) id;
      do s2 <- enum_after_transfer fl s1 from to id;
      Ok (s2, None)
  | TransferFrom auths spender from to id =>
      do _ <- guard (has_auth auths spender);
      do _ <- check_spender_approval s spender from id;
      do s1 <- update fl c s (Some from) (Some to) id;
      do s2 <- enum_after_transfer fl s1 from to id;
      Ok (s2, None)
  | Burn auths from id =>
      do _ <- guard (has_auth auths from);
      do s1 <- update fl c s (Some from) None id;
      do s2 <- enum_after_burn fl s1 from id;
      Ok (s2, None)
  | BurnFrom auths spender from id =>
      do _ <- guard (has_auth auths spender);
      do _ <- check_spender_approval s spender from id;
      do s1 <- update fl c s (Some from) None id;
      do s2 <- enum_after_burn fl s1 from id;
      Ok (s2, None)
  | Approve auths approver approved id lu =>
      do _ <- guard (has_auth auths approver);
      do o <- of_option (owner_of fl c s id);
      do s1 <- approve_for_owner c s o approver approved id lu;
      Ok (s1, None)
  | ApproveForAll auths o op lu =>
      do s1 <- approve_for_all c s auths o op lu;
      Ok (s1, None)
  end.

(* a failing call leaves the state unchanged (host rollback) *)
Definition step (fl : flavour) (c : cfg) (s : state) (cl : call) : state * outcome :=
  match exec fl c s cl with
  | Ok (s', r) => (s', Ok r)
  | Fail => (s, Fail)
  end.

Definition run (fl : flavour) (c : cfg) (s : state) (cs : list call) : state :=
  fold_left (fun st cl => fst (step fl c st cl)) cs s.
