(* C20 - machinery shared by the eight registry models: the shape of a trace
   (call, outcome, answers to the queries asked after the call), the replay of an
   implementation trace through a model (diff), the run of a monitor, and the generic
   theorem "a monitor related to the model by a simulation accepts every model trace". *)
From SC Require Import Lib.Prelude Model.SwapPop.

Set Implicit Arguments.

Notation addr := N (only parsing).

(* Byte strings (uris, names, metadata keys and values, ...) are printed by the harness in full, as the
   number whose base-256 digits are a leading byte 1 followed by the bytes: an injective encoding, so
   two observations are equal iff the strings are.  The length is recovered from the number. *)
Definition str_len (n : N) : N := (N.log2 n / 8)%N.

Definition res_eqb {O} (oeqb : O -> O -> bool) (a b : res O) : bool :=
  match a, b with Ok x, Ok y => oeqb x y | Fail, Fail => true | _, _ => false end.
Lemma res_eqb_refl {O} (oeqb : O -> O -> bool) :
  (forall o, oeqb o o = true) -> forall r, res_eqb oeqb r r = true.
Proof. intros H [o|]; cbn; auto. Qed.

Definition unit_eqb (_ _ : unit) : bool := true.

Section Replay.
  Variables St C O Q V : Type.     (* model state, call, returned value, query, answer *)
  Variable step : St -> C -> res (St * O).
  Variable ans : St -> Q -> V.
  Variable oeqb : O -> O -> bool.
  Variable veqb : V -> V -> bool.
  Hypothesis oeqb_refl : forall o, oeqb o o = true.
  Hypothesis veqb_refl : forall v, veqb v v = true.

  (* a failing call leaves the state unchanged (host rollback) *)
  Definition step_state (s : St) (c : C) : St :=
    match step s c with Ok (s', _) => s' | Fail => s end.
  Definition step_out (s : St) (c : C) : res O :=
    match step s c with Ok (_, o) => Ok o | Fail => Fail end.

  (* one observed event: the call, its outcome, and the answers to the queries asked
     right after it (also after failing calls) *)
  Definition ev := (C * res O * list (Q * V))%type.

  Definition ev_agrees (s' : St) (o : res O) (e : ev) : bool :=
    res_eqb oeqb o (snd (fst e)) &&
    forallb (fun qa => veqb (ans s' (fst qa)) (snd qa)) (snd e).

  (* diff: 1-based index of the first event that differs from the model, 0 if none *)
  Fixpoint replay (s : St) (t : list ev) (i : N) : N :=
    match t with
    | [] => 0%N
    | e :: r =>
        let c := fst (fst e) in
        let s' := step_state s c in
        if ev_agrees s' (step_out s c) e then replay s' r (N.succ i) else N.succ i
    end.

  (* the trace the model itself produces for given calls and queries *)
  Definition model_ev (s : St) (cq : C * list Q) : ev :=
    (fst cq, step_out s (fst cq), map (fun q => (q, ans (step_state s (fst cq)) q)) (snd cq)).
  Fixpoint model_trace (s : St) (cs : list (C * list Q)) : list ev :=
    match cs with
    | [] => []
    | cq :: r => model_ev s cq :: model_trace (step_state s (fst cq)) r
    end.
  Fixpoint run (s : St) (cs : list C) : St :=
    match cs with [] => s | c :: r => run (step_state s c) r end.

  Lemma replay_model cs : forall s i, replay s (model_trace s cs) i = 0%N.
  Proof.
    induction cs as [|cq cs IH]; intros s i; [reflexivity|].
    cbn [model_trace replay]. unfold model_ev at 1 2 3. cbn [fst snd].
    unfold ev_agrees. cbn [fst snd]. rewrite res_eqb_refl by auto.
    replace (forallb _ _) with true; [apply IH|].
    symmetry. apply forallb_forall. intros [q v] H. apply in_map_iff in H.
    destruct H as [q' [E _]]. inversion E. subst. cbn. apply veqb_refl.
  Qed.

  (* ---- monitors ---- *)
  Variable A : Type.                       (* the monitor's reference state *)
  Variable mon : A -> ev -> option A.      (* None = the property is violated *)

  Fixpoint mon_run (a : A) (t : list ev) (i : N) : N :=
    match t with
    | [] => 0%N
    | e :: r => match mon a e with
                | Some a' => mon_run a' r (N.succ i)
                | None => N.succ i
                end
    end.

  Variable Rel : St -> A -> Prop.
  Variable wf : C * list Q -> bool.
  Hypothesis Rel_step : forall s a cq, Rel s a -> wf cq = true ->
    exists a', mon a (model_ev s cq) = Some a' /\ Rel (step_state s (fst cq)) a'.

  Lemma mon_model cs : forall s a i, Rel s a -> forallb wf cs = true ->
    mon_run a (model_trace s cs) i = 0%N.
  Proof.
    induction cs as [|cq cs IH]; intros s a i HR Hwf; [reflexivity|].
    cbn [forallb] in Hwf. apply andb_prop in Hwf. destruct Hwf as [Hw Hwf].
    cbn [model_trace mon_run]. destruct (Rel_step (cq:=cq) HR Hw) as [a' [E HR']]. rewrite E.
    apply IH; auto.
  Qed.
End Replay.

(* ---- shape shared by the eight monitors ----
   A monitor keeps a reference state [A] (the plain set / map implied by the calls so far).
   [spec a c o]: given the call and the OBSERVED outcome, the next reference state, or None
   when the outcome contradicts the reference (e.g. a duplicate accepted, a refusal below the
   limit).  [chk a' qa]: one observed answer agrees with the reference state; [cross a' qas]:
   conditions relating several answers of the same event (index-based access is injective). *)
Section Mon.
  Variables C O Q V A : Type.
  Variable spec : A -> C -> res O -> option A.
  Variable chk : A -> Q * V -> bool.
  Variable cross : A -> list (Q * V) -> bool.
  Definition mon_of (a : A) (e : ev C O Q V) : option A :=
    match spec a (fst (fst e)) (snd (fst e)) with
    | Some a' => if forallb (chk a') (snd e) && cross a' (snd e) then Some a' else None
    | None => None
    end.
End Mon.

(* for calls that return nothing: only ok / fail is compared with the reference machine [f] *)
Definition spec_unit {A C} (f : A -> C -> res A) (a : A) (c : C) (o : res unit) : option A :=
  let r := f a c in
  if Bool.eqb (is_ok o) (is_ok r) then Some (match r with Ok x => x | Fail => a end) else None.

(* the reference machine run over a call list (a refused call leaves it unchanged) *)
Fixpoint spec_run {A C} (f : A -> C -> res A) (a : A) (cs : list C) : A :=
  match cs with
  | [] => a
  | c :: r => spec_run f (match f a c with Ok a' => a' | Fail => a end) r
  end.

(* ---- the ledger: every trace may contain [Advance n] steps (n ledgers pass, nothing is
   called).  A model step may read the current ledger sequence number; an [Advance] changes
   nothing but that number.  The monitor treats it alike: after an [Advance] every answer must
   still be the answer of the unchanged reference state - stored state that lapses with time
   (an entry moved to temporary storage, a shortened TTL) is a violation. ---- *)
Inductive tcall (C : Type) : Type :=
| Call (c : C)
| Advance (n : N).
Arguments Call {C} c.
Arguments Advance {C} n.

Section Ledger.
  Variables St C O Q V : Type.
  Variable step : N -> St -> C -> res (St * O).      (* first argument: the current ledger *)
  Variable ans : St -> Q -> V.
  Variable dflt : O.                                  (* the "outcome" recorded for an Advance *)

  Definition lstep (sl : St * N) (k : tcall C) : res ((St * N) * O) :=
    match k with
    | Call c => match step (snd sl) (fst sl) c with
                | Ok r => Ok ((fst r, snd sl), snd r)
                | Fail => Fail
                end
    | Advance n => Ok ((fst sl, (snd sl + n)%N), dflt)
    end.
  Definition lans (sl : St * N) (q : Q) : V := ans (fst sl) q.

  Variable A : Type.
  Variable spec : N -> A -> C -> res O -> option A.
  Variable chk : A -> Q * V -> bool.
  Variable cross : A -> list (Q * V) -> bool.

  Definition lspec (al : A * N) (k : tcall C) (o : res O) : option (A * N) :=
    match k with
    | Call c => match spec (snd al) (fst al) c o with
                | Some a' => Some (a', snd al)
                | None => None
                end
    | Advance n => match o with Ok _ => Some (fst al, (snd al + n)%N) | Fail => None end
    end.
  Definition lchk (al : A * N) (qa : Q * V) : bool := chk (fst al) qa.
  Definition lcross (al : A * N) (qas : list (Q * V)) : bool := cross (fst al) qas.
  Definition lmon := mon_of lspec lchk lcross.

  Variable Rel : St -> A -> Prop.
  Definition lRel (sl : St * N) (al : A * N) : Prop := Rel (fst sl) (fst al) /\ snd sl = snd al.

  Hypothesis Hstep : forall now s a cq, Rel s a ->
    exists a', mon_of (spec now) chk cross a (model_ev (step now) ans s cq) = Some a'
               /\ Rel (step_state (step now) s (fst cq)) a'.
  Hypothesis Hchk : forall s a q, Rel s a -> chk a (q, ans s q) = true.
  Hypothesis Hcross : forall s a qs, Rel s a -> cross a (map (fun q => (q, ans s q)) qs) = true.

  Lemma lmon_step sl al (cq : tcall C * list Q) : lRel sl al ->
    exists al', lmon al (model_ev lstep lans sl cq) = Some al' /\ lRel (step_state lstep sl (fst cq)) al'.
  Proof.
    intros [HR Hn]. destruct sl as [s now], al as [a now']. cbn [fst snd] in *. subst now'.
    destruct cq as [[c|n] qs].
    - destruct (Hstep now (c, qs) HR) as [a' [E HR']].
      unfold lmon, mon_of, model_ev, step_out, step_state in *. cbn [fst snd lstep lspec] in *.
      destruct (step now s c) as [[s' o]|]; cbn [fst snd] in *.
      + destruct (spec now a c (Ok o)) as [a1|]; [|discriminate]. unfold lchk, lcross, lans. cbn [fst snd].
        destruct (forallb (chk a1) (map (fun q => (q, ans s' q)) qs) && cross a1 (map (fun q => (q, ans s' q)) qs));
          [|discriminate].
        inversion E. subst a1. exists (a', now). split; auto. split; auto.
      + destruct (spec now a c Fail) as [a1|]; [|discriminate]. unfold lchk, lcross, lans. cbn [fst snd].
        destruct (forallb (chk a1) (map (fun q => (q, ans s q)) qs) && cross a1 (map (fun q => (q, ans s q)) qs));
          [|discriminate].
        inversion E. subst a1. exists (a', now). split; auto. split; auto.
    - unfold lmon, mon_of, model_ev, step_out, step_state. cbn [fst snd lstep lspec].
      unfold lchk, lcross, lans. cbn [fst snd]. exists (a, (now + n)%N).
      rewrite (Hcross qs HR), andb_true_r.
      assert (Hf : forallb (fun qa => chk a qa) (map (fun q => (q, ans s q)) qs) = true).
      { apply forallb_forall. intros [q v] Hin. apply in_map_iff in Hin.
        destruct Hin as [q' [E _]]. inversion E. subst. apply Hchk. auto. }
      rewrite Hf. split; [reflexivity|split; auto].
  Qed.
End Ledger.

(* ---- trace-level clauses shared by all monitors ---- *)
(* smallest non-zero index (0 if all are 0) *)
Definition first_idx (a b : N) : N :=
  if (a =? 0)%N then b else if (b =? 0)%N then a else N.min a b.
Lemma first_idx_0 : first_idx 0%N 0%N = 0%N.
Proof. reflexivity. Qed.

Section TraceClauses.
  Variables St C O Q V : Type.
  Variable step : St -> C -> res (St * O).
  Variable ans : St -> Q -> V.

  (* (1) no event without observation: an event whose query list is empty proves nothing *)
  Fixpoint nonempty_obs (t : list (ev C O Q V)) (i : N) : N :=
    match t with
    | [] => 0%N
    | e :: r => match snd e with [] => N.succ i | _ => nonempty_obs r (N.succ i) end
    end.
  Definition has_queries (cq : C * list Q) : bool := match snd cq with [] => false | _ => true end.
  Lemma nonempty_obs_model cs : forall s i, forallb has_queries cs = true ->
    nonempty_obs (model_trace step ans s cs) i = 0%N.
  Proof.
    induction cs as [|cq cs IH]; intros s i H; [reflexivity|].
    cbn [forallb] in H. apply andb_prop in H. destruct H as [H1 H2].
    cbn [model_trace nonempty_obs]. unfold model_ev at 1. cbn [snd].
    unfold has_queries in H1. destruct (snd cq); [discriminate|]. cbn [map]. apply IH. auto.
  Qed.
End TraceClauses.

Section GapStable.
  (* (2) index-based access is stable while nothing changes: across an Advance or a refused call
     the (index, element) pairs observed must stay ONE injective relation *)
  Variables St C O Q V : Type.
  Variable pairs : list (Q * V) -> list (N * N).

  Fixpoint gap_stable (prev : list (N * N)) (t : list (ev (tcall C) O Q V)) (i : N) : N :=
    match t with
    | [] => 0%N
    | e :: r =>
        let ps := pairs (snd e) in
        match fst (fst e), snd (fst e) with
        | Call _, Ok _ => gap_stable ps r (N.succ i)                 (* the call may have re-indexed *)
        | _, _ => if forallb (fun p => forallb (fun q => Bool.eqb (N.eqb (fst p) (fst q)) (N.eqb (snd p) (snd q))) (prev ++ ps)) (prev ++ ps)
                  then gap_stable (prev ++ ps) r (N.succ i) else N.succ i
        end
    end.

  Variable step : N -> St -> C -> res (St * O).
  Variable ans : St -> Q -> V.
  Variable dflt : O.
  Variable Inv : St -> Prop.
  Variable L : St -> list N.                 (* the enumeration the indexes refer to *)
  Hypothesis Inv_step : forall now s k, Inv s -> Inv (step_state (step now) s k).
  Hypothesis L_nodup : forall s, Inv s -> NoDup (L s).
  Hypothesis L_pairs : forall s qs, Inv s ->
    Forall (fun p => nth_error (L s) (N.to_nat (fst p)) = Some (snd p)) (pairs (map (fun q => (q, ans s q)) qs)).

  Lemma inj_pairs (l : list N) (ps : list (N * N)) : NoDup l ->
    Forall (fun p => nth_error l (N.to_nat (fst p)) = Some (snd p)) ps ->
    forallb (fun p => forallb (fun q => Bool.eqb (N.eqb (fst p) (fst q)) (N.eqb (snd p) (snd q))) ps) ps = true.
  Proof.
    intros Hn Hf. rewrite Forall_forall in Hf.
    apply forallb_forall. intros p Hp. apply forallb_forall. intros q Hq.
    pose proof (Hf p Hp) as Ep. pose proof (Hf q Hq) as Eq.
    destruct (N.eqb (fst p) (fst q)) eqn:E1.
    - apply N.eqb_eq in E1. rewrite E1 in Ep. rewrite Ep in Eq. inversion Eq. rewrite N.eqb_refl. reflexivity.
    - apply N.eqb_neq in E1. destruct (N.eqb (snd p) (snd q)) eqn:E2; auto.
      apply N.eqb_eq in E2. rewrite E2 in Ep.
      pose proof (NoDup_nth_error_inj _ _ Hn Ep Eq) as E. exfalso. apply E1. lia.
  Qed.

  Lemma gap_stable_model cs : forall sl prev i, Inv (fst sl) ->
    Forall (fun p => nth_error (L (fst sl)) (N.to_nat (fst p)) = Some (snd p)) prev ->
    gap_stable prev (model_trace (lstep step dflt) (lans ans) sl cs) i = 0%N.
  Proof.
    induction cs as [|cq cs IH]; intros sl prev i HI Hprev; [reflexivity|].
    destruct sl as [s now]. destruct cq as [k qs]. cbn [fst] in *.
    cbn [model_trace gap_stable]. unfold model_ev, step_out, step_state, lans. cbn [fst snd].
    assert (Hgap : forall ps, ps = pairs (map (fun q => (q, ans s q)) qs) ->
              forallb (fun p => forallb (fun q => Bool.eqb (N.eqb (fst p) (fst q)) (N.eqb (snd p) (snd q))) (prev ++ ps)) (prev ++ ps) = true
              /\ Forall (fun p => nth_error (L s) (N.to_nat (fst p)) = Some (snd p)) (prev ++ ps)).
    { intros ps ->.
      assert (Hall : Forall (fun p => nth_error (L s) (N.to_nat (fst p)) = Some (snd p))
                            (prev ++ pairs (map (fun q => (q, ans s q)) qs)))
        by (apply Forall_app; split; auto).
      split; auto. apply (inj_pairs (L_nodup HI) Hall). }
    destruct k as [c|n]; cbn [lstep fst snd].
    - destruct (step now s c) as [[s' o]|] eqn:Es; cbn [fst snd].
      + (* successful call *)
        assert (HI' : Inv s') by (pose proof (Inv_step now c HI) as H; unfold step_state in H; rewrite Es in H; exact H).
        apply IH; [exact HI'|]. cbn [fst]. apply L_pairs. auto.
      + (* refused call: nothing changed *)
        destruct (Hgap _ eq_refl) as [G1 G2]. rewrite G1. apply IH; auto.
    - (* ledger gap: nothing changed *)
      destruct (Hgap _ eq_refl) as [G1 G2]. rewrite G1. apply IH; auto.
  Qed.
End GapStable.
