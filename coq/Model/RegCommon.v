(* C20 - machinery shared by the eight registry models: the shape of a trace
   (call, outcome, answers to the queries asked after the call), the replay of an
   implementation trace through a model (diff), the run of a monitor, and the generic
   theorem "a monitor related to the model by a simulation accepts every model trace". *)
From SC Require Import Lib.Prelude Model.SwapPop.

Set Implicit Arguments.

Notation addr := N (only parsing).

Definition res_eqb {O} (oeqb : O -> O -> bool) (a b : res O) : bool :=
  match a, b with Ok x, Ok y => oeqb x y | Fail, Fail => true | _, _ => false end.
Lemma res_eqb_refl {O} (oeqb : O -> O -> bool) :
  (forall o, oeqb o o = true) -> forall r, res_eqb oeqb r r = true.
Proof. intros H [o|]; cbn; auto. Qed.

Definition unit_eqb (_ _ : unit) : bool := true.

Section Replay.
  Variables St C O Q V : Type.     (* model state, call, returned value, query, answer *)
  Variable step : St -> C -> res (St * O).
  Variable ans : St -> Q -> V.
  Variable oeqb : O -> O -> bool.
  Variable veqb : V -> V -> bool.
  Hypothesis oeqb_refl : forall o, oeqb o o = true.
  Hypothesis veqb_refl : forall v, veqb v v = true.

  (* a failing call leaves the state unchanged (host rollback) *)
  Definition step_state (s : St) (c : C) : St :=
    match step s c with Ok (s', _) => s' | Fail => s end.
  Definition step_out (s : St) (c : C) : res O :=
    match step s c with Ok (_, o) => Ok o | Fail => Fail end.

  (* one observed event: the call, its outcome, and the answers to the queries asked
     right after it (also after failing calls) *)
  Definition ev := (C * res O * list (Q * V))%type.

  Definition ev_agrees (s' : St) (o : res O) (e : ev) : bool :=
    res_eqb oeqb o (snd (fst e)) &&
    forallb (fun qa => veqb (ans s' (fst qa)) (snd qa)) (snd e).

  (* diff: 1-based index of the first event that differs from the model, 0 if none *)
  Fixpoint replay (s : St) (t : list ev) (i : N) : N :=
    match t with
    | [] => 0%N
    | e :: r =>
        let c := fst (fst e) in
        let s' := step_state s c in
        if ev_agrees s' (step_out s c) e then replay s' r (N.succ i) else N.succ i
    end.

  (* the trace the model itself produces for given calls and queries *)
  Definition model_ev (s : St) (cq : C * list Q) : ev :=
    (fst cq, step_out s (fst cq), map (fun q => (q, ans (step_state s (fst cq)) q)) (snd cq)).
  Fixpoint model_trace (s : St) (cs : list (C * list Q)) : list ev :=
    match cs with
    | [] => []
    | cq :: r => model_ev s cq :: model_trace (step_state s (fst cq)) r
    end.
  Fixpoint run (s : St) (cs : list C) : St :=
    match cs with [] => s | c :: r => run (step_state s c) r end.

  Lemma replay_model cs : forall s i, replay s (model_trace s cs) i = 0%N.
  Proof.
    induction cs as [|cq cs IH]; intros s i; [reflexivity|].
    cbn [model_trace replay]. unfold model_ev at 1 2 3. cbn [fst snd].
    unfold ev_agrees. cbn [fst snd]. rewrite res_eqb_refl by auto.
    replace (forallb _ _) with true; [apply IH|].
    symmetry. apply forallb_forall. intros [q v] H. apply in_map_iff in H.
    destruct H as [q' [E _]]. inversion E. subst. cbn. apply veqb_refl.
  Qed.

  (* ---- monitors ---- *)
  Variable A : Type.                       (* the monitor's reference state *)
  Variable mon : A -> ev -> option A.      (* None = the property is violated *)

  Fixpoint mon_run (a : A) (t : list ev) (i : N) : N :=
    match t with
    | [] => 0%N
    | e :: r => match mon a e with
                | Some a' => mon_run a' r (N.succ i)
                | None => N.succ i
                end
    end.

  Variable Rel : St -> A -> Prop.
  Variable wf : C * list Q -> bool.
  Hypothesis Rel_step : forall s a cq, Rel s a -> wf cq = true ->
    exists a', mon a (model_ev s cq) = Some a' /\ Rel (step_state s (fst cq)) a'.

  Lemma mon_model cs : forall s a i, Rel s a -> forallb wf cs = true ->
    mon_run a (model_trace s cs) i = 0%N.
  Proof.
    induction cs as [|cq cs IH]; intros s a i HR Hwf; [reflexivity|].
    cbn [forallb] in Hwf. apply andb_prop in Hwf. destruct Hwf as [Hw Hwf].
    cbn [model_trace mon_run]. destruct (Rel_step (cq:=cq) HR Hw) as [a' [E HR']]. rewrite E.
    apply IH; auto.
  Qed.
End Replay.

(* ---- shape shared by the eight monitors ----
   A monitor keeps a reference state [A] (the plain set / map implied by the calls so far).
   [spec a c o]: given the call and the OBSERVED outcome, the next reference state, or None
   when the outcome contradicts the reference (e.g. a duplicate accepted, a refusal below the
   limit).  [chk a' qa]: one observed answer agrees with the reference state; [cross a' qas]:
   conditions relating several answers of the same event (index-based access is injective). *)
Section Mon.
  Variables C O Q V A : Type.
  Variable spec : A -> C -> res O -> option A.
  Variable chk : A -> Q * V -> bool.
  Variable cross : A -> list (Q * V) -> bool.
  Definition mon_of (a : A) (e : ev C O Q V) : option A :=
    match spec a (fst (fst e)) (snd (fst e)) with
    | Some a' => if forallb (chk a') (snd e) && cross a' (snd e) then Some a' else None
    | None => None
    end.
End Mon.

(* for calls that return nothing: only ok / fail is compared with the reference machine [f] *)
Definition spec_unit {A C} (f : A -> C -> res A) (a : A) (c : C) (o : res unit) : option A :=
  let r := f a c in
  if Bool.eqb (is_ok o) (is_ok r) then Some (match r with Ok x => x | Fail => a end) else None.

(* the reference machine run over a call list (a refused call leaves it unchanged) *)
Fixpoint spec_run {A C} (f : A -> C -> res A) (a : A) (cs : list C) : A :=
  match cs with
  | [] => a
  | c :: r => spec_run f (match f a c with Ok a' => a' | Fail => a end) r
  end.

(* ---- the ledger: every trace may contain [Advance n] steps (n ledgers pass, nothing is
   called).  A model step may read the current ledger sequence number; an [Advance] changes
   nothing but that number.  The monitor treats it alike: after an [Advance] every answer must
   still be the answer of the unchanged reference state - stored state that lapses with time
   (an entry moved to temporary storage, a shortened TTL) is a violation. ---- *)
Inductive tcall (C : Type) : Type :=
| Call (c : C)
| Advance (n : N).
Arguments Call {C} c.
Arguments Advance {C} n.

Section Ledger.
  Variables St C O Q V : Type.
  Variable step : N -> St -> C -> res (St * O).      (* first argument: the current ledger *)
  Variable ans : St -> Q -> V.
  Variable dflt : O.                                  (* the "outcome" recorded for an Advance *)

  Definition lstep (sl : St * N) (k : tcall C) : res ((St * N) * O) :=
    match k with
    | Call c => match step (snd sl) (fst sl) c with
                | Ok r => Ok ((fst r, snd sl), snd r)
                | Fail => Fail
                end
    | Advance n => Ok ((fst sl, (snd sl + n)%N), dflt)
    end.
  Definition lans (sl : St * N) (q : Q) : V := ans (fst sl) q.

  Variable A : Type.
  Variable spec : N -> A -> C -> res O -> option A.
  Variable chk : A -> Q * V -> bool.
  Variable cross : A -> list (Q * V) -> bool.

  Definition lspec (al : A * N) (k : tcall C) (o : res O) : option (A * N) :=
    match k with
    | Call c => match spec (snd al) (fst al) c o with
                | Some a' => Some (a', snd al)
                | None => None
                end
    | Advance n => match o with Ok _ => Some (fst al, (snd al + n)%N) | Fail => None end
    end.
  Definition lchk (al : A * N) (qa : Q * V) : bool := chk (fst al) qa.
  Definition lcross (al : A * N) (qas : list (Q * V)) : bool := cross (fst al) qas.
  Definition lmon := mon_of lspec lchk lcross.

  Variable Rel : St -> A -> Prop.
  Definition lRel (sl : St * N) (al : A * N) : Prop := Rel (fst sl) (fst al) /\ snd sl = snd al.

  Hypothesis Hstep : forall now s a cq, Rel s a ->
    exists a', mon_of (spec now) chk cross a (model_ev (step now) ans s cq) = Some a'
               /\ Rel (step_state (step now) s (fst cq)) a'.
  Hypothesis Hchk : forall s a q, Rel s a -> chk a (q, ans s q) = true.
  Hypothesis Hcross : forall s a qs, Rel s a -> cross a (map (fun q => (q, ans s q)) qs) = true.

  Lemma lmon_step sl al (cq : tcall C * list Q) : lRel sl al ->
    exists al', lmon al (model_ev lstep lans sl cq) = Some al' /\ lRel (step_state lstep sl (fst cq)) al'.
  Proof.
    intros [HR Hn]. destruct sl as [s now], al as [a now']. cbn [fst snd] in *. subst now'.
    destruct cq as [[c|n] qs].
    - destruct (Hstep now (c, qs) HR) as [a' [E HR']].
      unfold lmon, mon_of, model_ev, step_out, step_state in *. cbn [fst snd lstep lspec] in *.
      destruct (step now s c) as [[s' o]|]; cbn [fst snd] in *.
      + destruct (spec now a c (Ok o)) as [a1|]; [|discriminate]. unfold lchk, lcross, lans. cbn [fst snd].
        destruct (forallb (chk a1) (map (fun q => (q, ans s' q)) qs) && cross a1 (map (fun q => (q, ans s' q)) qs));
          [|discriminate].
        inversion E. subst a1. exists (a', now). split; auto. split; auto.
      + destruct (spec now a c Fail) as [a1|]; [|discriminate]. unfold lchk, lcross, lans. cbn [fst snd].
        destruct (forallb (chk a1) (map (fun q => (q, ans s q)) qs) && cross a1 (map (fun q => (q, ans s q)) qs));
          [|discriminate].
        inversion E. subst a1. exists (a', now). split; auto. split; auto.
    - unfold lmon, mon_of, model_ev, step_out, step_state. cbn [fst snd lstep lspec].
      unfold lchk, lcross, lans. cbn [fst snd]. exists (a, (now + n)%N).
      rewrite (Hcross qs HR), andb_true_r.
      assert (Hf : forallb (fun qa => chk a qa) (map (fun q => (q, ans s q)) qs) = true).
      { apply forallb_forall. intros [q v] Hin. apply in_map_iff in Hin.
        destruct Hin as [q' [E _]]. inversion E. subst. apply Hchk. auto. }
      rewrite Hf. split; [reflexivity|split; auto].
  Qed.
End Ledger.
