(* C14 - executable model of the three smart-account policies
     packages/accounts/src/policies/simple_threshold.rs
     packages/accounts/src/policies/weighted_threshold.rs
     packages/accounts/src/policies/spending_limit.rs
   (as exposed by examples/multisig-smart-account/{threshold-policy,spending-limit-policy}
   and, for the weighted policy, by a thin harness wrapper).

   One state for the three policy contracts; every policy stores one entry per
   (smart account, context rule id).  A call carries the set of addresses whose
   authorisation is attached ([auths]; the invoking contract counts as authorising),
   the smart-account address, the rule id and the arguments the code looks at.
   A failing call returns the old state (host rollback).  *)
From SC Require Import Lib.Prelude Lib.Int Lib.Host.

Definition signer := N.
Definition key := (addr * N)%type.          (* (smart account, context rule id) *)
Definition key_eqb (a b : key) : bool := N.eqb (fst a) (fst b) && N.eqb (snd a) (snd b).

Lemma key_eqb_eq a b : key_eqb a b = true <-> a = b.
Proof.
  destruct a as [a1 a2], b as [b1 b2]. unfold key_eqb. cbn [fst snd].
  rewrite andb_true_iff, !N.eqb_eq. split; [intros [-> ->]; reflexivity|intros H; inversion H; auto].
Qed.
Lemma key_eqb_refl a : key_eqb a a = true.
Proof. apply key_eqb_eq. reflexivity. Qed.
Lemma key_eqb_neq a b : key_eqb a b = false <-> a <> b.
Proof.
  split.
  - intros H E. apply key_eqb_eq in E. congruence.
  - intros H. destruct (key_eqb a b) eqn:E; auto. apply key_eqb_eq in E. contradiction.
Qed.

(* ---- persistent storage of one policy contract: key -> value ---- *)
Section KMap.
  Context {V : Type}.
  Fixpoint kget (k : key) (m : list (key * V)) : option V :=
    match m with
    | [] => None
    | (k', v) :: r => if key_eqb k k' then Some v else kget k r
    end.
  Fixpoint kremove (k : key) (m : list (key * V)) : list (key * V) :=
    match m with
    | [] => []
    | (k', v) :: r => if key_eqb k k' then kremove k r else (k', v) :: kremove k r
    end.
  Definition kset (k : key) (v : V) (m : list (key * V)) : list (key * V) := (k, v) :: kremove k m.

  Lemma kget_remove_eq k m : kget k (kremove k m) = None.
  Proof.
    induction m as [|[k' v] r IH]; cbn [kremove kget]; auto.
    destruct (key_eqb k k') eqn:E; auto. cbn [kget]. rewrite E. exact IH.
  Qed.
  Lemma kget_remove_neq k k' m : k <> k' -> kget k (kremove k' m) = kget k m.
  Proof.
    intros Hn. induction m as [|[k2 v] r IH]; cbn [kremove kget]; auto.
    destruct (key_eqb k' k2) eqn:E.
    - apply key_eqb_eq in E. subst k2. apply key_eqb_neq in Hn. rewrite Hn. exact IH.
    - cbn [kget]. destruct (key_eqb k k2); auto.
  Qed.
  Lemma kget_set_eq k v m : kget k (kset k v m) = Some v.
  Proof. unfold kset. cbn [kget]. rewrite key_eqb_refl. reflexivity. Qed.
  Lemma kget_set_neq k k' v m : k <> k' -> kget k (kset k' v m) = kget k m.
  Proof.
    intros Hn. unfold kset. cbn [kget]. pose proof Hn as Hn'. apply key_eqb_neq in Hn'. rewrite Hn'.
    apply kget_remove_neq; exact Hn.
  Qed.
End KMap.

(* ---- constants of the code: model parameters (printed by the harness) ---- *)
Record cfg := { max_history : Z }.           (* spending_limit::MAX_HISTORY_ENTRIES *)

(* ---- authorisation contexts (soroban_sdk::auth::Context) ----
   The token contract called (the policies never look at it), the kind, the function name (0 = "transfer",
   anything else = another symbol) and, per argument, whether it converts to i128. *)
Inductive arg := AI128 (z : Z) | AOther.
Inductive context :=
| CContract (tok : N) (fn : N) (args : list arg)   (* token contract called, function name, arguments *)
| CCreate                                   (* CreateContractHostFn *)
| CCreateCtor.                              (* CreateContractWithCtorHostFn *)
Definition FN_TRANSFER : N := 0%N.

(* the amount the spending-limit policy extracts: Contract context, fn_name ==
   "transfer", args.get(2) present and i128::try_from_val succeeds *)
Definition transfer_amount (c : context) : option Z :=
  match c with
  | CContract _ fn args =>                     (* ONE budget for all token contracts *)
      if N.eqb fn FN_TRANSFER then
        match nth_error args 2 with
        | Some (AI128 a) => if in_i128 a then Some a else None
        | _ => None
        end
      else None
  | _ => None
  end.

(* ---- stored data ---- *)
Record wdata := { wd_weights : list (N * Z); wd_thr : Z }.    (* WeightedThresholdAccountParams *)
Definition entry := (Z * Z)%type.                              (* SpendingEntry: (amount, ledger_sequence) *)
Record sdata := {                                              (* SpendingLimitData *)
  sd_limit : Z; sd_period : Z; sd_hist : list entry; sd_cached : Z }.

Record state := {
  now : Z;                                   (* e.ledger().sequence() *)
  st_simple : list (key * Z);
  st_weighted : list (key * wdata);
  st_spend : list (key * sdata) }.

Definition init (n0 : Z) : state := {| now := n0; st_simple := []; st_weighted := []; st_spend := [] |}.

Definition set_now (s : state) (n : Z) : state :=
  {| now := n; st_simple := st_simple s; st_weighted := st_weighted s; st_spend := st_spend s |}.
Definition set_simple (s : state) (m : list (key * Z)) : state :=
  {| now := now s; st_simple := m; st_weighted := st_weighted s; st_spend := st_spend s |}.
Definition set_weighted (s : state) (m : list (key * wdata)) : state :=
  {| now := now s; st_simple := st_simple s; st_weighted := m; st_spend := st_spend s |}.
Definition set_spend (s : state) (m : list (key * sdata)) : state :=
  {| now := now s; st_simple := st_simple s; st_weighted := st_weighted s; st_spend := m |}.

Inductive pol := PS | PW | PL.              (* simple threshold, weighted threshold, spending limit *)
Definition pol_eqb (a b : pol) : bool :=
  match a, b with PS, PS | PW, PW | PL, PL => true | _, _ => false end.

(* event published by a successful enforce: policy, smart account, rule id,
   number of authenticated signers (simple/weighted; 0 for spending),
   amount and total_spent_in_period (spending; 0 otherwise) *)
Inductive event := EvEnforced (p : pol) (acct : addr) (rid : N) (nsg : Z) (amount total : Z).

Inductive ret := RUnit | RBool (b : bool).
Definition outcome := res ret.

Inductive call :=
| Advance (n : Z)
| CanEnforce (p : pol) (acct : addr) (rid : N) (ctx : context) (sgs : list signer)
    (* enforce for every context of [ctxs] in order, inside ONE invocation (the smart account's
       __check_auth enforces all contexts of an authorisation batch); all or nothing *)
| Enforce (p : pol) (auths : list addr) (acct : addr) (rid : N) (ctxs : list context) (sgs : list signer)
| Uninstall (p : pol) (auths : list addr) (acct : addr) (rid : N)
| SInstall (auths : list addr) (acct : addr) (rid : N) (rsigners : list signer) (t : Z)
| SSetThreshold (auths : list addr) (acct : addr) (rid : N) (rsigners : list signer) (t : Z)
| WInstall (auths : list addr) (acct : addr) (rid : N) (ws : list (signer * Z)) (t : Z)
| WSetThreshold (auths : list addr) (acct : addr) (rid : N) (t : Z)
| WSetWeight (auths : list addr) (acct : addr) (rid : N) (sg : signer) (w : Z)
| LInstall (auths : list addr) (acct : addr) (rid : N) (limit period : Z)
| LSetLimit (auths : list addr) (acct : addr) (rid : N) (limit : Z).

Definition len {A} (l : list A) : Z := Z.of_nat (length l).

(* ================= simple threshold ================= *)

(* validate_and_set_threshold *)
Definition s_validate_and_set (s : state) (k : key) (rsigners : list signer) (t : Z) : res state :=
  if (t =? 0) || (len rsigners <? t) then Fail
  else Ok (set_simple s (kset k t (st_simple s))).

Definition s_install (s : state) auths acct rid rsigners t : res state :=
  do _ <- guard (has_auth auths acct);
  do _ <- guard (in_u32 t);
  match kget (acct, rid) (st_simple s) with
  | Some _ => Fail                                             (* AlreadyInstalled *)
  | None => s_validate_and_set s (acct, rid) rsigners t
  end.

(* NB: the code does not require the policy to be installed *)
Definition s_set_threshold (s : state) auths acct rid rsigners t : res state :=
  do _ <- guard (has_auth auths acct);
  do _ <- guard (in_u32 t);
  s_validate_and_set s (acct, rid) rsigners t.

Definition s_uninstall (s : state) auths acct rid : res state :=
  do _ <- guard (has_auth auths acct);
  Ok (set_simple s (kremove (acct, rid) (st_simple s))).

Definition s_can_enforce (s : state) acct rid (sgs : list signer) : res bool :=
  match kget (acct, rid) (st_simple s) with
  | Some t => Ok (t <=? len sgs)
  | None => Ok false
  end.

Definition s_enforce_one (s : state) auths acct rid (sgs : list signer) (ctx : context) : res (state * event) :=
  do _ <- guard (has_auth auths acct);
  do t <- of_option (kget (acct, rid) (st_simple s));          (* get_threshold: SmartAccountNotInstalled *)
  if t <=? len sgs then Ok (s, EvEnforced PS acct rid (len sgs) 0 0) else Fail.

(* ================= weighted threshold ================= *)

(* calculate_total_weight: u32 checked_add over the map's values *)
Fixpoint total_weight_from (acc : Z) (ws : list (N * Z)) : option Z :=
  match ws with
  | [] => Some acc
  | (_, w) :: r => match checked_add_u32 acc w with Some x => total_weight_from x r | None => None end
  end.
Definition total_weight (ws : list (N * Z)) : option Z := total_weight_from 0 ws.

(* calculate_weight: signers without a configured weight are skipped *)
Fixpoint calc_weight_from (acc : Z) (ws : list (N * Z)) (sgs : list signer) : option Z :=
  match sgs with
  | [] => Some acc
  | sg :: r =>
      match alist_get sg ws with
      | Some w => match checked_add_u32 acc w with Some x => calc_weight_from x ws r | None => None end
      | None => calc_weight_from acc ws r
      end
  end.
Definition calc_weight (ws : list (N * Z)) (sgs : list signer) : option Z := calc_weight_from 0 ws sgs.

(* a Map<Signer, u32> argument: unique keys (the first binding of a key wins; the harness passes unique keys), u32 values *)
Fixpoint wnorm (ws : list (N * Z)) : list (N * Z) :=
  match ws with
  | [] => []
  | (k, v) :: r => (k, v) :: alist_remove k (wnorm r)
  end.

Definition w_install (s : state) auths acct rid (ws : list (N * Z)) t : res state :=
  do _ <- guard (has_auth auths acct);
  do _ <- guard (in_u32 t && forallb (fun kv => in_u32 (snd kv)) ws);
  match kget (acct, rid) (st_weighted s) with
  | Some _ => Fail                                             (* AlreadyInstalled *)
  | None =>
      do total <- of_option (total_weight (wnorm ws));         (* MathOverflow *)
      if (t =? 0) || (total <? t) then Fail                    (* InvalidThreshold *)
      else Ok (set_weighted s (kset (acct, rid) {| wd_weights := wnorm ws; wd_thr := t |} (st_weighted s)))
  end.

Definition w_set_threshold (s : state) auths acct rid t : res state :=
  do _ <- guard (has_auth auths acct);
  do _ <- guard (in_u32 t);
  if t =? 0 then Fail
  else
    do d <- of_option (kget (acct, rid) (st_weighted s));
    do total <- of_option (total_weight (wd_weights d));
    if total <? t then Fail
    else Ok (set_weighted s (kset (acct, rid) {| wd_weights := wd_weights d; wd_thr := t |} (st_weighted s))).

Definition w_set_weight (s : state) auths acct rid (sg : signer) (w : Z) : res state :=
  do _ <- guard (has_auth auths acct);
  do _ <- guard (in_u32 w);
  do d <- of_option (kget (acct, rid) (st_weighted s));
  let ws := alist_set sg w (wd_weights d) in
  do total <- of_option (total_weight ws);
  if total <? wd_thr d then Fail
  else Ok (set_weighted s (kset (acct, rid) {| wd_weights := ws; wd_thr := wd_thr d |} (st_weighted s))).

Definition w_uninstall (s : state) auths acct rid : res state :=
  do _ <- guard (has_auth auths acct);
  Ok (set_weighted s (kremove (acct, rid) (st_weighted s))).

Definition w_can_enforce (s : state) acct rid (sgs : list signer) : res bool :=
  match kget (acct, rid) (st_weighted s) with
  | Some d => do w <- of_option (calc_weight (wd_weights d) sgs); Ok (wd_thr d <=? w)
  | None => Ok false
  end.

Definition w_enforce_one (s : state) auths acct rid (sgs : list signer) (ctx : context) : res (state * event) :=
  do _ <- guard (has_auth auths acct);
  do d <- of_option (kget (acct, rid) (st_weighted s));
  do w <- of_option (calc_weight (wd_weights d) sgs);
  if wd_thr d <=? w then Ok (s, EvEnforced PW acct rid (len sgs) 0 0) else Fail.

(* ================= spending limit ================= *)

(* u32::saturating_sub *)
Definition sat_sub (a b : Z) : Z := Z.max 0 (a - b).

(* the for-loop of can_enforce over the history:
   Ok (Some expired_total) = loop left normally, Ok None = `return false`
   (history capacity), Fail = i128 overflow trap of `expired_total += amount` *)
Fixpoint ce_scan (mh cutoff : Z) (h : list entry) (expired : Z) : res (option Z) :=
  match h with
  | [] => Ok (Some expired)
  | (a, l) :: r =>
      if l <=? cutoff then
        match checked_add expired a with Some x => ce_scan mh cutoff r x | None => Fail end
      else if mh <=? len h then Ok None else Ok (Some expired)
  end.

Definition l_can_enforce (c : cfg) (s : state) acct rid (ctx : context) (sgs : list signer) : res bool :=
  match sgs with
  | [] => Ok false
  | _ =>
    match kget (acct, rid) (st_spend s) with
    | None => Ok false
    | Some d =>
        match transfer_amount ctx with
        | None => Ok false
        | Some amount =>
            let cutoff := sat_sub (now s) (sd_period d) in
            do r <- ce_scan (max_history c) cutoff (sd_hist d) 0;
            match r with
            | None => Ok false
            | Some expired =>
                do total <- of_option (checked_sub (sd_cached d) expired);
                do sum <- of_option (checked_add total amount);
                Ok (sum <=? sd_limit d)
            end
        end
    end
  end.

(* cleanup_old_entries: pops expired entries from the front; returns (removed_total, rest) *)
Fixpoint cleanup (cutoff : Z) (h : list entry) (removed : Z) : res (Z * list entry) :=
  match h with
  | [] => Ok (removed, [])
  | (a, l) :: r =>
      if l <=? cutoff then
        match checked_add removed a with Some x => cleanup cutoff r x | None => Fail end
      else Ok (removed, h)
  end.

Definition l_enforce_data (c : cfg) (nw : Z) (d : sdata) (amount : Z) : res sdata :=
  do rh <- cleanup (sat_sub nw (sd_period d)) (sd_hist d) 0;
  let '(removed, h) := rh in
  do cached <- of_option (checked_sub (sd_cached d) removed);
  do sum <- of_option (checked_add cached amount);
  if sd_limit d <? sum then Fail                               (* SpendingLimitExceeded *)
  else if max_history c <=? len h then Fail                    (* HistoryCapacityExceeded *)
  else Ok {| sd_limit := sd_limit d; sd_period := sd_period d;
             sd_hist := h ++ [(amount, nw)]; sd_cached := sum |}.

Definition l_enforce_one (c : cfg) (s : state) auths acct rid (sgs : list signer) (ctx : context)
  : res (state * event) :=
  do _ <- guard (has_auth auths acct);
  match sgs with
  | [] => Fail
  | _ =>
    do d <- of_option (kget (acct, rid) (st_spend s));
    match transfer_amount ctx with
    | None => Fail                                             (* NotAllowed *)
    | Some amount =>
        do d' <- l_enforce_data c (now s) d amount;
        Ok (set_spend s (kset (acct, rid) d' (st_spend s)),
            EvEnforced PL acct rid 0 amount (sd_cached d'))
    end
  end.

Definition l_install (s : state) auths acct rid (limit period : Z) : res state :=
  do _ <- guard (has_auth auths acct);
  do _ <- guard (in_i128 limit && in_u32 period);
  if (limit <=? 0) || (period =? 0) then Fail                  (* InvalidLimitOrPeriod *)
  else match kget (acct, rid) (st_spend s) with
       | Some _ => Fail                                        (* AlreadyInstalled *)
       | None => Ok (set_spend s (kset (acct, rid)
                  {| sd_limit := limit; sd_period := period; sd_hist := []; sd_cached := 0 |} (st_spend s)))
       end.

Definition l_set_limit (s : state) auths acct rid (limit : Z) : res state :=
  do _ <- guard (has_auth auths acct);
  do _ <- guard (in_i128 limit);
  if limit <=? 0 then Fail
  else
    do d <- of_option (kget (acct, rid) (st_spend s));
    Ok (set_spend s (kset (acct, rid)
          {| sd_limit := limit; sd_period := sd_period d; sd_hist := sd_hist d; sd_cached := sd_cached d |}
          (st_spend s))).

Definition l_uninstall (s : state) auths acct rid : res state :=
  do _ <- guard (has_auth auths acct);
  Ok (set_spend s (kremove (acct, rid) (st_spend s))).

(* ================= dispatch ================= *)

Definition enforce_one (c : cfg) (p : pol) (s : state) auths acct rid sgs (ctx : context) : res (state * event) :=
  match p with
  | PS => s_enforce_one s auths acct rid sgs ctx
  | PW => w_enforce_one s auths acct rid sgs ctx
  | PL => l_enforce_one c s auths acct rid sgs ctx
  end.

Fixpoint enforce_batch (c : cfg) (p : pol) (s : state) auths acct rid sgs (ctxs : list context)
  : res (state * list event) :=
  match ctxs with
  | [] => Ok (s, [])
  | ctx :: r =>
      do se <- enforce_one c p s auths acct rid sgs ctx;
      do se' <- enforce_batch c p (fst se) auths acct rid sgs r;
      Ok (fst se', snd se :: snd se')
  end.

Definition can_enforce (c : cfg) (p : pol) (s : state) acct rid ctx sgs : res bool :=
  match p with
  | PS => s_can_enforce s acct rid sgs
  | PW => w_can_enforce s acct rid sgs
  | PL => l_can_enforce c s acct rid ctx sgs
  end.

Definition uninstall (p : pol) (s : state) auths acct rid : res state :=
  match p with
  | PS => s_uninstall s auths acct rid
  | PW => w_uninstall s auths acct rid
  | PL => l_uninstall s auths acct rid
  end.

Definition unit_of (r : res state) : res (state * ret * list event) :=
  do s <- r; Ok (s, RUnit, []).

Definition exec (c : cfg) (s : state) (cl : call) : res (state * ret * list event) :=
  match cl with
  | Advance n =>
      if (0 <=? n) && (now s + n <=? MAXU32) then Ok (set_now s (now s + n), RUnit, []) else Fail
  | CanEnforce p acct rid ctx sgs =>
      do b <- can_enforce c p s acct rid ctx sgs; Ok (s, RBool b, [])
  | Enforce p auths acct rid ctxs sgs =>
      do se <- enforce_batch c p s auths acct rid sgs ctxs; Ok (fst se, RUnit, snd se)
  | Uninstall p auths acct rid => unit_of (uninstall p s auths acct rid)
  | SInstall auths acct rid rs t => unit_of (s_install s auths acct rid rs t)
  | SSetThreshold auths acct rid rs t => unit_of (s_set_threshold s auths acct rid rs t)
  | WInstall auths acct rid ws t => unit_of (w_install s auths acct rid ws t)
  | WSetThreshold auths acct rid t => unit_of (w_set_threshold s auths acct rid t)
  | WSetWeight auths acct rid sg w => unit_of (w_set_weight s auths acct rid sg w)
  | LInstall auths acct rid l p => unit_of (l_install s auths acct rid l p)
  | LSetLimit auths acct rid l => unit_of (l_set_limit s auths acct rid l)
  end.

(* one call: new state (the OLD state on failure), outcome, events of the invocation *)
Definition step (c : cfg) (s : state) (cl : call) : state * outcome * list event :=
  match exec c s cl with
  | Ok (s', r, evs) => (s', Ok r, evs)
  | Fail => (s, Fail, [])
  end.

Definition step_state (c : cfg) (s : state) (cl : call) : state := fst (fst (step c s cl)).
Definition run (c : cfg) (s : state) (cs : list call) : state := fold_left (step_state c) cs s.

(* ================= observation: the public getters, for a finite universe ================= *)
Record universe := { u_keys : list key; u_sgs : list signer }.

Definition wobs := option (Z * list (option Z)).   (* get_threshold, get_signer_weights at the universe's signers *)
Definition lobs := option (Z * Z * list entry * Z). (* get_spending_limit_data *)
Record obs := mkobs {
  o_s : list (option Z);                           (* simple get_threshold per key (None = not installed) *)
  o_w : list wobs;
  o_l : list lobs;
  o_ev : list event }.

Definition obs_w (u : universe) (d : wdata) : Z * list (option Z) :=
  (wd_thr d, map (fun sg => alist_get sg (wd_weights d)) (u_sgs u)).
Definition obs_l (d : sdata) : Z * Z * list entry * Z :=
  (sd_limit d, sd_period d, sd_hist d, sd_cached d).

Definition observe (u : universe) (s : state) (evs : list event) : obs :=
  {| o_s := map (fun k => kget k (st_simple s)) (u_keys u);
     o_w := map (fun k => option_map (obs_w u) (kget k (st_weighted s))) (u_keys u);
     o_l := map (fun k => option_map obs_l (kget k (st_spend s))) (u_keys u);
     o_ev := evs |}.
