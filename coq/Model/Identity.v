(* C15 - model of the RWA identity stack:
     claim_topics_and_issuers/storage.rs   (registry of required topics and trusted issuers)
     identity_registry_storage/storage.rs  (account -> identity, recovery)
     identity_claims/storage.rs            (claims held by an identity, topic index)
     identity_verifier/storage.rs          (verify_identity, validate_claim, the two links)
   composed with the reference issuer of Model/ClaimIssuer.v into one world of contracts.
   Cross-contract calls to an address that is not a contract of the expected kind fail; the one
   exception is `is_claim_valid` at an address that is not a reference issuer: its answer is the
   oracle [c_other] of the configuration (an arbitrary foreign issuer contract). *)
From SC Require Import Lib.Prelude Lib.Int Lib.Host Model.ClaimIssuer.

Definition mem_z (x : Z) (l : list Z) : bool := existsb (Z.eqb x) l.
Definition mem_a (x : addr) (l : list addr) : bool := existsb (N.eqb x) l.

(* ========================================================================= *)
(* claim topics and issuers                                                   *)
(* ========================================================================= *)
Record cti := {
  ct_topics : list Z;                         (* ClaimTopics *)
  ct_issuers : list addr;                     (* TrustedIssuers *)
  ct_itopics : list (addr * list Z);          (* IssuerClaimTopics(issuer), present / absent *)
  ct_tissuers : list (Z * list addr)          (* ClaimTopicIssuers(topic), present / absent *)
}.
Definition cti0 : cti := {| ct_topics := []; ct_issuers := []; ct_itopics := []; ct_tissuers := [] |}.

Definition get_claim_topic_issuers (s : cti) (t : Z) : res (list addr) :=
  of_option (aget Z.eqb t (ct_tissuers s)).
Definition get_trusted_issuer_claim_topics (s : cti) (i : addr) : res (list Z) :=
  of_option (aget N.eqb i (ct_itopics s)).
Definition is_trusted_issuer (s : cti) (i : addr) : bool := mem_a i (ct_issuers s).
Definition has_claim_topic (s : cti) (i : addr) (t : Z) : res bool :=
  do ts <- get_trusted_issuer_claim_topics s i; Ok (mem_z t ts).

(* soroban Map::set: the map is kept sorted by key *)
Fixpoint map_set {V} (k : Z) (v : V) (m : list (Z * V)) : list (Z * V) :=
  match m with
  | [] => [(k, v)]
  | (k', v') :: r =>
      if k <? k' then (k, v) :: m
      else if k =? k' then (k, v) :: r
      else (k', v') :: map_set k v r
  end.
Fixpoint topics_and_issuers_from (s : cti) (ts : list Z) (acc : list (Z * list addr))
  : res (list (Z * list addr)) :=
  match ts with
  | [] => Ok acc
  | t :: r => do is <- get_claim_topic_issuers s t; topics_and_issuers_from s r (map_set t is acc)
  end.
Definition get_claim_topics_and_issuers (s : cti) : res (list (Z * list addr)) :=
  topics_and_issuers_from s (ct_topics s) [].

Definition add_claim_topic (c : cfg) (s : cti) (t : Z) : res cti :=
  if c_max_topics c <=? zlen (ct_topics s) then Fail
  else if mem_z t (ct_topics s) then Fail
  else Ok {| ct_topics := ct_topics s ++ [t]; ct_issuers := ct_issuers s; ct_itopics := ct_itopics s;
             ct_tissuers := aset Z.eqb t [] (ct_tissuers s) |}.

(* for every trusted issuer: drop the topic from its IssuerClaimTopics (if listed) *)
Definition drop_topic_of_issuers (t : Z) (issuers : list addr) (m : list (addr * list Z)) : list (addr * list Z) :=
  fold_left (fun m i =>
    match aget N.eqb i m with
    | Some ts => match remove_first (Z.eqb t) ts with
                 | Some ts' => aset N.eqb i ts' m
                 | None => m
                 end
    | None => m
    end) issuers m.

Definition remove_claim_topic (s : cti) (t : Z) : res cti :=
  do topics' <- of_option (remove_first (Z.eqb t) (ct_topics s));
  Ok {| ct_topics := topics'; ct_issuers := ct_issuers s;
        ct_itopics := drop_topic_of_issuers t (ct_issuers s) (ct_itopics s);
        ct_tissuers := aremove Z.eqb t (ct_tissuers s) |}.

Fixpoint nodupb (l : list Z) : bool :=
  match l with [] => true | x :: r => negb (mem_z x r) && nodupb r end.

(* the input validation shared by add_trusted_issuer and update_issuer_claim_topics *)
Definition topics_arg_ok (c : cfg) (s : cti) (ts : list Z) : bool :=
  negb (is_nil ts) && (zlen ts <=? c_max_topics c) && nodupb ts
  && forallb (fun t => mem_z t (ct_topics s)) ts.

Fixpoint add_issuer_to_topics (i : addr) (ts : list Z) (m : list (Z * list addr)) : res (list (Z * list addr)) :=
  match ts with
  | [] => Ok m
  | t :: r =>
      do is <- of_option (aget Z.eqb t m);
      add_issuer_to_topics i r (aset Z.eqb t (is ++ [i]) m)
  end.
Fixpoint remove_issuer_from_topics (i : addr) (ts : list Z) (m : list (Z * list addr)) : res (list (Z * list addr)) :=
  match ts with
  | [] => Ok m
  | t :: r =>
      do is <- of_option (aget Z.eqb t m);
      remove_issuer_from_topics i r
        (match remove_first (N.eqb i) is with Some is' => aset Z.eqb t is' m | None => m end)
  end.

Definition add_trusted_issuer (c : cfg) (s : cti) (i : addr) (ts : list Z) : res cti :=
  if negb (topics_arg_ok c s ts) then Fail
  else if c_max_issuers c <=? zlen (ct_issuers s) then Fail
  else if mem_a i (ct_issuers s) then Fail
  else
    do m <- add_issuer_to_topics i ts (ct_tissuers s);
    Ok {| ct_topics := ct_topics s; ct_issuers := ct_issuers s ++ [i];
          ct_itopics := aset N.eqb i ts (ct_itopics s); ct_tissuers := m |}.

Definition remove_trusted_issuer (s : cti) (i : addr) : res cti :=
  do issuers' <- of_option (remove_first (N.eqb i) (ct_issuers s));
  do its <- get_trusted_issuer_claim_topics s i;
  do m <- remove_issuer_from_topics i its (ct_tissuers s);
  Ok {| ct_topics := ct_topics s; ct_issuers := issuers';
        ct_itopics := aremove N.eqb i (ct_itopics s); ct_tissuers := m |}.

Definition update_issuer_claim_topics (c : cfg) (s : cti) (i : addr) (ts : list Z) : res cti :=
  if negb (topics_arg_ok c s ts) then Fail
  else if negb (is_trusted_issuer s i) then Fail
  else
    do old <- get_trusted_issuer_claim_topics s i;
    let to_remove := filter (fun o => negb (mem_z o ts)) old in
    let to_add := filter (fun n => negb (mem_z n old)) ts in
    do m1 <- remove_issuer_from_topics i to_remove (ct_tissuers s);
    do m2 <- add_issuer_to_topics i to_add m1;
    Ok {| ct_topics := ct_topics s; ct_issuers := ct_issuers s;
          ct_itopics := aset N.eqb i ts (ct_itopics s); ct_tissuers := m2 |}.

(* ========================================================================= *)
(* identity registry storage (country data abstracted to the number of entries) *)
(* ========================================================================= *)
Record irs := {
  ir_identity : list (addr * addr);           (* Identity(account) *)
  ir_profile : list (addr * Z);               (* IdentityProfile(account): number of country entries *)
  ir_recovered : list (addr * addr)           (* RecoveredTo(old) *)
}.
Definition irs0 : irs := {| ir_identity := []; ir_profile := []; ir_recovered := [] |}.

Definition stored_identity (s : irs) (a : addr) : res addr := of_option (aget N.eqb a (ir_identity s)).
Definition get_recovered_to (s : irs) (a : addr) : option addr := aget N.eqb a (ir_recovered s).
Definition is_some {A} (o : option A) : bool := match o with Some _ => true | None => false end.

Definition add_identity (c : cfg) (s : irs) (a d : addr) (ncountries : Z) : res irs :=
  if is_some (get_recovered_to s a) then Fail
  else if ncountries =? 0 then Fail
  else if c_max_countries c <? ncountries then Fail
  else if is_some (aget N.eqb a (ir_identity s)) then Fail
  else Ok {| ir_identity := aset N.eqb a d (ir_identity s);
             ir_profile := aset N.eqb a ncountries (ir_profile s); ir_recovered := ir_recovered s |}.

Definition modify_identity (s : irs) (a d : addr) : res irs :=
  do _ <- stored_identity s a;
  Ok {| ir_identity := aset N.eqb a d (ir_identity s); ir_profile := ir_profile s; ir_recovered := ir_recovered s |}.

Definition remove_identity (s : irs) (a : addr) : res irs :=
  do _ <- stored_identity s a;
  do _ <- of_option (aget N.eqb a (ir_profile s));              (* .expect(..) *)
  Ok {| ir_identity := aremove N.eqb a (ir_identity s);
        ir_profile := aremove N.eqb a (ir_profile s); ir_recovered := ir_recovered s |}.

Definition recover_identity (s : irs) (old new : addr) : res irs :=
  if is_some (get_recovered_to s new) then Fail
  else
    do d <- stored_identity s old;
    if is_some (aget N.eqb new (ir_identity s)) then Fail
    else
      let ids := aremove N.eqb old (aset N.eqb new d (ir_identity s)) in
      do p <- of_option (aget N.eqb old (ir_profile s));        (* .expect(..) *)
      Ok {| ir_identity := ids;
            ir_profile := aremove N.eqb old (aset N.eqb new p (ir_profile s));
            ir_recovered := aset N.eqb old new (ir_recovered s) |}.

(* ========================================================================= *)
(* identity claims                                                            *)
(* ========================================================================= *)
(* claim id = keccak256(issuer_xdr || topic_be): represented by the pair it is computed
   from (the free, injective instance of the hash) *)
Definition cid := (addr * Z)%type.
Definition cid_eqb (a b : cid) : bool := N.eqb (fst a) (fst b) && (snd a =? snd b).

Record claim := CL {
  cl_topic : Z; cl_scheme : Z; cl_issuer : addr; cl_sig : bytes; cl_data : bytes; cl_uri : Z
}.
Definition claim_eqb (a b : claim) : bool :=
  (cl_topic a =? cl_topic b) && (cl_scheme a =? cl_scheme b) && N.eqb (cl_issuer a) (cl_issuer b)
  && bytes_eqb (cl_sig a) (cl_sig b) && bytes_eqb (cl_data a) (cl_data b) && (cl_uri a =? cl_uri b).

Record ident := {
  id_claims : list (cid * claim);             (* Claim(id) *)
  id_index : list (Z * list cid)              (* ClaimsByTopic(topic), absent = empty *)
}.
Definition ident0 : ident := {| id_claims := []; id_index := [] |}.

Definition get_claim (s : ident) (id : cid) : res claim := of_option (aget cid_eqb id (id_claims s)).
Definition get_claim_ids_by_topic (s : ident) (t : Z) : list cid :=
  match aget Z.eqb t (id_index s) with Some l => l | None => [] end.

(* [valid] = outcome of issuer.is_claim_valid(current_contract, topic, scheme, sig, data) *)
Definition add_claim (s : ident) (cl : claim) (valid : res unit) : res (ident * cid) :=
  do _ <- valid;
  let id := (cl_issuer cl, cl_topic cl) in
  let is_new := negb (is_some (aget cid_eqb id (id_claims s))) in
  Ok ({| id_claims := aset cid_eqb id cl (id_claims s);
         id_index := if is_new
                     then aset Z.eqb (cl_topic cl) (get_claim_ids_by_topic s (cl_topic cl) ++ [id]) (id_index s)
                     else id_index s |}, id).

Definition remove_claim (s : ident) (id : cid) : res ident :=
  do cl <- get_claim s id;
  let t := cl_topic cl in
  let ids := get_claim_ids_by_topic s t in
  Ok {| id_claims := aremove cid_eqb id (id_claims s);
        id_index := match remove_first (cid_eqb id) ids with
                    | Some ids' => if is_nil ids' then aremove Z.eqb t (id_index s)
                                   else aset Z.eqb t ids' (id_index s)
                    | None => id_index s
                    end |}.

(* harness-only entry point of the identity contract: store a claim without asking the issuer *)
Definition force_claim (s : ident) (id : cid) (index_topic : Z) (cl : claim) : ident :=
  let ids := get_claim_ids_by_topic s index_topic in
  {| id_claims := aset cid_eqb id cl (id_claims s);
     id_index := if existsb (cid_eqb id) ids then id_index s
                 else aset Z.eqb index_topic (ids ++ [id]) (id_index s) |}.

(* ========================================================================= *)
(* the world of contracts                                                     *)
(* ========================================================================= *)
Record world := {
  w_now : Z;                                  (* ledger timestamp *)
  w_ctis : list (addr * cti);
  w_irss : list (addr * irs);
  w_idents : list (addr * ident);
  w_issuers : list (addr * issuer);
  w_vcti : option addr;                       (* verifier: ClaimTopicsAndIssuers link *)
  w_virs : option addr                        (* verifier: IdentityRegistryStorage link *)
}.

Definition init (now : Z) (ctis irss idents issuers : list addr) : world :=
  {| w_now := now;
     w_ctis := map (fun a => (a, cti0)) ctis; w_irss := map (fun a => (a, irs0)) irss;
     w_idents := map (fun a => (a, ident0)) idents; w_issuers := map (fun a => (a, issuer0)) issuers;
     w_vcti := None; w_virs := None |}.

Definition the_cti (w : world) (a : addr) : res cti := of_option (aget N.eqb a (w_ctis w)).
Definition the_irs (w : world) (a : addr) : res irs := of_option (aget N.eqb a (w_irss w)).
Definition the_ident (w : world) (a : addr) : res ident := of_option (aget N.eqb a (w_idents w)).
Definition the_issuer (w : world) (a : addr) : res issuer := of_option (aget N.eqb a (w_issuers w)).

Definition set_cti (w : world) (a : addr) (s : cti) : world :=
  {| w_now := w_now w; w_ctis := aset N.eqb a s (w_ctis w); w_irss := w_irss w; w_idents := w_idents w;
     w_issuers := w_issuers w; w_vcti := w_vcti w; w_virs := w_virs w |}.
Definition set_irs (w : world) (a : addr) (s : irs) : world :=
  {| w_now := w_now w; w_ctis := w_ctis w; w_irss := aset N.eqb a s (w_irss w); w_idents := w_idents w;
     w_issuers := w_issuers w; w_vcti := w_vcti w; w_virs := w_virs w |}.
Definition set_ident (w : world) (a : addr) (s : ident) : world :=
  {| w_now := w_now w; w_ctis := w_ctis w; w_irss := w_irss w; w_idents := aset N.eqb a s (w_idents w);
     w_issuers := w_issuers w; w_vcti := w_vcti w; w_virs := w_virs w |}.
Definition set_issuer (w : world) (a : addr) (s : issuer) : world :=
  {| w_now := w_now w; w_ctis := w_ctis w; w_irss := w_irss w; w_idents := w_idents w;
     w_issuers := aset N.eqb a s (w_issuers w); w_vcti := w_vcti w; w_virs := w_virs w |}.

(* issuer.is_claim_valid(identity, topic, scheme, sig, data) as a cross-contract call *)
Definition call_is_claim_valid (c : cfg) (w : world) (i d : addr) (topic scheme : Z) (sig data : bytes) : res unit :=
  match the_issuer w i with
  | Ok s => is_claim_valid c (w_now w) i s d topic scheme sig data       (* a reference issuer *)
  | Fail => guard (c_other c i d topic scheme sig data)                  (* any other address: the oracle *)
  end.

(* registry.has_claim_topic(issuer, topic) as a cross-contract call *)
Definition call_has_claim_topic (w : world) (registry i : addr) (t : Z) : res bool :=
  do s <- the_cti w registry; has_claim_topic s i t.

(* ========================================================================= *)
(* identity verifier                                                          *)
(* ========================================================================= *)
Definition validate_claim (c : cfg) (w : world) (cl : claim) (topic : Z) (i d : addr) : bool :=
  if (cl_topic cl =? topic) && N.eqb (cl_issuer cl) i then
    is_ok (call_is_claim_valid c w i d topic (cl_scheme cl) (cl_sig cl) (cl_data cl))   (* try_is_claim_valid *)
  else false.

(* the inner loop of verify_identity over the issuers of one topic
   ([] is reached only when the list is empty from the start: the body never runs) *)
Fixpoint check_issuers (c : cfg) (w : world) (s : ident) (d : addr) (topic : Z) (ids : list cid)
    (issuers : list addr) : res unit :=
  match issuers with
  | [] => Ok tt
  | i :: rest =>
      let is_last := is_nil rest in
      if existsb (cid_eqb (i, topic)) ids then
        do cl <- get_claim s (i, topic);
        if validate_claim c w cl topic i d then Ok tt                  (* break *)
        else if is_last then Fail else check_issuers c w s d topic ids rest
      else if is_last then Fail else check_issuers c w s d topic ids rest
  end.

(* [fixed] = true: the code after commit 66a009a (a topic without issuers fails);
   false: the code before it *)
Definition check_topic (fixed : bool) (c : cfg) (w : world) (d : addr) (ti : Z * list addr) : res unit :=
  let '(topic, issuers) := ti in
  if fixed && is_nil issuers then Fail
  else
    do s <- the_ident w d;                                             (* get_claim_ids_by_topic *)
    check_issuers c w s d topic (get_claim_ids_by_topic s topic) issuers.

Fixpoint check_topics (fixed : bool) (c : cfg) (w : world) (d : addr) (m : list (Z * list addr)) : res unit :=
  match m with
  | [] => Ok tt
  | ti :: r => do _ <- check_topic fixed c w d ti; check_topics fixed c w d r
  end.

Definition verify_identity_gen (fixed : bool) (c : cfg) (w : world) (account : addr) : res unit :=
  do ra <- of_option (w_virs w);
  do r <- the_irs w ra;
  do d <- stored_identity r account;
  do ca <- of_option (w_vcti w);
  do ct <- the_cti w ca;
  do m <- get_claim_topics_and_issuers ct;
  check_topics fixed c w d m.

Definition verify_identity := verify_identity_gen true.
(* the behaviour before the fix of F4, kept for C15_prefix_refuted *)
Definition verify_identity_prefix := verify_identity_gen false.

Definition recovery_target (w : world) (old : addr) : res (option addr) :=
  do ra <- of_option (w_virs w);
  do r <- the_irs w ra;
  Ok (get_recovered_to r old).

(* ========================================================================= *)
(* calls                                                                      *)
(* ========================================================================= *)
Inductive call :=
(* claim topics and issuers contract c *)
| AddTopic (c : addr) (t : Z)
| RemoveTopic (c : addr) (t : Z)
| AddIssuer (c i : addr) (ts : list Z)
| RemoveIssuer (c i : addr)
| UpdateIssuer (c i : addr) (ts : list Z)
(* identity registry storage contract r *)
| AddIdentity (r a d : addr) (ncountries : Z)
| ModifyIdentity (r a d : addr)
| RemoveIdentity (r a : addr)
| RecoverIdentity (r old new : addr)
(* identity contract d *)
| AddClaim (d : addr) (cl : claim)
| RemoveClaim (d : addr) (id : cid)
| ForceClaim (d : addr) (id : cid) (index_topic : Z) (cl : claim)
(* issuer contract i *)
| AllowKey (i : addr) (pk : bytes) (registry : addr) (scheme topic : Z)
| RemoveKey (i : addr) (pk : bytes) (registry : addr) (scheme topic : Z)
| Invalidate (i d : addr) (topic : Z)
| SetRevoked (i d : addr) (topic : Z) (data : bytes) (revoked : bool)
| IsClaimValid (i d : addr) (topic scheme : Z) (sig data : bytes)
| AuthorizedFor (i registry : addr) (topic : Z)
| Message (i d : addr) (topic : Z) (data : bytes)
| Identifier (i d : addr) (topic : Z) (data : bytes)
| Extract (i : addr) (scheme : Z) (sig : bytes)
| Encode (i : addr) (created_at valid_until : Z) (payload : bytes)
| Decode (i : addr) (data : bytes)
| Expired (i : addr) (data : bytes)
(* verifier *)
| SetCti (c : addr)
| SetIrs (r : addr)
| Verify (a : addr)
| ValidateClaim (cl : claim) (topic : Z) (i d : addr)
| RecoveryTarget (old : addr)
(* ledger *)
| Advance (dt : Z)                      (* timestamp += dt *)
| Ledger (n dt : Z).                    (* n ledgers close (sequence += n), timestamp += dt: every entry persists *)

Inductive oval :=
| VUnit
| VBool (b : bool)
| VBytes (b : bytes)
| VCid (id : cid)
| VSig (pk sg : bytes) (rid : Z)
| VDec (created_at valid_until : Z) (payload : bytes)
| VOptAddr (o : option addr).

Definition outcome := res oval.

Definition upd {S} (w : world) (r : res S) (set : S -> world) : world * outcome :=
  match r with Ok s => (set s, Ok VUnit) | Fail => (w, Fail) end.
Definition pure (w : world) (r : res oval) : world * outcome := (w, r).

Definition step (c : cfg) (w : world) (k : call) : world * outcome :=
  match k with
  | AddTopic a t => upd w (do s <- the_cti w a; add_claim_topic c s t) (set_cti w a)
  | RemoveTopic a t => upd w (do s <- the_cti w a; remove_claim_topic s t) (set_cti w a)
  | AddIssuer a i ts => upd w (do s <- the_cti w a; add_trusted_issuer c s i ts) (set_cti w a)
  | RemoveIssuer a i => upd w (do s <- the_cti w a; remove_trusted_issuer s i) (set_cti w a)
  | UpdateIssuer a i ts => upd w (do s <- the_cti w a; update_issuer_claim_topics c s i ts) (set_cti w a)
  | AddIdentity r a d n => upd w (do s <- the_irs w r; add_identity c s a d n) (set_irs w r)
  | ModifyIdentity r a d => upd w (do s <- the_irs w r; modify_identity s a d) (set_irs w r)
  | RemoveIdentity r a => upd w (do s <- the_irs w r; remove_identity s a) (set_irs w r)
  | RecoverIdentity r o n => upd w (do s <- the_irs w r; recover_identity s o n) (set_irs w r)
  | AddClaim d cl =>
      match (do s <- the_ident w d;
             add_claim s cl (call_is_claim_valid c w (cl_issuer cl) d (cl_topic cl) (cl_scheme cl) (cl_sig cl) (cl_data cl))) with
      | Ok (s', id) => (set_ident w d s', Ok (VCid id))
      | Fail => (w, Fail)
      end
  | RemoveClaim d id => upd w (do s <- the_ident w d; remove_claim s id) (set_ident w d)
  | ForceClaim d id t cl => upd w (do s <- the_ident w d; Ok (force_claim s id t cl)) (set_ident w d)
  | AllowKey i pk registry scheme topic =>
      upd w (do s <- the_issuer w i; allow_key c s pk registry scheme topic (call_has_claim_topic w registry i topic))
          (set_issuer w i)
  | RemoveKey i pk registry scheme topic =>
      upd w (do s <- the_issuer w i; remove_key s pk registry scheme topic) (set_issuer w i)
  | Invalidate i d topic => upd w (do s <- the_issuer w i; invalidate_claim_signatures s d topic) (set_issuer w i)
  | SetRevoked i d topic data r =>
      upd w (do s <- the_issuer w i; Ok (set_claim_revoked s d topic data r)) (set_issuer w i)
  | IsClaimValid i d topic scheme sig data =>
      pure w (do _ <- call_is_claim_valid c w i d topic scheme sig data; Ok VUnit)
  | AuthorizedFor i registry topic =>
      pure w (do _ <- the_issuer w i; do b <- call_has_claim_topic w registry i topic; Ok (VBool b))
  | Message i d topic data =>
      pure w (do s <- the_issuer w i; Ok (VBytes (claim_message c i s d topic data)))
  | Identifier i d topic data =>
      pure w (do _ <- the_issuer w i; Ok (VBytes (claim_identifier c i d topic data)))
  | Extract i scheme sig =>
      pure w (do _ <- the_issuer w i; do sd <- extract_sig scheme sig; Ok (VSig (sd_pk sd) (sd_sig sd) (sd_rid sd)))
  | Encode i ca vu p => pure w (do _ <- the_issuer w i; do b <- encode_expiration ca vu p; Ok (VBytes b))
  | Decode i data =>
      pure w (do _ <- the_issuer w i; do x <- decode_expiration data;
              let '(ca, vu, p) := x in Ok (VDec ca vu p))
  | Expired i data => pure w (do _ <- the_issuer w i; do b <- is_claim_expired (w_now w) data; Ok (VBool b))
  | SetCti a =>
      ({| w_now := w_now w; w_ctis := w_ctis w; w_irss := w_irss w; w_idents := w_idents w;
          w_issuers := w_issuers w; w_vcti := Some a; w_virs := w_virs w |}, Ok VUnit)
  | SetIrs a =>
      ({| w_now := w_now w; w_ctis := w_ctis w; w_irss := w_irss w; w_idents := w_idents w;
          w_issuers := w_issuers w; w_vcti := w_vcti w; w_virs := Some a |}, Ok VUnit)
  | Verify a => pure w (do _ <- verify_identity c w a; Ok VUnit)
  | ValidateClaim cl topic i d => pure w (Ok (VBool (validate_claim c w cl topic i d)))
  | RecoveryTarget old => pure w (do o <- recovery_target w old; Ok (VOptAddr o))
  | Advance dt =>
      ({| w_now := w_now w + dt; w_ctis := w_ctis w; w_irss := w_irss w; w_idents := w_idents w;
          w_issuers := w_issuers w; w_vcti := w_vcti w; w_virs := w_virs w |}, Ok VUnit)
  | Ledger _ dt =>
      ({| w_now := w_now w + dt; w_ctis := w_ctis w; w_irss := w_irss w; w_idents := w_idents w;
          w_issuers := w_issuers w; w_vcti := w_vcti w; w_virs := w_virs w |}, Ok VUnit)
  end.

Definition run (c : cfg) (w : world) (ks : list call) : world :=
  fold_left (fun w k => fst (step c w k)) ks w.
