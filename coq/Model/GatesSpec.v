(* C16 - the property as a specification over what can be observed from outside:
   the history of successful gate operations ([hist]) and the getter values ([view]).
   Used (a) by the monitor of Run/C16.v on implementation traces, with the view read off the
   implementation's getters, and (b) by Proofs/Gates.v, which shows that the model meets it
   with the view read off the model state.  Nothing here looks inside a contract. *)
From SC Require Import Lib.Prelude Lib.Int Lib.Host Model.Gates.

(* ------------------------------------------------------------------ *)
(* history of the gate operations that succeeded                       *)
Record hist := mkHist {
  h_now : Z;                  (* ledger: deployment ledger + the Advance calls seen *)
  h_paused : bool;            (* the last successful pause/unpause was a pause *)
  h_listed : addr -> bool;    (* the last successful list change of the address put it on the list *)
  h_armed : bool;             (* an upgrade succeeded since the last successful migration *)
  h_mgr : addr -> bool;       (* the last successful grant/revoke/renounce of "manager" for the address was a grant
                                 (constructor: the manager argument) *)
  h_lu : addr -> addr -> Z    (* live_until_ledger of the last successful approve(owner, spender) (0 if none) *)
}.

Definition hist0 (c : cfg) : hist :=
  mkHist (now0 c) false
         (match knd c with KAllowEx => fun a => N.eqb a (owner c) | _ => fun _ => false end)  (* the constructor allows the admin *)
         false
         (fun a => N.eqb a (manager c))
         (fun _ _ => 0).

Definition hist_upd (h : hist) (o : op) : hist :=
  match o with
  | Advance n => mkHist (h_now h + n) (h_paused h) (h_listed h) (h_armed h) (h_mgr h) (h_lu h)
  | Pause _ => mkHist (h_now h) true (h_listed h) (h_armed h) (h_mgr h) (h_lu h)
  | Unpause _ => mkHist (h_now h) false (h_listed h) (h_armed h) (h_mgr h) (h_lu h)
  | AllowUser u _ | BlockUser u _ => mkHist (h_now h) (h_paused h) (updB (h_listed h) u true) (h_armed h) (h_mgr h) (h_lu h)
  | DisallowUser u _ | UnblockUser u _ => mkHist (h_now h) (h_paused h) (updB (h_listed h) u false) (h_armed h) (h_mgr h) (h_lu h)
  | Upgrade _ _ | LibEnable => mkHist (h_now h) (h_paused h) (h_listed h) true (h_mgr h) (h_lu h)
  | Migrate _ _ | LibComplete => mkHist (h_now h) (h_paused h) (h_listed h) false (h_mgr h) (h_lu h)
  | Approve ow sp _ lu =>
      mkHist (h_now h) (h_paused h) (h_listed h) (h_armed h) (h_mgr h)
             (fun x y => if N.eqb x ow && N.eqb y sp then lu else h_lu h x y)
  | GrantManager a _ => mkHist (h_now h) (h_paused h) (h_listed h) (h_armed h) (updB (h_mgr h) a true) (h_lu h)
  | RevokeManager a _ | RenounceManager a => mkHist (h_now h) (h_paused h) (h_listed h) (h_armed h) (updB (h_mgr h) a false) (h_lu h)
  | _ => h
  end.

(* ------------------------------------------------------------------ *)
(* getter values                                                       *)
Record view := mkView {
  v_supply : Z;
  v_bal : addr -> Z;
  v_alw : addr -> addr -> Z;      (* allowance(owner, spender) at the current ledger *)
  v_cap : option Z;
  v_data : option Z
}.

(* ------------------------------------------------------------------ *)
Definition pausable_op (o : op) : bool :=
  match o with
  | Transfer _ _ _ | TransferMux _ _ _ _ | TransferFrom _ _ _ _ | Burn _ _ | BurnFrom _ _ _ | Mint _ _ | WhenNotPaused => true
  | _ => false
  end.
Definition is_paus (k : kind) : bool := match k with KPaus | KPausEx | KPausLib => true | _ => false end.

(* the parties an allow/block-listed token must vet (the spender deliberately not) *)
Definition vetted (o : op) : list addr :=
  match o with
  | Transfer f t _ => [f; t]
  | TransferMux f t _ _ => [f; t]                  (* the underlying address of the muxed receiver *)
  | TransferFrom _ f t _ => [f; t]
  | Approve ow _ _ _ => [ow]
  | Burn f _ => [f]
  | BurnFrom _ f _ => [f]
  | _ => []
  end.

Definition implies (a b : bool) : bool := negb a || b.

(* which token entry points a contract has *)
Definition has_entry (k : kind) (o : op) : bool :=
  match k, o with
  | KPaus, (Transfer _ _ _ | TransferFrom _ _ _ _ | Approve _ _ _ _ | Burn _ _ | BurnFrom _ _ _ | Mint _ _) => true
  | KAllowEx, (Transfer _ _ _ | TransferFrom _ _ _ _ | Approve _ _ _ _ | Burn _ _ | BurnFrom _ _ _) => true
  | KAllowLib, (Transfer _ _ _ | TransferFrom _ _ _ _ | Approve _ _ _ _ | Burn _ _ | BurnFrom _ _ _ | Mint _ _) => true
  | KBlockEx, (Transfer _ _ _ | TransferFrom _ _ _ _ | Approve _ _ _ _) => true
  | KBlockLib, (Transfer _ _ _ | TransferFrom _ _ _ _ | Approve _ _ _ _ | Burn _ _ | BurnFrom _ _ _ | Mint _ _) => true
  | KCapEx, (Transfer _ _ _ | TransferFrom _ _ _ _ | Approve _ _ _ _ | Mint _ _) => true
  | KCapLib, (Transfer _ _ _ | TransferFrom _ _ _ _ | Approve _ _ _ _ | Burn _ _ | BurnFrom _ _ _ | Mint _ _) => true
  | _, _ => false
  end.

(* the gates of a token entry point, from the history and the getters *)
Definition gate_open (c : cfg) (h : hist) (v : view) (o : op) : bool :=
  match knd c with
  | KPaus => implies (pausable_op o) (negb (h_paused h))
  | KAllowEx | KAllowLib => forallb (h_listed h) (vetted o)
  | KBlockEx | KBlockLib => forallb (fun a => negb (h_listed h a)) (vetted o)
  | KCapEx | KCapLib =>
      match o with
      | Mint _ a => match v_cap v with
                    | Some cp => in_i128 (v_supply v + a) && negb (cp <? v_supply v + a)
                    | None => false
                    end
      | _ => true
      end
  | _ => true
  end.

(* the fungible core's own conditions *)
Definition debit_ok (v : view) (f : addr) (a : Z) : bool := negb (v_bal v f <? a) && in_i128 (v_bal v f - a).
Definition credit_ok (v : view) (f : option addr) (t : addr) (a : Z) : bool :=
  let bt := match f with
            | Some f' => if N.eqb t f' then v_bal v f' - a else v_bal v t
            | None => v_bal v t
            end in
  in_i128 (bt + a).
Definition spend_ok (v : view) (f sp : addr) (a : Z) : bool :=
  negb (v_alw v f sp <? a) && implies (0 <? a) (in_i128 (v_alw v f sp - a)).

Definition base_ok (c : cfg) (h : hist) (v : view) (au : list addr) (o : op) : bool :=
  match o with
  | Transfer f t a => has_auth au f && negb (a <? 0) && debit_ok v f a && credit_ok v (Some f) t a
  | TransferFrom sp f t a =>
      has_auth au sp && negb (a <? 0) && spend_ok v f sp a && debit_ok v f a && credit_ok v (Some f) t a
  | Approve ow sp a lu =>
      has_auth au ow && negb (a <? 0)
      && negb ((h_now h + max_ttl c - 1 <? lu) || ((0 <? a) && (lu <? h_now h)))
  | Burn f a => has_auth au f && negb (a <? 0) && debit_ok v f a && in_i128 (v_supply v - a)
  | BurnFrom sp f a =>
      has_auth au sp && negb (a <? 0) && spend_ok v f sp a && debit_ok v f a && in_i128 (v_supply v - a)
  | Mint t a => negb (a <? 0) && in_i128 (v_supply v + a) && credit_ok v None t a
  | _ => false
  end.

Definition is_mint (o : op) : bool := match o with Mint _ _ => true | _ => false end.

(* does the call succeed?  Gates open and nothing else in the way. *)
Definition expected_ok (c : cfg) (h : hist) (v : view) (cl : call) : bool :=
  let k := knd c in
  let au := snd cl in
  match fst cl with
  | Advance n => negb (n <? 0)
  | Pause caller =>
      (((kind_eqb k KPaus || kind_eqb k KPausEx) && has_auth au caller && N.eqb (owner c) caller) || kind_eqb k KPausLib)
      && negb (h_paused h)
  | Unpause caller =>
      (((kind_eqb k KPaus || kind_eqb k KPausEx) && has_auth au caller && N.eqb (owner c) caller) || kind_eqb k KPausLib)
      && h_paused h
  | WhenNotPaused => (kind_eqb k KPausEx || kind_eqb k KPausLib) && negb (h_paused h) && (v_supply v + 1 <=? MAXI32)
  | WhenPaused => (kind_eqb k KPausEx || kind_eqb k KPausLib) && h_paused h
  | TransferMux f t _ a =>
      let o := Transfer f t a in
      has_entry k o && gate_open c h v o && base_ok c h v au o
      && implies (kind_eqb k KPaus && is_mint o) (has_auth au (owner c))
  | AllowUser _ operator | DisallowUser _ operator =>
      (kind_eqb k KAllowEx && h_mgr h operator && has_auth au operator) || kind_eqb k KAllowLib
  | BlockUser _ operator | UnblockUser _ operator =>
      (kind_eqb k KBlockEx && h_mgr h operator && has_auth au operator) || kind_eqb k KBlockLib
  | SetCap x => kind_eqb k KCapLib && negb (x <? 0)
  | Upgrade w operator =>
      (kind_eqb k KUpgV1 || kind_eqb k KUpgV2) && has_auth au operator && N.eqb operator (owner c) && w
  | Migrate _ operator =>
      (kind_eqb k KUpgV1 || kind_eqb k KUpgV2) && has_auth au operator && N.eqb operator (owner c) && h_armed h
  | LibEnable | LibComplete => kind_eqb k KUpgLib
  | LibEnsure => kind_eqb k KUpgLib && h_armed h
  | GrantManager _ caller => (kind_eqb k KAllowEx || kind_eqb k KBlockEx) && has_auth au caller && N.eqb caller (owner c)
  | RevokeManager a caller =>
      (kind_eqb k KAllowEx || kind_eqb k KBlockEx) && has_auth au caller && N.eqb caller (owner c) && h_mgr h a
  | RenounceManager caller => (kind_eqb k KAllowEx || kind_eqb k KBlockEx) && has_auth au caller && h_mgr h caller
  | o =>
      has_entry k o && gate_open c h v o && base_ok c h v au o
      && implies (kind_eqb k KPaus && is_mint o) (has_auth au (owner c))
  end.

(* effect of a successful call on supply, balances, allowances, cap, migration data *)
Definition exp_supply (v : view) (o : op) : Z :=
  match o with
  | Mint _ a => v_supply v + a
  | Burn _ a | BurnFrom _ _ a => v_supply v - a
  | WhenNotPaused => v_supply v + 1
  | WhenPaused => 0
  | _ => v_supply v
  end.
Definition exp_bal (v : view) (o : op) (x : addr) : Z :=
  match o with
  | Transfer f t a | TransferFrom _ f t a | TransferMux f t _ a =>
      let b1 := fun y => if N.eqb y f then v_bal v f - a else v_bal v y in
      if N.eqb x t then b1 t + a else b1 x
  | Burn f a | BurnFrom _ f a => if N.eqb x f then v_bal v f - a else v_bal v x
  | Mint t a => if N.eqb x t then v_bal v t + a else v_bal v x
  | _ => v_bal v x
  end.
Definition exp_alw (v : view) (o : op) (x y : addr) : Z :=
  match o with
  | TransferFrom sp f _ a | BurnFrom sp f a => if N.eqb x f && N.eqb y sp then v_alw v f sp - a else v_alw v x y
  | Approve ow sp a _ => if N.eqb x ow && N.eqb y sp then a else v_alw v x y
  | _ => v_alw v x y
  end.
Definition exp_cap (v : view) (o : op) : option Z := match o with SetCap x => Some x | _ => v_cap v end.
Definition exp_data (v : view) (o : op) : option Z := match o with Migrate d _ => Some d | _ => v_data v end.

(* ------------------------------------------------------------------ *)
(* well-formed generated inputs: addresses inside the observed universe, deployment
   parameters the host accepts *)
Definition in_uni (c : cfg) (a : addr) : bool := (N.to_nat a <? na c)%nat.
Definition wf_op (c : cfg) (o : op) : bool :=
  match o with
  | Transfer f t _ | TransferMux f t _ _ => in_uni c f && in_uni c t
  | TransferFrom sp f t _ => in_uni c sp && in_uni c f && in_uni c t
  | Approve ow sp _ _ => in_uni c ow && in_uni c sp
  | Burn f _ => in_uni c f
  | BurnFrom sp f _ => in_uni c sp && in_uni c f
  | Mint t _ => in_uni c t
  | _ => true
  end.
Definition wf_call (c : cfg) (cl : call) : bool := wf_op c (fst cl).
Definition wf_cfg (c : cfg) : bool := (0 <=? now0 c) && (1 <=? max_ttl c) && ctor_ok c.
