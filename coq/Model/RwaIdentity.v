(* C04, third layer - executable model of the identity verifier the RWA token consults
   (packages/tokens/src/rwa/identity_verifier/storage.rs: verify_identity, validate_claim,
   recovery_target).  It is a read-only function of the world around it - the identity registry
   storage, the claim-topics-and-issuers registry, the identity (claim holder) contracts and the
   claim issuers - which is therefore an INPUT of every call ([iworld]); the calls the claim
   issuers receive are logged (an observation).

   Claim ids: generate_claim_id(issuer, topic) = keccak256(issuer xdr ++ topic) is modelled as the
   pair (issuer, topic) itself, i.e. the hash is assumed injective on such pairs; a claim is
   stored by an identity under such a key and carries its own topic / issuer fields, which need
   not agree with the key. *)
From SC Require Import Lib.Prelude Lib.Int Lib.Host.

Record claim := mkClaim {
  k_issuer : addr; k_topic : Z;     (* the id under which the identity stores the claim *)
  c_topic : Z; c_issuer : addr;     (* Claim.topic, Claim.issuer *)
  c_valid : bool                    (* does its issuer's is_claim_valid accept it = return plainly; anything else
                                       is a refusal: a contract error, a trap, an answered value (try_is_claim_valid
                                       is then not Ok(Ok(_))), or no contract deployed at the issuer's address *)
}.

Record iworld := mkIW {
  w_ident : list (addr * addr);            (* IRS.stored_identity: account -> identity contract (absent = panics) *)
  w_topics : list (Z * list addr);         (* CTI.get_claim_topics_and_issuers: required topic -> trusted issuers,
                                              in the Map's iteration order (ascending topic) *)
  w_claims : list (addr * list claim);     (* identity contract -> the claims it holds *)
  w_recovered : list (addr * addr)         (* IRS.get_recovered_to: old account -> new account *)
}.

(* one entry per is_claim_valid call that RETURNED: (issuer, identity, topic).  A refusing issuer
   panics inside try_is_claim_valid and the host rolls that sub-invocation back, so a refusal leaves
   no trace anywhere. *)
Definition ilog := list (addr * addr * Z).

Definition claims_of (w : iworld) (idn : addr) : list claim :=
  match alist_get idn (w_claims w) with Some l => l | None => [] end.

(* account_claim_ids.contains(claim_id) / identity_client.get_claim(claim_id) *)
Definition find_claim (cl : list claim) (issuer : addr) (topic : Z) : option claim :=
  find (fun c => N.eqb (k_issuer c) issuer && (k_topic c =? topic)) cl.

(* validate_claim: the issuer is asked only if the claim's own topic and issuer fields match *)
Definition fields_match (c : claim) (topic : Z) (issuer : addr) : bool :=
  (c_topic c =? topic) && N.eqb (c_issuer c) issuer.

(* the inner loop over the trusted issuers of one topic; [Ok] = left by `break` or ran out of
   elements, [Fail] = IdentityVerificationFailed at the last issuer *)
Fixpoint issuers_loop (cl : list claim) (idn : addr) (topic : Z) (issuers : list addr) (lg : ilog) : res ilog :=
  match issuers with
  | [] => Ok lg
  | i :: r =>
      let is_last := match r with [] => true | _ => false end in
      match find_claim cl i topic with
      | Some c =>
          if fields_match c topic i && c_valid c                 (* validate_claim: try_is_claim_valid is Ok(Ok(_)) *)
          then Ok (lg ++ [(i, idn, topic)])                      (* break *)
          else if is_last then Fail else issuers_loop cl idn topic r lg
      | None => if is_last then Fail else issuers_loop cl idn topic r lg
      end
  end.

(* the outer loop over the required topics *)
Fixpoint topics_loop (cl : list claim) (idn : addr) (ts : list (Z * list addr)) (lg : ilog) : res ilog :=
  match ts with
  | [] => Ok lg
  | (topic, issuers) :: r =>
      match issuers with
      | [] => Fail                                               (* issuers.is_empty() (fix 66a009a) *)
      | _ => do lg' <- issuers_loop cl idn topic issuers lg; topics_loop cl idn r lg'
      end
  end.

(* verify_identity *)
Definition iverify_identity (w : iworld) (account : addr) : res ilog :=
  do idn <- of_option (alist_get account (w_ident w));           (* irs_client.stored_identity(account) *)
  topics_loop (claims_of w idn) idn (w_topics w) [].

(* recovery_target *)
Definition irecovery_target (w : iworld) (old : addr) : option addr := alist_get old (w_recovered w).

Inductive iop :=
| IVerify (account : addr)
| IRecoveryTarget (old : addr)
| ILinks                       (* are the verifier's links to its two registries (instance storage:
                                  ClaimTopicsAndIssuers, IdentityRegistryStorage) still there; the harness sets
                                  both when it creates the verifier and nothing ever removes them *)
| IAdvance (n : Z).            (* the ledger advances by n *)
Record icall := mkIC { ic_op : iop; ic_world : iworld }.

Inductive iret := IUnit | ITarget (t : option addr) | ILinked (cti irs : bool).

Definition istep (c : icall) : res iret * ilog :=
  match ic_op c with
  | IVerify a => match iverify_identity (ic_world c) a with Ok lg => (Ok IUnit, lg) | Fail => (Fail, []) end
  | IRecoveryTarget old => (Ok (ITarget (irecovery_target (ic_world c) old)), [])
  | ILinks => (Ok (ILinked true true), [])
  | IAdvance _ => (Ok IUnit, [])
  end.

(* ------------------------------------------------------------------ *)
(* the specification: an account is verified iff it has a registered identity that holds, for
   EVERY required topic, a claim of SOME trusted issuer of that topic which names that topic and
   that issuer and which that issuer accepts *)
Definition holds_valid (cl : list claim) (issuer : addr) (topic : Z) : bool :=
  match find_claim cl issuer topic with
  | Some c => fields_match c topic issuer && c_valid c
  | None => false
  end.
Definition topic_satisfied (cl : list claim) (t : Z * list addr) : bool :=
  existsb (fun i => holds_valid cl i (fst t)) (snd t).
Definition verified (w : iworld) (account : addr) : bool :=
  match alist_get account (w_ident w) with
  | Some idn => forallb (topic_satisfied (claims_of w idn)) (w_topics w)
  | None => false
  end.
